/-
`Inv` is inductive: it holds initially and every enabled event preserves it.
-/
import QbiceVerif.Lemmas.Interner

namespace QbiceVerif.Interner

theorem tasks_after {s : State} {t : Nat} {tk tk' : Task} (ht : s.tasks[t]? = some tk) (t2 : Nat) :
    (s.tasks.set t tk')[t2]? = if t = t2 then some tk' else s.tasks[t2]? := by
  have hlt : t < s.tasks.length := by
    rcases Nat.lt_or_ge t s.tasks.length with h | h
    · exact h
    · rw [List.getElem?_eq_none h] at ht; cases ht
  rw [List.getElem?_set]
  by_cases h : t = t2 <;> simp [h]
  subst h; exact hlt

theorem noWriter_spec {c : Cfg} {s : State} {l : LockId} (h : s.noWriter c l = true)
    {t : Nat} {tk : Task} (ht : s.tasks[t]? = some tk) : Pc.wlock c tk.pc ≠ some l := by
  unfold State.noWriter at h
  rw [List.all_eq_true] at h
  have := h tk (List.mem_of_getElem? ht)
  simpa using this

theorem noReader_spec {c : Cfg} {s : State} {l : LockId} (h : s.noReader c l = true)
    {t : Nat} {tk : Task} (ht : s.tasks[t]? = some tk) : Pc.rlock c tk.pc ≠ some l := by
  unfold State.noReader at h
  rw [List.all_eq_true] at h
  have := h tk (List.mem_of_getElem? ht)
  simpa using this

/-- locks held after a step were held before or were free when acquired -/
theorem act_locks {c : Cfg} {s : State} {tk tk' : Task} {a : Act} {tb al}
    (hr : ActR c s tk a tk' tb al) :
    (∀ l, Pc.wlock c tk'.pc = some l → Pc.wlock c tk.pc = some l ∨
        (s.noWriter c l = true ∧ s.noReader c l = true)) ∧
    (∀ l, Pc.rlock c tk'.pc = some l → Pc.rlock c tk.pc = some l ∨ s.noWriter c l = true) := by
  cases hr <;> simp_all [Pc.wlock, Pc.rlock]

theorem setTable_same (tb : Slot → Option Nat) (k : Slot) (x : Option Nat) : setTable tb k x k = x := by
  simp [setTable]

theorem setTable_other (tb : Slot → Option Nat) {k k' : Slot} (x : Option Nat) (h : k' ≠ k) :
    setTable tb k x k' = tb k' := by
  simp [setTable, h]

section preserve
variable {c : Cfg} {s : State} {t : Nat} {tk tk' : Task} {a : Act} {tb : Slot → Option Nat} {al : List Val}

theorem inv_canon (hI : Inv c s) (ht : s.tasks[t]? = some tk) (hr : ActR c s tk a tk' tb al) :
    ∀ x, Live ⟨s.tasks.set t tk', tb, al⟩ x → ∃ v, al[x]? = some v ∧ tb (c.slot v) = some x := by
  have hh := act_handles hr
  have hfr : a ≠ .allocStore → ∀ x, Live ⟨s.tasks.set t tk', tb, al⟩ x → Live s x :=
    fun hne x hx => live_mono ht rfl (hh hne) hx
  have hpc := hI.pcOk t tk ht
  cases hr
  case allocStore v hv =>
    intro x hx
    rw [hv] at hpc
    rcases (live_after ht rfl x).1 hx with h | h
    · simp only [Task.handles, Pc.handles, List.mem_append, List.mem_singleton] at h
      rcases h with h | rfl
      · have hl : Live s x := (live_before ht x).2 (Or.inl (by simp [Task.handles, h]))
        obtain ⟨w, hw1, hw2⟩ := hI.canon x hl
        refine ⟨w, ?_, ?_⟩
        · rw [List.getElem?_append_left (by
            rcases Nat.lt_or_ge x s.allocs.length with h' | h'
            · exact h'
            · rw [List.getElem?_eq_none h'] at hw1; cases hw1)]
          exact hw1
        · by_cases hk : c.slot w = c.slot v
          · exact absurd hl (hpc x (hk ▸ hw2))
          · rw [setTable_other _ _ hk]; exact hw2
      · exact ⟨v, by simp, by simp [setTable]⟩
    · have hl : Live s x := (live_before ht x).2 (Or.inr h)
      obtain ⟨w, hw1, hw2⟩ := hI.canon x hl
      refine ⟨w, ?_, ?_⟩
      · rw [List.getElem?_append_left (by
          rcases Nat.lt_or_ge x s.allocs.length with h' | h'
          · exact h'
          · rw [List.getElem?_eq_none h'] at hw1; cases hw1)]
        exact hw1
      · by_cases hk : c.slot w = c.slot v
        · exact absurd hl (hpc x (hk ▸ hw2))
        · rw [setTable_other _ _ hk]; exact hw2
  case vacUpDead l k a0 hv hl htb hdead =>
    intro x hx
    have hl : Live s x := hfr (by simp) x hx
    obtain ⟨w, hw1, hw2⟩ := hI.canon x hl
    refine ⟨w, hw1, ?_⟩
    by_cases hk : c.slot w = k
    · rw [hk, htb] at hw2
      cases hw2
      exact absurd hl ((liveB_false_iff _ _).1 hdead)
    · rw [setTable_other _ _ hk]; exact hw2
  all_goals exact fun x hx => hI.canon x (hfr (by simp) x hx)

theorem inv_tableWF (hI : Inv c s) (hr : ActR c s tk a tk' tb al) :
    ∀ k x, tb k = some x → ∃ v, al[x]? = some v ∧ c.slot v = k := by
  cases hr
  case allocStore v hv =>
    intro k x hx
    by_cases hk : k = c.slot v
    · subst hk
      rw [setTable_same] at hx
      cases hx
      exact ⟨v, by simp, rfl⟩
    · rw [setTable_other _ _ hk] at hx
      obtain ⟨w, hw1, hw2⟩ := hI.tableWF k x hx
      refine ⟨w, ?_, hw2⟩
      rw [List.getElem?_append_left (by
        rcases Nat.lt_or_ge x s.allocs.length with h' | h'
        · exact h'
        · rw [List.getElem?_eq_none h'] at hw1; cases hw1)]
      exact hw1
  case vacUpDead l k0 a0 hv hl htb hdead =>
    intro k x hx
    by_cases hk : k = k0
    · subst hk; rw [setTable_same] at hx; cases hx
    · rw [setTable_other _ _ hk] at hx
      exact hI.tableWF k x hx
  all_goals exact hI.tableWF

theorem inv_excl (hI : Inv c s) (ht : s.tasks[t]? = some tk) (hr : ActR c s tk a tk' tb al) :
    ∀ (t1 t2 : Nat) (tk1 tk2 : Task) (l : LockId), t1 ≠ t2 →
      (s.tasks.set t tk')[t1]? = some tk1 → (s.tasks.set t tk')[t2]? = some tk2 →
      Pc.wlock c tk1.pc = some l → Pc.wlock c tk2.pc ≠ some l ∧ Pc.rlock c tk2.pc ≠ some l := by
  obtain ⟨hw, hrd⟩ := act_locks hr
  intro t1 t2 tk1 tk2 l hne h1 h2 hl
  rw [tasks_after ht] at h1 h2
  by_cases e1 : t = t1
  · subst e1
    have e2 : ¬ t = t2 := hne
    simp only [if_true] at h1
    simp only [e2, if_false] at h2
    cases h1
    rcases hw l hl with h | ⟨h, h'⟩
    · exact hI.excl t t2 tk tk2 l hne ht h2 h
    · exact ⟨noWriter_spec h h2, noReader_spec h' h2⟩
  · simp only [e1, if_false] at h1
    by_cases e2 : t = t2
    · subst e2
      simp only [if_true] at h2
      cases h2
      have hold := hI.excl t1 t tk1 tk l hne h1 ht hl
      constructor
      · intro hc
        rcases hw l hc with h | ⟨h, _⟩
        · exact hold.1 h
        · exact noWriter_spec h h1 hl
      · intro hc
        rcases hrd l hc with h | h
        · exact hold.2 h
        · exact noWriter_spec h h1 hl
    · simp only [e2, if_false] at h2
      exact hI.excl t1 t2 tk1 tk2 l hne h1 h2 hl

theorem act_allocs (hr : ActR c s tk a tk' tb al) :
    ∀ (x : Nat) (w : Val), s.allocs[x]? = some w → al[x]? = some w := by
  cases hr
  case allocStore v hv =>
    intro x w hw
    rw [List.getElem?_append_left (by
      rcases Nat.lt_or_ge x s.allocs.length with h' | h'
      · exact h'
      · rw [List.getElem?_eq_none h'] at hw; cases hw)]
    exact hw
  all_goals exact fun _ _ h => h

/-- the table entry of a slot whose lock the acting task does not write-hold is untouched -/
theorem act_table_other (hr : ActR c s tk a tk' tb al) (k : Slot)
    (hk : Pc.wlock c tk.pc ≠ some (c.lockOf k)) : tb k = s.table k := by
  cases hr
  case allocStore v hv =>
    rw [hv] at hk
    simp only [Pc.wlock] at hk
    have : k ≠ c.slot v := fun h => hk (by rw [h])
    exact setTable_other _ _ this
  case vacUpDead l k0 a0 hv hl htb hdead =>
    rw [hv] at hk
    simp only [Pc.wlock] at hk
    have : k ≠ k0 := fun h => hk (by rw [h, hl])
    exact setTable_other _ _ this
  all_goals rfl

theorem act_handles' (hr : ActR c s tk a tk' tb al) :
    ∀ x, x ∈ tk'.handles → x ∈ tk.handles ∨ Live s x ∨ x = s.allocs.length := by
  by_cases hne : a = .allocStore
  · subst hne
    cases hr
    intro x hx
    simp_all [Task.handles, Pc.handles]
    rcases hx with h | h <;> simp [h]
  · intro x hx
    rcases act_handles hr hne x hx with h | h
    · exact Or.inl h
    · exact Or.inr (Or.inl h)

/-- a dead count never rises -/
theorem dead_stays (ht : s.tasks[t]? = some tk) (hr : ActR c s tk a tk' tb al) {x : Nat}
    (hx : x < s.allocs.length) (hd : ¬ Live s x) : ¬ Live ⟨s.tasks.set t tk', tb, al⟩ x := by
  intro hl
  rcases (live_after ht rfl x).1 hl with h | h
  · rcases act_handles' hr x h with h | h | h
    · exact hd ((live_before ht x).2 (Or.inl h))
    · exact hd h
    · omega
  · exact hd ((live_before ht x).2 (Or.inr h))

theorem pcOk_other (hI : Inv c s) (ht : s.tasks[t]? = some tk) (hr : ActR c s tk a tk' tb al)
    {t2 : Nat} {tk2 : Task} (hne : t ≠ t2) (h2 : s.tasks[t2]? = some tk2) :
    PcOk c ⟨s.tasks.set t tk', tb, al⟩ tk2.pc := by
  have hold := hI.pcOk t2 tk2 h2
  have hal := act_allocs hr
  cases hpc : tk2.pc <;> rw [hpc] at hold <;> simp only [PcOk] at hold ⊢
  case iWrDead v =>
    intro x hx
    have hlk : Pc.wlock c tk.pc ≠ some (c.lockOf (c.slot v)) :=
      (hI.excl t2 t tk2 tk _ (fun h => hne h.symm) h2 ht (by rw [hpc]; rfl)).1
    rw [act_table_other hr _ hlk] at hx
    obtain ⟨w, hw, _⟩ := hI.tableWF _ _ hx
    have hlt : x < s.allocs.length := by
      rcases Nat.lt_or_ge x s.allocs.length with h' | h'
      · exact h'
      · rw [List.getElem?_eq_none h'] at hw; cases hw
    exact dead_stays ht hr hlt (hold x hx)
  case iRdHit v x => obtain ⟨w, h1, h2⟩ := hold; exact ⟨w, hal _ _ h1, h2⟩
  case iWrHit v x => obtain ⟨w, h1, h2⟩ := hold; exact ⟨w, hal _ _ h1, h2⟩
  case iWrNew v x => obtain ⟨w, h1, h2⟩ := hold; exact ⟨w, hal _ _ h1, h2⟩
  case gDone k r =>
    cases r <;> simp only at hold ⊢
    obtain ⟨w, h1, h2⟩ := hold; exact ⟨w, hal _ _ h1, h2⟩
  case vTemp l k x => obtain ⟨hl, w, h1, h2⟩ := hold; exact ⟨hl, w, hal _ _ h1, h2⟩

theorem pcOk_self (hI : Inv c s) (ht : s.tasks[t]? = some tk) (hr : ActR c s tk a tk' tb al) :
    PcOk c ⟨s.tasks.set t tk', tb, al⟩ tk'.pc := by
  have hh := act_handles hr
  have hfr : a ≠ .allocStore → ∀ x, Live ⟨s.tasks.set t tk', tb, al⟩ x → Live s x :=
    fun hne x hx => live_mono ht rfl (hh hne) hx
  have hold := hI.pcOk t tk ht
  cases hr <;> (try simp only [PcOk])
  case clone i x hv hx => simp only [hv]
  case drop i hv hx => simp only [hv]
  case probeIHit v x hv hp => exact hI.tableWF _ _ (probe_some hp).1
  case probeGHit k x hv hp => exact hI.tableWF _ _ (probe_some hp).1
  case recheckHit v x hv hp => exact hI.tableWF _ _ (probe_some hp).1
  case recheckDead v hv hp =>
    exact fun x hx hl => probe_none hp x hx (hfr (by simp) x hl)
  case allocStore v hv => exact ⟨v, by simp, rfl⟩
  case vacUpLive l k x hv hl htb hlive => exact ⟨hl, hI.tableWF _ _ htb⟩
  case vacUpDead l k x hv hl htb hdead => simp only [hv]

theorem inv_pcOk (hI : Inv c s) (ht : s.tasks[t]? = some tk) (hr : ActR c s tk a tk' tb al) :
    ∀ (t2 : Nat) (tk2 : Task), (s.tasks.set t tk')[t2]? = some tk2 →
      PcOk c ⟨s.tasks.set t tk', tb, al⟩ tk2.pc := by
  intro t2 tk2 h2
  rw [tasks_after ht] at h2
  by_cases e : t = t2
  · simp only [e, if_true] at h2
    cases h2
    exact pcOk_self hI ht hr
  · simp only [e, if_false] at h2
    exact pcOk_other hI ht hr e h2

end preserve

theorem inv_init (c : Cfg) : Inv c State.init := by
  refine ⟨?_, ?_, ?_, ?_⟩
  · rintro a ⟨t, tk, h, _⟩; simp [State.init] at h
  · intro k a h; simp [State.init] at h
  · intro t t' tk tk' l _ h; simp [State.init] at h
  · intro t tk h; simp [State.init] at h

theorem tasks_spawn {s : State} {t : Nat} {tk : Task}
    (h : (s.tasks ++ [(⟨.idle, [], none⟩ : Task)])[t]? = some tk) :
    s.tasks[t]? = some tk ∨ tk = ⟨.idle, [], none⟩ := by
  rw [List.getElem?_append] at h
  split at h
  · exact Or.inl h
  · right
    rcases Nat.lt_or_ge (t - s.tasks.length) 1 with h' | h'
    · have : t - s.tasks.length = 0 := by omega
      rw [this] at h; simp at h; exact h.symm
    · rw [List.getElem?_eq_none (by simpa using h')] at h; cases h

theorem live_spawn {s : State} {a : Nat}
    (h : Live ⟨s.tasks ++ [(⟨.idle, [], none⟩ : Task)], s.table, s.allocs⟩ a) : Live s a := by
  obtain ⟨t, tk, ht, ha⟩ := h
  rcases tasks_spawn ht with h | h
  · exact ⟨t, tk, h, ha⟩
  · subst h; simp [Task.handles, Pc.handles] at ha

theorem pcOk_spawn {c : Cfg} {s : State} {pc : Pc} (h : PcOk c s pc) :
    PcOk c ⟨s.tasks ++ [(⟨.idle, [], none⟩ : Task)], s.table, s.allocs⟩ pc := by
  cases pc <;> simp only [PcOk] at h ⊢ <;> try exact h
  case iWrDead v => exact fun a ha hl => h a ha (live_spawn hl)
  case gDone k r => cases r <;> simp only at h ⊢ <;> exact h

theorem inv_step {c : Cfg} {s s' : State} {e : Ev} (hI : Inv c s) (h : step c s e = some s') : Inv c s' := by
  cases e with
  | spawn =>
    simp only [step, Option.some.injEq] at h
    subst h
    refine ⟨?_, ?_, ?_, ?_⟩
    · exact fun a ha => hI.canon a (live_spawn ha)
    · exact hI.tableWF
    · intro t t' tk tk' l hne h1 h2 hl
      rcases tasks_spawn h1 with h1 | h1
      · rcases tasks_spawn h2 with h2 | h2
        · exact hI.excl t t' tk tk' l hne h1 h2 hl
        · subst h2; simp [Pc.wlock, Pc.rlock]
      · subst h1; simp [Pc.wlock] at hl
    · intro t tk h1
      rcases tasks_spawn h1 with h1 | h1
      · exact pcOk_spawn (hI.pcOk t tk h1)
      · subst h1; simp only [PcOk]
  | act t a =>
    obtain ⟨tk, tk', ht, hact, hs⟩ := step_act_inv h
    have hr := act_rel hact
    have : s' = ⟨s.tasks.set t tk', s'.table, s'.allocs⟩ := by
      cases s'; simp only at hs; subst hs; rfl
    rw [this]
    exact ⟨inv_canon hI ht hr, inv_tableWF hI hr, inv_excl hI ht hr, inv_pcOk hI ht hr⟩

theorem inv_reachable {c : Cfg} {s : State} (h : Reachable c s) : Inv c s := by
  induction h with
  | init => exact inv_init c
  | step e _ hs ih => exact inv_step ih hs

end QbiceVerif.Interner
