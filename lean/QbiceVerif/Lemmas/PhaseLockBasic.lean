import QbiceVerif.Lemmas.PhaseSpec

/-!
# C04 progress — basic lemmas: `upd`, `setTask`, `afterOpen`, the lock's queue

All auxiliary declarations of the progress proof live in the namespace `QbiceVerif.Phase.Prog` (the
safety lemma files share `QbiceVerif.Phase`); only `mu` and `phaseProgress_holds` are in
`QbiceVerif.Phase`.
-/

namespace QbiceVerif.Phase.Prog

/-! ## `upd`, `setTask`, `afterOpen` projections -/

@[simp] theorem upd_same {α : Type} (f : Nat → α) (k : Nat) (v : α) : upd f k v k = v := by
  simp [upd]

theorem upd_other {α : Type} (f : Nat → α) {k x : Nat} (v : α) (h : x ≠ k) : upd f k v x = f x := by
  simp [upd, h]

@[simp] theorem setTask_tasks (s : State) (t : Tid) (x : Task) : (s.setTask t x).tasks = upd s.tasks t x := rfl
@[simp] theorem setTask_lock (s : State) (t : Tid) (x : Task) : (s.setTask t x).lock = s.lock := rfl
@[simp] theorem setTask_sess (s : State) (t : Tid) (x : Task) : (s.setTask t x).sess = s.sess := rfl
@[simp] theorem setTask_epoch (s : State) (t : Tid) (x : Task) : (s.setTask t x).epoch = s.epoch := rfl
@[simp] theorem setTask_inputs (s : State) (t : Tid) (x : Task) : (s.setTask t x).inputs = s.inputs := rfl

/-- the task record after the `i`-th opening step -/
def openTask (i e : Nat) (sets : List (Key × Val)) (kind : CommitKind) (rest : List Op) : Task :=
  if i < 5 then ⟨.wOpen i e sets kind, rest⟩ else ⟨.wActive sets kind, rest⟩

@[simp] theorem afterOpen_tasks (s : State) (t : Tid) (i e : Nat) (sets : List (Key × Val))
    (kind : CommitKind) (rest : List Op) :
    (afterOpen s t i e sets kind rest).tasks = upd s.tasks t (openTask i e sets kind rest) := by
  unfold afterOpen openTask; split <;> rfl

@[simp] theorem afterOpen_lock (s : State) (t : Tid) (i e : Nat) (sets : List (Key × Val))
    (kind : CommitKind) (rest : List Op) : (afterOpen s t i e sets kind rest).lock = s.lock := by
  unfold afterOpen; split <;> rfl

theorem afterOpen_sess (s : State) (t : Tid) (i e : Nat) (sets : List (Key × Val))
    (kind : CommitKind) (rest : List Op) :
    (afterOpen s t i e sets kind rest).sess =
      if i < 5 then s.sess
      else some { owner := t, epoch := e, pc := .active, batch := [], writes := [], base := s.inputs } := by
  unfold afterOpen; split <;> rfl

/-! ## the queue -/

theorem want_eq_none_iff (l : Lock) (t : Tid) : l.want t = none ↔ ∀ x, (t, x) ∉ l.queue := by
  unfold Lock.want
  rw [Option.map_eq_none_iff, List.find?_eq_none]
  constructor
  · intro h x hx; exact h (t, x) hx (by simp)
  · intro h p hp hpt
    have : p.1 = t := by simpa using hpt
    exact h p.2 (by rw [← this]; exact hp)

theorem want_enqueue_self {l : Lock} {t : Tid} (x : Bool) (h : l.want t = none) :
    (l.enqueue t x).want t = some x := by
  unfold Lock.want at h ⊢
  rw [Option.map_eq_none_iff] at h
  simp [Lock.enqueue, List.find?_append, h]

theorem want_enqueue_other {l : Lock} {t t' : Tid} (x : Bool) (h : t' ≠ t) :
    (l.enqueue t x).want t' = l.want t' := by
  unfold Lock.want
  have : (t == t') = false := by simpa using fun h' => h h'.symm
  simp [Lock.enqueue, List.find?_append, this]

@[simp] theorem enqueue_readers (l : Lock) (t : Tid) (x : Bool) : (l.enqueue t x).readers = l.readers := rfl
@[simp] theorem enqueue_writer (l : Lock) (t : Tid) (x : Bool) : (l.enqueue t x).writer = l.writer := rfl
@[simp] theorem enqueue_queue_length (l : Lock) (t : Tid) (x : Bool) :
    (l.enqueue t x).queue.length = l.queue.length + 1 := by simp [Lock.enqueue]

theorem find_filter_ne_self (q : List (Tid × Bool)) (t : Tid) :
    (q.filter (fun p => p.1 != t)).find? (fun p => p.1 == t) = none := by
  rw [List.find?_eq_none]
  intro p hp
  have := (List.mem_filter.mp hp).2
  simpa using this

theorem find_filter_ne_other (q : List (Tid × Bool)) {t t' : Tid} (h : t' ≠ t) :
    (q.filter (fun p => p.1 != t)).find? (fun p => p.1 == t') = q.find? (fun p => p.1 == t') := by
  induction q with
  | nil => rfl
  | cons p q ih =>
    obtain ⟨a, b⟩ := p
    by_cases hp : a = t
    · have h2 : ¬ a = t' := by rw [hp]; exact fun h' => h h'.symm
      have h3 : ¬ t = t' := fun h' => h h'.symm
      simp [hp, h3, ih]
    · by_cases hp' : a = t'
      · subst hp'
        simp [h]
      · simp [hp, hp', ih]

theorem want_grant_self (l : Lock) (t : Tid) (h : l.want t ≠ none) : (l.grant t).want t = none := by
  unfold Lock.grant
  split
  · contradiction
  · simp only [Lock.want]; rw [find_filter_ne_self]; rfl
  · simp only [Lock.want]; rw [find_filter_ne_self]; rfl

theorem want_grant_other (l : Lock) {t t' : Tid} (h : t' ≠ t) : (l.grant t).want t' = l.want t' := by
  unfold Lock.grant
  split
  · rfl
  · simp only [Lock.want]; rw [find_filter_ne_other _ h]
  · simp only [Lock.want]; rw [find_filter_ne_other _ h]

theorem grant_readers (l : Lock) (t : Tid) :
    (l.grant t).readers = if l.want t = some false then t :: l.readers else l.readers := by
  unfold Lock.grant; split <;> simp_all

theorem grant_writer (l : Lock) (t : Tid) :
    (l.grant t).writer = if l.want t = some true then some t else l.writer := by
  unfold Lock.grant; split <;> simp_all

theorem want_some_mem {l : Lock} {t : Tid} {x : Bool} (h : l.want t = some x) : (t, x) ∈ l.queue := by
  unfold Lock.want at h
  rw [Option.map_eq_some_iff] at h
  obtain ⟨p, hp, hx⟩ := h
  have h1 := List.mem_of_find?_eq_some hp
  have h2 := List.find?_some hp
  have : p.1 = t := by simpa using h2
  rw [← this, ← hx]; exact h1

theorem grant_queue_length {l : Lock} {t : Tid} (h : l.want t ≠ none) :
    (l.grant t).queue.length < l.queue.length := by
  cases hx : l.want t with
  | none => contradiction
  | some x =>
    have hm := want_some_mem hx
    have : (l.queue.filter (fun p => p.1 != t)).length < l.queue.length :=
      List.length_filter_lt_length_iff_exists.mpr ⟨(t, x), hm, by simp⟩
    unfold Lock.grant
    cases x <;> simp [hx, this]

theorem want_head {l : Lock} {h : Tid} {x : Bool} {rest : List (Tid × Bool)}
    (hq : l.queue = (h, x) :: rest) : l.want h = some x ∧ l.isHead h = true := by
  simp [Lock.want, Lock.isHead, hq]

theorem queue_ne_nil_of_want {l : Lock} {t : Tid} {x : Bool} (h : l.want t = some x) :
    l.queue ≠ [] := by
  intro hq; simp [Lock.want, hq] at h

theorem grantable_of_head {fair : Bool} {l : Lock} {h : Tid} {x : Bool} {rest : List (Tid × Bool)}
    (hq : l.queue = (h, x) :: rest) (hc : l.compat x = true) : l.grantable fair h = true := by
  obtain ⟨h1, h2⟩ := want_head hq
  simp [Lock.grantable, h1, h2, hc]

theorem grantable_want {fair : Bool} {l : Lock} {t : Tid} (h : l.grantable fair t = true) :
    ∃ x, l.want t = some x ∧ l.compat x = true := by
  unfold Lock.grantable at h
  split at h
  · simp at h
  · rename_i x hx
    simp only [Bool.and_eq_true] at h
    exact ⟨x, hx, h.1⟩

theorem compat_writer {l : Lock} {x : Bool} (h : l.compat x = true) : l.writer = none := by
  unfold Lock.compat at h
  cases x <;> simp at h
  · simpa using h
  · simpa using h.2

/-! ## the opening order -/

/-- index of `acq` in the opening order -/
def acqIdx (c : Cfg) : Nat := if c.lockFirst then 1 else 4

theorem openOrder_get (c : Cfg) {i : Nat} {st : OpenStep} (h : (openOrder c.lockFirst)[i]? = some st) :
    i < 5 ∧ (st = .acq ↔ i = acqIdx c) ∧ (st = .req ↔ i + 1 = acqIdx c) := by
  obtain ⟨lf, fair, exec⟩ := c
  unfold openOrder acqIdx at *
  rcases i with _ | _ | _ | _ | _ | i <;> cases lf <;> simp at h <;> subst h <;> simp

theorem acqIdx_pos (c : Cfg) : 0 < acqIdx c ∧ acqIdx c < 5 := by
  unfold acqIdx; split <;> omega

theorem want_congr {l l' : Lock} (h : l'.queue = l.queue) (t : Tid) : l'.want t = l.want t := by
  simp [Lock.want, h]

theorem openOrder_lt (c : Cfg) {i : Nat} (h : i < 5) : ∃ st, (openOrder c.lockFirst)[i]? = some st := by
  unfold openOrder
  rcases i with _ | _ | _ | _ | _ | i <;> cases c.lockFirst <;> simp
  all_goals omega

end QbiceVerif.Phase.Prog
