/-
Lemmas for C08 on the extended core model `Qbice.CoreFw`, part 4: every store image of a well-formed
history after its first session has all input keys set (`InputsSet`), so the reopened engine answers
every well-formed continuation (`runOps_total`).
-/
import QbiceVerif.Lemmas.EnginePersistCoreFw4
import QbiceVerif.Lemmas.EngineCoreFwTotal
namespace Qbice.CoreFw
open Qbice.Core (Prog Err Write SetRes Sat Op OpOut applyWrites)

theorem InputsSet.setLog {p : Program} {s : St} (h : InputsSet p s) (l : List Key) :
    InputsSet p { s with log := l } := h

/-- the images of a well-formed history run from a state with all inputs set have all inputs set -/
theorem imagesOps_inputsSet {p : Program} (wf : WF p) (sh : Shape p) :
    ∀ (ops : List Op) (s : St), Inv p s → OpsOK p ops → InputsSet p s →
      ∀ t, t ∈ imagesOps p ops s → InputsSet p t := by
  intro ops
  induction ops with
  | nil => intro s _ _ _ t ht; simp [imagesOps] at ht
  | cons op rest ih =>
    intro s inv hok hin t ht
    cases op with
    | sess ws =>
      obtain ⟨hw, hok'⟩ := hok
      obtain ⟨rs, s1, hs, hmono, _⟩ := session_total hw { s with log := [] }
      obtain ⟨i1, _⟩ := session_spec (inv.setLog []) hs
      have hin1 : InputsSet p s1 := fun k d hp hk => hmono k (hin k d hp hk)
      simp only [imagesOps, hs, List.mem_cons] at ht
      cases ht with
      | inl e => subst e; exact hin1
      | inr ht => exact ih s1 i1 hok' hin1 t ht
    | round ks =>
      obtain ⟨hks, hok'⟩ := hok
      simp only [imagesOps, List.mem_append] at ht
      cases ht with
      | inl ht =>
        have h := imagesRound_ok wf sh (fuel := fuelFor p) (by simp [fuelFor]) ks [] _ (inv.setLog []) t ht
        exact InputsSet.frame (s := { s with log := [] }) hin h.frame
      | inr ht =>
        have hrd := round_spec wf sh (inv.setLog []) ks
        cases hr : round p (fuelFor p) ks { s with log := [] } with
        | error e => rw [hr] at ht; simp at ht
        | ok r =>
          obtain ⟨vs, s1⟩ := r
          rw [hr] at ht hrd
          obtain ⟨_, i1, f1⟩ := hrd
          simp only at i1 f1 ht
          exact ih s1 i1 hok' (InputsSet.frame (s := { s with log := [] }) hin f1) t ht

/-- every store image of a well-formed history (`HistOK`: its first operation is a session that sets
    every input key) — the images are published from that session on — has all input keys set -/
theorem imagesOps_hist_inputsSet {p : Program} (wf : WF p) (sh : Shape p) {ops : List Op}
    (hok : HistOK p ops) : ∀ t, t ∈ imagesOps p ops {} → InputsSet p t := by
  obtain ⟨hops, ws, rest, rfl, hall⟩ := hok
  obtain ⟨hw, hok'⟩ := hops
  intro t ht
  obtain ⟨rs, s1, hs, _, hset⟩ := session_total hw { ({} : St) with log := [] }
  obtain ⟨i1, _⟩ := session_spec ((Inv.init p).setLog []) hs
  have hin1 : InputsSet p s1 := by
    intro k d hp hk
    obtain ⟨v, hm⟩ := hall k d hp hk
    exact hset k v hm
  simp only [imagesOps, hs, List.mem_cons] at ht
  cases ht with
  | inl e => subst e; exact hin1
  | inr ht => exact imagesOps_inputsSet wf sh rest s1 i1 hok' hin1 t ht

end Qbice.CoreFw
