/-
Nested interned handles: decoding what `Nested.enc` wrote gives back the value (exact consumption), and
every handle of the decoded value — at any depth — designates the slot the interner holds for
(type id, hash of its payload): equal payloads of one type ⇒ one allocation.
-/
import QbiceVerif.Model.CodecNested
import QbiceVerif.Lemmas.CodecIntern

namespace QbiceVerif.Codec.Nested

open QbiceVerif.Codec

/-! ## the interner -/

theorem nfind_cons_self (k : Nat × Nat) (v : DVal) (I : NInterner) :
    NInterner.find ((k, v) :: I) k = some (I.length, v) := by
  simp [NInterner.find]

theorem nfind_cons_ne (k k' : Nat × Nat) (v : DVal) (I : NInterner) (h : k' ≠ k) :
    NInterner.find ((k', v) :: I) k = NInterner.find I k := by
  simp [NInterner.find, h]

theorem nfind_slot_lt : ∀ (I : NInterner) (k : Nat × Nat) (s : Nat) (v : DVal),
    NInterner.find I k = some (s, v) → s < I.length
  | [], k, s, v, h => by simp [NInterner.find] at h
  | (k', v') :: I, k, s, v, h => by
    by_cases hk : k' = k
    · subst hk; rw [nfind_cons_self] at h; simp at h; simp; omega
    · rw [nfind_cons_ne _ _ _ _ hk] at h
      have := nfind_slot_lt I k s v h
      simp; omega

theorem nfind_inj : ∀ (I : NInterner) (k₁ k₂ : Nat × Nat) (s : Nat) (v₁ v₂ : DVal),
    NInterner.find I k₁ = some (s, v₁) → NInterner.find I k₂ = some (s, v₂) → k₁ = k₂
  | [], k₁, _, s, v₁, _, h, _ => by simp [NInterner.find] at h
  | (k', v') :: I, k₁, k₂, s, v₁, v₂, h₁, h₂ => by
    by_cases e1 : k' = k₁ <;> by_cases e2 : k' = k₂
    · rw [← e1, ← e2]
    · subst e1; rw [nfind_cons_self] at h₁; rw [nfind_cons_ne _ _ _ _ e2] at h₂
      have := nfind_slot_lt I k₂ s v₂ h₂; simp at h₁; omega
    · subst e2; rw [nfind_cons_self] at h₂; rw [nfind_cons_ne _ _ _ _ e1] at h₁
      have := nfind_slot_lt I k₁ s v₁ h₁; simp at h₂; omega
    · rw [nfind_cons_ne _ _ _ _ e1] at h₁; rw [nfind_cons_ne _ _ _ _ e2] at h₂
      exact nfind_inj I k₁ k₂ s v₁ v₂ h₁ h₂

/-- `I'` extends `I`: every resolvable id keeps its slot and payload (allocations stay alive) -/
def NInterner.le (I I' : NInterner) : Prop :=
  ∀ k s v, NInterner.find I k = some (s, v) → NInterner.find I' k = some (s, v)

theorem NInterner.le_refl (I : NInterner) : NInterner.le I I := fun _ _ _ h => h

theorem NInterner.le_trans {I₁ I₂ I₃ : NInterner} (h₁ : NInterner.le I₁ I₂) (h₂ : NInterner.le I₂ I₃) :
    NInterner.le I₁ I₃ := fun k s v h => h₂ k s v (h₁ k s v h)

theorem NInterner.le_cons (I : NInterner) (k : Nat × Nat) (v : DVal) (h : NInterner.find I k = none) :
    NInterner.le I ((k, v) :: I) := by
  intro k' s v' h'
  by_cases e : k = k'
  · subst e; rw [h] at h'; cases h'
  · rw [nfind_cons_ne _ _ _ _ e]; exact h'

/-! ## invariants -/

/-- every handle of the list points to the slot the interner holds for (type id, hash of its payload),
    and that slot holds exactly the payload the handle carries -/
def CanonH (hash : Nat → NVal → Nat) (I : NInterner) (hs : List (Nat × Nat × DVal)) : Prop :=
  ∀ x ∈ hs, NInterner.find I (x.1, hash x.1 x.2.2.erase) = some (x.2.1, x.2.2)

/-- a decoded value is canonical w.r.t. the interner: all its handles, at every depth, are -/
def Canon (hash : Nat → NVal → Nat) (I : NInterner) (d : DVal) : Prop := CanonH hash I d.handles

theorem CanonH.mono {hash : Nat → NVal → Nat} {I I' : NInterner} (hle : NInterner.le I I')
    {hs : List (Nat × Nat × DVal)} (h : CanonH hash I hs) : CanonH hash I' hs :=
  fun x hx => hle _ _ _ (h x hx)

theorem CanonH.append {hash : Nat → NVal → Nat} {I : NInterner} {a b : List (Nat × Nat × DVal)}
    (ha : CanonH hash I a) (hb : CanonH hash I b) : CanonH hash I (a ++ b) := by
  intro x hx
  rcases List.mem_append.1 hx with h | h
  · exact ha x h
  · exact hb x h

/-- every live entry: its payload belongs to the collision-free universe `S`, is filed under its own
    hash, and is canonical itself (the handles inside a live value were interned through this interner) -/
def IOk (hash : Nat → NVal → Nat) (S : Nat → NVal → Prop) (I : NInterner) : Prop :=
  ∀ k s p, NInterner.find I k = some (s, p) → S k.1 p.erase ∧ k.2 = hash k.1 p.erase ∧ Canon hash I p

/-- ids in the encoder's seen set: written in full earlier (then the decoder has them), or the id of a
    handle whose payload is being written right now (`anc`) -/
def SeenOk (hash : Nat → NVal → Nat) (seen : Seen) (I : NInterner) (anc : List (Nat × NVal)) : Prop :=
  ∀ k ∈ seen, (∃ s p, NInterner.find I k = some (s, p)) ∨ (∃ y ∈ anc, (y.1, hash y.1 y.2) = k)

theorem SeenOk.mono {hash : Nat → NVal → Nat} {seen : Seen} {I I' : NInterner} {anc : List (Nat × NVal)}
    (hle : NInterner.le I I') (h : SeenOk hash seen I anc) : SeenOk hash seen I' anc := by
  intro k hk
  rcases h k hk with ⟨s, p, hf⟩ | h
  · exact Or.inl ⟨s, p, hle _ _ _ hf⟩
  · exact Or.inr h

theorem IOk.cons {hash : Nat → NVal → Nat} {S : Nat → NVal → Prop} {I : NInterner} (hI : IOk hash S I)
    (tid : Nat) (d : DVal) (hnone : NInterner.find I (tid, hash tid d.erase) = none)
    (hS : S tid d.erase) (hc : Canon hash I d) : IOk hash S (((tid, hash tid d.erase), d) :: I) := by
  have hle := NInterner.le_cons I (tid, hash tid d.erase) d hnone
  intro k s p h
  by_cases ek : (tid, hash tid d.erase) = k
  · subst ek
    rw [nfind_cons_self] at h
    simp only [Option.some.injEq, Prod.mk.injEq] at h
    obtain ⟨_, rfl⟩ := h
    exact ⟨hS, rfl, CanonH.mono hle hc⟩
  · rw [nfind_cons_ne _ _ _ _ ek] at h
    obtain ⟨h1, h2, h3⟩ := hI k s p h
    exact ⟨h1, h2, CanonH.mono hle h3⟩

/-- `IOk` relative to a threshold `n`: entries are in the collision-free universe and filed under their own hash;
    only allocations with slot ≥ `n` are required to be canonical, and only down to allocations older than `n`.
    `n = 0` is `IOk`; `n = I.length` asks nothing about canonicity (`IOkW`). -/
def IOkN (hash : Nat → NVal → Nat) (S : Nat → NVal → Prop) (n : Nat) (I : NInterner) : Prop :=
  ∀ k s p, NInterner.find I k = some (s, p) →
    S k.1 p.erase ∧ k.2 = hash k.1 p.erase ∧ (n ≤ s → CanonH hash I (p.handlesAbove n))

/-- integrity of the decoder-side interner without any canonicity: every live entry's payload belongs to the
    collision-free universe and is filed under its own hash -/
def IOkW (hash : Nat → NVal → Nat) (S : Nat → NVal → Prop) (I : NInterner) : Prop :=
  ∀ k s p, NInterner.find I k = some (s, p) → S k.1 p.erase ∧ k.2 = hash k.1 p.erase

theorem IOkN.cons {hash : Nat → NVal → Nat} {S : Nat → NVal → Prop} {n : Nat} {I : NInterner} (hI : IOkN hash S n I)
    (tid : Nat) (d : DVal) (hnone : NInterner.find I (tid, hash tid d.erase) = none)
    (hS : S tid d.erase) (hc : CanonH hash I (d.handlesAbove n)) : IOkN hash S n (((tid, hash tid d.erase), d) :: I) := by
  have hle := NInterner.le_cons I (tid, hash tid d.erase) d hnone
  intro k s p h
  by_cases ek : (tid, hash tid d.erase) = k
  · subst ek
    rw [nfind_cons_self] at h
    simp only [Option.some.injEq, Prod.mk.injEq] at h
    obtain ⟨_, rfl⟩ := h
    exact ⟨hS, rfl, fun _ => CanonH.mono hle hc⟩
  · rw [nfind_cons_ne _ _ _ _ ek] at h
    obtain ⟨h1, h2, h3⟩ := hI k s p h
    exact ⟨h1, h2, fun hn => CanonH.mono hle (h3 hn)⟩

theorem canon_node {hash : Nat → NVal → Nat} {I : NInterner} {n tid s : Nat} {p : DVal}
    (hf : NInterner.find I (tid, hash tid p.erase) = some (s, p)) (h : n ≤ s → CanonH hash I (p.handlesAbove n)) :
    CanonH hash I ((DVal.handle tid s p).handlesAbove n) := by
  intro x hx
  simp only [DVal.handlesAbove, List.mem_cons] at hx
  rcases hx with rfl | hx
  · exact hf
  · by_cases hs : s < n
    · simp [hs] at hx
    · simp only [hs, if_false] at hx
      exact h (by omega) x hx

theorem readByte_cons (b : UInt8) (bs : Bytes) : readByte (b :: bs) = .ok (b, bs) := rfl

section roundtrip

variable {env : Nat → NTy} {hash : Nat → NVal → Nat} {S : Nat → NVal → Prop}

/-- what one decode step establishes -/
structure Post (hash : Nat → NVal → Nat) (S : Nat → NVal → Prop) (n : Nat) (I : NInterner) (seen' : Seen)
    (anc : List (Nat × NVal)) (I' : NInterner) (hs : List (Nat × Nat × DVal)) : Prop where
  le : NInterner.le I I'
  ok : IOkN hash S n I'
  seen : SeenOk hash seen' I' anc
  canon : CanonH hash I' hs
  len : I.length ≤ I'.length

mutual
theorem dec_enc_v
    (hinj : ∀ tid p₁ p₂, S tid p₁ → S tid p₂ → hash tid p₁ = hash tid p₂ → p₁ = p₂)
    (hbound : ∀ tid p, S tid p → hash tid p < 2 ^ 128) (n : Nat) :
    (v : NVal) → ∀ (t : NTy) (seen : Seen) (I : NInterner) (anc : List (Nat × NVal)) (rest : Bytes) (fuel : Nat),
      wtN env t v = true → (∀ x ∈ v.handles, S x.1 x.2) → IOkN hash S n I → n ≤ I.length → SeenOk hash seen I anc →
      (∀ y ∈ anc, S y.1 y.2 ∧ v.need ≤ y.2.need) → v.need ≤ fuel →
      ∃ d I', dec true env hash fuel t ((enc env hash t v seen).1 ++ rest) I = .ok (d, rest, I') ∧ d.erase = v ∧
        Post hash S n I (enc env hash t v seen).2 anc I' (d.handlesAbove n)
  | .plain pv, t, seen, I, anc, rest, fuel, hwt, _, hI, hn, hs, _, hfuel => by
    obtain ⟨f, rfl⟩ : ∃ f, fuel = f + 1 := ⟨fuel - 1, by simp only [NVal.need] at hfuel; omega⟩
    cases t <;> simp only [wtN, Bool.and_eq_true, Bool.false_eq_true] at hwt
    rename_i pt
    refine ⟨.plain pv, I, ?_, rfl, ⟨NInterner.le_refl I, hI, by simpa [enc] using hs, by intro x hx; simp [DVal.handlesAbove] at hx, Nat.le_refl _⟩⟩
    have e := dec_enc true pt pv rest hwt.1 (Or.inl rfl)
    rw [normalize_id pt pv hwt.2] at e
    simp only [enc, dec, e]
  | .handle tid p, t, seen, I, anc, rest, fuel, hwt, hS, hI, hn, hs, hanc, hfuel => by
    obtain ⟨f, rfl⟩ : ∃ f, fuel = f + 1 := ⟨fuel - 1, by simp only [NVal.need] at hfuel; omega⟩
    simp only [wtN, Bool.and_eq_true] at hwt
    obtain ⟨hty, hwp⟩ := hwt
    have ht : t = .handle tid := by
      cases t <;> simp only [Bool.false_eq_true, beq_iff_eq] at hty
      rw [hty]
    subst ht
    have hSv : S tid p := hS (tid, p) (by simp [NVal.handles])
    by_cases hmem : (tid, hash tid p) ∈ seen
    · -- a later occurrence: written as a reference
      have henc : enc env hash (.handle tid) (.handle tid p) seen = (1 :: encHash (hash tid p), seen) := by
        simp [enc, hmem]
      have hin := hmem
      rcases hs _ hin with ⟨s, p', hf⟩ | ⟨y, hy, hyk⟩
      · obtain ⟨h1, h2, h3⟩ := hI _ _ _ hf
        have hp' : p'.erase = p := hinj tid _ _ h1 hSv h2.symm
        refine ⟨.handle tid s p', I, ?_, by simp [DVal.erase, hp'], ⟨NInterner.le_refl I, hI, by rw [henc]; exact hs, ?_, Nat.le_refl _⟩⟩
        · rw [henc]
          simp only [List.cons_append, dec, readByte_cons]
          simp only [decHash_encHash _ (hbound tid p hSv), hf]
          simp
        · exact canon_node (by rw [hp']; exact hf) h3
      · -- … to an unfinished ancestor: impossible without a collision
        exfalso
        obtain ⟨hyS, hyn⟩ := hanc y hy
        simp only [Prod.mk.injEq] at hyk
        obtain ⟨hy1, hy2⟩ := hyk
        have hySt : S tid y.2 := by rw [← hy1]; exact hyS
        have : y.2 = p := hinj tid _ _ hySt hSv (by rw [← hy2, hy1])
        rw [this] at hyn
        simp only [NVal.need] at hyn
        omega
    · -- first occurrence: the id enters the seen set, then the payload, in the same session
      have henc : enc env hash (.handle tid) (.handle tid p) seen =
          (0 :: (enc env hash (env tid) p ((tid, hash tid p) :: seen)).1,
            (enc env hash (env tid) p ((tid, hash tid p) :: seen)).2) := by
        simp [enc, hmem]
      have hs' : SeenOk hash ((tid, hash tid p) :: seen) I ((tid, p) :: anc) := by
        intro k hk
        rcases List.mem_cons.1 hk with hk | hk
        · exact Or.inr ⟨(tid, p), List.mem_cons_self, hk.symm⟩
        · rcases hs k hk with h | ⟨y, hy, hyk⟩
          · exact Or.inl h
          · exact Or.inr ⟨y, List.mem_cons_of_mem _ hy, hyk⟩
      have hanc' : ∀ y ∈ (tid, p) :: anc, S y.1 y.2 ∧ p.need ≤ y.2.need := by
        intro y hy
        rcases List.mem_cons.1 hy with rfl | hy
        · exact ⟨hSv, Nat.le_refl _⟩
        · obtain ⟨h1, h2⟩ := hanc y hy
          simp only [NVal.need] at h2
          exact ⟨h1, by omega⟩
      obtain ⟨d1, I1, hdec, her, hle1, hI1, hs1, hc1, hlen1⟩ :=
        dec_enc_v hinj hbound n p (env tid) ((tid, hash tid p) :: seen) I ((tid, p) :: anc) rest f hwp
          (fun x hx => hS x (by simp [NVal.handles, hx])) hI hn hs' hanc' (by simp only [NVal.need] at hfuel; omega)
      rw [henc]
      cases hf : NInterner.find I1 (tid, hash tid p) with
      | some sp =>
        obtain ⟨s, p'⟩ := sp
        obtain ⟨h1, h2, h3⟩ := hI1 _ _ _ hf
        have hp' : p'.erase = p := hinj tid _ _ h1 hSv h2.symm
        refine ⟨.handle tid s p', I1, ?_, by simp [DVal.erase, hp'], ⟨hle1, hI1, ?_, ?_, hlen1⟩⟩
        · simp only [List.cons_append, dec, readByte_cons, hdec, her, hf]
          simp
        · intro k hk
          rcases hs1 k hk with h | ⟨y, hy, hyk⟩
          · exact Or.inl h
          · rcases List.mem_cons.1 hy with rfl | hy
            · exact Or.inl ⟨s, p', by rw [← hyk]; exact hf⟩
            · exact Or.inr ⟨y, hy, hyk⟩
        · exact canon_node (by rw [hp']; exact hf) h3
      | none =>
        have hf' : NInterner.find I1 (tid, hash tid d1.erase) = none := by rw [her]; exact hf
        have hle2 := NInterner.le_cons I1 (tid, hash tid d1.erase) d1 hf'
        have hI2 := IOkN.cons hI1 tid d1 hf' (by rw [her]; exact hSv) hc1
        refine ⟨.handle tid I1.length d1, ((tid, hash tid d1.erase), d1) :: I1, ?_, by simp [DVal.erase, her],
          ⟨NInterner.le_trans hle1 hle2, hI2, ?_, ?_, by simp only [List.length_cons]; omega⟩⟩
        · simp only [List.cons_append, dec, readByte_cons, hdec, her, hf]
          simp
        · intro k hk
          rcases hs1 k hk with ⟨s, q, h⟩ | ⟨y, hy, hyk⟩
          · exact Or.inl ⟨s, q, hle2 _ _ _ h⟩
          · rcases List.mem_cons.1 hy with rfl | hy
            · refine Or.inl ⟨I1.length, d1, ?_⟩
              rw [← hyk, ← her]; exact nfind_cons_self _ _ _
            · exact Or.inr ⟨y, hy, hyk⟩
        · exact canon_node (nfind_cons_self _ _ _) (fun _ => CanonH.mono hle2 hc1)
  | .list vs, t, seen, I, anc, rest, fuel, hwt, hS, hI, hn, hs, hanc, hfuel => by
    obtain ⟨f, rfl⟩ : ∃ f, fuel = f + 1 := ⟨fuel - 1, by simp only [NVal.need] at hfuel; omega⟩
    have hS' : ∀ x ∈ NVal.handlesL vs, S x.1 x.2 := fun x hx => hS x (by simpa [NVal.handles] using hx)
    have hanc' : ∀ y ∈ anc, S y.1 y.2 ∧ NVal.needL vs ≤ y.2.need := by
      intro y hy
      obtain ⟨h1, h2⟩ := hanc y hy
      simp only [NVal.need] at h2
      exact ⟨h1, by omega⟩
    have hfuel' : NVal.needL vs ≤ f := by simp only [NVal.need] at hfuel; omega
    cases t <;> simp only [wtN, Bool.and_eq_true, Bool.false_eq_true, decide_eq_true_eq] at hwt
    · -- seq
      rename_i et
      obtain ⟨ds, I', hdec, her, hp⟩ := dec_enc_seq hinj hbound n vs et seen I anc rest f hwt.2 hS' hI hn hs hanc' hfuel'
      refine ⟨.list ds, I', ?_, by simp [DVal.erase, her], hp⟩
      simp only [enc, List.append_assoc, dec]
      rw [varint_roundtrip 64 _ (by decide) hwt.1]
      simp only [hdec]
    · -- tuple
      rename_i ts
      obtain ⟨ds, I', hdec, her, hp⟩ := dec_enc_tuple hinj hbound n vs ts seen I anc rest f hwt hS' hI hn hs hanc' hfuel'
      refine ⟨.list ds, I', ?_, by simp [DVal.erase, her], hp⟩
      simp only [enc, dec, hdec]
  | .tagged i p, t, seen, I, anc, rest, fuel, hwt, hS, hI, hn, hs, hanc, hfuel => by
    obtain ⟨f, rfl⟩ : ∃ f, fuel = f + 1 := ⟨fuel - 1, by simp only [NVal.need] at hfuel; omega⟩
    have hS' : ∀ x ∈ p.handles, S x.1 x.2 := fun x hx => hS x (by simpa [NVal.handles] using hx)
    have hanc' : ∀ y ∈ anc, S y.1 y.2 ∧ p.need ≤ y.2.need := by
      intro y hy
      obtain ⟨h1, h2⟩ := hanc y hy
      simp only [NVal.need] at h2
      exact ⟨h1, by omega⟩
    have hfuel' : p.need ≤ f := by simp only [NVal.need] at hfuel; omega
    cases t <;> simp only [wtN, Bool.and_eq_true, Bool.false_eq_true, decide_eq_true_eq] at hwt
    · -- Option
      rename_i et
      by_cases hi : i = 0
      · subst hi
        simp only [if_true] at hwt
        have hp : p = .list [] := by
          cases p <;> simp only [isNone, Bool.false_eq_true] at hwt
          rename_i l; cases l <;> simp only [Bool.false_eq_true] at hwt
          rfl
        subst hp
        refine ⟨.tagged 0 (.list []), I, ?_, by simp [DVal.erase, DVal.eraseL],
          ⟨NInterner.le_refl I, hI, by simpa [enc] using hs, by intro x hx; simp [DVal.handlesAbove, DVal.handlesAboveL] at hx, Nat.le_refl _⟩⟩
        simp [enc, dec, readByte_cons]
      · simp only [hi, if_false, Bool.and_eq_true, beq_iff_eq] at hwt
        obtain ⟨hi1, hwp⟩ := hwt
        subst hi1
        obtain ⟨d, I', hdec, her, hp⟩ := dec_enc_v hinj hbound n p et seen I anc rest f hwp hS' hI hn hs hanc' hfuel'
        refine ⟨.tagged 1 d, I', ?_, by simp [DVal.erase, her], by simpa [enc, DVal.handlesAbove] using hp⟩
        simp [enc, dec, readByte_cons, hdec]
    · -- enum
      rename_i vts
      obtain ⟨hi, hv⟩ := hwt
      cases hvt : vts[i]? with
      | none => rw [hvt] at hv; cases hv
      | some vt =>
        rw [hvt] at hv
        obtain ⟨d, I', hdec, her, hp⟩ := dec_enc_v hinj hbound n p vt seen I anc rest f hv hS' hI hn hs hanc' hfuel'
        refine ⟨.tagged i d, I', ?_, by simp [DVal.erase, her], by simpa [enc, hvt, DVal.handlesAbove] using hp⟩
        simp only [enc, hvt, List.append_assoc, dec]
        rw [varint_roundtrip 64 _ (by decide) hi]
        simp only [hvt, hdec]
theorem dec_enc_seq
    (hinj : ∀ tid p₁ p₂, S tid p₁ → S tid p₂ → hash tid p₁ = hash tid p₂ → p₁ = p₂)
    (hbound : ∀ tid p, S tid p → hash tid p < 2 ^ 128) (n : Nat) :
    (vs : List NVal) → ∀ (t : NTy) (seen : Seen) (I : NInterner) (anc : List (Nat × NVal)) (rest : Bytes) (fuel : Nat),
      wtSeqN env t vs = true → (∀ x ∈ NVal.handlesL vs, S x.1 x.2) → IOkN hash S n I → n ≤ I.length → SeenOk hash seen I anc →
      (∀ y ∈ anc, S y.1 y.2 ∧ NVal.needL vs ≤ y.2.need) → NVal.needL vs ≤ fuel →
      ∃ ds I', decSeq true env hash fuel t vs.length ((encSeq env hash t vs seen).1 ++ rest) I = .ok (ds, rest, I') ∧
        DVal.eraseL ds = vs ∧ Post hash S n I (encSeq env hash t vs seen).2 anc I' (DVal.handlesAboveL n ds)
  | [], t, seen, I, anc, rest, fuel, _, _, hI, hn, hs, _, _ => by
    refine ⟨[], I, by simp [encSeq, decSeq], rfl,
      ⟨NInterner.le_refl I, hI, by simpa [encSeq] using hs, by intro x hx; simp [DVal.handlesAboveL] at hx, Nat.le_refl _⟩⟩
  | v :: vs, t, seen, I, anc, rest, fuel, hwt, hS, hI, hn, hs, hanc, hfuel => by
    obtain ⟨f, rfl⟩ : ∃ f, fuel = f + 1 := ⟨fuel - 1, by simp only [NVal.needL] at hfuel; omega⟩
    simp only [wtSeqN, Bool.and_eq_true] at hwt
    simp only [NVal.needL] at hfuel hanc
    obtain ⟨d1, I1, hdec1, her1, hp1⟩ :=
      dec_enc_v hinj hbound n v t seen I anc ((encSeq env hash t vs (enc env hash t v seen).2).1 ++ rest) f hwt.1
        (fun x hx => hS x (by simp [NVal.handlesL, hx])) hI hn hs
        (fun y hy => ⟨(hanc y hy).1, by have := (hanc y hy).2; omega⟩) (by omega)
    obtain ⟨ds, I2, hdec2, her2, hp2⟩ :=
      dec_enc_seq hinj hbound n vs t (enc env hash t v seen).2 I1 anc rest f hwt.2
        (fun x hx => hS x (by simp [NVal.handlesL, hx])) hp1.ok (Nat.le_trans hn hp1.len) hp1.seen
        (fun y hy => ⟨(hanc y hy).1, by have := (hanc y hy).2; omega⟩) (by omega)
    refine ⟨d1 :: ds, I2, ?_, by simp [DVal.eraseL, her1, her2],
      ⟨NInterner.le_trans hp1.le hp2.le, hp2.ok, by simpa [encSeq] using hp2.seen, ?_, Nat.le_trans hp1.len hp2.len⟩⟩
    · simp only [encSeq, List.length_cons, List.append_assoc, decSeq, hdec1, hdec2]
    · simp only [DVal.handlesAboveL]
      exact CanonH.append (CanonH.mono hp2.le hp1.canon) hp2.canon
theorem dec_enc_tuple
    (hinj : ∀ tid p₁ p₂, S tid p₁ → S tid p₂ → hash tid p₁ = hash tid p₂ → p₁ = p₂)
    (hbound : ∀ tid p, S tid p → hash tid p < 2 ^ 128) (n : Nat) :
    (vs : List NVal) → ∀ (ts : List NTy) (seen : Seen) (I : NInterner) (anc : List (Nat × NVal)) (rest : Bytes) (fuel : Nat),
      wtTupleN env ts vs = true → (∀ x ∈ NVal.handlesL vs, S x.1 x.2) → IOkN hash S n I → n ≤ I.length → SeenOk hash seen I anc →
      (∀ y ∈ anc, S y.1 y.2 ∧ NVal.needL vs ≤ y.2.need) → NVal.needL vs ≤ fuel →
      ∃ ds I', decTuple true env hash fuel ts ((encTuple env hash ts vs seen).1 ++ rest) I = .ok (ds, rest, I') ∧
        DVal.eraseL ds = vs ∧ Post hash S n I (encTuple env hash ts vs seen).2 anc I' (DVal.handlesAboveL n ds)
  | [], ts, seen, I, anc, rest, fuel, hwt, _, hI, hn, hs, _, _ => by
    have : ts = [] := by simpa [wtTupleN] using hwt
    subst this
    refine ⟨[], I, by simp [encTuple, decTuple], rfl,
      ⟨NInterner.le_refl I, hI, by simpa [encTuple] using hs, by intro x hx; simp [DVal.handlesAboveL] at hx, Nat.le_refl _⟩⟩
  | v :: vs, ts, seen, I, anc, rest, fuel, hwt, hS, hI, hn, hs, hanc, hfuel => by
    obtain ⟨f, rfl⟩ : ∃ f, fuel = f + 1 := ⟨fuel - 1, by simp only [NVal.needL] at hfuel; omega⟩
    cases ts with
    | nil => simp [wtTupleN] at hwt
    | cons t ts =>
    simp only [wtTupleN, Bool.and_eq_true] at hwt
    simp only [NVal.needL] at hfuel hanc
    obtain ⟨d1, I1, hdec1, her1, hp1⟩ :=
      dec_enc_v hinj hbound n v t seen I anc ((encTuple env hash ts vs (enc env hash t v seen).2).1 ++ rest) f hwt.1
        (fun x hx => hS x (by simp [NVal.handlesL, hx])) hI hn hs
        (fun y hy => ⟨(hanc y hy).1, by have := (hanc y hy).2; omega⟩) (by omega)
    obtain ⟨ds, I2, hdec2, her2, hp2⟩ :=
      dec_enc_tuple hinj hbound n vs ts (enc env hash t v seen).2 I1 anc rest f hwt.2
        (fun x hx => hS x (by simp [NVal.handlesL, hx])) hp1.ok (Nat.le_trans hn hp1.len) hp1.seen
        (fun y hy => ⟨(hanc y hy).1, by have := (hanc y hy).2; omega⟩) (by omega)
    refine ⟨d1 :: ds, I2, ?_, by simp [DVal.eraseL, her1, her2],
      ⟨NInterner.le_trans hp1.le hp2.le, hp2.ok, by simpa [encTuple] using hp2.seen, ?_, Nat.le_trans hp1.len hp2.len⟩⟩
    · simp only [encTuple, List.append_assoc, decTuple, hdec1, hdec2]
    · simp only [DVal.handlesAboveL]
      exact CanonH.append (CanonH.mono hp2.le hp1.canon) hp2.canon
end

end roundtrip

/-! ## the two ends of the threshold -/

mutual
theorem handlesAbove_zero : (d : DVal) → d.handlesAbove 0 = d.handles
  | .plain _ => rfl
  | .handle tid s p => by simp [DVal.handlesAbove, DVal.handles, handlesAbove_zero p]
  | .list vs => by simp [DVal.handlesAbove, DVal.handles, handlesAboveL_zero vs]
  | .tagged _ p => by simp [DVal.handlesAbove, DVal.handles, handlesAbove_zero p]
theorem handlesAboveL_zero : (ds : List DVal) → DVal.handlesAboveL 0 ds = DVal.handlesL ds
  | [] => rfl
  | d :: ds => by simp [DVal.handlesAboveL, DVal.handlesL, handlesAbove_zero d, handlesAboveL_zero ds]
end

theorem IOkN_zero_iff {hash : Nat → NVal → Nat} {S : Nat → NVal → Prop} {I : NInterner} :
    IOkN hash S 0 I ↔ IOk hash S I := by
  constructor
  · intro h k s p hf
    obtain ⟨h1, h2, h3⟩ := h k s p hf
    refine ⟨h1, h2, ?_⟩
    have := h3 (Nat.zero_le _)
    rwa [handlesAbove_zero] at this
  · intro h k s p hf
    obtain ⟨h1, h2, h3⟩ := h k s p hf
    refine ⟨h1, h2, fun _ => ?_⟩
    rw [handlesAbove_zero]; exact h3

theorem IOkN_length_of_IOkW {hash : Nat → NVal → Nat} {S : Nat → NVal → Prop} {I : NInterner}
    (h : IOkW hash S I) : IOkN hash S I.length I := by
  intro k s p hf
  obtain ⟨h1, h2⟩ := h k s p hf
  exact ⟨h1, h2, fun hn => absurd (nfind_slot_lt I k s p hf) (by omega)⟩

theorem IOkW_of_IOkN {hash : Nat → NVal → Nat} {S : Nat → NVal → Prop} {n : Nat} {I : NInterner}
    (h : IOkN hash S n I) : IOkW hash S I := fun k s p hf => ⟨(h k s p hf).1, (h k s p hf).2.1⟩

/-! ## the seen set only grows, and the id of a written handle is in it -/

mutual
theorem enc_seen_mono (env : Nat → NTy) (hash : Nat → NVal → Nat) :
    (v : NVal) → ∀ (t : NTy) (seen : Seen) (k : Nat × Nat), k ∈ seen → k ∈ (enc env hash t v seen).2
  | .plain _, t, seen, k, hk => by cases t <;> simpa [enc] using hk
  | .handle tid p, t, seen, k, hk => by
    by_cases hmem : (tid, hash tid p) ∈ seen
    · simpa [enc, hmem] using hk
    · have := enc_seen_mono env hash p (env tid) ((tid, hash tid p) :: seen) k (List.mem_cons_of_mem _ hk)
      simpa [enc, hmem] using this
  | .list vs, t, seen, k, hk => by
    cases t with
    | seq et => simpa [enc] using enc_seen_mono_seq env hash vs et seen k hk
    | tuple ts => simpa [enc] using enc_seen_mono_tuple env hash vs ts seen k hk
    | _ => simpa [enc] using hk
  | .tagged i p, t, seen, k, hk => by
    cases t with
    | opt et =>
      by_cases hi : i = 0
      · simpa [enc, hi] using hk
      · simpa [enc, hi] using enc_seen_mono env hash p et seen k hk
    | enum vts =>
      cases hvt : vts[i]? with
      | none => simpa [enc, hvt] using hk
      | some vt => simpa [enc, hvt] using enc_seen_mono env hash p vt seen k hk
    | _ => simpa [enc] using hk
theorem enc_seen_mono_seq (env : Nat → NTy) (hash : Nat → NVal → Nat) :
    (vs : List NVal) → ∀ (t : NTy) (seen : Seen) (k : Nat × Nat), k ∈ seen → k ∈ (encSeq env hash t vs seen).2
  | [], t, seen, k, hk => by simpa [encSeq] using hk
  | v :: vs, t, seen, k, hk => by
    simpa [encSeq] using enc_seen_mono_seq env hash vs t _ k (enc_seen_mono env hash v t seen k hk)
theorem enc_seen_mono_tuple (env : Nat → NTy) (hash : Nat → NVal → Nat) :
    (vs : List NVal) → ∀ (ts : List NTy) (seen : Seen) (k : Nat × Nat), k ∈ seen → k ∈ (encTuple env hash ts vs seen).2
  | [], ts, seen, k, hk => by simpa [encTuple] using hk
  | v :: vs, ts, seen, k, hk => by
    cases ts with
    | nil => simpa [encTuple] using hk
    | cons t ts =>
      simpa [encTuple] using enc_seen_mono_tuple env hash vs ts _ k (enc_seen_mono env hash v t seen k hk)
end

/-- after a handle has been written — in full or as a reference — its id is in the session's seen set -/
theorem enc_handle_seen (env : Nat → NTy) (hash : Nat → NVal → Nat) (t : NTy) (tid : Nat) (p : NVal) (seen : Seen) :
    (tid, hash tid p) ∈ (enc env hash t (.handle tid p) seen).2 := by
  by_cases hmem : (tid, hash tid p) ∈ seen
  · simp [enc, hmem]
  · have := enc_seen_mono env hash p (env tid) ((tid, hash tid p) :: seen) (tid, hash tid p) List.mem_cons_self
    simpa [enc, hmem] using this

end QbiceVerif.Codec.Nested
