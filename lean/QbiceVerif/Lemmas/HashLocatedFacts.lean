/-
C13: the located collision event `Val.Located` is not free.  On the ordered fragment (no hash-ordered collection
inside the type) it is FALSE for every hasher, every state and every pair of values — in contrast to the closed
`SomeCollision`, which is true for every hasher (`Props/NonVacuity/C13.lean`).  So on that fragment
`stream_discriminates_located` is plain injectivity, and in general the event can only sit at a hash-ordered
collection.
-/
import QbiceVerif.Lemmas.HashLocated

namespace QbiceVerif.Hash

section
variable {σ : Type} (absorb : σ → Bytes → σ) (finish : σ → Nat)

mutual
theorem not_located_of_ordered : ∀ (v : Val) (t : Ty) (w : Val) (st : σ),
    t.ordered = true → ¬ Val.Located absorb finish v t w st
  | .int _, _, _, _, _, h => by simp [Val.Located] at h
  | .bool _, _, _, _, _, h => by simp [Val.Located] at h
  | .char _, _, _, _, _, h => by simp [Val.Located] at h
  | .f32 _, _, _, _, _, h => by simp [Val.Located] at h
  | .f64 _, _, _, _, _, h => by simp [Val.Located] at h
  | .unit, _, _, _, _, h => by simp [Val.Located] at h
  | .str _, _, _, _, _, h => by simp [Val.Located] at h
  | .none, _, _, _, _, h => by simp [Val.Located] at h
  | .some v, t, w, st, ho, h => by
    cases t <;> try (simp [Val.Located] at h; done)
    cases w <;> simp only [Val.Located] at h
    simp only [Ty.ordered] at ho
    exact not_located_of_ordered v _ _ _ ho h
  | .ok v, t, w, st, ho, h => by
    cases t <;> try (simp [Val.Located] at h; done)
    cases w <;> simp only [Val.Located] at h
    simp only [Ty.ordered, Bool.and_eq_true] at ho
    exact not_located_of_ordered v _ _ _ ho.1 h
  | .err v, t, w, st, ho, h => by
    cases t <;> try (simp [Val.Located] at h; done)
    cases w <;> simp only [Val.Located] at h
    simp only [Ty.ordered, Bool.and_eq_true] at ho
    exact not_located_of_ordered v _ _ _ ho.2 h
  | .wrap v, t, w, st, ho, h => by
    cases t <;> try (simp [Val.Located] at h; done)
    cases w <;> simp only [Val.Located] at h
    simp only [Ty.ordered] at ho
    exact not_located_of_ordered v _ _ _ ho h
  | .tuple vs, t, w, st, ho, h => by
    cases t <;> try (simp [Val.Located] at h; done)
    cases w <;> simp only [Val.Located] at h
    simp only [Ty.ordered] at ho
    exact not_locatedFields_of_ordered vs _ _ _ ho h
  | .list vs, t, w, st, ho, h => by
    cases t with
    | seq t' =>
      cases w <;> simp only [Val.Located] at h
      simp only [Ty.ordered] at ho
      exact not_locatedAll_of_ordered vs _ _ _ ho h.2
    | array n t' =>
      cases w <;> simp only [Val.Located] at h
      simp only [Ty.ordered] at ho
      exact not_locatedAll_of_ordered vs _ _ _ ho h.2
    | uset t' => simp [Ty.ordered] at ho
    | umap k' v' => simp [Ty.ordered] at ho
    | _ => simp [Val.Located] at h
  | .variant i fs, t, w, st, ho, h => by
    cases t <;> try (simp [Val.Located] at h; done)
    cases w <;> simp only [Val.Located] at h
    rename_i dw vars j gs
    simp only [Ty.ordered] at ho
    obtain ⟨_, h⟩ := h
    cases hg : vars.get? i with
    | none => simp [hg] at h
    | some p =>
      obtain ⟨d, fts⟩ := p
      simp only [hg] at h
      exact not_locatedFields_of_ordered fs _ _ _ (VarList.get?_ordered _ ho hg) h

theorem not_locatedAll_of_ordered : ∀ (vs : ValList) (t : Ty) (ws : ValList) (st : σ),
    t.ordered = true → ¬ ValList.LocatedAll absorb finish vs t ws st
  | .nil, _, _, _, _, h => by simp [ValList.LocatedAll] at h
  | .cons v vs, t, .nil, _, _, h => by simp [ValList.LocatedAll] at h
  | .cons v vs, t, .cons w ws, st, ho, h => by
    simp only [ValList.LocatedAll] at h
    rcases h with h | ⟨_, h⟩
    · exact not_located_of_ordered v _ _ _ ho h
    · exact not_locatedAll_of_ordered vs _ _ _ ho h

theorem not_locatedFields_of_ordered : ∀ (vs : ValList) (ts : TyList) (ws : ValList) (st : σ),
    ts.ordered = true → ¬ ValList.LocatedFields absorb finish vs ts ws st
  | .nil, _, _, _, _, h => by simp [ValList.LocatedFields] at h
  | .cons v vs, .nil, _, _, _, h => by simp [ValList.LocatedFields] at h
  | .cons v vs, .cons t ts, .nil, _, _, h => by simp [ValList.LocatedFields] at h
  | .cons v vs, .cons t ts, .cons w ws, st, ho, h => by
    simp only [TyList.ordered, Bool.and_eq_true] at ho
    simp only [ValList.LocatedFields] at h
    rcases h with h | ⟨_, h⟩
    · exact not_located_of_ordered v _ _ _ ho.1 h
    · exact not_locatedFields_of_ordered vs _ _ _ ho.2 h
end

end

end QbiceVerif.Hash
