/-
Concrete programs and histories used by the non-vacuity examples of C01 / C03: a 4-key program of
inputs and normal keys (`exP`), and a 4-key program with an external key and an unordered read
group (`exQ`).
-/
import QbiceVerif.Lemmas.EngineCore6
namespace Qbice.Core

/-- keys 0, 1: inputs; key 2 reads 0 and, only if it is 1, reads 1; key 3 reads 2 -/
def exP : Program :=
  [ { kind := .input, prog := .ret 0 }, { kind := .input, prog := .ret 0 },
    { kind := .normal, prog := .ask 0 fun a => if a = 1 then .ask 1 (fun b => .ret (b + 10)) else .ret 0 },
    { kind := .normal, prog := .ask 2 fun c => .ret (c * 2) } ]

def exOps : List Op :=
  [ .sess [.set 0 1, .set 1 5], .round [3, 2], .sess [.set 0 0, .set 1 5], .round [3],
    .sess [.set 0 1], .round [3, 3] ]

theorem exP_wf : WF exP := by
  intro k d h hi
  match k, h with
  | 0, h => simp [exP] at h; subst h; simp at hi
  | 1, h => simp [exP] at h; subst h; simp at hi
  | 2, h =>
    simp [exP] at h; subst h
    simp only [Prog.Below]
    refine ⟨by decide, fun v => ?_⟩
    split <;> simp [Prog.Below]
  | 3, h =>
    simp [exP] at h; subst h
    simp [Prog.Below]
  | n + 4, h => simp [exP] at h

/-- the state reached by a prefix of a history (the initial state if the prefix fails) -/
def stateAfter (p : Program) (ops : List Op) : St :=
  match runOps p ops {} with
  | .ok (_, s) => s
  | .error _ => {}

theorem stateAfter_inv {p : Program} (wf : WF p) (ops : List Op) : Inv p (stateAfter p ops) := by
  have h := runOps_spec wf ops {} (Inv.init p)
  unfold stateAfter
  cases hr : runOps p ops {} with
  | error e => exact Inv.init p
  | ok r => rw [hr] at h; exact h.2

/-- after the first session and a round that verified keys 3 and 2 -/
def exT : St := stateAfter exP [.sess [.set 0 1, .set 1 5], .round [3, 2]]

/-- … and after a second session that changed input 0 -/
def exS : St := stateAfter exP [.sess [.set 0 1, .set 1 5], .round [3, 2], .sess [.set 0 0, .set 1 5]]

theorem exT_inv : Inv exP exT := stateAfter_inv exP_wf _
theorem exS_inv : Inv exP exS := stateAfter_inv exP_wf _

-- ------------------------------------------------------------------ external key, unordered group

/-- key 0: input; key 1: external, its executor returns world cell 1; key 2 reads 0 and 1 in one
    unordered group and adds them; key 3 reads 2 -/
def exQ : Program :=
  [ { kind := .input, prog := .ret 0 },
    { kind := .external, prog := .ret 0, ext := fun w => w 1 },
    { kind := .normal, prog := .askAll [0, 1] fun vs => .ret (vs.foldl (· + ·) 0) },
    { kind := .normal, prog := .ask 2 fun c => .ret (c * 2) } ]

/-- the world cell changes twice: the first time without a refresh (nothing moves), the second
    session refreshes -/
def exQOps : List Op :=
  [ .sess [.world 1 7, .set 0 1], .round [3], .sess [.world 1 9], .round [3, 1],
    .sess [.refresh], .round [3], .sess [.world 1 9, .refresh], .round [3] ]

theorem exQ_wf : WF exQ := by
  intro k d h hi
  match k, h with
  | 0, h => simp [exQ] at h; subst h; simp at hi
  | 1, h => simp [exQ] at h; subst h; simp at hi
  | 2, h =>
    simp [exQ] at h; subst h
    simp only [Prog.Below]
    refine ⟨fun d hd => ?_, fun _ => trivial⟩
    simp at hd; rcases hd with rfl | rfl <;> decide
  | 3, h =>
    simp [exQ] at h; subst h
    simp [Prog.Below]
  | n + 4, h => simp [exQ] at h

/-- after the first session and round: external key 1 is pinned at 7 -/
def exU : St := stateAfter exQ [.sess [.world 1 7, .set 0 1], .round [3]]

/-- … and after the world cell changed without a refresh -/
def exV : St := stateAfter exQ [.sess [.world 1 7, .set 0 1], .round [3], .sess [.world 1 9]]

/-- … and after a refresh (external key 1 re-pinned at 9, the edge from key 2 dirty) -/
def exW : St := stateAfter exQ [.sess [.world 1 7, .set 0 1], .round [3], .sess [.world 1 9], .sess [.refresh]]

theorem exU_inv : Inv exQ exU := stateAfter_inv exQ_wf _
theorem exV_inv : Inv exQ exV := stateAfter_inv exQ_wf _
theorem exW_inv : Inv exQ exW := stateAfter_inv exQ_wf _

end Qbice.Core
