/-
A concrete 4-key program and history used by the non-vacuity examples of C01 / C03.
-/
import QbiceVerif.Lemmas.EngineCore6
namespace Qbice.Core

/-- keys 0, 1: inputs; key 2 reads 0 and, only if it is 1, reads 1; key 3 reads 2 -/
def exP : Program :=
  [ ⟨true, .ret 0⟩, ⟨true, .ret 0⟩,
    ⟨false, .ask 0 fun a => if a = 1 then .ask 1 (fun b => .ret (b + 10)) else .ret 0⟩,
    ⟨false, .ask 2 fun c => .ret (c * 2)⟩ ]

def exOps : List Op :=
  [ .sess [(0, 1), (1, 5)], .round [3, 2], .sess [(0, 0), (1, 5)], .round [3], .sess [(0, 1)], .round [3, 3] ]

theorem exP_wf : WF exP := by
  intro k d h hi
  match k, h with
  | 0, h => simp [exP] at h; subst h; simp at hi
  | 1, h => simp [exP] at h; subst h; simp at hi
  | 2, h =>
    simp [exP] at h; subst h
    simp only [Prog.Below]
    refine ⟨by decide, fun v => ?_⟩
    split <;> simp [Prog.Below]
  | 3, h =>
    simp [exP] at h; subst h
    simp [Prog.Below]
  | n + 4, h => simp [exP] at h

/-- the state reached by a prefix of a history (the initial state if the prefix fails) -/
def stateAfter (p : Program) (ops : List Op) : St :=
  match runOps p ops {} with
  | .ok (_, s) => s
  | .error _ => {}

theorem stateAfter_inv {p : Program} (wf : WF p) (ops : List Op) : Inv p (stateAfter p ops) := by
  have h := runOps_spec wf ops {} (Inv.init p)
  unfold stateAfter
  cases hr : runOps p ops {} with
  | error e => exact Inv.init p
  | ok r => rw [hr] at h; exact h.2

/-- after the first session and a round that verified keys 3 and 2 -/
def exT : St := stateAfter exP [.sess [(0, 1), (1, 5)], .round [3, 2]]

/-- … and after a second session that changed input 0 -/
def exS : St := stateAfter exP [.sess [(0, 1), (1, 5)], .round [3, 2], .sess [(0, 0), (1, 5)]]

theorem exT_inv : Inv exP exT := stateAfter_inv exP_wf _
theorem exS_inv : Inv exP exS := stateAfter_inv exP_wf _

end Qbice.Core
