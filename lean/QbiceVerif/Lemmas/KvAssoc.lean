/-
Association-list lemmas for the store model (`aget`, `aset`, `adel` of `Model/KvStore.lean`),
key sorting, and the column-family name.
-/
import QbiceVerif.Model.KvStore
import QbiceVerif.Lemmas.KvKey

namespace QbiceVerif.Kv

section alist
variable {α β : Type} [BEq α] [LawfulBEq α]

def akeys (l : List (α × β)) : List α := l.map (·.1)

omit [LawfulBEq α] in
@[simp] theorem aget_nil (a : α) : aget ([] : List (α × β)) a = none := rfl

omit [LawfulBEq α] in
theorem aget_cons (k : α) (v : β) (l : List (α × β)) (a : α) :
    aget ((k, v) :: l) a = if k == a then some v else aget l a := rfl

theorem aget_adel (l : List (α × β)) (a x : α) :
    aget (adel l a) x = if a == x then none else aget l x := by
  induction l with
  | nil => simp [adel]
  | cons e l ih =>
    obtain ⟨k, v⟩ := e
    unfold adel at ih ⊢
    by_cases hk : k = a
    · subst hk
      simp only [List.filter_cons, beq_self_eq_true, Bool.not_true, Bool.false_eq_true, if_false,
        ih, aget_cons]
      by_cases h : k = x <;> simp [h]
    · have hka : (k == a) = false := by simpa using hk
      simp only [List.filter_cons, hka, Bool.not_false, if_true, aget_cons, ih]
      by_cases h : k = x
      · subst h
        have : ¬ a = k := fun e => hk e.symm
        simp [this]
      · simp [h]

theorem aget_aset (l : List (α × β)) (a : α) (b : β) (x : α) :
    aget (aset l a b) x = if a == x then some b else aget l x := by
  unfold aset
  rw [aget_cons, aget_adel]
  by_cases h : a = x <;> simp [h]

theorem mem_akeys_adel (l : List (α × β)) (a x : α) :
    x ∈ akeys (adel l a) ↔ x ≠ a ∧ x ∈ akeys l := by
  simp only [akeys, adel, List.mem_map, List.mem_filter]
  constructor
  · rintro ⟨e, ⟨he, hne⟩, rfl⟩
    exact ⟨by simpa using hne, e, he, rfl⟩
  · rintro ⟨hne, e, he, rfl⟩
    exact ⟨e, ⟨he, by simpa using hne⟩, rfl⟩

theorem mem_akeys_aset (l : List (α × β)) (a : α) (b : β) (x : α) :
    x ∈ akeys (aset l a b) ↔ x = a ∨ x ∈ akeys l := by
  have h := mem_akeys_adel l a x
  simp only [akeys] at h
  simp only [aset, akeys, List.map_cons, List.mem_cons, h]
  by_cases hx : x = a <;> simp [hx]

theorem aset_aset (l : List (α × β)) (a : α) (b b' : β) :
    aset (aset l a b) a b' = aset l a b' := by
  simp only [aset, adel, List.filter_cons, beq_self_eq_true, Bool.not_true, Bool.false_eq_true,
    if_false, List.filter_filter, Bool.and_self]

theorem adel_aset (l : List (α × β)) (a : α) (b : β) : adel (aset l a b) a = adel l a := by
  simp only [aset, adel, List.filter_cons, beq_self_eq_true, Bool.not_true, Bool.false_eq_true,
    if_false, List.filter_filter, Bool.and_self]

/-- mapping the values commutes with the list operations -/
theorem aget_mapv {γ : Type} (f : β → γ) (l : List (α × β)) (a : α) :
    aget (l.map (fun e => (e.1, f e.2))) a = (aget l a).map f := by
  induction l with
  | nil => rfl
  | cons e l ih =>
    obtain ⟨k, v⟩ := e
    simp only [List.map_cons, aget_cons, ih]
    by_cases h : k = a <;> simp [h]

omit [LawfulBEq α] in
theorem adel_mapv {γ : Type} (f : β → γ) (l : List (α × β)) (a : α) :
    adel (l.map (fun e => (e.1, f e.2))) a = (adel l a).map (fun e => (e.1, f e.2)) := by
  simp only [adel, List.filter_map]
  rfl

theorem aset_mapv {γ : Type} (f : β → γ) (l : List (α × β)) (a : α) (b : β) :
    aset (l.map (fun e => (e.1, f e.2))) a (f b) = (aset l a b).map (fun e => (e.1, f e.2)) := by
  simp only [aset, adel_mapv, List.map_cons]

theorem nodup_akeys_adel (l : List (α × β)) (a : α) (h : (akeys l).Nodup) :
    (akeys (adel l a)).Nodup := by
  induction l with
  | nil => simp [adel, akeys]
  | cons e l ih =>
    obtain ⟨k, v⟩ := e
    have hk : k ∉ akeys l ∧ (akeys l).Nodup := by simpa [akeys] using h
    by_cases hka : k = a
    · subst hka
      have : adel ((k, v) :: l) k = adel l k := by simp [adel]
      rw [this]
      exact ih hk.2
    · have hb : (k == a) = false := by simpa using hka
      have : adel ((k, v) :: l) a = (k, v) :: adel l a := by simp [adel, hb]
      rw [this]
      have hnot : k ∉ akeys (adel l a) := fun hm => hk.1 ((mem_akeys_adel l a k).mp hm).2
      have := ih hk.2
      simp only [akeys, List.map_cons, List.nodup_cons] at hnot ⊢
      exact ⟨hnot, this⟩

theorem nodup_akeys_aset (l : List (α × β)) (a : α) (b : β) (h : (akeys l).Nodup) :
    (akeys (aset l a b)).Nodup := by
  have h1 := nodup_akeys_adel l a h
  have h2 : a ∉ akeys (adel l a) := fun hm => ((mem_akeys_adel l a a).mp hm).1 rfl
  simp only [aset, akeys, List.map_cons, List.nodup_cons] at h1 h2 ⊢
  exact ⟨h2, h1⟩

end alist

/-! ### disk -/

theorem col_aset (d : Disk) (n : String) (c : Col) (n' : String) :
    Disk.col (aset d n c) n' = if n = n' then c else Disk.col d n' := by
  unfold Disk.col
  rw [aget_aset]
  by_cases h : n = n' <;> simp [h]

theorem aget_append_absent {α β : Type} [BEq α] [LawfulBEq α] (l : List (α × β)) (a : α) (b : β)
    (x : α) : aget (l ++ [(a, b)]) x = match aget l x with
      | some v => some v
      | none => if a == x then some b else none := by
  induction l with
  | nil => simp [aget_cons]
  | cons e l ih =>
    obtain ⟨k, v⟩ := e
    simp only [List.cons_append, aget_cons, ih]
    by_cases h : k = x <;> simp [h]

theorem col_append_empty (d : Disk) (n n' : String) :
    Disk.col (d ++ [(n, [])]) n' = Disk.col d n' := by
  unfold Disk.col
  rw [aget_append_absent]
  cases h : aget d n' with
  | none => by_cases e : n = n' <;> simp [e]
  | some v => simp

/-! ### sorting keeps the elements -/

theorem mem_insertKey (k x : Bytes) (l : List Bytes) : x ∈ insertKey k l ↔ x = k ∨ x ∈ l := by
  induction l with
  | nil => simp [insertKey]
  | cons y ys ih =>
    simp only [insertKey]
    split
    · simp only [List.mem_cons, ih]
      constructor
      · rintro (h | h | h)
        · exact Or.inr (Or.inl h)
        · exact Or.inl h
        · exact Or.inr (Or.inr h)
      · rintro (h | h | h)
        · exact Or.inr (Or.inl h)
        · exact Or.inl h
        · exact Or.inr (Or.inr h)
    · simp [List.mem_cons]

theorem mem_sortKeys (x : Bytes) (l : List Bytes) : x ∈ sortKeys l ↔ x ∈ l := by
  induction l with
  | nil => simp [sortKeys]
  | cons y ys ih => simp [sortKeys, mem_insertKey, ih]

theorem nodup_insertKey (k : Bytes) (l : List Bytes) (hk : k ∉ l) (h : l.Nodup) :
    (insertKey k l).Nodup := by
  induction l with
  | nil => simp [insertKey]
  | cons y ys ih =>
    have hy : y ∉ ys ∧ ys.Nodup := by simpa using h
    have hk' : k ≠ y ∧ k ∉ ys := by simpa using hk
    simp only [insertKey]
    split
    · rw [List.nodup_cons]
      refine ⟨?_, ih hk'.2 hy.2⟩
      rw [mem_insertKey]
      rintro (e | e)
      · exact hk'.1 e.symm
      · exact hy.1 e
    · rw [List.nodup_cons]
      exact ⟨hk, h⟩

theorem nodup_sortKeys (l : List Bytes) (h : l.Nodup) : (sortKeys l).Nodup := by
  induction l with
  | nil => simp [sortKeys]
  | cons y ys ih =>
    have hy : y ∉ ys ∧ ys.Nodup := by simpa using h
    simp only [sortKeys]
    exact nodup_insertKey y _ (fun hm => hy.1 ((mem_sortKeys y ys).mp hm)) (ih hy.2)

theorem nodup_map_of_inj_on {α β : Type} (f : α → β) (l : List α)
    (hinj : ∀ x ∈ l, ∀ y ∈ l, f x = f y → x = y) (h : l.Nodup) : (l.map f).Nodup := by
  induction l with
  | nil => simp
  | cons a l ih =>
    have ha : a ∉ l ∧ l.Nodup := by simpa using h
    rw [List.map_cons, List.nodup_cons]
    refine ⟨?_, ih (fun x hx y hy => hinj x (List.mem_cons_of_mem _ hx) y (List.mem_cons_of_mem _ hy)) ha.2⟩
    intro hm
    obtain ⟨y, hy, hfy⟩ := List.mem_map.mp hm
    have := hinj a List.mem_cons_self y (List.mem_cons_of_mem _ hy) hfy.symm
    exact ha.1 (this ▸ hy)

theorem nodup_filter_keys (c : Col) (f : Bytes × Bytes → Bool) (h : (akeys c).Nodup) :
    ((c.filter f).map (·.1)).Nodup := by
  induction c with
  | nil => simp
  | cons e c ih =>
    have he : e.1 ∉ akeys c ∧ (akeys c).Nodup := by simpa [akeys] using h
    simp only [List.filter_cons]
    split
    · rw [List.map_cons, List.nodup_cons]
      refine ⟨?_, ih he.2⟩
      intro hm
      obtain ⟨y, hy, hfy⟩ := List.mem_map.mp hm
      exact he.1 (List.mem_map.mpr ⟨y, (List.mem_filter.mp hy).1, hfy⟩)
    · exact ih he.2

end QbiceVerif.Kv
