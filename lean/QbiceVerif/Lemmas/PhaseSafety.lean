import QbiceVerif.Lemmas.PhaseInvExec

/-!
# C04 — safety of the phase protocol: the four statements of `PhaseSpec.lean`

* `phaseExclusive_holds` (both opening orders) from `InvBase`;
* `sessionAtomic_holds`, `snapshotStable_holds` (repaired order) from `InvBase ∧ InvFix`;
* `snapshotConsistent_holds` (repaired order, `ExecLocal`) from `InvBase ∧ InvFix ∧ InvExec`.
-/

namespace QbiceVerif.Phase

theorem phaseExclusive_holds : PhaseExclusiveStmt := by
  intro c e0 inp scripts s hr
  have inv := (InvBase.init c e0 inp scripts).of_reachable hr
  refine ⟨inv.sessW, inv.excl, ?_⟩
  rintro t (⟨e, ks, h⟩ | ⟨ks, h⟩)
  · exact inv.heldA t e ks h
  · exact inv.heldL t ks h

theorem sessionAtomic_holds : SessionAtomicStmt := by
  intro c e0 inp scripts s hlf hr t ht
  obtain ⟨ib, ifx⟩ := invFix_of_reachable hlf hr
  have hmem : t ∈ s.lock.readers := by
    rcases ht with ⟨e, ks, h⟩ | ⟨ks, h⟩
    · exact ib.heldA t e ks h
    · exact ib.heldL t ks h
  obtain ⟨hw, hsn⟩ := ib.reader_excl t hmem
  exact ⟨by simp [hsn], hw, ifx.inpNone hsn⟩

theorem snapshotStable_holds : SnapshotStableStmt := by
  intro c e0 inp scripts s s' ev hlf hr hstep t e ks ks' hpc hpc'
  obtain ⟨ib, -⟩ := invFix_of_reachable hlf hr
  obtain ⟨hsn, hlow⟩ := reader_quiet ib hlf t (ib.heldA t e ks hpc)
  have hR := stepR_of_step hstep
  cases hR with
  | wStep t0 st e1 i e0 sets kind rest hpos hord hside =>
    rw [hlf] at hord
    rcases openOrder_true i st hord with ⟨hi, hst⟩ | ⟨hi, hst⟩ | ⟨hi, hst⟩ | ⟨hi, hst⟩ | ⟨hi, hst⟩ <;>
      subst hi <;> subst hst
    · exact ⟨rfl, rfl, rfl, rfl⟩
    · exact ⟨rfl, rfl, rfl, rfl⟩
    · exact ⟨rfl, rfl, rfl, rfl⟩
    · have := hlow t0 3 e0 sets kind (openPos_pos hpos (by omega))
      omega
    · exact ⟨rfl, rfl, rfl, rfl⟩
  | wSet t0 k v sets kind σ hpc0 hs ho hp => rw [hs] at hsn; cases hsn
  | cRel t0 σ hs ho hp => rw [hs] at hsn; cases hsn
  | _ => exact ⟨rfl, rfl, rfl, rfl⟩

theorem snapshotConsistent_holds : SnapshotConsistentStmt := by
  intro c e0 inp scripts s hlf hex hr
  obtain ⟨ib, ifx, iex⟩ := invExec_of_reachable hlf hex hr
  constructor
  · intro t e ks hpc
    have he := ifx.actE t e ks hpc
    obtain ⟨hsn, -⟩ := reader_quiet ib hlf t (ib.heldA t e ks hpc)
    have hin : s.inputs = snapshot s.base s.done e := by
      rw [he, snapshot_all _ _ _ ifx.doneLe]; exact ifx.inpNone hsn
    have href : refInputs s = s.inputs := by simp [refInputs, hsn]
    refine ⟨he, by simp [hsn], hin, by rw [he]; exact ifx.doneLe, ?_⟩
    intro k v s' hstep
    have hR := stepR_of_step hstep
    cases hR with
    | rQueryIn _ e' _ ks' hpc' =>
      rw [hpc] at hpc'; cases hpc'
      exact ⟨true, ks', rfl, by simp [specValue, hin]⟩
    | rQueryD _ e' _ ks' hpc' =>
      rw [hpc] at hpc'; cases hpc'
      refine ⟨false, ks', rfl, ?_⟩
      show _ = (c.exec k (snapshot s.base s.done e)).1
      rw [← hin]
      rcases query_val c s.inputs s.nodes e k with h | ⟨n, hn, hv, hver | hd⟩
      · exact h
      · rw [hv, hin, ← hver]; exact congrArg Prod.fst (iex.stamp k n hn)
      · rw [hv, ← href]; exact congrArg Prod.fst (iex.clean k n hn hd)
  · intro k n hn
    exact ⟨ifx.verLe k n hn, iex.stamp k n hn⟩

end QbiceVerif.Phase
