/-
Slice 2 of the generated universe (Gen/TypeIdTable.lean): every type has an id and the id keys
ascend strictly from `sliceBound2` to below `sliceBound3`.  A finite table, proved whole by kernel
evaluation; one module per slice so that lake checks the slices in parallel.
-/
import QbiceVerif.Gen.TypeIdTable

namespace QbiceVerif.TypeId
open Gen

theorem slice2_ok : sliceCheck ctorTable sliceBound2 slice2 = some sliceBound3 := by
  decide +kernel

end QbiceVerif.TypeId
