/-
Interned handles (`storage/src/intern.rs`): a stream of plain parts and handles is read back with the
same values and the same sharing, provided distinct values of one type have distinct hashes (C12).
-/
import QbiceVerif.Lemmas.CodecMain

namespace QbiceVerif.Codec

/-! ## Interned handles -/

theorem find_cons_self (k : Nat × Nat) (v : Val) (I : Interner) :
    Interner.find ((k, v) :: I) k = some (I.length, v) := by
  simp [Interner.find]

theorem find_cons_ne (k k' : Nat × Nat) (v : Val) (I : Interner) (h : k' ≠ k) :
    Interner.find ((k', v) :: I) k = Interner.find I k := by
  simp [Interner.find, h]

theorem find_slot_lt : ∀ (I : Interner) (k : Nat × Nat) (s : Nat) (v : Val),
    Interner.find I k = some (s, v) → s < I.length
  | [], k, s, v, h => by simp [Interner.find] at h
  | (k', v') :: I, k, s, v, h => by
    by_cases hk : k' = k
    · subst hk; rw [find_cons_self] at h; simp at h; simp; omega
    · rw [find_cons_ne _ _ _ _ hk] at h
      have := find_slot_lt I k s v h
      simp; omega

theorem find_inj : ∀ (I : Interner) (k₁ k₂ : Nat × Nat) (s : Nat) (v₁ v₂ : Val),
    Interner.find I k₁ = some (s, v₁) → Interner.find I k₂ = some (s, v₂) → k₁ = k₂
  | [], k₁, _, s, v₁, _, h, _ => by simp [Interner.find] at h
  | (k', v') :: I, k₁, k₂, s, v₁, v₂, h₁, h₂ => by
    by_cases e1 : k' = k₁ <;> by_cases e2 : k' = k₂
    · rw [← e1, ← e2]
    · subst e1; rw [find_cons_self] at h₁; rw [find_cons_ne _ _ _ _ e2] at h₂
      have := find_slot_lt I k₂ s v₂ h₂; simp at h₁; omega
    · subst e2; rw [find_cons_self] at h₂; rw [find_cons_ne _ _ _ _ e1] at h₁
      have := find_slot_lt I k₁ s v₁ h₁; simp at h₂; omega
    · rw [find_cons_ne _ _ _ _ e1] at h₁; rw [find_cons_ne _ _ _ _ e2] at h₂
      exact find_inj I k₁ k₂ s v₁ v₂ h₁ h₂

/-- `I'` extends `I`: every resolvable id keeps its slot and value. -/
def Interner.le (I I' : Interner) : Prop :=
  ∀ k s v, Interner.find I k = some (s, v) → Interner.find I' k = some (s, v)

theorem Interner.le_refl (I : Interner) : Interner.le I I := fun _ _ _ h => h

theorem Interner.le_trans {I₁ I₂ I₃ : Interner} (h₁ : Interner.le I₁ I₂) (h₂ : Interner.le I₂ I₃) :
    Interner.le I₁ I₃ := fun k s v h => h₂ k s v (h₁ k s v h)

theorem Interner.le_cons (I : Interner) (k : Nat × Nat) (v : Val) (h : Interner.find I k = none) :
    Interner.le I ((k, v) :: I) := by
  intro k' s v' h'
  by_cases e : k = k'
  · subst e; rw [h] at h'; cases h'
  · rw [find_cons_ne _ _ _ _ e]; exact h'

/-- What decoding must produce for a stream of items, relative to the final interner `I'`:
    plain parts come back (up to skipped fields), every handle comes back with its own value and
    designates the slot that the final interner holds for `(type id, hash of the value)`. -/
def Matches (hash : Nat → Val → Nat) (I' : Interner) : List Item → List Decoded → Prop
  | [], [] => True
  | .plain t v :: is, .plain v' :: ds => v' = normalize t v ∧ Matches hash I' is ds
  | .handle tid _ v :: is, .handle slot v' :: ds =>
      v' = v ∧ Interner.find I' (tid, hash tid v) = some (slot, v) ∧ Matches hash I' is ds
  | _, _ => False

theorem Matches_mono (hash : Nat → Val → Nat) {I' I'' : Interner} (hle : Interner.le I' I'') :
    ∀ (is : List Item) (ds : List Decoded), Matches hash I' is ds → Matches hash I'' is ds
  | [], [], _ => trivial
  | [], _ :: _, h => by simp [Matches] at h
  | .plain t v :: is, [], h => by simp [Matches] at h
  | .plain t v :: is, .plain v' :: ds, h => by
    simp only [Matches] at h ⊢; exact ⟨h.1, Matches_mono hash hle is ds h.2⟩
  | .plain t v :: is, .handle _ _ :: ds, h => by simp [Matches] at h
  | .handle tid t v :: is, [], h => by simp [Matches] at h
  | .handle tid t v :: is, .plain _ :: ds, h => by simp [Matches] at h
  | .handle tid t v :: is, .handle slot v' :: ds, h => by
    simp only [Matches] at h ⊢
    exact ⟨h.1, hle _ _ _ h.2.1, Matches_mono hash hle is ds h.2.2⟩

theorem decHash_encHash (h : Nat) (hh : h < 2 ^ 128) (rest : Bytes) :
    decHash (encHash h ++ rest) = .ok (h, rest) := by
  have h1 : h % 2 ^ 64 < 2 ^ 64 := Nat.mod_lt _ (by decide)
  have h2 : h / 2 ^ 64 < 2 ^ 64 := by
    apply Nat.div_lt_of_lt_mul; simpa [← Nat.pow_add] using hh
  simp only [decHash, encHash, List.append_assoc]
  rw [varint_roundtrip 64 _ (by decide) h1]
  simp only [bind_ok]
  rw [varint_roundtrip 64 _ (by decide) h2]
  simp only [bind_ok, pure, Except.pure]
  congr 2
  have := Nat.div_add_mod h (2 ^ 64)
  omega

/-- Side conditions on one part of the stream: well-typed; a handle's inner type has no skipped
    field (the hash is taken over the whole value) and its value belongs to the set `S` on which
    the hash is assumed injective. -/
def ItemOk (fix : Bool) (S : Nat → Val → Prop) : Item → Prop
  | .plain t v => wt t v = true ∧ (fix = true ∨ t.noWideBitvec = true)
  | .handle tid t v => wt t v = true ∧ (fix = true ∨ t.noWideBitvec = true) ∧ t.noSkip = true ∧ S tid v

/-- Every entry of the interner is a value of `S` filed under its own hash. -/
def Interner.Consistent (hash : Nat → Val → Nat) (S : Nat → Val → Prop) (I : Interner) : Prop :=
  ∀ k s v, Interner.find I k = some (s, v) → S k.1 v ∧ k.2 = hash k.1 v

theorem dec_enc_items (fix : Bool) (hash : Nat → Val → Nat) (S : Nat → Val → Prop)
    (hinj : ∀ tid v₁ v₂, S tid v₁ → S tid v₂ → hash tid v₁ = hash tid v₂ → v₁ = v₂)
    (hbound : ∀ tid v, S tid v → hash tid v < 2 ^ 128) :
    ∀ (is : List Item) (seen : List (Nat × Nat)) (I : Interner) (rest : Bytes),
      (∀ it ∈ is, ItemOk fix S it) →
      (∀ k ∈ seen, ∃ s v, Interner.find I k = some (s, v)) →
      Interner.Consistent hash S I →
      ∃ ds I', decodeItems fix hash (is.map Item.ty) (encodeItems hash is seen ++ rest) I = .ok (ds, rest, I')
        ∧ Interner.le I I' ∧ Interner.Consistent hash S I' ∧ Matches hash I' is ds
  | [], seen, I, rest, _, _, hc => by
    exact ⟨[], I, by simp [decodeItems, encodeItems], Interner.le_refl I, hc, trivial⟩
  | .plain t v :: is, seen, I, rest, hok, hseen, hc => by
    have h0 : ItemOk fix S (.plain t v) := hok _ (by simp)
    obtain ⟨ds, I', hd, hle, hc', hm⟩ :=
      dec_enc_items fix hash S hinj hbound is seen I rest (fun it h => hok it (by simp [h])) hseen hc
    have e := dec_enc fix t v (encodeItems hash is seen ++ rest) h0.1 h0.2
    refine ⟨.plain (normalize t v) :: ds, I', ?_, hle, hc', ⟨rfl, hm⟩⟩
    simp [decodeItems, encodeItems, Item.ty, e, hd, bind_ok, pure, Except.pure]
  | .handle tid t v :: is, seen, I, rest, hok, hseen, hc => by
    have h0 : ItemOk fix S (.handle tid t v) := hok _ (by simp)
    obtain ⟨hwt, hbv, hns, hS⟩ := h0
    have hok' : ∀ it ∈ is, ItemOk fix S it := fun it h => hok it (by simp [h])
    by_cases hmem : seen.contains (tid, hash tid v) = true
    · -- later occurrence: a reference
      have hin : (tid, hash tid v) ∈ seen := by simpa using hmem
      obtain ⟨s, v', hf⟩ := hseen _ hin
      have hv' : v' = v := by
        have := hc _ _ _ hf
        exact hinj tid v' v this.1 hS this.2.symm
      subst hv'
      obtain ⟨ds, I', hd, hle, hc', hm⟩ := dec_enc_items fix hash S hinj hbound is seen I rest hok' hseen hc
      refine ⟨.handle s v' :: ds, I', ?_, hle, hc', ⟨rfl, hle _ _ _ hf, hm⟩⟩
      simp only [List.map_cons, Item.ty, encodeItems, hmem, if_true, List.cons_append, List.append_assoc,
        decodeItems, readByte, bind_ok]
      simp only [decHash_encHash _ (hbound tid v' hS), bind_ok, hf, hd]
      simp [pure, Except.pure]
    · -- first occurrence: the full value
      have hmem' : (tid, hash tid v) ∉ seen := by simpa using hmem
      have e := dec_enc fix t v (encodeItems hash is ((tid, hash tid v) :: seen) ++ rest) hwt hbv
      rw [normalize_id t v hns] at e
      cases hf : Interner.find I (tid, hash tid v) with
      | some sv =>
        obtain ⟨s, v'⟩ := sv
        have hv' : v' = v := by
          have := hc _ _ _ hf
          exact hinj tid v' v this.1 hS this.2.symm
        subst hv'
        have hseen' : ∀ k ∈ (tid, hash tid v') :: seen, ∃ s v, Interner.find I k = some (s, v) := by
          intro k hk
          rcases List.mem_cons.1 hk with h | h
          · subst h; exact ⟨s, v', hf⟩
          · exact hseen k h
        obtain ⟨ds, I', hd, hle, hc', hm⟩ :=
          dec_enc_items fix hash S hinj hbound is ((tid, hash tid v') :: seen) I rest hok' hseen' hc
        refine ⟨.handle s v' :: ds, I', ?_, hle, hc', ⟨rfl, hle _ _ _ hf, hm⟩⟩
        simp [Item.ty, encodeItems, hmem', decodeItems, readByte, bind_ok, e, hf, hd, pure, Except.pure]
      | none =>
        have hle0 := Interner.le_cons I (tid, hash tid v) v hf
        have hc0 : Interner.Consistent hash S (((tid, hash tid v), v) :: I) := by
          intro k s v'' h
          by_cases ek : (tid, hash tid v) = k
          · subst ek; rw [find_cons_self] at h; simp at h; obtain ⟨_, h⟩ := h; subst h; exact ⟨hS, rfl⟩
          · rw [find_cons_ne _ _ _ _ ek] at h; exact hc k s v'' h
        have hseen' : ∀ k ∈ (tid, hash tid v) :: seen,
            ∃ s v', Interner.find (((tid, hash tid v), v) :: I) k = some (s, v') := by
          intro k hk
          rcases List.mem_cons.1 hk with h | h
          · subst h; exact ⟨I.length, v, find_cons_self _ _ _⟩
          · obtain ⟨s, v', h'⟩ := hseen k h; exact ⟨s, v', hle0 _ _ _ h'⟩
        obtain ⟨ds, I', hd, hle, hc', hm⟩ :=
          dec_enc_items fix hash S hinj hbound is ((tid, hash tid v) :: seen) (((tid, hash tid v), v) :: I) rest
            hok' hseen' hc0
        refine ⟨.handle I.length v :: ds, I', ?_, Interner.le_trans hle0 hle, hc',
          ⟨rfl, hle _ _ _ (find_cons_self _ _ _), hm⟩⟩
        simp [Item.ty, encodeItems, hmem', decodeItems, readByte, bind_ok, e, hf, hd, pure, Except.pure]

/-- Two handles of one type share a slot exactly when their values are equal. -/
theorem handle_sharing (hash : Nat → Val → Nat) (S : Nat → Val → Prop)
    (hinj : ∀ tid v₁ v₂, S tid v₁ → S tid v₂ → hash tid v₁ = hash tid v₂ → v₁ = v₂)
    (I' : Interner) (tid : Nat) (v₁ v₂ : Val) (s₁ s₂ : Nat) (h₁ : S tid v₁) (h₂ : S tid v₂)
    (f₁ : Interner.find I' (tid, hash tid v₁) = some (s₁, v₁))
    (f₂ : Interner.find I' (tid, hash tid v₂) = some (s₂, v₂)) : s₁ = s₂ ↔ v₁ = v₂ := by
  constructor
  · intro e; subst e
    have := find_inj I' _ _ _ _ _ f₁ f₂
    exact hinj tid v₁ v₂ h₁ h₂ (by simpa using this)
  · intro e; subst e; rw [f₁] at f₂; simpa using f₂

end QbiceVerif.Codec
