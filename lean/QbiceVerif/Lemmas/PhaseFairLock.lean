import QbiceVerif.Model.PhaseFair
import QbiceVerif.Lemmas.PhaseLockBasic

/-!
# C04 progress — lock-level facts about the FIFO queue (shared by `Model/PhaseLts` and `Model/PhaseFair`,
which use the same `Lock` operations)
-/

namespace QbiceVerif.PhaseFair

open QbiceVerif.Phase

theorem mem_of_want_ne_none {l : Lock} {w : Tid} (h : l.want w ≠ none) : ∃ x, (w, x) ∈ l.queue := by
  cases hx : l.want w with
  | none => exact absurd hx h
  | some x => exact ⟨x, Prog.want_some_mem hx⟩

theorem ahead_append {q : List (Tid × Bool)} {w : Tid} (e : Tid × Bool) (h : ∃ x, (w, x) ∈ q) :
    ahead (q ++ [e]) w = ahead q w := by
  induction q with
  | nil => obtain ⟨x, hx⟩ := h; simp at hx
  | cons p q ih =>
    obtain ⟨x, hx⟩ := h
    by_cases hp : p.1 = w
    · simp [ahead, List.takeWhile, hp]
    · have hq : ∃ x, (w, x) ∈ q := by
        rcases List.mem_cons.1 hx with h1 | h1
        · exact absurd (by rw [← h1]) hp
        · exact ⟨x, h1⟩
      have := ih hq
      have hb : (p.1 != w) = true := by simpa using hp
      simp only [ahead] at this ⊢
      simp [List.takeWhile, hb, this]

theorem ahead_filter (q : List (Tid × Bool)) {w t : Tid} (h : t ≠ w) :
    ahead (q.filter (fun p => p.1 != t)) w = (ahead q w).filter (fun p => p.1 != t) := by
  induction q with
  | nil => simp [ahead]
  | cons p q ih =>
    simp only [ahead] at ih ⊢
    by_cases hp : p.1 = t
    · have hw : p.1 ≠ w := by rw [hp]; exact h
      simp [List.filter_cons, List.takeWhile_cons, hp, hw, ih, h]
    · by_cases hw : p.1 = w
      · have hwt : ¬ w = t := fun e => h e.symm
        simp [List.filter_cons, List.takeWhile_cons, hw, hwt]
      · simp [List.filter_cons, List.takeWhile_cons, hp, hw, ih]

theorem want_enqueue_keep {l : Lock} {w : Tid} (t : Tid) (x : Bool) (h : l.want w ≠ none) :
    (l.enqueue t x).want w = l.want w := by
  unfold Lock.want at h ⊢
  simp only [Lock.enqueue, List.find?_append]
  cases hf : l.queue.find? (fun p => p.1 == w) with
  | none => simp [hf] at h
  | some y => simp

theorem ahead_enqueue {l : Lock} {w : Tid} (t : Tid) (x : Bool) (h : l.want w ≠ none) :
    ahead (l.enqueue t x).queue w = ahead l.queue w :=
  ahead_append (t, x) (mem_of_want_ne_none h)

theorem grant_queue (l : Lock) (t : Tid) (h : l.want t ≠ none) :
    (l.grant t).queue = l.queue.filter (fun p => p.1 != t) := by
  unfold Lock.grant
  cases hx : l.want t with
  | none => exact absurd hx h
  | some b => cases b <;> rfl

/-- FAIRNESS, lock level: with the FIFO lock the only grantable request is the head of the queue; so a request
granted while `w` is queued (and is not `w`'s) stands in front of `w`; the requests in front of `w` after the
grant are the remaining ones, in the same order; `w` stays queued. -/
theorem fair_grant {l : Lock} {t w : Tid} (hg : l.grantable true t = true) (hne : t ≠ w) :
    (∃ x, (t, x) ∈ ahead l.queue w) ∧
    ahead (l.grant t).queue w = (ahead l.queue w).filter (fun p => p.1 != t) ∧
    (l.grant t).want w = l.want w := by
  have hwt : l.want t ≠ none := by
    unfold Lock.grantable at hg
    cases hx : l.want t with
    | none => simp [hx] at hg
    | some x => simp
  refine ⟨?_, ?_, Prog.want_grant_other l (Ne.symm hne)⟩
  · unfold Lock.grantable at hg
    cases hx : l.want t with
    | none => exact absurd hx hwt
    | some x =>
      simp only [hx, Bool.not_true, Bool.false_or, Bool.and_eq_true] at hg
      have hh := hg.2
      unfold Lock.isHead at hh
      cases hq : l.queue with
      | nil => simp [hq] at hh
      | cons p q =>
        simp only [hq, beq_iff_eq] at hh
        refine ⟨p.2, ?_⟩
        have : p.1 ≠ w := by rw [hh]; exact hne
        simp [ahead, List.takeWhile_cons, this, ← hh]
  · rw [grant_queue l t hwt]; exact ahead_filter l.queue hne

theorem sum_filter_le (f : Tid × Bool → Nat) (p : Tid × Bool → Bool) (l : List (Tid × Bool)) :
    ((l.filter p).map f).sum ≤ (l.map f).sum := by
  induction l with
  | nil => simp
  | cons a l ih =>
    by_cases h : p a = true
    · simp [List.filter_cons, h]; omega
    · simp [List.filter_cons, h]; omega

theorem sum_set (g : Task → Nat) : ∀ (l : List Task) (t : Nat) (y x : Task), l[t]? = some y →
    ((l.set t x).map g).sum + g y = (l.map g).sum + g x := by
  intro l
  induction l with
  | nil => intro t y x h; simp at h
  | cons a l ih =>
    intro t y x h
    cases t with
    | zero => simp at h; subst h; simp [List.set]; omega
    | succ t =>
      have h' : l[t]? = some y := by simpa using h
      have := ih t y x h'
      simp only [List.set_cons_succ, List.map_cons, List.sum_cons]; omega

theorem queuedCost_set_ne (ts : List Task) {t p : Nat} (x : Task) (h : p ≠ t) :
    queuedCost (ts.set t x) p = queuedCost ts p := by
  simp [queuedCost, List.getElem?_set_ne (Ne.symm h)]

/-- replacing a task that is not waiting by one that is not waiting changes no queued cost -/
theorem queuedCost_set_nw (ts : List Task) {t : Nat} {y x : Task} (p : Nat) (h : ts[t]? = some y)
    (hy : ∀ b k, y.pc ≠ .waiting b k) (hx : ∀ b k, x.pc ≠ .waiting b k) :
    queuedCost (ts.set t x) p = queuedCost ts p := by
  by_cases hp : p = t
  · subst hp
    have hlt : p < ts.length := (List.getElem?_eq_some_iff.1 h).1
    have h2 : (ts.set p x)[p]? = some x := by simp [hlt]
    unfold queuedCost
    rw [h2, h]
    obtain ⟨pcx, scx⟩ := x
    obtain ⟨pcy, scy⟩ := y
    cases pcx <;> cases pcy <;> simp_all
  · exact queuedCost_set_ne ts x hp

theorem sum_congr_mem (f g : Tid × Bool → Nat) (l : List (Tid × Bool)) (h : ∀ p ∈ l, f p = g p) :
    (l.map f).sum = (l.map g).sum := by
  rw [List.map_congr_left h]

end QbiceVerif.PhaseFair
