import QbiceVerif.Lemmas.CancelCore

/-!
# C05 — every event preserves the core invariant (all configurations)
-/

namespace QbiceVerif.CancelLts

theorem owner_upd_regs (c : Key → Option Entry) (a : Key) (e : Entry) (r : List (Key × Bool)) (h : c a = some e) (k : Key) :
    owner (upd c a (some { e with regs := r })) k = owner c k := by
  rw [owner_upd_some]
  split
  · next hk => subst hk; simp [owner, h]
  · rfl

theorem owner_regOpt (c : Key → Option Entry) (u : Option Key) (x k : Key) : owner (regOpt c u x) k = owner c k := by
  cases u with
  | none => rfl
  | some a =>
    simp only [regOpt, regAt]
    cases h : c a with
    | none => rfl
    | some e => exact owner_upd_regs _ _ _ _ h _

theorem owner_defuseOpt (c : Key → Option Entry) (u : Option Key) (x k : Key) : owner (defuseOpt c u x) k = owner c k := by
  cases u with
  | none => rfl
  | some a =>
    simp only [defuseOpt, defuseAt]
    cases h : c a with
    | none => rfl
    | some e => exact owner_upd_regs _ _ _ _ h _

/-- An event that changes one task without touching its frames, and the tables at most in their
    registrations. -/
theorem core_task_only {s s' : State} {t : Tid} {T T' : Task} (h : InvCore s) (hT : s.tasks t = some T)
    (htasks : s'.tasks = upd s.tasks t (some T')) (hcomp : ∀ k, owner s'.comp k = owner s.comp k)
    (hbpl : s'.bpl = s.bpl) (hpw : s'.partialW = s.partialW)
    (hf : T'.frames = T.frames) (hd : T'.detached = T.detached) (hs : T'.pc.isSession = T.pc.isSession)
    (hg : T.pc = .g1 → T'.pc = .g1) (hdp : T.detached = true → T'.pc.detachable = true) : InvCore s' := by
  have hl : s'.tasks t = some T' := by rw [htasks]; simp
  have ho : ∀ t', t' ≠ t → s'.tasks t' = s.tasks t' := by intro t' ht'; rw [htasks]; simp [upd, ht']
  refine core_frame (t := t) h ho ?_ ?_ (Or.inl ⟨T', ?_⟩) ?_
  · intro k hk; exact absurd (hcomp k) hk
  · intro k hk; rw [hbpl] at hk; exact absurd rfl hk
  · refine ⟨hl, ?_, ?_, ?_, ?_, ?_, ?_, by rw [hd]; exact hdp⟩
    · intro k; rw [hcomp, hf]; exact h.locks_iff hT k
    · intro k; rw [hbpl, hf]; exact h.bps_iff hT k
    · rw [hf]; exact (h.nodup t T hT).1
    · rw [hf]; exact (h.nodup t T hT).2
    · rw [hs, hf]; exact h.shape t T hT
    · rw [hd, hf]; exact h.detachedOne t T hT
  · refine partial_keep h ho hpw ?_
    intro T0 top rest h0 hfr hpc
    rw [hT] at h0; cases h0
    exact ⟨T', top, rest, hl, by rw [hf]; exact hfr, rfl, hg hpc⟩

/-- An event that changes one task and keeps the sets of lock guards it holds; the tables change at
    most in their registrations. -/
theorem core_task_gen {s s' : State} {t : Tid} {T T' : Task} (h : InvCore s) (hT : s.tasks t = some T)
    (htasks : s'.tasks = upd s.tasks t (some T')) (hcomp : ∀ k, owner s'.comp k = owner s.comp k)
    (hbpl : s'.bpl = s.bpl) (hpw : s'.partialW = s.partialW)
    (hlk : lockKeys T'.frames = lockKeys T.frames) (hbk : bpKeys T'.frames = bpKeys T.frames)
    (hshape : T'.pc.isSession = true ↔ T'.frames = [])
    (hone : T'.detached = true → T'.frames.length ≤ 1)
    (hdp : T'.detached = true → T'.pc.detachable = true)
    (hg : ∀ top rest, T.frames = top :: rest → T.pc = .g1 →
      ∃ top' rest', T'.frames = top' :: rest' ∧ top'.key = top.key ∧ T'.pc = .g1) :
    InvCore s' := by
  have hl : s'.tasks t = some T' := by rw [htasks]; simp
  have ho : ∀ t', t' ≠ t → s'.tasks t' = s.tasks t' := by intro t' ht'; rw [htasks]; simp [upd, ht']
  refine core_frame (t := t) h ho ?_ ?_ (Or.inl ⟨T', ?_⟩) ?_
  · intro k hk; exact absurd (hcomp k) hk
  · intro k hk; rw [hbpl] at hk; exact absurd rfl hk
  · refine ⟨hl, ?_, ?_, ?_, ?_, hshape, hone, hdp⟩
    · intro k; rw [hcomp, hlk]; exact h.locks_iff hT k
    · intro k; rw [hbpl, hbk]; exact h.bps_iff hT k
    · rw [hlk]; exact (h.nodup t T hT).1
    · rw [hbk]; exact (h.nodup t T hT).2
  · refine partial_keep h ho hpw ?_
    intro T0 top rest h0 hfr hpc
    rw [hT] at h0; cases h0
    obtain ⟨top', rest', a, b, c⟩ := hg top rest hfr hpc
    exact ⟨T', top', rest', hl, a, b, c⟩

/-- An event that touches neither tasks nor tables nor the write counters. -/
theorem core_same {s s' : State} (h : InvCore s) (h1 : s'.tasks = s.tasks) (h2 : s'.comp = s.comp) (h3 : s'.bpl = s.bpl)
    (h4 : s'.partialW = s.partialW) : InvCore s' := by
  refine ⟨?_, ?_, ?_, ?_, ?_, ?_, ?_, ?_, ?_⟩
  · rw [h1, h2]; exact h.compOwner
  · rw [h1, h2]; exact h.lockEntry
  · rw [h1, h3]; exact h.bpOwner
  · rw [h1, h3]; exact h.bpEntry
  · rw [h1]; exact h.nodup
  · rw [h1, h4]; exact h.partialOwner
  · rw [h1]; exact h.shape
  · rw [h1]; exact h.detachedOne
  · rw [h1]; exact h.detachedPc

/-- A task that holds nothing ends. -/
theorem core_end {s s' : State} {t : Tid} {T : Task} (h : InvCore s) (hT : s.tasks t = some T)
    (htasks : s'.tasks = upd s.tasks t none) (hcomp : ∀ k, owner s'.comp k = owner s.comp k)
    (hbpl : s'.bpl = s.bpl) (hpw : s'.partialW = s.partialW)
    (hl : lockKeys T.frames = []) (hb : bpKeys T.frames = []) (hpc : T.pc ≠ .g1) : InvCore s' := by
  have ho : ∀ t', t' ≠ t → s'.tasks t' = s.tasks t' := by intro t' ht'; rw [htasks]; simp [upd, ht']
  refine core_frame (t := t) h ho ?_ ?_ (Or.inr ⟨?_, ?_, ?_⟩) ?_
  · intro k hk; exact absurd (hcomp k) hk
  · intro k hk; rw [hbpl] at hk; exact absurd rfl hk
  · rw [htasks]; simp
  · intro k hk; rw [hcomp] at hk
    have := (h.locks_iff hT k).mp hk; rw [hl] at this; simp at this
  · intro k hk; rw [hbpl] at hk
    have := (h.bps_iff hT k).mp hk; rw [hb] at this; simp at this
  · refine partial_keep h ho hpw ?_
    intro T0 top rest h0 _ hpc'
    rw [hT] at h0; cases h0; exact absurd hpc' hpc

theorem endTask_tasks (s : State) (t : Tid) (T : Task) (o : Outcome) : (endTask s t T o).tasks = upd s.tasks t none := rfl
theorem endTask_comp (s : State) (t : Tid) (T : Task) (o : Outcome) : (endTask s t T o).comp = s.comp := rfl
theorem endTask_bpl (s : State) (t : Tid) (T : Task) (o : Outcome) : (endTask s t T o).bpl = s.bpl := rfl
theorem endTask_partialW (s : State) (t : Tid) (T : Task) (o : Outcome) : (endTask s t T o).partialW = s.partialW := rfl
theorem setTask_tasks (s : State) (t : Tid) (T : Task) : (setTask s t T).tasks = upd s.tasks t (some T) := rfl
theorem setTask_comp (s : State) (t : Tid) (T : Task) : (setTask s t T).comp = s.comp := rfl
theorem setTask_bpl (s : State) (t : Tid) (T : Task) : (setTask s t T).bpl = s.bpl := rfl
theorem setTask_partialW (s : State) (t : Tid) (T : Task) : (setTask s t T).partialW = s.partialW := rfl
theorem dropBatch_tasks (s : State) (b : Option Bid) : (dropBatch s b).tasks = s.tasks := by cases b <;> rfl
theorem dropBatch_comp (s : State) (b : Option Bid) : (dropBatch s b).comp = s.comp := by cases b <;> rfl
theorem dropBatch_bpl (s : State) (b : Option Bid) : (dropBatch s b).bpl = s.bpl := by cases b <;> rfl
theorem dropBatch_partialW (s : State) (b : Option Bid) : (dropBatch s b).partialW = s.partialW := by cases b <;> rfl

/-- closes `T.detached = true → (new pc).detachable = true`: either the new pc is detachable, or the old pc
    (named by `hc`) is not, and then the task was not detached -/
macro "detached_pc" h:ident t:ident T:ident hT:ident hc:term : tactic =>
  `(tactic| (intro hd; have hdp := InvCore.detachedPc $h $t $T $hT hd; simp [$hc:term, Pc.detachable] at hdp ⊢))

end QbiceVerif.CancelLts
