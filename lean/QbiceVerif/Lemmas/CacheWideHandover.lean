/-
`WideCacheR`: the hand-over write discipline – a writer of the key opens its batch only while no other writer of the key
has a batch open – IMPLIES the schedule assumption `ordered` at every `cacheWrite` (`exclusive_is_ordered`).  This is
the discipline the engine follows for the keys of DirtySetColumn (see the plugin's ASSUMPTIONS for the file:line argument).
-/
import QbiceVerif.Lemmas.CacheWideConc
namespace QbiceVerif.WideCacheR
open QbiceVerif.WideCache (Entry Batch cacheWriteEntry notifyEntry)

/-- the write discipline of a key whose writers hand it over: a writer opens its batch only while no other writer
of the key has a batch open (every enabled `begin` fires in a state in which no task has an open batch) -/
def exclusiveSched : State → List Ev → Bool
  | _, [] => true
  | s, e :: es =>
      match fire s e with
      | some (s', _) =>
          (match e with
           | .begin _ => s.tasks.all (fun u => u.openB.isNone)
           | _ => true) && exclusiveSched s' es
      | none => true

structure ExInv (s : State) : Prop where
  subLt : ∀ b ∈ s.submitted, b.epoch < s.nextEpoch
  openLt : ∀ (t : Nat) (u : Task) (b : Batch), s.tasks[t]? = some u → u.openB = some b → b.epoch < s.nextEpoch
  openMax : ∀ (t : Nat) (u : Task) (b : Batch), s.tasks[t]? = some u → u.openB = some b → ∀ b' ∈ s.submitted, b'.epoch < b.epoch
  openOne : ∀ (t t' : Nat) (u u' : Task) (b : Batch), s.tasks[t]? = some u → u.openB = some b → s.tasks[t']? = some u' → t' ≠ t →
              u'.openB = none

theorem ex_ordered {s : State} (X : ExInv s) (t : Nat) : ordered s t = true := by
  unfold ordered
  cases hu : s.tasks[t]? with
  | none => rfl
  | some u =>
      simp only
      cases hb : u.openB with
      | none => rfl
      | some b =>
          simp only [Bool.and_eq_true, List.all_eq_true]
          constructor
          · intro b' hb'
            have := X.openMax t u b hu hb b' hb'
            simp [this]
          · intro j _
            by_cases hj : j = t
            · simp [hj]
            · cases hu' : s.tasks[j]? with
              | none => simp
              | some u' =>
                  have := X.openOne t j u u' b hu hb hu' hj
                  simp [hj, cwOpen, this]

theorem wset_get {l : List Task} {t : Nat} {u0 : Task} (u1 : Task) (h0 : l[t]? = some u0) (t' : Nat) :
    (l.set t u1)[t']? = if t' = t then some u1 else l[t']? := by
  have hlt : t < l.length := by
    rcases Nat.lt_or_ge t l.length with h | h
    · exact h
    · rw [List.getElem?_eq_none h] at h0; cases h0
  rw [List.getElem?_set]
  by_cases h : t = t'
  · subst h; simp [hlt]
  · have : ¬ t' = t := fun hh => h hh.symm
    simp [h, this]

/-- a step that keeps every task's open batch (up to the recorded write), the epoch counter, and does not add to `submitted` -/
theorem ex_frame {s s' : State} {t : Nat} {pc0 pc1 : Pc} {ob0 ob1 : Option Batch} {sn0 sn1 : Nat} (X : ExInv s)
    (h0 : s.tasks[t]? = some ⟨pc0, ob0, sn0⟩) (et : s'.tasks = s.tasks.set t ⟨pc1, ob1, sn1⟩)
    (hob : ∀ b1, ob1 = some b1 → ∃ b0, ob0 = some b0 ∧ b0.epoch = b1.epoch)
    (hsub : ∀ b ∈ s'.submitted, b ∈ s.submitted) (hn : s'.nextEpoch = s.nextEpoch) : ExInv s' := by
  have hget : ∀ t', s'.tasks[t']? = if t' = t then some ⟨pc1, ob1, sn1⟩ else s.tasks[t']? := by
    intro t'; rw [et]; exact wset_get _ h0 t'
  have key : ∀ (t' : Nat) (u' : Task) (b' : Batch), s'.tasks[t']? = some u' → u'.openB = some b' →
      ∃ u b, s.tasks[t']? = some u ∧ u.openB = some b ∧ b.epoch = b'.epoch := by
    intro t' u' b' h1 h2
    rw [hget] at h1
    split at h1
    · rename_i ht; subst ht; cases h1
      obtain ⟨b0, hb0, he⟩ := hob b' h2
      exact ⟨_, b0, h0, hb0, he⟩
    · exact ⟨u', b', h1, h2, rfl⟩
  have keyNone : ∀ (t' : Nat) (u : Task), s.tasks[t']? = some u → u.openB = none → ∀ u', s'.tasks[t']? = some u' → u'.openB = none := by
    intro t' u h1 h2 u' h3
    rw [hget] at h3
    split at h3
    · rename_i ht; subst ht; cases h3
      rw [h0] at h1; cases h1
      cases hb : ob1 with
      | none => rfl
      | some b1 => obtain ⟨b0, hb0, _⟩ := hob b1 hb; simp at h2; rw [h2] at hb0; cases hb0
    · rw [h1] at h3; cases h3; exact h2
  constructor
  · intro b hb; rw [hn]; exact X.subLt b (hsub b hb)
  · intro t' u' b' h1 h2
    obtain ⟨u, b, h3, h4, h5⟩ := key t' u' b' h1 h2
    rw [hn, ← h5]; exact X.openLt t' u b h3 h4
  · intro t' u' b' h1 h2 b'' hb''
    obtain ⟨u, b, h3, h4, h5⟩ := key t' u' b' h1 h2
    rw [← h5]; exact X.openMax t' u b h3 h4 b'' (hsub b'' hb'')
  · intro t1 t2 u1 u2 b1 h1 h2 h3 hne
    obtain ⟨u, b, h4, h5, _⟩ := key t1 u1 b1 h1 h2
    cases hu2 : s.tasks[t2]? with
    | none =>
        rw [hget] at h3
        split at h3
        · rename_i ht; subst ht; rw [h0] at hu2; cases hu2
        · rw [hu2] at h3; cases h3
    | some u2' => exact keyNone t2 u2' hu2 (X.openOne t1 t2 u u2' b h4 h5 hu2 hne) u2 h3

theorem ex_same {s s' : State} (X : ExInv s) (et : s'.tasks = s.tasks) (hsub : ∀ b ∈ s'.submitted, b ∈ s.submitted)
    (hn : s'.nextEpoch = s.nextEpoch) : ExInv s' := by
  constructor
  · intro b hb; rw [hn]; exact X.subLt b (hsub b hb)
  · intro t u b h1 h2; rw [hn]; rw [et] at h1; exact X.openLt t u b h1 h2
  · intro t u b h1 h2 b' hb'; rw [et] at h1; exact X.openMax t u b h1 h2 b' (hsub b' hb')
  · intro t t' u u' b h1 h2 h3 hne; rw [et] at h1 h3; exact X.openOne t t' u u' b h1 h2 h3 hne

theorem ex_step {s s' : State} {e : Ev} {out} (X : ExInv s) (h : fire s e = some (s', out))
    (hb : ∀ t, e = .begin t → s.tasks.all (fun u => u.openB.isNone) = true) : ExInv s' := by
  cases e with
  | begin t =>
      have hall := hb t rfl
      have hnone : ∀ (t' : Nat) (u : Task), s.tasks[t']? = some u → u.openB = none := by
        intro t' u h1
        have := List.all_eq_true.mp hall u (List.mem_of_getElem? h1)
        simpa using this
      simp only [fire] at h
      split at h
      · rename_i sn h0
        cases h
        have hget : ∀ t', (s.tasks.set t ⟨.idle, some ⟨s.nextEpoch, none⟩, sn⟩)[t']? =
            if t' = t then some ⟨.idle, some ⟨s.nextEpoch, none⟩, sn⟩ else s.tasks[t']? := fun t' => wset_get _ h0 t'
        constructor
        · intro b hb'; have := X.subLt b hb'; simp only [setTask] at *; omega
        · intro t' u b h1 h2
          simp only [setTask] at h1 ⊢
          rw [hget] at h1
          split at h1
          · cases h1; simp at h2; subst h2; simp
          · rw [hnone t' u h1] at h2; cases h2
        · intro t' u b h1 h2 b' hb'
          simp only [setTask] at h1 hb'
          rw [hget] at h1
          split at h1
          · cases h1; simp at h2; subst h2; exact X.subLt b' hb'
          · rw [hnone t' u h1] at h2; cases h2
        · intro t1 t2 u1 u2 b h1 h2 h3 hne
          simp only [setTask] at h1 h3
          rw [hget] at h1 h3
          split at h1
          · rename_i ht1; subst ht1
            rw [if_neg hne] at h3
            exact hnone t2 u2 h3
          · rw [hnone t1 u1 h1] at h2; cases h2
      · cases h
  | put t v =>
      simp only [fire] at h
      split at h
      · rename_i b sn h0
        cases h
        exact ex_frame X h0 rfl (by intro b1 hb1; simp at hb1; subst hb1; exact ⟨b, rfl, rfl⟩) (fun _ h => h) rfl
      · cases h
  | submit t =>
      simp only [fire] at h
      split at h
      · rename_i b sn h0
        cases h
        have hget : ∀ t', (s.tasks.set t ⟨.idle, none, sn⟩)[t']? =
            if t' = t then some ⟨.idle, none, sn⟩ else s.tasks[t']? := fun t' => wset_get _ h0 t'
        have hothers : ∀ (t' : Nat) (u : Task), s.tasks[t']? = some u → t' ≠ t → u.openB = none :=
          fun t' u h1 hne => X.openOne t t' _ u b h0 rfl h1 hne
        constructor
        · intro b' hb'
          simp only [setTask] at hb' ⊢
          rcases List.mem_append.mp hb' with hb' | hb'
          · exact X.subLt b' hb'
          · simp at hb'; rw [hb']; exact X.openLt t _ b h0 rfl
        · intro t' u b' h1 h2
          simp only [setTask] at h1 ⊢
          rw [hget] at h1
          split at h1
          · cases h1; simp at h2
          · rename_i hne; rw [hothers t' u h1 hne] at h2; cases h2
        · intro t' u b' h1 h2
          simp only [setTask] at h1
          rw [hget] at h1
          split at h1
          · cases h1; simp at h2
          · rename_i hne; rw [hothers t' u h1 hne] at h2; cases h2
        · intro t1 t2 u1 u2 b' h1 h2
          simp only [setTask] at h1
          rw [hget] at h1
          split at h1
          · cases h1; simp at h2
          · rename_i hne; rw [hothers t1 u1 h1 hne] at h2; cases h2
      · cases h
  | commit =>
      simp only [fire] at h
      split at h
      · cases h; exact ex_same X rfl (fun b hb => List.mem_of_mem_erase hb) rfl
      · cases h
  | notify =>
      simp only [fire] at h
      split at h
      · cases h
      · cases h; exact ex_same X rfl (fun _ h => h) rfl
  | evict =>
      simp only [fire] at h
      split at h
      · split at h
        · cases h; exact ex_same X rfl (fun _ h => h) rfl
        · cases h
      · cases h
  | _ =>
      simp only [fire] at h
      first
      | (split at h <;> first
          | (cases h; done)
          | (cases h; exact ex_frame X (by assumption) rfl (fun b1 hb1 => ⟨b1, hb1, rfl⟩) (fun _ h => h) rfl)
          | (split at h <;> first
              | (cases h; done)
              | (cases h; exact ex_frame X (by assumption) rfl (fun b1 hb1 => ⟨b1, hb1, rfl⟩) (fun _ h => h) rfl)))

theorem ex_init (db0 : Option Nat) (n : Nat) : ExInv (init true db0 n) := by
  have ht : ∀ (t : Nat) (u : Task), (init true db0 n).tasks[t]? = some u → u.openB = none := by
    intro t u h
    simp only [init, List.getElem?_replicate] at h
    split at h
    · cases h; rfl
    · cases h
  constructor
  · intro b hb; simp [init] at hb
  · intro t u b h1 h2; rw [ht t u h1] at h2; cases h2
  · intro t u b h1 h2; rw [ht t u h1] at h2; cases h2
  · intro t t' u u' b h1 h2; rw [ht t u h1] at h2; cases h2

/-- hand-over discipline ⇒ every `cacheWrite` is `ordered`: for such keys `orderedSched` is a theorem -/
theorem exclusive_is_ordered : ∀ (sched : List Ev) (s : State), ExInv s → exclusiveSched s sched = true →
    orderedSched s sched = true := by
  intro sched
  induction sched with
  | nil => intro s _ _; rfl
  | cons e es ih =>
      intro s X hx
      simp only [exclusiveSched] at hx
      simp only [orderedSched]
      cases hf : fire s e with
      | none => rfl
      | some r =>
          obtain ⟨s1, out⟩ := r
          simp only [hf, Bool.and_eq_true] at hx
          have hg : guardOk s e = true := by
            cases e with
            | cacheWrite t => exact ex_ordered X t
            | _ => rfl
          have X1 : ExInv s1 := ex_step X hf (by intro t ht; subst ht; exact hx.1)
          simp only [hg, Bool.true_and]
          exact ih s1 X1 hx.2
end QbiceVerif.WideCacheR
