/-
The eight slice checks glued together: the whole generated universe has pairwise different ids.
-/
import QbiceVerif.Lemmas.TypeIdOrder
import QbiceVerif.Lemmas.TypeIdSlice0
import QbiceVerif.Lemmas.TypeIdSlice1
import QbiceVerif.Lemmas.TypeIdSlice2
import QbiceVerif.Lemmas.TypeIdSlice3
import QbiceVerif.Lemmas.TypeIdSlice4
import QbiceVerif.Lemmas.TypeIdSlice5
import QbiceVerif.Lemmas.TypeIdSlice6
import QbiceVerif.Lemmas.TypeIdSlice7

namespace QbiceVerif.TypeId
open Gen

theorem universe_sliceCheck : sliceCheck ctorTable sliceBound0 typeUniverse = some sliceBound8 := by
  unfold typeUniverse
  exact sliceCheck_append (sliceCheck_append (sliceCheck_append (sliceCheck_append (sliceCheck_append
    (sliceCheck_append (sliceCheck_append slice0_ok slice1_ok) slice2_ok) slice3_ok) slice4_ok) slice5_ok)
    slice6_ok) slice7_ok

end QbiceVerif.TypeId
