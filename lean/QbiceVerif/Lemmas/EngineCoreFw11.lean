/-
Lemmas about the extended core engine model, part 11: `session_spec` — an input session
re-establishes the invariant.
-/
import QbiceVerif.Lemmas.EngineCoreFw10
namespace Qbice.CoreFw
open Qbice.Core (Prog Err Write SetRes allVals evalProg applyWorld Sat TraceOK applyWrites writeResults)

theorem NGood.congr {s s' : St} (h : s'.nodes = s.nodes) {x : Key} (hx : NGood s x) : NGood s' x :=
  hx.transfer (fun y n _ hn => ⟨n, by rw [h]; exact hn, rfl, rfl⟩)
    (fun y n d o nd _ _ _ hnd => ⟨nd, by rw [h]; exact hnd, rfl, rfl, fun _ => rfl⟩)

/-- an `NGood` normal key that the commit does not reach stays `NGood` through the writes of a session -/
theorem NGood.session {s s1 : St} {ch : List Key}
    (down1 : ∀ x n, s1.nodes x = some n → ∀ d o, (d, o) ∈ n.deps → d < x)
    (hrel : ∀ x, s1.nodes x = s.nodes x ∨ ∃ n', s1.nodes x = some n' ∧ IsLeaf n' ∧
      (∀ n0, s.nodes x = some n0 → n0.kind = n'.kind ∧ n0.tfc = []) ∧
      (x ∈ ch ∨ ∀ n0, s.nodes x = some n0 → n0.value = n'.value))
    {y : Key} (h : NGood s y) :
    ∀ ny, s.nodes y = some ny → ny.kind = .normal → affected s1 ch (y + 1) y = false → NGood s1 y := by
  induction h with
  | mk y n hy hval hsub ih =>
    intro ny hy' hkn ha
    rw [hy] at hy'; cases hy'
    have same : ∀ x nx, s.nodes x = some nx → nx.kind = .normal → s1.nodes x = some nx := by
      intro x nx hx hk
      rcases hrel x with e | ⟨n', _, ⟨hl, _⟩, hk', _⟩
      · rw [e]; exact hx
      · have := (hk' nx hx).1
        rw [hk] at this
        rcases hl with h | h <;> rw [← this] at h <;> cases h
    have hy1 : s1.nodes y = some n := same y n hy hkn
    rw [affected_step ch down1, hy1] at ha
    simp only [Bool.or_eq_false_iff, hkn, isFwPj] at ha
    have hany : n.deps.any (fun d => affected s1 ch (d.1 + 1) d.1) = false := by simpa using ha.2
    have hdep : ∀ d o, (d, o) ∈ n.deps → affected s1 ch (d + 1) d = false := by
      intro d o hm
      rw [List.any_eq_false] at hany
      simpa using hany (d, o) hm
    have hdch : ∀ d o, (d, o) ∈ n.deps → d ∉ ch := by
      intro d o hm hc
      have := hdep d o hm
      rw [affected_step ch down1, List.contains_iff_mem.2 hc] at this
      cases this
    refine NGood.mk y n hy1 ?_ ?_
    · intro d o hm
      obtain ⟨nd, hnd, hvd, hacc⟩ := hval d o hm
      rcases hrel d with e | ⟨n', hn', ⟨_, _, ht⟩, hk', hv'⟩
      · exact ⟨nd, by rw [e]; exact hnd, hvd, hacc⟩
      · obtain ⟨hkk, htt⟩ := hk' nd hnd
        refine ⟨n', hn', ?_, fun hne => ?_⟩
        · rcases hv' with hc | hv'
          · exact absurd hc (hdch d o hm)
          · rw [← hv' nd hnd, hvd]
        · rw [ht, ← htt]; exact hacc (by rw [hkk]; exact hne)
    · intro d o nd' hm hnd' hkd
      obtain ⟨nd, hnd, _, _⟩ := hval d o hm
      have hkd0 : nd.kind = .normal := by
        rcases hrel d with e | ⟨n', hn', ⟨hl, _⟩, hk', _⟩
        · rw [e, hnd] at hnd'; cases hnd'; exact hkd
        · rw [hnd'] at hn'; cases hn'
          rcases hl with h | h <;> rw [hkd] at h <;> cases h
      exact ih d o nd hm hnd hkd0 nd hnd hkd0 (hdep d o hm)

theorem session_spec {p : Program} {s : St} (inv : Inv p s) {ws : List Write}
    {rs : List SetRes} {s' : St} (h : session p ws s = .ok (rs, s')) :
    Inv p s' ∧ rs = writeResults ws (inputsOf s) ∧ inputsOf s' = applyWrites ws (inputsOf s) ∧
      s'.epoch = s.epoch + 1 ∧ s'.world = applyWorld ws s.world ∧
      pinsOf s' = applyRefresh p (applyWorld ws s.world) ws (pinsOf s) ∧
      ∃ l, s'.log = s.log ++ l ∧
        ∀ x, x ∈ l → Write.refresh ∈ ws ∧ ∃ n, s.nodes x = some n ∧ n.kind = .external := by
  rw [session_eq] at h
  cases ha : applySets p ws (sessionStart ws s) [] [] with
  | error e => rw [ha] at h; cases h
  | ok r =>
    obtain ⟨s1, rs1, ch⟩ := r
    rw [ha] at h
    simp only at h
    cases h
    have hk0 : KindsOK p (sessionStart ws s) := inv.kindsOK
    have rel : SetRel p (sessionStart ws s) s1 ch :=
      applySets_rel hk0 ws _ [] [] s1 rs ch hk0 (SetRel.refl p _) ha
    have hio := applySets_io ws _ [] [] s1 rs ch hk0 ha
    obtain ⟨hep, hdirty, hworld, ⟨l, hlog, hlm⟩, hnodes⟩ := rel
    have hio : inputsOf s1 = applyWrites ws (inputsOf s) ∧ rs = [] ++ writeResults ws (inputsOf s) ∧
        pinsOf s1 = applyRefresh p (applyWorld ws s.world) ws (pinsOf s) := hio
    have hep : s1.epoch = s.epoch + 1 := hep
    have hdirty : s1.dirty = s.dirty := hdirty
    have hworld : s1.world = applyWorld ws s.world := hworld
    have hlog : s1.log = s.log ++ l := hlog
    have hlm : ∀ x, x ∈ l → ∃ n, s.nodes x = some n ∧ n.kind = .external := hlm
    have hnodes : ∀ x, s1.nodes x = s.nodes x ∨
        ∃ n', s1.nodes x = some n' ∧ IsLeaf n' ∧ n'.lastVerified = s.epoch + 1 ∧
          (∃ d, p[x]? = some d ∧ d.kind = n'.kind) ∧
          (n'.kind = .external → ∃ n, s.nodes x = some n ∧ n.kind = .external) ∧
          (s.nodes x = none ∨ x ∈ ch ∨ ∃ n, s.nodes x = some n ∧ n.value = n'.value) := hnodes
    -- classification of the nodes of `s1`
    have cls : ∀ x nx, s1.nodes x = some nx →
        s.nodes x = some nx ∨ (IsLeaf nx ∧ nx.lastVerified = s.epoch + 1 ∧
          ∃ d, p[x]? = some d ∧ d.kind = nx.kind) := by
      intro x nx hx
      cases hnodes x with
      | inl h => left; rw [← hx, h]
      | inr h =>
        obtain ⟨n', hn', a1, a2, a3, _⟩ := h
        rw [hx] at hn'; cases hn'
        exact Or.inr ⟨a1, a2, a3⟩
    -- a key that had a node keeps one, of the same kind
    have keepNode : ∀ x n0, s.nodes x = some n0 → ∃ n1, s1.nodes x = some n1 ∧ n1.kind = n0.kind := by
      intro x n0 h0
      cases hnodes x with
      | inl h => exact ⟨n0, by rw [h]; exact h0, rfl⟩
      | inr h =>
        obtain ⟨n', hn', _, _, ⟨d, hp, hk⟩, _⟩ := h
        obtain ⟨d0, hp0, hk0', _⟩ := inv.kind x n0 h0
        rw [hp] at hp0; cases hp0
        exact ⟨n', hn', by rw [← hk, hk0']⟩
    -- firewall and projection nodes are not touched by the writes of a session
    have fwpjSame : ∀ d nd, s.nodes d = some nd → nd.kind = .firewall ∨ nd.kind = .projection →
        s1.nodes d = some nd := by
      intro d nd hnd hkd
      cases hnodes d with
      | inl h => rw [h]; exact hnd
      | inr h =>
        obtain ⟨n', hn', hl, _, ⟨dd, hp, hk⟩, _⟩ := h
        obtain ⟨d0, hp0, hk0', _⟩ := inv.kind d nd hnd
        rw [hp] at hp0; cases hp0
        have : n'.kind = nd.kind := by rw [← hk, hk0']
        rcases hl.1 with h | h <;> rcases hkd with h' | h' <;> rw [this, h'] at h <;> cases h
    have down1 : ∀ x n, s1.nodes x = some n → ∀ d o, (d, o) ∈ n.deps → d < x := by
      intro x nx hx d o hm
      rcases cls x nx hx with h | ⟨⟨_, h, _⟩, _⟩
      · exact (inv.down x nx h d o hm).1
      · rw [h] at hm; cases hm
    have hrel : ∀ x, s1.nodes x = s.nodes x ∨ ∃ n', s1.nodes x = some n' ∧ IsLeaf n' ∧
        (∀ n0, s.nodes x = some n0 → n0.kind = n'.kind ∧ n0.tfc = []) ∧
        (x ∈ ch ∨ ∀ n0, s.nodes x = some n0 → n0.value = n'.value) := by
      intro x
      cases hnodes x with
      | inl h => exact Or.inl h
      | inr h =>
        obtain ⟨n', hn', hl, _, ⟨d, hp, hk⟩, _, h3⟩ := h
        refine Or.inr ⟨n', hn', hl, ?_, ?_⟩
        · intro n0 h0
          obtain ⟨d0, hp0, hk0', hleaf⟩ := inv.kind x n0 h0
          rw [hp] at hp0; cases hp0
          have hkk : n0.kind = n'.kind := by rw [← hk0', hk]
          exact ⟨hkk, (hleaf (by rw [hkk]; exact hl.1)).2⟩
        · rcases h3 with h3 | h3 | ⟨n, hn, hv⟩
          · exact Or.inr (fun n0 h0 => by rw [h3] at h0; cases h0)
          · exact Or.inl h3
          · exact Or.inr (fun n0 h0 => by rw [hn] at h0; cases h0; exact hv)
    have hmn : (markDirty s1 ch).nodes = s1.nodes := rfl
    refine ⟨?_, by simpa using hio.2.1, hio.1, hep, hworld, hio.2.2, l, hlog, ?_⟩
    · constructor
      · intro x nx hx
        rcases cls x nx hx with h | ⟨hl, _, d, hp, hi⟩
        · exact inv.kind x nx h
        · exact ⟨d, hp, hi, fun _ => ⟨hl.2.1, hl.2.2⟩⟩
      · intro x nx hx hkx d o nd' hm hnd'
        rcases cls x nx hx with h | ⟨hl, _⟩
        · obtain ⟨_, nd, hnd⟩ := inv.down x nx h d o hm
          obtain ⟨n1, hn1, hk1⟩ := keepNode d nd hnd
          have hnd'' : s1.nodes d = some nd' := hnd'
          rw [hn1] at hnd''; cases hnd''
          rw [hk1]; exact inv.pjKinds x nx h hkx d o nd hm hnd
        · rcases hl.1 with h | h <;> rw [hkx] at h <;> cases h
      · intro x nx dx ks hx hpx hkx hstx
        rcases cls x nx hx with h | ⟨hl, _⟩
        · refine inv.pjStat_transfer ?_ h hpx hkx hstx
          intro d nd hnd hkd
          have : s1.nodes d = some nd := fwpjSame d nd hnd (hkd.imp id (·.1))
          simp only [front, hmn, this, hnd]
        · rcases hl.1 with h | h <;> rw [hkx] at h <;> cases h
      · intro x nx g o gn hx hm hg hkg hsg
        have hg1 : s1.nodes g = some gn := hg
        have hg0 : s.nodes g = some gn := by
          rcases cls g gn hg1 with h | ⟨hl, _⟩
          · exact h
          · rcases hl.1 with h | h <;> rw [hkg] at h <;> cases h
        rcases cls x nx hx with h | ⟨⟨_, h, _⟩, _⟩
        · exact inv.pjSeen x nx g o gn h hm hg0 hkg hsg
        · rw [h] at hm; cases hm
      · intro g gn hg hkg hsg hpg
        have hg1 : s1.nodes g = some gn := hg
        have hg0 : s.nodes g = some gn := by
          rcases cls g gn hg1 with h | ⟨hl, _⟩
          · exact h
          · rcases hl.1 with h | h <;> rw [hkg] at h <;> cases h
        obtain ⟨c, o, hm, hc⟩ := inv.pjCause g gn hg0 hkg hsg hpg
        obtain ⟨_, nc, hnc⟩ := inv.down g gn hg0 c o hm
        have := fwpjSame c nc hnc ((inv.pjKinds g gn hg0 hkg c o nc hm hnc).imp id (·.1))
        refine ⟨c, o, hm, ?_⟩
        have hc' : nc.pendingBP = true := by simpa [hasPending, hnc] using hc
        simp [hasPending, hmn, this, hc']
      · intro x nx hx hkx d o nd' hm hnd' hne
        rcases cls x nx hx with h | ⟨hl, _⟩
        · obtain ⟨_, nd, hnd⟩ := inv.down x nx h d o hm
          have hkd := inv.pjKinds x nx h hkx d o nd hm hnd
          have hnd'' : s1.nodes d = some nd' := hnd'
          have e := (fwpjSame d nd hnd (hkd.imp id (·.1))).symm.trans hnd''
          obtain rfl := Option.some.inj e
          exact inv.pjBroken x nx h hkx d o nd hm hnd hne
        · rcases hl.1 with h | h <;> rw [hkx] at h <;> cases h
      · intro x nx hx d o hm
        rcases cls x nx hx with h | ⟨⟨_, h, _⟩, _⟩
        · obtain ⟨h1, nd, hnd⟩ := inv.down x nx h d o hm
          obtain ⟨n1, hn1, _⟩ := keepNode d nd hnd
          exact ⟨h1, n1, hn1⟩
        · rw [h] at hm; cases hm
      · intro x nx hx f hf
        rcases cls x nx hx with h | ⟨⟨_, _, h⟩, _⟩
        · exact inv.tfcDown x nx h f hf
        · rw [h] at hf; cases hf
      · intro x nx hx
        rcases cls x nx hx with h | ⟨⟨_, h, _⟩, _⟩
        · exact inv.nodup x nx h
        · rw [h]; simp
      · intro x nx d hx hp h1 h2
        rcases cls x nx hx with h | ⟨⟨hl, _⟩, _⟩
        · exact inv.trace x nx d h hp h1 h2
        · rcases hl with h | h
          · exact absurd h h1
          · exact absurd h h2
      · intro x nx hx
        show nx.lastVerified ≤ s1.epoch
        rw [hep]
        rcases cls x nx hx with h | ⟨_, h, _⟩
        · have := inv.stamp x nx h; omega
        · omega
      · intro x nx hx d o nd' hm hnd'
        rcases cls x nx hx with h | ⟨⟨_, h, _⟩, _⟩
        · obtain ⟨_, nd, hnd⟩ := inv.down x nx h d o hm
          obtain ⟨n1, hn1, hk1⟩ := keepNode d nd hnd
          have hnd'' : s1.nodes d = some nd' := hnd'
          rw [hn1] at hnd''; cases hnd''
          rw [hk1]
          exact inv.seenSub x nx h d o nd hm hnd
        · rw [h] at hm; cases hm
      · intro x nx hx hv
        have hv : nx.lastVerified = s.epoch + 1 := by rw [← hep]; exact hv
        rcases cls x nx hx with h | ⟨hl, _⟩
        · have := inv.stamp x nx h; omega
        · exact Solid.leaf hx hl.2.1 (fun hk => by rcases hl.1 with h | h <;> rw [hk] at h <;> cases h)
      · intro x nx hx y o hm hcl
        have hx1 : s1.nodes x = some nx := hx
        rcases cls x nx hx1 with h | ⟨⟨_, h, _⟩, _⟩
        · obtain ⟨hc1, hc2⟩ := markDirty_clean hx1 hm hcl
          have hcs : s.dirty x y = false := by rw [hdirty] at hc1; exact hc1
          obtain ⟨ny, hny, hvy, hacc, hgood⟩ := inv.clean x nx h y o hm hcs
          have hych : y ∉ ch := by
            intro hc
            rw [affected_step ch down1, List.contains_iff_mem.2 hc] at hc2
            cases hc2
          rcases hrel y with e | ⟨n', hn', ⟨hl, _, ht⟩, hk', hv'⟩
          · refine ⟨ny, by rw [hmn, e]; exact hny, hvy, hacc, fun hk => ?_⟩
            exact (NGood.session down1 hrel (hgood hk) ny hny hk hc2).congr hmn
          · obtain ⟨hkk, htt⟩ := hk' ny hny
            refine ⟨n', by rw [hmn]; exact hn', ?_, fun hne => ?_, fun hk => ?_⟩
            · rcases hv' with hc | hv'
              · exact absurd hc hych
              · rw [← hv' ny hny, hvy]
            · rw [ht, ← htt]; exact hacc (by rw [hkk]; exact hne)
            · rcases hl with h | h <;> rw [hk] at h <;> cases h
        · rw [h] at hm; cases hm
    · intro x hx
      refine ⟨?_, hlm x hx⟩
      false_or_by_contra
      rename_i hnr
      have := applySets_log p ws _ [] [] s1 rs ch hnr ha
      have hl0 : s1.log = s.log := this
      rw [hlog] at hl0
      have : l = [] := by simpa using hl0
      rw [this] at hx; cases hx

end Qbice.CoreFw
