/-
Soundness of the runtime oracle, part 2: every named check holds on the dump of a state that satisfies
the invariant; `inv_dump_sound`, `firstFail_eq_none_iff`, `inv_dump_refutes`.
-/
import QbiceVerif.Lemmas.EngineCoreFwDumpSound
namespace Qbice.CoreFw
open Qbice.Core (Prog Err evalProg TraceOK)

variable {p : Program} {s : St}

/-- what the oracle assumes about `stat`: its claims are true -/
def StatOK (p : Program) (stat : Key → Option (List Key)) : Prop :=
  ∀ g ks, stat g = some ks → ∃ d, p[g]? = some d ∧ ProgStatic d.prog ks

theorem StatOK.static {stat : Key → Option (List Key)} (h : StatOK p stat) {g : Key}
    (hg : (stat g).isSome = true) : IsStaticKey p g := by
  obtain ⟨ks, hks⟩ := Option.isSome_iff_exists.1 hg
  obtain ⟨d, hp, hs⟩ := h g ks hks
  exact ⟨d, ks, hp, hs⟩

theorem cKind_sound (inv : Inv p s) (k : Key) : cKind p (dump p s) k = true := by
  apply onNode_dump inv
  intro n hn
  obtain ⟨d, hp, hk, hleaf⟩ := inv.kind k n hn
  simp only [hp, dumpNode, hk, decide_true, Bool.true_and]
  by_cases hi : n.kind = .input ∨ n.kind = .external
  · obtain ⟨h1, h2⟩ := hleaf hi
    simp [h1, h2]
  · have h1 : n.kind ≠ .input := fun h => hi (Or.inl h)
    have h2 : n.kind ≠ .external := fun h => hi (Or.inr h)
    simp [h1, h2]

theorem cDown_sound (inv : Inv p s) (k : Key) : cDown (dump p s) k = true := by
  apply onNode_dump inv
  intro n hn
  apply all_deps
  intro d o hm
  obtain ⟨hlt, nd, hnd⟩ := inv.down k n hn d o hm
  simp [dumpDep, node_dump inv, hnd, hlt]

theorem cTfcDown_sound (inv : Inv p s) (k : Key) : cTfcDown (dump p s) k = true := by
  apply onNode_dump inv
  intro n hn
  simp only [dumpNode, List.all_eq_true, decide_eq_true_eq]
  exact fun f hf => inv.tfcDown k n hn f hf

theorem deps_keys (k : Key) (n : Node) :
    (dumpNode p s k n).deps.map (·.key) = n.deps.map (·.1) := by
  simp [dumpNode, dumpDep, List.map_map, Function.comp_def]

theorem cNodup_sound (inv : Inv p s) (k : Key) : cNodup (dump p s) k = true := by
  apply onNode_dump inv
  intro n hn
  rw [deps_keys]
  exact decide_eq_true (inv.nodup k n hn)

theorem cPjKinds_sound (inv : Inv p s) (k : Key) : cPjKinds (dump p s) k = true := by
  apply onNode_dump inv
  intro n hn
  by_cases hk : n.kind = .projection
  · have : (n.deps.map (dumpDep s n)).all (fun e =>
        decide ((dump p s).kindOf e.key = some .firewall) ||
          decide ((dump p s).kindOf e.key = some .projection)) = true := by
      apply all_deps
      intro d o hm
      obtain ⟨_, nd, hnd⟩ := inv.down k n hn d o hm
      rcases inv.pjKinds k n hn hk d o nd hm hnd with h | ⟨h, _⟩ <;>
        simp [dumpDep, kindOf_dump inv, hnd, h]
    simp only [dumpNode, this, Bool.or_true]
  · simp [dumpNode, hk]

theorem cPjStat_sound {stat : Key → Option (List Key)} (hst : StatOK p stat) (inv : Inv p s) (k : Key) :
    cPjStat stat (dump p s) k = true := by
  apply onNode_dump inv
  intro n hn
  cases hs : stat k with
  | none => rfl
  | some ks =>
    simp only
    by_cases hk : n.kind = .projection
    · obtain ⟨d, hp, hps⟩ := hst k ks hs
      obtain ⟨h1, h2⟩ := inv.pjStat k n d ks hn hp hk hps
      rw [deps_keys, front_dump inv]
      have : (dumpNode p s k n).tfc = n.tfc := rfl
      simp [this, h1, h2]
    · simp [dumpNode, hk]

theorem cPjSeen_sound {stat : Key → Option (List Key)} (hst : StatOK p stat) (inv : Inv p s) (k : Key) :
    cPjSeen stat (dump p s) k = true := by
  apply onNode_dump inv
  intro n hn
  apply all_deps
  intro d o hm
  obtain ⟨_, nd, hnd⟩ := inv.down k n hn d o hm
  by_cases hc : nd.kind = .projection ∧ (stat d).isSome = true
  · have := inv.pjSeen k n d o nd hn hm hnd hc.1 (hst.static hc.2)
    simp [dumpDep, tfcOf, hnd, this]
  · have : (decide ((dump p s).kindOf d = some .projection) && (stat d).isSome) = false := by
      rw [kindOf_dump inv, hnd]
      by_cases h1 : nd.kind = .projection
      · have : (stat d).isSome = false := by
          cases h : (stat d).isSome with
          | false => rfl
          | true => exact absurd ⟨h1, h⟩ hc
        simp [this]
      · simp [h1]
    refine Bool.or_eq_true_iff.2 (Or.inl ?_)
    rw [Bool.not_eq_true']
    exact this

theorem cPjCause_sound {stat : Key → Option (List Key)} (hst : StatOK p stat) (inv : Inv p s) (k : Key) :
    cPjCause stat (dump p s) k = true := by
  apply onNode_dump inv
  intro n hn
  by_cases hc : n.kind = .projection ∧ (stat k).isSome = true ∧ n.pendingBP = true
  · obtain ⟨c, o, hm, hpc⟩ := inv.pjCause k n hn hc.1 (hst.static hc.2.1) hc.2.2
    have : (n.deps.map (dumpDep s n)).any (fun e => (dump p s).pend e.key) = true := by
      rw [List.any_eq_true]
      exact ⟨dumpDep s n (c, o), List.mem_map.2 ⟨(c, o), hm, rfl⟩, by simp [dumpDep, pend_dump inv, hpc]⟩
    simp only [dumpNode, this, Bool.or_true]
  · have : (decide (n.kind = .projection) && (stat k).isSome && n.pendingBP) = false := by
      by_cases h1 : n.kind = .projection
      · cases h2 : (stat k).isSome with
        | false => simp
        | true =>
          cases h3 : n.pendingBP with
          | false => simp
          | true => exact absurd ⟨h1, h2, h3⟩ hc
      · simp [h1]
    refine Bool.or_eq_true_iff.2 (Or.inl ?_)
    rw [Bool.not_eq_true']
    exact this

theorem cPjBroken_sound (inv : Inv p s) (k : Key) : cPjBroken (dump p s) k = true := by
  apply onNode_dump inv
  intro n hn
  by_cases hk : n.kind = .projection
  · have : (n.deps.map (dumpDep s n)).all (fun e => !e.valDiff || (dump p s).pend e.key) = true := by
      apply all_deps
      intro d o hm
      obtain ⟨_, nd, hnd⟩ := inv.down k n hn d o hm
      by_cases hv : nd.value = o
      · simp [dumpDep, hnd, hv]
      · have := inv.pjBroken k n hn hk d o nd hm hnd hv
        simp [dumpDep, pend_dump inv, hasPending, hnd, this]
    simp only [dumpNode, this, Bool.or_true]
  · simp [dumpNode, hk]

theorem cSeenSub_sound (inv : Inv p s) (k : Key) : cSeenSub (dump p s) k = true := by
  apply onNode_dump inv
  intro n hn
  apply all_deps
  intro d o hm
  obtain ⟨_, nd, hnd⟩ := inv.down k n hn d o hm
  obtain ⟨h1, h2⟩ := inv.seenSub k n hn d o nd hm hnd
  have htfc : (dumpNode p s k n).tfc = n.tfc := rfl
  rw [Bool.and_eq_true]
  refine ⟨?_, ?_⟩
  · by_cases hk : nd.kind = .firewall
    · simp [dumpDep, kindOf_dump inv, hnd, hk, htfc, h1 hk]
    · simp [dumpDep, kindOf_dump inv, hnd, hk]
  · by_cases hc : (nd.kind = .normal ∨ nd.kind = .projection) ∧ nd.tfc = n.seen d
    · have : ((dump p s).tfc d).all (fun f => (dumpNode p s k n).tfc.contains f) = true := by
        rw [tfc_dump inv, List.all_eq_true]
        intro f hf
        simp only [tfcOf, hnd] at hf
        rw [hc.2] at hf
        simp [htfc, h2 hc.1 f hf]
      simp only [dumpDep, this, Bool.or_true]
    · have : ((decide ((dump p s).kindOf d = some .normal) || decide ((dump p s).kindOf d = some .projection)) &&
          !decide (tfcOf s d ≠ n.seen d)) = false := by
        rw [kindOf_dump inv, hnd]
        simp only [tfcOf, hnd, Option.map]
        by_cases h3 : nd.kind = .normal ∨ nd.kind = .projection
        · have : nd.tfc ≠ n.seen d := fun h => hc ⟨h3, h⟩
          simp [this]
        · have a : nd.kind ≠ .normal := fun h => h3 (Or.inl h)
          have b : nd.kind ≠ .projection := fun h => h3 (Or.inr h)
          simp [a, b]
      refine Bool.or_eq_true_iff.2 (Or.inl ?_)
      rw [Bool.not_eq_true']
      exact this

theorem cSolid_sound (inv : Inv p s) (k : Key) : cSolid (solidTab (dump p s)) (dump p s) k = true := by
  apply onNode_dump inv
  intro n hn
  by_cases hv : n.lastVerified = s.epoch
  · simp [dumpNode, solidTab_sound inv (inv.solid k n hn hv)]
  · simp [dumpNode, hv]

theorem cClean_sound (inv : Inv p s) (k : Key) : cClean (ngoodTab (dump p s)) (dump p s) k = true := by
  apply onNode_dump inv
  intro n hn
  apply all_deps
  intro d o hm
  obtain ⟨hlt, nd, hnd⟩ := inv.down k n hn d o hm
  have hd : d < p.length := Nat.lt_trans hlt (inv.lt_length hn)
  have hdc : d ∈ (dumpNode p s k n).dirty ↔ s.dirty k d = true := by
    simp [dumpNode, List.mem_filter, hd]
  cases hdir : s.dirty k d with
  | true => simp [dumpDep, hdc, hdir]
  | false =>
    obtain ⟨ny, hny, hv, ht, hng⟩ := inv.clean k n hn d o hm hdir
    rw [depCurrent_of inv ⟨ny, hny, hv, ht⟩]
    by_cases hk : ny.kind = .normal
    · simp [dumpDep, ngoodTab_sound inv hny (hng hk)]
    · simp [dumpDep, kindOf_dump inv, hny, hk]

theorem cCur_sound (wf : WF p) (inv : Inv p s) (k : Key) :
    cCur (curTab p (dump p s)) (dump p s) k = true := by
  apply onNode_dump inv
  intro n hn
  by_cases hv : n.lastVerified = s.epoch
  · obtain ⟨n', hn', hc⟩ := solid_correct wf inv (inv.solid k n hn hv)
    rw [hn] at hn'; cases hn'
    simp [dumpNode, curTab_sound wf inv (inv.lt_length hn), hc]
  · simp [dumpNode, hv]

theorem cTrust_sound (inv : Inv p s) (k : Key) : cTrust (solidTab (dump p s)) (dump p s) k = true := by
  apply onNode_dump inv
  intro n hn
  apply all_deps
  intro d o hm
  obtain ⟨hlt, nd, hnd⟩ := inv.down k n hn d o hm
  have hd : d < p.length := Nat.lt_trans hlt (inv.lt_length hn)
  have hdc : d ∈ (dumpNode p s k n).dirty ↔ s.dirty k d = true := by
    simp [dumpNode, List.mem_filter, hd]
  cases hdir : s.dirty k d with
  | true => simp [dumpDep, hdc, hdir]
  | false =>
    have hfr : ((dump p s).front d).all (dump p s).settled = trusted s d := by
      rw [front_dump inv, settled_dump inv]; rfl
    cases ht : trusted s d with
    | false => simp [dumpDep, hfr, ht]
    | true =>
      obtain ⟨ny, hny, _, _, hsol⟩ := inv.clean_trusted hn hm hdir ht
      simp [dumpDep, solidTab_sound inv hsol]

theorem hasEdge_dump (inv : Inv p s) (c k : Key) :
    (dump p s).hasEdge c k = hasEdge s c k := by
  simp only [DSt.hasEdge, node_dump inv, hasEdge]
  cases s.nodes c with
  | none => rfl
  | some n => simp [dumpNode, dumpDep, List.any_map, Function.comp_def]

theorem cBack_sound (inv : Inv p s) (k : Key) : cBack (dump p s) k = true := by
  apply onNode_dump inv
  intro n hn
  rw [dump_length, Bool.and_eq_true]
  refine ⟨?_, ?_⟩
  · simp only [dumpNode, List.all_eq_true, decide_eq_true_eq]
    intro c hc
    exact List.mem_range.1 (List.mem_filter.1 hc).1
  · rw [List.all_eq_true]
    intro c hc
    rw [hasEdge_dump inv]
    have hc' := List.mem_range.1 hc
    cases h : hasEdge s c k <;> simp [dumpNode, List.mem_filter, hc', h]

theorem cTrace_sound (inv : Inv p s) (k : Key) : cTrace p (dump p s) k = true := by
  apply onNode_dump inv
  intro n hn
  by_cases hi : n.kind = .input
  · simp [dumpNode, hi]
  by_cases he : n.kind = .external
  · simp [dumpNode, he]
  cases hany : (dumpNode p s k n).deps.any (fun e => e.valDiff) with
  | true => simp
  | false =>
    cases hp : p[k]? with
    | none => simp
    | some d =>
      have tr := inv.trace k n d hn hp hi he
      have hrec : ∀ d' o, (d', o) ∈ n.deps → (dump p s).recVal (dumpNode p s k n) d' = some o := by
        intro d' o hm
        have h1 : (dumpNode p s k n).deps.any (fun e => e.key == d') = true := by
          rw [List.any_eq_true]
          exact ⟨dumpDep s n (d', o), List.mem_map.2 ⟨(d', o), hm, rfl⟩, by simp [dumpDep]⟩
        have h2 : (dumpDep s n (d', o)).valDiff = false := by
          rw [List.any_eq_false] at hany
          have := hany (dumpDep s n (d', o)) (List.mem_map.2 ⟨(d', o), hm, rfl⟩)
          simpa using this
        simp only [DSt.recVal, h1, if_true, node_dump inv]
        simp only [dumpDep, decide_eq_false_iff_not, Classical.not_not] at h2
        cases hnd : s.nodes d' with
        | none => rw [hnd] at h2; cases h2
        | some nd => rw [hnd] at h2; simpa [dumpNode] using h2
      have := tr _ hrec
      have hv : (dumpNode p s k n).value = n.value := rfl
      simp only [this, hv, beq_self_eq_true, Bool.or_true]

/-- every named check holds on the dump of a state that satisfies the invariant -/
theorem clauses_sound (wf : WF p) {stat : Key → Option (List Key)} (hst : StatOK p stat)
    (inv : Inv p s) : ∀ c, c ∈ clauses p stat (dump p s) → ∀ k, c.2 k = true := by
  intro c hc k
  simp only [clauses, List.mem_cons, List.mem_nil_iff, or_false] at hc
  rcases hc with rfl | rfl | rfl | rfl | rfl | rfl | rfl | rfl | rfl | rfl | rfl | rfl | rfl | rfl | rfl | rfl
  · exact cKind_sound inv k
  · exact cDown_sound inv k
  · exact cTfcDown_sound inv k
  · exact cNodup_sound inv k
  · exact cBack_sound inv k
  · exact cPjKinds_sound inv k
  · exact cPjStat_sound hst inv k
  · exact cPjSeen_sound hst inv k
  · exact cPjCause_sound hst inv k
  · exact cPjBroken_sound inv k
  · exact cSeenSub_sound inv k
  · exact cClean_sound inv k
  · exact cSolid_sound inv k
  · exact cTrust_sound inv k
  · exact cCur_sound wf inv k
  · exact cTrace_sound inv k

/-- SOUNDNESS OF THE ORACLE: the dump of every state that satisfies the invariant passes every check -/
theorem inv_dump_sound (wf : WF p) {stat : Key → Option (List Key)} (hst : StatOK p stat)
    (inv : Inv p s) : invB p stat (dump p s) = true := by
  simp only [invB, allKeys, List.all_eq_true]
  exact fun c hc k _ => clauses_sound wf hst inv c hc k

/-- … so an alarm is meaningful: a dumped state that fails a check is the dump of NO state satisfying
    the invariant -/
theorem inv_dump_refutes (wf : WF p) {stat : Key → Option (List Key)} (hst : StatOK p stat) {D : DSt}
    (h : invB p stat D = false) : ¬ ∃ s, Inv p s ∧ dump p s = D := by
  rintro ⟨s, inv, rfl⟩
  rw [inv_dump_sound wf hst inv] at h
  cases h

/-- the driver's answer: `firstFail` is `none` exactly when all checks pass -/
theorem firstFail_eq_none_iff (p : Program) (stat : Key → Option (List Key)) (D : DSt) :
    firstFail p stat D = none ↔ invB p stat D = true := by
  simp only [firstFail, invB, allKeys, List.findSome?_eq_none_iff, Option.map_eq_none_iff,
    List.find?_eq_none, List.all_eq_true]
  constructor
  · intro h c hc k hk
    have := h c hc k hk
    simpa using this
  · intro h c hc k hk
    simp [h c hc k hk]

end Qbice.CoreFw
