/-
The invariant of the concurrent set-cache LTS `SetCacheConc` (any number of tasks, multi-step operations),
element by element, and lemmas about task-list updates.
-/
import QbiceVerif.Lemmas.SetCacheConcBasic

namespace QbiceVerif.SetCacheConc
open QbiceVerif.SetCache

/-- `v` is an admissible answer about element `x` for the `get` the task is running -/
def allowed (u : Task) (x : Nat) (v : Prop) : Prop := (x ∈ u.must → v) ∧ (v → x ∈ u.may)

def Pc.reading : Pc → Prop
  | .loop | .loaded | .snapped _ | .missed _ | .scanned _ _ | .got _ _ _ => True
  | _ => False

/-- the write of `x` has not reached entry `i` yet -/
def Pc.pend (pc : Pc) (x i : Nat) : Prop :=
  match pc with
  | .staged y _ => y = x
  | .bumped y _ => y = x
  | .applying j y _ => y = x ∧ j = i
  | _ => False

def Pc.stagedOn (pc : Pc) (x : Nat) : Prop :=
  match pc with
  | .staged y _ => y = x
  | _ => False

/-- what the task's staging snapshot guarantees about `x` -/
def R1 (s : State) (u : Task) (sn : Snapshot) (x : Nat) : Prop :=
  (x ∈ sn.added → x ∈ u.may) ∧ (x ∈ sn.removed → x ∉ u.must) ∧
  (x ∉ sn.added → x ∉ sn.removed →
    allowed u x (x ∈ s.db) ∧ ∀ B ∈ s.bat, ∀ v, lastOf B.ops x = some v → allowed u x (v = true))

/-- as long as no write bumped the generation since the task loaded it, the snapshot is exact up to a write
that is staged but has not bumped yet -/
def R3 (s : State) (u : Task) (sn : Snapshot) (sc : List Nat) (x : Nat) : Prop :=
  s.gen = u.seen → ¬ (ov sc sn x ↔ x ∈ s.truth) → ∃ (t' : Nat) (u' : Task), s.tasks[t']? = some u' ∧ u'.pc.stagedOn x

def R3b (s : State) (u : Task) (sn : Snapshot) (x : Nat) : Prop :=
  s.gen = u.seen → x ∉ sn.added → x ∉ sn.removed → ∀ B ∈ s.bat, lastOf B.ops x ≠ none →
    ∃ (t' : Nat) (u' : Task), s.tasks[t']? = some u' ∧ u'.pc.stagedOn x ∧ u'.openB = some B.epoch

def RInv (s : State) (u : Task) : Prop :=
  u.seen ≤ s.gen ∧ (u.pc.reading → ∀ x, allowed u x (x ∈ s.truth) ∧ (x ∈ inflight s → x ∉ u.must ∧ x ∈ u.may)) ∧
  match u.pc with
  | .snapped sn => snapOk sn ∧ ∀ x, R1 s u sn x ∧ R3 s u sn s.db x ∧ R3b s u sn x
  | .missed sn => snapOk sn ∧ ∀ x, R1 s u sn x ∧ R3 s u sn s.db x ∧ R3b s u sn x
  | .scanned sn sc => snapOk sn ∧ ∀ x, R1 s u sn x ∧ allowed u x (ov sc sn x) ∧ R3 s u sn sc x
  | .got i sn sp => snapOk sn ∧ ∀ x, R1 s u sn x ∧
      (match sp with
       | some (h, r) => allowed u x (x ∈ spillOut h r sn)
       | none => ∀ S, s.entries[i]? = some (.inMem S) → allowed u x (x ∈ S))
  | _ => True

structure StoreInv (bat : List CBatch) (log : List LogOp) (db truth notifs : List Nat) (expected nextEpoch : Nat) : Prop where
  eLe : expected ≤ nextEpoch
  eRange : ∀ B ∈ bat, expected ≤ B.epoch ∧ B.epoch < nextEpoch
  eNodup : bat.Pairwise (fun a b => a.epoch ≠ b.epoch)
  nLt : ∀ e ∈ notifs, e < expected
  logSrc : ∀ op ∈ log, op.epoch < expected ∨ ∃ B ∈ bat, B.epoch = op.epoch ∧ lastOf B.ops op.x ≠ none
  batLog : ∀ B ∈ bat, ∀ x, lastOf B.ops x ≠ none → ∃ op ∈ log, op.x = x ∧ op.epoch = B.epoch
  mono : ∀ x, MonoL (onX log x)
  logT : ∀ x b, lastOf (pairs log) x = some b → (x ∈ truth ↔ b = true)
  batT : ∀ B ∈ bat, ∀ x v, lastOf B.ops x = some v →
          (∀ B' ∈ bat, lastOf B'.ops x ≠ none → B'.epoch ≤ B.epoch) → (x ∈ truth ↔ v = true)
  dbT : ∀ x, (∀ B ∈ bat, lastOf B.ops x = none) → (x ∈ db ↔ x ∈ truth)

structure Inv (s : State) : Prop where
  store : StoreInv s.bat s.log s.db s.truth s.notifs s.expected s.nextEpoch
  openOk : ∀ (t : Nat) (u : Task) (e : Nat), s.tasks[t]? = some u → u.openB = some e → ∃ B ∈ s.bat, B.epoch = e ∧ B.submitted = false
  oUniq : ∀ (t t' : Nat) (u u' : Task) (e : Nat), s.tasks[t]? = some u → s.tasks[t']? = some u' →
            u.openB = some e → u'.openB = some e → t = t'
  wUniq : ∀ (t t' : Nat) (u u' : Task) (x : Nat), s.tasks[t]? = some u → s.tasks[t']? = some u' →
            u.pc.writing = some x → u'.pc.writing = some x → t = t'
  wT : ∀ (t : Nat) (u : Task), s.tasks[t]? = some u →
        match u.pc with
        | .staged x ins => (x ∈ s.truth ↔ ins = true) ∧ u.openB ≠ none
        | .bumped x ins => (x ∈ s.truth ↔ ins = true)
        | .applying _ x ins => (x ∈ s.truth ↔ ins = true)
        | _ => True
  curOk : ∀ i, s.cur = some i → i < s.entries.length
  refOk : ∀ (t : Nat) (u : Task), s.tasks[t]? = some u →
        match u.pc with
        | .got i _ _ => i < s.entries.length
        | .applying i _ _ => i < s.entries.length
        | .downgrade i => i < s.entries.length
        | _ => True
  curT : ∀ i S x, s.cur = some i → s.entries[i]? = some (.inMem S) → ¬ (x ∈ S ↔ x ∈ s.truth) →
          ∃ (t : Nat) (u : Task), s.tasks[t]? = some u ∧ u.pc.pend x i
  rd : ∀ (t : Nat) (u : Task), s.tasks[t]? = some u → RInv s u

theorem allowed_truth {s : State} {u : Task} (h : RInv s u) (hr : u.pc.reading) (x : Nat) :
    allowed u x (x ∈ s.truth) := (h.2.1 hr x).1

theorem allowed_congr {u : Task} {x : Nat} {v w : Prop} (h : v ↔ w) : allowed u x v ↔ allowed u x w := by
  simp [allowed, h]

theorem allowed_any {u : Task} {x : Nat} (h1 : x ∉ u.must) (h2 : x ∈ u.may) (v : Prop) : allowed u x v :=
  ⟨fun h => absurd h h1, fun _ => h2⟩

/-- both truth values are admissible, or the admissible one is `v` -/
theorem allowed_of_eq_truth {s : State} {u : Task} (h : RInv s u) (hr : u.pc.reading) (x : Nat) {v : Prop}
    (hv : v ↔ x ∈ s.truth) : allowed u x v := (allowed_congr hv).mpr (allowed_truth h hr x)

theorem mem_inflight {s : State} {x : Nat} :
    x ∈ inflight s ↔ ∃ (t : Nat) (u : Task), s.tasks[t]? = some u ∧ u.pc.writing = some x := by
  simp only [inflight, List.mem_filterMap]
  constructor
  · rintro ⟨u, hu, hx⟩
    obtain ⟨t, ht, rfl⟩ := List.getElem_of_mem hu
    exact ⟨t, _, by simp [ht], hx⟩
  · rintro ⟨t, u, ht, hx⟩
    exact ⟨u, List.mem_of_getElem? ht, hx⟩

theorem pend_writing {pc : Pc} {x i : Nat} (h : pc.pend x i) : pc.writing = some x := by
  cases pc <;> simp_all [Pc.pend, Pc.writing]

theorem stagedOn_writing {pc : Pc} {x : Nat} (h : pc.stagedOn x) : pc.writing = some x := by
  cases pc <;> simp_all [Pc.stagedOn, Pc.writing]

theorem inv_init (fix : Bool) (thr : Nat) (db0 : List Nat) (n : Nat) : Inv (init fix thr db0 n) := by
  have ht : ∀ (t : Nat) (u : Task), (init fix thr db0 n).tasks[t]? = some u → u = {} := by
    intro t u h
    simp only [init, List.getElem?_replicate] at h
    split at h <;> simp_all
  constructor
  · constructor <;> simp [init, onX, MonoL, pairs, lastOf]
  · intro t u e h; rw [ht t u h]; simp
  · intro t t' u u' x h h'; rw [ht t u h]; simp
  · intro t t' u u' x h h'; rw [ht t u h]; simp [Pc.writing]
  · intro t u h; rw [ht t u h]; simp
  · simp [init]
  · intro t u h; rw [ht t u h]; simp
  · simp [init]
  · intro t u h; rw [ht t u h]; simp [RInv, Pc.reading, init]

theorem set_get {l : List Task} {t : Nat} {u0 : Task} (u1 : Task) (h0 : l[t]? = some u0) (t' : Nat) :
    (l.set t u1)[t']? = if t' = t then some u1 else l[t']? := by
  have hlt : t < l.length := by
    rcases Nat.lt_or_ge t l.length with h | h
    · exact h
    · rw [List.getElem?_eq_none h] at h0; cases h0
  rw [List.getElem?_set]
  by_cases h : t = t'
  · subst h; simp [hlt]
  · have : ¬ t' = t := fun hh => h hh.symm
    simp [h, this]

theorem RInv_mono {s s' : State} {u : Task} (h : RInv s u)
    (ht : s'.truth = s.truth) (hd : s'.db = s.db)
    (hb : ∀ B' ∈ s'.bat, ∀ x v, lastOf B'.ops x = some v → ∃ B ∈ s.bat, B.epoch = B'.epoch ∧ lastOf B.ops x = some v)
    (hg : s.gen ≤ s'.gen)
    (hin : ∀ x, x ∈ inflight s' → x ∈ inflight s)
    (hst : s'.gen = s.gen → ∀ (x t1 : Nat) (u1 : Task), s.tasks[t1]? = some u1 → u1.pc.stagedOn x →
            ∃ (t2 : Nat) (u2 : Task), s'.tasks[t2]? = some u2 ∧ u2.pc.stagedOn x ∧ u2.openB = u1.openB)
    (he : ∀ i S', i < s.entries.length → s'.entries[i]? = some (.inMem S') →
            ∃ S, s.entries[i]? = some (.inMem S) ∧ ∀ x, (x ∈ S' ↔ x ∈ S) ∨ (x ∈ S' ↔ x ∈ s.truth))
    (hi : match u.pc with | .got i _ _ => i < s.entries.length | _ => True) : RInv s' u := by
  have hall := h
  obtain ⟨hseen, h0, h1⟩ := h
  have hR1 : ∀ sn x, R1 s u sn x → R1 s' u sn x := by
    intro sn x ⟨a, b, c⟩
    refine ⟨a, b, fun ha hr => ?_⟩
    obtain ⟨c1, c2⟩ := c ha hr
    refine ⟨by rw [hd]; exact c1, fun B' hB' v hv => ?_⟩
    obtain ⟨B, hB, _, hl⟩ := hb B' hB' x v hv
    exact c2 B hB v hl
  have hR3 : u.seen ≤ s.gen → ∀ sn sc x, R3 s u sn sc x → R3 s' u sn sc x := by
    intro hs sn sc x h3 hg' hne
    have hge : s'.gen = s.gen := by omega
    rw [ht] at hne
    obtain ⟨t1, u1, h1, h2⟩ := h3 (by omega) hne
    obtain ⟨t2, u2, h3, h4, _⟩ := hst hge x t1 u1 h1 h2
    exact ⟨t2, u2, h3, h4⟩
  have hR3b : u.seen ≤ s.gen → ∀ sn x, R3b s u sn x → R3b s' u sn x := by
    intro hs sn x h3 hg' ha hr B' hB' hne
    have hge : s'.gen = s.gen := by omega
    cases hv : lastOf B'.ops x with
    | none => exact absurd hv hne
    | some v =>
        obtain ⟨B, hB, he', hl⟩ := hb B' hB' x v hv
        obtain ⟨t1, u1, h1, h2, h5⟩ := h3 (by omega) ha hr B hB (by rw [hl]; simp)
        obtain ⟨t2, u2, h3, h4, h6⟩ := hst hge x t1 u1 h1 h2
        exact ⟨t2, u2, h3, h4, by rw [h6, h5, he']⟩
  refine ⟨by omega, fun hr x => ?_, ?_⟩
  · have b := h0 hr
    exact ⟨by rw [ht]; exact (b x).1, fun hx => (b x).2 (hin x hx)⟩
  · cases hpc : u.pc with
    | snapped sn =>
        rw [hpc] at h1; simp only at h1 ⊢
        have hs := hseen
        exact ⟨h1.1, fun x => ⟨hR1 sn x (h1.2 x).1, by rw [hd]; exact hR3 hs sn _ x (h1.2 x).2.1, hR3b hs sn x (h1.2 x).2.2⟩⟩
    | missed sn =>
        rw [hpc] at h1; simp only at h1 ⊢
        have hs := hseen
        exact ⟨h1.1, fun x => ⟨hR1 sn x (h1.2 x).1, by rw [hd]; exact hR3 hs sn _ x (h1.2 x).2.1, hR3b hs sn x (h1.2 x).2.2⟩⟩
    | scanned sn sc =>
        rw [hpc] at h1; simp only at h1 ⊢
        have hs := hseen
        exact ⟨h1.1, fun x => ⟨hR1 sn x (h1.2 x).1, (h1.2 x).2.1, hR3 hs sn sc x (h1.2 x).2.2⟩⟩
    | got i sn sp =>
        rw [hpc] at h1 hi; simp only at h1 hi ⊢
        refine ⟨h1.1, fun x => ⟨hR1 sn x (h1.2 x).1, ?_⟩⟩
        have := (h1.2 x).2
        cases sp with
        | some p => exact this
        | none =>
            intro S' hS'
            obtain ⟨S, hS, hx⟩ := he i S' hi hS'
            rcases hx x with hx | hx
            · exact (allowed_congr hx).mpr (this S hS)
            · exact (allowed_congr hx).mpr (allowed_truth hall (by rw [hpc]; trivial) x)
    | _ => trivial

end QbiceVerif.SetCacheConc
