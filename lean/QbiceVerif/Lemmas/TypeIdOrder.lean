/-
Lifting the kernel-evaluated whole-table checks (`sliceCheck`, `pairsDistinctCheck`) to statements
about `List.Nodup` / injectivity of `typeId?` on a list of types.  Nothing here depends on the
generated table.
-/
import QbiceVerif.Model.TypeId

namespace QbiceVerif.TypeId

theorem ascFrom_spec : ∀ (l : List Nat) (lo hi : Nat), ascFrom lo l = some hi →
    lo ≤ hi ∧ l.Pairwise (· < ·) ∧ ∀ x ∈ l, lo ≤ x ∧ x < hi
  | [], lo, hi, h => by
    simp only [ascFrom, Option.some.injEq] at h
    subst h
    exact ⟨Nat.le_refl _, List.Pairwise.nil, fun x hx => absurd hx List.not_mem_nil⟩
  | k :: ks, lo, hi, h => by
    simp only [ascFrom] at h
    cases hb : Nat.ble lo k with
    | false => simp [hb] at h
    | true =>
      simp only [hb, cond_true] at h
      have hle : lo ≤ k := Nat.le_of_ble_eq_true hb
      obtain ⟨h1, h2, h3⟩ := ascFrom_spec ks (k + 1) hi h
      refine ⟨by omega, List.Pairwise.cons (fun x hx => ?_) h2, fun x hx => ?_⟩
      · have := h3 x hx; omega
      · rcases List.mem_cons.mp hx with rfl | hx
        · exact ⟨hle, by omega⟩
        · have := h3 x hx; exact ⟨by omega, this.2⟩

theorem ascFrom_append : ∀ (a b : List Nat) (lo : Nat),
    ascFrom lo (a ++ b) = (ascFrom lo a).bind (fun h => ascFrom h b)
  | [], b, lo => by simp [ascFrom]
  | k :: ks, b, lo => by
    simp only [List.cons_append, ascFrom]
    cases Nat.ble lo k with
    | false => simp
    | true => simp only [cond_true]; exact ascFrom_append ks b (k + 1)

theorem typeIds?_append (tbl : List Ctor) : ∀ (a b : List Ty) (x y : List Id),
    typeIds? tbl a = some x → typeIds? tbl b = some y → typeIds? tbl (a ++ b) = some (x ++ y)
  | [], b, x, y, ha, hb => by
    simp only [typeIds?, Option.some.injEq] at ha
    subst ha
    simpa using hb
  | t :: ts, b, x, y, ha, hb => by
    simp only [typeIds?] at ha
    cases h1 : typeId? tbl t with
    | none => simp [h1] at ha
    | some i =>
      cases h2 : typeIds? tbl ts with
      | none => simp [h1, h2] at ha
      | some is =>
        simp only [h1, h2, Option.some.injEq] at ha
        subst ha
        simp only [List.cons_append, typeIds?, h1, typeIds?_append tbl ts b is y h2 hb]

/-- two adjacent slices that pass, with matching bound, pass as one slice. -/
theorem sliceCheck_append {tbl : List Ctor} {a b : List Ty} {lo mid hi : Nat}
    (ha : sliceCheck tbl lo a = some mid) (hb : sliceCheck tbl mid b = some hi) :
    sliceCheck tbl lo (a ++ b) = some hi := by
  unfold sliceCheck at *
  cases h1 : typeIds? tbl a with
  | none => simp [h1] at ha
  | some x =>
    cases h2 : typeIds? tbl b with
    | none => simp [h2] at hb
    | some y =>
      simp only [h1] at ha
      simp only [h2] at hb
      simp only [typeIds?_append tbl a b x y h1 h2, List.map_append, ascFrom_append, ha, Option.bind_some, hb]

theorem idKey_ne_of_lt {a b : Id} (h : idKey a < idKey b) : a ≠ b := by
  intro e; subst e; exact Nat.lt_irrefl _ h

/-- a slice that passes has all ids defined and pairwise different. -/
theorem sliceCheck_nodup {tbl : List Ctor} {us : List Ty} {lo hi : Nat}
    (h : sliceCheck tbl lo us = some hi) : ∃ ids, typeIds? tbl us = some ids ∧ ids.Nodup := by
  unfold sliceCheck at h
  cases h1 : typeIds? tbl us with
  | none => simp [h1] at h
  | some ids =>
    simp only [h1] at h
    refine ⟨ids, rfl, ?_⟩
    have hp := (ascFrom_spec _ _ _ h).2.1
    rw [List.pairwise_map] at hp
    exact hp.imp (fun hlt => idKey_ne_of_lt hlt)

theorem typeIds?_mem (tbl : List Ctor) : ∀ (us : List Ty) (ids : List Id), typeIds? tbl us = some ids →
    ∀ t ∈ us, ∃ i ∈ ids, typeId? tbl t = some i
  | [], _, _, t, ht => absurd ht List.not_mem_nil
  | u :: us, ids, h, t, ht => by
    simp only [typeIds?] at h
    cases h1 : typeId? tbl u with
    | none => simp [h1] at h
    | some i =>
      cases h2 : typeIds? tbl us with
      | none => simp [h1, h2] at h
      | some is =>
        simp only [h1, h2, Option.some.injEq] at h
        subst h
        rcases List.mem_cons.mp ht with rfl | ht
        · exact ⟨i, List.mem_cons_self, h1⟩
        · obtain ⟨j, hj, e⟩ := typeIds?_mem tbl us is h2 t ht
          exact ⟨j, List.mem_cons_of_mem _ hj, e⟩

/-- if the ids of a list of types are pairwise different then `typeId?` is injective on the list. -/
theorem typeId_inj_of_nodup (tbl : List Ctor) : ∀ (us : List Ty) (ids : List Id),
    typeIds? tbl us = some ids → ids.Nodup →
    ∀ a ∈ us, ∀ b ∈ us, typeId? tbl a = typeId? tbl b → a = b
  | [], _, _, _, a, ha, _, _, _ => absurd ha List.not_mem_nil
  | u :: us, ids, h, hn, a, ha, b, hb, e => by
    simp only [typeIds?] at h
    cases h1 : typeId? tbl u with
    | none => simp [h1] at h
    | some i =>
      cases h2 : typeIds? tbl us with
      | none => simp [h1, h2] at h
      | some is =>
        simp only [h1, h2, Option.some.injEq] at h
        subst h
        have hni : ∀ x ∈ is, i ≠ x := (List.pairwise_cons.mp hn).1
        have hnis : is.Nodup := (List.pairwise_cons.mp hn).2
        rcases List.mem_cons.mp ha with rfl | ha'
        · rcases List.mem_cons.mp hb with rfl | hb'
          · rfl
          · obtain ⟨j, hj, ej⟩ := typeIds?_mem tbl us is h2 b hb'
            rw [h1, ej, Option.some.injEq] at e
            exact absurd e (hni j hj)
        · rcases List.mem_cons.mp hb with rfl | hb'
          · obtain ⟨j, hj, ej⟩ := typeIds?_mem tbl us is h2 a ha'
            rw [h1, ej, Option.some.injEq] at e
            exact absurd e.symm (hni j hj)
          · exact typeId_inj_of_nodup tbl us is h2 hnis a ha' b hb' e

theorem idNe_spec {a b : Id} (h : idNe a b = true) : a ≠ b := by
  intro e
  subst e
  simp [idNe] at h

/-- a pair table that passes: both ids defined and different, for every listed pair. -/
theorem pairsDistinctCheck_spec (tbl : List Ctor) : ∀ (ps : List (Ty × Ty)),
    pairsDistinctCheck tbl ps = true →
    ∀ p ∈ ps, ∃ i j, typeId? tbl p.1 = some i ∧ typeId? tbl p.2 = some j ∧ i ≠ j
  | [], _, p, hp => absurd hp List.not_mem_nil
  | q :: qs, h, p, hp => by
    simp only [pairsDistinctCheck, Bool.and_eq_true] at h
    rcases List.mem_cons.mp hp with rfl | hp'
    · cases h1 : typeId? tbl p.1 with
      | none => simp [h1] at h
      | some i =>
        cases h2 : typeId? tbl p.2 with
        | none => simp [h1, h2] at h
        | some j =>
          simp only [h1, h2] at h
          exact ⟨i, j, rfl, rfl, idNe_spec h.1⟩
    · exact pairsDistinctCheck_spec tbl qs h.2 p hp'

theorem pairsDistinctCheck_append (tbl : List Ctor) : ∀ (a b : List (Ty × Ty)),
    pairsDistinctCheck tbl (a ++ b) = (pairsDistinctCheck tbl a && pairsDistinctCheck tbl b)
  | [], b => by simp [pairsDistinctCheck]
  | p :: ps, b => by
    simp only [List.cons_append, pairsDistinctCheck, pairsDistinctCheck_append tbl ps b, Bool.and_assoc]

end QbiceVerif.TypeId
