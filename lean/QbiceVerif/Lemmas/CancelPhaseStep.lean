import QbiceVerif.Lemmas.CancelPhase
import QbiceVerif.Lemmas.CancelAll

/-!
# C05 — every event preserves the phase invariant (all configurations; the `queryRd` clause is conditional on `f40`)
-/

namespace QbiceVerif.CancelLts

theorem endTask_readers (s : State) (t : Tid) (T : Task) (o : Outcome) :
    (endTask s t T o).readers = if T.rd then s.readers.erase t else s.readers := rfl
theorem endTask_writer (s : State) (t : Tid) (T : Task) (o : Outcome) :
    (endTask s t T o).writer = if T.wr then none else s.writer := rfl

theorem step_phase {s s' : State} (e : Ev) (hc0 : InvCore s) (h : InvPhase s) (hs : step s e = some s') : InvPhase s' := by
  cases e with
  | spawn t k cl u =>
    simp only [step] at hs
    split at hs
    · next hc =>
      cases hs
      obtain ⟨hnone, _, hg⟩ := hc
      have hwn : s.writer = none := by
        rcases hg with ⟨_, hne⟩ | ⟨_, hw⟩
        · cases hw : s.writer with
          | none => rfl
          | some w => exact absurd (h.writerExcl w hw) hne
        · exact hw
      have hnr : t ∉ s.readers := by
        intro hm; obtain ⟨T0, a, _⟩ := h.inRd t hm; rw [hnone] at a; cases a
      refine ⟨?_, ?_, ?_, ?_, ?_, ?_, ?_⟩
      · intro w hw; dsimp only at hw; rw [hwn] at hw; cases hw
      · intro t0 T0 a c
        dsimp only at a ⊢
        by_cases e : t0 = t
        · subst e; exact List.mem_cons_self
        · simp only [upd, e, if_false] at a; exact List.mem_cons_of_mem _ (h.rdIn t0 T0 a c)
      · intro t0 hm
        dsimp only at hm ⊢
        by_cases e : t0 = t
        · subst e; simp [upd]
        · rcases List.mem_cons.mp hm with hm | hm
          · exact absurd hm e
          · obtain ⟨T0, a, c⟩ := h.inRd t0 hm
            exact ⟨T0, by simp [upd, e]; exact a, c⟩
      · exact List.nodup_cons.mpr ⟨hnr, h.nodup⟩
      · intro w hw; dsimp only at hw; rw [hwn] at hw; cases hw
      · intro t0 T0 a c
        dsimp only at a ⊢
        by_cases e : t0 = t
        · subst e; simp [upd] at a; subst a; cases c
        · simp only [upd, e, if_false] at a; exact h.wrWriter t0 T0 a c
      · intro hf t0 T0 a c
        dsimp only at a hf
        by_cases e : t0 = t
        · subst e; simp [upd] at a; subst a; rfl
        · simp only [upd, e, if_false] at a; exact h.queryRd hf t0 T0 a c
    · cases hs
  | call t c =>
    simp only [step] at hs
    cases hT : s.tasks t with
    | none => simp [hT] at hs
    | some T =>
      cases hF : T.frames with
      | nil => simp [hT, hF] at hs
      | cons top rest =>
        simp only [hT, hF] at hs
        split at hs
        · next hc =>
          cases hE : s.comp top.key with
          | none => simp [hE] at hs
          | some e =>
            simp only [hE] at hs; cases hs
            exact phase_task h rfl rfl rfl hT rfl rfl rfl (by intro _; simp [hc.1, Pc.isSession])
        · cases hs
  | hit t =>
    simp only [step] at hs
    cases hT : s.tasks t with
    | none => simp [hT] at hs
    | some T =>
      cases hF : T.frames with
      | nil => simp [hT, hF] at hs
      | cons top rest =>
        simp only [hT, hF] at hs
        split at hs
        · next hc =>
          cases rest with
          | nil => simp only at hs; cases hs; exact phase_end h hT rfl rfl rfl rfl
          | cons r rs => simp only at hs; cases hs; exact phase_task h rfl rfl rfl hT rfl rfl rfl (by intro _; simp [hc.1, Pc.isSession])
        · cases hs
  | waitC t =>
    simp only [step] at hs
    cases hT : s.tasks t with
    | none => simp [hT] at hs
    | some T =>
      cases hF : T.frames with
      | nil => simp [hT, hF] at hs
      | cons top rest =>
        simp only [hT, hF] at hs
        split at hs
        · next hc => cases hs; exact phase_task h rfl rfl rfl hT rfl rfl rfl (by intro _; simp [hc.1, Pc.isSession])
        · cases hs
  | waitB t =>
    simp only [step] at hs
    cases hT : s.tasks t with
    | none => simp [hT] at hs
    | some T =>
      cases hF : T.frames with
      | nil => simp [hT, hF] at hs
      | cons top rest =>
        simp only [hT, hF] at hs
        split at hs
        · next hc => cases hs; exact phase_task h rfl rfl rfl hT rfl rfl rfl (by intro _; simp [hc.1, Pc.isSession])
        · cases hs
  | wake t =>
    simp only [step] at hs
    cases hT : s.tasks t with
    | none => simp [hT] at hs
    | some T =>
      cases hF : T.frames with
      | nil => simp [hT, hF] at hs
      | cons top rest =>
        simp only [hT, hF] at hs
        split at hs
        · next hc =>
          cases hs
          refine phase_task h rfl rfl rfl hT rfl rfl rfl ?_
          intro _; rcases hc with hc | hc <;> simp [hc.1, Pc.isSession]
        · cases hs
  | lock t =>
    simp only [step] at hs
    cases hT : s.tasks t with
    | none => simp [hT] at hs
    | some T =>
      cases hF : T.frames with
      | nil => simp [hT, hF] at hs
      | cons top rest =>
        simp only [hT, hF] at hs
        split at hs
        · next hc => cases hs; exact phase_task h rfl rfl rfl hT rfl rfl rfl (by intro _; simp [hc.1, Pc.isSession])
        · cases hs
  | gEnter t =>
    simp only [step] at hs
    cases hT : s.tasks t with
    | none => simp [hT] at hs
    | some T =>
      simp only [hT] at hs
      split at hs
      · next hc => cases hs; exact phase_task h rfl rfl rfl hT (setTask_tasks ..) rfl rfl (by intro _; simp [hc, Pc.isSession])
      · split at hs
        · next hc => cases hs; exact phase_task h rfl rfl rfl hT (setTask_tasks ..) rfl rfl (by intro _; simp [hc, Pc.isSession])
        · cases hs
  | batchNew t =>
    simp only [step] at hs
    cases hT : s.tasks t with
    | none => simp [hT] at hs
    | some T =>
      simp only [hT] at hs
      split at hs
      · next hc => cases hs; exact phase_task h rfl rfl rfl hT rfl rfl rfl (by intro _; simp [hc.1, Pc.isSession])
      · cases hs
  | write t =>
    simp only [step] at hs
    cases hT : s.tasks t with
    | none => simp [hT] at hs
    | some T =>
      cases hF : T.frames with
      | nil => simp [hT, hF] at hs
      | cons top rest =>
        simp only [hT, hF] at hs
        split at hs
        · cases hs; exact ⟨h.writerExcl, h.rdIn, h.inRd, h.nodup, h.writerLive, h.wrWriter, h.queryRd⟩
        · cases hs
  | submit t =>
    simp only [step] at hs
    cases hT : s.tasks t with
    | none => simp [hT] at hs
    | some T =>
      cases hF : T.frames with
      | nil => simp [hT, hF] at hs
      | cons top rest =>
        cases hB : T.batch with
        | none => simp [hT, hF, hB] at hs
        | some b =>
          simp only [hT, hF, hB] at hs
          split at hs
          · next hc => cases hs; exact phase_task (T' := { T with frames := top :: rest, pc := .g2, batch := none }) h rfl rfl rfl hT rfl rfl rfl (by intro _; simp [hc, Pc.isSession])
          · cases hs
  | finish t =>
    simp only [step] at hs
    cases hT : s.tasks t with
    | none => simp [hT] at hs
    | some T =>
      cases hF : T.frames with
      | nil => simp [hT, hF] at hs
      | cons top rest =>
        simp only [hT, hF] at hs
        split at hs
        · next hpc =>
          split at hs
          · cases hs; exact phase_end (T := T) h hT rfl rfl rfl rfl
          · cases hs; exact phase_task h rfl rfl rfl hT rfl rfl rfl (by intro _; simp [hpc, Pc.isSession])
        · cases hs
  | panic t =>
    simp only [step] at hs
    cases hT : s.tasks t with
    | none => simp [hT] at hs
    | some T =>
      simp only [hT] at hs
      split at hs
      · next hc => cases hs; exact phase_task h rfl rfl rfl hT (setTask_tasks ..) rfl rfl (by intro _; simp [hc, Pc.isSession])
      · cases hs
  | resume t =>
    simp only [step] at hs
    cases hT : s.tasks t with
    | none => simp [hT] at hs
    | some T =>
      cases hF : T.frames with
      | nil => simp [hT, hF] at hs
      | cons top rest =>
        simp only [hT, hF] at hs
        split at hs
        · next hpc =>
          cases rest with
          | nil => simp only at hs; cases hs; exact phase_end h hT rfl rfl rfl rfl
          | cons r rs => simp only at hs; cases hs; exact phase_task h rfl rfl rfl hT rfl rfl rfl (by intro _; simp [hpc, Pc.isSession])
        · cases hs
  | bpLock t =>
    simp only [step] at hs
    cases hT : s.tasks t with
    | none => simp [hT] at hs
    | some T =>
      cases hF : T.frames with
      | nil => simp [hT, hF] at hs
      | cons top rest =>
        simp only [hT, hF] at hs
        split at hs
        · next hc => cases hs; exact phase_task h rfl rfl rfl hT rfl rfl rfl (by intro _; simp [hc.1, Pc.isSession])
        · cases hs
  | bpUp t =>
    simp only [step] at hs
    cases hT : s.tasks t with
    | none => simp [hT] at hs
    | some T =>
      simp only [hT] at hs
      split at hs
      · next hc =>
        split at hs
        · cases hs; exact phase_task h rfl rfl rfl hT (setTask_tasks ..) rfl rfl (by intro _; simp [hc.1, Pc.isSession])
        · cases hs; exact phase_task h rfl rfl rfl hT rfl rfl rfl (by intro _; simp [hc.1, Pc.isSession])
      · cases hs
  | cancel t =>
    simp only [step] at hs
    cases hT : s.tasks t with
    | none => simp [hT] at hs
    | some T =>
      simp only [hT] at hs
      split at hs
      · next hnd =>
        cases hs
        unfold cancelTask
        by_cases hsess : T.pc.isSession = true
        · rw [if_pos hsess]
          cases hp : T.pc <;> simp only [hp, Pc.isSession] at hsess <;> try (cases hsess)
          · exact phase_end h hT rfl rfl rfl rfl
          · show InvPhase (endTask (dropBatch s T.batch) t T .cancelled)
            refine phase_end h hT (by rw [endTask_tasks, dropBatch_tasks]) ?_ ?_ ?_
            · rw [endTask_readers]; cases T.batch <;> rfl
            · rw [endTask_writer]; cases T.batch <;> rfl
            · cases T.batch <;> rfl
          · exact phase_task (T' := { T with detached := true }) h rfl rfl rfl hT (by rw [hp]; rfl) rfl rfl (by intro hx; simp [hp, Pc.isSession] at hx)
          · exact phase_task (T' := { T with pc := .sG1, detached := true }) h rfl rfl rfl hT rfl rfl rfl (by intro hx; simp [Pc.isSession] at hx)
          · exact phase_task (T' := { T with detached := true }) h rfl rfl rfl hT (by rw [hp]; rfl) rfl rfl (by intro hx; simp [hp, Pc.isSession] at hx)
        · rw [if_neg hsess]
          cases hF : T.frames with
          | nil => exact absurd ((hc0.shape t T hT).mpr hF) hsess
          | cons top rest =>
            simp only
            by_cases hg : T.pc.guarded = true
            · rw [if_pos hg]
              by_cases hf : s.cfg.f40 = true
              · -- repaired: the continuation keeps its guard
                have hrd : (T.rd && s.cfg.f40) = T.rd := by rw [hf]; simp
                refine phase_task (T' := { T with frames := [{ top with undo := none }], detached := true, rd := T.rd && s.cfg.f40 }) h ?_ rfl rfl hT rfl hrd rfl (fun _ => by simpa using hsess)
                show (if (T.rd && !(T.rd && s.cfg.f40)) = true then s.readers.erase t else s.readers) = s.readers
                rw [hf]; cases T.rd <;> simp
              · have hf' : s.cfg.f40 = false := by cases hx : s.cfg.f40 <;> simp_all
                refine phase_drop_rd (T' := { T with frames := [{ top with undo := none }], detached := true, rd := T.rd && s.cfg.f40 }) h hT rfl ?_ rfl rfl hf' (by rw [hf']; simp) rfl
                show (if (T.rd && !(T.rd && s.cfg.f40)) = true then s.readers.erase t else s.readers) = _
                rw [hf']; cases T.rd <;> simp
            · rw [if_neg hg]
              refine phase_end h hT (by rw [endTask_tasks]; dsimp only; rw [dropBatch_tasks]) ?_ ?_ ?_
              · rw [endTask_readers]; cases T.batch <;> rfl
              · rw [endTask_writer]; cases T.batch <;> rfl
              · cases T.batch <;> rfl
      · cases hs
  | sStart t =>
    simp only [step] at hs
    split at hs
    · next hc => cases hs; exact phase_new h rfl rfl rfl hc.1 (setTask_tasks ..) rfl rfl rfl
    · cases hs
  | sBump t =>
    simp only [step] at hs
    cases hT : s.tasks t with
    | none => simp [hT] at hs
    | some T =>
      simp only [hT] at hs
      split at hs
      · next hc =>
        cases hs
        refine phase_task h rfl rfl rfl hT rfl rfl rfl ?_
        intro hx; rcases hc with hc | hc <;> simp [hc, Pc.isSession] at hx ⊢
      · cases hs
  | sAcquire t =>
    simp only [step] at hs
    cases hT : s.tasks t with
    | none => simp [hT] at hs
    | some T =>
      simp only [hT] at hs
      split at hs
      · next hc =>
        cases hs
        obtain ⟨hr0, hw0, hpc⟩ := hc
        have hsessT : T.pc.isSession = true := by rcases hpc with hpc | hpc <;> simp [hpc, Pc.isSession]
        refine ⟨?_, ?_, ?_, ?_, ?_, ?_, ?_⟩
        · intro w _; exact hr0
        · intro t0 T0 a c
          dsimp only at a ⊢
          by_cases e : t0 = t
          · subst e; simp [setTask, upd] at a; subst a; exact h.rdIn t0 T hT c
          · simp only [setTask, upd, e, if_false] at a; exact h.rdIn t0 T0 a c
        · intro t0 hm
          change t0 ∈ s.readers at hm; rw [hr0] at hm; cases hm
        · exact h.nodup
        · intro w hw
          dsimp only at hw; cases hw
          simp [setTask, upd]
        · intro t0 T0 a c
          dsimp only at a ⊢
          by_cases e : t0 = t
          · subst e; rfl
          · simp only [setTask, upd, e, if_false] at a
            have := h.wrWriter t0 T0 a c; rw [hw0] at this; cases this
        · intro hf t0 T0 a c
          dsimp only at a hf
          by_cases e : t0 = t
          · subst e; simp [setTask, upd] at a; subst a
            rcases hpc with hpc | hpc <;> simp [hpc, Pc.isSession] at c
          · simp only [setTask, upd, e, if_false] at a; exact h.queryRd hf t0 T0 a c
      · cases hs
  | sWrite t k =>
    simp only [step] at hs
    cases hT : s.tasks t with
    | none => simp [hT] at hs
    | some T =>
      simp only [hT] at hs
      split at hs
      · cases hs; exact ⟨h.writerExcl, h.rdIn, h.inRd, h.nodup, h.writerLive, h.wrWriter, h.queryRd⟩
      · cases hs
  | sCommit t =>
    simp only [step] at hs
    cases hT : s.tasks t with
    | none => simp [hT] at hs
    | some T =>
      simp only [hT] at hs
      split at hs
      · next hc => cases hs; exact phase_task h rfl rfl rfl hT (setTask_tasks ..) rfl rfl (by intro hx; simp [Pc.isSession] at hx)
      · cases hs
  | sFinish t =>
    simp only [step] at hs
    cases hT : s.tasks t with
    | none => simp [hT] at hs
    | some T =>
      cases hB : T.batch with
      | none => simp [hT, hB] at hs
      | some b =>
        simp only [hT, hB] at hs
        split at hs
        · cases hs; exact phase_end (T := T) h hT rfl rfl rfl rfl
        · cases hs

end QbiceVerif.CancelLts
