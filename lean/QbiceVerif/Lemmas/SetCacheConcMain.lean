/-
`SetCacheConc`: the invariant holds along every ordered schedule of the code as it is (`fix = true`), and
every completed `get` returns a set between its ghost bounds.
-/
import QbiceVerif.Lemmas.SetCacheConcStepD

namespace QbiceVerif.SetCacheConc
open QbiceVerif.SetCache

theorem fire_fix {s s' : State} {e : Ev} {out} (h : fire s e = some (s', out)) : s'.fix = s.fix := by
  cases e <;> simp only [fire] at h
  all_goals
    first
    | (cases h; rfl)
    | (split at h <;> first
        | (cases h; rfl)
        | cases h
        | (split at h <;> first
            | (cases h; rfl)
            | cases h
            | (split at h <;> first | (cases h; rfl) | cases h)))

theorem fire_out {s s' : State} {e : Ev} {o : Out} (h : fire s e = some (s', some o)) : ∃ t, e = .gRead t := by
  cases e <;> simp only [fire] at h
  case gRead t => exact ⟨t, rfl⟩
  all_goals
    first
    | (cases h)
    | (split at h <;> first
        | cases h
        | (split at h <;> first
            | cases h
            | (split at h <;> cases h)))

theorem inv_step {s s' : State} {e : Ev} {out} (I : Inv s) (hf : s.fix = true) (hg : guardOk s e = true)
    (h : fire s e = some (s', out)) : Inv s' := by
  cases e with
  | begin t => exact step_begin I h
  | submit t => exact step_submit I h
  | stage t x ins => exact step_stage I hg h
  | bump t => exact step_bump I h
  | wLookup t => exact step_wLookup I h
  | wApply t => exact step_wApply I h
  | wDowngrade t => exact step_wDowngrade I h
  | gStart t => exact step_gStart I h
  | gLoad t => exact step_gLoad I h
  | gSnap t => exact step_gSnap I h
  | gLookup t => exact step_gLookup I h
  | gRetry t => exact step_gRetry I h
  | gScan t => exact step_gScan I h
  | gInstall t => exact step_gInstall I hf h
  | gRead t => exact step_gRead I h
  | commit => exact step_commit I h
  | notify => exact step_notify I h
  | evict => exact step_evict I h
  | otherBump => exact step_otherBump I h

/-- the bounds of a completed `get` -/
def Out.ok (o : Out) : Prop := ∀ x, (x ∈ o.must → x ∈ o.out) ∧ (x ∈ o.out → x ∈ o.may)

theorem run_outputs {s : State} (I : Inv s) (hf : s.fix = true) :
    ∀ (sched : List Ev) (s' : State) (outs : List Out), run s sched = some (s', outs) → ∀ o ∈ outs, o.ok := by
  intro sched
  induction sched generalizing s with
  | nil => intro s' outs h; simp [run] at h; rw [h.2]; simp
  | cons e es ih =>
      intro s' outs h
      simp only [run] at h
      split at h
      · cases h
      · rename_i hg
        have hg' : guardOk s e = true := by cases hgg : guardOk s e <;> simp_all
        split at h
        · cases h
        · rename_i s1 out hfire
          have I1 := inv_step I hf hg' hfire
          have hf1 : s1.fix = true := by rw [fire_fix hfire]; exact hf
          split at h
          · cases h
          · rename_i s2 outs2 hrun
            have := ih I1 hf1 s2 outs2 hrun
            split at h
            · rename_i r
              cases h
              intro o ho
              rcases List.mem_cons.mp ho with rfl | ho
              · obtain ⟨t, rfl⟩ := fire_out hfire
                exact read_ok I hfire
              · exact this o ho
            · cases h; exact this

/-- the states reachable by ordered schedules -/
inductive ReachOrdered (s0 : State) : State → Prop where
  | init : ReachOrdered s0 s0
  | step {s s' : State} {e : Ev} {out : Option Out} :
      ReachOrdered s0 s → guardOk s e = true → fire s e = some (s', out) → ReachOrdered s0 s'

theorem inv_reach {thr : Nat} {db0 : List Nat} {n : Nat} {s : State} (h : ReachOrdered (init true thr db0 n) s) :
    Inv s ∧ s.fix = true := by
  induction h with
  | init => exact ⟨inv_init _ _ _ _, rfl⟩
  | step _ hg hfire ih => exact ⟨inv_step ih.1 ih.2 hg hfire, by rw [fire_fix hfire]; exact ih.2⟩

/-- the ghost bounds of task `t`'s current `get` -/
def bounds (s : State) (t : Nat) : Option (List Nat × List Nat) := (s.tasks[t]?).map (fun u => (u.must, u.may))

/-- events that neither stage a write nor start a new `get` of task `t` -/
def quietEv (t : Nat) : Ev → Bool
  | .stage _ _ _ => false
  | .gStart t' => t' != t
  | _ => true

theorem bounds_set {s s' : State} {t t' : Nat} {pc0 pc1 : Pc} {ob0 ob1 : Option Nat} {sn0 sn1 : Nat} {mu ma : List Nat}
    (h0 : s.tasks[t']? = some ⟨pc0, ob0, sn0, mu, ma⟩)
    (et : s'.tasks = s.tasks.set t' ⟨pc1, ob1, sn1, mu, ma⟩) : bounds s' t = bounds s t := by
  unfold bounds
  rw [et, set_get _ h0]
  split
  · rename_i h; subst h; simp [h0]
  · rfl

theorem bounds_quiet {s s' : State} {e : Ev} {out} {t : Nat} (h : fire s e = some (s', out)) (hq : quietEv t e = true) :
    bounds s' t = bounds s t := by
  cases e <;> simp only [fire] at h <;> (try (simp [quietEv] at hq))
  all_goals
    first
    | (cases h; done)
    | (cases h; rfl)
    | (split at h <;> first
        | (cases h; done)
        | (cases h; rfl)
        | (cases h; exact bounds_set (by assumption) rfl)
        | (cases h; simp [bounds, setTask, List.getElem?_set_ne hq]; done)
        | (split at h <;> first
            | (cases h; done)
            | (cases h; rfl)
            | (cases h; exact bounds_set (by assumption) rfl)
            | (split at h <;> first
                | (cases h; done)
                | (cases h; rfl)
                | (cases h; exact bounds_set (by assumption) rfl))))

/-- runs events none of which stages a write of the key or starts another `get` of task `t` -/
def runQuiet (t : Nat) (s : State) : List Ev → Option State
  | [] => some s
  | e :: es =>
      if quietEv t e then
        match fire s e with
        | some (s', _) => runQuiet t s' es
        | none => none
      else none

theorem quiet_guard {t : Nat} {s : State} {e : Ev} (h : quietEv t e = true) : guardOk s e = true := by
  cases e <;> simp_all [quietEv, guardOk]

theorem runQuiet_spec {t : Nat} {s0 : State} : ∀ (evs : List Ev) (s s2 : State), ReachOrdered s0 s → runQuiet t s evs = some s2 →
    ReachOrdered s0 s2 ∧ bounds s2 t = bounds s t := by
  intro evs
  induction evs with
  | nil => intro s s2 hr h; simp [runQuiet] at h; subst h; exact ⟨hr, rfl⟩
  | cons e es ih =>
      intro s s2 hr h
      simp only [runQuiet] at h
      split at h
      · rename_i hq
        split at h
        · rename_i s' out hf
          obtain ⟨h1, h2⟩ := ih s' s2 (ReachOrdered.step hr (quiet_guard hq) hf) h
          exact ⟨h1, by rw [h2, bounds_quiet hf hq]⟩
        · cases h
      · cases h

theorem gStart_exact {s s1 : State} {t : Nat} {out} (h : fire s (.gStart t) = some (s1, out)) (hq : inflight s = []) :
    ∃ mu ma, bounds s1 t = some (mu, ma) ∧ (∀ x, x ∈ mu ↔ x ∈ s.truth) ∧ (∀ x, x ∈ ma ↔ x ∈ s.truth) := by
  simp only [fire] at h
  split at h
  · rename_i ob sn mu ma h0
    cases h
    refine ⟨s.truth.filter (fun x => x ∉ inflight s), s.truth ++ inflight s, ?_, ?_, ?_⟩
    · simp only [bounds, setTask]; rw [set_get _ h0]; simp
    · intro x; simp [hq]
    · intro x; simp [hq]
  · cases h

/-- a `get` that is invoked while no write of the key is in flight and during which no write of the key is
staged returns exactly the abstract set -/
theorem quiet_get_exact {thr : Nat} {db0 : List Nat} {n t : Nat} {s s1 s2 s3 : State} {o1 : Option Out} {o : Out}
    {mid : List Ev} (hr : ReachOrdered (init true thr db0 n) s) (hq : inflight s = [])
    (h1 : fire s (.gStart t) = some (s1, o1)) (h2 : runQuiet t s1 mid = some s2)
    (h3 : fire s2 (.gRead t) = some (s3, some o)) : ∀ x, x ∈ o.out ↔ x ∈ s.truth := by
  obtain ⟨mu, ma, hb, hmu, hma⟩ := gStart_exact h1 hq
  obtain ⟨hr2, hb2⟩ := runQuiet_spec mid s1 s2 (ReachOrdered.step hr rfl h1) h2
  have hok := read_ok (inv_reach hr2).1 h3
  have hbo : bounds s2 t = some (o.must, o.may) := by
    simp only [fire] at h3
    split at h3
    · rename_i i snp sp ob sn mu' ma' h0
      have hbb : bounds s2 t = some (mu', ma') := by simp [bounds, h0]
      split at h3
      · cases h3; exact hbb
      · split at h3
        · cases h3; exact hbb
        · cases h3; exact hbb
        · cases h3
    · cases h3
  rw [hb2, hb] at hbo
  simp only [Option.some.injEq, Prod.mk.injEq] at hbo
  obtain ⟨e1, e2⟩ := hbo
  intro x
  constructor
  · intro hx; exact (hma x).mp (by rw [e2]; exact (hok x).2 hx)
  · intro hx; exact (hok x).1 (by rw [← e1]; exact (hmu x).mpr hx)

theorem run_of_runAny {s : State} : ∀ {sched : List Ev} {r}, runAny s sched = some r → orderedSched s sched = true →
    run s sched = some r := by
  intro sched
  induction sched generalizing s with
  | nil => intro r h _; simpa [run, runAny] using h
  | cons e es ih =>
      intro r h ho
      simp only [runAny] at h
      cases hf : fire s e with
      | none => simp [hf] at h
      | some p =>
          obtain ⟨s1, out⟩ := p
          simp only [orderedSched, hf, Bool.and_eq_true] at ho
          simp only [hf] at h
          simp only [run, ho.1, hf]
          cases hr : runAny s1 es with
          | none => simp [hr] at h
          | some r2 =>
              simp only [hr] at h
              rw [ih hr ho.2]
              simpa using h

end QbiceVerif.SetCacheConc
