import QbiceVerif.Lemmas.WriteBehindBasic

/-! The transition function of the write-behind model as an inductive relation (one constructor per
branch of `step`), so that invariant proofs are a `cases` away. -/

namespace QbiceVerif.WB

inductive Step : State → Event → State → Prop
  | create (s : State) (hc : s.crashed = false) (hd : s.dpc = .running) :
      Step s .create { s with counter := s.counter + 1 }
  | submitCrash (s : State) (e : Nat) (ops : List WOp) (hc : s.crashed = false) (hd : s.dpc = .running)
      (he : e < s.counter) (hn : e ∉ s.submitted.map Task.epoch) (hk : (ops.map WOp.key).Nodup)
      (h0 : s.sers = []) :
      Step s (.submit e ops) { s with crashed := true }
  | submit (s : State) (e : Nat) (ops : List WOp) (hc : s.crashed = false) (hd : s.dpc = .running)
      (he : e < s.counter) (hn : e ∉ s.submitted.map Task.epoch) (hk : (ops.map WOp.key).Nodup)
      (h0 : s.sers ≠ []) :
      Step s (.submit e ops)
        { s with submitted := s.submitted ++ [⟨e, ops, []⟩], serQ := s.serQ ++ [⟨e, ops, []⟩] }
  | serTake (s : State) (w : Nat) (t : Task) (q : List Task) (hc : s.crashed = false)
      (hw : s.sers[w]? = some .idle) (hq : s.serQ = t :: q) :
      Step s (.serTake w) { s with serQ := q, sers := s.sers.set w (.raw t) }
  | serSerialise (s : State) (w : Nat) (buf : List WOp) (t : Task) (hc : s.crashed = false)
      (hw : s.sers[w]? = some (.raw t)) (hp : buf.Perm t.ops) :
      Step s (.serSerialise w buf) { s with sers := s.sers.set w (.done { t with buf := buf }) }
  | serSend (s : State) (w : Nat) (t : Task) (hc : s.crashed = false)
      (hw : s.sers[w]? = some (.done t)) :
      Step s (.serSend w) { s with commitQ := s.commitQ ++ [t], sers := s.sers.set w .idle }
  | serExit (s : State) (w : Nat) (hc : s.crashed = false)
      (hw : s.sers[w]? = some .idle) (hq : s.serQ = []) (hcl : s.serClosed = true) :
      Step s (.serExit w) { s with sers := s.sers.set w .exited }
  | cRecv (s : State) (t : Task) (q : List Task) (hc : s.crashed = false)
      (hp : s.cpc = .wait) (hq : s.commitQ = t :: q) :
      Step s .cRecv { s with commitQ := q, heap := t :: s.heap, cpc := .loop }
  | cRecvClosed (s : State) (hc : s.crashed = false)
      (hp : s.cpc = .wait) (hq : s.commitQ = []) (hx : allExited s.sers = true) :
      Step s .cRecvClosed { s with final := true, cpc := .loop }
  | cPop (s : State) (t : Task) (hc : s.crashed = false)
      (hp : s.cpc = .loop) (hm : heapMin s.heap = some t) (he : t.epoch = s.expected) :
      Step s .cPop
        { s with heap := s.heap.erase t, cur := s.cur ++ [t], expected := s.expected + 1, cpc := .decide }
  | cBreak (s : State) (hc : s.crashed = false)
      (hp : s.cpc = .loop) (hm : ∀ t, heapMin s.heap = some t → t.epoch ≠ s.expected) :
      Step s .cBreak { s with cpc := if s.final then .lastCommit else .wait }
  | cDecide (s : State) (more : Bool) (hc : s.crashed = false) (hp : s.cpc = .decide) :
      Step s (.cDecide more) { s with cpc := if more then .loop else .commit }
  | cCommit (s : State) (hc : s.crashed = false) (hp : s.cpc = .commit) :
      Step s .cCommit
        { s with log := s.log ++ [s.cur], store := commitStore s.store s.cur, cur := [], cpc := .notify s.cur }
  | cLastCommit (s : State) (hc : s.crashed = false) (hp : s.cpc = .lastCommit) :
      Step s .cCommit
        { s with log := s.log ++ [s.cur], store := commitStore s.store s.cur, cur := [],
                 cpc := .lastNotify s.cur }
  | cNotifyEnd (s : State) (hc : s.crashed = false) (hp : s.cpc = .notify []) :
      Step s .cNotify { s with cpc := .loop }
  | cNotifySkip (s : State) (t : Task) (r : List Task) (hc : s.crashed = false)
      (hp : s.cpc = .notify (t :: r)) (hs : s.shutting = true) :
      Step s .cNotify { s with deactivated := s.deactivated ++ [t.epoch], cpc := .notify r }
  | cNotifySend (s : State) (t : Task) (r : List Task) (hc : s.crashed = false)
      (hp : s.cpc = .notify (t :: r)) (hs : s.shutting = false) :
      Step s .cNotify { s with afterQ := s.afterQ ++ [t], cpc := .notify r }
  | cLastNotifyEnd (s : State) (hc : s.crashed = false) (hp : s.cpc = .lastNotify []) :
      Step s .cNotify { s with cpc := .assert }
  | cLastNotifySkip (s : State) (t : Task) (r : List Task) (hc : s.crashed = false)
      (hp : s.cpc = .lastNotify (t :: r)) (hs : s.shutting = true) :
      Step s .cNotify { s with deactivated := s.deactivated ++ [t.epoch], cpc := .lastNotify r }
  | cLastNotifySend (s : State) (t : Task) (r : List Task) (hc : s.crashed = false)
      (hp : s.cpc = .lastNotify (t :: r)) (hs : s.shutting = false) :
      Step s .cNotify { s with afterQ := s.afterQ ++ [t], cpc := .lastNotify r }
  | cAssertOk (s : State) (hc : s.crashed = false) (hp : s.cpc = .assert) (hh : s.heap = []) :
      Step s .cAssert { s with cpc := .done }
  | cAssertCrash (s : State) (hc : s.crashed = false) (hp : s.cpc = .assert) (hh : s.heap ≠ []) :
      Step s .cAssert { s with crashed := true }
  | aRecvSkip (s : State) (t : Task) (q : List Task) (hc : s.crashed = false)
      (hx : s.aExited = false) (hq : s.afterQ = t :: q) (hs : s.shutting = true) :
      Step s .aRecv { s with afterQ := q, deactivated := s.deactivated ++ [t.epoch] }
  | aRecvNotify (s : State) (t : Task) (q : List Task) (hc : s.crashed = false)
      (hx : s.aExited = false) (hq : s.afterQ = t :: q) (hs : s.shutting = false) :
      Step s .aRecv { s with afterQ := q, notified := s.notified ++ [t.epoch] }
  | aExit (s : State) (hc : s.crashed = false)
      (hx : s.aExited = false) (hq : s.afterQ = []) (hp : s.cpc = .done) :
      Step s .aExit { s with aExited := true }
  | dSetFlag (s : State) (hc : s.crashed = false) (hd : s.dpc = .running) :
      Step s .dSetFlag { s with shutting := true, dpc := .flagged }
  | dClose (s : State) (hc : s.crashed = false) (hd : s.dpc = .flagged) :
      Step s .dClose { s with serClosed := true, dpc := .joinSers }
  | dJoinSers (s : State) (hc : s.crashed = false) (hd : s.dpc = .joinSers)
      (hx : allExited s.sers = true) :
      Step s .dJoinSers { s with dpc := .joinCommit }
  | dJoinCommit (s : State) (hc : s.crashed = false) (hd : s.dpc = .joinCommit) (hp : s.cpc = .done) :
      Step s .dJoinCommit { s with dpc := .joinAfter }
  | dJoinAfter (s : State) (hc : s.crashed = false) (hd : s.dpc = .joinAfter) (hx : s.aExited = true) :
      Step s .dJoinAfter { s with dpc := .returned }

theorem step_sound {s s' : State} {ev : Event} (h : step s ev = some s') : Step s ev s' := by
  unfold step at h
  split at h
  · cases h
  rename_i hc
  have hc : s.crashed = false := by simpa using hc
  cases ev <;> simp only at h
  case create =>
    split at h <;> simp at h
    subst h; exact .create s hc ‹_›
  case submit e ops =>
    split at h
    · rename_i hg
      split at h <;> simp at h <;> subst h
      · exact .submitCrash s e ops hc hg.1 hg.2.1 hg.2.2.1 hg.2.2.2 ‹_›
      · exact .submit s e ops hc hg.1 hg.2.1 hg.2.2.1 hg.2.2.2 ‹_›
    · cases h
  case serTake w =>
    split at h <;> simp at h
    subst h; exact .serTake s w _ _ hc ‹_› ‹_›
  case serSerialise w buf =>
    split at h
    · split at h <;> simp at h
      subst h
      rename_i hp
      exact .serSerialise s w buf _ hc ‹_› (List.isPerm_iff.mp hp)
    · cases h
  case serSend w =>
    split at h <;> simp at h
    subst h; exact .serSend s w _ hc ‹_›
  case serExit w =>
    split at h
    · split at h <;> simp at h
      subst h
      rename_i hg
      exact .serExit s w hc ‹_› hg.1 hg.2
    · cases h
  case cRecv =>
    split at h <;> simp at h
    subst h; exact .cRecv s _ _ hc ‹_› ‹_›
  case cRecvClosed =>
    split at h <;> simp at h
    subst h
    rename_i hg
    exact .cRecvClosed s hc hg.1 hg.2.1 hg.2.2
  case cPop =>
    split at h
    · split at h
      · split at h <;> simp at h
        subst h; exact .cPop s _ hc ‹_› ‹_› ‹_›
      · cases h
    · cases h
  case cBreak =>
    split at h
    · split at h
      · split at h <;> simp at h
        subst h
        rename_i t hm hne
        refine .cBreak s hc ‹_› ?_
        intro t' ht'
        rw [hm] at ht'; cases ht'; exact hne
      · simp at h
        subst h
        rename_i hm
        refine .cBreak s hc ‹_› ?_
        intro t' ht'
        rw [hm] at ht'; cases ht'
    · cases h
  case cDecide more =>
    split at h <;> simp at h
    subst h; exact .cDecide s more hc ‹_›
  case cCommit =>
    split at h <;> simp at h
    · subst h; exact .cCommit s hc ‹_›
    · subst h; exact .cLastCommit s hc ‹_›
  case cNotify =>
    split at h
    · simp at h; subst h; exact .cNotifyEnd s hc ‹_›
    · split at h <;> simp at h <;> subst h
      · exact .cNotifySkip s _ _ hc ‹_› ‹_›
      · exact .cNotifySend s _ _ hc ‹_› (by simpa using ‹¬ s.shutting = true›)
    · simp at h; subst h; exact .cLastNotifyEnd s hc ‹_›
    · split at h <;> simp at h <;> subst h
      · exact .cLastNotifySkip s _ _ hc ‹_› ‹_›
      · exact .cLastNotifySend s _ _ hc ‹_› (by simpa using ‹¬ s.shutting = true›)
    · cases h
  case cAssert =>
    split at h
    · split at h <;> simp at h <;> subst h
      · exact .cAssertOk s hc ‹_› ‹_›
      · exact .cAssertCrash s hc ‹_› ‹_›
    · cases h
  case aRecv =>
    split at h
    · split at h <;> simp at h <;> subst h
      · exact .aRecvSkip s _ _ hc ‹_› ‹_› ‹_›
      · exact .aRecvNotify s _ _ hc ‹_› ‹_› (by simpa using ‹¬ s.shutting = true›)
    · cases h
  case aExit =>
    split at h <;> simp at h
    subst h
    rename_i hg
    exact .aExit s hc hg.1 hg.2.1 hg.2.2
  case dSetFlag =>
    split at h <;> simp at h
    subst h; exact .dSetFlag s hc ‹_›
  case dClose =>
    split at h <;> simp at h
    subst h; exact .dClose s hc ‹_›
  case dJoinSers =>
    split at h <;> simp at h
    subst h
    rename_i hg
    exact .dJoinSers s hc hg.1 hg.2
  case dJoinCommit =>
    split at h <;> simp at h
    subst h
    rename_i hg
    exact .dJoinCommit s hc hg.1 hg.2
  case dJoinAfter =>
    split at h <;> simp at h
    subst h
    rename_i hg
    exact .dJoinAfter s hc hg.1 hg.2

/-- Induction principle over reachable states in terms of `Step`. -/
theorem reachable_step_induction {nSer : Nat} {P : State → Prop} (h0 : P (init nSer))
    (hs : ∀ s ev s', Reachable nSer s → P s → Step s ev s' → P s') :
    ∀ s, Reachable nSer s → P s :=
  reachable_induction h0 (fun s ev s' hr hp hst => hs s ev s' hr hp (step_sound hst))

end QbiceVerif.WB
