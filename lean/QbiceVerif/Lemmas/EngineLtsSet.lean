import QbiceVerif.Model.EngineLts

/-! The `TS` (tiered backward-edge set) LTS: the repaired variant refines the sequential set
specification with the completing event of every operation as its linearization point. -/

namespace QbiceVerif.Lts.TS

theorem insertInto_spec {l l' : List Nat} {x : Nat} {r : Bool} (h : insertInto l x = (l', r)) :
    r = decide (x ∉ l) ∧ (∀ y, y ∈ l' ↔ (y = x ∨ y ∈ l)) ∧ (l.Nodup → l'.Nodup) := by
  unfold insertInto at h
  split at h
  · rename_i hm
    cases h
    refine ⟨by simp [hm], ?_, id⟩
    intro y
    constructor
    · exact Or.inr
    · rintro (rfl | h)
      · exact hm
      · exact h
  · rename_i hm
    cases h
    refine ⟨by simp [hm], ?_, ?_⟩
    · intro y
      simp only [List.mem_append, List.mem_singleton]
      constructor
      · rintro (h | h)
        · exact Or.inr h
        · exact Or.inl h
      · rintro (h | h)
        · exact Or.inr h
        · exact Or.inl h
    · intro hn
      rw [List.nodup_append]
      refine ⟨hn, by simp, ?_⟩
      intro a ha b hb
      simp only [List.mem_singleton] at hb
      subst hb
      intro hab
      subst hab
      exact hm ha

theorem ite_content (c : Prop) [Decidable c] (v : List Nat) :
    (if c then Store.small v else Store.large v).content = v := by
  split <;> rfl

theorem erase_spec {l : List Nat} (x : Nat) (hn : l.Nodup) :
    (∀ y, y ∈ l.erase x ↔ (y ≠ x ∧ y ∈ l)) ∧ (l.erase x).Nodup :=
  ⟨fun _ => hn.mem_erase_iff, hn.erase x⟩

/-- The invariant of the repaired variant. -/
structure Inv (s : State) : Prop where
  fixed : s.fixed = true
  noPublish : ∀ t loc x r, s.pc t ≠ .publish loc x r
  nodup : s.store.content.Nodup
  legal : Legal [] s.hist s.store.content

theorem inv_init (T : Nat) : Inv (init T true) := by
  refine ⟨rfl, ?_, ?_, ?_⟩
  · intro t loc x r h
    simp [init] at h
  · simp [init, Store.content]
  · exact Legal.nil []

/-- Every event of the repaired variant either completes an operation — then the content changes
exactly as the sequential specification of that operation says, with the returned value — or leaves
the content untouched (and completes nothing). -/
theorem fixed_step_refines {s s' : State} {ev : Ev} {o : Option Ret} (hi : Inv s) (h : step s ev = some (s', o)) :
    (∃ t op r, o = some r ∧ s'.hist = s.hist ++ [(t, op, r)] ∧ specOk s.store.content op r s'.store.content
        ∧ s'.store.content.Nodup) ∨
    (o = none ∧ s'.hist = s.hist ∧ s'.store.content = s.store.content) := by
  obtain ⟨hf, hnp, hnd, _⟩ := hi
  cases ev with
  | ins t x =>
    simp only [step] at h
    split at h
    · split at h
      · rename_i vec hst
        split at h
        · split at h
          · cases h
            right
            simp [State.setPc, hst]
          · generalize hins : insertInto vec x = p at h
            obtain ⟨v, r⟩ := p
            simp only [Option.some.injEq, Prod.mk.injEq] at h
            obtain ⟨rfl, rfl⟩ := h
            obtain ⟨h1, h2, h3⟩ := insertInto_spec hins
            left
            refine ⟨t, .ins x, .bool r, rfl, rfl, ?_, ?_⟩
            · simp only [State.complete, hst, Store.content, specOk]
              exact ⟨h1, h2⟩
            · simp only [State.complete, hst, Store.content] at hnd ⊢
              exact h3 hnd
        · cases h
      · rename_i set hst
        generalize hins : insertInto set x = p at h
        obtain ⟨v, r⟩ := p
        simp only [Option.some.injEq, Prod.mk.injEq] at h
        obtain ⟨rfl, rfl⟩ := h
        obtain ⟨h1, h2, h3⟩ := insertInto_spec hins
        left
        refine ⟨t, .ins x, .bool r, rfl, rfl, ?_, ?_⟩
        · simp only [State.complete, hst, Store.content, specOk]
          exact ⟨h1, h2⟩
        · simp only [State.complete, hst, Store.content] at hnd ⊢
          exact h3 hnd
    · cases h
  | publish t =>
    simp only [step] at h
    split at h
    · rename_i loc x r hpc
      exact absurd hpc (hnp _ _ _ _)
    · cases h
  | upgrade t =>
    simp only [step] at h
    split at h
    · rename_i x hpc
      split at h
      · split at h
        · rename_i set hst
          generalize hins : insertInto set x = p at h
          obtain ⟨v, r⟩ := p
          simp only [Option.some.injEq, Prod.mk.injEq] at h
          obtain ⟨rfl, rfl⟩ := h
          obtain ⟨h1, h2, h3⟩ := insertInto_spec hins
          left
          refine ⟨t, .ins x, .bool r, rfl, rfl, ?_, ?_⟩
          · simp only [State.complete, State.setPc, hst, Store.content, specOk]
            exact ⟨h1, h2⟩
          · simp only [State.complete, State.setPc, hst, Store.content] at hnd ⊢
            exact h3 hnd
        · rename_i vec hst
          generalize hins : insertInto vec x = p at h
          obtain ⟨v, r⟩ := p
          simp only [Option.some.injEq, Prod.mk.injEq] at h
          obtain ⟨rfl, rfl⟩ := h
          obtain ⟨h1, h2, h3⟩ := insertInto_spec hins
          left
          refine ⟨t, .ins x, .bool r, rfl, rfl, ?_, ?_⟩
          · simp only [State.complete, State.setPc, hst, specOk, ite_content]
            exact ⟨h1, h2⟩
          · simp only [State.complete, State.setPc, ite_content]
            rw [hst] at hnd
            exact h3 hnd
      · cases h
    · cases h
  | rem t x =>
    simp only [step] at h
    split at h
    · split at h
      · rename_i vec hst
        split at h
        · simp only [Option.some.injEq, Prod.mk.injEq] at h
          obtain ⟨rfl, rfl⟩ := h
          rw [hst] at hnd
          obtain ⟨h1, h2⟩ := erase_spec x hnd
          left
          refine ⟨t, .rem x, _, rfl, rfl, ?_, ?_⟩
          · simp only [State.complete, hst, Store.content, specOk]
            exact ⟨by simp, h1⟩
          · simpa [State.complete, Store.content] using h2
        · cases h
      · rename_i set hst
        simp only [Option.some.injEq, Prod.mk.injEq] at h
        obtain ⟨rfl, rfl⟩ := h
        rw [hst] at hnd
        obtain ⟨h1, h2⟩ := erase_spec x hnd
        left
        refine ⟨t, .rem x, _, rfl, rfl, ?_, ?_⟩
        · simp only [State.complete, hst, Store.content, specOk]
          exact ⟨by simp, h1⟩
        · simpa [State.complete, Store.content] using h2
    · cases h
  | len t =>
    simp only [step] at h
    split at h
    · simp only [Option.some.injEq, Prod.mk.injEq] at h
      obtain ⟨rfl, rfl⟩ := h
      left
      exact ⟨t, .len, _, rfl, rfl, ⟨rfl, rfl⟩, hnd⟩
    · cases h
  | iterBegin t =>
    simp only [step] at h
    split at h
    · simp only [Option.some.injEq, Prod.mk.injEq] at h
      obtain ⟨rfl, rfl⟩ := h
      left
      exact ⟨t, .iter, _, rfl, rfl, ⟨rfl, rfl⟩, hnd⟩
    · cases h
  | iterEnd t =>
    simp only [step] at h
    split at h
    · simp only [Option.some.injEq, Prod.mk.injEq] at h
      obtain ⟨rfl, rfl⟩ := h
      right
      exact ⟨rfl, rfl, rfl⟩
    · cases h

theorem step_fixed {s s' : State} {ev : Ev} {o : Option Ret} (h : step s ev = some (s', o)) : s'.fixed = s.fixed := by
  cases ev <;> simp only [step] at h <;> (repeat' split at h) <;>
    first
    | (simp only [Option.some.injEq, Prod.mk.injEq] at h; obtain ⟨rfl, _⟩ := h; simp [State.complete, State.setPc])
    | cases h

theorem step_noPublish {s s' : State} {ev : Ev} {o : Option Ret} (hf : s.fixed = true)
    (hnp : ∀ t loc x r, s.pc t ≠ .publish loc x r) (h : step s ev = some (s', o)) :
    ∀ t loc x r, s'.pc t ≠ .publish loc x r := by
  intro t' loc' x' r'
  cases ev <;> simp only [step] at h <;> (repeat' split at h) <;>
    first
    | (simp only [Option.some.injEq, Prod.mk.injEq] at h
       obtain ⟨rfl, _⟩ := h
       simp only [State.complete, State.setPc]
       first
       | exact hnp _ _ _ _
       | (split <;> first | exact hnp _ _ _ _ | (intro hh; cases hh)))
    | (exfalso; simp_all; done)
    | cases h

theorem inv_step {s s' : State} {ev : Ev} {o : Option Ret} (hi : Inv s) (h : step s ev = some (s', o)) : Inv s' := by
  have hr := fixed_step_refines hi h
  have hf : s'.fixed = true := (step_fixed h).trans hi.fixed
  have hnp := step_noPublish hi.fixed hi.noPublish h
  rcases hr with ⟨t, op, r, _, hh, hs, hn⟩ | ⟨_, hh, hc⟩
  · exact ⟨hf, hnp, hn, hh ▸ Legal.snoc t op r hi.legal hi.nodup hs hn⟩
  · exact ⟨hf, hnp, hc ▸ hi.nodup, by rw [hh, hc]; exact hi.legal⟩

theorem reachable_inv {T : Nat} {s : State} (hr : Reachable T true s) : Inv s := by
  induction hr with
  | init => exact inv_init T
  | step ev _ h ih => exact inv_step ih h

/-! ### consequences of legality (facts about the sequential specification) -/

theorem eq_nil_or_snoc {α : Type} (l : List α) : l = [] ∨ ∃ l' a, l = l' ++ [a] := by
  induction l with
  | nil => exact Or.inl rfl
  | cons a l ih =>
    right
    rcases ih with rfl | ⟨l', b, rfl⟩
    · exact ⟨[], a, rfl⟩
    · exact ⟨a :: l', b, rfl⟩

/-- In a legal history, an element inserted (whatever the insert returned) and not removed since is
in the content. -/
theorem legal_mem_of_insert {c0 c : List Nat} {h : List (Nat × Op × Ret)} (hl : Legal c0 h c) :
    ∀ (h1 h2 : List (Nat × Op × Ret)) (t x : Nat) (r : Ret), h = h1 ++ (t, .ins x, r) :: h2 →
      (∀ e ∈ h2, e.2.1 ≠ .rem x) → x ∈ c := by
  induction hl with
  | nil => intro h1 h2 t x r heq; simp at heq
  | @snoc cprev c' hprev t' op' r' hl' hnd hs hnd' ih =>
    intro h1 h2 t x r heq hno
    rcases eq_nil_or_snoc h2 with rfl | ⟨h2', e, rfl⟩
    · obtain ⟨rfl, he⟩ := List.append_inj' heq rfl
      simp only [List.cons.injEq, Prod.mk.injEq, and_true] at he
      obtain ⟨rfl, rfl, rfl⟩ := he
      cases r' <;> simp only [specOk] at hs
      exact (hs.2 x).2 (Or.inl rfl)
    · have heq' : hprev ++ [(t', op', r')] = (h1 ++ (t, Op.ins x, r) :: h2') ++ [e] := by
        rw [heq]; simp
      obtain ⟨rfl, he⟩ := List.append_inj' heq' rfl
      simp only [List.cons.injEq, and_true] at he
      subst he
      have hx : x ∈ cprev := ih h1 h2' t x r rfl (fun e he => hno e (by simp [he]))
      have hne : op' ≠ .rem x := hno (t', op', r') (by simp)
      cases op' <;> cases r' <;> simp only [specOk] at hs
      · exact (hs.2 x).2 (Or.inr hx)
      · rename_i y b
        have : x ≠ y := fun h => hne (by rw [h])
        exact (hs.2 x).2 ⟨this, hx⟩
      · rw [hs.2]; exact hx
      · rw [hs.2]; exact hx

/-- In a legal history an `iter` returns exactly the content at that point. -/
theorem legal_iter_content {c0 c : List Nat} {h : List (Nat × Op × Ret)} {t : Nat} {l : List Nat}
    (hl : Legal c0 (h ++ [(t, .iter, .list l)]) c) : l = c ∧ Legal c0 h c := by
  generalize hh : h ++ [(t, Op.iter, Ret.list l)] = hist at hl
  cases hl with
  | nil => simp at hh
  | @snoc cprev _ hprev t' op' r' hl' hnd hs hnd' =>
    obtain ⟨rfl, he⟩ := List.append_inj' hh rfl
    simp only [List.cons.injEq, Prod.mk.injEq, and_true] at he
    obtain ⟨rfl, rfl, rfl⟩ := he
    simp only [specOk] at hs
    obtain ⟨rfl, rfl⟩ := hs
    exact ⟨rfl, hl'⟩

/-- A prefix of a legal history is legal (with some content). -/
theorem legal_prefix {c0 c : List Nat} {h : List (Nat × Op × Ret)} (hl : Legal c0 h c) :
    ∀ h1 h2, h = h1 ++ h2 → ∃ c1, Legal c0 h1 c1 := by
  induction hl with
  | nil =>
    intro h1 h2 heq
    have : h1 = [] := by
      cases h1 with
      | nil => rfl
      | cons a l => simp at heq
    exact ⟨_, this ▸ Legal.nil _⟩
  | @snoc cprev c' hprev t' op' r' hl' hnd hs hnd' ih =>
    intro h1 h2 heq
    rcases eq_nil_or_snoc h2 with rfl | ⟨h2', e, rfl⟩
    · exact ⟨c', by rw [List.append_nil] at heq; exact heq ▸ Legal.snoc t' op' r' hl' hnd hs hnd'⟩
    · have heq' : hprev ++ [(t', op', r')] = (h1 ++ h2') ++ [e] := by rw [heq]; simp
      obtain ⟨rfl, _⟩ := List.append_inj' heq' rfl
      exact ih h1 h2' rfl

theorem run_reachable {T : Nat} {f : Bool} {s s' : State} {evs : List Ev} {outs : List (Option Ret)}
    (hr : Reachable T f s) (h : run s evs = some (s', outs)) : Reachable T f s' := by
  induction evs generalizing s outs with
  | nil => simp only [run, Option.some.injEq, Prod.mk.injEq] at h; obtain ⟨rfl, _⟩ := h; exact hr
  | cons ev rest ih =>
    simp only [run] at h
    split at h
    · cases h
    · rename_i s1 o hs
      split at h
      · cases h
      · rename_i s2 os hs2
        simp only [Option.some.injEq, Prod.mk.injEq] at h
        obtain ⟨rfl, _⟩ := h
        exact ih (Reachable.step ev hr hs) hs2

/-- a schedule checked by evaluation yields a reachable state with the checked property -/
theorem exists_of_run {T : Nat} {f : Bool} {evs : List Ev} {P : State → List (Option Ret) → Bool}
    (h : (match run (init T f) evs with | some (s, outs) => P s outs | none => false) = true) :
    ∃ s outs, Reachable T f s ∧ run (init T f) evs = some (s, outs) ∧ P s outs = true := by
  split at h
  · rename_i s outs hs
    exact ⟨s, outs, run_reachable .init hs, hs, h⟩
  · cases h

end QbiceVerif.Lts.TS
