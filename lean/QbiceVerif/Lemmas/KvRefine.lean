/-
Every API step of the store model simulates the specification step (`step_sim`), hence every
command sequence does (`run_sim`).
-/
import QbiceVerif.Lemmas.KvStore
import QbiceVerif.Lemmas.KvName

namespace QbiceVerif.Kv

set_option linter.unusedSectionVars false

section
variable {κ δ ε : Type} [DecidableEq κ] [DecidableEq δ] [DecidableEq ε]

theorem rel_init (be : Backend) (E : Enc κ δ ε) :
    Rel be E {} (Spec.init : Spec κ δ ε) := by
  refine ⟨?_, ⟨?_, ?_, ?_⟩, ?_, ?_, ?_, ?_⟩
  · intro id kind n h; simp at h
  · intro c d k; simp [Disk.col, Spec.init]
  · intro c x; simp [Disk.col, Spec.init, akeys]
  · intro n; simp [Disk.col, akeys]
  · intro h; simp [Spec.init]
  · intro s; simp [Spec.init]
  · intro h ops hg; simp [Spec.init] at hg
  · intro s ops hg; simp [Spec.init] at hg

theorem step_sim (be : Backend) (E : Enc κ δ ε) (hE : EncOk be E)
    (db : Db) (sp : Spec κ δ ε) (hR : Rel be E db sp) (c : Cmd κ δ ε)
    (hc : CmdOk be E c) :
    Rel be E (mstep be E db c).2 (sstep sp c).2 ∧
      ObsMatch E c.col (mstep be E db c).1 (sstep sp c).1 := by
  have hlen : ∀ c k, (E.encSK c k).length < 2 ^ 64 := fun c k => by
    have := hE.lenK c k
    omega
  cases c with
  | bnew h =>
    simp only [mstep, sstep, batchNew]
    refine ⟨⟨hR.cache, hR.disk, ?_, hR.sbufs, ?_, hR.sok⟩, trivial⟩
    · intro x
      simp only [aget_aset]
      split
      · rfl
      · exact hR.batches x
    · intro h' ops hg op hop
      rw [aget_aset] at hg
      split at hg
      · cases hg; simp at hop
      · exact hR.bok h' ops hg op hop
  | snew s =>
    simp only [mstep, sstep, sbufNew]
    refine ⟨⟨hR.cache, hR.disk, hR.batches, ?_, hR.bok, ?_⟩, trivial⟩
    · intro x
      simp only [aget_aset]
      split
      · rfl
      · exact hR.sbufs x
    · intro s' ops hg op hop
      rw [aget_aset] at hg
      split at hg
      · cases hg; simp at hop
      · exact hR.sok s' ops hg op hop
  | bop h op =>
    have hfit := hc
    simp only [CmdOk] at hfit
    simp only [mstep, sstep, batchWrite]
    have hb := hR.batches h
    cases hs : aget sp.batches h with
    | none =>
      rw [hs] at hb
      simp only [Option.map_none] at hb
      simp only [hb]
      exact ⟨hR, trivial⟩
    | some lops =>
      rw [hs] at hb
      simp only [Option.map_some] at hb
      obtain ⟨db1, hres, hb1, hs1, hd1, hc1⟩ :=
        resolve_eq be db (opParts be E op).1 (opParts be E op).2.1 hE.byKind hR.cache
      simp only [hb, hres, badKey_opParts be E hE op hfit, Bool.false_eq_true, if_false]
      refine ⟨⟨hc1, relD_congr hd1 hR.disk, ?_, ?_, ?_, hR.sok⟩, trivial⟩
      · intro x
        simp only [aget_aset, hb1]
        split
        · simp [encW]
        · exact hR.batches x
      · intro x
        simp only [hs1]
        exact hR.sbufs x
      · intro h' ops hg o ho
        rw [aget_aset] at hg
        split at hg
        · cases hg
          rcases List.mem_append.mp ho with ho | ho
          · exact hR.bok h lops hs o ho
          · simp only [List.mem_singleton] at ho
            subst ho
            exact hfit
        · exact hR.bok h' ops hg o ho
  | sop s op =>
    have hfit := hc
    simp only [CmdOk] at hfit
    simp only [mstep, sstep, sbufWrite]
    have hb := hR.sbufs s
    cases hs : aget sp.sbufs s with
    | none =>
      rw [hs] at hb
      simp only [Option.map_none] at hb
      simp only [hb]
      exact ⟨hR, trivial⟩
    | some lops =>
      rw [hs] at hb
      simp only [Option.map_some] at hb
      have hsok : ∀ s' ops, aget (aset sp.sbufs s (lops ++ [op])) s' = some ops →
          ∀ o ∈ ops, OpOk be E o := by
        intro s' ops hg o ho
        rw [aget_aset] at hg
        split at hg
        · cases hg
          rcases List.mem_append.mp ho with ho | ho
          · exact hR.sok s lops hs o ho
          · simp only [List.mem_singleton] at ho
            subst ho
            exact hfit
        · exact hR.sok s' ops hg o ho
      simp only [hb]
      cases hearly : be.sbufEarly with
      | true =>
        obtain ⟨db1, hres, hb1, hs1, hd1, hc1⟩ :=
          resolve_eq be db (opParts be E op).1 (opParts be E op).2.1 hE.byKind hR.cache
        simp only [if_true, hres]
        refine ⟨⟨hc1, relD_congr hd1 hR.disk, ?_, ?_, hR.bok, hsok⟩, trivial⟩
        · intro x
          simp only [hb1]
          exact hR.batches x
        · intro x
          simp only [aget_aset, hs1]
          split
          · simp [encS, hearly]
          · exact hR.sbufs x
      | false =>
        simp only [Bool.false_eq_true, if_false]
        refine ⟨⟨hR.cache, hR.disk, hR.batches, ?_, hR.bok, hsok⟩, trivial⟩
        intro x
        simp only [aget_aset]
        split
        · simp [encS, hearly]
        · exact hR.sbufs x
  | consume h s =>
    simp only [mstep, sstep, consume]
    have hb := hR.batches h
    have hsb := hR.sbufs s
    cases h1 : aget sp.batches h with
    | none =>
      rw [h1] at hb
      simp only [Option.map_none] at hb
      simp only [hb]
      exact ⟨hR, trivial⟩
    | some lops =>
      rw [h1] at hb
      simp only [Option.map_some] at hb
      cases h2 : aget sp.sbufs s with
      | none =>
        rw [h2] at hsb
        simp only [Option.map_none] at hsb
        simp only [hb, hsb]
        exact ⟨hR, trivial⟩
      | some sops =>
        rw [h2] at hsb
        simp only [Option.map_some] at hsb
        simp only [hb, hsb]
        obtain ⟨db', hrun, hbs, hss, hds, hcs⟩ :=
          consumeLoop_ok be E hE h sops (hR.sok s sops h2)
            { db with sbufs := adel db.sbufs s } (lops.map (encW be E)) hR.cache hb
        rw [hrun]
        refine ⟨⟨hcs, relD_congr hds hR.disk, ?_, ?_, ?_, ?_⟩, trivial⟩
        · intro x
          rw [hbs x]
          simp only [aget_aset]
          split
          · simp
          · exact hR.batches x
        · intro x
          rw [hss]
          simp only [aget_adel]
          split
          · rfl
          · exact hR.sbufs x
        · intro h' ops hg o ho
          rw [aget_aset] at hg
          split at hg
          · cases hg
            rcases List.mem_append.mp ho with ho | ho
            · exact hR.bok h lops h1 o ho
            · exact hR.sok s sops h2 o ho
          · exact hR.bok h' ops hg o ho
        · intro s' ops hg o ho
          rw [aget_adel] at hg
          split at hg
          · cases hg
          · exact hR.sok s' ops hg o ho
  | commit h =>
    simp only [mstep, sstep, commit]
    have hb := hR.batches h
    cases hs : aget sp.batches h with
    | none =>
      rw [hs] at hb
      simp only [Option.map_none] at hb
      simp only [hb]
      exact ⟨hR, trivial⟩
    | some lops =>
      rw [hs] at hb
      simp only [Option.map_some] at hb
      simp only [hb]
      refine ⟨⟨hR.cache, ?_, ?_, hR.sbufs, ?_, hR.sok⟩, trivial⟩
      · exact foldl_applyOp_rel be E hE lops
          db.disk (sp.wide, sp.sets) hR.disk
      · intro x
        simp only [aget_adel]
        split
        · rfl
        · exact hR.batches x
      · intro h' ops hg o ho
        rw [aget_adel] at hg
        split at hg
        · cases hg
        · exact hR.bok h' ops hg o ho
  | drop h =>
    simp only [mstep, sstep, dropBatch]
    have hb := hR.batches h
    cases hs : aget sp.batches h with
    | none =>
      rw [hs] at hb
      simp only [Option.map_none] at hb
      simp only [hb]
      exact ⟨hR, trivial⟩
    | some lops =>
      rw [hs] at hb
      simp only [Option.map_some] at hb
      simp only [hb]
      refine ⟨⟨hR.cache, hR.disk, ?_, hR.sbufs, ?_, hR.sok⟩, trivial⟩
      · intro x
        simp only [aget_adel]
        split
        · rfl
        · exact hR.batches x
      · intro h' ops hg o ho
        rw [aget_adel] at hg
        split at hg
        · cases hg
        · exact hR.bok h' ops hg o ho
  | get c d k =>
    have hfit := hc
    simp only [CmdOk] at hfit
    obtain ⟨db1, hres, hb1, hs1, hd1, hc1⟩ := resolve_eq be db c .wide hE.byKind hR.cache
    simp only [mstep, sstep, get, hres, hfit, Bool.false_eq_true, if_false]
    refine ⟨⟨hc1, relD_congr hd1 hR.disk, ?_, ?_, hR.bok, hR.sok⟩, ?_⟩
    · intro x; rw [hb1]; exact hR.batches x
    · intro x; rw [hs1]; exact hR.sbufs x
    · simp only [ObsMatch]
      rw [hd1]
      exact hR.disk.wide c d k
  | scan c k =>
    have hfit := hc
    simp only [CmdOk] at hfit
    obtain ⟨db1, hres, hb1, hs1, hd1, hc1⟩ := resolve_eq be db c .set hE.byKind hR.cache
    simp only [mstep, sstep, scan, hres, hfit, Bool.false_eq_true, if_false]
    refine ⟨⟨hc1, relD_congr hd1 hR.disk, ?_, ?_, hR.bok, hR.sok⟩, ?_⟩
    · intro x; rw [hb1]; exact hR.batches x
    · intro x; rw [hs1]; exact hR.sbufs x
    · simp only [ObsMatch, Cmd.col]
      have hp : allFF (setPrefix (E.encSK c k)) = false := setPrefix_not_allFF _ (hE.lenK c k)
      refine ⟨?_, ?_⟩
      rotate_left
      · -- each member once
        apply nodup_map_of_inj_on
        · intro x hx y hy hxy
          rw [mem_scanKeys _ _ _ _ hp, hd1] at hx hy
          obtain ⟨k1, e1, rfl, _⟩ := (hR.disk.sets c x).mp hx.1
          obtain ⟨k2, e2, rfl, _⟩ := (hR.disk.sets c y).mp hy.1
          have h1 := hE.injK c _ _
            ((setPrefix_prefix_setKey_iff _ _ _ (hlen _ _) (hlen _ _)).mp hx.2)
          have h2 := hE.injK c _ _
            ((setPrefix_prefix_setKey_iff _ _ _ (hlen _ _) (hlen _ _)).mp hy.2)
          subst h1
          subst h2
          rw [splitMember_setKey _ _ (hlen _ _), splitMember_setKey _ _ (hlen _ _)] at hxy
          rw [Option.some.inj hxy]
        · unfold scanKeys
          apply nodup_sortKeys
          have hn := hR.disk.nodup (cfName be.namePrefix Kind.set c)
          rw [← hd1] at hn
          cases be.boundScan <;> exact nodup_filter_keys _ _ hn
      intro y
      simp only [List.mem_map]
      constructor
      · rintro ⟨x, hx, rfl⟩
        rw [mem_scanKeys _ _ _ _ hp, hd1] at hx
        obtain ⟨hxk, hpre⟩ := hx
        obtain ⟨k', e, rfl, hs⟩ := (hR.disk.sets c x).mp hxk
        have hkk : E.encSK c k = E.encSK c k' :=
          (setPrefix_prefix_setKey_iff _ _ _ (hlen _ _) (hlen _ _)).mp hpre
        have := hE.injK c _ _ hkk
        subst this
        exact ⟨e, splitMember_setKey _ _ (hlen _ _), hs⟩
      · rintro ⟨e, rfl, hs⟩
        refine ⟨setKey (E.encSK c k) (E.encE c e), ?_, splitMember_setKey _ _ (hlen _ _)⟩
        rw [mem_scanKeys _ _ _ _ hp, hd1]
        exact ⟨(hR.disk.sets c _).mpr ⟨k, e, rfl, hs⟩, List.prefix_append _ _⟩
  | reopen =>
    simp only [mstep, sstep, reopen]
    refine ⟨⟨?_, hR.disk, ?_, ?_, ?_, ?_⟩, trivial⟩
    · intro id kind n h; simp at h
    · intro x; simp
    · intro x; simp
    · intro h ops hg; simp at hg
    · intro s ops hg; simp at hg

/-- observations of a run of the model -/
def mrun (be : Backend) (E : Enc κ δ ε) : Db → List (Cmd κ δ ε) → List MObs
  | _, [] => []
  | db, c :: cs => (mstep be E db c).1 :: mrun be E (mstep be E db c).2 cs

/-- observations of a run of the specification -/
def srun : Spec κ δ ε → List (Cmd κ δ ε) → List (SObs ε)
  | _, [] => []
  | sp, c :: cs => (sstep sp c).1 :: srun (sstep sp c).2 cs

/-- the two runs answer every command alike -/
def AllMatch (E : Enc κ δ ε) : List (Cmd κ δ ε) → List MObs → List (SObs ε) → Prop
  | [], [], [] => True
  | c :: cs, m :: ms, s :: ss => ObsMatch E c.col m s ∧ AllMatch E cs ms ss
  | _, _, _ => False

theorem run_sim (be : Backend) (E : Enc κ δ ε) (hE : EncOk be E)
    (cmds : List (Cmd κ δ ε)) :
    ∀ (db : Db) (sp : Spec κ δ ε), Rel be E db sp → (∀ c ∈ cmds, CmdOk be E c) →
      AllMatch E cmds (mrun be E db cmds) (srun sp cmds) := by
  induction cmds with
  | nil => intro db sp _ _; trivial
  | cons c cs ih =>
    intro db sp hR hok
    obtain ⟨hR', hobs⟩ := step_sim be E hE db sp hR c (hok c List.mem_cons_self)
    exact ⟨hobs, ih _ _ hR' (fun c' hc' => hok c' (List.mem_cons_of_mem _ hc'))⟩

end

end QbiceVerif.Kv
