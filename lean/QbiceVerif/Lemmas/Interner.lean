/-
Invariants of the interner LTS (`Model/Interner.lean`), proved for every reachable state of every
schedule with any number of tasks.
-/
import QbiceVerif.Model.Interner

namespace QbiceVerif.Interner

/-- task `t` owns a handle (an `Arc`) to allocation `a` -/
def Holds (s : State) (t a : Nat) : Prop := ∃ tk, s.tasks[t]? = some tk ∧ a ∈ tk.handles

/-- strong count of `a` is non-zero -/
def Live (s : State) (a : Nat) : Prop := ∃ t, Holds s t a

theorem liveB_iff (s : State) (a : Nat) : s.liveB a = true ↔ Live s a := by
  unfold State.liveB Live Holds
  simp only [List.any_eq_true, List.contains_iff_mem]
  constructor
  · rintro ⟨tk, hm, ha⟩
    obtain ⟨i, hi, rfl⟩ := List.getElem_of_mem hm
    exact ⟨i, _, List.getElem?_eq_getElem hi, ha⟩
  · rintro ⟨t, tk, ht, ha⟩
    exact ⟨tk, List.mem_of_getElem? ht, ha⟩

theorem liveB_false_iff (s : State) (a : Nat) : s.liveB a = false ↔ ¬ Live s a := by
  rw [← liveB_iff]; simp

/-- shape of a task step -/
theorem step_act_inv {c : Cfg} {s s' : State} {t : Nat} {a : Act} (h : step c s (.act t a) = some s') :
    ∃ tk tk', s.tasks[t]? = some tk ∧ act c s tk a = some (tk', s'.table, s'.allocs) ∧
      s'.tasks = s.tasks.set t tk' := by
  simp only [step] at h
  split at h
  · cases h
  · rename_i tk htk
    split at h
    · cases h
    · rename_i tk' tb al hact
      cases h
      exact ⟨tk, tk', htk, hact, rfl⟩

theorem live_after {s s' : State} {t : Nat} {tk tk' : Task} (ht : s.tasks[t]? = some tk)
    (hs : s'.tasks = s.tasks.set t tk') (a : Nat) :
    Live s' a ↔ a ∈ tk'.handles ∨ ∃ t', t' ≠ t ∧ Holds s t' a := by
  have hlt : t < s.tasks.length := by
    rcases Nat.lt_or_ge t s.tasks.length with h | h
    · exact h
    · rw [List.getElem?_eq_none h] at ht; cases ht
  unfold Live Holds
  constructor
  · rintro ⟨t', tk'', h1, h2⟩
    rw [hs, List.getElem?_set] at h1
    by_cases htt : t = t'
    · subst htt; simp [hlt] at h1; subst h1; exact Or.inl h2
    · simp [htt] at h1; exact Or.inr ⟨t', fun h => htt h.symm, tk'', h1, h2⟩
  · rintro (h | ⟨t', hne, tk'', h1, h2⟩)
    · exact ⟨t, tk', by rw [hs, List.getElem?_set]; simp [hlt], h⟩
    · have hne' : ¬ t = t' := fun h => hne h.symm
      exact ⟨t', tk'', by rw [hs, List.getElem?_set]; simp [hne', h1], h2⟩

theorem live_before {s : State} {t : Nat} {tk : Task} (ht : s.tasks[t]? = some tk) (a : Nat) :
    Live s a ↔ a ∈ tk.handles ∨ ∃ t', t' ≠ t ∧ Holds s t' a := by
  unfold Live Holds
  constructor
  · rintro ⟨t', tk'', h1, h2⟩
    by_cases htt : t' = t
    · subst htt; rw [ht] at h1; cases h1; exact Or.inl h2
    · exact Or.inr ⟨t', htt, tk'', h1, h2⟩
  · rintro (h | ⟨t', _, tk'', h1, h2⟩)
    · exact ⟨t, tk, ht, h⟩
    · exact ⟨t', tk'', h1, h2⟩

end QbiceVerif.Interner

namespace QbiceVerif.Interner

/-- facts that hold while a task sits at a given program counter -/
def PcOk (c : Cfg) (s : State) : Pc → Prop
  | .iWrDead v => ∀ a, s.table (c.slot v) = some a → ¬ Live s a
  | .iRdHit v a => ∃ w, s.allocs[a]? = some w ∧ c.slot w = c.slot v
  | .iWrHit v a => ∃ w, s.allocs[a]? = some w ∧ c.slot w = c.slot v
  | .iWrNew v a => ∃ w, s.allocs[a]? = some w ∧ c.slot w = c.slot v
  | .gDone k (some a) => ∃ w, s.allocs[a]? = some w ∧ c.slot w = k
  | .vTemp l k a => c.lockOf k = l ∧ ∃ w, s.allocs[a]? = some w ∧ c.slot w = k
  | _ => True

structure Inv (c : Cfg) (s : State) : Prop where
  /-- every allocation with a non-zero strong count is the one its slot's table entry points to -/
  canon : ∀ a, Live s a → ∃ v, s.allocs[a]? = some v ∧ s.table (c.slot v) = some a
  /-- a table entry points to an existing allocation whose content has that slot -/
  tableWF : ∀ k a, s.table k = some a → ∃ v, s.allocs[a]? = some v ∧ c.slot v = k
  /-- a write guard excludes every other guard on the same lock -/
  excl : ∀ (t t' : Nat) (tk tk' : Task) (l : LockId), t ≠ t' → s.tasks[t]? = some tk → s.tasks[t']? = some tk' →
    Pc.wlock c tk.pc = some l → Pc.wlock c tk'.pc ≠ some l ∧ Pc.rlock c tk'.pc ≠ some l
  pcOk : ∀ (t : Nat) (tk : Task), s.tasks[t]? = some tk → PcOk c s tk.pc

theorem probe_some {s : State} {k : Slot} {a : Nat} (h : s.probe k = some a) :
    s.table k = some a ∧ Live s a := by
  unfold State.probe at h
  split at h
  · split at h
    · cases h; rename_i h1 h2; exact ⟨h1, (liveB_iff _ _).1 h2⟩
    · cases h
  · cases h

theorem probe_none {s : State} {k : Slot} (h : s.probe k = none) :
    ∀ a, s.table k = some a → ¬ Live s a := by
  intro a ha
  unfold State.probe at h
  rw [ha] at h
  simp at h
  exact (liveB_false_iff _ _).1 h

/-- `act` as a relation, one constructor per (event, branch) -/
inductive ActR (c : Cfg) (s : State) (tk : Task) : Act → Task → (Slot → Option Nat) → List Val → Prop
  | callIntern (v : Val) : tk.pc = .idle → ActR c s tk (.callIntern v) { tk with pc := .iStart v } s.table s.allocs
  | callGet (k : Slot) : tk.pc = .idle → ActR c s tk (.callGet k) { tk with pc := .gStart k } s.table s.allocs
  | rdLockI (v : Val) : tk.pc = .iStart v → s.noWriter c (c.lockOf (c.slot v)) = true →
      ActR c s tk .rdLock { tk with pc := .iRdHeld v } s.table s.allocs
  | rdLockG (k : Slot) : tk.pc = .gStart k → s.noWriter c (c.lockOf k) = true →
      ActR c s tk .rdLock { tk with pc := .gRdHeld k } s.table s.allocs
  | probeIHit (v : Val) (a : Nat) : tk.pc = .iRdHeld v → s.probe (c.slot v) = some a →
      ActR c s tk .probe { tk with pc := .iRdHit v a } s.table s.allocs
  | probeIMiss (v : Val) : tk.pc = .iRdHeld v → s.probe (c.slot v) = none →
      ActR c s tk .probe { tk with pc := .iRdMiss v } s.table s.allocs
  | probeGHit (k : Slot) (a : Nat) : tk.pc = .gRdHeld k → s.probe k = some a →
      ActR c s tk .probe { tk with pc := .gDone k (some a) } s.table s.allocs
  | probeGMiss (k : Slot) : tk.pc = .gRdHeld k → s.probe k = none →
      ActR c s tk .probe { tk with pc := .gDone k none } s.table s.allocs
  | rdUnlockIHit (v : Val) (a : Nat) : tk.pc = .iRdHit v a →
      ActR c s tk .rdUnlock { pc := .idle, held := tk.held ++ [a], ret := some a } s.table s.allocs
  | rdUnlockIMiss (v : Val) : tk.pc = .iRdMiss v →
      ActR c s tk .rdUnlock { tk with pc := .iWrWait v } s.table s.allocs
  | rdUnlockGSome (k : Slot) (a : Nat) : tk.pc = .gDone k (some a) →
      ActR c s tk .rdUnlock { pc := .idle, held := tk.held ++ [a], ret := some a } s.table s.allocs
  | rdUnlockGNone (k : Slot) : tk.pc = .gDone k none →
      ActR c s tk .rdUnlock { pc := .idle, held := tk.held, ret := none } s.table s.allocs
  | wrLock (v : Val) : tk.pc = .iWrWait v → s.noWriter c (c.lockOf (c.slot v)) = true →
      s.noReader c (c.lockOf (c.slot v)) = true →
      ActR c s tk .wrLock { tk with pc := .iWrHeld v } s.table s.allocs
  | recheckHit (v : Val) (a : Nat) : tk.pc = .iWrHeld v → s.probe (c.slot v) = some a →
      ActR c s tk .recheck { tk with pc := .iWrHit v a } s.table s.allocs
  | recheckDead (v : Val) : tk.pc = .iWrHeld v → s.probe (c.slot v) = none →
      ActR c s tk .recheck { tk with pc := .iWrDead v } s.table s.allocs
  | allocStore (v : Val) : tk.pc = .iWrDead v →
      ActR c s tk .allocStore { tk with pc := .iWrNew v s.allocs.length }
        (setTable s.table (c.slot v) (some s.allocs.length)) (s.allocs ++ [v])
  | wrUnlockHit (v : Val) (a : Nat) : tk.pc = .iWrHit v a →
      ActR c s tk .wrUnlock { pc := .idle, held := tk.held ++ [a], ret := some a } s.table s.allocs
  | wrUnlockNew (v : Val) (a : Nat) : tk.pc = .iWrNew v a →
      ActR c s tk .wrUnlock { pc := .idle, held := tk.held ++ [a], ret := some a } s.table s.allocs
  | clone (i a : Nat) : tk.pc = .idle → tk.held[i]? = some a →
      ActR c s tk (.clone i) { tk with held := tk.held ++ [a] } s.table s.allocs
  | drop (i : Nat) : tk.pc = .idle → i < tk.held.length →
      ActR c s tk (.drop i) { tk with held := tk.held.eraseIdx i } s.table s.allocs
  | vacTry (l : LockId) : tk.pc = .idle → s.noWriter c l = true → s.noReader c l = true →
      ActR c s tk (.vacTry l) { tk with pc := .vHeld l } s.table s.allocs
  | vacUpLive (l : LockId) (k : Slot) (a : Nat) : tk.pc = .vHeld l → c.lockOf k = l → s.table k = some a →
      s.liveB a = true → ActR c s tk (.vacUp k) { tk with pc := .vTemp l k a } s.table s.allocs
  | vacUpDead (l : LockId) (k : Slot) (a : Nat) : tk.pc = .vHeld l → c.lockOf k = l → s.table k = some a →
      s.liveB a = false → ActR c s tk (.vacUp k) tk (setTable s.table k none) s.allocs
  | vacDown (l : LockId) (k : Slot) (a : Nat) : tk.pc = .vTemp l k a →
      ActR c s tk .vacDown { tk with pc := .vHeld l } s.table s.allocs
  | vacUnlock (l : LockId) : tk.pc = .vHeld l →
      ActR c s tk .vacUnlock { tk with pc := .idle } s.table s.allocs

theorem act_rel {c : Cfg} {s : State} {tk tk' : Task} {a : Act} {tb al}
    (h : act c s tk a = some (tk', tb, al)) : ActR c s tk a tk' tb al := by
  cases a <;> simp only [act] at h <;> (repeat' split at h) <;>
    simp only [Option.some.injEq, Prod.mk.injEq, reduceCtorEq] at h <;>
    (try obtain ⟨rfl, rfl, rfl⟩ := h) <;>
    (try simp only [Bool.and_eq_true] at *) <;>
    first
      | (apply ActR.callIntern <;> first | assumption | (simp_all; done))
      | (apply ActR.callGet <;> first | assumption | (simp_all; done))
      | (apply ActR.rdLockI <;> first | assumption | (simp_all; done))
      | (apply ActR.rdLockG <;> first | assumption | (simp_all; done))
      | (apply ActR.probeIHit <;> first | assumption | (simp_all; done))
      | (apply ActR.probeIMiss <;> first | assumption | (simp_all; done))
      | (apply ActR.probeGHit <;> first | assumption | (simp_all; done))
      | (apply ActR.probeGMiss <;> first | assumption | (simp_all; done))
      | (apply ActR.rdUnlockIHit <;> first | assumption | (simp_all; done))
      | (apply ActR.rdUnlockIMiss <;> first | assumption | (simp_all; done))
      | (apply ActR.rdUnlockGSome <;> first | assumption | (simp_all; done))
      | (apply ActR.rdUnlockGNone <;> first | assumption | (simp_all; done))
      | (apply ActR.wrLock <;> first | assumption | (simp_all; done))
      | (apply ActR.recheckHit <;> first | assumption | (simp_all; done))
      | (apply ActR.recheckDead <;> first | assumption | (simp_all; done))
      | (apply ActR.allocStore <;> first | assumption | (simp_all; done))
      | (apply ActR.wrUnlockHit <;> first | assumption | (simp_all; done))
      | (apply ActR.wrUnlockNew <;> first | assumption | (simp_all; done))
      | (apply ActR.clone <;> first | assumption | (simp_all; done))
      | (apply ActR.drop <;> first | assumption | (simp_all; done))
      | (apply ActR.vacTry <;> first | assumption | (simp_all; done))
      | (apply ActR.vacUpLive <;> first | assumption | (simp_all; done))
      | (apply ActR.vacUpDead <;> first | assumption | (simp_all; done))
      | (apply ActR.vacDown <;> first | assumption | (simp_all; done))
      | (apply ActR.vacUnlock <;> first | assumption | (simp_all; done))


theorem live_mono {s s' : State} {t : Nat} {tk tk' : Task} (ht : s.tasks[t]? = some tk)
    (hs : s'.tasks = s.tasks.set t tk')
    (hh : ∀ x, x ∈ tk'.handles → x ∈ tk.handles ∨ Live s x) {a : Nat} (h : Live s' a) : Live s a := by
  rcases (live_after ht hs a).1 h with h | h
  · rcases hh a h with h | h
    · exact (live_before ht a).2 (Or.inl h)
    · exact h
  · exact (live_before ht a).2 (Or.inr h)

/-- handles of the acting task after a step that is not `allocStore` were already alive -/
theorem act_handles {c : Cfg} {s : State} {tk tk' : Task} {a : Act} {tb al}
    (hr : ActR c s tk a tk' tb al) (hne : a ≠ .allocStore) :
    ∀ x, x ∈ tk'.handles → x ∈ tk.handles ∨ Live s x := by
  intro x hx
  cases hr <;> simp_all [Task.handles, Pc.handles]
  all_goals first
    | (rcases hx with h' | rfl
       · exact Or.inl h'
       · first
          | exact Or.inr (probe_some ‹_›).2
          | exact Or.inr ((liveB_iff _ _).1 ‹_›)
          | exact Or.inl (List.mem_of_getElem? ‹_›))
    | exact Or.inl (List.mem_of_mem_eraseIdx hx)

end QbiceVerif.Interner
