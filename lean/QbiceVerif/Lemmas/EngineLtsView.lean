import QbiceVerif.Lemmas.EngineLtsCTProgress

/-! The key view used for trace validation (`CT.kStep`) simulates the `CT` model: every event of the
model is, for the key it concerns, an enabled `kStep` event with the label the hook at that place of
the code emits, and leaves the views of all other keys related. -/

namespace QbiceVerif.Lts.CT

/-- the hook label an event of the model is observed as (none: no hook on that step) -/
def label (s : State) : Ev → Option (Nat × KEv)
  | .loopHead i =>
    match s.table (s.task i).key with
    | some o => some ((s.task i).key, .reg o)     -- the `Notified` is created inside `read_sync` (dropped again by a user request)
    | none => none
  | .wake i => some ((s.task i).key, .woken)
  | .fast i => some ((s.task i).key, if s.verified (s.task i).key = true then .hit else .miss)
  | .tryInsert i =>
    if (s.task i).pc = .guardB ∧ s.verified (s.task i).key = true then some ((s.task i).key, .none_)
    else match s.table (s.task i).key with
      | some o => some ((s.task i).key, .reg o)
      | none => some ((s.task i).key, .vacant i)
  | .publish i => some ((s.task i).key, .publish)
  | .remove i => some ((s.task i).key, .done_ i)
  | .removeA i => some ((s.task i).key, .done_ i)   -- the same hook, reached through `Drop`
  | _ => none

/-- task `j` holds a not yet completed `Notified` of the entry currently in the table for `k` -/
def indU (s : State) (k j : Nat) : Nat :=
  match (s.task j).pc.waitingOn with
  | some o => if (s.task j).key = k ∧ (s.task j).woken = false ∧ s.table k = some o then 1 else 0
  | none => 0

/-- task `j` awaits a `Notified` of key `k` that is completed or whose owner is about to notify -/
def indP (s : State) (k j : Nat) : Nat :=
  match (s.task j).pc.waitingOn with
  | some o => if (s.task j).key = k ∧ ((s.task j).woken = true ∨ (s.task o).pc = .notify ∨ (s.task o).pc = .notifyA) then 1 else 0
  | none => 0

structure R (s : State) (k : Nat) (ks : KeyState) : Prop where
  verified : ks.verified = s.verified k
  entry : ks.entry = s.table k
  unnot : sumTo s.n (indU s k) ≤ ks.unnotified
  pool : sumTo s.n (indP s k) ≤ ks.pool
  clean : ks.entry = none → ks.unnotified = 0

theorem sumTo_add (n : Nat) (f g : Nat → Nat) : sumTo n (fun j => f j + g j) = sumTo n f + sumTo n g := by
  induction n with
  | zero => rfl
  | succ n ih => simp only [sumTo, ih]; omega

theorem sumTo_bump {n i c : Nat} {f g : Nat → Nat} (h : ∀ j, j < n → j ≠ i → f j ≤ g j) (hi : f i ≤ g i + c) :
    sumTo n f ≤ sumTo n g + c := by
  induction n with
  | zero => simp [sumTo]
  | succ n ih =>
    simp only [sumTo]
    have := ih (fun j hj hne => h j (by omega) hne)
    by_cases hn : n = i
    · subst hn
      have h2 : sumTo n f ≤ sumTo n g := sumTo_le (fun j hj => h j (by omega) (by omega))
      omega
    · have := h n (by omega) hn
      omega

theorem sumTo_zero {n : Nat} {f : Nat → Nat} (h : ∀ j, j < n → f j = 0) : sumTo n f = 0 := by
  induction n with
  | zero => rfl
  | succ n ih => simp only [sumTo, ih (fun j hj => h j (by omega)), h n (by omega)]

theorem init_not_waiting (roots : List Nat) (B j : Nat) : ((init roots B).task j).pc.waitingOn = none := by
  show (match roots[j]? with
      | some k => ({ key := k, pc := .loopHead, parent := none, woken := false } : Task)
      | none => {}).pc.waitingOn = none
  cases roots[j]? <;> rfl

theorem R_init (roots : List Nat) (B k : Nat) : R (init roots B) k {} := by
  refine ⟨rfl, rfl, ?_, ?_, fun _ => rfl⟩
  · rw [sumTo_zero]; · exact Nat.le_refl _
    intro j _; simp only [indU, init_not_waiting]
  · rw [sumTo_zero]; · exact Nat.le_refl _
    intro j _; simp only [indP, init_not_waiting]

theorem sumTo_ge_single {n i : Nat} {f : Nat → Nat} (hi : i < n) : f i ≤ sumTo n f := by
  induction n with
  | zero => omega
  | succ n ih =>
    simp only [sumTo]
    by_cases h : i = n
    · subst h; omega
    · have := ih (by omega); omega

theorem sumTo_le_ext {n n' : Nat} {f f' : Nat → Nat} (hn : n' = n ∨ n' = n + 1)
    (h : ∀ j, j < n' → f' j ≤ (if j < n then f j else 0)) : sumTo n' f' ≤ sumTo n f := by
  rcases hn with rfl | rfl
  · exact sumTo_le (fun j hj => by have := h j hj; simpa [hj] using this)
  · simp only [sumTo]
    have h1 : sumTo n f' ≤ sumTo n f := sumTo_le (fun j hj => by have := h j (by omega); simpa [hj] using this)
    have h2 := h n (by omega)
    simp at h2
    omega

theorem R_of_pointwise {s s' : State} {k : Nat} {ks : KeyState} (hr : R s k ks)
    (hv : s'.verified k = s.verified k) (ht : s'.table k = s.table k) (hn : s'.n = s.n ∨ s'.n = s.n + 1)
    (hU : ∀ j, j < s'.n → indU s' k j ≤ (if j < s.n then indU s k j else 0))
    (hP : ∀ j, j < s'.n → indP s' k j ≤ (if j < s.n then indP s k j else 0)) : R s' k ks :=
  ⟨by rw [hv]; exact hr.verified, by rw [ht]; exact hr.entry, Nat.le_trans (sumTo_le_ext hn hU) hr.unnot,
   Nat.le_trans (sumTo_le_ext hn hP) hr.pool, hr.clean⟩

macro "pw" : tactic =>
  `(tactic| (intro j hj; simp only [indU, indP, State.setTask]; grind [Pc.isOwner, Pc.waitingOn, Pc.holdsShared, Pc.ended, Pc.cancelsChildren]))

theorem kStep_reg {ks : KeyState} {g : Nat} (h : ks.entry = some g) :
    kStep ks (.reg g) = some { ks with unnotified := ks.unnotified + 1 } := by simp [kStep, h]

/-- the three shapes of a step seen from key `k`: a `reg`, a `woken`, or no change of the counters -/
theorem R_reg {s s' : State} {k i o : Nat} {ks : KeyState} (hr : R s k ks) (htab : s.table k = some o)
    (hv : s'.verified k = s.verified k) (ht : s'.table k = s.table k) (hn : s'.n = s.n)
    (hU : ∀ j, j < s.n → j ≠ i → indU s' k j ≤ indU s k j) (hUi : indU s' k i ≤ indU s k i + 1)
    (hP : ∀ j, j < s.n → indP s' k j ≤ indP s k j) :
    ∃ ks', kStep ks (.reg o) = some ks' ∧ R s' k ks' := by
  refine ⟨_, kStep_reg (by rw [hr.entry, htab]), ?_⟩
  refine ⟨by rw [hv]; exact hr.verified, by rw [ht]; exact hr.entry, ?_, ?_, by simp [hr.entry, htab]⟩
  · rw [hn]; exact Nat.le_trans (sumTo_bump hU hUi) (Nat.add_le_add_right hr.unnot 1)
  · rw [hn]; exact Nat.le_trans (sumTo_le hP) hr.pool

/-- `notify_waiters`: the owner leaves `notify`/`notifyA`, its waiters become woken; seen from the
counters nothing moves (an un-woken waiter of an owner at `notify` was already counted in the pool) -/
theorem indP_wake_le {s s' : State} {i k : Nat} (hpc : (s.task i).pc = .notify ∨ (s.task i).pc = .notifyA)
    (hi1 : (s'.task i).pc.waitingOn = none) (hi2 : (s'.task i).pc ≠ .notify) (hi3 : (s'.task i).pc ≠ .notifyA)
    (hpcj : ∀ j, j ≠ i → (s'.task j).pc = (s.task j).pc ∧ (s'.task j).key = (s.task j).key)
    (hw : ∀ j, j ≠ i → (s'.task j).woken = true → ((s.task j).woken = true ∨ (s.task j).pc.waitingOn = some i)) :
    ∀ j, indP s' k j ≤ indP s k j := by
  intro j
  by_cases hji : j = i
  · subst hji; simp [indP, hi1]
  · obtain ⟨h1, h2⟩ := hpcj j hji
    simp only [indP, h1, h2]
    cases hwo : (s.task j).pc.waitingOn with
    | none => simp
    | some o =>
      simp only []
      by_cases hc : (s.task j).key = k ∧ ((s'.task j).woken = true ∨ (s'.task o).pc = .notify ∨ (s'.task o).pc = .notifyA)
      · rw [if_pos hc]
        have : (s.task j).key = k ∧ ((s.task j).woken = true ∨ (s.task o).pc = .notify ∨ (s.task o).pc = .notifyA) := by
          obtain ⟨hk, hor⟩ := hc
          refine ⟨hk, ?_⟩
          rcases hor with hw' | hn
          · rcases hw j hji hw' with a | b
            · exact Or.inl a
            · rw [hwo] at b; cases b; exact Or.inr hpc
          · by_cases hoi : o = i
            · subst hoi
              rcases hn with hn | hn
              · exact absurd hn hi2
              · exact absurd hn hi3
            · rw [(hpcj o hoi).1] at hn; exact Or.inr hn
        rw [if_pos this]; exact Nat.le_refl _
      · rw [if_neg hc]; exact Nat.zero_le _

/-- what one event of the model looks like from key `k`: an enabled `kStep` event with the label of
the hook at that place if the event concerns `k` and has a hook, no change of the view otherwise -/
def ViewGoal (s s' : State) (ev : Ev) (k : Nat) (ks : KeyState) : Prop :=
  match label s ev with
  | some (k0, kev) => if k = k0 then ∃ ks', kStep ks kev = some ks' ∧ R s' k ks' else R s' k ks
  | none => R s' k ks

theorem view_loopHead {s s' : State} {i : Nat} (hi : Inv s) (h : step s (.loopHead i) = some s') (k : Nat) (ks : KeyState)
    (hr : R s k ks) : ViewGoal s s' (.loopHead i) k ks := by
  have hr0 := hr
  obtain ⟨r1, r2, r3, r4, r5⟩ := hr
  obtain ⟨h1,h2,h3,h4,h6,h7,h8,h9,h11,h12,h13,h14,h15,h16,h17,h18⟩ := hi
  simp only [step] at h
  split at h
  · rename_i hc
    obtain ⟨hlt, hpc⟩ := hc
    simp only [ViewGoal, label]
    split at h
    · rename_i p o hpar htab
      cases h
      simp only [htab]
      split
      · rename_i hk
        subst hk
        exact R_reg (i := i) hr0 htab rfl rfl rfl (by pw) (by simp only [indU, State.setTask]; grind [Pc.waitingOn]) (by pw)
      · exact R_of_pointwise hr0 rfl rfl (Or.inl rfl) (by pw) (by pw)
    · cases h
      cases htab : s.table (s.task i).key with
      | some o =>
        simp only []
        split
        · rename_i hk
          subst hk
          exact R_reg (i := i) hr0 htab rfl rfl rfl (by pw) (by simp only [indU, State.setTask]; grind [Pc.waitingOn]) (by pw)
        · exact R_of_pointwise hr0 rfl rfl (Or.inl rfl) (by pw) (by pw)
      | none => exact R_of_pointwise hr0 rfl rfl (Or.inl rfl) (by pw) (by pw)
  · cases h

theorem view_wake {s s' : State} {i : Nat} (hi : Inv s) (h : step s (.wake i) = some s') (k : Nat) (ks : KeyState)
    (hr : R s k ks) : ViewGoal s s' (.wake i) k ks := by
  have hr0 := hr
  obtain ⟨r1, r2, r3, r4, r5⟩ := hr
  obtain ⟨h1,h2,h3,h4,h6,h7,h8,h9,h11,h12,h13,h14,h15,h16,h17,h18⟩ := hi
  simp only [step] at h
  split at h
  · rename_i hc
    obtain ⟨hlt, hw⟩ := hc
    simp only [ViewGoal, label]
    have hwk : ∀ o, (s.task i).pc.waitingOn = some o → k = (s.task i).key →
        (∀ t : Task, t.pc.waitingOn = none → t.pc ≠ .notify → t.pc ≠ .notifyA → t.key = (s.task i).key →
          ∃ ks', kStep ks .woken = some ks' ∧ R (s.setTask i t) k ks') := by
      intro o hwo hk t ht htn htn' htk
      subst hk
      have hone : indP s (s.task i).key i = 1 := by simp [indP, hwo, hw]
      have hpos : 0 < ks.pool := by
        have := sumTo_ge_single (f := indP s (s.task i).key) hlt
        omega
      refine ⟨{ ks with pool := ks.pool - 1 }, by simp [kStep, hpos], ?_⟩
      refine ⟨r1, r2, ?_, ?_, r5⟩
      · refine Nat.le_trans (sumTo_le ?_) r3
        intro j hj; simp only [indU, State.setTask]; grind [Pc.waitingOn]
      · have : sumTo s.n (indP (s.setTask i t) (s.task i).key) + 1 ≤ sumTo s.n (indP s (s.task i).key) := by
          apply sumTo_drop (i := i)
          · intro j hj; simp only [indP, State.setTask]; grind [Pc.waitingOn]
          · exact hlt
          · simp only [indP, State.setTask]; grind [Pc.waitingOn]
        show sumTo s.n _ ≤ ks.pool - 1
        omega
    split at h
    · rename_i o hpc
      cases h
      split
      · rename_i hk
        exact hwk o (by simp [hpc, Pc.waitingOn]) hk _ (by simp [Pc.waitingOn]) (by simp) (by simp) rfl
      · exact R_of_pointwise hr0 rfl rfl (Or.inl rfl) (by pw) (by pw)
    · rename_i o hpc
      cases h
      split
      · rename_i hk
        exact hwk o (by simp [hpc, Pc.waitingOn]) hk _ (by simp [Pc.waitingOn]) (by simp) (by simp) rfl
      · exact R_of_pointwise hr0 rfl rfl (Or.inl rfl) (by pw) (by pw)
    · cases h
  · cases h

theorem view_snap {s s' : State} {i : Nat} (hi : Inv s) (h : step s (.snap i) = some s') (k : Nat) (ks : KeyState)
    (hr : R s k ks) : ViewGoal s s' (.snap i) k ks := by
  have hr0 := hr
  obtain ⟨r1, r2, r3, r4, r5⟩ := hr
  obtain ⟨h1,h2,h3,h4,h6,h7,h8,h9,h11,h12,h13,h14,h15,h16,h17,h18⟩ := hi
  simp only [step] at h
  split at h
  · simp only [ViewGoal, label]
    split at h <;> first | (cases h; exact R_of_pointwise hr0 rfl rfl (Or.inl rfl) (by pw) (by pw)) | cases h
  · cases h

theorem view_tfcRelease {s s' : State} {i : Nat} (hi : Inv s) (h : step s (.tfcRelease i) = some s') (k : Nat) (ks : KeyState)
    (hr : R s k ks) : ViewGoal s s' (.tfcRelease i) k ks := by
  have hr0 := hr
  obtain ⟨r1, r2, r3, r4, r5⟩ := hr
  obtain ⟨h1,h2,h3,h4,h6,h7,h8,h9,h11,h12,h13,h14,h15,h16,h17,h18⟩ := hi
  simp only [step] at h
  split at h
  · simp only [ViewGoal, label]
    cases h; exact R_of_pointwise hr0 rfl rfl (Or.inl rfl) (by pw) (by pw)
  · cases h

theorem view_execDone {s s' : State} {i : Nat} (hi : Inv s) (h : step s (.execDone i) = some s') (k : Nat) (ks : KeyState)
    (hr : R s k ks) : ViewGoal s s' (.execDone i) k ks := by
  have hr0 := hr
  obtain ⟨r1, r2, r3, r4, r5⟩ := hr
  obtain ⟨h1,h2,h3,h4,h6,h7,h8,h9,h11,h12,h13,h14,h15,h16,h17,h18⟩ := hi
  simp only [step] at h
  split at h
  · simp only [ViewGoal, label]
    split at h <;> first | (cases h; exact R_of_pointwise hr0 rfl rfl (Or.inl rfl) (by pw) (by pw)) | cases h
  · cases h

theorem view_lockX {s s' : State} {i : Nat} (hi : Inv s) (h : step s (.lockX i) = some s') (k : Nat) (ks : KeyState)
    (hr : R s k ks) : ViewGoal s s' (.lockX i) k ks := by
  have hr0 := hr
  obtain ⟨r1, r2, r3, r4, r5⟩ := hr
  obtain ⟨h1,h2,h3,h4,h6,h7,h8,h9,h11,h12,h13,h14,h15,h16,h17,h18⟩ := hi
  simp only [step] at h
  split at h
  · simp only [ViewGoal, label]
    cases h; exact R_of_pointwise hr0 rfl rfl (Or.inl rfl) (by pw) (by pw)
  · cases h

theorem view_call {s s' : State} {i d : Nat} (hi : Inv s) (h : step s (.call i d) = some s') (k : Nat) (ks : KeyState)
    (hr : R s k ks) : ViewGoal s s' (.call i d) k ks := by
  have hr0 := hr
  obtain ⟨r1, r2, r3, r4, r5⟩ := hr
  obtain ⟨h1,h2,h3,h4,h6,h7,h8,h9,h11,h12,h13,h14,h15,h16,h17,h18⟩ := hi
  simp only [step] at h
  split at h
  · rename_i hc
    obtain ⟨hlt, hd⟩ := hc
    have hn := h1 s.n (Nat.le_refl _)
    simp only [ViewGoal, label]
    split at h
    · cases h; exact R_of_pointwise hr0 rfl rfl (Or.inr rfl) (by pw) (by pw)
    · cases h
  · cases h

theorem view_notify {s s' : State} {i : Nat} (hi : Inv s) (h : step s (.notify i) = some s') (k : Nat) (ks : KeyState)
    (hr : R s k ks) : ViewGoal s s' (.notify i) k ks := by
  have hr0 := hr
  obtain ⟨r1, r2, r3, r4, r5⟩ := hr
  obtain ⟨h1,h2,h3,h4,h6,h7,h8,h9,h11,h12,h13,h14,h15,h16,h17,h18⟩ := hi
  simp only [step] at h
  split at h
  · rename_i hc
    obtain ⟨hlt, hpc⟩ := hc
    simp only [ViewGoal, label]
    cases h
    exact R_of_pointwise hr0 rfl rfl (Or.inl rfl)
      (by intro j hj; simp only [indU]; grind [Pc.isOwner, Pc.waitingOn, Pc.holdsShared, Pc.ended, Pc.cancelsChildren])
      (by intro j hj
          simp only [hj, if_true]
          apply indP_wake_le (i := i) (Or.inl hpc)
          · simp [Pc.waitingOn]
          · simp
          · simp
          · intro j hji; simp only [hji, if_false]; split <;> simp
          · intro j hji; simp only [hji, if_false]; split <;> simp_all)
  · cases h

theorem view_notifyA {s s' : State} {i : Nat} (hi : Inv s) (h : step s (.notifyA i) = some s') (k : Nat) (ks : KeyState)
    (hr : R s k ks) : ViewGoal s s' (.notifyA i) k ks := by
  have hr0 := hr
  obtain ⟨r1, r2, r3, r4, r5⟩ := hr
  obtain ⟨h1,h2,h3,h4,h6,h7,h8,h9,h11,h12,h13,h14,h15,h16,h17,h18⟩ := hi
  simp only [step] at h
  split at h
  · rename_i hc
    obtain ⟨hlt, hpc⟩ := hc
    simp only [ViewGoal, label]
    cases h
    exact R_of_pointwise hr0 rfl rfl (Or.inl rfl)
      (by intro j hj; simp only [indU]; grind [Pc.isOwner, Pc.waitingOn, Pc.holdsShared, Pc.ended, Pc.cancelsChildren])
      (by intro j hj
          simp only [hj, if_true]
          apply indP_wake_le (i := i) (Or.inr hpc)
          · simp [Pc.waitingOn]
          · simp
          · simp
          · intro j hji; simp only [hji, if_false]; split <;> simp
          · intro j hji; simp only [hji, if_false]; split <;> simp_all)
  · cases h

set_option maxHeartbeats 1000000 in
theorem view_abort {s s' : State} {i : Nat} (hi : Inv s) (h : step s (.abort i) = some s') (k : Nat) (ks : KeyState)
    (hr : R s k ks) : ViewGoal s s' (.abort i) k ks := by
  have hr0 := hr
  obtain ⟨r1, r2, r3, r4, r5⟩ := hr
  obtain ⟨h1,h2,h3,h4,h6,h7,h8,h9,h11,h12,h13,h14,h15,h16,h17,h18⟩ := hi
  simp only [step] at h
  split at h
  · split at h
    · rename_i hc
      obtain ⟨hlt, hcc⟩ := hc
      simp only [ViewGoal, label]
      split at h <;> first | (cases h; exact R_of_pointwise hr0 rfl rfl (Or.inl rfl) (by pw) (by pw)) | cases h
    · cases h
  · cases h

theorem view_fast {s s' : State} {i : Nat} (hi : Inv s) (h : step s (.fast i) = some s') (k : Nat) (ks : KeyState)
    (hr : R s k ks) : ViewGoal s s' (.fast i) k ks := by
  have hr0 := hr
  obtain ⟨r1, r2, r3, r4, r5⟩ := hr
  obtain ⟨h1,h2,h3,h4,h6,h7,h8,h9,h11,h12,h13,h14,h15,h16,h17,h18⟩ := hi
  simp only [step] at h
  split at h
  · rename_i hc
    obtain ⟨hlt, hpc⟩ := hc
    simp only [ViewGoal, label]
    split at h
    · rename_i hv
      cases h
      simp only [hv, if_true]
      split
      · rename_i hk
        subst hk
        exact ⟨ks, by simp [kStep, r1, hv], R_of_pointwise hr0 rfl rfl (Or.inl rfl) (by pw) (by pw)⟩
      · exact R_of_pointwise hr0 rfl rfl (Or.inl rfl) (by pw) (by pw)
    · rename_i hv
      cases h
      simp only [hv]
      split
      · rename_i hk
        subst hk
        exact ⟨ks, by simp [kStep, r1, hv], R_of_pointwise hr0 rfl rfl (Or.inl rfl) (by pw) (by pw)⟩
      · exact R_of_pointwise hr0 rfl rfl (Or.inl rfl) (by pw) (by pw)
  · cases h

theorem view_publish {s s' : State} {i : Nat} (hi : Inv s) (h : step s (.publish i) = some s') (k : Nat) (ks : KeyState)
    (hr : R s k ks) : ViewGoal s s' (.publish i) k ks := by
  have hr0 := hr
  obtain ⟨r1, r2, r3, r4, r5⟩ := hr
  obtain ⟨h1,h2,h3,h4,h6,h7,h8,h9,h11,h12,h13,h14,h15,h16,h17,h18⟩ := hi
  simp only [step] at h
  split at h
  · rename_i hc
    obtain ⟨hlt, hpc⟩ := hc
    simp only [ViewGoal, label]
    cases h
    split
    · rename_i hk
      subst hk
      have htab := h3 i (by simp [hpc, Pc.isOwner])
      have hunv := h12 i (Or.inr (Or.inl hpc))
      refine ⟨{ ks with verified := true }, by simp [kStep, r1, r2, htab, hunv], ?_⟩
      refine ⟨by simp, r2, ?_, ?_, r5⟩
      · refine Nat.le_trans (sumTo_le ?_) r3; pw
      · refine Nat.le_trans (sumTo_le ?_) r4; pw
    · rename_i hk
      exact R_of_pointwise hr0 (by simp [hk]) rfl (Or.inl rfl) (by pw) (by pw)
  · cases h

theorem view_remove {s s' : State} {i : Nat} (hi : Inv s) (h : step s (.remove i) = some s') (k : Nat) (ks : KeyState)
    (hr : R s k ks) : ViewGoal s s' (.remove i) k ks := by
  have hr0 := hr
  obtain ⟨r1, r2, r3, r4, r5⟩ := hr
  obtain ⟨h1,h2,h3,h4,h6,h7,h8,h9,h11,h12,h13,h14,h15,h16,h17,h18⟩ := hi
  simp only [step] at h
  split at h
  · rename_i hc
    obtain ⟨hlt, hpc⟩ := hc
    simp only [ViewGoal, label]
    cases h
    split
    · rename_i hk
      subst hk
      have htab := h3 i (by simp [hpc, Pc.isOwner])
      have hv := h6 i (Or.inl hpc)
      refine ⟨{ ks with entry := none, unnotified := 0, pool := ks.pool + ks.unnotified }, by simp [kStep, r2, htab], ?_⟩
      refine ⟨r1, by simp, ?_, ?_, fun _ => rfl⟩
      · show sumTo s.n _ ≤ 0
        rw [sumTo_zero]; · exact Nat.le_refl _
        intro j hj; simp only [indU, State.setTask]; grind [Pc.waitingOn]
      · show sumTo s.n _ ≤ ks.pool + ks.unnotified
        refine Nat.le_trans (sumTo_le (g := fun j => indP s (s.task i).key j + indU s (s.task i).key j) ?_) ?_
        · intro j hj
          by_cases hji : j = i
          · subst hji; simp [indP, State.setTask, Pc.waitingOn]
          · simp only [indP, indU, State.setTask, hji, if_false]
            cases hw : (s.task j).pc.waitingOn with
            | none => simp
            | some o =>
              simp only []
              have h4' := h4 j o hw
              by_cases hoi : o = i
              · subst hoi; simp only [if_true]; grind [Pc.isOwner, Pc.waitingOn]
              · simp only [hoi, if_false]; split <;> simp_all
        · rw [sumTo_add]; exact Nat.add_le_add r4 r3
    · rename_i hk
      exact R_of_pointwise hr0 rfl (by simp [hk]) (Or.inl rfl) (by pw) (by pw)
  · cases h

theorem view_removeA {s s' : State} {i : Nat} (hi : Inv s) (h : step s (.removeA i) = some s') (k : Nat) (ks : KeyState)
    (hr : R s k ks) : ViewGoal s s' (.removeA i) k ks := by
  have hr0 := hr
  obtain ⟨r1, r2, r3, r4, r5⟩ := hr
  obtain ⟨h1,h2,h3,h4,h6,h7,h8,h9,h11,h12,h13,h14,h15,h16,h17,h18⟩ := hi
  simp only [step] at h
  split at h
  · rename_i hc
    obtain ⟨hlt, hpc⟩ := hc
    simp only [ViewGoal, label]
    cases h
    split
    · rename_i hk
      subst hk
      have htab := h3 i (by simp [hpc, Pc.isOwner])
      refine ⟨{ ks with entry := none, unnotified := 0, pool := ks.pool + ks.unnotified }, by simp [kStep, r2, htab], ?_⟩
      refine ⟨r1, by simp, ?_, ?_, fun _ => rfl⟩
      · show sumTo s.n _ ≤ 0
        rw [sumTo_zero]; · exact Nat.le_refl _
        intro j hj; simp only [indU, State.setTask]; grind [Pc.waitingOn]
      · show sumTo s.n _ ≤ ks.pool + ks.unnotified
        refine Nat.le_trans (sumTo_le (g := fun j => indP s (s.task i).key j + indU s (s.task i).key j) ?_) ?_
        · intro j hj
          by_cases hji : j = i
          · subst hji; simp [indP, State.setTask, Pc.waitingOn]
          · simp only [indP, indU, State.setTask, hji, if_false]
            cases hw : (s.task j).pc.waitingOn with
            | none => simp
            | some o =>
              simp only []
              have h4' := h4 j o hw
              by_cases hoi : o = i
              · subst hoi; simp only [if_true]; grind [Pc.isOwner, Pc.waitingOn]
              · simp only [hoi, if_false]; split <;> simp_all
        · rw [sumTo_add]; exact Nat.add_le_add r4 r3
    · rename_i hk
      exact R_of_pointwise hr0 rfl (by simp [hk]) (Or.inl rfl) (by pw) (by pw)
  · cases h

theorem view_tryInsert {s s' : State} {i : Nat} (hi : Inv s) (h : step s (.tryInsert i) = some s') (k : Nat) (ks : KeyState)
    (hr : R s k ks) : ViewGoal s s' (.tryInsert i) k ks := by
  have hr0 := hr
  obtain ⟨r1, r2, r3, r4, r5⟩ := hr
  obtain ⟨h1,h2,h3,h4,h6,h7,h8,h9,h11,h12,h13,h14,h15,h16,h17,h18⟩ := hi
  simp only [step] at h
  split at h
  · rename_i hc
    obtain ⟨hlt, hpc⟩ := hc
    simp only [ViewGoal, label]
    split at h
    · rename_i hb
      cases h
      simp only [hb, and_self, if_true]
      split
      · rename_i hk
        subst hk
        exact ⟨ks, by simp [kStep, r1, hb.2], R_of_pointwise hr0 rfl rfl (Or.inl rfl) (by pw) (by pw)⟩
      · exact R_of_pointwise hr0 rfl rfl (Or.inl rfl) (by pw) (by pw)
    · rename_i hnb
      simp only [hnb, if_false]
      have hunv : s.verified (s.task i).key = false := by grind
      split at h
      · rename_i o htab
        cases h
        simp only [htab]
        split
        · rename_i hk
          subst hk
          exact R_reg (i := i) hr0 htab rfl rfl rfl (by pw) (by simp only [indU, State.setTask]; grind [Pc.waitingOn]) (by pw)
        · exact R_of_pointwise hr0 rfl rfl (Or.inl rfl) (by pw) (by pw)
      · rename_i htab
        cases h
        simp only [htab]
        split
        · rename_i hk
          subst hk
          have hz := r5 (by rw [r2, htab])
          refine ⟨{ ks with entry := some i }, by simp [kStep, r1, r2, htab, hunv, hz], ?_⟩
          refine ⟨r1, by simp, ?_, ?_, by simp⟩
          · show sumTo s.n _ ≤ ks.unnotified
            rw [sumTo_zero]; · exact Nat.zero_le _
            intro j hj; simp only [indU, State.setTask]; grind [Pc.isOwner, Pc.waitingOn]
          · show sumTo s.n _ ≤ ks.pool
            refine Nat.le_trans (sumTo_le ?_) r4; pw
        · rename_i hk
          exact R_of_pointwise hr0 rfl (by simp; intro h; exact absurd h hk) (Or.inl rfl) (by pw) (by pw)
  · cases h

/-- The key view simulates the model: one event of the model, seen from key `k`. -/
theorem view_step {s s' : State} {ev : Ev} (hi : Inv s) (h : step s ev = some s') (k : Nat) (ks : KeyState) (hr : R s k ks) :
    ViewGoal s s' ev k ks := by
  cases ev with
  | loopHead i => exact view_loopHead hi h k ks hr
  | wake i => exact view_wake hi h k ks hr
  | snap i => exact view_snap hi h k ks hr
  | tfcRelease i => exact view_tfcRelease hi h k ks hr
  | execDone i => exact view_execDone hi h k ks hr
  | lockX i => exact view_lockX hi h k ks hr
  | call i d => exact view_call hi h k ks hr
  | notify i => exact view_notify hi h k ks hr
  | abort i => exact view_abort hi h k ks hr
  | removeA i => exact view_removeA hi h k ks hr
  | notifyA i => exact view_notifyA hi h k ks hr
  | fast i => exact view_fast hi h k ks hr
  | publish i => exact view_publish hi h k ks hr
  | remove i => exact view_remove hi h k ks hr
  | tryInsert i => exact view_tryInsert hi h k ks hr

/-- the hook events a run of the model emits, in order -/
def traceOf (s : State) : List Ev → List (Nat × KEv)
  | [] => []
  | ev :: rest =>
    match step s ev with
    | some s' => (label s ev).toList ++ traceOf s' rest
    | none => []

/-- the replay the driver performs: every event through `kStep` on the view of its key -/
def kRun (v : Nat → KeyState) : List (Nat × KEv) → Option (Nat → KeyState)
  | [] => some v
  | (k, e) :: rest =>
    match kStep (v k) e with
    | some ks' => kRun (fun j => if j = k then ks' else v j) rest
    | none => none

theorem trace_accepted {s s' : State} {evs : List Ev} (hrun : Run s evs s') :
    ∀ (v : Nat → KeyState), Inv s → (∀ k, R s k (v k)) → ∃ v', kRun v (traceOf s evs) = some v' ∧ ∀ k, R s' k (v' k) := by
  induction hrun with
  | nil s => intro v _ hr; exact ⟨v, rfl, hr⟩
  | @cons s s1 s2 ev evs hs _ ih =>
    intro v hi hr
    have hv := fun k => view_step hi hs k (v k) (hr k)
    simp only [traceOf, hs]
    cases hl : label s ev with
    | none =>
      simp only [Option.toList, List.nil_append]
      refine ih v (inv_step hi hs) ?_
      intro k; have := hv k; simp only [ViewGoal, hl] at this; exact this
    | some p =>
      obtain ⟨k0, kev⟩ := p
      simp only [Option.toList, List.cons_append, List.nil_append, kRun]
      have h0 := hv k0
      simp only [ViewGoal, hl, if_true] at h0
      obtain ⟨ks', hk, hr'⟩ := h0
      simp only [hk]
      refine ih _ (inv_step hi hs) ?_
      intro k
      by_cases hkk : k = k0
      · subst hkk; simpa using hr'
      · have := hv k; simp only [ViewGoal, hl, hkk, if_false] at this; simpa [hkk] using this

end QbiceVerif.Lts.CT
