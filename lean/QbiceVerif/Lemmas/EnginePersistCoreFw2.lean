/-
Lemmas for C08 on the extended core model `Qbice.CoreFw`, part 1: the store images between the
logical write batches of a request by a query caller (`queryQ`).

In `Qbice.CoreFw` a key publishes exactly once, at the end of its processing (`install` =
`set_computed`, with the dirty marks of a changed firewall / projection in the same batch; the clean
path = `clean_query`, where the cleaned edges leave the dirty set; `clearPending` =
`done_backward_projection`), and `repairDeps` does not touch the state between the requests for the
callees.  So the store images of a run are exactly the states the model threads from one request to
the next: `images…` below list them, mirroring the control flow of the model function by function.
-/
import QbiceVerif.Lemmas.EngineCoreFw12
namespace Qbice.CoreFw
open Qbice.Core (Prog Err Write SetRes Sat)

/-- what is shown of every image `t` of an operation started in `s` -/
structure ImgOK (p : Program) (s t : St) : Prop where
  inv : Inv p t
  frame : Frame p s t

theorem ImgOK.trans {p : Program} {s s' t : St} (f : Frame p s s') (h : ImgOK p s' t) : ImgOK p s t :=
  ⟨h.inv, f.trans h.frame⟩

/-- images published while the recorded dependencies of `k` are checked; `I d s` = the images of the
    request for `d` from `s` -/
def imagesRep (q : Q) (I : Key → St → List St) (k : Key) (skipOk : Bool) : List (Key × Val) → St → List St
  | [], _ => []
  | (d, o) :: rest, s =>
    if s.dirty k d = false ∧ skipOk = true ∧ trusted s d = true then imagesRep q I k skipOk rest s
    else I d s ++ (match q d s with
      | .error _ => []
      | .ok (v, s1) => if v ≠ o then [] else imagesRep q I k skipOk rest s1)

/-- images published while the members of an unordered group are requested -/
def imagesMany (q : Q) (I : Key → St → List St) : List Key → St → List St
  | [], _ => []
  | d :: rest, s => I d s ++ (match q d s with
      | .error _ => []
      | .ok (_, s1) => imagesMany q I rest s1)

/-- images published while an executor runs -/
def imagesRun (q : Q) (I : Key → St → List St) : Prog → St → List St
  | .ret _, _ => []
  | .ask d cont, s => I d s ++ (match q d s with
      | .error _ => []
      | .ok (v, s1) => imagesRun q I (cont v) s1)
  | .askAll ks cont, s => imagesMany q I ks s ++ (match askMany q ks {} s with
      | .error _ => []
      | .ok (vs, _, s1) => imagesRun q I (cont vs) s1)

/-- the store images between the logical write batches of `queryQ p fuel ped k s` (the last one is
    the state after `k`'s own batch) -/
def imagesQ (p : Program) : Nat → Bool → Key → St → List St
  | 0, _, _, _ => []
  | fuel + 1, ped, k, s =>
    let fin : List St := match queryQ p (fuel + 1) ped k s with
      | .ok (_, s') => [s']
      | .error _ => []
    match s.nodes k with
    | none =>
      match p[k]? with
      | none => []
      | some d =>
        match d.kind with
        | .input => []
        | .external => fin
        | _ => imagesRun (queryQ p fuel ped) (imagesQ p fuel ped) d.prog s ++ fin
    | some n =>
      if n.lastVerified = s.epoch then []
      else
        match p[k]? with
        | none => []
        | some d =>
          imagesRep (queryQ p fuel ped) (imagesQ p fuel ped) k (!ped && decide (n.kind ≠ .projection)) n.deps s ++
          (match repairDeps (queryQ p fuel ped) k (!ped && decide (n.kind ≠ .projection)) n.seen n.deps false [] s with
           | .ok (true, _, _, s1) => imagesRun (queryQ p fuel ped) (imagesQ p fuel ped) d.prog s1
           | _ => []) ++ fin

-- ------------------------------------------------------------------ where the images come from

theorem imagesRep_mem {p : Program} {q : Q} {I : Key → St → List St} {k : Key} (hq : QSpec p q k)
    {n : Node} {s : St} (skipOk : Bool) :
    ∀ (deps : List (Key × Val)) (sc : St), Inv p sc → Frame p s sc → sc.nodes k = some n →
      (∀ e, e ∈ deps → e ∈ n.deps) →
      ∀ t, t ∈ imagesRep q I k skipOk deps sc →
        ∃ sc' d, d < k ∧ Inv p sc' ∧ Frame p s sc' ∧ t ∈ I d sc' := by
  intro deps
  induction deps with
  | nil => intro sc _ _ _ _ t ht; simp [imagesRep] at ht
  | cons e rest ih =>
    intro sc inv fr hk hsub t ht
    obtain ⟨d, o⟩ := e
    have hm : (d, o) ∈ n.deps := hsub _ (List.mem_cons_self ..)
    have hsub' : ∀ e, e ∈ rest → e ∈ n.deps := fun e he => hsub e (List.mem_cons_of_mem _ he)
    simp only [imagesRep] at ht
    split at ht
    · exact ih sc inv fr hk hsub' t ht
    · have hdk : d < k := (inv.down k n hk d o hm).1
      rw [List.mem_append] at ht
      cases ht with
      | inl ht => exact ⟨sc, d, hdk, inv, fr, ht⟩
      | inr ht =>
        have hqd := hq d hdk sc inv
        cases hr : q d sc with
        | error e => rw [hr] at ht; simp at ht
        | ok r =>
          obtain ⟨v, s1⟩ := r
          rw [hr] at ht hqd
          obtain ⟨i1, f1, t1, _⟩ := hqd
          simp only at i1 f1 t1 ht
          split at ht
          · simp at ht
          · have k1 : s1.nodes k = some n := by rw [t1.1 k (by komega)]; exact hk
            exact ih s1 i1 (fr.trans f1) k1 hsub' t ht

theorem askMany_inv {p : Program} {q : Q} {k : Key} (hq : QSpec p q k) :
    ∀ (ks : List Key) (a : Acc) (s : St), (∀ d, d ∈ ks → d < k) → Inv p s →
      Sat (askMany q ks a s) (fun r => Inv p r.2.2 ∧ Frame p s r.2.2) := by
  intro ks
  induction ks with
  | nil => intro a s _ inv; exact ⟨inv, Frame.refl p s⟩
  | cons d rest ih =>
    intro a s hb inv
    have hqd := hq d (hb d (List.mem_cons_self ..)) s inv
    simp only [askMany]
    cases hr : q d s with
    | error e => rw [hr] at hqd; simpa [Sat] using hqd
    | ok r =>
      obtain ⟨v, s1⟩ := r
      rw [hr] at hqd
      obtain ⟨i1, f1, _⟩ := hqd
      simp only at i1 f1 ⊢
      have h2 := ih (observe s1 a d v) s1 (fun d' hd' => hb d' (List.mem_cons_of_mem _ hd')) i1
      cases hr2 : askMany q rest (observe s1 a d v) s1 with
      | error e => rw [hr2] at h2; simpa [Sat] using h2
      | ok r2 =>
        obtain ⟨vs, a2, s2⟩ := r2
        rw [hr2] at h2
        exact ⟨h2.1, f1.trans h2.2⟩

theorem imagesMany_mem {p : Program} {q : Q} {I : Key → St → List St} {k : Key} (hq : QSpec p q k)
    {s0 : St} :
    ∀ (ks : List Key) (sc : St), (∀ d, d ∈ ks → d < k) → Inv p sc → Frame p s0 sc →
      ∀ t, t ∈ imagesMany q I ks sc → ∃ sc' d, d < k ∧ Inv p sc' ∧ Frame p s0 sc' ∧ t ∈ I d sc' := by
  intro ks
  induction ks with
  | nil => intro sc _ _ _ t ht; simp [imagesMany] at ht
  | cons d rest ih =>
    intro sc hb inv fr t ht
    have hd : d < k := hb d (List.mem_cons_self ..)
    simp only [imagesMany, List.mem_append] at ht
    cases ht with
    | inl ht => exact ⟨sc, d, hd, inv, fr, ht⟩
    | inr ht =>
      have hqd := hq d hd sc inv
      cases hr : q d sc with
      | error e => rw [hr] at ht; simp at ht
      | ok r =>
        obtain ⟨v, s1⟩ := r
        rw [hr] at ht hqd
        obtain ⟨i1, f1, _⟩ := hqd
        simp only at i1 f1 ht
        exact ih s1 (fun d' hd' => hb d' (List.mem_cons_of_mem _ hd')) i1 (fr.trans f1) t ht

theorem imagesRun_mem {p : Program} {q : Q} {I : Key → St → List St} {k : Key} (hq : QSpec p q k)
    {s0 : St} :
    ∀ (prog : Prog) (sc : St), prog.Below k → Inv p sc → Frame p s0 sc →
      ∀ t, t ∈ imagesRun q I prog sc → ∃ sc' d, d < k ∧ Inv p sc' ∧ Frame p s0 sc' ∧ t ∈ I d sc' := by
  intro prog
  induction prog with
  | ret v => intro sc _ _ _ t ht; simp [imagesRun] at ht
  | ask d cont ih =>
    intro sc hb inv fr t ht
    obtain ⟨hd, hc⟩ := hb
    simp only [imagesRun, List.mem_append] at ht
    cases ht with
    | inl ht => exact ⟨sc, d, hd, inv, fr, ht⟩
    | inr ht =>
      have hqd := hq d hd sc inv
      cases hr : q d sc with
      | error e => rw [hr] at ht; simp at ht
      | ok r =>
        obtain ⟨v, s1⟩ := r
        rw [hr] at ht hqd
        obtain ⟨i1, f1, _⟩ := hqd
        simp only at i1 f1 ht
        exact ih v s1 (hc v) i1 (fr.trans f1) t ht
  | askAll ks cont ih =>
    intro sc hb inv fr t ht
    obtain ⟨hks, hc⟩ := hb
    simp only [imagesRun, List.mem_append] at ht
    cases ht with
    | inl ht => exact imagesMany_mem hq ks sc hks inv fr t ht
    | inr ht =>
      have hm := askMany_inv hq ks {} sc hks inv
      cases hr : askMany q ks {} sc with
      | error e => rw [hr] at ht; simp at ht
      | ok r =>
        obtain ⟨vs, a1, s1⟩ := r
        rw [hr] at ht hm
        simp only at ht
        exact ih vs s1 (hc vs) hm.1 (fr.trans hm.2) t ht

theorem mem_finQ {p : Program} (wf : WF p) (sh : Shape p) {fuel : Nat} {ped : Bool} {k : Key}
    (hk : k < fuel) {s : St} (inv : Inv p s) {t : St}
    (ht : t ∈ (match queryQ p fuel ped k s with
      | .ok (_, s') => [s']
      | .error _ => [])) : ImgOK p s t := by
  have hs := queryQ_spec wf sh fuel ped k hk s inv
  cases hr : queryQ p fuel ped k s with
  | error e => rw [hr] at ht; simp at ht
  | ok r =>
    obtain ⟨v, s'⟩ := r
    rw [hr] at ht hs
    simp only [List.mem_singleton] at ht
    subst ht
    exact ⟨hs.1, hs.2.1⟩

/-- every store image between two logical write batches of a request by a query caller satisfies
    the engine invariant and has the timestamp, inputs, external values and world of its start -/
theorem imagesQ_ok {p : Program} (wf : WF p) (sh : Shape p) :
    ∀ fuel ped k, k < fuel → ∀ s, Inv p s → ∀ t, t ∈ imagesQ p fuel ped k s → ImgOK p s t := by
  intro fuel
  induction fuel with
  | zero => intro ped k hk; cases hk
  | succ fuel ih =>
    intro ped k hk s inv t ht
    have hq : QSpec p (queryQ p fuel ped) k := fun d hd s' inv' => queryQ_spec wf sh fuel ped d (by komega) s' inv'
    have hI : ∀ d, d < k → ∀ s', Inv p s' → ∀ t, t ∈ imagesQ p fuel ped d s' → ImgOK p s' t :=
      fun d hd s' inv' t ht => ih ped d (by komega) s' inv' t ht
    simp only [imagesQ] at ht
    cases hn : s.nodes k with
    | none =>
      rw [hn] at ht
      simp only at ht
      cases hp : p[k]? with
      | none => rw [hp] at ht; simp at ht
      | some d =>
        rw [hp] at ht
        simp only at ht
        have run : t ∈ imagesRun (queryQ p fuel ped) (imagesQ p fuel ped) d.prog s ++
            (match queryQ p (fuel + 1) ped k s with
              | .ok (_, s') => [s']
              | .error _ => []) → d.kind ≠ .input → d.kind ≠ .external → ImgOK p s t := by
          intro ht hki hke
          rw [List.mem_append] at ht
          cases ht with
          | inr ht => exact mem_finQ wf sh hk inv ht
          | inl ht =>
            obtain ⟨sc, d', hd', isc, fsc, hmem⟩ :=
              imagesRun_mem hq d.prog s (wf k d hp hki hke).1 inv (Frame.refl p s) t ht
            exact (hI d' hd' sc isc t hmem).trans fsc
        cases hkd : d.kind with
        | input => rw [hkd] at ht; simp at ht
        | external => rw [hkd] at ht; exact mem_finQ wf sh hk inv ht
        | normal => rw [hkd] at ht; exact run ht (by rw [hkd]; decide) (by rw [hkd]; decide)
        | firewall => rw [hkd] at ht; exact run ht (by rw [hkd]; decide) (by rw [hkd]; decide)
        | projection => rw [hkd] at ht; exact run ht (by rw [hkd]; decide) (by rw [hkd]; decide)
    | some n =>
      rw [hn] at ht
      simp only at ht
      split at ht
      · simp at ht
      · rename_i hv
        cases hp : p[k]? with
        | none => rw [hp] at ht; simp at ht
        | some d =>
          rw [hp] at ht
          simp only [List.mem_append] at ht
          rcases ht with (ht | ht) | ht
          · obtain ⟨sc, d', hd', isc, fsc, hmem⟩ :=
              imagesRep_mem hq _ n.deps s inv (Frame.refl p s) hn (fun _ h => h) t ht
            exact (hI d' hd' sc isc t hmem).trans fsc
          · have hrep := repairDeps_spec hq (!ped && decide (n.kind ≠ .projection)) n.deps false [] s inv hn (fun _ h => h)
            cases hr : repairDeps (queryQ p fuel ped) k (!ped && decide (n.kind ≠ .projection)) n.seen n.deps false [] s with
            | error e => rw [hr] at ht; simp at ht
            | ok r =>
              obtain ⟨b, mv, cl, s1⟩ := r
              rw [hr] at ht hrep
              cases b with
              | false => simp at ht
              | true =>
                simp only at ht
                obtain ⟨i1, f1, _⟩ := hrep
                simp only at i1 f1
                obtain ⟨d0, hp0, hkd0, hleaf⟩ := inv.kind k n hn
                rw [hp] at hp0; cases hp0
                -- the executor is re-run only for keys that have one: a leaf has no recorded dependency
                have hki : d.kind ≠ .input ∧ d.kind ≠ .external := by
                  constructor <;> intro hk' <;>
                  · have := (hleaf (by rw [← hkd0, hk']; simp)).1
                    rw [this] at hr
                    simp [repairDeps] at hr
                obtain ⟨sc, d', hd', isc, fsc, hmem⟩ :=
                  imagesRun_mem hq d.prog s1 (wf k d hp hki.1 hki.2).1 i1 (Frame.refl p s1) t ht
                exact (hI d' hd' sc isc t hmem).trans (f1.trans fsc)
          · exact mem_finQ wf sh hk inv ht

end Qbice.CoreFw
