/-
`check_cyclic_internal` on the computing table of a sequential fresh evaluation: the table is a
chain (every computing query has exactly one computing registered callee: the query above it), so
the search started at an ancestor of the reader walks up the chain, finds the reader among the
callees of the query directly below it, and marks exactly the queries from the ancestor up to
(excluding) the reader.  In particular it terminates within `distance + 1` levels of recursion.
-/
import QbiceVerif.Lemmas.CycleBasic
namespace Qbice.Cycle

/-- the frames below the top of the computing stack: `child` is the key of the frame directly above;
    every registered callee is that child or a computed key (`M`) -/
def ChainBelow (M : List Key) : Key → List Frame → Prop
  | _, [] => True
  | child, f :: r => child ∈ f.callees ∧ (∀ x ∈ f.callees, x = child ∨ x ∈ M) ∧ ChainBelow M f.key r

theorem chainBelow_split {M : List Key} : ∀ (a : List Frame) (x : Frame) (b : List Frame) (child : Key),
    ChainBelow M child (a ++ x :: b) → ChainBelow M child (a ++ [x]) ∧ ChainBelow M x.key b := by
  intro a
  induction a with
  | nil =>
    intro x b child h
    simp only [List.nil_append, ChainBelow] at h ⊢
    exact ⟨⟨h.1, h.2.1, trivial⟩, h.2.2⟩
  | cons f r ih =>
    intro x b child h
    simp only [List.cons_append, ChainBelow] at h ⊢
    obtain ⟨h1, h2⟩ := ih x b f.key h.2.2
    exact ⟨⟨h.1, h.2.1, h1⟩, h2⟩

theorem chainBelow_mono {M M' : List Key} (hM : ∀ x ∈ M, x ∈ M') : ∀ (r : List Frame) (child : Key),
    ChainBelow M child r → ChainBelow M' child r := by
  intro r
  induction r with
  | nil => intro _ _; trivial
  | cons f r ih =>
    intro child h
    simp only [ChainBelow] at h ⊢
    refine ⟨h.1, ?_, ih _ h.2.2⟩
    intro x hx
    rcases h.2.1 x hx with e | m
    · exact Or.inl e
    · exact Or.inr (hM x m)

/-- the shape of a chain does not depend on marks -/
theorem chainBelow_shape {M : List Key} : ∀ (r r' : List Frame) (child : Key), shape r = shape r' →
    ChainBelow M child r → ChainBelow M child r' := by
  intro r
  induction r with
  | nil =>
    intro r' child h _
    cases r' with
    | nil => trivial
    | cons _ _ => simp [shape] at h
  | cons f r ih =>
    intro r' child h hc
    cases r' with
    | nil => simp [shape] at h
    | cons f' r' =>
      simp only [shape, List.map_cons, List.cons.injEq, Prod.mk.injEq] at h
      obtain ⟨⟨hk, hcl⟩, hr⟩ := h
      simp only [ChainBelow] at hc ⊢
      rw [← hk, ← hcl]
      exact ⟨hc.1, hc.2.1, ih r' f.key hr hc.2.2⟩

theorem checkList_chain {rec : List Frame → Key → Except Err (Bool × List Frame)} {child : Key}
    {P : Key → Bool} {s : List Frame}
    (hrec1 : rec s child = .ok (true, markSet P s))
    (hrec2 : rec (markSet P s) child = .ok (true, markSet P s))
    (hchild : (findFrame child s).isSome) :
    ∀ (l : List Key) (found : Bool), (∀ x ∈ l, x = child ∨ findFrame x s = none) →
      checkList rec l s found = .ok (found || l.contains child, if l.contains child then markSet P s else s) ∧
      checkList rec l (markSet P s) found = .ok (found || l.contains child, markSet P s) := by
  have hchild' : (findFrame child (markSet P s)).isSome := by
    rw [findFrame_isSome_iff, keys_markSet, ← findFrame_isSome_iff]; exact hchild
  intro l
  induction l with
  | nil => intro found _; simp [checkList]
  | cons c cs ih =>
    intro found h
    have hcs : ∀ x ∈ cs, x = child ∨ findFrame x s = none := fun x hx => h x (List.mem_cons_of_mem _ hx)
    rcases h c (by simp) with rfl | hnone
    · obtain ⟨f1, hf1⟩ := Option.isSome_iff_exists.1 hchild
      obtain ⟨f2, hf2⟩ := Option.isSome_iff_exists.1 hchild'
      have ih2 := (ih (found || true) hcs).2
      constructor
      · simp only [checkList, hf1, hrec1, ih2]
        simp
      · simp only [checkList, hf2, hrec2, ih2]
        simp
    · have hne : c ≠ child := by
        intro e; subst e; simp [hnone] at hchild
      have hnone' : findFrame c (markSet P s) = none := findFrame_markSet_none.2 hnone
      obtain ⟨i1, i2⟩ := ih found hcs
      have hc : (c :: cs).contains child = cs.contains child := by
        simp [Ne.symm hne]
      constructor
      · simp only [checkList, hnone, i1, hc]
      · simp only [checkList, hnone', i2, hc]

/-- the search walks up the chain and marks it -/
theorem checkCyclic_chain {M : List Key} {s0 : List Frame} (nd : (keys s0).Nodup)
    (hM : ∀ x ∈ M, x ∉ keys s0) (target : Key) (ht : target ∈ keys s0) :
    ∀ (n : Nat) (mid : List Frame) (g : Frame), mid.length = n →
      (∀ f ∈ mid ++ [g], f ∈ s0) → target ∉ keys (mid ++ [g]) →
      ChainBelow M target (mid ++ [g]) →
      ∀ s, shape s = shape s0 → ∀ fuel, n + 1 ≤ fuel →
      checkCyclic fuel target s g.key
        = .ok (true, markSet (fun x => (keys (mid ++ [g])).contains x) s) := by
  intro n
  induction n with
  | zero =>
    intro mid g hlen hmem _ hchain s hs fuel hfuel
    have : mid = [] := List.length_eq_zero_iff.1 hlen
    subst this
    simp only [List.nil_append, ChainBelow] at hchain
    obtain ⟨f', hf', _, hcl⟩ := findFrame_shape hs.symm (findFrame_of_mem nd (hmem g (by simp)))
    cases fuel with
    | zero => omega
    | succ fuel =>
      simp only [checkCyclic, hf', hcl, hchain.1, if_true, markFrame_eq_markSet]
      congr 3
      funext x
      by_cases hx : x = g.key <;> simp [keys, hx]
  | succ n ih =>
    intro mid g hlen hmem htn hchain s hs fuel hfuel
    have hne : mid ≠ [] := by intro e; subst e; simp at hlen
    obtain ⟨mid', g', rfl⟩ : ∃ mid' g', mid = mid' ++ [g'] :=
      ⟨mid.dropLast, mid.getLast hne, (List.dropLast_concat_getLast hne).symm⟩
    have hlen' : mid'.length = n := by simp at hlen; omega
    have hsplit := chainBelow_split mid' g' [g] target (by simpa using hchain)
    have hmem' : ∀ f ∈ mid' ++ [g'], f ∈ s0 := fun f hf => hmem f (by simp at hf ⊢; rcases hf with h | h; exact Or.inl h; exact Or.inr (Or.inl h))
    have htn' : target ∉ keys (mid' ++ [g']) := by
      intro h; apply htn
      simp only [keys, List.map_append, List.mem_append] at h ⊢
      exact Or.inl h
    have IH := ih mid' g' hlen' hmem' htn' hsplit.1
    obtain ⟨hg1, hg2, _⟩ : g'.key ∈ g.callees ∧ (∀ x ∈ g.callees, x = g'.key ∨ x ∈ M) ∧ True := by
      simpa [ChainBelow] using hsplit.2
    obtain ⟨f', hf', _, hcl⟩ := findFrame_shape hs.symm (findFrame_of_mem nd (hmem g (by simp)))
    have hg'mem : g'.key ∈ keys s0 := List.mem_map_of_mem (hmem g' (by simp))
    have htarget : target ∉ g.callees := by
      intro h
      rcases hg2 target h with e | m
      · apply htn
        simp only [keys, List.map_append, List.mem_append, List.map_cons, List.mem_cons]
        left; right; left; exact e
      · exact hM _ m ht
    cases fuel with
    | zero => omega
    | succ fuel =>
      have hfu : n + 1 ≤ fuel := by omega
      let P' : Key → Bool := fun x => (keys (mid' ++ [g'])).contains x
      have hsP : shape (markSet P' s) = shape s0 := by rw [shape_markSet]; exact hs
      have h1 := IH s hs fuel hfu
      have h2 := IH (markSet P' s) hsP fuel hfu
      have h2' : checkCyclic fuel target (markSet P' s) g'.key = .ok (true, markSet P' s) := by
        rw [h2, markSet_markSet]
        congr 3
        funext x
        simp [P']
      have hchild : (findFrame g'.key s).isSome := by
        rw [findFrame_isSome_iff, keys_eq_of_shape hs]; exact hg'mem
      have hall : ∀ x ∈ g.callees, x = g'.key ∨ findFrame x s = none := by
        intro x hx
        rcases hg2 x hx with e | m
        · exact Or.inl e
        · right
          rw [findFrame_none_iff, keys_eq_of_shape hs]
          exact hM x m
      have hcl' := (checkList_chain (rec := checkCyclic fuel target) (P := P') h1 h2' hchild g.callees false hall).1
      have hcont : g.callees.contains g'.key = true := by simpa using hg1
      simp only [checkCyclic, hf', hcl, htarget, if_false, hcl', hcont, Bool.false_or, if_true,
        markFrame_eq_markSet, markSet_markSet]
      congr 3
      funext x
      simp only [P', keys, List.map_append, List.map_cons, List.map_nil, List.contains_eq_mem,
        List.mem_append, List.mem_cons, List.not_mem_nil, or_false, Bool.decide_or]
      by_cases hx : x = g.key <;> simp [hx]

end Qbice.Cycle
