import QbiceVerif.Lemmas.EngineLtsSet

/-! The F6 witness schedule of the as-is tiered set, for every threshold. -/
namespace QbiceVerif.Lts.TS

theorem insertInto_fresh {l : List Nat} {x : Nat} (h : x ∉ l) : insertInto l x = (l ++ [x], true) := by
  simp [insertInto, h]

/-- after `m ≤ T` sequential inserts of `0 … m-1` the as-is set is `Small [0, …, m-1]` and quiescent -/
theorem fill_reachable (T m : Nat) (h : m ≤ T) :
    ∃ s, Reachable T false s ∧ s.store = .small (List.range m) ∧ s.T = T ∧ s.fixed = false ∧ s.readers = 0 ∧
      (∀ t, s.pc t = .idle) ∧ (∀ e ∈ s.hist, ∀ y, e.2.1 ≠ .rem y) := by
  induction m with
  | zero => exact ⟨init T false, .init, rfl, rfl, rfl, rfl, fun _ => rfl, by simp [init]⟩
  | succ m ih =>
    obtain ⟨s, hr, hst, hT, hf, hrd, hpc, hh⟩ := ih (by omega)
    have hstep : step s (.ins 0 m) =
        some (({ s with store := .small (List.range m ++ [m]) }).complete 0 (.ins m) (.bool true), some (.bool true)) := by
      have hne : ¬ m = s.T := by omega
      simp [step, hpc, hst, hrd, hne, insertInto_fresh (l := List.range m) (x := m) (by simp)]
    refine ⟨_, Reachable.step _ hr hstep, ?_, hT, hf, hrd, hpc, ?_⟩
    · simp [State.complete, List.range_succ]
    · intro e he y
      simp only [State.complete, List.mem_append, List.mem_singleton] at he
      rcases he with he | rfl
      · exact hh e he y
      · simp

/-- FINDING F6 for ANY threshold `T ≥ 1`: after `T` sequential inserts, thread 0 inserts `T` (drains,
drops the locks), thread 1 inserts `T + 1` into the emptied vector and returns `true`, thread 0
publishes; thread 1's later `iter` does not contain `T + 1`. -/
theorem asis_lost_insert_any (T : Nat) (hT1 : 1 ≤ T) :
    ∃ s h1 l, Reachable T false s ∧
      s.hist = (h1 ++ (1, .ins (T + 1), .bool true) :: [(0, .ins T, .bool true)]) ++ [(1, .iter, .list l)] ++ [] ∧
      (∀ e ∈ h1, ∀ y, e.2.1 ≠ .rem y) ∧ T + 1 ∉ l := by
  obtain ⟨s, hr, hst, hT, hf, hrd, hpc, hh⟩ := fill_reachable T T (Nat.le_refl _)
  -- thread 0: insert T, the vector is full: drain and leave
  have h1 : step s (.ins 0 T) =
      some ({ (s.setPc 0 (.publish (List.range T ++ [T]) T true)) with store := .small [] }, none) := by
    simp [step, hpc, hst, hrd, hT, hf, insertInto_fresh (l := List.range T) (x := T) (by simp)]
  let s1 : State := { (s.setPc 0 (.publish (List.range T ++ [T]) T true)) with store := .small [] }
  have hr1 : Reachable T false s1 := Reachable.step _ hr h1
  -- thread 1: insert T+1 into the emptied vector
  have h2 : step s1 (.ins 1 (T + 1)) =
      some (({ s1 with store := .small [T + 1] }).complete 1 (.ins (T + 1)) (.bool true), some (.bool true)) := by
    have : ¬ 0 = T := by omega
    simp [step, s1, State.setPc, hpc, hrd, hT, this, insertInto]
  let s2 : State := ({ s1 with store := .small [T + 1] }).complete 1 (.ins (T + 1)) (.bool true)
  have hr2 : Reachable T false s2 := Reachable.step _ hr1 h2
  -- thread 0: publish
  have h3 : step s2 (.publish 0) =
      some ((({ s2 with store := .large (List.range T ++ [T]) }).setPc 0 .idle).complete 0 (.ins T) (.bool true), some (.bool true)) := by
    simp [step, s2, s1, State.setPc, State.complete, hrd]
  let s3 : State := (({ s2 with store := .large (List.range T ++ [T]) }).setPc 0 .idle).complete 0 (.ins T) (.bool true)
  have hr3 : Reachable T false s3 := Reachable.step _ hr2 h3
  -- thread 1: iterate
  have h4 : step s3 (.iterBegin 1) =
      some (({ (s3.setPc 1 .iter) with readers := s3.readers + 1 }).complete 1 .iter (.list (List.range T ++ [T])),
            some (.list (List.range T ++ [T]))) := by
    simp [step, s3, s2, s1, State.setPc, State.complete, hpc, Store.content]
  refine ⟨_, s.hist, List.range T ++ [T], Reachable.step _ hr3 h4, ?_, hh, ?_⟩
  · simp [s3, s2, s1, State.setPc, State.complete]
  · simp

end QbiceVerif.Lts.TS
