import QbiceVerif.Lemmas.CancelStep

/-!
# C05 — preservation of the core invariant, event by event (part A: events that keep the frames)
-/

namespace QbiceVerif.CancelLts

theorem core_waitC {s s' : State} {t : Tid} (h : InvCore s) (hs : step s (.waitC t) = some s') : InvCore s' := by
  simp only [step] at hs
  cases hT : s.tasks t with
  | none => simp [hT] at hs
  | some T =>
    cases hF : T.frames with
    | nil => simp [hT, hF] at hs
    | cons top rest =>
      simp only [hT, hF] at hs
      split at hs
      · next hc =>
        cases hs
        exact core_task_only h hT (setTask_tasks ..) (fun _ => rfl) rfl rfl hF.symm rfl (by simp [hc.1, Pc.isSession]) (by simp [hc.1]) (by detached_pc h t T hT hc.1)
      · cases hs

theorem core_waitB {s s' : State} {t : Tid} (h : InvCore s) (hs : step s (.waitB t) = some s') : InvCore s' := by
  simp only [step] at hs
  cases hT : s.tasks t with
  | none => simp [hT] at hs
  | some T =>
    cases hF : T.frames with
    | nil => simp [hT, hF] at hs
    | cons top rest =>
      simp only [hT, hF] at hs
      split at hs
      · next hc =>
        cases hs
        exact core_task_only h hT (setTask_tasks ..) (fun _ => rfl) rfl rfl hF.symm rfl (by simp [hc.1, Pc.isSession]) (by simp [hc.1]) (by detached_pc h t T hT hc.1)
      · cases hs

theorem core_wake {s s' : State} {t : Tid} (h : InvCore s) (hs : step s (.wake t) = some s') : InvCore s' := by
  simp only [step] at hs
  cases hT : s.tasks t with
  | none => simp [hT] at hs
  | some T =>
    cases hF : T.frames with
    | nil => simp [hT, hF] at hs
    | cons top rest =>
      simp only [hT, hF] at hs
      split at hs
      · next hc =>
        cases hs
        refine core_task_only h hT (setTask_tasks ..) (fun _ => rfl) rfl rfl hF.symm rfl ?_ ?_ ?_
        · rcases hc with hc | hc <;> simp [hc.1, Pc.isSession]
        · rcases hc with hc | hc <;> simp [hc.1]
        · rcases hc with hc | hc <;> detached_pc h t T hT hc.1
      · cases hs

theorem core_gEnter {s s' : State} {t : Tid} (h : InvCore s) (hs : step s (.gEnter t) = some s') : InvCore s' := by
  simp only [step] at hs
  cases hT : s.tasks t with
  | none => simp [hT] at hs
  | some T =>
    simp only [hT] at hs
    split at hs
    · next hc =>
      cases hs
      exact core_task_only h hT (setTask_tasks ..) (fun _ => rfl) rfl rfl rfl rfl (by simp [hc, Pc.isSession]) (by simp [hc]) (by detached_pc h t T hT hc)
    · split at hs
      · next hc =>
        cases hs
        refine core_task_only h hT (setTask_tasks ..) (fun _ => rfl) rfl rfl rfl rfl ?_ (by simp [hc]) (by detached_pc h t T hT hc)
        by_cases hb : T.batch.isSome = true <;> simp [hb, hc, Pc.isSession]
      · cases hs

theorem core_batchNew {s s' : State} {t : Tid} (h : InvCore s) (hs : step s (.batchNew t) = some s') : InvCore s' := by
  simp only [step] at hs
  cases hT : s.tasks t with
  | none => simp [hT] at hs
  | some T =>
    simp only [hT] at hs
    split at hs
    · next hc =>
      cases hs
      exact core_task_only h hT rfl (fun _ => rfl) rfl rfl rfl rfl (by simp [hc.1, Pc.isSession]) (by simp [hc.1]) (by detached_pc h t T hT hc.1)
    · cases hs

theorem core_panic {s s' : State} {t : Tid} (h : InvCore s) (hs : step s (.panic t) = some s') : InvCore s' := by
  simp only [step] at hs
  cases hT : s.tasks t with
  | none => simp [hT] at hs
  | some T =>
    simp only [hT] at hs
    split at hs
    · next hc =>
      cases hs
      exact core_task_only h hT (setTask_tasks ..) (fun _ => rfl) rfl rfl rfl rfl (by simp [hc, Pc.isSession]) (by simp [hc]) (by detached_pc h t T hT hc)
    · cases hs

theorem core_bpUp {s s' : State} {t : Tid} (h : InvCore s) (hs : step s (.bpUp t) = some s') : InvCore s' := by
  simp only [step] at hs
  cases hT : s.tasks t with
  | none => simp [hT] at hs
  | some T =>
    simp only [hT] at hs
    split at hs
    · next hc =>
      split at hs
      · cases hs
        exact core_task_only h hT (setTask_tasks ..) (fun _ => rfl) rfl rfl rfl rfl (by simp [hc.1, Pc.isSession]) (by simp [hc.1]) (by detached_pc h t T hT hc.1)
      · cases hs
        exact core_task_only h hT rfl (fun _ => rfl) rfl rfl rfl rfl (by simp [hc.1, Pc.isSession]) (by simp [hc.1]) (by detached_pc h t T hT hc.1)
    · cases hs

theorem core_sBump {s s' : State} {t : Tid} (h : InvCore s) (hs : step s (.sBump t) = some s') : InvCore s' := by
  simp only [step] at hs
  cases hT : s.tasks t with
  | none => simp [hT] at hs
  | some T =>
    simp only [hT] at hs
    split at hs
    · next hc =>
      cases hs
      refine core_task_only h hT rfl (fun _ => rfl) rfl rfl rfl rfl ?_ ?_ ?_
      · rcases hc with hc | hc <;> simp [hc, Pc.isSession]
      · rcases hc with hc | hc <;> simp [hc]
      · rcases hc with hc | hc
        · detached_pc h t T hT hc.1
        · intro _; simp [hc, Pc.detachable]
    · cases hs

theorem core_sAcquire {s s' : State} {t : Tid} (h : InvCore s) (hs : step s (.sAcquire t) = some s') : InvCore s' := by
  simp only [step] at hs
  cases hT : s.tasks t with
  | none => simp [hT] at hs
  | some T =>
    simp only [hT] at hs
    split at hs
    · next hc =>
      cases hs
      refine core_task_only h hT rfl (fun _ => rfl) rfl rfl rfl rfl ?_ ?_ ?_
      · rcases hc.2.2 with hc | hc <;> simp [hc, Pc.isSession]
      · rcases hc.2.2 with hc | hc <;> simp [hc]
      · rcases hc.2.2 with hc | hc
        · detached_pc h t T hT hc.1
        · detached_pc h t T hT hc
    · cases hs

theorem core_sCommit {s s' : State} {t : Tid} (h : InvCore s) (hs : step s (.sCommit t) = some s') : InvCore s' := by
  simp only [step] at hs
  cases hT : s.tasks t with
  | none => simp [hT] at hs
  | some T =>
    simp only [hT] at hs
    split at hs
    · next hc =>
      cases hs
      exact core_task_only h hT (setTask_tasks ..) (fun _ => rfl) rfl rfl rfl rfl (by simp [hc, Pc.isSession]) (by simp [hc]) (by detached_pc h t T hT hc)
    · cases hs

theorem core_sWrite {s s' : State} {t : Tid} {k : Key} (h : InvCore s) (hs : step s (.sWrite t k) = some s') : InvCore s' := by
  simp only [step] at hs
  cases hT : s.tasks t with
  | none => simp [hT] at hs
  | some T =>
    simp only [hT] at hs
    split at hs
    · cases hs; exact core_same h rfl rfl rfl rfl
    · cases hs

theorem core_sStart {s s' : State} {t : Tid} (h : InvCore s) (hs : step s (.sStart t) = some s') : InvCore s' := by
  simp only [step] at hs
  split at hs
  · next hc =>
    cases hs
    have ho : ∀ t', t' ≠ t → (setTask s t { frames := [], pc := .sInit, batch := none, rd := false, wr := false, detached := false }).tasks t' = s.tasks t' := by
      intro t' ht'; simp [setTask, upd, ht']
    refine core_frame (t := t) h ho ?_ ?_ (Or.inl ⟨{ frames := [], pc := .sInit, batch := none, rd := false, wr := false, detached := false }, ⟨?_, ?_, ?_, ?_, ?_, ?_, ?_, by simp⟩⟩) ?_
    · intro k hk; exact absurd rfl hk
    · intro k hk; exact absurd rfl hk
    · simp [setTask]
    · intro k; simp only [setTask_comp, lockKeys_nil, List.not_mem_nil, iff_false]; exact h.fresh_owner hc.1 k
    · intro k; simp only [setTask_bpl, bpKeys_nil, List.not_mem_nil, iff_false]; exact h.fresh_bp hc.1 k
    · simp
    · simp
    · simp [Pc.isSession]
    · simp
    · refine partial_keep h ho rfl ?_
      intro T0 top rest h0; rw [hc.1] at h0; cases h0
  · cases hs

theorem core_write {s s' : State} {t : Tid} (h : InvCore s) (hs : step s (.write t) = some s') : InvCore s' := by
  simp only [step] at hs
  cases hT : s.tasks t with
  | none => simp [hT] at hs
  | some T =>
    cases hF : T.frames with
    | nil => simp [hT, hF] at hs
    | cons top rest =>
      simp only [hT, hF] at hs
      split at hs
      · next hc =>
        cases hs
        refine ⟨h.compOwner, h.lockEntry, h.bpOwner, h.bpEntry, h.nodup, ?_, h.shape, h.detachedOne, h.detachedPc⟩
        intro k hk
        by_cases hkt : k = top.key
        · exact ⟨t, T, top, rest, hT, hF, hkt.symm, hc⟩
        · simp only [upd, hkt, if_false] at hk
          exact h.partialOwner k hk
      · cases hs

theorem core_submit {s s' : State} {t : Tid} (h : InvCore s) (hs : step s (.submit t) = some s') : InvCore s' := by
  simp only [step] at hs
  cases hT : s.tasks t with
  | none => simp [hT] at hs
  | some T =>
    cases hF : T.frames with
    | nil => simp [hT, hF] at hs
    | cons top rest =>
      cases hB : T.batch with
      | none => simp [hT, hF, hB] at hs
      | some b =>
        simp only [hT, hF, hB] at hs
        split at hs
        · next hc =>
          cases hs
          have ho : ∀ t', t' ≠ t → upd s.tasks t (some { T with frames := top :: rest, pc := Pc.g2, batch := none }) t' = s.tasks t' := by
            intro t' ht'; simp [upd, ht']
          refine core_frame (t := t) h ho ?_ ?_ (Or.inl ⟨{ T with frames := top :: rest, pc := Pc.g2, batch := none }, ⟨?_, ?_, ?_, ?_, ?_, ?_, ?_, by intro _; simp [Pc.detachable]⟩⟩) ?_
          · intro k hk; exact absurd rfl hk
          · intro k hk; exact absurd rfl hk
          · simp [setTask]
          · intro k; show owner s.comp k = some t ↔ k ∈ lockKeys (top :: rest); rw [← hF]; exact h.locks_iff hT k
          · intro k; show s.bpl k = some t ↔ k ∈ bpKeys (top :: rest); rw [← hF]; exact h.bps_iff hT k
          · show (lockKeys (top :: rest)).Nodup; rw [← hF]; exact (h.nodup t T hT).1
          · show (bpKeys (top :: rest)).Nodup; rw [← hF]; exact (h.nodup t T hT).2
          · simp [Pc.isSession]
          · show T.detached = true → (top :: rest).length ≤ 1; rw [← hF]; exact h.detachedOne t T hT
          · intro k hk
            have hkt : k ≠ top.key := by
              intro e; subst e; simp [upd] at hk
            have hk' : s.partialW k ≠ 0 := by simpa [upd, hkt] using hk
            obtain ⟨t0, T0, top0, rest0, a, b', c, d⟩ := h.partialOwner k hk'
            have : t0 ≠ t := by
              intro e; subst e; rw [hT] at a; cases a; rw [hF] at b'; cases b'; exact hkt c.symm
            exact ⟨t0, T0, top0, rest0, by simp [setTask, upd, this]; exact a, b', c, d⟩
        · cases hs

end QbiceVerif.CancelLts
