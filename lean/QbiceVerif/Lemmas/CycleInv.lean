/-
The invariant of the fresh-evaluation cycle model and its preservation by the four state
transformations of `queryFor`: registering a callee, detecting a cycle (marking), taking a computing
lock (push) and publishing a result (pop).
-/
import QbiceVerif.Lemmas.CycleCheck
namespace Qbice.Cycle

/-- edges of a state: recorded reads of completed runs, registered callees of computing ones -/
def Edge (st : St) (a b : Key) : Prop :=
  (∃ d ∈ st.memo, d.key = a ∧ b ∈ d.reads) ∨ (∃ f ∈ st.stack, f.key = a ∧ b ∈ f.callees)

def MarkedKey (s : List Frame) (x : Key) : Prop := ∃ f ∈ s, f.key = x ∧ f.inScc = true

def NoMarks (s : List Frame) : Prop := ∀ f ∈ s, f.inScc = false

/-- marked frames are the topmost ones -/
def MarkPrefix (s : List Frame) : Prop :=
  ∃ a b, s = a ++ b ∧ (∀ f ∈ a, f.inScc = true) ∧ (∀ f ∈ b, f.inScc = false)

/-- the top frame: every registered callee is computed, or (only once the frame is marked) is a
    marked computing query — the target of its cyclic read -/
def TopOK (M : List Key) (s : List Frame) (top : Frame) : Prop :=
  ∀ x ∈ top.callees, x ∈ M ∨ (top.inScc = true ∧ MarkedKey s x)

def StackOK (M : List Key) : List Frame → Prop
  | [] => True
  | top :: r => TopOK M (top :: r) top ∧ ChainBelow M top.key r

def Closed (m : List Done) : Prop := ∀ e ∈ m, ∀ r ∈ e.reads, r ∈ mkeys m

/-- `k` is asked on some path through the executor -/
inductive MayAsk : Prog → Key → Prop
  | here (k : Key) (cont : Val → Prog) : MayAsk (.ask k cont) k
  | there (k : Key) (cont : Val → Prog) (v : Val) (x : Key) : MayAsk (cont v) x → MayAsk (.ask k cont) x

def progOf (p : Program) (k : Key) : Prog := (p[k]?.map (·.prog)).getD (.ret 0)
def dfltOf (p : Program) (k : Key) : Val := (p[k]?.map (·.dflt)).getD 0

/-- per-entry facts of the memo (newest first): a marked entry has its default; an unmarked entry
    read only entries that were complete before it, at a moment when the memo was closed under
    reads, and its value is its executor over their values -/
def MemoOK (p : Program) : List Done → Prop
  | [] => True
  | d :: tail => MemoOK p tail ∧
      (∀ r ∈ d.reads, MayAsk (progOf p d.key) r) ∧
      (d.marked = true → d.val = dfltOf p d.key) ∧
      (d.marked = false → (∀ r ∈ d.reads, r ∈ mkeys tail) ∧ Closed tail ∧
          evalWith (valOf tail) (progOf p d.key) = some d.val ∧
          (∀ r ∈ asksWith (valOf tail) (progOf p d.key), r ∈ d.reads))

structure Inv (p : Program) (st : St) : Prop where
  nodup : (keys st.stack ++ mkeys st.memo).Nodup
  bound : ∀ x ∈ keys st.stack ++ mkeys st.memo, x < p.length
  stackOK : StackOK (mkeys st.memo) st.stack
  marks : MarkPrefix st.stack
  memoEdges : ∀ d ∈ st.memo, ∀ r ∈ d.reads, r ∈ mkeys st.memo ∨ MarkedKey st.stack r
  memoOK : MemoOK p st.memo
  frameAsk : ∀ f ∈ st.stack, ∀ x ∈ f.callees, MayAsk (progOf p f.key) x
  cycF : ∀ f ∈ st.stack, f.inScc = true → OnCycle (Edge st) f.key
  cycM : ∀ d ∈ st.memo, d.marked = true → OnCycle (Edge st) d.key

theorem inv_empty (p : Program) : Inv p {} where
  nodup := by simp [keys, mkeys]
  bound := by simp [keys, mkeys]
  stackOK := trivial
  marks := ⟨[], [], rfl, by simp, by simp⟩
  memoEdges := by simp
  memoOK := trivial
  frameAsk := by simp
  cycF := by simp
  cycM := by simp

-- ------------------------------------------------------------------ small facts

theorem NoMarks.markPrefix {s : List Frame} (h : NoMarks s) : MarkPrefix s :=
  ⟨[], s, rfl, by simp, h⟩

theorem NoMarks.not_markedKey {s : List Frame} (h : NoMarks s) (x : Key) : ¬ MarkedKey s x := by
  rintro ⟨f, hf, _, hm⟩
  rw [h f hf] at hm
  exact Bool.noConfusion hm

theorem MarkPrefix.tail {f : Frame} {r : List Frame} (h : MarkPrefix (f :: r)) : MarkPrefix r := by
  obtain ⟨a, b, hab, ha, hb⟩ := h
  cases a with
  | nil =>
    simp only [List.nil_append] at hab
    subst hab
    exact ⟨[], r, rfl, by simp, fun g hg => hb g (List.mem_cons_of_mem _ hg)⟩
  | cons a0 a' =>
    simp only [List.cons_append, List.cons.injEq] at hab
    exact ⟨a', b, hab.2, fun g hg => ha g (List.mem_cons_of_mem _ hg), hb⟩

theorem MarkPrefix.noMarks_of_head {f : Frame} {r : List Frame} (h : MarkPrefix (f :: r))
    (hf : f.inScc = false) : NoMarks (f :: r) := by
  obtain ⟨a, b, hab, ha, hb⟩ := h
  cases a with
  | nil =>
    simp only [List.nil_append] at hab
    rw [hab]; exact hb
  | cons a0 a' =>
    simp only [List.cons_append, List.cons.injEq] at hab
    have := ha a0 (by simp)
    rw [← hab.1, hf] at this
    exact Bool.noConfusion this

theorem chainBelow_of_shape_cons {M : List Key} {f f' : Frame} {r r' : List Frame}
    (h : shape (f :: r) = shape (f' :: r')) (hc : ChainBelow M f.key r) : ChainBelow M f'.key r' := by
  simp only [shape, List.map_cons, List.cons.injEq, Prod.mk.injEq] at h
  rw [← h.1.1]
  exact chainBelow_shape r r' f.key h.2 hc

theorem mem_keys_of_mem {s : List Frame} {f : Frame} (h : f ∈ s) : f.key ∈ keys s :=
  List.mem_map_of_mem h

theorem mem_mkeys_of_mem {m : List Done} {d : Done} (h : d ∈ m) : d.key ∈ mkeys m :=
  List.mem_map_of_mem h

theorem progOf_eq {p : Program} {k : Key} {nd : NodeDef} (h : p[k]? = some nd) : progOf p k = nd.prog := by
  simp [progOf, h]

theorem dfltOf_eq {p : Program} {k : Key} {nd : NodeDef} (h : p[k]? = some nd) : dfltOf p k = nd.dflt := by
  simp [dfltOf, h]

/-- along a chain every frame has an edge to the frame above it: paths from the lowest frame up -/
theorem chain_paths {M : List Key} {E : Key → Key → Prop} :
    ∀ (mid : List Frame) (g : Frame) (child : Key), ChainBelow M child (mid ++ [g]) →
      (∀ f ∈ mid ++ [g], ∀ x ∈ f.callees, E f.key x) →
      ∀ f ∈ mid ++ [g], ∃ ch, E f.key ch ∧ Path E ch child ∧ Path E g.key f.key := by
  intro mid
  induction mid with
  | nil =>
    intro g child hc hE f hf
    simp only [List.nil_append, List.mem_singleton] at hf
    subst hf
    simp only [List.nil_append, ChainBelow] at hc
    exact ⟨child, hE f (by simp) child hc.1, .refl _, .refl _⟩
  | cons f1 mid' ih =>
    intro g child hc hE f hf
    simp only [List.cons_append, ChainBelow] at hc
    have hE' : ∀ f ∈ mid' ++ [g], ∀ x ∈ f.callees, E f.key x :=
      fun f hf => hE f (by simp only [List.cons_append]; exact List.mem_cons_of_mem _ hf)
    have IH := ih g f1.key hc.2.2 hE'
    have e1 : E f1.key child := hE f1 (by simp) child hc.1
    rw [List.cons_append] at hf
    rcases List.mem_cons.1 hf with rfl | hf'
    · obtain ⟨ch, e, pth, _⟩ := IH g (by simp)
      exact ⟨child, e1, .refl _, .head e pth⟩
    · obtain ⟨ch, e, pth, pg⟩ := IH f hf'
      exact ⟨ch, e, pth.tail e1, pg⟩

end Qbice.Cycle
