/-
Byte-level lemmas for the C13 model: little-endian encodings are fixed-width and injective,
integers in range are determined by their residue, float canonicalisation is idempotent.
-/
import QbiceVerif.Model.Hash

namespace QbiceVerif.Hash

theorem le_length (k n : Nat) : (le k n).length = k := by
  induction k generalizing n with
  | zero => rfl
  | succ k ih => simp [le, ih]

theorem u8_ofNat_inj {a b : Nat} (h : UInt8.ofNat (a % 256) = UInt8.ofNat (b % 256)) :
    a % 256 = b % 256 := by
  have h' := congrArg UInt8.toNat h
  simp [UInt8.toNat_ofNat'] at h'
  omega

/-- fixed-width little-endian encodings are uniquely decodable -/
theorem le_append_inj {k a b : Nat} {r1 r2 : Bytes} (h : le k a ++ r1 = le k b ++ r2) :
    a % 256 ^ k = b % 256 ^ k ∧ r1 = r2 := by
  induction k generalizing a b with
  | zero => simpa [le, Nat.mod_one] using h
  | succ k ih =>
    simp only [le, List.cons_append, List.cons.injEq] at h
    obtain ⟨h0, h1⟩ := h
    have h0 := u8_ofNat_inj h0
    obtain ⟨h2, h3⟩ := ih h1
    refine ⟨?_, h3⟩
    rw [Nat.pow_succ', Nat.mod_mul, Nat.mod_mul, h0, h2]

theorem le_inj_of_lt {k a b : Nat} {r1 r2 : Bytes} (ha : a < 256 ^ k) (hb : b < 256 ^ k)
    (h : le k a ++ r1 = le k b ++ r2) : a = b ∧ r1 = r2 := by
  obtain ⟨h1, h2⟩ := le_append_inj h
  rw [Nat.mod_eq_of_lt ha, Nat.mod_eq_of_lt hb] at h1
  exact ⟨h1, h2⟩

theorem canonF32_idem (b : Nat) : canonF32 (canonF32 b) = canonF32 b := by
  unfold canonF32; split <;> simp_all

theorem canonF64_idem (b : Nat) : canonF64 (canonF64 b) = canonF64 b := by
  unfold canonF64; split <;> simp_all

theorem canonF32_lt {b : Nat} (h : b < 2 ^ 32) : canonF32 b < 256 ^ 4 := by
  unfold canonF32; split <;> omega

theorem canonF64_lt {b : Nat} (h : b < 2 ^ 64) : canonF64 b < 256 ^ 8 := by
  unfold canonF64; split <;> omega

/-- an integer in the range of its type is determined by its two's-complement bit pattern -/
theorem int_pattern_inj {s : Bool} {w : IntW} {i j : Int}
    (hi : intInRange s w i = true) (hj : intInRange s w j = true)
    (h : (i % (2 : Int) ^ (8 * w.bytes)).toNat % 256 ^ w.bytes
       = (j % (2 : Int) ^ (8 * w.bytes)).toNat % 256 ^ w.bytes) : i = j := by
  unfold intInRange at hi hj
  cases w <;> cases s <;> simp [IntW.bytes] at hi hj h <;>
    first
    | omega
    | (have hi := of_decide_eq_true hi; have hj := of_decide_eq_true hj; omega)

end QbiceVerif.Hash
