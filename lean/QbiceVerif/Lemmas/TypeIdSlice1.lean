/-
Slice 1 of the generated universe (Gen/TypeIdTable.lean): every type has an id and the id keys
ascend strictly from `sliceBound1` to below `sliceBound2`.  A finite table, proved whole by kernel
evaluation; one module per slice so that lake checks the slices in parallel.
-/
import QbiceVerif.Gen.TypeIdTable

namespace QbiceVerif.TypeId
open Gen

theorem slice1_ok : sliceCheck ctorTable sliceBound1 slice1 = some sliceBound2 := by
  decide +kernel

end QbiceVerif.TypeId
