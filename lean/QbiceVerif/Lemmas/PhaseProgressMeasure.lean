import QbiceVerif.Lemmas.PhaseLockStep

/-!
# C04 progress — the measure, and: every step strictly decreases it

`mu s n` = (the number of events the tasks `< n` still have to perform, an event that adds a queue
entry counted twice, the three commit steps of a session that is not open yet pre-paid by its writer)
+ (the commit steps the open session still has to perform) + (the length of the lock's queue).
-/

namespace QbiceVerif.Phase.Prog

def kindCost : CommitKind → Nat
  | .commit => 1
  | .drop => 0

def opCost : Op → Nat
  | .round ks => ks.length + 5
  | .session sets kind => sets.length + 14 + kindCost kind

def scriptCost : List Op → Nat
  | [] => 0
  | op :: rest => opCost op + scriptCost rest

def pcCost : Pc → Nat
  | .idle => 0
  | .rWait ks => ks.length + 3
  | .rLocked ks => ks.length + 2
  | .rActive _ ks => ks.length + 1
  | .wOpen i _ sets kind => 2 * (5 - i) + sets.length + 4 + kindCost kind
  | .wActive sets kind => sets.length + 1 + kindCost kind
  | .wCommitting => 1

/-- events the task still has to perform (weighted) -/
def tm (x : Task) : Nat := pcCost x.pc + scriptCost x.script

/-- commit steps the open session still has to perform -/
def sm : Option Sess → Nat
  | none => 0
  | some σ => match σ.pc with
    | .active => 3
    | .begun => 3
    | .propagated => 2
    | .submitted => 1

def sumT (f : Nat → Task) : Nat → Nat
  | 0 => 0
  | n + 1 => sumT f n + tm (f n)

/-- the progress measure -/
def _root_.QbiceVerif.Phase.mu (s : State) (n : Nat) : Nat := sumT s.tasks n + sm s.sess + s.lock.queue.length

theorem sumT_upd_ge (f : Nat → Task) (t : Nat) (x : Task) (n : Nat) (h : n ≤ t) :
    sumT (upd f t x) n = sumT f n := by
  induction n with
  | zero => rfl
  | succ n ih =>
    have : n ≠ t := by omega
    simp [sumT, ih (by omega), upd_other f x this]

theorem sumT_upd_lt (f : Nat → Task) (t : Nat) (x : Task) (n : Nat) (h : t < n) :
    sumT (upd f t x) n + tm (f t) = sumT f n + tm x := by
  induction n with
  | zero => omega
  | succ n ih =>
    by_cases hn : t = n
    · subst hn
      simp [sumT, sumT_upd_ge f t x t (Nat.le_refl _)]; omega
    · have h1 : n ≠ t := fun h' => hn h'.symm
      have := ih (by omega)
      simp only [sumT, upd_other f x h1]; omega

theorem mu_lt_of_upd {s s' : State} {t : Nat} {x : Task} {n : Nat}
    (htasks : s'.tasks = upd s.tasks t x) (ht : t < n)
    (h : tm x + sm s'.sess + s'.lock.queue.length < tm (s.tasks t) + sm s.sess + s.lock.queue.length) :
    mu s' n < mu s n := by
  have := sumT_upd_lt s.tasks t x n ht
  simp only [mu, htasks]; omega

theorem mu_lt_of_same {s s' : State} {n : Nat}
    (htasks : s'.tasks = s.tasks)
    (h : sm s'.sess + s'.lock.queue.length < sm s.sess + s.lock.queue.length) :
    mu s' n < mu s n := by
  simp only [mu, htasks]; omega

/-! ## tasks `≥ n` are inert -/

def Inert (s : State) (n : Nat) : Prop := ∀ t, n ≤ t → s.tasks t = ⟨.idle, []⟩

theorem inert_init (e0 : Nat) (inp : Inputs) (scripts : List (List Op)) :
    Inert (init e0 inp scripts) scripts.length := by
  intro t ht
  simp [init, List.getD, List.getElem?_eq_none ht]

theorem Inert.lt_of_pc {s : State} {n : Nat} (h : Inert s n) {t : Nat} (hpc : (s.tasks t).pc ≠ .idle) :
    t < n := by
  apply Decidable.byContradiction; intro hn
  exact hpc (by rw [h t (by omega)])

theorem Inert.lt_of_script {s : State} {n : Nat} (h : Inert s n) {t : Nat}
    (hs : (s.tasks t).script ≠ []) : t < n := by
  apply Decidable.byContradiction; intro hn
  exact hs (by rw [h t (by omega)])

theorem Inert.upd {s s' : State} {n : Nat} (h : Inert s n) {t : Nat} {x : Task}
    (htasks : s'.tasks = upd s.tasks t x) (ht : t < n) : Inert s' n := by
  intro t' ht'
  have : t' ≠ t := by omega
  rw [htasks, upd_other _ _ this]; exact h t' ht'

theorem Inert.same {s s' : State} {n : Nat} (h : Inert s n) (htasks : s'.tasks = s.tasks) : Inert s' n := by
  intro t' ht'; rw [htasks]; exact h t' ht'

theorem openPos_ne {x : Task} {i e : Nat} {sets : List (Key × Val)} {kind : CommitKind} {rest : List Op}
    (h : openPos x = some (i, e, sets, kind, rest)) : x.pc ≠ .idle ∨ x.script ≠ [] := by
  rcases openPos_eq h with ⟨_, h2, _, _⟩ | ⟨h1, _⟩
  · right; simp [h2]
  · left; simp [h1]

/-- the acting task of an event that changes a task is `< n`; the tasks `≥ n` stay inert -/
theorem step_inert {c : Cfg} {s s' : State} {ev : Ev} {n : Nat} (hi : Inert s n)
    (h : step c s ev = some s') : Inert s' n := by
  cases ev with
  | rReq t =>
    obtain ⟨ks, rest, h1, h2, h3, -⟩ := step_rReq h
    exact hi.upd h3 (hi.lt_of_script (by simp [h2]))
  | grant t => exact hi.same (step_grant h).2.1
  | rAcq t =>
    obtain ⟨ks, h1, -, -, h3, -⟩ := step_rAcq h
    exact hi.upd h3 (hi.lt_of_pc (by simp [h1]))
  | rSample t e =>
    obtain ⟨ks, h1, h3, -⟩ := step_rSample h
    exact hi.upd h3 (hi.lt_of_pc (by simp [h1]))
  | rQuery t k v =>
    obtain ⟨e, isIn, ks, h1, h3, -⟩ := step_rQuery h
    exact hi.upd h3 (hi.lt_of_pc (by simp [h1]))
  | rRel t =>
    obtain ⟨e, h1, h3, -⟩ := step_rRel h
    exact hi.upd h3 (hi.lt_of_pc (by simp [h1]))
  | wStep t st e =>
    obtain ⟨i, e0, sets, kind, rest, e', h1, -, h3, -⟩ := step_wStep h
    rcases openPos_ne h1 with h2 | h2
    · exact hi.upd h3 (hi.lt_of_pc h2)
    · exact hi.upd h3 (hi.lt_of_script h2)
  | wSet t k v =>
    obtain ⟨sets, kind, σ, σ', h1, -, -, -, h3, -⟩ := step_wSet h
    exact hi.upd h3 (hi.lt_of_pc (by simp [h1]))
  | wCommit t =>
    obtain ⟨σ, h1, -, -, -, h3, -⟩ := step_wCommit h
    exact hi.upd h3 (hi.lt_of_pc (by simp [h1]))
  | wDrop t =>
    obtain ⟨σ, h1, -, -, -, h3, -⟩ := step_wDrop h
    exact hi.upd h3 (hi.lt_of_pc (by simp [h1]))
  | cPropagate t => obtain ⟨σ, -, -, -, h3, -⟩ := step_cPropagate h; exact hi.same h3
  | cSubmit t => obtain ⟨σ, -, -, -, h3, -⟩ := step_cSubmit h; exact hi.same h3
  | cRel t => obtain ⟨σ, -, -, -, h3, -⟩ := step_cRel h; exact hi.same h3
  | wDone t =>
    obtain ⟨h1, h3, -⟩ := step_wDone h
    exact hi.upd h3 (hi.lt_of_pc (by simp [h1]))

theorem reachable_inert {c : Cfg} {e0 : Nat} {inp : Inputs} {scripts : List (List Op)} {s : State}
    (h : Reachable c (init e0 inp scripts) s) : Inert s scripts.length := by
  induction h with
  | init => exact inert_init e0 inp scripts
  | step e _ hs ih => exact step_inert ih hs

/-! ## every step decreases the measure -/

theorem tm_eq (x : Task) {pc : Pc} {sc : List Op} (h1 : x.pc = pc) (h2 : x.script = sc) :
    tm x = pcCost pc + scriptCost sc := by simp [tm, h1, h2]

theorem tm_openTask_lt {x : Task} {i e e' : Nat} {sets : List (Key × Val)} {kind : CommitKind}
    {rest : List Op} (h : openPos x = some (i, e, sets, kind, rest)) (hi : i < 5) :
    tm (openTask (i + 1) e' sets kind rest) + (if i + 1 < 5 then 2 else 5) ≤ tm x := by
  have hx : tm x = 2 * (5 - i) + sets.length + 4 + kindCost kind + scriptCost rest := by
    rcases openPos_eq h with ⟨h1, h2, h3, _⟩ | ⟨h1, h2⟩
    · rw [tm_eq x h1 h2, h3]; simp [pcCost, scriptCost, opCost]; omega
    · rw [tm_eq x h1 h2]; simp [pcCost]
  rw [hx]
  unfold openTask
  split <;> simp [tm, pcCost] <;> omega

theorem sm_le (σ : Option Sess) : sm σ ≤ 3 := by
  unfold sm; split
  · omega
  · split <;> omega

theorem step_mu_lt {c : Cfg} {s s' : State} {ev : Ev} {n : Nat} (hi : Inert s n)
    (h : step c s ev = some s') : mu s' n < mu s n := by
  cases ev with
  | rReq t =>
    obtain ⟨ks, rest, h1, h2, h3, h4, h5⟩ := step_rReq h
    refine mu_lt_of_upd h3 (hi.lt_of_script (by simp [h2])) ?_
    rw [tm_eq _ h1 h2, h4, h5]
    simp [tm, pcCost, scriptCost, opCost]; omega
  | grant t =>
    obtain ⟨hg, h3, h4, h5⟩ := step_grant h
    obtain ⟨x, hx, -⟩ := grantable_want hg
    have := grant_queue_length (l := s.lock) (t := t) (by simp [hx])
    exact mu_lt_of_same h3 (by rw [h4, h5]; omega)
  | rAcq t =>
    obtain ⟨ks, h1, -, -, h3, h4, h5⟩ := step_rAcq h
    refine mu_lt_of_upd h3 (hi.lt_of_pc (by simp [h1])) ?_
    rw [tm_eq _ h1 rfl, h4, h5]; simp [tm, pcCost]
  | rSample t e =>
    obtain ⟨ks, h1, h3, h4, h5⟩ := step_rSample h
    refine mu_lt_of_upd h3 (hi.lt_of_pc (by simp [h1])) ?_
    rw [tm_eq _ h1 rfl, h4, h5]; simp [tm, pcCost]
  | rQuery t k v =>
    obtain ⟨e, isIn, ks, h1, h3, h4, h5⟩ := step_rQuery h
    refine mu_lt_of_upd h3 (hi.lt_of_pc (by simp [h1])) ?_
    rw [tm_eq _ h1 rfl, h4, h5]; simp [tm, pcCost]
  | rRel t =>
    obtain ⟨e, h1, h3, -, -, h4, h5⟩ := step_rRel h
    refine mu_lt_of_upd h3 (hi.lt_of_pc (by simp [h1])) ?_
    rw [tm_eq _ h1 rfl, h4, h5]; simp [tm, pcCost]
  | wStep t st e =>
    obtain ⟨i, e0, sets, kind, rest, e', h1, h2, h3, h4, h5, -⟩ := step_wStep h
    have hlt : t < n := by
      rcases openPos_ne h1 with h2 | h2
      · exact hi.lt_of_pc h2
      · exact hi.lt_of_script h2
    have hi5 := (openOrder_get c h2).1
    have hm := tm_openTask_lt (e' := e') h1 hi5
    refine mu_lt_of_upd h3 hlt ?_
    have hq : s'.lock.queue.length ≤ s.lock.queue.length + 1 := by
      rw [h4]; split <;> simp
    have := sm_le s.sess
    by_cases h6 : i + 1 < 5
    · simp only [h6, if_true] at hm h5
      rw [h5]; omega
    · simp only [h6, if_false] at hm h5
      rw [h5]; simp only [sm, newSess]; omega
  | wSet t k v =>
    obtain ⟨sets, kind, σ, σ', h1, h2, h3, h4, h5, h6, h7, h8, h9⟩ := step_wSet h
    refine mu_lt_of_upd h5 (hi.lt_of_pc (by simp [h1])) ?_
    rw [tm_eq _ h1 rfl, h6, h7, h2]; simp [tm, pcCost, sm, h4, h9]
  | wCommit t =>
    obtain ⟨σ, h1, h2, h3, h4, h5, h6, h7⟩ := step_wCommit h
    refine mu_lt_of_upd h5 (hi.lt_of_pc (by simp [h1])) ?_
    rw [tm_eq _ h1 rfl, h6, h7, h2]; simp [tm, pcCost, sm, h4, kindCost]
  | wDrop t =>
    obtain ⟨σ, h1, h2, h3, h4, h5, h6, h7⟩ := step_wDrop h
    refine mu_lt_of_upd h5 (hi.lt_of_pc (by simp [h1])) ?_
    rw [tm_eq _ h1 rfl, h6, h7, h2]; simp [tm, pcCost, sm, h4, kindCost]
  | cPropagate t =>
    obtain ⟨σ, h1, -, h2, h3, h4, h5⟩ := step_cPropagate h
    exact mu_lt_of_same h3 (by rw [h4, h5, h1]; simp [sm, h2])
  | cSubmit t =>
    obtain ⟨σ, h1, -, h2, h3, h4, h5⟩ := step_cSubmit h
    exact mu_lt_of_same h3 (by rw [h4, h5, h1]; simp [sm, h2])
  | cRel t =>
    obtain ⟨σ, h1, -, h2, h3, -, -, h4, h5⟩ := step_cRel h
    exact mu_lt_of_same h3 (by rw [h4, h5, h1]; simp [sm, h2])
  | wDone t =>
    obtain ⟨h1, h3, h4, h5⟩ := step_wDone h
    refine mu_lt_of_upd h3 (hi.lt_of_pc (by simp [h1])) ?_
    rw [tm_eq _ h1 rfl, h4, h5]; simp [tm, pcCost]

theorem reachable_step_mu_lt {c : Cfg} {e0 : Nat} {inp : Inputs} {scripts : List (List Op)} {s s' : State}
    {ev : Ev} (hr : Reachable c (init e0 inp scripts) s) (h : step c s ev = some s') :
    mu s' scripts.length < mu s scripts.length :=
  step_mu_lt (reachable_inert hr) h

theorem run_mu_bound {c : Cfg} {n : Nat} (evs : List Ev) :
    ∀ (s1 s : State), Inert s1 n → run c s1 evs = some s → evs.length + mu s n ≤ mu s1 n := by
  induction evs with
  | nil => intro s1 s _ h; simp [run] at h; subst h; simp
  | cons e es ih =>
    intro s1 s hi h
    simp only [run] at h
    cases hs : step c s1 e with
    | none => simp [hs] at h
    | some s2 =>
      simp only [hs] at h
      have h1 := ih s2 s (step_inert hi hs) h
      have h2 := step_mu_lt hi hs
      simp only [List.length_cons]; omega

end QbiceVerif.Phase.Prog
