/-
Slice 5 of the generated universe (Gen/TypeIdTable.lean): every type has an id and the id keys
ascend strictly from `sliceBound5` to below `sliceBound6`.  A finite table, proved whole by kernel
evaluation; one module per slice so that lake checks the slices in parallel.
-/
import QbiceVerif.Gen.TypeIdTable

namespace QbiceVerif.TypeId
open Gen

theorem slice5_ok : sliceCheck ctorTable sliceBound5 slice5 = some sliceBound6 := by
  decide +kernel

end QbiceVerif.TypeId
