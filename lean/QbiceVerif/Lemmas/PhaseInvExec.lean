import QbiceVerif.Lemmas.PhaseInvFix

/-!
# C04 — the invariant of the repaired opening order, executor-dependent part (`ExecLocal`)

`clean`: a node without a dirty edge holds the executor's result on the stored inputs (on the inputs at
the start of the session while a session is being written / until dirty propagation ran).
`stamp`: every node holds the executor's result on the inputs of the epoch it is stamped with.
-/

namespace QbiceVerif.Phase

/-- the inputs the clean nodes are up to date with -/
def refInputs (s : State) : Inputs :=
  match s.sess with
  | some σ => if σ.pc = .active ∨ σ.pc = .begun then σ.base else s.inputs
  | none => s.inputs

structure InvExec (c : Cfg) (s : State) : Prop where
  clean : ∀ k n, s.nodes k = some n → n.dirty = false → (n.val, n.reads) = c.exec k (refInputs s)
  stamp : ∀ k n, s.nodes k = some n → (n.val, n.reads) = c.exec k (snapshot s.base s.done n.ver)

theorem invExec_frame {c : Cfg} {s s' : State} (inv : InvExec c s) (h1 : s'.nodes = s.nodes)
    (h2 : refInputs s' = refInputs s) (h3 : s'.base = s.base) (h4 : s'.done = s.done) :
    InvExec c s' := by
  constructor
  · intro k n hn hd; rw [h2]; rw [h1] at hn; exact inv.clean k n hn hd
  · intro k n hn; rw [h3, h4]; rw [h1] at hn; exact inv.stamp k n hn

theorem invExec_rQueryD {c : Cfg} {s : State} (ib : InvBase c s) (hlf : c.lockFirst = true)
    (ifx : InvFix s) (inv : InvExec c s) (t : Tid) (e : Nat) (k : Key) (ks : List (Bool × Key))
    (hpc : (s.tasks t).pc = .rActive e ((false, k) :: ks)) :
    InvExec c ⟨s.epoch, s.lock, upd s.tasks t ⟨.rActive e ks, (s.tasks t).script⟩, s.inputs,
      (query c s.inputs s.nodes e k).2, s.sess, s.done, s.base⟩ := by
  have he := ifx.actE t e _ hpc
  obtain ⟨hsn, -⟩ := reader_quiet ib hlf t (ib.heldA t e _ hpc)
  have hin : s.inputs = snapshot s.base s.done e := by
    rw [he, snapshot_all _ _ _ ifx.doneLe]; exact ifx.inpNone hsn
  have href : refInputs s = s.inputs := by simp [refInputs, hsn]
  constructor
  · intro k' n' hn hd
    show _ = c.exec k' (refInputs s)
    rcases query_spec c s.inputs s.nodes e k k' n' hn with h | ⟨hk, hv, hd', h | ⟨n, hn0, hd0, h1, h2⟩⟩
    · exact inv.clean k' n' h hd
    · rw [href, hk]; exact h
    · rw [hk, h1, h2]; exact inv.clean k n hn0 hd0
  · intro k' n' hn
    show _ = c.exec k' (snapshot s.base s.done n'.ver)
    rcases query_spec c s.inputs s.nodes e k k' n' hn with h | ⟨hk, hv, hd', h | ⟨n, hn0, hd0, h1, h2⟩⟩
    · exact inv.stamp k' n' h
    · rw [hv, ← hin, hk]; exact h
    · rw [hv, ← hin, hk, h1, h2, ← href]; exact inv.clean k n hn0 hd0

theorem invExec_cPropagate {c : Cfg} {s : State} (hex : ExecLocal c.exec) (ifx : InvFix s)
    (inv : InvExec c s) (σ : Sess) (hs : s.sess = some σ) (hp : σ.pc = .begun) :
    InvExec c ⟨s.epoch, s.lock, s.tasks, s.inputs, markDirty s.nodes σ.batch,
      some { σ with pc := .propagated }, s.done, s.base⟩ := by
  have href : refInputs s = σ.base := by simp [refInputs, hs, hp]
  constructor
  · intro k n' hn hd
    show _ = c.exec k s.inputs
    obtain ⟨n, hn0, -, h1, h2, h3⟩ := markDirty_spec _ _ _ _ hn
    obtain ⟨hd0, hnb⟩ := h3 hd
    have hc := inv.clean k n hn0 hd0
    rw [href] at hc
    rw [h1, h2, hc]
    symm
    apply hex k σ.base s.inputs
    intro r hr
    rw [← hc] at hr
    have := hnb r hr
    by_cases heq : s.inputs r = σ.base r
    · exact heq.symm
    · exact absurd (ifx.batch σ hs r heq) this
  · intro k n' hn
    show _ = c.exec k (snapshot s.base s.done n'.ver)
    obtain ⟨n, hn0, hv, h1, h2, -⟩ := markDirty_spec _ _ _ _ hn
    rw [h1, h2, hv]; exact inv.stamp k n hn0

theorem invExec_cRel {c : Cfg} {s : State} (ifx : InvFix s) (inv : InvExec c s) (σ : Sess)
    (hs : s.sess = some σ) (hp : σ.pc = .submitted) (l : Lock) :
    InvExec c ⟨s.epoch, l, s.tasks, s.inputs, s.nodes, none, s.done ++ [(σ.epoch, σ.writes)],
      s.base⟩ := by
  have href : refInputs s = s.inputs := by simp [refInputs, hs, hp]
  constructor
  · intro k n hn hd
    show _ = c.exec k s.inputs
    rw [← href]; exact inv.clean k n hn hd
  · intro k n hn
    show _ = c.exec k (snapshot s.base (s.done ++ [(σ.epoch, σ.writes)]) n.ver)
    rw [snapshot_snoc_gt _ _ _ _ _ (by rw [ifx.sessE σ hs]; exact ifx.verLtS σ hs k n hn)]
    exact inv.stamp k n hn

theorem InvExec.step {c : Cfg} {s s' : State} {ev : Ev} (ib : InvBase c s) (hlf : c.lockFirst = true)
    (hex : ExecLocal c.exec) (ifx : InvFix s) (inv : InvExec c s) (h : StepR c s ev s') :
    InvExec c s' := by
  cases h with
  | rReq t ks rest hpc hsc => exact invExec_frame inv rfl rfl rfl rfl
  | grantR t hw hwr => exact invExec_frame inv rfl rfl rfl rfl
  | grantW t hw hrd hwr => exact invExec_frame inv rfl rfl rfl rfl
  | rAcq t ks hpc hmem hw => exact invExec_frame inv rfl rfl rfl rfl
  | rSample t ks hpc => exact invExec_frame inv rfl rfl rfl rfl
  | rQueryIn t e k ks hpc => exact invExec_frame inv rfl rfl rfl rfl
  | rQueryD t e k ks hpc => exact invExec_rQueryD ib hlf ifx inv t e k ks hpc
  | rRel t e hpc => exact invExec_frame inv rfl rfl rfl rfl
  | wStep t st e i e0 sets kind rest hpos hord hside =>
    rw [hlf] at hord
    rcases openOrder_true i st hord with ⟨hi, hst⟩ | ⟨hi, hst⟩ | ⟨hi, hst⟩ | ⟨hi, hst⟩ | ⟨hi, hst⟩ <;>
      subst hi <;> subst hst
    · exact invExec_frame inv rfl rfl rfl rfl
    · exact invExec_frame inv rfl rfl rfl rfl
    · exact invExec_frame inv rfl rfl rfl rfl
    · exact invExec_frame inv rfl rfl rfl rfl
    · have hsn := (ib.open_holds hlf t 4 e0 sets kind (openPos_pos hpos (by omega)) (by omega)).2.1
      refine invExec_frame inv rfl ?_ rfl rfl
      show (if SPc.active = .active ∨ SPc.active = .begun then s.inputs else s.inputs) = refInputs s
      simp [refInputs, hsn]
  | wSet t k v sets kind σ hpc hs ho hp =>
    refine invExec_frame inv rfl ?_ rfl rfl
    show (if σ.pc = .active ∨ σ.pc = .begun then σ.base else upd s.inputs k v) = refInputs s
    simp [refInputs, hs, hp]
  | wCommit t σ hpc hs ho hp =>
    refine invExec_frame inv rfl ?_ rfl rfl
    show (if SPc.begun = .active ∨ SPc.begun = .begun then σ.base else s.inputs) = refInputs s
    simp [refInputs, hs, hp]
  | wDrop t σ hpc hs ho hp =>
    refine invExec_frame inv rfl ?_ rfl rfl
    show (if SPc.begun = .active ∨ SPc.begun = .begun then σ.base else s.inputs) = refInputs s
    simp [refInputs, hs, hp]
  | cPropagate t σ hs ho hp => exact invExec_cPropagate hex ifx inv σ hs hp
  | cSubmit t σ hs ho hp =>
    refine invExec_frame inv rfl ?_ rfl rfl
    show (if SPc.submitted = .active ∨ SPc.submitted = .begun then σ.base else s.inputs) = refInputs s
    simp [refInputs, hs, hp]
  | cRel t σ hs ho hp => exact invExec_cRel ifx inv σ hs hp _
  | wDone t hpc => exact invExec_frame inv rfl rfl rfl rfl

theorem InvExec.init (c : Cfg) (e0 : Nat) (inp : Inputs) (scripts : List (List Op)) :
    InvExec c (init e0 inp scripts) := by
  constructor <;> simp [Phase.init]

theorem invExec_of_reachable {c : Cfg} {e0 : Nat} {inp : Inputs} {scripts : List (List Op)} {s : State}
    (hlf : c.lockFirst = true) (hex : ExecLocal c.exec) (h : Reachable c (init e0 inp scripts) s) :
    InvBase c s ∧ InvFix s ∧ InvExec c s := by
  induction h with
  | init => exact ⟨InvBase.init c e0 inp scripts, InvFix.init e0 inp scripts, InvExec.init c e0 inp scripts⟩
  | step e _ hs ih =>
    have hr := stepR_of_step hs
    exact ⟨ih.1.step hr, ih.2.1.step ih.1 hlf hr, ih.2.2.step ih.1 hlf hex ih.2.1 hr⟩

end QbiceVerif.Phase
