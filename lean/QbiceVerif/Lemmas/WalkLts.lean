import QbiceVerif.Model.WalkLts

/-! The `WK` LTS (a walk over a backward-edge set on `W` workers): frame facts of a step, the variant,
the invariant of the repaired system and its progress. -/

namespace QbiceVerif.Lts.WK

theorem sumTo_zero {n : Nat} {f : Nat → Nat} (h : ∀ j, j < n → f j = 0) : sumTo n f = 0 := by
  induction n with
  | zero => rfl
  | succ n ih =>
    simp only [sumTo]
    rw [ih (fun j hj => h j (by omega)), h n (by omega)]

theorem sumTo_congr {n : Nat} {f g : Nat → Nat} (h : ∀ j, j < n → f j = g j) : sumTo n f = sumTo n g := by
  induction n with
  | zero => rfl
  | succ n ih =>
    simp only [sumTo]
    rw [ih (fun j hj => h j (by omega)), h n (by omega)]

theorem sumTo_lt {n i : Nat} {f g : Nat → Nat} (hi : i < n) (hlt : f i < g i)
    (h : ∀ j, j < n → j ≠ i → f j = g j) : sumTo n f < sumTo n g := by
  induction n with
  | zero => omega
  | succ n ih =>
    simp only [sumTo]
    by_cases hin : i = n
    · subst hin
      have := sumTo_congr (n := i) (f := f) (g := g) (fun j hj => h j (by omega) (by omega))
      omega
    · have h1 := ih (by omega) (fun j hj hne => h j (by omega) hne)
      have h2 := h n (by omega) (by omega)
      omega

theorem sumTo_pos {n i : Nat} {f : Nat → Nat} (hi : i < n) (h : 0 < f i) : 0 < sumTo n f := by
  induction n with
  | zero => omega
  | succ n ih =>
    simp only [sumTo]
    by_cases hin : i = n
    · subst hin; omega
    · have := ih (by omega); omega

/-- what every step does: it is a step of one task `i < n`, which gets strictly closer to its end; all
other tasks and the parameters are untouched -/
structure StepFacts (s s' : State) (i : Nat) : Prop where
  lt : i < s.n
  n : s'.n = s.n
  W : s'.W = s.W
  fixed : s'.fixed = s.fixed
  frame : ∀ j, j ≠ i → s'.task j = s.task j
  dec : (s'.task i).m < (s.task i).m
  role : (s'.task i).role = (s.task i).role
  can : s.canStep i = true

theorem step_facts {s s' : State} {ev : Ev} (h : step s ev = some s') : StepFacts s s' ev.task := by
  cases ev with
  | resume i =>
    have h0 := h
    simp only [step] at h
    split at h
    · rename_i hc
      cases h
      refine ⟨hc.1, rfl, rfl, rfl, fun j hj => by simp [State.set, Ev.task] at hj ⊢; simp [hj], ?_, by simp [State.set, Ev.task],
        by simp [State.canStep, Ev.task, h0]⟩
      cases hb : (s.task i).begun <;> simp [State.set, Ev.task, Task.m, hc.2.1, hb]
    · cases h
  | walkBegin i =>
    have h0 := h
    simp only [step] at h
    split at h
    · rename_i hc
      cases h
      refine ⟨hc.1, rfl, rfl, rfl, fun j hj => by simp [State.set, Ev.task] at hj ⊢; simp [hj], ?_, by simp [State.set, Ev.task],
        by simp [State.canStep, Ev.task, h0]⟩
      simp [State.set, Ev.task, Task.m, hc.2.2.1, hc.2.2.2]
    · cases h
  | walkYield i c =>
    have h0 := h
    simp only [step] at h
    split at h
    · rename_i hc
      cases h
      refine ⟨hc.1, rfl, rfl, rfl, fun j hj => by simp [State.set, Ev.task] at hj ⊢; simp [hj], ?_, by simp [State.set, Ev.task], ?_⟩
      · simp [State.set, Ev.task, Task.m, hc.2.2.1, hc.2.2.2.1]
        omega
      · simp [State.canStep, Ev.task, step, hc]
    · cases h
  | walkEnd i =>
    have h0 := h
    simp only [step] at h
    split at h
    · rename_i hc
      cases h
      refine ⟨hc.1, rfl, rfl, rfl, fun j hj => by simp [State.set, Ev.task] at hj ⊢; simp [hj], ?_, by simp [State.set, Ev.task],
        by simp [State.canStep, Ev.task, h0]⟩
      simp [State.set, Ev.task, Task.m, hc.2.2.1]
    · cases h
  | write i =>
    have h0 := h
    simp only [step] at h
    split at h
    · cases h
    · rename_i ins x hr
      split at h
      · rename_i hc
        split at h
        · cases h
          refine ⟨hc.1, rfl, rfl, rfl, fun j hj => by simp [State.set, Ev.task] at hj ⊢; simp [hj], ?_, by simp [State.set, Ev.task],
            by simp [State.canStep, Ev.task, h0]⟩
          simp [State.set, Ev.task, Task.m, hc.2.1]
        · cases h
          refine ⟨hc.1, rfl, rfl, rfl, fun j hj => by simp [State.set, Ev.task] at hj ⊢; simp [hj], ?_, by simp [State.set, Ev.task],
            by simp [State.canStep, Ev.task, h0]⟩
          simp [State.set, Ev.task, Task.m, hc.2.1]
      · cases h

/-- every event strictly decreases the variant — in the as-is system as well as in the repaired one -/
theorem step_decreases {s s' : State} {ev : Ev} (h : step s ev = some s') : mu s' < mu s := by
  have f := step_facts h
  unfold mu
  rw [f.n]
  exact sumTo_lt f.lt f.dec (fun j _ hne => by rw [f.frame j hne])

theorem run_length_le {s s' : State} {evs : List Ev} (hr : Run s evs s') : evs.length + mu s' ≤ mu s := by
  induction hr with
  | nil => simp
  | cons hs _ ih => have := step_decreases hs; simp only [List.length_cons]; omega

/-- a state in which no task has an enabled event has no enabled event at all -/
theorem stuck_no_step {s : State} (h : s.stuck = true) (ev : Ev) : step s ev = none := by
  cases hs : step s ev with
  | none => rfl
  | some s' =>
    have f := step_facts hs
    simp only [State.stuck, List.all_eq_true, List.mem_range] at h
    have := h ev.task f.lt
    simp [f.can] at this

theorem unfinished_spec {s : State} (h : s.unfinished = true) : ∃ i, i < s.n ∧ (s.task i).st ≠ .done := by
  simp only [State.unfinished, List.any_eq_true, List.mem_range] at h
  obtain ⟨i, hi, hd⟩ := h
  exact ⟨i, hi, by simpa using hd⟩

theorem run_reachable {W : Nat} {f : Bool} {c0 : List Nat} {ts : List (Role × Nat)} {s s' : State} {evs : List Ev}
    (hr : Reachable W f c0 ts s) (h : run s evs = some s') : Reachable W f c0 ts s' := by
  induction evs generalizing s with
  | nil => simp only [run, Option.some.injEq] at h; exact h ▸ hr
  | cons ev rest ih =>
    simp only [run] at h
    cases hs : step s ev with
    | none => simp [hs] at h
    | some s1 => rw [hs] at h; exact ih (Reachable.step ev hr hs) h

/-- a schedule checked by evaluation yields a reachable state with the checked property -/
theorem exists_of_run {W : Nat} {f : Bool} {c0 : List Nat} {ts : List (Role × Nat)} {evs : List Ev} {P : State → Bool}
    (h : (match run (init W f c0 ts) evs with | some s => P s | none => false) = true) :
    ∃ s, Reachable W f c0 ts s ∧ P s = true := by
  split at h
  · rename_i s hs
    exact ⟨s, run_reachable .init hs, h⟩
  · cases h

theorem reachable_run {W : Nat} {f : Bool} {c0 : List Nat} {ts : List (Role × Nat)} {s : State}
    (hr : Reachable W f c0 ts s) : ∃ evs, Run (init W f c0 ts) evs s := by
  suffices h : ∀ s, Reachable W f c0 ts s → ∀ s' evs', Run s evs' s' → ∃ evs, Run (init W f c0 ts) evs s' from
    h s hr s [] (.nil s)
  intro s hr
  induction hr with
  | init => intro s' evs' h; exact ⟨evs', h⟩
  | step ev _ hs ih => intro s'' evs' h; exact ih _ _ (.cons hs h)

theorem run_reach {W : Nat} {f : Bool} {c0 : List Nat} {ts : List (Role × Nat)} {s s' : State} {evs : List Ev}
    (hr : Reachable W f c0 ts s) (h : Run s evs s') : Reachable W f c0 ts s' := by
  induction h with
  | nil => exact hr
  | cons hs _ ih => exact ih (Reachable.step _ hr hs)

/-! ## the repaired system: nobody ever holds the guards between two events -/

structure Inv (s : State) : Prop where
  fixed : s.fixed = true
  noHold : ∀ j, (s.task j).holds = false

theorem inv_init (W : Nat) (c0 : List Nat) (ts : List (Role × Nat)) : Inv (init W true c0 ts) :=
  ⟨rfl, fun _ => rfl⟩

theorem inv_step {s s' : State} {ev : Ev} (hi : Inv s) (h : step s ev = some s') : Inv s' := by
  have f := step_facts h
  refine ⟨by rw [f.fixed]; exact hi.fixed, ?_⟩
  intro j
  by_cases hj : j = ev.task
  · subst hj
    cases ev with
    | resume i =>
      simp only [step] at h
      split at h
      · cases h; simpa [State.set, Ev.task] using hi.noHold i
      · cases h
    | walkBegin i =>
      simp only [step] at h
      split at h
      · cases h; simp [State.set, Ev.task, hi.fixed]
      · cases h
    | walkYield i c =>
      simp only [step] at h
      split at h
      · cases h; simpa [State.set, Ev.task] using hi.noHold i
      · cases h
    | walkEnd i =>
      simp only [step] at h
      split at h
      · cases h; simp [State.set, Ev.task]
      · cases h
    | write i =>
      simp only [step] at h
      split at h
      · cases h
      · split at h
        · split at h
          · cases h; simpa [State.set, Ev.task] using hi.noHold i
          · cases h; simpa [State.set, Ev.task] using hi.noHold i
        · cases h
  · rw [f.frame j hj]; exact hi.noHold j

theorem reachable_inv {W : Nat} {c0 : List Nat} {ts : List (Role × Nat)} {s : State}
    (hr : Reachable W true c0 ts s) : Inv s := by
  induction hr with
  | init => exact inv_init _ _ _
  | step ev _ hs ih => exact inv_step ih hs

theorem reachable_W {W : Nat} {f : Bool} {c0 : List Nat} {ts : List (Role × Nat)} {s : State}
    (hr : Reachable W f c0 ts s) : s.W = W := by
  induction hr with
  | init => rfl
  | step ev _ hs ih => rw [(step_facts hs).W, ih]

theorem readers_zero {s : State} (hi : Inv s) : s.readers = 0 :=
  sumTo_zero (fun j _ => by simp [hi.noHold j])

/-- a task that is being polled always has an enabled event in the repaired system -/
theorem running_can_step {s : State} (hi : Inv s) {j : Nat} (hj : j < s.n) (hr : (s.task j).st = .running) :
    ∃ ev s', step s ev = some s' := by
  cases hrole : (s.task j).role with
  | walker =>
    cases hb : (s.task j).begun with
    | false => exact ⟨.walkBegin j, _, by simp only [step]; rw [if_pos ⟨hj, hrole, hr, hb⟩]⟩
    | true => exact ⟨.walkEnd j, _, by simp only [step]; rw [if_pos ⟨hj, hrole, hr, hb⟩]⟩
  | writer ins x =>
    have hsome : (step s (.write j)).isSome = true := by
      simp only [step, hrole]
      rw [if_pos ⟨hj, hr, readers_zero hi⟩]
      cases ins <;> simp
    obtain ⟨s', hs'⟩ := Option.isSome_iff_exists.mp hsome
    exact ⟨.write j, s', hs'⟩

/-- deadlock freedom of the repaired system, for every number of workers `W ≥ 1` -/
theorem progress {s : State} (hi : Inv s) (hW : 1 ≤ s.W) {i : Nat} (hlt : i < s.n) (hnd : (s.task i).st ≠ .done) :
    ∃ ev s', step s ev = some s' := by
  by_cases hrun : ∃ j, j < s.n ∧ (s.task j).st = .running
  · obtain ⟨j, hj, hr⟩ := hrun
    exact running_can_step hi hj hr
  · -- nobody is being polled: every worker is free, and task `i` sits in a run queue
    have hb : s.busy = 0 := sumTo_zero (fun j hj => by
      have : (s.task j).st ≠ .running := fun h => hrun ⟨j, hj, h⟩
      simp [this])
    have hq : (s.task i).st = .queued := by
      cases h : (s.task i).st with
      | queued => rfl
      | running => exact absurd ⟨i, hlt, h⟩ hrun
      | done => exact absurd h hnd
    exact ⟨.resume i, _, by simp only [step]; rw [if_pos ⟨hlt, hq, by omega⟩]⟩

end QbiceVerif.Lts.WK
