/-
Lemmas about the extended core engine model, part 9: the upper layers — requests for a set of keys
(`queryEach`), `repair_transitive_firewall_callees`, backward projection (nothing to re-run without
projection nodes), the `RepairFirewall` caller (`queryF_spec`) and the user (`queryU_spec`,
`query_spec`).
-/
import QbiceVerif.Lemmas.EngineCoreFw8
namespace Qbice.CoreFw
open Qbice.Core (Prog Err Write SetRes allVals evalProg applyWorld Sat TraceOK)

theorem queryEach_spec {p : Program} {q : Q} {b : Nat} (hq : QSpec p q b) :
    ∀ (ks : List Key) (s : St), (∀ f, f ∈ ks → f < b) → Inv p s →
      Sat (queryEach q ks s) (fun s' => Inv p s' ∧ Frame p s s' ∧ Touches b s s') := by
  intro ks
  induction ks with
  | nil => intro s _ inv; exact ⟨inv, Frame.refl p s, Touches.refl _ s⟩
  | cons c rest ih =>
    intro s hb inv
    have hc : c < b := hb c (List.mem_cons_self ..)
    have hqc := hq c hc s inv
    simp only [queryEach]
    cases hr : q c s with
    | error e => rw [hr] at hqc; simpa [Sat] using hqc
    | ok r =>
      obtain ⟨v, s1⟩ := r
      rw [hr] at hqc
      obtain ⟨i1, f1, t1, _⟩ := hqc
      simp only at i1 f1 t1 ⊢
      refine (ih s1 (fun f hf => hb f (List.mem_cons_of_mem _ hf)) i1).mono ?_
      rintro s2 ⟨i2, f2, t2⟩
      exact ⟨i2, f1.trans f2, (t1.mono (by komega)).trans t2⟩

theorem repairTfc_spec {p : Program} {qf : Q} {k : Key} (hq : QSpec p qf k) {s : St} (inv : Inv p s) :
    Sat (repairTfc qf k s) (fun s' => Inv p s' ∧ Frame p s s' ∧ Touches k s s') := by
  simp only [repairTfc]
  cases hn : s.nodes k with
  | none => exact ⟨inv, Frame.refl p s, Touches.refl _ s⟩
  | some n =>
    simp only
    split
    · exact ⟨inv, Frame.refl p s, Touches.refl _ s⟩
    · exact queryEach_spec hq n.tfc s (fun f hf => inv.tfcDown k n hn f hf) inv

/-- without projection nodes there is nothing above a key to re-run -/
theorem projsAbove_nil {p : Program} {s : St} (inv : Inv p s) (k : Key) : projsAbove p s k = [] := by
  simp only [projsAbove]
  rw [List.filter_eq_nil_iff]
  intro c _
  cases hc : s.nodes c with
  | none => simp
  | some n => simp [inv.noProj c n hc]

theorem backProject_eq {p : Program} {s : St} (inv : Inv p s) (qb : Q) (k : Key) :
    backProject qb p k s = .ok (clearPending s k) := by
  simp [backProject, projsAbove_nil inv, queryEach]

theorem clearPending_post {p : Program} {k : Key} {s0 s : St} {v : Val} (h : QPost p k s0 (v, s)) :
    QPost p k s0 (v, clearPending s k) := by
  obtain ⟨i, f, t, c, n, hn, hv, hver⟩ := h
  simp only at i f t c hn hv hver
  have e : clearPending s k = setNode s k { n with pendingBP := false } := by
    simp [clearPending, hn]
  rw [e]
  exact ⟨i.setSame (n' := { n with pendingBP := false }) hn rfl rfl rfl rfl rfl (Or.inl rfl),
    f.trans (Frame.setSame (n' := { n with pendingBP := false }) hn rfl rfl rfl rfl rfl hver),
    t.trans (Touches.setNode s k _), c,
    { n with pendingBP := false }, by simp [setNode], hv, hver⟩

theorem queryQ_badKey {p : Program} {s : St} (inv : Inv p s) {k : Key} (hk : p.length ≤ k) (f : Nat)
    (ped : Bool) : queryQ p (f + 1) ped k s = .error (.badKey k) := by
  have hp : p[k]? = none := List.getElem?_eq_none hk
  have hn : s.nodes k = none := by
    cases h : s.nodes k with
    | none => rfl
    | some n => obtain ⟨d, hd, _⟩ := inv.kind k n h; rw [hp] at hd; cases hd
  simp [queryQ, hn, hp]

/-- a request by a query caller with the default fuel: sound for every key -/
theorem queryQ_fuelFor {p : Program} (wf : WF p) (np : NoProj p) (ped : Bool) (k : Key) {s : St}
    (inv : Inv p s) : Sat (queryQ p (fuelFor p) ped k s) (QPost p k s) := by
  by_cases hk : k < p.length
  · exact queryQ_spec wf np (fuelFor p) ped k (by simp [fuelFor]; komega) s inv
  · rw [show fuelFor p = p.length + 1 from rfl, queryQ_badKey inv (by komega) p.length ped]
    simp [Sat]

/-- the `RepairFirewall` caller -/
theorem queryF_spec {p : Program} (wf : WF p) (np : NoProj p) :
    ∀ fuel k, k < fuel → ∀ s, Inv p s → Sat (queryF p fuel k s) (QPost p k s) := by
  intro fuel
  induction fuel with
  | zero => intro k hk; cases hk
  | succ fuel ih =>
    intro k hk s inv
    have hq : QSpec p (queryF p fuel) k := fun d hd s' inv' => ih d (by komega) s' inv'
    simp only [queryF]
    have hrt := repairTfc_spec hq inv
    cases hr : repairTfc (queryF p fuel) k s with
    | error e => rw [hr] at hrt; simpa [Sat] using hrt
    | ok s1 =>
      rw [hr] at hrt
      obtain ⟨i1, f1, t1⟩ := hrt
      simp only
      have hqq := queryQ_fuelFor wf np false k i1
      cases hr2 : queryQ p (fuelFor p) false k s1 with
      | error e => rw [hr2] at hqq; simpa [Sat] using hqq
      | ok r =>
        obtain ⟨v, s2⟩ := r
        rw [hr2] at hqq
        have hpost : QPost p k s (v, s2) := by
          obtain ⟨i2, f2, t2, c2, hnode⟩ := hqq
          exact ⟨i2, f1.trans f2, (t1.mono (by komega)).trans t2, by rw [← f1.cur]; exact c2, hnode⟩
        simp only
        split
        · rw [backProject_eq hpost.1]
          exact clearPending_post hpost
        · exact hpost

/-- the user -/
theorem queryU_spec {p : Program} (wf : WF p) (np : NoProj p) {fuel k : Nat} (hk : k < fuel)
    {s : St} (inv : Inv p s) : Sat (queryU p fuel k s) (QPost p k s) := by
  have hq : QSpec p (queryF p fuel) k := fun d hd s' inv' => queryF_spec wf np fuel d (by komega) s' inv'
  simp only [queryU]
  have hrt := repairTfc_spec hq inv
  cases hr : repairTfc (queryF p fuel) k s with
  | error e => rw [hr] at hrt; simpa [Sat] using hrt
  | ok s1 =>
    rw [hr] at hrt
    obtain ⟨i1, f1, t1⟩ := hrt
    simp only
    refine (queryQ_spec wf np fuel false k hk s1 i1).mono ?_
    rintro ⟨v, s2⟩ ⟨i2, f2, t2, c2, hnode⟩
    exact ⟨i2, f1.trans f2, (t1.mono (by komega)).trans t2, by rw [← f1.cur]; exact c2, hnode⟩

end Qbice.CoreFw
