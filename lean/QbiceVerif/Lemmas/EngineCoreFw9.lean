/-
Lemmas about the extended core engine model, part 9: the upper layers — requests for a set of keys
(`queryEach`), `repair_transitive_firewall_callees`, backward projection (`backProject_spec`), the
`BackwardProjectionPropagation` caller (`queryB_spec`), the `RepairFirewall` caller (`queryF_spec`)
and the user (`queryU_spec`).
-/
import QbiceVerif.Lemmas.EngineCoreFw8
namespace Qbice.CoreFw
open Qbice.Core (Prog Err Write SetRes allVals evalProg applyWorld Sat TraceOK)

/-- post-condition of a request of the upper layers (nodes above the key may change: backward
    projection) -/
def UPost (p : Program) (k : Key) (s : St) (r : Val × St) : Prop :=
  Inv p r.2 ∧ Frame p s r.2 ∧ cur p s k = some r.1 ∧
    ∃ n, r.2.nodes k = some n ∧ n.value = r.1 ∧ n.lastVerified = r.2.epoch

theorem QPost.uPost {p : Program} {k : Key} {s : St} {r : Val × St} (h : QPost p k s r) : UPost p k s r :=
  ⟨h.1, h.2.1, h.2.2.2.1, h.2.2.2.2⟩

/-- pending backward projections of keys below `b` are not cleared -/
def NoClearBelow (b : Nat) (s s' : St) : Prop :=
  ∀ x n, x < b → s.nodes x = some n → n.pendingBP = true → ∃ n', s'.nodes x = some n' ∧ n'.pendingBP = true

theorem NoClearBelow.refl (b : Nat) (s : St) : NoClearBelow b s s := fun _ n _ h hp => ⟨n, h, hp⟩

theorem NoClearBelow.trans {b : Nat} {s s' s'' : St} (f : NoClearBelow b s s') (g : NoClearBelow b s' s'') :
    NoClearBelow b s s'' := fun x n hx h hp => by
  obtain ⟨n', h', hp'⟩ := f x n hx h hp
  exact g x n' hx h' hp'

theorem NoClearBelow.mono {b b' : Nat} {s s' : St} (f : NoClearBelow b s s') (h : b' ≤ b) :
    NoClearBelow b' s s' := fun x n hx => f x n (Nat.lt_of_lt_of_le hx h)

theorem Touches.noClear {b c : Nat} {s s' : St} (t : Touches b s s') : NoClearBelow c s s' :=
  fun x n _ h hp => t.2 x n h hp

theorem queryEach_spec {p : Program} {q : Q} {P : Key → St → Prop} {R : St → St → Prop}
    {G : Key → St → Prop}
    (hR0 : ∀ s, R s s) (hRt : ∀ s s' s'', R s s' → R s' s'' → R s s'')
    (hq : ∀ d s, Inv p s → P d s → Sat (q d s) (fun r => UPost p d s r ∧ R s r.2 ∧ G d r.2))
    (hP : ∀ d s s', P d s → Inv p s → Inv p s' → Frame p s s' → R s s' → P d s')
    (hG : ∀ d s s', G d s → Inv p s → Inv p s' → Frame p s s' → R s s' → G d s') :
    ∀ (ks : List Key) (s : St), (∀ f, f ∈ ks → P f s) → Inv p s →
      Sat (queryEach q ks s) (fun s' => Inv p s' ∧ Frame p s s' ∧ R s s' ∧
        ∀ f, f ∈ ks → Verified s' f ∧ G f s') := by
  intro ks
  induction ks with
  | nil => intro s _ inv; exact ⟨inv, Frame.refl p s, hR0 s, fun _ h => by cases h⟩
  | cons c rest ih =>
    intro s hb inv
    have hqc := hq c s inv (hb c (List.mem_cons_self ..))
    simp only [queryEach]
    cases hr : q c s with
    | error e => rw [hr] at hqc; simpa [Sat] using hqc
    | ok r =>
      obtain ⟨v, s1⟩ := r
      rw [hr] at hqc
      obtain ⟨⟨i1, f1, _, n1, hn1, _, hv1⟩, r1, g1⟩ := hqc
      simp only at i1 f1 hn1 hv1 r1 g1 ⊢
      refine (ih s1 (fun f hf => hP f s s1 (hb f (List.mem_cons_of_mem _ hf)) inv i1 f1 r1) i1).mono ?_
      rintro s2 ⟨i2, f2, r2, hv2⟩
      refine ⟨i2, f1.trans f2, hRt _ _ _ r1 r2, ?_⟩
      intro f hf
      simp only [List.mem_cons] at hf
      rcases hf with rfl | hf
      · exact ⟨f2.verified ⟨n1, hn1, hv1⟩, hG f s1 s2 g1 i1 i2 f2 r2⟩
      · exact hv2 f hf

theorem repairTfc_spec {p : Program} {qf : Q} {k : Key}
    (hq : ∀ d, d < k → ∀ s, Inv p s → Sat (qf d s) (UPost p d s)) {s : St} (inv : Inv p s) :
    Sat (repairTfc qf k s) (fun s' => Inv p s' ∧ Frame p s s') := by
  simp only [repairTfc]
  cases hn : s.nodes k with
  | none => exact ⟨inv, Frame.refl p s⟩
  | some n =>
    simp only
    split
    · exact ⟨inv, Frame.refl p s⟩
    · refine (queryEach_spec (P := fun d _ => d < k) (R := fun _ _ => True) (G := fun _ _ => True)
        (fun _ => trivial)
        (fun _ _ _ _ _ => trivial) (fun d s' i h => (hq d h s' i).mono (fun r hr => ⟨hr, trivial, trivial⟩))
        (fun d _ _ h _ _ _ _ => h) (fun _ _ _ _ _ _ _ _ => trivial) n.tfc s
        (fun f hf => inv.tfcDown k n hn f hf) inv).mono ?_
      rintro s' ⟨i, f, _, _⟩
      exact ⟨i, f⟩

theorem mem_projsAbove {p : Program} {s : St} {k c : Key} :
    c ∈ projsAbove p s k ↔ c < p.length ∧ ∃ n o, s.nodes c = some n ∧ n.kind = .projection ∧ (k, o) ∈ n.deps := by
  simp only [projsAbove, List.mem_filter, List.mem_range]
  constructor
  · rintro ⟨hlt, h⟩
    refine ⟨hlt, ?_⟩
    cases hc : s.nodes c with
    | none => simp [hc] at h
    | some n =>
      simp only [hc, Bool.and_eq_true, decide_eq_true_eq] at h
      obtain ⟨o, hm⟩ := (Qbice.Core.any_key_iff n.deps k).1 h.2
      exact ⟨n, o, rfl, h.1, hm⟩
  · rintro ⟨hlt, n, o, hn, hk, hm⟩
    refine ⟨hlt, ?_⟩
    simp only [hn, hk, decide_true, Bool.true_and]
    exact (Qbice.Core.any_key_iff n.deps k).2 ⟨o, hm⟩

/-- what a `BackwardProjectionPropagation` request for `c` needs: `c` has a projection node -/
def PreB (s : St) (c : Key) : Prop :=
  ∃ n, s.nodes c = some n ∧ n.kind = .projection

/-- … and what it guarantees -/
def BPost (p : Program) (c : Key) (s : St) (r : Val × St) : Prop :=
  UPost p c s r ∧ NoClearBelow c s r.2 ∧ hasPending r.2 c = false

theorem hasPending_noClear {b : Nat} {s s' : St} (t : NoClearBelow b s s') {f : Key} (hf : f < b)
    (h : hasPending s f = true) : hasPending s' f = true := by
  cases hn : s.nodes f with
  | none => simp [hasPending, hn] at h
  | some nf =>
    obtain ⟨nf', hf', hp'⟩ := t f nf hf hn (by simpa [hasPending, hn] using h)
    simp [hasPending, hf', hp']

/-- a verified key without a pending backward projection stays so -/
theorem quiet_stable {p : Program} {s s' : St} (f : Frame p s s') {c : Key}
    (h : Verified s c ∧ hasPending s c = false) : Verified s' c ∧ hasPending s' c = false := by
  obtain ⟨⟨n, hn, hv⟩, hp⟩ := h
  refine ⟨f.verified ⟨n, hn, hv⟩, ?_⟩
  obtain ⟨n', hn', hval, htfc⟩ := f.vkeep c n hn hv
  cases hx : hasPending s' c with
  | false => rfl
  | true =>
    have hp' : n'.pendingBP = true := by simpa [hasPending, hn'] using hx
    obtain ⟨n0, hn0, hc⟩ := f.pend c n' hn' hp'
    rw [hn] at hn0; cases hn0
    rcases hc with hc | hc | hc
    · simp [hasPending, hn, hc] at hp
    · exact absurd hval hc
    · exact absurd htfc hc

/-- `invoke_backward_projections` + `done_backward_projection` of a verified key -/
theorem backProject_spec {p : Program} {qb : Q} {k : Key} {s : St} (inv : Inv p s)
    {nk : Node} (hk : s.nodes k = some nk) (hv : nk.lastVerified = s.epoch) (hpk : nk.pendingBP = true)
    (hq : ∀ c s', k < c → Inv p s' → PreB s' c → Sat (qb c s') (BPost p c s')) :
    Sat (backProject qb p k s) (fun s' => Inv p s' ∧ Frame p s s' ∧ NoClearBelow k s s' ∧
      hasPending s' k = false) := by
  simp only [backProject]
  have hloop : Sat (queryEach qb (projsAbove p s k) s) (fun s' => Inv p s' ∧ Frame p s s' ∧
      NoClearBelow (k + 1) s s' ∧
      ∀ f, f ∈ projsAbove p s k → Verified s' f ∧ (Verified s' f ∧ hasPending s' f = false)) := by
    refine queryEach_spec
      (P := fun c s' => k < c ∧ PreB s' c)
      (R := NoClearBelow (k + 1)) (G := fun c s' => Verified s' c ∧ hasPending s' c = false)
      (NoClearBelow.refl _) (fun _ _ _ => NoClearBelow.trans)
      ?_ ?_ (fun c s1 s2 g _ _ f12 _ => quiet_stable f12 g) (projsAbove p s k) s ?_ inv
    · rintro c s' i ⟨hlt, hpre⟩
      refine (hq c s' hlt i hpre).mono ?_
      rintro r ⟨hu, hnc, hnp⟩
      have hu' := hu
      obtain ⟨_, _, _, n1, hn1, _, hv1⟩ := hu'
      exact ⟨hu, hnc.mono (by komega), ⟨n1, hn1, hv1⟩, hnp⟩
    · rintro c s1 s2 ⟨hlt, n, hn, hkp⟩ i1 i2 f12 _
      refine ⟨hlt, ?_⟩
      cases f12.same_or_verified c with
      | inr v =>
        obtain ⟨n2, h2, _⟩ := v
        obtain ⟨d1, hp1, hk1, _⟩ := i1.kind c n hn
        obtain ⟨d2, hp2, hk2, _⟩ := i2.kind c n2 h2
        rw [hp1] at hp2; cases hp2
        exact ⟨n2, h2, by rw [← hk2, hk1]; exact hkp⟩
      | inl e => exact ⟨n, by rw [e]; exact hn, hkp⟩
    · intro c hc
      obtain ⟨hlt, n, o, hn, hkp, hm⟩ := mem_projsAbove.1 hc
      exact ⟨(inv.down c n hn k o hm).1, n, hn, hkp⟩
  cases hr : queryEach qb (projsAbove p s k) s with
  | error e => rw [hr] at hloop; simpa [Sat] using hloop
  | ok s1 =>
    rw [hr] at hloop
    obtain ⟨i1, f1, r1, hver⟩ := hloop
    simp only
    -- `k` is still verified, with the same value
    obtain ⟨n1, hn1, hv1⟩ := f1.verified ⟨nk, hk, hv⟩
    have e : clearPending s1 k = setNode s1 k { n1 with pendingBP := false } := by
      simp [clearPending, hn1]
    rw [e]
    -- a projection that reads `k` now was requested in the loop, or has a new node
    have hcls : ∀ z nz o, s1.nodes z = some nz → nz.kind = .projection → (k, o) ∈ nz.deps →
        z ∈ projsAbove p s k ∨ (s1.nodes z ≠ s.nodes z ∧ Verified s1 z) := by
      intro z nz o hz hkz hm
      cases f1.same_or_verified z with
      | inr v =>
        by_cases e' : s1.nodes z = s.nodes z
        · obtain ⟨dz, hpz, _⟩ := i1.kind z nz hz
          have hlt : z < p.length := by
            rw [List.getElem?_eq_some_iff] at hpz
            obtain ⟨h, _⟩ := hpz; exact h
          exact Or.inl (mem_projsAbove.2 ⟨hlt, nz, o, by rw [← e']; exact hz, hkz, hm⟩)
        · exact Or.inr ⟨e', v⟩
      | inl e' =>
        obtain ⟨dz, hpz, _⟩ := i1.kind z nz hz
        have hlt : z < p.length := by
          rw [List.getElem?_eq_some_iff] at hpz
          obtain ⟨h, _⟩ := hpz; exact h
        exact Or.inl (mem_projsAbove.2 ⟨hlt, nz, o, by rw [← e']; exact hz, hkz, hm⟩)
    -- every projection that reads `k` is verified now, hence has a current observation of `k`
    have hcur : ∀ z nz o, s1.nodes z = some nz → nz.kind = .projection → (k, o) ∈ nz.deps → n1.value = o := by
      intro z nz o hz hkz hm
      have hvz : Verified s1 z := by
        rcases hcls z nz o hz hkz hm with h | ⟨_, h⟩
        · exact (hver z h).1
        · exact h
      obtain ⟨nz', hz', hvz'⟩ := hvz
      rw [hz] at hz'; cases hz'
      have hs := i1.solid z nz hz hvz'
      cases hs with
      | mk _ n' hn' _ _ hval _ =>
        rw [hz] at hn'; cases hn'
        obtain ⟨nd, hnd, hvd, _⟩ := hval k o hm
        rw [hn1] at hnd; cases hnd
        exact hvd
    -- none of the static ones has a pending backward projection
    have hnp : ∀ z nz o, s1.nodes z = some nz → nz.kind = .projection → IsStaticKey p z → (k, o) ∈ nz.deps →
        nz.pendingBP = false := by
      intro z nz o hz hkz hsz hm
      rcases hcls z nz o hz hkz hm with h | ⟨hne, _⟩
      · have := (hver z h).2.2
        simpa [hasPending, hz] using this
      · cases hx : nz.pendingBP with
        | false => rfl
        | true =>
          -- a pending flag means the key had a node before, with the same recorded keys
          obtain ⟨nz0, hz0, _⟩ := f1.pend z nz hz hx
          obtain ⟨dz, hpz, hkdz, _⟩ := i1.kind z nz hz
          obtain ⟨dz0, hpz0, hkdz0, _⟩ := inv.kind z nz0 hz0
          rw [hpz] at hpz0; cases hpz0
          have hkz0 : nz0.kind = .projection := by rw [← hkdz0, hkdz]; exact hkz
          obtain ⟨dz', ks, hpz', hks⟩ := hsz
          rw [hpz] at hpz'; cases hpz'
          have h1 := (i1.pjStat z nz dz ks hz hpz hkz hks).1
          have h0 := (inv.pjStat z nz0 dz ks hz0 hpz hkz0 hks).1
          have hmem : k ∈ nz0.deps.map (·.1) := by
            rw [h0, ← h1]; exact List.mem_map.2 ⟨(k, o), hm, rfl⟩
          rw [List.mem_map] at hmem
          obtain ⟨⟨k', o0⟩, hm0, rfl⟩ := hmem
          have hlt : z < p.length := by
            rw [List.getElem?_eq_some_iff] at hpz
            obtain ⟨h, _⟩ := hpz; exact h
          have hin : z ∈ projsAbove p s k' := mem_projsAbove.2 ⟨hlt, nz0, o0, hz0, hkz0, hm0⟩
          have := (hver z hin).2.2
          simp [hasPending, hz, hx] at this
    refine ⟨i1.setSame (n' := { n1 with pendingBP := false }) hn1 rfl rfl rfl rfl rfl (Or.inl rfl)
        (Or.inr ⟨rfl, hcur, hnp⟩),
      f1.trans (Frame.setSame (n' := { n1 with pendingBP := false }) hn1 rfl rfl rfl rfl rfl hv1
        (fun h => by cases h)), ?_, by simp [hasPending, setNode]⟩
    intro x n hx hnx hp
    obtain ⟨n', hn', hp'⟩ := r1 x n (by komega) hnx hp
    have : x ≠ k := by komega
    exact ⟨n', by simp only [setNode, if_neg this]; exact hn', hp'⟩

theorem queryQ_badKey {p : Program} {s : St} (inv : Inv p s) {k : Key} (hk : p.length ≤ k) (f : Nat)
    (ped : Bool) : queryQ p (f + 1) ped k s = .error (.badKey k) := by
  have hp : p[k]? = none := List.getElem?_eq_none hk
  have hn : s.nodes k = none := by
    cases h : s.nodes k with
    | none => rfl
    | some n => obtain ⟨d, hd, _⟩ := inv.kind k n h; rw [hp] at hd; cases hd
  simp [queryQ, hn, hp]

/-- a request by a query caller with the default fuel: sound for every key -/
theorem queryQ_fuelFor {p : Program} (wf : WF p) (sh : Shape p) (ped : Bool) (k : Key) {s : St}
    (inv : Inv p s) : Sat (queryQ p (fuelFor p) ped k s) (QPost p k s) := by
  by_cases hk : k < p.length
  · exact queryQ_spec wf sh (fuelFor p) ped k (by simp [fuelFor]; komega) s inv
  · rw [show fuelFor p = p.length + 1 from rfl, queryQ_badKey inv (by komega) p.length ped]
    simp [Sat]

/-- the `BackwardProjectionPropagation` caller (since the F13 repair: a pedantic repair, then the
    pending backward projection of the key itself): the recursion goes to higher keys -/
theorem queryB_spec {p : Program} (wf : WF p) (sh : Shape p) :
    ∀ fuel c s, p.length ≤ c + fuel → Inv p s → PreB s c → Sat (queryB p fuel c s) (BPost p c s) := by
  intro fuel
  induction fuel with
  | zero =>
    intro c s hf inv ⟨n, hn, _⟩
    obtain ⟨d, hp, _⟩ := inv.kind c n hn
    have hlt : c < p.length := by
      rw [List.getElem?_eq_some_iff] at hp
      obtain ⟨h, _⟩ := hp; exact h
    omega
  | succ fuel ih =>
    intro c s hf inv _
    simp only [queryB]
    have hfirst := queryQ_fuelFor wf sh true c inv
    cases hr0 : queryQ p (fuelFor p) true c s with
    | error e => rw [hr0] at hfirst; simpa [Sat] using hfirst
    | ok r =>
      obtain ⟨v, s1⟩ := r
      rw [hr0] at hfirst
      obtain ⟨i1, f1, t1, c1, n1, hn1, hv1, hver1⟩ := hfirst
      simp only at i1 f1 t1 c1 hn1 hv1 hver1 ⊢
      split
      · rename_i hpend
        have hbp := backProject_spec (qb := queryB p fuel) i1 hn1 hver1
          (by simpa [hasPending, hn1] using hpend)
          (fun c' s' hlt' i' pre => ih c' s' (by komega) i' pre)
        cases hr : backProject (queryB p fuel) p c s1 with
        | error e => rw [hr] at hbp; simpa [Sat] using hbp
        | ok s2 =>
          rw [hr] at hbp
          obtain ⟨i2, f2, r2, hnp2⟩ := hbp
          simp only
          obtain ⟨n2, hn2, hv2⟩ := f2.verified ⟨n1, hn1, hver1⟩
          obtain ⟨n2', hn2', hval2, _⟩ := f2.vkeep c n1 hn1 hver1
          rw [hn2] at hn2'; cases hn2'
          exact ⟨⟨i2, f1.trans f2, c1, n2, hn2, by rw [hval2, hv1], hv2⟩, (t1.noClear (c := c)).trans r2, hnp2⟩
      · rename_i hpend
        refine ⟨⟨i1, f1, c1, n1, hn1, hv1, hver1⟩, t1.noClear, ?_⟩
        cases hx : hasPending s1 c with
        | false => rfl
        | true => exact absurd hx hpend

/-- the `RepairFirewall` caller -/
theorem queryF_spec {p : Program} (wf : WF p) (sh : Shape p) :
    ∀ fuel k, k < fuel → ∀ s, Inv p s → Sat (queryF p fuel k s) (UPost p k s) := by
  intro fuel
  induction fuel with
  | zero => intro k hk; cases hk
  | succ fuel ih =>
    intro k hk s inv
    simp only [queryF]
    have hrt := repairTfc_spec (qf := queryF p fuel) (k := k) (fun d hd s' inv' => ih d (by komega) s' inv') inv
    cases hr : repairTfc (queryF p fuel) k s with
    | error e => rw [hr] at hrt; simpa [Sat] using hrt
    | ok s1 =>
      rw [hr] at hrt
      obtain ⟨i1, f1⟩ := hrt
      simp only
      have hqq := queryQ_fuelFor wf sh false k i1
      cases hr2 : queryQ p (fuelFor p) false k s1 with
      | error e => rw [hr2] at hqq; simpa [Sat] using hqq
      | ok r =>
        obtain ⟨v, s2⟩ := r
        rw [hr2] at hqq
        obtain ⟨i2, f2, _, c2, n2, hn2, hv2, hver2⟩ := hqq
        simp only at i2 f2 c2 hn2 hv2 hver2 ⊢
        split
        · rename_i hpend
          have hbp := backProject_spec (qb := queryB p (fuelFor p)) i2 hn2 hver2
            (by simpa [hasPending, hn2] using hpend)
            (fun c s' _ i' hpre => queryB_spec wf sh (fuelFor p) c s' (by simp [fuelFor]; komega) i' hpre)
          cases hr3 : backProject (queryB p (fuelFor p)) p k s2 with
          | error e => rw [hr3] at hbp; simpa [Sat] using hbp
          | ok s3 =>
            rw [hr3] at hbp
            obtain ⟨i3, f3, _⟩ := hbp
            simp only
            obtain ⟨n3, hn3, hv3⟩ := f3.verified ⟨n2, hn2, hver2⟩
            obtain ⟨n3', hn3', hval3, _⟩ := f3.vkeep k n2 hn2 hver2
            rw [hn3] at hn3'; cases hn3'
            exact ⟨i3, (f1.trans f2).trans f3, by rw [← f1.cur]; exact c2, n3, hn3, by rw [hval3, hv2], hv3⟩
        · exact ⟨i2, f1.trans f2, by rw [← f1.cur]; exact c2, n2, hn2, hv2, hver2⟩

/-- the user -/
theorem queryU_spec {p : Program} (wf : WF p) (sh : Shape p) {fuel k : Nat} (hk : k < fuel)
    {s : St} (inv : Inv p s) : Sat (queryU p fuel k s) (UPost p k s) := by
  simp only [queryU]
  have hrt := repairTfc_spec (qf := queryF p fuel) (k := k)
    (fun d hd s' inv' => queryF_spec wf sh fuel d (by komega) s' inv') inv
  cases hr : repairTfc (queryF p fuel) k s with
  | error e => rw [hr] at hrt; simpa [Sat] using hrt
  | ok s1 =>
    rw [hr] at hrt
    obtain ⟨i1, f1⟩ := hrt
    simp only
    refine (queryQ_spec wf sh fuel false k hk s1 i1).mono ?_
    rintro ⟨v, s2⟩ ⟨i2, f2, _, c2, hnode⟩
    exact ⟨i2, f1.trans f2, by rw [← f1.cur]; exact c2, hnode⟩

end Qbice.CoreFw
