/-
The resident-count bounds of the TinyLFU model (property C16) and the extra invariant of the
`Notify` strategy: every entry of the pinned region is still pinned or has its `Unpinned`
notification in the write buffer.
-/
import QbiceVerif.Lemmas.TinyLfuInv

namespace QbiceVerif.TinyLfu

variable {σ : Type}

/-- `Notify`: an entry of the pinned region is pinned, or its notification is still buffered. -/
def NInv (pins : List Nat) (ws : List WMsg) (l : Lru) : Prop :=
  ∀ k, k ∈ l.pinned → k ∈ pins ∨ WMsg.unpinned k ∈ ws

theorem processWrite_ninv {cfg : Cfg σ} {pins : List Nat} {ws : List WMsg} {c c' : Core σ} {m : WMsg}
    (htok : ∀ k v, cfg.tok k v = k) (hpm : cfg.protectedCap < cfg.mainLimit)
    (h : processWrite cfg pins c m = .ok c') (hw : c.lru.WF) (hn : NInv pins (m :: ws) c.lru) :
    NInv pins ws c'.lru := by
  cases m with
  | insert j =>
    obtain ⟨hp, _⟩ := onWrite_polstep (show onWrite cfg pins c j = .ok c' from h)
    intro a ha
    rcases hp.pinnedNew a ha with h1 | ⟨v, _, h2⟩
    · rcases hn a h1 with h3 | h3
      · exact Or.inl h3
      · right; simpa using h3
    · left; rw [htok] at h2; exact h2
  | unpinned j =>
    obtain ⟨hp, hx⟩ := unpin_polstep (show unpin cfg pins c j = .ok c' from h) hpm
    intro a ha
    rcases hp.pinnedNew a ha with h1 | ⟨v, _, h2⟩
    · rcases hn a h1 with h3 | h3
      · exact Or.inl h3
      · simp only [List.mem_cons, WMsg.unpinned.injEq] at h3
        rcases h3 with h3 | h3
        · subst h3
          obtain ⟨v, _, h4⟩ := hx hw ha
          left; rw [htok] at h4; exact h4
        · exact Or.inr h3
    · left; rw [htok] at h2; exact h2
  | removed j =>
    simp only [processWrite] at h; cases h
    intro a ha
    rcases hn a (remove_pinned_sub _ _ _ ha) with h3 | h3
    · exact Or.inl h3
    · right; simpa using h3

theorem processWrites_ninv {cfg : Cfg σ} {pins : List Nat} {ms : List WMsg} {c c' : Core σ}
    (htok : ∀ k v, cfg.tok k v = k) (hpm : cfg.protectedCap < cfg.mainLimit)
    (h : processWrites cfg pins ms c = .ok c') (hi : CInv cfg ms c) (hn : NInv pins ms c.lru) :
    NInv pins [] c'.lru := by
  induction ms generalizing c with
  | nil => simp [processWrites] at h; cases h; exact hn
  | cons m ms ih =>
    unfold processWrites at h
    split at h
    · rename_i c1 h1
      exact ih h (processWrite_inv hpm h1 hi) (processWrite_ninv htok hpm h1 hi.wf hn)
    · cases h

theorem processReads_pinned (cfg : Cfg σ) (ks : List Nat) (c : Core σ) :
    (processReads cfg ks c).lru.pinned = c.lru.pinned := by
  induction ks generalizing c with
  | nil => rfl
  | cons k ks ih => unfold processReads; rw [ih]; simp [onReadHit, hit_pinned]

theorem tryMaintenance_ninv {cfg : Cfg σ} {c c' : Cache σ}
    (htok : ∀ k v, cfg.tok k v = k) (hpm : cfg.protectedCap < cfg.mainLimit) (hpoll : cfg.poll = false)
    (h : tryMaintenance cfg c = .ok c') (hi : CInv cfg c.wbuf c.core) (hn : NInv c.pins c.wbuf c.core.lru) :
    NInv c'.pins c'.wbuf c'.core.lru := by
  unfold tryMaintenance at h
  split at h
  · cases h; exact hn
  · unfold processPolicyMessages at h
    split at h
    · cases h
    · rename_i core hw; cases h
      have h1 := processWrites_ninv htok hpm hw hi hn
      simp only [hpoll]
      intro a ha
      simp only [Bool.false_eq_true, ↓reduceIte, processReads_pinned] at ha
      exact h1 a ha

theorem access_ninv {cfg : Cfg σ} {c : Cache σ} (op : Op) (hq : ∀ t, op ≠ .unpin t)
    (hn : NInv c.pins c.wbuf c.core.lru) :
    NInv (access cfg c op).1.pins (access cfg c op).1.wbuf (access cfg c op).1.core.lru := by
  have grow : ∀ m, NInv c.pins (c.wbuf ++ [m]) c.core.lru := fun m a ha =>
    (hn a ha).elim Or.inl (fun h => Or.inr (List.mem_append_left _ h))
  cases op with
  | get k => simp only [access]; split <;> exact hn
  | peek k => simp only [access]; split <;> exact hn
  | pin t => simp only [access]; intro a ha; exact (hn a ha).elim (fun h => Or.inl (List.mem_cons_of_mem _ h)) Or.inr
  | unpin t => exact absurd rfl (hq t)
  | notify k => simp only [access]; exact grow _
  | unpinNotify k =>
    simp only [access]; intro a ha
    by_cases e : a = k
    · subst e; right; simp
    · rcases hn a ha with h | h
      · left; exact (List.mem_erase_of_ne e).mpr h
      · right; exact List.mem_append_left _ h
  | upd k v => simp only [access]; split <;> exact hn
  | rem k =>
    simp only [access]; split
    · exact grow _
    · exact hn
  | put k v =>
    simp only [access]; split
    · exact hn
    · exact grow _
  | ins k v =>
    simp only [access]; split
    · exact hn
    · exact grow _

theorem step_ninv {cfg : Cfg σ} {c c' : Cache σ} {op : Op} {r : Ret} {log : List (Nat × Bool)}
    (htok : ∀ k v, cfg.tok k v = k) (hpm : cfg.protectedCap < cfg.mainLimit) (hpoll : cfg.poll = false)
    (hq : ∀ t, op ≠ .unpin t)
    (h : step cfg c op = .ok (c', r, log)) (hi : Inv cfg c) (hn : NInv c.pins c.wbuf c.core.lru) :
    NInv c'.pins c'.wbuf c'.core.lru := by
  have hc := clearLog_inv hi
  have ha := access_inv op hc.core
  have hna := access_ninv (cfg := cfg) (c := c.clearLog) op hq hn
  unfold step at h
  split at h
  · split at h
    · rename_i c2 hm; cases h; exact tryMaintenance_ninv htok hpm hpoll hm ha hna
    · cases h
  · cases h; exact hna

theorem run_ninv {cfg : Cfg σ} {ops : List Op} {c c' : Cache σ}
    (htok : ∀ k v, cfg.tok k v = k) (hpm : cfg.protectedCap < cfg.mainLimit) (hpoll : cfg.poll = false)
    (hq : ∀ op, op ∈ ops → ∀ t, op ≠ .unpin t)
    (h : run cfg c ops = .ok c') (hi : Inv cfg c) (hn : NInv c.pins c.wbuf c.core.lru) :
    NInv c'.pins c'.wbuf c'.core.lru := by
  induction ops generalizing c with
  | nil => simp [run] at h; cases h; exact hn
  | cons op ops ih =>
    unfold run at h
    split at h
    · rename_i c1 r log hs
      exact ih (fun o ho => hq o (List.mem_cons_of_mem _ ho)) h (step_inv hpm hs hi)
        (step_ninv htok hpm hpoll (hq op (by simp)) hs hi hn)
    · cases h

/-! ### the bounds -/

def msgKey : WMsg → Nat
  | .insert k => k
  | .removed k => k
  | .unpinned k => k

theorem resident_tracked {cfg : Cfg σ} {c : Cache σ} (hi : Inv cfg c) {k v : Nat} (hk : sGet c.core.st k = some v) :
    k ∈ c.core.lru.window ∨ k ∈ c.core.lru.probation ∨ k ∈ c.core.lru.prot ∨ k ∈ c.core.lru.pinned ∨
      WMsg.insert k ∈ c.wbuf := by
  have := (hi.core.track k (by simp [hk])).cases
  rw [Lru.has_iff] at this
  rcases this with (h | h | h | h) | h
  · exact Or.inl h
  · exact Or.inr (Or.inl h)
  · exact Or.inr (Or.inr (Or.inl h))
  · exact Or.inr (Or.inr (Or.inr (Or.inl h)))
  · exact Or.inr (Or.inr (Or.inr (Or.inr h)))

/-- Any strategy: resident ≤ window capacity + main capacity + |pinned region| + buffered messages. -/
theorem bound_region {cfg : Cfg σ} {c : Cache σ} (hi : Inv cfg c) :
    c.core.st.length ≤ cfg.windowCap + cfg.mainLimit + c.core.lru.pinned.length + cfg.batch := by
  have hlen := length_le_of_keys_subset c.core.st
    (c.core.lru.window ++ c.core.lru.probation ++ c.core.lru.prot ++ c.core.lru.pinned ++ c.wbuf.map msgKey)
    hi.core.nodup (by
      intro k v hk
      simp only [List.mem_append, List.mem_map]
      rcases resident_tracked hi hk with h | h | h | h | h
      · exact Or.inl (Or.inl (Or.inl (Or.inl h)))
      · exact Or.inl (Or.inl (Or.inl (Or.inr h)))
      · exact Or.inl (Or.inl (Or.inr h))
      · exact Or.inl (Or.inr h)
      · exact Or.inr ⟨_, h, rfl⟩)
  have := hi.core.caps.win; have := hi.core.caps.main; have := hi.wlen
  simp only [List.length_append, List.length_map] at hlen
  omega

/-- `Notify`, protocol followed: resident ≤ window capacity + main capacity + currently pinned +
buffered messages. -/
theorem bound_notify {cfg : Cfg σ} {c : Cache σ} (htok : ∀ k v, cfg.tok k v = k) (hi : Inv cfg c)
    (hn : NInv c.pins c.wbuf c.core.lru) :
    c.core.st.length ≤ cfg.windowCap + cfg.mainLimit + pinnedNow cfg c.pins c.core.st + cfg.batch := by
  have hlen := length_le_pinned_add cfg c.pins c.core.st
    (c.core.lru.window ++ c.core.lru.probation ++ c.core.lru.prot ++ c.wbuf.map msgKey)
    hi.core.nodup (by
      intro k v hk hp
      have hp' : k ∉ c.pins := by
        intro hm; rw [htok] at hp; simp [hm] at hp
      simp only [List.mem_append, List.mem_map]
      rcases resident_tracked hi hk with h | h | h | h | h
      · exact Or.inl (Or.inl (Or.inl h))
      · exact Or.inl (Or.inl (Or.inr h))
      · exact Or.inl (Or.inr h)
      · rcases hn k h with h1 | h1
        · exact absurd h1 hp'
        · exact Or.inr ⟨_, h1, rfl⟩
      · exact Or.inr ⟨_, h, rfl⟩)
  have := hi.core.caps.win; have := hi.core.caps.main; have := hi.wlen
  simp only [List.length_append, List.length_map] at hlen
  omega

end QbiceVerif.TinyLfu
