/-
C13: NaN payloads never reach the hasher (`stream_canon`), and on the ordered fragment the stream does not
depend on the hasher state (`stream_state_indep`).
-/
import QbiceVerif.Lemmas.HashUnordered

namespace QbiceVerif.Hash

theorem ValList.canon_length : ∀ (vs : ValList), vs.canon.length = vs.length
  | .nil => rfl
  | .cons _ vs => by simp [ValList.canon, ValList.length, ValList.canon_length vs]

section
variable {σ : Type} (absorb : σ → Bytes → σ) (finish : σ → Nat)

mutual
theorem stream_canon : ∀ (v : Val) (t : Ty) (st : σ),
    stream absorb finish t v.canon st = stream absorb finish t v st
  | .int _, t, st => by simp [Val.canon]
  | .bool _, t, st => by simp [Val.canon]
  | .char _, t, st => by simp [Val.canon]
  | .f32 b, t, st => by cases t <;> simp [Val.canon, stream, canonF32_idem]
  | .f64 b, t, st => by cases t <;> simp [Val.canon, stream, canonF64_idem]
  | .unit, t, st => by simp [Val.canon]
  | .str _, t, st => by simp [Val.canon]
  | .none, t, st => by simp [Val.canon]
  | .some v, t, st => by cases t <;> simp [Val.canon, stream, stream_canon v]
  | .ok v, t, st => by cases t <;> simp [Val.canon, stream, stream_canon v]
  | .err v, t, st => by cases t <;> simp [Val.canon, stream, stream_canon v]
  | .wrap v, t, st => by cases t <;> simp [Val.canon, stream, stream_canon v]
  | .list vs, t, st => by
    cases t <;> simp [Val.canon, stream, ValList.canon_length, streamAll_canon vs, sumSub_canon vs]
  | .tuple vs, t, st => by cases t <;> simp [Val.canon, stream, streamFields_canon vs]
  | .variant i fs, t, st => by
    cases t <;> simp [Val.canon, stream]
    split <;> simp [streamFields_canon fs]
theorem streamAll_canon : ∀ (vs : ValList) (t : Ty) (st : σ),
    streamAll absorb finish t vs.canon st = streamAll absorb finish t vs st
  | .nil, t, st => by simp [ValList.canon]
  | .cons v vs, t, st => by simp [ValList.canon, streamAll, stream_canon v, streamAll_canon vs]
theorem streamFields_canon : ∀ (vs : ValList) (ts : TyList) (st : σ),
    streamFields absorb finish ts vs.canon st = streamFields absorb finish ts vs st
  | .nil, ts, st => by simp [ValList.canon]
  | .cons v vs, ts, st => by
    cases ts <;> simp [ValList.canon, streamFields, stream_canon v, streamFields_canon vs]
theorem sumSub_canon : ∀ (vs : ValList) (t : Ty) (st : σ) (acc : Nat),
    sumSub absorb finish t vs.canon st acc = sumSub absorb finish t vs st acc
  | .nil, t, st, acc => by simp [ValList.canon]
  | .cons v vs, t, st, acc => by simp [ValList.canon, sumSub, stream_canon v, sumSub_canon vs]
end

mutual
theorem stream_state_indep : ∀ (v : Val) (t : Ty) (s1 s2 : σ), t.ordered = true →
    stream absorb finish t v s1 = stream absorb finish t v s2
  | .int _, t, s1, s2, _ => by cases t <;> simp [stream]
  | .bool _, t, s1, s2, _ => by cases t <;> simp [stream]
  | .char _, t, s1, s2, _ => by cases t <;> simp [stream]
  | .f32 _, t, s1, s2, _ => by cases t <;> simp [stream]
  | .f64 _, t, s1, s2, _ => by cases t <;> simp [stream]
  | .unit, t, s1, s2, _ => by cases t <;> simp [stream]
  | .str _, t, s1, s2, _ => by cases t <;> simp [stream]
  | .none, t, s1, s2, _ => by cases t <;> simp [stream]
  | .some v, t, s1, s2, ho => by
    cases t <;> simp [stream]
    exact stream_state_indep v _ _ _ (by simpa [Ty.ordered] using ho)
  | .ok v, t, s1, s2, ho => by
    cases t <;> simp [stream]
    simp only [Ty.ordered, Bool.and_eq_true] at ho
    exact stream_state_indep v _ _ _ ho.1
  | .err v, t, s1, s2, ho => by
    cases t <;> simp [stream]
    simp only [Ty.ordered, Bool.and_eq_true] at ho
    exact stream_state_indep v _ _ _ ho.2
  | .wrap v, t, s1, s2, ho => by
    cases t <;> simp [stream]
    exact stream_state_indep v _ _ _ (by simpa [Ty.ordered] using ho)
  | .list vs, t, s1, s2, ho => by
    cases t <;> simp [Ty.ordered] at ho <;> simp [stream]
    · exact streamAll_state_indep vs _ _ _ ho
    · exact streamAll_state_indep vs _ _ _ ho
  | .tuple vs, t, s1, s2, ho => by
    cases t <;> simp [stream]
    exact streamFields_state_indep vs _ _ _ (by simpa [Ty.ordered] using ho)
  | .variant i fs, t, s1, s2, ho => by
    cases t <;> simp [stream]
    rename_i dw vars
    simp only [Ty.ordered] at ho
    cases hg : vars.get? i with
    | none => rfl
    | some p =>
      obtain ⟨d, fts⟩ := p
      simp only
      rw [streamFields_state_indep fs _ _ _ (VarList.get?_ordered _ ho hg)]
theorem streamAll_state_indep : ∀ (vs : ValList) (t : Ty) (s1 s2 : σ), t.ordered = true →
    streamAll absorb finish t vs s1 = streamAll absorb finish t vs s2
  | .nil, t, s1, s2, _ => by simp [streamAll]
  | .cons v vs, t, s1, s2, ho => by
    simp only [streamAll]
    rw [stream_state_indep v t s1 s2 ho, streamAll_state_indep vs t _ (absorb s2 (stream absorb finish t v s2)) ho]
theorem streamFields_state_indep : ∀ (vs : ValList) (ts : TyList) (s1 s2 : σ), ts.ordered = true →
    streamFields absorb finish ts vs s1 = streamFields absorb finish ts vs s2
  | .nil, ts, s1, s2, _ => by cases ts <;> simp [streamFields]
  | .cons v vs, ts, s1, s2, ho => by
    cases ts with
    | nil => simp [streamFields]
    | cons t ts =>
      simp only [TyList.ordered, Bool.and_eq_true] at ho
      simp only [streamFields]
      rw [stream_state_indep v t s1 s2 ho.1,
        streamFields_state_indep vs ts _ (absorb s2 (stream absorb finish t v s2)) ho.2]
end

end

end QbiceVerif.Hash
