import QbiceVerif.Lemmas.CancelStep

/-!
# C05 — preservation of the core invariant, event by event (part B: frames pushed and popped)
-/

namespace QbiceVerif.CancelLts

theorem core_spawn {s s' : State} {t : Tid} {k : Key} {cl : Bool} {u : Option Key} (h : InvCore s)
    (hs : step s (.spawn t k cl u) = some s') : InvCore s' := by
  simp only [step] at hs
  split at hs
  · next hc =>
    cases hs
    have hcomp : ∀ k', owner (regOpt s.comp u k) k' = owner s.comp k' := fun k' => owner_regOpt _ _ _ _
    have ho : ∀ t', t' ≠ t → upd s.tasks t (some { frames := [{ key := k, undo := u, lock := false, bp := false }], pc := Pc.start, batch := none, rd := true, wr := false, detached := false }) t' = s.tasks t' := by
      intro t' ht'; simp [upd, ht']
    refine core_frame (t := t) h ho ?_ ?_ (Or.inl ⟨{ frames := [{ key := k, undo := u, lock := false, bp := false }], pc := Pc.start, batch := none, rd := true, wr := false, detached := false }, ⟨?_, ?_, ?_, ?_, ?_, ?_, ?_, ?_⟩⟩) ?_
    · intro k' hk; exact absurd (hcomp k') hk
    · intro k' hk; exact absurd rfl hk
    · simp
    · intro k'; dsimp only; rw [hcomp]; simp [lockKeys_cons]; exact h.fresh_owner hc.1 k'
    · intro k'; simp [bpKeys_cons]; exact h.fresh_bp hc.1 k'
    · simp [lockKeys_cons]
    · simp [bpKeys_cons]
    · simp [Pc.isSession]
    · simp
    · simp
    · refine partial_keep h ho rfl ?_
      intro T0 top rest h0; rw [hc.1] at h0; cases h0
  · cases hs

theorem core_call {s s' : State} {t : Tid} {c : Key} (h : InvCore s) (hs : step s (.call t c) = some s') : InvCore s' := by
  simp only [step] at hs
  cases hT : s.tasks t with
  | none => simp [hT] at hs
  | some T =>
    cases hF : T.frames with
    | nil => simp [hT, hF] at hs
    | cons top rest =>
      simp only [hT, hF] at hs
      split at hs
      · next hc =>
        cases hE : s.comp top.key with
        | none => simp [hE] at hs
        | some e =>
          simp only [hE] at hs
          cases hs
          refine core_task_gen h hT rfl (fun k' => owner_upd_regs _ _ _ _ hE k') rfl rfl ?_ ?_ ?_ ?_ ?_ ?_
          · simp [lockKeys_cons, hF]
          · simp [bpKeys_cons, hF]
          · simp [Pc.isSession]
          · intro hd; have := h.detachedPc t T hT hd; simp [hc.1, Pc.detachable] at this
          · intro hd; have := h.detachedPc t T hT hd; simp [hc.1, Pc.detachable] at this
          · intro top' rest' _ hpc; simp [hc.1] at hpc
      · cases hs

theorem core_hit {s s' : State} {t : Tid} (h : InvCore s) (hs : step s (.hit t) = some s') : InvCore s' := by
  simp only [step] at hs
  cases hT : s.tasks t with
  | none => simp [hT] at hs
  | some T =>
    cases hF : T.frames with
    | nil => simp [hT, hF] at hs
    | cons top rest =>
      simp only [hT, hF] at hs
      split at hs
      · next hc =>
        have hcomp : ∀ k', owner (defuseOpt s.comp top.undo top.key) k' = owner s.comp k' := fun k' => owner_defuseOpt _ _ _ _
        cases rest with
        | nil =>
          simp only at hs
          cases hs
          refine core_end (T := T) h hT (endTask_tasks ..) hcomp rfl rfl ?_ ?_ (by simp [hc.1])
          · simp [hF, lockKeys_cons, hc.2.1]
          · simp [hF, bpKeys_cons, hc.2.2]
        | cons r rs =>
          simp only at hs
          cases hs
          refine core_task_gen h hT rfl hcomp rfl rfl ?_ ?_ ?_ ?_ ?_ ?_
          · simp [hF, lockKeys_cons, hc.2.1]
          · simp [hF, bpKeys_cons, hc.2.2]
          · simp [Pc.isSession]
          · intro hd; have := h.detachedPc t T hT hd; simp [hc.1, Pc.detachable] at this
          · intro hd; have := h.detachedPc t T hT hd; simp [hc.1, Pc.detachable] at this
          · intro top' rest' _ hpc; simp [hc.1] at hpc
      · cases hs

theorem core_sFinish {s s' : State} {t : Tid} (h : InvCore s) (hs : step s (.sFinish t) = some s') : InvCore s' := by
  simp only [step] at hs
  cases hT : s.tasks t with
  | none => simp [hT] at hs
  | some T =>
    cases hB : T.batch with
    | none => simp [hT, hB] at hs
    | some b =>
      simp only [hT, hB] at hs
      split at hs
      · next hc =>
        cases hs
        have hfr : T.frames = [] := (h.shape t T hT).mp (by simp [hc, Pc.isSession])
        refine core_end (T := T) h hT (endTask_tasks ..) (fun _ => rfl) rfl rfl ?_ ?_ (by simp [hc])
        · simp [hfr]
        · simp [hfr]
      · cases hs

end QbiceVerif.CancelLts
