/-
Lemmas about the extended core engine model, part 6: `clean_spec` (the whole clean path), and running
an executor (`observe`, `askMany`, `runProg`).
-/
import QbiceVerif.Lemmas.EngineCoreFw5
namespace Qbice.CoreFw
open Qbice.Core (Prog Err Write SetRes allVals evalProg applyWorld Sat TraceOK)

theorem Frame.setDirty (p : Program) (s : St) (dirty' : Key → Key → Bool) :
    Frame p s { s with dirty := dirty' } :=
  Frame.of_nodes (s := s) (s' := { s with dirty := dirty' }) rfl rfl rfl (fun _ => Or.inl rfl)

/-- the clean path of `repair_query`: every recorded callee has been found unchanged -/
theorem clean_spec {p : Program} (wf : WF p) {s1 : St} (i1 : Inv p s1) {k : Key} {n : Node}
    (k1 : s1.nodes k = some n) (hnv : n.lastVerified ≠ s1.epoch) (moved : Bool) (cl : List Key)
    (hall : ∀ d o, (d, o) ∈ n.deps → DepOK s1 n moved d o)
    (hw : moved = true → ∃ d o nd, (d, o) ∈ n.deps ∧ s1.nodes d = some nd ∧ nd.kind ≠ .firewall ∧
      nd.tfc ≠ n.seen d) :
    let s2 := setNode (clearDirtyList s1 k cl) k (cleanNode s1 n moved)
    Inv p s2 ∧ Frame p s1 s2 ∧ Touches (k + 1) s1 s2 ∧ cur p s1 k = some n.value ∧
      ∃ n2, s2.nodes k = some n2 ∧ n2.value = n.value ∧ n2.lastVerified = s2.epoch := by
  intro s2
  -- the node first, then the dirty set
  have key : ∃ n', cleanNode s1 n moved = n' ∧ n'.value = n.value ∧ n'.deps = n.deps ∧
      n'.lastVerified = s1.epoch ∧ n'.pendingBP = n.pendingBP ∧ Inv p (setNode s1 k n') ∧ Frame p s1 (setNode s1 k n') ∧
      ∀ d o, (d, o) ∈ n.deps → ∃ nd, (setNode s1 k n').nodes d = some nd ∧ nd.value = o ∧
        (nd.kind ≠ .firewall → nd.tfc = n'.seen d) ∧ Solid (setNode s1 k n') d := by
    have depLt : ∀ d o, (d, o) ∈ n.deps → d ≠ k := fun d o hm => by
      have := (i1.down k n k1 d o hm).1; komega
    cases moved with
    | true =>
      have hkp : n.kind ≠ .projection := by
        intro hkp
        obtain ⟨wd, wo, wnd, wm, wnode, wk, wne⟩ := hw rfl
        rcases i1.pjKinds k n k1 hkp wd wo wnd wm wnode with h | ⟨h, hs⟩
        · exact wk h
        · exact wne (i1.pjSeen k n wd wo wnd k1 wm wnode h hs).symm
      obtain ⟨ia, fa, sa⟩ := i1.setMoved k1 hkp hnv
        (fun d o hm => by obtain ⟨nd, a, b, c, _⟩ := hall d o hm; exact ⟨nd, a, b, c⟩) (hw rfl)
      refine ⟨{ n with lastVerified := s1.epoch, tfc := recomputeTfc s1 n.deps, seen := tfcOf s1 },
        by simp [cleanNode], rfl, rfl, rfl, rfl, ia, fa, ?_⟩
      intro d o hm
      obtain ⟨nd, hnd, hvd, _, _⟩ := hall d o hm
      refine ⟨nd, by simp only [setNode, if_neg (depLt d o hm)]; exact hnd, hvd, fun _ => ?_, sa d o hm⟩
      show nd.tfc = tfcOf s1 d
      simp [tfcOf, hnd]
    | false =>
      have hval : ∀ d o, (d, o) ∈ n.deps →
          ∃ nd, s1.nodes d = some nd ∧ nd.value = o ∧ (nd.kind ≠ .firewall → nd.tfc = n.seen d) := by
        intro d o hm
        obtain ⟨nd, a, b, _, e⟩ := hall d o hm
        exact ⟨nd, a, b, e rfl⟩
      have hsub : ∀ d o, (d, o) ∈ n.deps → Solid s1 d := fun d o hm => by
        obtain ⟨_, _, _, c, _⟩ := hall d o hm; exact c
      have ia := i1.setSame (n' := { n with lastVerified := s1.epoch }) k1 rfl rfl rfl rfl rfl
        (Or.inr ⟨rfl, hval, hsub⟩) (Or.inl rfl)
      have fa := Frame.setSame (p := p) (n' := { n with lastVerified := s1.epoch }) k1 rfl rfl rfl rfl rfl rfl id
      refine ⟨{ n with lastVerified := s1.epoch }, by simp [cleanNode], rfl, rfl, rfl, rfl, ia, fa, ?_⟩
      intro d o hm
      obtain ⟨nd, hnd, hvd, hacc⟩ := hval d o hm
      exact ⟨nd, by simp only [setNode, if_neg (depLt d o hm)]; exact hnd, hvd, hacc, fa.solid (hsub d o hm)⟩
  obtain ⟨n', hn', hv', hd', hlv', hpb', ia, fa, hrow⟩ := key
  have e2 : s2 = { setNode s1 k n' with dirty := fun a b => if a = k ∧ b ∈ cl then false else s1.dirty a b } := by
    simp only [s2, hn']; rfl
  have i2 : Inv p s2 := by
    rw [e2]
    apply ia.setDirty
    intro x nx y o hx hm hcl _
    have hxk : x = k := by
      false_or_by_contra
      rename_i hne
      have hcl : (if x = k ∧ y ∈ cl then false else s1.dirty x y) = false := hcl
      rw [if_neg (fun h => hne h.1)] at hcl
      rename_i hdirty
      have hdirty : s1.dirty x y = true := hdirty
      rw [hcl] at hdirty; cases hdirty
    subst hxk
    have hx' : (setNode s1 x n').nodes x = some nx := hx
    simp only [setNode, if_true] at hx'
    cases hx'
    rw [hd'] at hm
    obtain ⟨nd, hnd, hvd, hacc, hs⟩ := hrow y o hm
    exact ⟨nd, hnd, hvd, hacc, fun _ => hs.nGood⟩
  have f2 : Frame p s1 s2 := by
    rw [e2]; exact fa.trans (Frame.setDirty p _ _)
  have hk2 : s2.nodes k = some n' := by rw [e2]; simp [setNode]
  refine ⟨i2, f2, ?_, ?_, n', hk2, hv', by rw [hlv', f2.epoch]⟩
  · rw [e2]
    refine ⟨?_, ?_⟩
    · intro x hx
      simp only [setNode]
      rw [if_neg (by komega)]
    · intro x n0 h0 hp0
      simp only [setNode]
      by_cases e : x = k
      · subst e
        rw [k1] at h0; cases h0
        exact ⟨n', if_pos rfl, by rw [hpb']; exact hp0⟩
      · exact ⟨n0, by rw [if_neg e]; exact h0, hp0⟩
  · obtain ⟨n2, hn2, hc⟩ := solid_correct wf i2 (i2.solid k n' hk2 (by rw [hlv', f2.epoch]))
    rw [hk2] at hn2; cases hn2
    rw [← f2.cur, hc, hv']

-- ------------------------------------------------------------------ running an executor

/-- what is known about the reads registered so far by the running executor of `k` -/
def AccOK (p : Program) (k : Key) (s : St) (a : Acc) : Prop :=
  (a.deps.map (·.1)).Nodup ∧ (∀ f, f ∈ a.tfc → f < k) ∧
    ∀ d o, (d, o) ∈ a.deps →
      d < k ∧ cur p s d = some o ∧ ∃ nd, s.nodes d = some nd ∧ nd.value = o ∧
        nd.lastVerified = s.epoch ∧ a.seen d = nd.tfc ∧ (nd.kind = .firewall → d ∈ a.tfc) ∧
        (nd.kind = .normal ∨ nd.kind = .projection → ∀ f, f ∈ nd.tfc → f ∈ a.tfc)

theorem AccOK.nil (p : Program) (k : Key) (s : St) : AccOK p k s {} := by
  refine ⟨by simp, ?_, ?_⟩
  · intro f hf; cases hf
  · intro d o hm; cases hm

theorem AccOK.frame {p : Program} {k : Key} {s s' : St} {a : Acc} (h : AccOK p k s a) (inv : Inv p s)
    (f : Frame p s s') : AccOK p k s' a := by
  refine ⟨h.1, h.2.1, ?_⟩
  intro d o hm
  obtain ⟨h1, h2, nd, hnd, hv, hver, hse, hfw, hnm⟩ := h.2.2 d o hm
  obtain ⟨nd', hnd', a1, _, a3, _, a5, _⟩ := f.keep d nd (inv.solid d nd hnd hver) hnd
  obtain ⟨nd'', hnd'', hver'⟩ := f.verified ⟨nd, hnd, hver⟩
  rw [hnd'] at hnd''; cases hnd''
  exact ⟨h1, by rw [f.cur]; exact h2, nd', hnd', by rw [a1, hv], hver', by rw [a3]; exact hse,
    fun hk => hfw (by rw [← a5]; exact hk), fun hk => by rw [a3]; exact hnm (by rw [← a5]; exact hk)⟩

theorem observe_spec {p : Program} {k : Key} {s : St} (inv : Inv p s) {a : Acc} {d : Key} {v : Val}
    (h : AccOK p k s a) (hd : d < k) (hc : cur p s d = some v) {nd : Node}
    (hnd : s.nodes d = some nd) (hv : nd.value = v) (hver : nd.lastVerified = s.epoch) :
    AccOK p k s (observe s a d v) ∧ (d, v) ∈ (observe s a d v).deps ∧
      ∀ e, e ∈ a.deps → e ∈ (observe s a d v).deps := by
  have hfront : front s d = contrib nd.kind d nd.tfc := front_of_node hnd
  have htfc : ∀ f, f ∈ (observe s a d v).tfc ↔ f ∈ front s d ∨ f ∈ a.tfc := fun f => mem_unionSorted
  have hseen : ∀ x, (observe s a d v).seen x = if x = d then nd.tfc else a.seen x := by
    intro x; simp [observe, tfcOf, hnd]
  have hbelow : ∀ f, f ∈ (observe s a d v).tfc → f < k := by
    intro f hf
    rcases (htfc f).1 hf with hf | hf
    · have := inv.front_lt hf; komega
    · exact h.2.1 f hf
  have entry : ∀ d' o', (d' = d ∧ o' = v) ∨ (d', o') ∈ a.deps →
      d' < k ∧ cur p s d' = some o' ∧ ∃ nd', s.nodes d' = some nd' ∧ nd'.value = o' ∧
        nd'.lastVerified = s.epoch ∧ (observe s a d v).seen d' = nd'.tfc ∧
        (nd'.kind = .firewall → d' ∈ (observe s a d v).tfc) ∧
        (nd'.kind = .normal ∨ nd'.kind = .projection → ∀ f, f ∈ nd'.tfc → f ∈ (observe s a d v).tfc) := by
    intro d' o' hm
    have base : d' < k ∧ cur p s d' = some o' ∧ ∃ nd', s.nodes d' = some nd' ∧ nd'.value = o' ∧
        nd'.lastVerified = s.epoch ∧ (d' ≠ d → a.seen d' = nd'.tfc) ∧
        (nd'.kind = .firewall → d' = d ∨ d' ∈ a.tfc) ∧
        (nd'.kind = .normal ∨ nd'.kind = .projection → d' = d ∨ ∀ f, f ∈ nd'.tfc → f ∈ a.tfc) := by
      rcases hm with ⟨rfl, rfl⟩ | hm
      · exact ⟨hd, hc, nd, hnd, hv, hver, fun h => absurd rfl h, fun _ => Or.inl rfl, fun _ => Or.inl rfl⟩
      · obtain ⟨a1, a2, nd', a3, a4, a5, a6, a7, a8⟩ := h.2.2 d' o' hm
        exact ⟨a1, a2, nd', a3, a4, a5, fun _ => a6, fun hk => Or.inr (a7 hk), fun hk => Or.inr (a8 hk)⟩
    obtain ⟨b1, b2, nd', b3, b4, b5, b6, b7, b8⟩ := base
    refine ⟨b1, b2, nd', b3, b4, b5, ?_, ?_, ?_⟩
    · rw [hseen]
      by_cases e : d' = d
      · subst e; rw [if_pos rfl]; rw [hnd] at b3; cases b3; rfl
      · rw [if_neg e]; exact b6 e
    · intro hk
      rcases b7 hk with e | h'
      · subst e; rw [hnd] at b3; cases b3
        exact (htfc d').2 (Or.inl (by rw [hfront, hk]; simp [contrib]))
      · exact (htfc d').2 (Or.inr h')
    · intro hk f hf
      rcases b8 hk with e | h'
      · subst e; rw [hnd] at b3; cases b3
        exact (htfc f).2 (Or.inl (by rw [hfront]; rcases hk with hk | hk <;> rw [hk] <;> simpa [contrib] using hf))
      · exact (htfc f).2 (Or.inr (h' f hf))
  by_cases hany : a.deps.any (fun e => e.1 == d) = true
  · have hdeps : (observe s a d v).deps = a.deps := by simp [observe, hany]
    obtain ⟨o, hm⟩ := (Qbice.Core.any_key_iff a.deps d).1 hany
    have := (h.2.2 d o hm).2.1
    rw [hc] at this; cases this
    refine ⟨⟨by rw [hdeps]; exact h.1, hbelow, ?_⟩, by rw [hdeps]; exact hm, fun e he => by rw [hdeps]; exact he⟩
    intro d' o' hm'
    rw [hdeps] at hm'
    exact entry d' o' (Or.inr hm')
  · have hdeps : (observe s a d v).deps = a.deps ++ [(d, v)] := by simp [observe, hany]
    have hnot : ∀ o, (d, o) ∉ a.deps := fun o hm => hany ((Qbice.Core.any_key_iff a.deps d).2 ⟨o, hm⟩)
    refine ⟨⟨?_, hbelow, ?_⟩, by rw [hdeps]; simp, fun e he => by rw [hdeps]; simp [he]⟩
    · rw [hdeps, List.map_append, List.nodup_append]
      refine ⟨h.1, by simp, ?_⟩
      intro x hx y hy hxy
      simp only [List.map_cons, List.map_nil, List.mem_singleton] at hy
      subst hy; subst hxy
      rw [List.mem_map] at hx
      obtain ⟨⟨a1, a2⟩, hm, rfl⟩ := hx
      exact hnot a2 hm
    · intro d' o' hm'
      rw [hdeps, List.mem_append, List.mem_singleton] at hm'
      rcases hm' with hm' | e
      · exact entry d' o' (Or.inr hm')
      · cases e; exact entry d v (Or.inl ⟨rfl, rfl⟩)

/-- the members of an unordered group, queried one after the other -/
theorem askMany_spec {p : Program} {q : Q} {k : Key} (hq : QSpec p q k) :
    ∀ (ks : List Key) (a : Acc) (s : St), (∀ d, d ∈ ks → d < k) → Inv p s → AccOK p k s a →
      Sat (askMany q ks a s) (fun r =>
        Inv p r.2.2 ∧ Frame p s r.2.2 ∧ Touches k s r.2.2 ∧ AccOK p k r.2.2 r.2.1 ∧
        (∀ e, e ∈ a.deps → e ∈ r.2.1.deps) ∧
        ∀ rec : Key → Option Val, (∀ d o, (d, o) ∈ r.2.1.deps → rec d = some o) →
          allVals rec ks = some r.1) := by
  intro ks
  induction ks with
  | nil =>
    intro a s _ inv hacc
    simp only [askMany]
    exact ⟨inv, Frame.refl p s, Touches.refl _ s, hacc, fun _ h => h, fun _ _ => rfl⟩
  | cons d rest ih =>
    intro a s hb inv hacc
    have hd : d < k := hb d (List.mem_cons_self ..)
    have hqd := hq d hd s inv
    simp only [askMany]
    cases hr : q d s with
    | error e => rw [hr] at hqd; simpa [Sat] using hqd
    | ok r =>
      obtain ⟨v, s1⟩ := r
      rw [hr] at hqd
      obtain ⟨i1, f1, t1, c1, nd, hnd, hvd, hver⟩ := hqd
      simp only at i1 f1 t1 c1 hnd hvd hver ⊢
      obtain ⟨hacc2, hmem, hsub⟩ := observe_spec i1 (hacc.frame inv f1) hd (by rw [f1.cur]; exact c1) hnd hvd hver
      have hrest := ih (observe s1 a d v) s1 (fun d' hm => hb d' (List.mem_cons_of_mem _ hm)) i1 hacc2
      cases hr2 : askMany q rest (observe s1 a d v) s1 with
      | error e => rw [hr2] at hrest; simpa [Sat] using hrest
      | ok r2 =>
        obtain ⟨vs, a2, s2⟩ := r2
        rw [hr2] at hrest
        obtain ⟨i2, f2, t2, a2ok, sub2, hall⟩ := hrest
        simp only at i2 f2 t2 a2ok sub2 hall ⊢
        refine ⟨i2, f1.trans f2, (t1.mono (by komega)).trans t2, a2ok, fun e he => sub2 e (hsub e he), ?_⟩
        intro rec hrec
        simp only [allVals, hrec d v (sub2 _ hmem), hall rec hrec]

theorem runProg_spec {p : Program} {q : Q} {k : Key} (hq : QSpec p q k) :
    ∀ (prog : Prog) (a : Acc) (s : St), prog.Below k → Inv p s → AccOK p k s a →
      Sat (runProg q prog a s) (fun r =>
        Inv p r.2.2 ∧ Frame p s r.2.2 ∧ Touches k s r.2.2 ∧ AccOK p k r.2.2 r.2.1 ∧
        (∀ e, e ∈ a.deps → e ∈ r.2.1.deps) ∧ TraceOK prog r.2.1.deps r.1) := by
  intro prog
  induction prog with
  | ret v =>
    intro a s _ inv hacc
    simp only [runProg]
    exact ⟨inv, Frame.refl p s, Touches.refl _ s, hacc, fun _ h => h, fun _ _ => rfl⟩
  | ask d cont ih =>
    intro a s hb inv hacc
    obtain ⟨hd, hc⟩ := hb
    have hqd := hq d hd s inv
    simp only [runProg]
    cases hr : q d s with
    | error e => rw [hr] at hqd; simpa [Sat] using hqd
    | ok r =>
      obtain ⟨v, s1⟩ := r
      rw [hr] at hqd
      obtain ⟨i1, f1, t1, c1, nd, hnd, hvd, hver⟩ := hqd
      simp only at i1 f1 t1 c1 hnd hvd hver ⊢
      obtain ⟨hacc2, hmem, hsub⟩ := observe_spec i1 (hacc.frame inv f1) hd (by rw [f1.cur]; exact c1) hnd hvd hver
      refine (ih v (observe s1 a d v) s1 (hc v) i1 hacc2).mono ?_
      rintro ⟨v', a2, s2⟩ ⟨i2, f2, t2, a2ok, sub2, tr2⟩
      refine ⟨i2, f1.trans f2, (t1.mono (Nat.succ_le_of_lt hd)).trans t2, a2ok, fun e he => sub2 e (hsub e he), ?_⟩
      intro rec hrec
      simp only [evalProg, hrec d v (sub2 _ hmem)]
      exact tr2 rec hrec
  | askAll ks cont ih =>
    intro a s hb inv hacc
    obtain ⟨hd, hc⟩ := hb
    have hall := askMany_spec hq ks a s hd inv hacc
    simp only [runProg]
    cases hr : askMany q ks a s with
    | error e => rw [hr] at hall; simpa [Sat] using hall
    | ok r =>
      obtain ⟨vs, a1, s1⟩ := r
      rw [hr] at hall
      obtain ⟨i1, f1, t1, a1ok, sub1, hvals⟩ := hall
      simp only at i1 f1 t1 a1ok sub1 hvals ⊢
      refine (ih vs a1 s1 (hc _) i1 a1ok).mono ?_
      rintro ⟨v', a2, s2⟩ ⟨i2, f2, t2, a2ok, sub2, tr2⟩
      refine ⟨i2, f1.trans f2, t1.trans t2, a2ok, fun e he => sub2 e (sub1 e he), ?_⟩
      intro rec hrec
      simp only [evalProg, hvals rec (fun d o hm => hrec d o (sub2 _ hm))]
      exact tr2 rec hrec

-- ------------------------------------------------------------------ which keys an executor records

theorem observe_keys {s : St} {a : Acc} {d : Key} {v : Val} {e : Key × Val}
    (h : e ∈ (observe s a d v).deps) : e ∈ a.deps ∨ e.1 = d := by
  simp only [observe] at h
  split at h
  · exact Or.inl h
  · rw [List.mem_append, List.mem_singleton] at h
    rcases h with h | h
    · exact Or.inl h
    · subst h; exact Or.inr rfl

theorem askMany_reads (q : Q) (P : Key → Prop) :
    ∀ (ks : List Key) (a : Acc) (s : St), (∀ d, d ∈ ks → P d) → (∀ e, e ∈ a.deps → P e.1) →
      ∀ r, askMany q ks a s = .ok r → ∀ e, e ∈ r.2.1.deps → P e.1 := by
  intro ks
  induction ks with
  | nil => intro a s _ ha r h; simp only [askMany] at h; cases h; exact ha
  | cons d rest ih =>
    intro a s hk ha r h
    simp only [askMany] at h
    cases hq : q d s with
    | error e => rw [hq] at h; cases h
    | ok r1 =>
      obtain ⟨v, s1⟩ := r1
      rw [hq] at h
      simp only at h
      cases hr : askMany q rest (observe s1 a d v) s1 with
      | error e => rw [hr] at h; cases h
      | ok r2 =>
        obtain ⟨vs, a2, s2⟩ := r2
        rw [hr] at h
        cases h
        refine ih (observe s1 a d v) s1 (fun d' hd' => hk d' (List.mem_cons_of_mem _ hd')) ?_ (vs, a2, s2) hr
        intro e he
        rcases observe_keys he with he | he
        · exact ha e he
        · rw [he]; exact hk d (List.mem_cons_self ..)

/-- every recorded callee of a run is a key the executor can ask -/
theorem runProg_reads (q : Q) (P : Key → Prop) :
    ∀ (prog : Prog) (a : Acc) (s : St), ProgAll P prog → (∀ e, e ∈ a.deps → P e.1) →
      ∀ r, runProg q prog a s = .ok r → ∀ e, e ∈ r.2.1.deps → P e.1 := by
  intro prog
  induction prog with
  | ret v => intro a s _ ha r h; simp only [runProg] at h; cases h; exact ha
  | ask d cont ih =>
    intro a s hp ha r h
    obtain ⟨hd, hc⟩ := hp
    simp only [runProg] at h
    cases hq : q d s with
    | error e => rw [hq] at h; cases h
    | ok r1 =>
      obtain ⟨v, s1⟩ := r1
      rw [hq] at h
      refine ih v (observe s1 a d v) s1 (hc v) ?_ r h
      intro e he
      rcases observe_keys he with he | he
      · exact ha e he
      · rw [he]; exact hd
  | askAll ks cont ih =>
    intro a s hp ha r h
    obtain ⟨hd, hc⟩ := hp
    simp only [runProg] at h
    cases hq : askMany q ks a s with
    | error e => rw [hq] at h; cases h
    | ok r1 =>
      obtain ⟨vs, a1, s1⟩ := r1
      rw [hq] at h
      exact ih vs a1 s1 (hc vs) (askMany_reads q P ks a s hd ha _ hq) r h

-- ------------------------------------------------------------------ static read sequences (class B)

/-- a node verified in this epoch keeps its frontier contribution -/
theorem front_vkeep {p : Program} {s s' : St} (i : Inv p s) (i' : Inv p s') (f : Frame p s s') {d : Key}
    {nd : Node} (hnd : s.nodes d = some nd) (hv : nd.lastVerified = s.epoch) : front s' d = front s d := by
  obtain ⟨nd', hnd', _, ht⟩ := f.vkeep d nd hnd hv
  obtain ⟨dd, hp, hk, _⟩ := i.kind d nd hnd
  obtain ⟨dd', hp', hk', _⟩ := i'.kind d nd' hnd'
  rw [hp] at hp'; cases hp'
  simp only [front, hnd, hnd', ht, ← hk, ← hk']

theorem observe_keys_eq (s : St) (a : Acc) (d : Key) (v : Val) :
    (observe s a d v).deps.map (·.1) =
      if (a.deps.map (·.1)).contains d then a.deps.map (·.1) else a.deps.map (·.1) ++ [d] := by
  have h : a.deps.any (fun e => e.1 == d) = (a.deps.map (·.1)).contains d := by
    induction a.deps with
    | nil => rfl
    | cons e rest ih =>
      simp only [List.any_cons, List.map_cons, List.contains_cons, ih]
      congr 1
      exact Bool.beq_comm
  simp only [observe, h]
  split <;> simp

theorem askMany_static {p : Program} {q : Q} {k : Key} (hq : QSpec p q k) :
    ∀ (ks : List Key) (a : Acc) (s : St), (∀ d, d ∈ ks → d < k) → Inv p s → AccOK p k s a →
      Sat (askMany q ks a s) (fun r =>
        r.2.1.deps.map (·.1) = recordKeys ks (a.deps.map (·.1)) ∧
          r.2.1.tfc = foldTfc (front r.2.2) ks a.tfc) := by
  intro ks
  induction ks with
  | nil => intro a s _ _ _; simp only [askMany]; exact ⟨rfl, rfl⟩
  | cons d rest ih =>
    intro a s hb inv hacc
    have hd : d < k := hb d (List.mem_cons_self ..)
    have hqd := hq d hd s inv
    simp only [askMany]
    cases hr : q d s with
    | error e => rw [hr] at hqd; simpa [Sat] using hqd
    | ok r =>
      obtain ⟨v, s1⟩ := r
      rw [hr] at hqd
      obtain ⟨i1, f1, t1, c1, nd, hnd, hvd, hver⟩ := hqd
      simp only at i1 f1 t1 c1 hnd hvd hver ⊢
      obtain ⟨hacc2, _, _⟩ := observe_spec i1 (hacc.frame inv f1) hd (by rw [f1.cur]; exact c1) hnd hvd hver
      have hb' : ∀ d', d' ∈ rest → d' < k := fun d' hm => hb d' (List.mem_cons_of_mem _ hm)
      have hrest := ih (observe s1 a d v) s1 hb' i1 hacc2
      have hspec := askMany_spec hq rest (observe s1 a d v) s1 hb' i1 hacc2
      cases hr2 : askMany q rest (observe s1 a d v) s1 with
      | error e => rw [hr2] at hrest; simpa [Sat] using hrest
      | ok r2 =>
        obtain ⟨vs, a2, s2⟩ := r2
        rw [hr2] at hrest hspec
        obtain ⟨h1, h2⟩ := hrest
        obtain ⟨i2, f2, _⟩ := hspec
        simp only at h1 h2 i2 f2 ⊢
        refine ⟨?_, ?_⟩
        · rw [h1, observe_keys_eq]; rfl
        · rw [h2]
          show foldTfc (front s2) rest (Qbice.Engine.unionSorted (front s1 d) a.tfc) =
            foldTfc (front s2) rest (Qbice.Engine.unionSorted (front s2 d) a.tfc)
          rw [front_vkeep i1 i2 f2 hnd hver]

/-- a static executor records exactly its read sequence and accumulates the contributions of its
    callees in that order -/
theorem runProg_static {p : Program} {q : Q} {k : Key} (hq : QSpec p q k) :
    ∀ (prog : Prog) (ks : List Key) (a : Acc) (s : St), prog.Below k → ProgStatic prog ks → Inv p s →
      AccOK p k s a →
      Sat (runProg q prog a s) (fun r =>
        r.2.1.deps.map (·.1) = recordKeys ks (a.deps.map (·.1)) ∧
          r.2.1.tfc = foldTfc (front r.2.2) ks a.tfc) := by
  intro prog
  induction prog with
  | ret v =>
    intro ks a s _ hst _ _
    simp only [ProgStatic] at hst
    subst hst
    simp only [runProg]
    exact ⟨rfl, rfl⟩
  | ask d cont ih =>
    intro ks a s hb hst inv hacc
    obtain ⟨hd, hc⟩ := hb
    obtain ⟨rest, rfl, hst'⟩ := hst
    have hqd := hq d hd s inv
    simp only [runProg]
    cases hr : q d s with
    | error e => rw [hr] at hqd; simpa [Sat] using hqd
    | ok r =>
      obtain ⟨v, s1⟩ := r
      rw [hr] at hqd
      obtain ⟨i1, f1, t1, c1, nd, hnd, hvd, hver⟩ := hqd
      simp only at i1 f1 t1 c1 hnd hvd hver ⊢
      obtain ⟨hacc2, _, _⟩ := observe_spec i1 (hacc.frame inv f1) hd (by rw [f1.cur]; exact c1) hnd hvd hver
      have hrest := ih v rest (observe s1 a d v) s1 (hc v) (hst' v) i1 hacc2
      have hspec := runProg_spec hq (cont v) (observe s1 a d v) s1 (hc v) i1 hacc2
      cases hr2 : runProg q (cont v) (observe s1 a d v) s1 with
      | error e => rw [hr2] at hrest; simpa [Sat] using hrest
      | ok r2 =>
        obtain ⟨v', a2, s2⟩ := r2
        rw [hr2] at hrest hspec
        obtain ⟨h1, h2⟩ := hrest
        obtain ⟨i2, f2, _⟩ := hspec
        simp only at h1 h2 i2 f2 ⊢
        refine ⟨?_, ?_⟩
        · rw [h1, observe_keys_eq]; rfl
        · rw [h2]
          show foldTfc (front s2) rest (Qbice.Engine.unionSorted (front s1 d) a.tfc) =
            foldTfc (front s2) rest (Qbice.Engine.unionSorted (front s2 d) a.tfc)
          rw [front_vkeep i1 i2 f2 hnd hver]
  | askAll ks' cont ih =>
    intro ks a s hb hst inv hacc
    obtain ⟨hd, hc⟩ := hb
    obtain ⟨rest, rfl, hst'⟩ := hst
    have hall := askMany_static hq ks' a s hd inv hacc
    have hallS := askMany_spec hq ks' a s hd inv hacc
    simp only [runProg]
    cases hr : askMany q ks' a s with
    | error e => rw [hr] at hall; simpa [Sat] using hall
    | ok r =>
      obtain ⟨vs, a1, s1⟩ := r
      rw [hr] at hall hallS
      obtain ⟨g1, g2⟩ := hall
      obtain ⟨i1, f1, _, a1ok, _⟩ := hallS
      simp only at g1 g2 i1 f1 a1ok ⊢
      have hrest := ih vs rest a1 s1 (hc vs) (hst' vs) i1 a1ok
      have hspec := runProg_spec hq (cont vs) a1 s1 (hc vs) i1 a1ok
      cases hr2 : runProg q (cont vs) a1 s1 with
      | error e => rw [hr2] at hrest; simpa [Sat] using hrest
      | ok r2 =>
        obtain ⟨v', a2, s2⟩ := r2
        rw [hr2] at hrest hspec
        obtain ⟨h1, h2⟩ := hrest
        obtain ⟨i2, f2, _, a2ok, _⟩ := hspec
        simp only at h1 h2 i2 f2 a2ok ⊢
        refine ⟨?_, ?_⟩
        · rw [h1, g1]; simp [recordKeys, List.foldl_append]
        · rw [h2, g2]
          have : foldTfc (front s1) ks' a.tfc = foldTfc (front s2) ks' a.tfc := by
            apply foldTfc_congr
            intro d hdm
            -- every member of the group is verified in `s1`
            obtain ⟨nd, hnd, hv⟩ : ∃ nd, s1.nodes d = some nd ∧ nd.lastVerified = s1.epoch := by
              have hmem : d ∈ a1.deps.map (·.1) := by rw [g1]; exact mem_recordKeys.2 (Or.inr hdm)
              rw [List.mem_map] at hmem
              obtain ⟨⟨d', o⟩, hm, rfl⟩ := hmem
              obtain ⟨_, _, nd, hnd, _, hv, _⟩ := a1ok.2.2 d' o hm
              exact ⟨nd, hnd, hv⟩
            exact (front_vkeep i1 i2 f2 hnd hv).symm
          rw [this]
          simp [foldTfc, List.foldl_append]

end Qbice.CoreFw
