import QbiceVerif.Lemmas.EngineLtsCT2

/-! Termination of the `CT` LTS: a variant that strictly decreases on every event, and
deadlock-freedom (a state with an unfinished request has an enabled event). -/

namespace QbiceVerif.Lts.CT

/-! ### the variant

Lexicographic: `Phi` (the work the requests can still cause; never increases, strictly decreases on
every step of an owner, on every cancellation and on every step towards a hit of a verified key),
then `Mu2` (the distance of the not yet verified requests to their `entry_sync`; a waiter woken by a
cancelled owner goes round the loop again, which `Phi` of that owner pays for).  Encoded in one
number `Mvar = 5 * Phi * (Phi + 1) + Mu2` using `Mu2 ≤ 9 * Phi`. -/

/-- an upper bound on the total potential of the requests an executor of a key `< k` can cause -/
def Q (B : Nat) : Nat → Nat
  | 0 => 0
  | k + 1 => Q B k + (10 + B * (1 + Q B k))

/-- potential of a request on an unverified key before it owns the entry -/
def P (B k : Nat) : Nat := 10 + B * (1 + Q B k)

theorem P_le_Q {B d k : Nat} (h : d < k) : P B d ≤ Q B k := by
  induction k with
  | zero => omega
  | succ k ih =>
    simp only [Q]
    by_cases hd : d = k
    · subst hd; simp only [P]; omega
    · have := ih (by omega); omega

theorem P_ge (B k : Nat) : 10 ≤ P B k := by unfold P; omega

/-- potential of one request; `v` = its key is verified -/
def pot (B : Nat) (v : Bool) (t : Task) : Nat :=
  match t.pc with
  | .done => 0
  | .gone => 0
  | .fast => if v then 1 else P B t.key
  | .snap => if v then 2 else P B t.key
  | .sccWait _ => if v then 3 else P B t.key
  | .loopHead => if v then 4 else P B t.key
  | .wait _ => if v then 5 else P B t.key
  | .guardB => if v then 5 else P B t.key
  | .resnap => if v then 6 else P B t.key
  | .guardA => if v then 7 else P B t.key
  | .exec b => 9 + b * (1 + Q B t.key)
  | .wantX => 8
  | .publish => 7
  | .remove => 6
  | .notify => 5
  | .removeA => 6
  | .notifyA => 5

/-- distance to the `entry_sync` of a request on an unverified key -/
def dist (v : Bool) (t : Task) : Nat :=
  if v then 0 else
  match t.pc with
  | .loopHead => 8
  | .sccWait _ => 7
  | .snap => 6
  | .fast => 5
  | .guardA => 4
  | .resnap => 3
  | .guardB => 2
  | .wait _ => if t.woken then 9 else 0
  | _ => 0

def sumTo : Nat → (Nat → Nat) → Nat
  | 0, _ => 0
  | n + 1, f => sumTo n f + f n

theorem sumTo_le {n : Nat} {f g : Nat → Nat} (h : ∀ j, j < n → f j ≤ g j) : sumTo n f ≤ sumTo n g := by
  induction n with
  | zero => exact Nat.le_refl _
  | succ n ih =>
    simp only [sumTo]
    have := ih (fun j hj => h j (by omega))
    have := h n (by omega)
    omega

theorem sumTo_drop {n i c : Nat} {f g : Nat → Nat} (h : ∀ j, j < n → f j ≤ g j) (hi : i < n) (hc : f i + c ≤ g i) :
    sumTo n f + c ≤ sumTo n g := by
  induction n with
  | zero => omega
  | succ n ih =>
    simp only [sumTo]
    by_cases hin : i = n
    · subst hin
      have := sumTo_le (fun j hj => h j (by omega) : ∀ j, j < i → f j ≤ g j)
      omega
    · have := ih (fun j hj => h j (by omega)) (by omega)
      have := h n (by omega)
      omega

theorem sumTo_spawn {n i c : Nat} {f g : Nat → Nat} (h : ∀ j, j < n → f j ≤ g j) (hi : i < n)
    (hc : f i + (1 + c) ≤ g i) (hn : f n ≤ c) : sumTo (n + 1) f < sumTo n g := by
  have := sumTo_drop h hi hc
  simp only [sumTo]
  omega

theorem sumTo_mul_le {n c : Nat} {f g : Nat → Nat} (h : ∀ j, j < n → f j ≤ c * g j) : sumTo n f ≤ c * sumTo n g := by
  induction n with
  | zero => simp [sumTo]
  | succ n ih =>
    simp only [sumTo, Nat.mul_add]
    have := ih (fun j hj => h j (by omega))
    have := h n (by omega)
    omega

def Phi (s : State) : Nat := sumTo s.n (fun i => pot s.maxCalls (s.verified (s.task i).key) (s.task i))
def Mu2 (s : State) : Nat := sumTo s.n (fun i => dist (s.verified (s.task i).key) (s.task i))

/-- the variant -/
def mu (s : State) : Nat := 5 * Phi s * (Phi s + 1) + Mu2 s

theorem dist_le_pot (B : Nat) (v : Bool) (t : Task) : dist v t ≤ 9 * pot B v t := by
  have := P_ge B t.key
  unfold dist pot
  cases v <;> simp <;> split <;> simp_all <;> (try split) <;> omega

theorem Mu2_le (s : State) : Mu2 s ≤ 9 * Phi s :=
  sumTo_mul_le (fun _ _ => dist_le_pot _ _ _)

theorem quad_mono {a b : Nat} (h : a ≤ b) : 5 * a * (a + 1) ≤ 5 * b * (b + 1) :=
  Nat.mul_le_mul (Nat.mul_le_mul_left 5 h) (by omega)

theorem quad_step (a : Nat) : 5 * a * (a + 1) + 10 * (a + 1) = 5 * (a + 1) * (a + 1 + 1) := by
  simp only [Nat.mul_add, Nat.add_mul, Nat.mul_one, Nat.one_mul]
  omega

/-- the lexicographic decrease, in the encoding -/
theorem lex_lt {s s' : State} (h : Phi s' < Phi s ∨ (Phi s' ≤ Phi s ∧ Mu2 s' < Mu2 s)) : mu s' < mu s := by
  unfold mu
  rcases h with h | ⟨h1, h2⟩
  · have hb := Mu2_le s'
    have hm : 5 * (Phi s' + 1) * (Phi s' + 1 + 1) ≤ 5 * Phi s * (Phi s + 1) := quad_mono (by omega)
    have := quad_step (Phi s')
    omega
  · have := quad_mono h1
    omega

theorem pot_verified_le (B : Nat) (t : Task) (v : Bool) : pot B true t ≤ pot B v t := by
  have := P_ge B t.key
  cases v
  · unfold pot; split <;> simp <;> omega
  · exact Nat.le_refl _

theorem dist_verified_le (t : Task) (v : Bool) : dist true t ≤ dist v t := by
  simp [dist]

theorem pot_fresh_le {B d k : Nat} (v : Bool) (p : Option Nat) (h : d < k) :
    pot B v { key := d, pc := .loopHead, parent := p, woken := false } ≤ Q B k := by
  have := @P_le_Q B d k h
  have := P_ge B d
  cases v <;> simp only [pot] <;> simp <;> omega

/-- `Phi` strictly decreases because task `i` moved and nothing else changed -/
macro "phi_drop" i:term : tactic =>
  `(tactic| (left
             apply Nat.lt_of_succ_le
             show _ + 1 ≤ _
             unfold Phi
             simp only [State.setTask]
             apply sumTo_drop (i := $i)
             · intro j hj; by_cases hji : j = $i <;> simp_all [pot, P] <;> (try split) <;> (try simp_all) <;> omega
             · assumption
             · simp_all [pot, P] <;> (try split) <;> (try simp_all) <;> omega))

/-- `Phi` unchanged, `Mu2` strictly decreases because task `i` moved -/
macro "mu2_drop" i:term : tactic =>
  `(tactic| (right
             constructor
             · unfold Phi
               simp only [State.setTask]
               apply sumTo_le
               intro j hj; by_cases hji : j = $i <;> simp_all [pot, P]
             · apply Nat.lt_of_succ_le
               show _ + 1 ≤ _
               unfold Mu2
               simp only [State.setTask]
               apply sumTo_drop (i := $i)
               · intro j hj; by_cases hji : j = $i <;> simp_all [dist]
               · assumption
               · simp_all [dist]))

/-- either, by the verified flag of the key of `i` -/
macro "lex_move" i:term : tactic =>
  `(tactic| (apply lex_lt
             cases hv : (‹State›).verified ((‹State›).task $i).key
             · mu2_drop $i
             · phi_drop $i))

theorem mu_loopHead {s s' : State} {i : Nat} (h : step s (.loopHead i) = some s') : mu s' < mu s := by
  simp only [step] at h
  split at h
  · rename_i hc
    obtain ⟨hlt, hpc⟩ := hc
    apply lex_lt
    cases hv : s.verified (s.task i).key
    · split at h <;> cases h <;> mu2_drop i
    · split at h <;> cases h <;> phi_drop i
  · cases h

theorem mu_wake {s s' : State} {i : Nat} (h : step s (.wake i) = some s') : mu s' < mu s := by
  simp only [step] at h
  split at h
  · rename_i hc
    obtain ⟨hlt, hw⟩ := hc
    apply lex_lt
    cases hv : s.verified (s.task i).key
    · split at h <;> first | (cases h; mu2_drop i) | cases h
    · split at h <;> first | (cases h; phi_drop i) | cases h
  · cases h

theorem mu_snap {s s' : State} {i : Nat} (h : step s (.snap i) = some s') : mu s' < mu s := by
  simp only [step] at h
  split at h
  · rename_i hc
    obtain ⟨hlt, hnw⟩ := hc
    apply lex_lt
    cases hv : s.verified (s.task i).key
    · split at h <;> first | (cases h; mu2_drop i) | cases h
    · split at h <;> first | (cases h; phi_drop i) | cases h
  · cases h

theorem mu_fast {s s' : State} {i : Nat} (h : step s (.fast i) = some s') : mu s' < mu s := by
  simp only [step] at h
  split at h
  · rename_i hc
    obtain ⟨hlt, hpc⟩ := hc
    apply lex_lt
    split at h
    · rename_i hv; cases h; phi_drop i
    · rename_i hv
      have hv' : s.verified (s.task i).key = false := by simpa using hv
      cases h; mu2_drop i
  · cases h

theorem mu_tfcRelease {s s' : State} {i : Nat} (h : step s (.tfcRelease i) = some s') : mu s' < mu s := by
  simp only [step] at h
  split at h
  · rename_i hc
    obtain ⟨hlt, hpc⟩ := hc
    apply lex_lt
    cases hv : s.verified (s.task i).key
    · cases h; mu2_drop i
    · cases h; phi_drop i
  · cases h

theorem mu_tryInsert {s s' : State} {i : Nat} (hi : Inv s) (h : step s (.tryInsert i) = some s') : mu s' < mu s := by
  simp only [step] at h
  split at h
  · rename_i hc
    obtain ⟨hlt, hpc⟩ := hc
    apply lex_lt
    split at h
    · rename_i hb
      obtain ⟨hb1, hb2⟩ := hb
      cases h; phi_drop i
    · rename_i hnb
      have hunv : s.verified (s.task i).key = false := by
        rcases hpc with hpc | hpc
        · exact hi.guardAUnverified i hpc
        · cases hv : s.verified (s.task i).key
          · rfl
          · exact absurd ⟨hpc, hv⟩ hnb
      split at h
      · cases h
        rcases hpc with hpc | hpc <;> mu2_drop i
      · cases h
        left
        apply Nat.lt_of_succ_le
        show _ + 1 ≤ _
        unfold Phi
        simp only [State.setTask]
        apply sumTo_drop (i := i)
        · intro j hj; by_cases hji : j = i <;> simp_all [pot, P] <;> (try split) <;> (try simp_all) <;> omega
        · assumption
        · rcases hpc with hpc | hpc <;> simp_all [pot, P] <;> omega
  · cases h

theorem mu_execDone {s s' : State} {i : Nat} (h : step s (.execDone i) = some s') : mu s' < mu s := by
  simp only [step] at h
  split at h
  · rename_i hc
    obtain ⟨hlt, hcd⟩ := hc
    apply lex_lt
    split at h
    · cases h; phi_drop i
    · cases h
  · cases h

theorem mu_lockX {s s' : State} {i : Nat} (h : step s (.lockX i) = some s') : mu s' < mu s := by
  simp only [step] at h
  split at h
  · rename_i hc
    obtain ⟨hlt, hpc, hnw⟩ := hc
    apply lex_lt
    cases h; phi_drop i
  · cases h

theorem mu_remove {s s' : State} {i : Nat} (h : step s (.remove i) = some s') : mu s' < mu s := by
  simp only [step] at h
  split at h
  · rename_i hc
    obtain ⟨hlt, hpc⟩ := hc
    apply lex_lt
    cases h; phi_drop i
  · cases h

theorem mu_removeA {s s' : State} {i : Nat} (h : step s (.removeA i) = some s') : mu s' < mu s := by
  simp only [step] at h
  split at h
  · rename_i hc
    obtain ⟨hlt, hpc⟩ := hc
    apply lex_lt
    cases h; phi_drop i
  · cases h

theorem mu_abort {s s' : State} {i : Nat} (h : step s (.abort i) = some s') : mu s' < mu s := by
  simp only [step] at h
  split at h
  · split at h
    · rename_i hc
      obtain ⟨hlt, hcc⟩ := hc
      have hP := P_ge s.maxCalls (s.task i).key
      apply lex_lt
      split at h <;> first | (cases h; phi_drop i) | cases h
    · cases h
  · cases h

theorem mu_publish {s s' : State} {i : Nat} (h : step s (.publish i) = some s') : mu s' < mu s := by
  simp only [step] at h
  split at h
  · rename_i hc
    obtain ⟨hlt, hpc⟩ := hc
    cases h
    apply lex_lt
    left
    apply Nat.lt_of_succ_le
    show _ + 1 ≤ _
    unfold Phi
    simp only [State.setTask]
    apply sumTo_drop (i := i)
    · intro j hj
      by_cases hji : j = i
      · subst hji; simp [pot, hpc]
      · simp only [hji, if_false]
        by_cases hk : (s.task j).key = (s.task i).key
        · simp only [hk, if_true]; exact pot_verified_le _ _ _
        · simp only [hk, if_false]; exact Nat.le_refl _
    · exact hlt
    · simp [pot, hpc]
  · cases h

theorem mu_notify {s s' : State} {i : Nat} (hi : Inv s) (h : step s (.notify i) = some s') : mu s' < mu s := by
  simp only [step] at h
  split at h
  · rename_i hc
    obtain ⟨hlt, hpc⟩ := hc
    have hv := hi.doneVerified i (Or.inr hpc)
    cases h
    apply lex_lt
    left
    apply Nat.lt_of_succ_le
    show _ + 1 ≤ _
    unfold Phi
    apply sumTo_drop (i := i)
    · intro j hj
      by_cases hji : j = i
      · subst hji; simp [pot, hpc, hv]
      · simp only [hji, if_false]
        split
        · simp [pot]
        · exact Nat.le_refl _
    · exact hlt
    · simp [pot, hpc, hv]
  · cases h

theorem mu_notifyA {s s' : State} {i : Nat} (h : step s (.notifyA i) = some s') : mu s' < mu s := by
  simp only [step] at h
  split at h
  · rename_i hc
    obtain ⟨hlt, hpc⟩ := hc
    cases h
    apply lex_lt
    left
    apply Nat.lt_of_succ_le
    show _ + 1 ≤ _
    unfold Phi
    apply sumTo_drop (i := i)
    · intro j hj
      by_cases hji : j = i
      · subst hji; simp [pot, hpc]
      · simp only [hji, if_false]
        split
        · simp [pot]
        · exact Nat.le_refl _
    · exact hlt
    · simp [pot, hpc]
  · cases h

theorem mu_call {s s' : State} {i d : Nat} (hi : Inv s) (h : step s (.call i d) = some s') : mu s' < mu s := by
  simp only [step] at h
  split at h
  · rename_i hc
    obtain ⟨hlt, hd⟩ := hc
    split at h
    · rename_i b hpc
      cases h
      have hfresh := pot_fresh_le (B := s.maxCalls) (s.verified d) (some i) hd
      have hne : s.n ≠ i := by omega
      apply lex_lt
      left
      unfold Phi
      simp only [State.setTask]
      apply sumTo_spawn (i := i) (c := Q s.maxCalls (s.task i).key)
      · intro j hj
        have : j ≠ s.n := by omega
        by_cases hji : j = i
        · subst hji; simp [this, pot, hpc, Nat.succ_mul]
        · simp [this, hji]
      · exact hlt
      · simp [hne.symm, pot, hpc, Nat.succ_mul]; omega
      · simpa using hfresh
    · cases h
  · cases h

/-- Every event strictly decreases the variant. -/
theorem step_decreases {s s' : State} {ev : Ev} (hi : Inv s) (h : step s ev = some s') : mu s' < mu s := by
  cases ev with
  | loopHead i => exact mu_loopHead h
  | wake i => exact mu_wake h
  | snap i => exact mu_snap h
  | fast i => exact mu_fast h
  | tfcRelease i => exact mu_tfcRelease h
  | tryInsert i => exact mu_tryInsert hi h
  | call i d => exact mu_call hi h
  | execDone i => exact mu_execDone h
  | lockX i => exact mu_lockX h
  | publish i => exact mu_publish h
  | remove i => exact mu_remove h
  | notify i => exact mu_notify hi h
  | abort i => exact mu_abort h
  | removeA i => exact mu_removeA h
  | notifyA i => exact mu_notifyA h

/-- Hence every run is finite: its length is bounded by the variant of its first state. -/
theorem run_length_le {s s' : State} {evs : List Ev} (hr : Run s evs s') (hi : Inv s) : evs.length + mu s' ≤ mu s := by
  induction hr with
  | nil => simp
  | cons ev h _ ih =>
    have := step_decreases hi h
    have := ih (inv_step hi h)
    simp only [List.length_cons]
    omega

/-! ### deadlock-freedom -/

def Enabled (s : State) : Prop := ∃ ev s', step s ev = some s'

theorem en_loopHead {s : State} {i : Nat} (hlt : i < s.n) (hpc : (s.task i).pc = .loopHead) : Enabled s := by
  refine ⟨.loopHead i, ?_⟩
  simp only [step, hlt, hpc, and_self, if_true]
  split <;> exact ⟨_, rfl⟩

theorem en_wake {s : State} {i o : Nat} (hlt : i < s.n) (hpc : (s.task i).pc.waitingOn = some o) (hw : (s.task i).woken = true) :
    Enabled s := by
  refine ⟨.wake i, ?_⟩
  simp only [step, hlt, hw, and_self, if_true]
  split
  · exact ⟨_, rfl⟩
  · exact ⟨_, rfl⟩
  · rename_i h1 h2
    cases hp : (s.task i).pc <;> simp_all [Pc.waitingOn]

theorem en_snap {s : State} {i : Nat} (hlt : i < s.n) (hpc : (s.task i).pc = .snap ∨ (s.task i).pc = .resnap)
    (hnw : s.noneWith (s.task i).key (fun p => p == .publish) = true) : Enabled s := by
  refine ⟨.snap i, ?_⟩
  simp only [step, hlt, hnw, and_self, if_true]
  rcases hpc with hpc | hpc <;> rw [hpc] <;> exact ⟨_, rfl⟩

theorem en_fast {s : State} {i : Nat} (hlt : i < s.n) (hpc : (s.task i).pc = .fast) : Enabled s := by
  refine ⟨.fast i, ?_⟩
  simp only [step, hlt, hpc, and_self, if_true]
  split <;> exact ⟨_, rfl⟩

theorem en_tryInsert {s : State} {i : Nat} (hlt : i < s.n) (hpc : (s.task i).pc = .guardA ∨ (s.task i).pc = .guardB) : Enabled s := by
  refine ⟨.tryInsert i, ?_⟩
  simp only [step, hlt, hpc, and_self, if_true]
  split
  · exact ⟨_, rfl⟩
  · split <;> exact ⟨_, rfl⟩

theorem en_execDone {s : State} {i b : Nat} (hlt : i < s.n) (hpc : (s.task i).pc = .exec b) (hcd : s.childrenDone i = true) : Enabled s := by
  refine ⟨.execDone i, ?_⟩
  simp only [step, hlt, hcd, and_self, if_true, hpc]
  exact ⟨_, rfl⟩

theorem en_lockX {s : State} {i : Nat} (hlt : i < s.n) (hpc : (s.task i).pc = .wantX)
    (hnw : s.noneWith (s.task i).key (fun p => p.holdsShared || p == .publish) = true) : Enabled s :=
  ⟨.lockX i, by simp only [step, hlt, hpc, hnw, and_self, if_true]; exact ⟨_, rfl⟩⟩

theorem en_publish {s : State} {i : Nat} (hlt : i < s.n) (hpc : (s.task i).pc = .publish) : Enabled s :=
  ⟨.publish i, by simp only [step, hlt, hpc, and_self, if_true]; exact ⟨_, rfl⟩⟩

theorem en_remove {s : State} {i : Nat} (hlt : i < s.n) (hpc : (s.task i).pc = .remove) : Enabled s :=
  ⟨.remove i, by simp only [step, hlt, hpc, and_self, if_true]; exact ⟨_, rfl⟩⟩

theorem en_notify {s : State} {i : Nat} (hlt : i < s.n) (hpc : (s.task i).pc = .notify) : Enabled s :=
  ⟨.notify i, by simp only [step, hlt, hpc, and_self, if_true]; exact ⟨_, rfl⟩⟩

theorem en_removeA {s : State} {i : Nat} (hlt : i < s.n) (hpc : (s.task i).pc = .removeA) : Enabled s :=
  ⟨.removeA i, by simp only [step, hlt, hpc, and_self, if_true]; exact ⟨_, rfl⟩⟩

theorem en_notifyA {s : State} {i : Nat} (hlt : i < s.n) (hpc : (s.task i).pc = .notifyA) : Enabled s :=
  ⟨.notifyA i, by simp only [step, hlt, hpc, and_self, if_true]; exact ⟨_, rfl⟩⟩

theorem lt_of_pc {s : State} (hi : Inv s) {i : Nat} (h : (s.task i).pc ≠ .done) : i < s.n := by
  apply Nat.lt_of_not_le
  intro hle
  exact h (by rw [hi.bound i hle])

/-- An owner (or a task about to notify) of key `k` can move, or something below it can, provided
every unfinished request with a smaller key implies an enabled event. -/
theorem owner_progress {s : State} (hi : Inv s) {k : Nat}
    (ih : ∀ k', k' < k → ∀ j, j < s.n → (s.task j).key = k' → (s.task j).pc.ended = false → Enabled s)
    {o : Nat} (hk : (s.task o).key = k)
    (ho : (s.task o).pc.isOwner = true ∨ (s.task o).pc = .notify ∨ (s.task o).pc = .notifyA) : Enabled s := by
  have hlt : o < s.n := lt_of_pc hi (by rcases ho with ho | ho | ho <;> (intro hd; rw [hd] at ho; simp [Pc.isOwner] at ho))
  cases hpc : (s.task o).pc with
  | exec b =>
    by_cases hcd : s.childrenDone o = true
    · exact en_execDone hlt hpc hcd
    · have : ∃ j, j < s.n ∧ (s.task j).parent = some o ∧ (s.task j).pc.ended = false := by
        apply Classical.byContradiction
        intro hne
        apply hcd
        apply childrenDone_intro
        intro j hj hp
        cases hnd : (s.task j).pc.ended
        · exact absurd ⟨j, hj, hp, hnd⟩ hne
        · rfl
      obtain ⟨j, hj, hp, hnd⟩ := this
      have := hi.parentKey j o hp
      exact ih (s.task j).key (by omega) j hj rfl hnd
  | wantX =>
    by_cases hnw : s.noneWith (s.task o).key (fun p => p.holdsShared || p == .publish) = true
    · exact en_lockX hlt hpc hnw
    · have : ∃ j, j < s.n ∧ (s.task j).key = (s.task o).key ∧ ((s.task j).pc.holdsShared || (s.task j).pc == .publish) = true := by
        apply Classical.byContradiction
        intro hne
        apply hnw
        apply noneWith_intro
        intro j hj hkj
        cases hb : ((s.task j).pc.holdsShared || (s.task j).pc == .publish)
        · rfl
        · exact absurd ⟨j, hj, hkj, hb⟩ hne
      obtain ⟨j, hj, hkj, hb⟩ := this
      cases hpj : (s.task j).pc with
      | fast => exact en_fast hj hpj
      | guardA => exact en_tryInsert hj (Or.inl hpj)
      | guardB => exact en_tryInsert hj (Or.inr hpj)
      | publish => exact en_publish hj hpj
      | exec b =>
        have h1 := hi.ownerTable j (by simp [hpj, Pc.isOwner])
        have h2 := hi.ownerTable o (by simp [hpc, Pc.isOwner])
        rw [hkj, h2] at h1
        cases h1
        rw [hpc] at hpj; cases hpj
      | _ => simp [hpj, Pc.holdsShared] at hb
  | publish => exact en_publish hlt hpc
  | remove => exact en_remove hlt hpc
  | notify => exact en_notify hlt hpc
  | removeA => exact en_removeA hlt hpc
  | notifyA => exact en_notifyA hlt hpc
  | _ => rcases ho with ho | ho | ho <;> simp [hpc, Pc.isOwner] at ho

/-- Deadlock-freedom: an unfinished request implies an enabled event (induction on the key: nested
requests go to smaller keys, waiters wait for an owner of the same key, lock conflicts are with
tasks of the same key that can move). -/
theorem progress_key {s : State} (hi : Inv s) :
    ∀ k i, i < s.n → (s.task i).key = k → (s.task i).pc.ended = false → Enabled s := by
  intro k
  induction k using Nat.strongRecOn with
  | ind k ih =>
    intro i hlt hk hnd
    cases hpc : (s.task i).pc with
    | done => rw [hpc] at hnd; simp [Pc.ended] at hnd
    | gone => rw [hpc] at hnd; simp [Pc.ended] at hnd
    | removeA => exact owner_progress hi ih hk (Or.inl (by simp [hpc, Pc.isOwner]))
    | notifyA => exact owner_progress hi ih hk (Or.inr (Or.inr hpc))
    | loopHead => exact en_loopHead hlt hpc
    | fast => exact en_fast hlt hpc
    | guardA => exact en_tryInsert hlt (Or.inl hpc)
    | guardB => exact en_tryInsert hlt (Or.inr hpc)
    | exec b => exact owner_progress hi ih hk (Or.inl (by simp [hpc, Pc.isOwner]))
    | wantX => exact owner_progress hi ih hk (Or.inl (by simp [hpc, Pc.isOwner]))
    | publish => exact owner_progress hi ih hk (Or.inl (by simp [hpc, Pc.isOwner]))
    | remove => exact owner_progress hi ih hk (Or.inl (by simp [hpc, Pc.isOwner]))
    | notify => exact owner_progress hi ih hk (Or.inr (Or.inl hpc))
    | snap =>
      by_cases hnw : s.noneWith (s.task i).key (fun p => p == .publish) = true
      · exact en_snap hlt (Or.inl hpc) hnw
      · have : ∃ j, j < s.n ∧ (s.task j).key = (s.task i).key ∧ (s.task j).pc = .publish := by
          apply Classical.byContradiction
          intro hne
          apply hnw
          apply noneWith_intro
          intro j hj hkj
          cases hb : ((s.task j).pc == Pc.publish)
          · rfl
          · exact absurd ⟨j, hj, hkj, by simpa using hb⟩ hne
        obtain ⟨j, hj, _, hp⟩ := this
        exact en_publish hj hp
    | resnap =>
      by_cases hnw : s.noneWith (s.task i).key (fun p => p == .publish) = true
      · exact en_snap hlt (Or.inr hpc) hnw
      · have : ∃ j, j < s.n ∧ (s.task j).key = (s.task i).key ∧ (s.task j).pc = .publish := by
          apply Classical.byContradiction
          intro hne
          apply hnw
          apply noneWith_intro
          intro j hj hkj
          cases hb : ((s.task j).pc == Pc.publish)
          · rfl
          · exact absurd ⟨j, hj, hkj, by simpa using hb⟩ hne
        obtain ⟨j, hj, _, hp⟩ := this
        exact en_publish hj hp
    | sccWait o =>
      cases hw : (s.task i).woken
      · obtain ⟨hko, hor⟩ := hi.waitReg i o (by simp [hpc, Pc.waitingOn]) hw
        rcases hor with ht | hn
        · exact owner_progress hi ih (hko.trans hk) (Or.inl (hi.tableOwner _ _ ht).2)
        · exact owner_progress hi ih (hko.trans hk) (Or.inr hn)
      · exact en_wake (o := o) hlt (by simp [hpc, Pc.waitingOn]) hw
    | wait o =>
      cases hw : (s.task i).woken
      · obtain ⟨hko, hor⟩ := hi.waitReg i o (by simp [hpc, Pc.waitingOn]) hw
        rcases hor with ht | hn
        · exact owner_progress hi ih (hko.trans hk) (Or.inl (hi.tableOwner _ _ ht).2)
        · exact owner_progress hi ih (hko.trans hk) (Or.inr hn)
      · exact en_wake (o := o) hlt (by simp [hpc, Pc.waitingOn]) hw

theorem runEvs_run {s s' : State} {evs : List Ev} (h : runEvs s evs = some s') : Run s evs s' := by
  induction evs generalizing s with
  | nil => simp only [runEvs, Option.some.injEq] at h; subst h; exact Run.nil s
  | cons ev rest ih =>
    simp only [runEvs] at h
    split at h
    · rename_i s1 hs
      exact Run.cons ev hs (ih h)
    · cases h

theorem run_reachable {roots : List Nat} {B : Nat} {s s' : State} {evs : List Ev}
    (hr : Reachable roots B s) (h : Run s evs s') : Reachable roots B s' := by
  induction h with
  | nil => exact hr
  | cons ev hs _ ih => exact ih (Reachable.step ev hr hs)

/-- a schedule checked by evaluation yields a reachable state with the checked property -/
theorem exists_of_runEvs {roots : List Nat} {B : Nat} {evs : List Ev} {P : State → Bool}
    (h : (match runEvs (init roots B) evs with | some s => P s | none => false) = true) :
    ∃ s, Reachable roots B s ∧ Run (init roots B) evs s ∧ P s = true := by
  split at h
  · rename_i s hs
    exact ⟨s, run_reachable .init (runEvs_run hs), runEvs_run hs, h⟩
  · cases h

end QbiceVerif.Lts.CT
