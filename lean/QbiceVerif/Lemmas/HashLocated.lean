/-
C13, discrimination for the whole universe with a LOCATED collision event.

`Lemmas/HashNested.lean` proves `full_dec` with the disjunct `SomeCollision absorb finish`, a closed proposition
about the hasher that does not mention the two values (and is true for every hasher by pigeonhole, see
`Props/NonVacuity/C13.lean`).  Here the same induction is redone with the collision carried along the path:
`Val.Located v t w st` says that at CORRESPONDING positions of `v` and `w` (same path through options, results,
wrappers, tuple fields, enum variants, sequence indices — all preceding siblings having written equal streams, so
that both sides are in the same hasher state — and, inside a hash-ordered collection, through a pair of entries
with equal entry streams) there are two hash-ordered collections `c₁ ⊑ v`, `c₂ ⊑ w` of the same length whose
multisets of entry streams differ although their wrapping 128-bit sums of entry sub-hashes agree.
-/
import QbiceVerif.Lemmas.HashNested

namespace QbiceVerif.Hash

section
variable {σ : Type} (absorb : σ → Bytes → σ) (finish : σ → Nat)

mutual
/-- `Val.Located v t w st`: when `v` and `w` (of type `t`) are hashed from hasher state `st`, the only event the
    scheme of `stable_hash` can suffer from happens on data of `v` and `w` themselves: a hash-ordered collection
    `c₁` inside `v` and the hash-ordered collection `c₂` at the same position of `w` (both reached in the same
    hasher state `st'`) have the same number of entries, different multisets of entry streams, and
    `Σ sub_hash(entry) mod 2^128` equal — `SumCollision st' (entry streams of c₁) (entry streams of c₂)`.
    (Two distinct entry streams with one sub-hash are the size-1 case; for larger sizes any solution of the
    k-sum problem for the sub-hash.)  Type-directed like `Val.SameUpTo`; `False` on every leaf. -/
def Val.Located : Val → Ty → Val → σ → Prop
  | .some v, .option t, .some w, st => Val.Located v t w (absorb st (le 8 1))
  | .ok v, .result t _, .ok w, st => Val.Located v t w (absorb st (le 8 0))
  | .err v, .result _ e, .err w, st => Val.Located v e w (absorb st (le 8 1))
  | .wrap v, .wrapper t, .wrap w, st => Val.Located v t w st
  | .list vs, .seq t, .list ws, st =>
      vs.length = ws.length ∧ ValList.LocatedAll vs t ws (absorb st (le 8 vs.length))
  | .list vs, .array _ t, .list ws, st =>
      vs.length = ws.length ∧ ValList.LocatedAll vs t ws (absorb st (le 8 vs.length))
  | .list vs, .uset t, .list ws, st =>
      vs.length = ws.length ∧
      (SumCollision absorb finish (absorb st (le 8 vs.length))
          (entryStreams absorb finish t vs (absorb st (le 8 vs.length)))
          (entryStreams absorb finish t ws (absorb st (le 8 vs.length))) ∨
        ValList.LocatedEntry vs t ws (absorb st (le 8 vs.length)))
  | .list vs, .umap k v, .list ws, st =>
      vs.length = ws.length ∧
      (SumCollision absorb finish (absorb st (le 8 vs.length))
          (entryStreams absorb finish (Ty.pair k v) vs (absorb st (le 8 vs.length)))
          (entryStreams absorb finish (Ty.pair k v) ws (absorb st (le 8 vs.length))) ∨
        ValList.LocatedEntry vs (Ty.pair k v) ws (absorb st (le 8 vs.length)))
  | .tuple vs, .tuple ts, .tuple ws, st => ValList.LocatedFields vs ts ws st
  | .variant i fs, .enum dw vars, .variant j gs, st =>
      i = j ∧ match vars.get? i with
              | some (d, fts) => ValList.LocatedFields fs fts gs (absorb st (le dw.bytes d))
              | none => False
  | _, _, _, _ => False
/-- elements of a sequence at one index: located in the heads, or the heads wrote the same bytes (both hashers
    are in one state afterwards) and located further on -/
def ValList.LocatedAll : ValList → Ty → ValList → σ → Prop
  | .cons v vs, t, .cons w ws, st =>
      Val.Located v t w st ∨
      (stream absorb finish t v st = stream absorb finish t w st ∧
        ValList.LocatedAll vs t ws (absorb st (stream absorb finish t v st)))
  | _, _, _, _ => False
/-- fields of a tuple / struct / enum variant at one position -/
def ValList.LocatedFields : ValList → TyList → ValList → σ → Prop
  | .cons v vs, .cons t ts, .cons w ws, st =>
      Val.Located v t w st ∨
      (stream absorb finish t v st = stream absorb finish t w st ∧
        ValList.LocatedFields vs ts ws (absorb st (stream absorb finish t v st)))
  | _, _, _, _ => False
/-- entries of a hash-ordered collection (every entry is hashed by a copy of the state `st`): an entry of the
    left collection and an entry of the right collection with the SAME entry stream contain the event -/
def ValList.LocatedEntry : ValList → Ty → ValList → σ → Prop
  | .cons v vs, t, ws, st =>
      (∃ w, w ∈ ws.toList ∧ stream absorb finish t v st = stream absorb finish t w st ∧ Val.Located v t w st) ∨
      ValList.LocatedEntry vs t ws st
  | .nil, _, _, _ => False
end

theorem ValList.LocatedEntry_mono : ∀ (vs : ValList) (t : Ty) (ws ws' : ValList) (st : σ),
    (∀ x ∈ ws.toList, x ∈ ws'.toList) → ValList.LocatedEntry absorb finish vs t ws st →
    ValList.LocatedEntry absorb finish vs t ws' st
  | .nil, _, _, _, _, _, h => by simp [ValList.LocatedEntry] at h
  | .cons v vs, t, ws, ws', st, hsub, h => by
    simp only [ValList.LocatedEntry] at h ⊢
    rcases h with ⟨w, hm, hs, hl⟩ | h
    · exact Or.inl ⟨w, hsub w hm, hs, hl⟩
    · exact Or.inr (ValList.LocatedEntry_mono vs t ws ws' st hsub h)

/-- one unordered node, located: equal 24-byte streams ⇒ same size, same rest, and the entry streams are a
    permutation of each other or THESE two entry-stream lists are a sum collision -/
theorem uset_node_loc {t : Ty} {vs ws : ValList} {st : σ} {r1 r2 : Bytes}
    (hv : vs.length < M64) (hw : ws.length < M64)
    (h : stream absorb finish (.uset t) (.list vs) st ++ r1 =
         stream absorb finish (.uset t) (.list ws) st ++ r2) :
    vs.length = ws.length ∧ r1 = r2 ∧
    ((entryStreams absorb finish t vs (absorb st (le 8 vs.length))).Perm
        (entryStreams absorb finish t ws (absorb st (le 8 vs.length))) ∨
      SumCollision absorb finish (absorb st (le 8 vs.length))
        (entryStreams absorb finish t vs (absorb st (le 8 vs.length)))
        (entryStreams absorb finish t ws (absorb st (le 8 vs.length)))) := by
  rw [stream_uset, stream_uset] at h
  simp only [List.append_assoc] at h
  rw [M64_eq] at hv hw
  obtain ⟨hl, h2⟩ := le_inj_of_lt hv hw h
  rw [← hl] at h2
  obtain ⟨hsum, hr⟩ := le_append_inj h2
  rw [← M128_eq] at hsum
  refine ⟨hl, hr, ?_⟩
  by_cases hp : (entryStreams absorb finish t vs (absorb st (le 8 vs.length))).Perm
      (entryStreams absorb finish t ws (absorb st (le 8 vs.length)))
  · exact Or.inl hp
  · exact Or.inr ⟨hp, by simp [entryStreams, ValList.length_toList, hl], hsum⟩


instance (st : σ) (xs ys : List Bytes) : Decidable (SumCollision absorb finish st xs ys) := by
  unfold SumCollision; exact inferInstance

/-- unfolding the entry quantifier of `ValList.LocatedEntry` on a concrete collection (used by the
    `decide`-checked instances in `Props/C13.lean`) -/
theorem exists_mem_toList_nil (P : Val → Prop) : (∃ w, w ∈ ValList.nil.toList ∧ P w) ↔ False := by
  simp [ValList.toList]

theorem exists_mem_toList_cons (a : Val) (as : ValList) (P : Val → Prop) :
    (∃ w, w ∈ (ValList.cons a as).toList ∧ P w) ↔ (P a ∨ ∃ w, w ∈ as.toList ∧ P w) := by
  simp [ValList.toList]

/-- a `SameAll` list pairs every left element with a right element -/
theorem ValList.SameAll_mem : ∀ (vs : ValList) (t : Ty) (ws : ValList), ValList.SameAll vs t ws →
    ∀ v ∈ vs.toList, ∃ w, w ∈ ws.toList ∧ Val.SameUpTo v t w
  | .nil, _, _, _, v, hv => by simp [ValList.toList] at hv
  | .cons x xs, t, .nil, h, _, _ => by simp [ValList.SameAll] at h
  | .cons x xs, t, .cons y ys, h, v, hv => by
    simp only [ValList.SameAll] at h
    simp only [ValList.toList, List.mem_cons] at hv ⊢
    rcases hv with rfl | hv
    · exact ⟨y, Or.inl rfl, h.1⟩
    · obtain ⟨w, hw, hs⟩ := ValList.SameAll_mem xs t ys h.2 v hv
      exact ⟨w, Or.inr hw, hs⟩

/-- two hash-ordered collections that are the same up to order: every entry of the left one is (up to order
    inside, NaN payloads) an entry of the right one -/
theorem sameUpTo_uset_mem {t : Ty} {vs ws : ValList} (h : Val.SameUpTo (.list vs) (.uset t) (.list ws)) :
    ∀ v ∈ vs.toList, ∃ w, w ∈ ws.toList ∧ Val.SameUpTo v t w := by
  simp only [Val.SameUpTo] at h
  obtain ⟨ws', hp, hs⟩ := h
  intro v hv
  obtain ⟨w, hw, hsame⟩ := ValList.SameAll_mem vs t ws' hs v hv
  exact ⟨w, hp.subset hw, hsame⟩

end

end QbiceVerif.Hash
