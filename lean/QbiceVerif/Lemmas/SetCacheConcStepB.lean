/-
`SetCacheConc`: the steps `wApply` (in-place update of a possibly evicted entry), `gInstall` (insert if vacant
and the generation is unchanged) and `gSnap` (staging snapshot).
-/
import QbiceVerif.Lemmas.SetCacheConcStepA

namespace QbiceVerif.SetCacheConc
open QbiceVerif.SetCache

attribute [local simp] setTask

theorem step_wApply {s s' : State} {t : Nat} {out} (I : Inv s) (h : fire s (.wApply t) = some (s', out)) : Inv s' := by
  simp only [fire] at h
  split at h
  · rename_i i x0 ins0 ob sn mu ma h0
    have hr := I.rd t _ h0
    have hw : x0 ∈ s.truth ↔ ins0 = true := I.wT t _ h0
    have hi : i < s.entries.length := I.refOk t _ h0
    split at h
    · rename_i S hS
      cases h
      have hmem : ∀ x, (x ∈ applyTo S x0 ins0 ↔ x ∈ S) ∨ (x ∈ applyTo S x0 ins0 ↔ x ∈ s.truth) := by
        intro x
        rw [mem_applyTo]
        by_cases hx : x = x0
        · subst hx; simp [hw]
        · simp [hx]
      have main : ∀ pc', (pc' = Pc.downgrade i ∨ pc' = Pc.idle) →
          Inv { setTask s t ⟨pc', ob, sn, mu, ma⟩ with entries := s.entries.set i (.inMem (applyTo S x0 ins0)) } := by
        intro pc' hpc'
        refine inv_local I h0 rfl rfl rfl rfl rfl rfl rfl rfl (Nat.le_refl _) (by simp) ?_ (by simpa using I.curOk) rfl
          (Or.inl (by rcases hpc' with h | h <;> rw [h] <;> rfl)) (by intro _ x hs; simp [Pc.stagedOn] at hs)
          (by rcases hpc' with h | h <;> rw [h] <;> trivial)
          (by rcases hpc' with h | h <;> rw [h] <;> simp [hi]) ?_
          (RInv_notReading (by simpa using hr.1) (by rcases hpc' with h | h <;> rw [h] <;> simp [Pc.reading]))
        · intro j S' hj hS'
          simp only at hS'
          rw [List.getElem?_set] at hS'
          split at hS'
          · rename_i hij; subst hij
            simp only [hi, if_true, Option.some.injEq, SEntry.inMem.injEq] at hS'
            subst hS'
            exact ⟨S, hS, hmem⟩
          · exact ⟨S', hS', fun x => Or.inl Iff.rfl⟩
        · intro c S'' x hc hS'' hne
          simp only at hc hS'' ⊢
          rw [List.getElem?_set] at hS''
          split at hS''
          · rename_i hij; subst hij
            simp only [hi, if_true, Option.some.injEq, SEntry.inMem.injEq] at hS''
            subst hS''
            have hxS : x ∈ applyTo S x0 ins0 ↔ x ∈ S := by
              rcases hmem x with h1 | h1
              · exact h1
              · exact absurd h1 hne
            have hx0 : x ≠ x0 := by
              intro hx; subst hx
              apply hne; rw [mem_applyTo]; simp [hw]
            refine lift_task _ h0 (I.curT i S x hc hS (by rw [← hxS]; exact hne)) ?_
            simp [Pc.pend]; intro h; exact absurd h.symm hx0
          · rename_i hij
            refine lift_task _ h0 (I.curT c S'' x hc hS'' hne) ?_
            simp [Pc.pend]; intro _ h; exact absurd h hij
      by_cases hlen : (applyTo S x0 ins0).length > s.thr
      · simp only [hlen, if_true]; exact main _ (Or.inl rfl)
      · simp only [hlen, if_false]; exact main _ (Or.inr rfl)
    · rename_i hS
      cases h
      refine inv_local I h0 rfl rfl rfl rfl rfl rfl rfl rfl (Nat.le_refl _) (Nat.le_refl _) (he_same rfl) I.curOk rfl
        (Or.inl rfl) (by intro _ x hs; simp [Pc.stagedOn] at hs) trivial trivial ?_
        (RInv_notReading (by simpa using hr.1) (by simp [Pc.reading]))
      intro c S x hc hSc hne
      simp only [setTask] at hc hSc ⊢
      refine lift_task _ h0 (I.curT c S x hc hSc hne) ?_
      simp [Pc.pend]; intro _ h; subst h; rw [hS] at hSc; cases hSc
    · cases h
  · cases h

theorem step_gInstall {s s' : State} {t : Nat} {out} (I : Inv s) (hf : s.fix = true)
    (h : fire s (.gInstall t) = some (s', out)) : Inv s' := by
  simp only [fire] at h
  split at h
  · rename_i snp sc ob sn mu ma h0
    cases h
    have hr := I.rd t _ h0
    have hrd0 : ∀ x, allowed ⟨.scanned snp sc, ob, sn, mu, ma⟩ x (x ∈ s.truth) ∧ (x ∈ inflight s → x ∉ mu ∧ x ∈ ma) :=
      hr.2.1 (by simp [Pc.reading])
    have h2 := hr.2.2
    simp only at h2
    have hfetch : (fetchFrom s.thr sc snp = (.tooLarge, some (sc.take (s.thr + 1), sc.drop (s.thr + 1)))) ∨
        (fetchFrom s.thr sc snp = (.inMem (snp.removed.foldl (fun acc y => sremove y acc) (snp.added.foldl (fun acc y => sinsert y acc) sc)), none)) := by
      unfold fetchFrom; split <;> simp
    refine inv_local I h0 rfl rfl rfl rfl rfl rfl rfl rfl (Nat.le_refl _) (by simp) ?_ ?_ rfl
      (Or.inl rfl) (by intro _ x hs; simp [Pc.stagedOn] at hs) trivial (by simp) ?_ ?_
    · intro j S' hj hS'
      simp only at hS'
      rw [List.getElem?_append_left hj] at hS'
      exact ⟨S', hS', fun x => Or.inl Iff.rfl⟩
    · intro c hc
      simp only at hc ⊢
      split at hc
      · rename_i i hi
        cases hc; have := I.curOk _ hi; simp; omega
      · split at hc
        · cases hc
        · cases hc; simp
    · intro c S x hc hS hne
      simp only at hc hS ⊢
      split at hc
      · rename_i i hi
        cases hc
        have hlt := I.curOk _ hi
        rw [List.getElem?_append_left hlt] at hS
        exact lift_task _ h0 (I.curT c S x hi hS hne) (by simp [Pc.pend])
      · split at hc
        · cases hc
        · rename_i hgen
          cases hc
          have hgen' : s.gen = sn := by
            simp [hf] at hgen; exact hgen.symm
          simp only [List.getElem?_append_right (Nat.le_refl _), Nat.sub_self, List.getElem?_cons_zero] at hS
          rcases hfetch with hft | hft
          · rw [hft] at hS; cases hS
          · rw [hft] at hS
            simp only [Option.some.injEq, SEntry.inMem.injEq] at hS
            subst hS
            have hov := mem_built sc snp h2.1 x
            obtain ⟨t2, u2, h3, h4⟩ := (h2.2 x).2.2 hgen' (by rw [← hov]; exact hne)
            refine lift_task _ h0 ⟨t2, u2, h3, ?_⟩ (by simp [Pc.pend])
            cases hpc : u2.pc <;> simp_all [Pc.stagedOn, Pc.pend]
    · refine ⟨hr.1, fun _ x => ⟨(hrd0 x).1, fun hx => (hrd0 x).2 (inflight_sub h0 (Or.inl rfl) x hx)⟩, ?_⟩
      simp only
      refine ⟨h2.1, fun x => ⟨(h2.2 x).1, ?_⟩⟩
      rcases hfetch with hft | hft
      · rw [hft]
        simp only
        exact (allowed_congr (mem_spillOut sc (s.thr + 1) snp x)).mpr (h2.2 x).2.1
      · rw [hft]
        simp only
        intro S hS
        simp only [List.getElem?_append_right (Nat.le_refl _), Nat.sub_self, List.getElem?_cons_zero,
          Option.some.injEq, SEntry.inMem.injEq] at hS
        subst hS
        exact (allowed_congr (mem_built sc snp h2.1 x)).mpr (h2.2 x).2.1
  · cases h

/-- the staging snapshot taken now, overlaid on the store as it is now, is exact -/
theorem snap_exact {bat log db truth notifs expected nextEpoch}
    (St : StoreInv bat log db truth notifs expected nextEpoch) :
    snapOk (snapshotOf log) ∧ ∀ x,
      (x ∈ (snapshotOf log).added → x ∈ truth) ∧ (x ∈ (snapshotOf log).removed → x ∉ truth) ∧
      (x ∉ (snapshotOf log).added → x ∉ (snapshotOf log).removed →
        (∀ B ∈ bat, lastOf B.ops x = none) ∧ (x ∈ db ↔ x ∈ truth)) := by
  have hs := fun x => snapshot_spec log x (St.mono x)
  refine ⟨fun x ha hr => ?_, fun x => ⟨fun ha => ?_, fun hr => ?_, fun ha hr => ?_⟩⟩
  · rw [(hs x).1] at ha; rw [(hs x).2, ha] at hr; cases hr
  · rw [(hs x).1] at ha; exact (St.logT x true ha).mpr rfl
  · rw [(hs x).2] at hr; intro ht; have := (St.logT x false hr).mp ht; cases this
  · have hn : lastOf (pairs log) x = none := by
      cases hl : lastOf (pairs log) x with
      | none => rfl
      | some b =>
          cases b
          · exact absurd ((hs x).2.mpr hl) hr
          · exact absurd ((hs x).1.mpr hl) ha
    have hb : ∀ B ∈ bat, lastOf B.ops x = none := by
      intro B hB
      apply Classical.byContradiction
      intro hne
      obtain ⟨op, hop, hx, _⟩ := St.batLog B hB x hne
      have : lastOf (pairs log) x ≠ none :=
        lastOf_ne_none_iff.mpr ⟨(op.x, op.ins), by simp only [pairs, List.mem_map]; exact ⟨op, hop, rfl⟩, hx⟩
      exact this hn
    exact ⟨hb, St.dbT x hb⟩

theorem step_gSnap {s s' : State} {t : Nat} {out} (I : Inv s) (h : fire s (.gSnap t) = some (s', out)) : Inv s' := by
  simp only [fire] at h
  split at h
  · rename_i ob sn mu ma h0
    cases h
    have hr := I.rd t _ h0
    have hrd0 : ∀ x, allowed ⟨.loaded, ob, sn, mu, ma⟩ x (x ∈ s.truth) ∧ (x ∈ inflight s → x ∉ mu ∧ x ∈ ma) :=
      hr.2.1 (by simp [Pc.reading])
    obtain ⟨hok, hsx⟩ := snap_exact I.store
    refine inv_local I h0 rfl rfl rfl rfl rfl rfl rfl rfl (Nat.le_refl _) (Nat.le_refl _) (he_same rfl) I.curOk rfl
      (Or.inl rfl) (by intro _ x hs; simp [Pc.stagedOn] at hs) trivial trivial
      (curT_same I h0 rfl rfl rfl (by intro x i _ hp; simp [Pc.pend] at hp)) ?_
    refine ⟨hr.1, fun _ x => ⟨(hrd0 x).1, fun hx => (hrd0 x).2 (inflight_sub h0 (Or.inl rfl) x hx)⟩, ?_⟩
    simp only
    refine ⟨hok, fun x => ?_⟩
    obtain ⟨h1, h2, h3⟩ := hsx x
    have hal := (hrd0 x).1
    refine ⟨⟨fun ha => hal.2 (h1 ha), fun hrm hm => h2 hrm (hal.1 hm), fun ha hrm => ?_⟩, ?_, ?_⟩
    · obtain ⟨hb, hdb⟩ := h3 ha hrm
      refine ⟨(allowed_congr hdb).mpr hal, fun B hB v hv => ?_⟩
      rw [hb B hB] at hv; cases hv
    · intro _ hne
      exfalso; apply hne
      simp only [ov]
      by_cases ha : x ∈ (snapshotOf s.log).added
      · simp [ha, h1 ha]
      · by_cases hrm : x ∈ (snapshotOf s.log).removed
        · simp [ha, hrm, h2 hrm]
        · simp [ha, hrm, (h3 ha hrm).2]
    · intro _ ha hrm B hB hne
      exact absurd ((h3 ha hrm).1 B hB) hne
  · cases h

end QbiceVerif.SetCacheConc
