/-
The fix of finding F15 (`Cfg.fixTrim`, the default: the Poll trim visits the whole pinned region):
every entry of the pinned region is currently pinned or was released since the last maintenance
round, hence resident ≤ capacity + currently pinned + one batch + releases since the last round.
-/
import QbiceVerif.Lemmas.TinyLfuBound

namespace QbiceVerif.TinyLfu

variable {σ : Type}

/-- an entry of the pinned region is pinned, or was released since the last maintenance round -/
def PInv (pins rel : List Nat) (l : Lru) : Prop := ∀ k, k ∈ l.pinned → k ∈ pins ∨ k ∈ rel

theorem processWrite_pinv {cfg : Cfg σ} {pins rel : List Nat} {c c' : Core σ} {m : WMsg}
    (htok : ∀ k v, cfg.tok k v = k) (hpm : cfg.protectedCap < cfg.mainLimit)
    (h : processWrite cfg pins c m = .ok c') (hn : PInv pins rel c.lru) : PInv pins rel c'.lru := by
  have hnew : ∀ a, a ∈ c'.lru.pinned → a ∈ c.lru.pinned ∨ ∃ v, sGet c'.st a = some v ∧ cfg.tok a v ∈ pins := by
    cases m with
    | insert j => exact (onWrite_polstep (show onWrite cfg pins c j = .ok c' from h)).1.pinnedNew
    | unpinned j => exact (unpin_polstep (show unpin cfg pins c j = .ok c' from h) hpm).1.pinnedNew
    | removed j =>
      simp only [processWrite] at h; cases h
      exact fun a ha => Or.inl (remove_pinned_sub _ _ _ ha)
  intro a ha
  rcases hnew a ha with h1 | ⟨v, _, h2⟩
  · exact hn a h1
  · left; rw [htok] at h2; exact h2

theorem processWrites_pinv {cfg : Cfg σ} {pins rel : List Nat} {ms : List WMsg} {c c' : Core σ}
    (htok : ∀ k v, cfg.tok k v = k) (hpm : cfg.protectedCap < cfg.mainLimit)
    (h : processWrites cfg pins ms c = .ok c') (hn : PInv pins rel c.lru) : PInv pins rel c'.lru := by
  induction ms generalizing c with
  | nil => simp [processWrites] at h; cases h; exact hn
  | cons m ms ih =>
    unfold processWrites at h
    split at h
    · rename_i c1 h1; exact ih h (processWrite_pinv htok hpm h1 hn)
    · cases h

theorem tryMaintenance_pinv {cfg : Cfg σ} {c c' : Cache σ}
    (htok : ∀ k v, cfg.tok k v = k) (hpm : cfg.protectedCap < cfg.mainLimit)
    (hpoll : cfg.poll = true) (hfix : cfg.fixTrim = true)
    (h : tryMaintenance cfg c = .ok c') (hn : PInv c.pins c.rel c.core.lru) :
    PInv c'.pins c'.rel c'.core.lru := by
  unfold tryMaintenance at h
  split at h
  · cases h; exact hn
  · unfold processPolicyMessages at h
    split at h
    · cases h
    · rename_i core hw; cases h
      simp only [hpoll, ↓reduceIte]
      intro a ha
      obtain ⟨v, _, hv⟩ := trim_fixed_pinned c.pins _ hfix a ha
      left; rw [htok] at hv; exact hv

theorem access_pinv {cfg : Cfg σ} {c : Cache σ} (op : Op) (hn : PInv c.pins c.rel c.core.lru) :
    PInv (access cfg c op).1.pins (access cfg c op).1.rel (access cfg c op).1.core.lru := by
  have rel1 : ∀ t a, a ∈ c.core.lru.pinned → a ∈ c.pins.erase t ∨ a ∈ t :: c.rel := by
    intro t a ha
    by_cases e : a = t
    · right; simp [e]
    · rcases hn a ha with h | h
      · left; exact (List.mem_erase_of_ne e).mpr h
      · right; exact List.mem_cons_of_mem _ h
  cases op with
  | get k => simp only [access]; split <;> exact hn
  | peek k => simp only [access]; split <;> exact hn
  | pin t => simp only [access]; intro a ha; exact (hn a ha).elim (fun h => Or.inl (List.mem_cons_of_mem _ h)) Or.inr
  | unpin t => simp only [access]; exact rel1 t
  | notify k => exact hn
  | unpinNotify k => simp only [access]; exact rel1 k
  | upd k v => simp only [access]; split <;> exact hn
  | rem k => simp only [access]; split <;> exact hn
  | put k v => simp only [access]; split <;> exact hn
  | ins k v => simp only [access]; split <;> exact hn

theorem step_pinv {cfg : Cfg σ} {c c' : Cache σ} {op : Op} {r : Ret} {log : List (Nat × Bool)}
    (htok : ∀ k v, cfg.tok k v = k) (hpm : cfg.protectedCap < cfg.mainLimit)
    (hpoll : cfg.poll = true) (hfix : cfg.fixTrim = true)
    (h : step cfg c op = .ok (c', r, log)) (hn : PInv c.pins c.rel c.core.lru) :
    PInv c'.pins c'.rel c'.core.lru := by
  have hna := access_pinv (cfg := cfg) (c := c.clearLog) op hn
  unfold step at h
  split at h
  · split at h
    · rename_i c2 hm; cases h; exact tryMaintenance_pinv htok hpm hpoll hfix hm hna
    · cases h
  · cases h; exact hna

theorem run_pinv {cfg : Cfg σ} {ops : List Op} {c c' : Cache σ}
    (htok : ∀ k v, cfg.tok k v = k) (hpm : cfg.protectedCap < cfg.mainLimit)
    (hpoll : cfg.poll = true) (hfix : cfg.fixTrim = true)
    (h : run cfg c ops = .ok c') (hn : PInv c.pins c.rel c.core.lru) : PInv c'.pins c'.rel c'.core.lru := by
  induction ops generalizing c with
  | nil => simp [run] at h; cases h; exact hn
  | cons op ops ih =>
    unfold run at h
    split at h
    · rename_i c1 r log hs; exact ih h (step_pinv htok hpm hpoll hfix hs hn)
    · cases h

/-- repaired Poll trim: resident ≤ window + main capacity + currently pinned + buffered messages +
releases since the last maintenance round -/
theorem bound_poll_fixed {cfg : Cfg σ} {c : Cache σ} (htok : ∀ k v, cfg.tok k v = k) (hi : Inv cfg c)
    (hn : PInv c.pins c.rel c.core.lru) :
    c.core.st.length ≤ cfg.windowCap + cfg.mainLimit + pinnedNow cfg c.pins c.core.st + cfg.batch + c.rel.length := by
  have hlen := length_le_pinned_add cfg c.pins c.core.st
    (c.core.lru.window ++ c.core.lru.probation ++ c.core.lru.prot ++ c.wbuf.map msgKey ++ c.rel)
    hi.core.nodup (by
      intro k v hk hp
      have hp' : k ∉ c.pins := by
        intro hm; rw [htok] at hp; simp [hm] at hp
      simp only [List.mem_append, List.mem_map]
      rcases resident_tracked hi hk with h | h | h | h | h
      · exact Or.inl (Or.inl (Or.inl (Or.inl h)))
      · exact Or.inl (Or.inl (Or.inl (Or.inr h)))
      · exact Or.inl (Or.inl (Or.inr h))
      · rcases hn k h with h1 | h1
        · exact absurd h1 hp'
        · exact Or.inr h1
      · exact Or.inl (Or.inr ⟨_, h, rfl⟩))
  have := hi.core.caps.win; have := hi.core.caps.main; have := hi.wlen
  simp only [List.length_append, List.length_map] at hlen
  omega

/-! ### the bounds with only those buffered messages counted whose key is resident

(what the multi-thread "remove vs re-insert" oracle of the harness uses at quiescence: after a maintenance pass only
no-op notifications of never-inserted keys are buffered) -/

/-- the keys of the buffered messages that are resident -/
def bufferedResident (c : Cache σ) : List Nat := (c.wbuf.map msgKey).filter (fun k => (sGet c.core.st k).isSome)

theorem mem_bufferedResident {c : Cache σ} {m : WMsg} {v : Nat} (hm : m ∈ c.wbuf) (hk : sGet c.core.st (msgKey m) = some v) :
    msgKey m ∈ bufferedResident c := by
  simp only [bufferedResident, List.mem_filter, List.mem_map]
  exact ⟨⟨m, hm, rfl⟩, by simp [hk]⟩

theorem bufferedResident_nil {c : Cache σ} (hw : ∀ m, m ∈ c.wbuf → sGet c.core.st (msgKey m) = none) :
    bufferedResident c = [] := by
  simp only [bufferedResident, List.filter_eq_nil_iff, List.mem_map]
  rintro k ⟨m, hm, rfl⟩
  simp [hw m hm]

/-- `Notify`, protocol followed -/
theorem bound_notify_quiet {cfg : Cfg σ} {c : Cache σ} (htok : ∀ k v, cfg.tok k v = k) (hi : Inv cfg c)
    (hn : NInv c.pins c.wbuf c.core.lru) :
    c.core.st.length ≤ cfg.windowCap + cfg.mainLimit + pinnedNow cfg c.pins c.core.st + (bufferedResident c).length := by
  have hlen := length_le_pinned_add cfg c.pins c.core.st
    (c.core.lru.window ++ c.core.lru.probation ++ c.core.lru.prot ++ bufferedResident c)
    hi.core.nodup (by
      intro k v hk hp
      have hp' : k ∉ c.pins := by
        intro hm; rw [htok] at hp; simp [hm] at hp
      simp only [List.mem_append]
      rcases resident_tracked hi hk with h | h | h | h | h
      · exact Or.inl (Or.inl (Or.inl h))
      · exact Or.inl (Or.inl (Or.inr h))
      · exact Or.inl (Or.inr h)
      · rcases hn k h with h1 | h1
        · exact absurd h1 hp'
        · exact Or.inr (mem_bufferedResident (m := .unpinned k) h1 hk)
      · exact Or.inr (mem_bufferedResident (m := .insert k) h hk))
  have := hi.core.caps.win; have := hi.core.caps.main
  simp only [List.length_append] at hlen
  omega

/-- `Poll`, whole-region trim -/
theorem bound_poll_quiet {cfg : Cfg σ} {c : Cache σ} (htok : ∀ k v, cfg.tok k v = k) (hi : Inv cfg c)
    (hn : PInv c.pins c.rel c.core.lru) :
    c.core.st.length ≤ cfg.windowCap + cfg.mainLimit + pinnedNow cfg c.pins c.core.st + (bufferedResident c).length
      + c.rel.length := by
  have hlen := length_le_pinned_add cfg c.pins c.core.st
    (c.core.lru.window ++ c.core.lru.probation ++ c.core.lru.prot ++ bufferedResident c ++ c.rel)
    hi.core.nodup (by
      intro k v hk hp
      have hp' : k ∉ c.pins := by
        intro hm; rw [htok] at hp; simp [hm] at hp
      simp only [List.mem_append]
      rcases resident_tracked hi hk with h | h | h | h | h
      · exact Or.inl (Or.inl (Or.inl (Or.inl h)))
      · exact Or.inl (Or.inl (Or.inl (Or.inr h)))
      · exact Or.inl (Or.inl (Or.inr h))
      · rcases hn k h with h1 | h1
        · exact absurd h1 hp'
        · exact Or.inr h1
      · exact Or.inl (Or.inr (mem_bufferedResident (m := .insert k) h hk)))
  have := hi.core.caps.win; have := hi.core.caps.main
  simp only [List.length_append] at hlen
  omega

end QbiceVerif.TinyLfu
