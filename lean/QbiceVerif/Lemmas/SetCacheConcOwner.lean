/-
`SetCacheConc`: the engine's write discipline – every element of the key is written by one fixed task (one batch
open at a time per task) – IMPLIES the schedule assumption `orderedElem` at every `stage`: under that discipline
`orderedSched` is a theorem about the model.
-/
import QbiceVerif.Lemmas.SetCacheConcMain
namespace QbiceVerif.SetCacheConc
open QbiceVerif.SetCache

/-- every element of the key is written by one fixed task (`owner`) – the engine's discipline: the element of a
key-of-set column is the query that is being published, and a query has one publication at a time -/
def ownedSched (owner : Nat → Nat) (sched : List Ev) : Bool :=
  sched.all (fun e => match e with | .stage t x _ => owner x == t | _ => true)

structure OwnInv (owner : Nat → Nat) (s : State) : Prop where
  wOwn : ∀ (t : Nat) (u : Task) (x : Nat), s.tasks[t]? = some u → u.pc.writing = some x → owner x = t
  bOwn : ∀ B ∈ s.bat, ∀ x, lastOf B.ops x ≠ none → ∀ (u : Task) (e' : Nat), s.tasks[owner x]? = some u → u.openB = some e' →
           B.epoch ≤ e'

theorem ordered_of_spec {s : State} {t x e : Nat} {u0 : Task} (h0 : s.tasks[t]? = some u0) (he : u0.openB = some e)
    (g1 : ∀ (j : Nat) (u' : Task), s.tasks[j]? = some u' → j ≠ t → u'.pc.writing ≠ some x)
    (g2 : ∀ B ∈ s.bat, B.epoch = e ∨ lastOf B.ops x = none ∨ B.epoch < e) : orderedElem s t x = true := by
  simp only [orderedElem, h0, he, Bool.and_eq_true, List.all_eq_true]
  constructor
  · intro j hj
    by_cases hjt : j = t
    · simp [hjt]
    · cases hu : s.tasks[j]? with
      | none => simp
      | some u' =>
          have := g1 j u' hu hjt
          simp [hjt, this]
  · intro B hB
    rcases g2 B hB with h | h | h
    · simp [h]
    · have : lastOn B.ops x = false := by
        cases hl : lastOn B.ops x with
        | false => rfl
        | true => exact absurd h ((lastOn_iff _ _).mp hl)
      simp [this]
    · simp [h]

theorem own_guard {owner : Nat → Nat} {s : State} (I : Inv s) (O : OwnInv owner s) {t x : Nat} {ins : Bool} {s' out}
    (h : fire s (.stage t x ins) = some (s', out)) (ho : owner x = t) : orderedElem s t x = true := by
  simp only [fire] at h
  split at h
  · rename_i e sn mu ma h0
    refine ordered_of_spec h0 rfl ?_ ?_
    · intro j u' hj hne hw
      exact hne (by rw [← O.wOwn j u' x hj hw, ho])
    · intro B hB
      cases hl : lastOf B.ops x with
      | none => exact Or.inr (Or.inl rfl)
      | some v =>
          have := O.bOwn B hB x (by rw [hl]; simp) _ e (by rw [ho]; exact h0) rfl
          rcases Nat.lt_or_ge B.epoch e with h1 | h1
          · exact Or.inr (Or.inr h1)
          · exact Or.inl (by omega)
  · cases h

/-- frame: the step changed no open batch, no batch content, and no task started to write another element -/
def OwnFrame (s s' : State) : Prop :=
  (∀ (t : Nat) (u' : Task), s'.tasks[t]? = some u' → ∃ u, s.tasks[t]? = some u ∧ u'.openB = u.openB ∧
      (u'.pc.writing = none ∨ u'.pc.writing = u.pc.writing)) ∧
  (∀ B' ∈ s'.bat, ∃ B ∈ s.bat, B.epoch = B'.epoch ∧ B.ops = B'.ops)

theorem own_frame {owner : Nat → Nat} {s s' : State} (O : OwnInv owner s) (F : OwnFrame s s') : OwnInv owner s' := by
  obtain ⟨F1, F2⟩ := F
  constructor
  · intro t u' x h1 h2
    obtain ⟨u, h3, _, h5⟩ := F1 t u' h1
    rcases h5 with h5 | h5
    · rw [h5] at h2; cases h2
    · exact O.wOwn t u x h3 (by rw [← h5]; exact h2)
  · intro B' hB' x hne u' e' h1 h2
    obtain ⟨B, hB, h3, h4⟩ := F2 B' hB'
    obtain ⟨u, h5, h6, _⟩ := F1 _ u' h1
    rw [← h3]
    exact O.bOwn B hB x (by rw [h4]; exact hne) u e' h5 (by rw [← h6]; exact h2)

theorem frame_set {s s' : State} {t : Nat} {pc0 pc1 : Pc} {ob : Option Nat} {sn0 sn1 : Nat} {mu0 ma0 mu1 ma1 : List Nat}
    (h0 : s.tasks[t]? = some ⟨pc0, ob, sn0, mu0, ma0⟩)
    (et : s'.tasks = s.tasks.set t ⟨pc1, ob, sn1, mu1, ma1⟩) (eb : s'.bat = s.bat)
    (hw : pc1.writing = none ∨ pc1.writing = pc0.writing) : OwnFrame s s' := by
  refine ⟨fun t' u' h1 => ?_, fun B' hB' => ⟨B', by rw [← eb]; exact hB', rfl, rfl⟩⟩
  rw [et, set_get _ h0] at h1
  split at h1
  · rename_i ht; subst ht; cases h1
    exact ⟨_, h0, rfl, hw⟩
  · exact ⟨u', h1, rfl, Or.inr rfl⟩

theorem frame_same {s s' : State} (et : s'.tasks = s.tasks) (hb : ∀ B' ∈ s'.bat, B' ∈ s.bat) : OwnFrame s s' :=
  ⟨fun t u' h1 => ⟨u', by rw [← et]; exact h1, rfl, Or.inr rfl⟩, fun B' hB' => ⟨B', hb B' hB', rfl, rfl⟩⟩

def batchEv : Ev → Bool
  | .begin _ | .submit _ | .stage _ _ _ => true
  | _ => false

theorem own_frame_step {s s' : State} {e : Ev} {out} (h : fire s e = some (s', out))
    (hne : batchEv e = false) : OwnFrame s s' := by
  cases e <;> simp only [fire] at h <;> (try (simp [batchEv] at hne; done))
  case commit =>
    split at h
    · cases h; exact frame_same rfl (fun B' hB' => (List.mem_filter.mp hB').1)
    · cases h
  case notify => split at h <;> cases h; exact frame_same rfl (fun _ h => h)
  case evict => split at h <;> cases h; exact frame_same rfl (fun _ h => h)
  case otherBump => cases h; exact frame_same rfl (fun _ h => h)
  case wApply t =>
    split at h
    · split at h
      · cases h
        refine frame_set (by assumption) rfl rfl (Or.inl ?_)
        split <;> rfl
      · cases h; exact frame_set (by assumption) rfl rfl (Or.inl rfl)
      · cases h
    · cases h
  all_goals
    first
    | (split at h <;> first
        | (cases h; done)
        | (cases h; exact frame_set (by assumption) rfl rfl (by first | exact Or.inl rfl | exact Or.inr rfl))
        | (split at h <;> first
            | (cases h; done)
            | (cases h; exact frame_set (by assumption) rfl rfl (by first | exact Or.inl rfl | exact Or.inr rfl))
            | (split at h <;> first
                | (cases h; done)
                | (cases h; exact frame_set (by assumption) rfl rfl (by first | exact Or.inl rfl | exact Or.inr rfl)))))

theorem own_begin {owner : Nat → Nat} {s s' : State} {t : Nat} {out} (I : Inv s) (O : OwnInv owner s)
    (h : fire s (.begin t) = some (s', out)) : OwnInv owner s' := by
  simp only [fire] at h
  split at h
  · rename_i sn mu ma h0
    cases h
    have hget : ∀ t', (s.tasks.set t ⟨.idle, some s.nextEpoch, sn, mu, ma⟩)[t']? =
        if t' = t then some ⟨.idle, some s.nextEpoch, sn, mu, ma⟩ else s.tasks[t']? := fun t' => set_get _ h0 t'
    constructor
    · intro t' u' x h1 h2
      simp only [setTask] at h1
      rw [hget] at h1
      split at h1
      · cases h1; simp [Pc.writing] at h2
      · exact O.wOwn t' u' x h1 h2
    · intro B hB x hne u' e' h1 h2
      simp only [setTask] at h1 hB
      rw [hget] at h1
      rcases List.mem_append.mp hB with hB | hB
      · split at h1
        · cases h1; simp at h2; subst h2
          exact Nat.le_of_lt (I.store.eRange B hB).2
        · exact O.bOwn B hB x hne u' e' h1 h2
      · simp at hB; subst hB; simp [lastOf] at hne
  · cases h

theorem own_submit {owner : Nat → Nat} {s s' : State} {t : Nat} {out} (O : OwnInv owner s)
    (h : fire s (.submit t) = some (s', out)) : OwnInv owner s' := by
  simp only [fire] at h
  split at h
  · rename_i e sn mu ma h0
    cases h
    have hget : ∀ t', (s.tasks.set t ⟨.idle, none, sn, mu, ma⟩)[t']? =
        if t' = t then some ⟨.idle, none, sn, mu, ma⟩ else s.tasks[t']? := fun t' => set_get _ h0 t'
    constructor
    · intro t' u' x h1 h2
      simp only [setTask] at h1
      rw [hget] at h1
      split at h1
      · cases h1; simp [Pc.writing] at h2
      · exact O.wOwn t' u' x h1 h2
    · intro B' hB' x hne u' e' h1 h2
      simp only [setTask] at h1 hB'
      rw [hget] at h1
      obtain ⟨B, hB, rfl⟩ := List.mem_map.mp hB'
      have hops : (if B.epoch = e then { B with submitted := true } else B).ops = B.ops := by split <;> rfl
      have hep : (if B.epoch = e then { B with submitted := true } else B).epoch = B.epoch := by split <;> rfl
      rw [hops] at hne; rw [hep]
      split at h1
      · cases h1; simp at h2
      · exact O.bOwn B hB x hne u' e' h1 h2
  · cases h

theorem own_stage {owner : Nat → Nat} {s s' : State} {t x0 : Nat} {ins0 : Bool} {out} (O : OwnInv owner s)
    (ho : owner x0 = t) (h : fire s (.stage t x0 ins0) = some (s', out)) : OwnInv owner s' := by
  simp only [fire] at h
  split at h
  · rename_i e sn mu ma h0
    cases h
    have hget : ∀ t', ((s.tasks.set t ⟨.staged x0 ins0, some e, sn, mu, ma⟩).map (noteWrite x0))[t']? =
        (if t' = t then some ⟨.staged x0 ins0, some e, sn, mu, ma⟩ else s.tasks[t']?).map (noteWrite x0) := by
      intro t'; rw [List.getElem?_map, set_get _ h0]
    constructor
    · intro t' u' x h1 h2
      simp only at h1
      rw [hget] at h1
      split at h1
      · simp at h1; subst h1
        simp [noteWrite, Pc.writing] at h2; subst h2
        rename_i ht; rw [ho, ht]
      · cases hu : s.tasks[t']? with
        | none => rw [hu] at h1; cases h1
        | some u => rw [hu] at h1; simp at h1; subst h1; exact O.wOwn t' u x hu h2
    · intro B' hB' x hne u' e' h1 h2
      simp only at h1 hB'
      rw [hget] at h1
      obtain ⟨B, hB, rfl⟩ := List.mem_map.mp hB'
      have hu : ∃ u, s.tasks[owner x]? = some u ∧ u.openB = some e' := by
        split at h1
        · simp at h1; subst h1
          rename_i ht
          exact ⟨_, by rw [ht]; exact h0, by simpa [noteWrite] using h2⟩
        · cases hu : s.tasks[owner x]? with
          | none => rw [hu] at h1; cases h1
          | some u => rw [hu] at h1; simp at h1; subst h1; exact ⟨u, rfl, by simpa [noteWrite] using h2⟩
      obtain ⟨u, hu1, hu2⟩ := hu
      by_cases hb : B.epoch = e
      · simp only [hb, if_true] at hne ⊢
        rw [lastOf_concat] at hne
        by_cases hx : x = x0
        · subst hx
          rw [ho, h0] at hu1; cases hu1; simp at hu2; omega
        · simp only [hx, if_false] at hne
          have := O.bOwn B hB x hne u e' hu1 hu2
          omega
      · simp only [hb, if_false] at hne ⊢
        exact O.bOwn B hB x hne u e' hu1 hu2
  · cases h

theorem own_init (owner : Nat → Nat) (fix : Bool) (thr : Nat) (db0 : List Nat) (n : Nat) : OwnInv owner (init fix thr db0 n) := by
  constructor
  · intro t u x h1 h2
    simp only [init, List.getElem?_replicate] at h1
    split at h1
    · cases h1; simp [Pc.writing] at h2
    · cases h1
  · intro B hB; simp [init] at hB

/-- under the ownership discipline every `stage` is ordered: `orderedSched` is a THEOREM, not an assumption -/
theorem owned_is_ordered {owner : Nat → Nat} : ∀ (sched : List Ev) (s : State), Inv s → s.fix = true → OwnInv owner s →
    ownedSched owner sched = true → orderedSched s sched = true := by
  intro sched
  induction sched with
  | nil => intro s _ _ _ _; rfl
  | cons e es ih =>
      intro s I hf O ho
      simp only [ownedSched, List.all_cons, Bool.and_eq_true] at ho
      simp only [orderedSched]
      cases hfire : fire s e with
      | none => rfl
      | some r =>
          obtain ⟨s1, out⟩ := r
          have hg : guardOk s e = true := by
            cases e with
            | stage t x ins => exact own_guard I O hfire (by simpa using ho.1)
            | _ => rfl
          have I1 := inv_step I hf hg hfire
          have hf1 : s1.fix = true := by rw [fire_fix hfire]; exact hf
          have O1 : OwnInv owner s1 := by
            cases e with
            | begin t => exact own_begin I O hfire
            | submit t => exact own_submit O hfire
            | stage t x ins => exact own_stage O (by simpa using ho.1) hfire
            | _ => exact own_frame O (own_frame_step hfire rfl)
          simp only [hg, Bool.true_and]
          exact ih s1 I1 hf1 O1 (by simpa [ownedSched] using ho.2)
end QbiceVerif.SetCacheConc
