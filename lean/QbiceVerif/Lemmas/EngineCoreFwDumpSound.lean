/-
Soundness of the runtime oracle (`Lemmas/EngineCoreFwDump.lean`), part 1: the dump of a state that
satisfies the invariant, the readers of a dumped state, the bottom-up tables (`Solid`, `NGood`, `cur`).
-/
import QbiceVerif.Lemmas.EngineCoreFwDump
namespace Qbice.CoreFw
open Qbice.Core (Prog Err evalProg TraceOK)

variable {p : Program} {s : St}

theorem Inv.lt_length (inv : Inv p s) {k : Key} {n : Node} (h : s.nodes k = some n) : k < p.length := by
  obtain ⟨d, hp, _⟩ := inv.kind k n h
  exact (List.getElem?_eq_some_iff.1 hp).1

theorem dump_length (p : Program) (s : St) : (dump p s).nodes.length = p.length := by
  simp [dump]

theorem node_dump (inv : Inv p s) (k : Key) :
    (dump p s).node k = (s.nodes k).map (dumpNode p s k) := by
  by_cases hk : k < p.length
  · simp [DSt.node, dump, hk]
  · have : s.nodes k = none := by
      cases h : s.nodes k with
      | none => rfl
      | some n => exact absurd (inv.lt_length h) hk
    simp [DSt.node, dump, hk, this]

theorem kindOf_dump (inv : Inv p s) (d : Key) : (dump p s).kindOf d = (s.nodes d).map (·.kind) := by
  simp only [DSt.kindOf, node_dump inv]
  cases s.nodes d <;> simp [dumpNode]

theorem pend_dump (inv : Inv p s) (d : Key) : (dump p s).pend d = hasPending s d := by
  simp only [DSt.pend, node_dump inv, hasPending]
  cases s.nodes d <;> simp [dumpNode]

theorem tfc_dump (inv : Inv p s) (d : Key) : (dump p s).tfc d = tfcOf s d := by
  simp only [DSt.tfc, node_dump inv, tfcOf]
  cases s.nodes d <;> simp [dumpNode]

theorem front_dump (inv : Inv p s) : (dump p s).front = front s := by
  funext d
  simp only [DSt.front, node_dump inv, front]
  cases s.nodes d <;> simp [dumpNode]

theorem settled_dump (inv : Inv p s) : (dump p s).settled = settledFw s := by
  funext f
  simp only [DSt.settled, node_dump inv, settledFw]
  cases s.nodes f <;> simp [dumpNode]

theorem inputs_dump (inv : Inv p s) : (dump p s).inputs = inputsOf s := by
  funext k
  simp only [DSt.inputs, node_dump inv, inputsOf]
  cases s.nodes k <;> simp [dumpNode]

theorem pins_dump (inv : Inv p s) : (dump p s).pins = pinsOf s := by
  funext k
  simp only [DSt.pins, node_dump inv, pinsOf]
  cases s.nodes k <;> simp [dumpNode]

theorem onNode_dump (inv : Inv p s) (k : Key) (f : DNode → Bool)
    (h : ∀ n, s.nodes k = some n → f (dumpNode p s k n) = true) : onNode (dump p s) k f = true := by
  simp only [onNode, node_dump inv]
  cases hn : s.nodes k with
  | none => rfl
  | some n => exact h n hn

theorem all_deps {n : Node} (g : DDep → Bool)
    (h : ∀ d o, (d, o) ∈ n.deps → g (dumpDep s n (d, o)) = true) :
    (n.deps.map (dumpDep s n)).all g = true := by
  rw [List.all_eq_true]
  intro e he
  obtain ⟨⟨d, o⟩, hm, rfl⟩ := List.mem_map.1 he
  exact h d o hm

theorem dirty_contains (k : Key) {d : Key} (hd : d < p.length) :
    ((List.range p.length).filter (fun d => s.dirty k d)).contains d = s.dirty k d := by
  rw [Bool.eq_iff_iff]
  simp [List.mem_filter, List.mem_range, hd]

-- ------------------------------------------------------------------ tables

theorem tabulate_length {α : Type} (g : (Key → Option α) → Key → α) : ∀ n, (tabulate g n).length = n
  | 0 => rfl
  | n + 1 => by simp [tabulate, tabulate_length g n]

theorem tabulate_spec {α : Type} (g : (Key → Option α) → Key → α) (R : Key → α → Prop)
    (h : ∀ k rec, (∀ j, j < k → ∃ a, rec j = some a ∧ R j a) → R k (g rec k)) :
    ∀ n k, k < n → ∃ a, (tabulate g n)[k]? = some a ∧ R k a := by
  intro n
  induction n with
  | zero => intro k hk; omega
  | succ n ih =>
    intro k hk
    have hl := tabulate_length g n
    by_cases hkn : k < n
    · obtain ⟨a, ha, hr⟩ := ih k hkn
      refine ⟨a, ?_, hr⟩
      simp only [tabulate]
      rw [List.getElem?_append_left (by omega)]
      exact ha
    · have : k = n := by omega
      subst this
      refine ⟨g (fun j => (tabulate g k)[j]?) k, ?_, h k _ ih⟩
      simp only [tabulate]
      rw [List.getElem?_append_right (by omega)]
      simp [hl]

theorem depCurrent_of (inv : Inv p s) {n : Node} {d : Key} {o : Val}
    (h : ∃ nd, s.nodes d = some nd ∧ nd.value = o ∧ (nd.kind ≠ .firewall → nd.tfc = n.seen d)) :
    depCurrent (dump p s) (dumpDep s n (d, o)) = true := by
  obtain ⟨nd, hnd, hv, ht⟩ := h
  simp only [depCurrent, dumpDep, node_dump inv, kindOf_dump inv, hnd, tfcOf, Option.map, hv]
  by_cases hk : nd.kind = .firewall
  · simp [hk]
  · simp [hk, ht hk]

theorem solidStep_sound (inv : Inv p s) (k : Key) (rec : Key → Option Bool)
    (ih : ∀ j, j < k → ∃ a, rec j = some a ∧ (Solid s j → a = true)) :
    Solid s k → solidStep (dump p s) rec k = true := by
  intro hs
  cases hs with
  | mk _ n hn hfw hq hval hsub =>
    simp only [solidStep, node_dump inv, hn, Option.map, dumpNode, Bool.and_eq_true]
    refine ⟨⟨?_, ?_⟩, ?_⟩
    · by_cases hk : n.kind = .firewall
      · simp [hk, hfw hk]
      · simp [hk]
    · by_cases hk : n.kind = .projection
      · rcases hq hk with h | h
        · simp [h]
        · have : (n.deps.map (dumpDep s n)).all (fun e => !(dump p s).pend e.key) = true := by
            apply all_deps
            intro d o hm
            simp [dumpDep, pend_dump inv, h d o hm]
          simp [this]
      · simp [hk]
    · apply all_deps
      intro d o hm
      obtain ⟨a, ha, hr⟩ := ih d (inv.down k n hn d o hm).1
      have hr' := hr (hsub d o hm)
      subst hr'
      rw [depCurrent_of inv (hval d o hm)]
      simp [dumpDep, ha]

theorem solidTab_sound (inv : Inv p s) {k : Key} (h : Solid s k) :
    (solidTab (dump p s))[k]? = some true := by
  obtain ⟨n, hn⟩ := h.node
  obtain ⟨a, ha, hr⟩ := tabulate_spec (solidStep (dump p s)) (fun k a => Solid s k → a = true)
    (fun k rec ih hs => solidStep_sound inv k rec ih hs) p.length k (inv.lt_length hn)
  rw [solidTab, dump_length, ha, hr h]

theorem ngoodStep_sound (inv : Inv p s) (k : Key) (rec : Key → Option Bool)
    (ih : ∀ j, j < k → ∃ a, rec j = some a ∧ (NGood s j → a = true)) :
    NGood s k → ngoodStep (dump p s) rec k = true := by
  intro hs
  cases hs with
  | mk _ n hn hval hsub =>
    simp only [ngoodStep, node_dump inv, hn, Option.map, dumpNode]
    apply all_deps
    intro d o hm
    rw [depCurrent_of inv (hval d o hm)]
    obtain ⟨hlt, nd, hnd⟩ := inv.down k n hn d o hm
    by_cases hk : nd.kind = .normal
    · obtain ⟨a, ha, hr⟩ := ih d hlt
      have hr' := hr (hsub d o nd hm hnd hk)
      subst hr'
      simp [dumpDep, ha]
    · simp [dumpDep, kindOf_dump inv, hnd, hk]

theorem ngoodTab_sound (inv : Inv p s) {k : Key} {n : Node} (hn : s.nodes k = some n) (h : NGood s k) :
    (ngoodTab (dump p s))[k]? = some true := by
  obtain ⟨a, ha, hr⟩ := tabulate_spec (ngoodStep (dump p s)) (fun k a => NGood s k → a = true)
    (fun k rec ih hs => ngoodStep_sound inv k rec ih hs) p.length k (inv.lt_length hn)
  rw [ngoodTab, dump_length, ha, hr h]

theorem curStep_sound (wf : WF p) (inv : Inv p s) (k : Key) (rec : Key → Option (Option Val))
    (ih : ∀ j, j < k → ∃ a, rec j = some a ∧ a = cur p s j) :
    curStep p (dump p s) rec k = cur p s k := by
  simp only [curStep, cur, evalSpec]
  cases hp : p[k]? with
  | none => rfl
  | some d =>
    have key : d.kind ≠ .input → d.kind ≠ .external →
        evalProg (fun j => (rec j).join) d.prog =
          evalProg (evalSpec p (inputsOf s) (extOf p s) k) d.prog := by
      intro h1 h2
      apply Qbice.Core.evalProg_congr_below _ _ k _ _ (wf k d hp h1 h2).1
      intro j hj
      obtain ⟨a, ha, hc⟩ := ih j hj
      rw [ha, hc, evalSpec_fuel_stable wf _ _ j k (by omega)]
      rfl
    simp only
    cases hi : d.kind with
    | input => simp [inputs_dump inv]
    | external =>
      have : (dump p s).world = s.world := rfl
      simp only [pins_dump inv, extOf, this]
    | normal => exact key (by rw [hi]; decide) (by rw [hi]; decide)
    | firewall => exact key (by rw [hi]; decide) (by rw [hi]; decide)
    | projection => exact key (by rw [hi]; decide) (by rw [hi]; decide)

theorem curTab_sound (wf : WF p) (inv : Inv p s) {k : Key} (hk : k < p.length) :
    (curTab p (dump p s))[k]? = some (cur p s k) := by
  obtain ⟨a, ha, hr⟩ := tabulate_spec (curStep p (dump p s)) (fun k a => a = cur p s k)
    (fun k rec ih => curStep_sound wf inv k rec ih) p.length k hk
  rw [curTab, ha, hr]

end Qbice.CoreFw
