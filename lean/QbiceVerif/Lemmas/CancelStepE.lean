import QbiceVerif.Lemmas.CancelStep

/-!
# C05 — preservation of the core invariant (part E: `cancel`)
-/

namespace QbiceVerif.CancelLts

/-- A task drops a suffix `dropped` of its frames (all of them, or all but the guarded innermost one). -/
theorem core_drop {s s' : State} {t : Tid} {T : Task} {keepL keepB : List Key}
    (h : InvCore s) (hT : s.tasks t = some T)
    {dropped : List Frame}
    (hsplitL : ∀ k, k ∈ lockKeys T.frames ↔ (k ∈ keepL ∨ k ∈ lockKeys dropped))
    (hsplitB : ∀ k, k ∈ bpKeys T.frames ↔ (k ∈ keepB ∨ k ∈ bpKeys dropped))
    (hdisjL : ∀ k, k ∈ keepL → k ∉ lockKeys dropped)
    (hdisjB : ∀ k, k ∈ keepB → k ∉ bpKeys dropped)
    (hcomp : ∀ k, owner s'.comp k = if k ∈ lockKeys dropped then none else owner s.comp k)
    (hbpl : ∀ k, s'.bpl k = if k ∈ bpKeys dropped then none else s.bpl k)
    (hpw : s'.partialW = s.partialW)
    (hres : (∃ T', s'.tasks = upd s.tasks t (some T') ∧ (∀ k, k ∈ lockKeys T'.frames ↔ k ∈ keepL) ∧ (∀ k, k ∈ bpKeys T'.frames ↔ k ∈ keepB) ∧
              (lockKeys T'.frames).Nodup ∧ (bpKeys T'.frames).Nodup ∧
              (T'.pc.isSession = true ↔ T'.frames = []) ∧ (T'.detached = true → T'.frames.length ≤ 1) ∧
              (T'.detached = true → T'.pc.detachable = true) ∧
              (∀ top rest, T.frames = top :: rest → T.pc = .g1 →
                ∃ top' rest', T'.frames = top' :: rest' ∧ top'.key = top.key ∧ T'.pc = .g1))
            ∨ (s'.tasks = upd s.tasks t none ∧ keepL = [] ∧ keepB = [] ∧ T.pc ≠ .g1)) :
    InvCore s' := by
  have hlocks : ∀ k, owner s'.comp k = some t ↔ k ∈ keepL := by
    intro k
    rw [hcomp]
    by_cases hk : k ∈ lockKeys dropped
    · rw [if_pos hk]
      constructor
      · intro h'; cases h'
      · intro hm; exact absurd hk (hdisjL k hm)
    · rw [if_neg hk, h.locks_iff hT k, hsplitL]
      constructor
      · rintro (e | e)
        · exact e
        · exact absurd e hk
      · intro e; exact Or.inl e
  have hbps : ∀ k, s'.bpl k = some t ↔ k ∈ keepB := by
    intro k
    rw [hbpl]
    by_cases hk : k ∈ bpKeys dropped
    · rw [if_pos hk]
      constructor
      · intro h'; cases h'
      · intro hm; exact absurd hk (hdisjB k hm)
    · rw [if_neg hk, h.bps_iff hT k, hsplitB]
      constructor
      · rintro (e | e)
        · exact e
        · exact absurd e hk
      · intro e; exact Or.inl e
  have hC : ∀ k, owner s'.comp k ≠ owner s.comp k →
      (owner s.comp k = some t ∨ owner s.comp k = none) ∧ (owner s'.comp k = some t ∨ owner s'.comp k = none) := by
    intro k hk
    rw [hcomp] at hk ⊢
    by_cases hc : k ∈ lockKeys dropped
    · rw [if_pos hc] at hk ⊢
      exact ⟨Or.inl (h.lockEntry t T hT k ((hsplitL k).mpr (Or.inr hc))), Or.inr rfl⟩
    · rw [if_neg hc] at hk; exact absurd rfl hk
  have hB : ∀ k, s'.bpl k ≠ s.bpl k →
      (s.bpl k = some t ∨ s.bpl k = none) ∧ (s'.bpl k = some t ∨ s'.bpl k = none) := by
    intro k hk
    rw [hbpl] at hk ⊢
    by_cases hc : k ∈ bpKeys dropped
    · rw [if_pos hc] at hk ⊢
      exact ⟨Or.inl (h.bpEntry t T hT k ((hsplitB k).mpr (Or.inr hc))), Or.inr rfl⟩
    · rw [if_neg hc] at hk; exact absurd rfl hk
  rcases hres with ⟨T', ht, hlk, hbk, hn1, hn2, hsh, hone, hdp, hg⟩ | ⟨ht, hkl, hkb, hpc⟩
  · have ho : ∀ t', t' ≠ t → s'.tasks t' = s.tasks t' := by intro t' ht'; rw [ht]; simp [upd, ht']
    have hl : s'.tasks t = some T' := by rw [ht]; simp
    refine core_frame (t := t) h ho hC hB (Or.inl ⟨T', ⟨hl, ?_, ?_, hn1, hn2, hsh, hone, hdp⟩⟩) ?_
    · intro k; rw [hlk]; exact hlocks k
    · intro k; rw [hbk]; exact hbps k
    · refine partial_keep h ho hpw ?_
      intro T0 top0 rest0 h0 hf0 hpc0
      rw [hT] at h0; cases h0
      obtain ⟨top', rest', a, b, c⟩ := hg top0 rest0 hf0 hpc0
      exact ⟨T', top', rest', hl, a, b, c⟩
  · have ho : ∀ t', t' ≠ t → s'.tasks t' = s.tasks t' := by intro t' ht'; rw [ht]; simp [upd, ht']
    refine core_frame (t := t) h ho hC hB (Or.inr ⟨by rw [ht]; simp, ?_, ?_⟩) ?_
    · intro k hk; have := (hlocks k).mp hk; rw [hkl] at this; simp at this
    · intro k hk; have := (hbps k).mp hk; rw [hkb] at this; simp at this
    · refine partial_keep h ho hpw ?_
      intro T0 top0 rest0 h0 _ hpc0
      rw [hT] at h0; cases h0; exact absurd hpc0 hpc

theorem core_cancel {s s' : State} {t : Tid} (h : InvCore s) (hs : step s (.cancel t) = some s') : InvCore s' := by
  simp only [step] at hs
  cases hT : s.tasks t with
  | none => simp [hT] at hs
  | some T =>
    simp only [hT] at hs
    split at hs
    · next hnd =>
      cases hs
      unfold cancelTask
      by_cases hsess : T.pc.isSession = true
      · -- a session: no frames
        have hfr : T.frames = [] := (h.shape t T hT).mp hsess
        rw [if_pos hsess]
        have hend : ∀ s0 : State, s0.tasks = s.tasks → (∀ k, owner s0.comp k = owner s.comp k) → s0.bpl = s.bpl → s0.partialW = s.partialW →
            InvCore (endTask s0 t T .cancelled) := by
          intro s0 h1 h2 h3 h4
          refine core_end (T := T) h hT (by rw [endTask_tasks, h1]) h2 h3 h4 (by simp [hfr]) (by simp [hfr]) ?_
          intro hpc; simp [hpc, Pc.isSession] at hsess
        have hdet : ∀ pc' : Pc, pc'.isSession = true → pc'.detachable = true →
            InvCore { setTask s t { T with pc := pc', detached := true } with outcome := upd s.outcome t (some .cancelled) } := by
          intro pc' h1 h2
          refine core_task_gen (T' := { T with pc := pc', detached := true }) h hT rfl (fun _ => rfl) rfl rfl rfl rfl ?_ ?_ ?_ ?_
          · simp [h1, hfr]
          · intro _; simp [hfr]
          · intro _; exact h2
          · intro top rest hf; rw [hfr] at hf; cases hf
        cases hp : T.pc <;> simp only [hp, Pc.isSession] at hsess <;> try (cases hsess)
        · exact hend s rfl (fun _ => rfl) rfl rfl
        · exact hend (dropBatch s T.batch) (dropBatch_tasks ..) (fun k => by rw [dropBatch_comp]) (dropBatch_bpl ..) (dropBatch_partialW ..)
        · exact hdet .sG0 rfl rfl
        · exact hdet .sG1 rfl rfl
        · exact hdet .sG1 rfl rfl
      · rw [if_neg hsess]
        cases hF : T.frames with
        | nil =>
          have := (h.shape t T hT).mpr hF; exact absurd this hsess
        | cons top rest =>
          simp only
          by_cases hg : T.pc.guarded = true
          · rw [if_pos hg]
            have hdl : lockKeys ({ top with lock := false, bp := false } :: rest) = lockKeys rest := by simp [lockKeys_cons]
            have hdb : bpKeys ({ top with lock := false, bp := false } :: rest) = bpKeys rest := by simp [bpKeys_cons]
            have hnl := (h.nodup t T hT).1
            have hnb := (h.nodup t T hT).2
            rw [hF, lockKeys_cons] at hnl
            rw [hF, bpKeys_cons] at hnb
            refine core_drop (keepL := if top.lock = true then [top.key] else []) (keepB := if top.bp = true then [top.key] else [])
              (dropped := { top with lock := false, bp := false } :: rest) h hT ?_ ?_ ?_ ?_ ?_ ?_ rfl
              (Or.inl ⟨{ T with frames := [{ top with undo := none }], detached := true, rd := T.rd && s.cfg.f40 }, rfl, ?_, ?_, ?_, ?_, ?_, ?_, ?_, ?_⟩)
            · intro k; rw [hF, lockKeys_cons, hdl]; by_cases hl : top.lock = true <;> simp [hl]
            · intro k; rw [hF, bpKeys_cons, hdb]; by_cases hl : top.bp = true <;> simp [hl]
            · intro k hk; rw [hdl]
              by_cases hl : top.lock = true
              · simp only [hl, if_true, List.mem_singleton] at hk hnl; subst hk; exact (List.nodup_cons.mp hnl).1
              · simp [hl] at hk
            · intro k hk; rw [hdb]
              by_cases hl : top.bp = true
              · simp only [hl, if_true, List.mem_singleton] at hk hnb; subst hk; exact (List.nodup_cons.mp hnb).1
              · simp [hl] at hk
            · intro k; exact owner_dropFrames _ _ _ k
            · intro k; exact bpl_dropFrames _ _ _ k
            · intro k; simp only [lockKeys_cons]; by_cases hl : top.lock = true <;> simp [hl]
            · intro k; simp only [bpKeys_cons]; by_cases hl : top.bp = true <;> simp [hl]
            · simp only [lockKeys_cons]; by_cases hl : top.lock = true <;> simp [hl]
            · simp only [bpKeys_cons]; by_cases hl : top.bp = true <;> simp [hl]
            · simp only [List.cons_ne_nil, iff_false]; simpa using hsess
            · intro _; simp
            · intro _
              cases hp : T.pc <;> simp [hp, Pc.guarded, Pc.isSession] at hg hsess ⊢ <;> simp [Pc.detachable]
            · intro top0 rest0 hf0 hpc0
              rw [hF] at hf0; cases hf0
              exact ⟨_, [], rfl, rfl, hpc0⟩
          · rw [if_neg hg]
            refine core_drop (keepL := []) (keepB := []) (dropped := top :: rest) h hT ?_ ?_ ?_ ?_ ?_ ?_ ?_
              (Or.inr ⟨by rw [endTask_tasks]; dsimp only; rw [dropBatch_tasks], rfl, rfl, ?_⟩)
            · intro k; rw [hF]; simp
            · intro k; rw [hF]; simp
            · intro k hk; simp at hk
            · intro k hk; simp at hk
            · intro k; rw [endTask_comp]; dsimp only; rw [owner_dropFrames, dropBatch_comp]
            · intro k; rw [endTask_bpl]; dsimp only; rw [bpl_dropFrames, dropBatch_bpl]
            · rw [endTask_partialW]; exact dropBatch_partialW ..
            · intro hpc; simp [hpc, Pc.guarded] at hg
    · cases hs

end QbiceVerif.CancelLts
