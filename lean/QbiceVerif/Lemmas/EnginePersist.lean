/-
Lemmas for C07 / C08, part 1: the store as a fold of write batches over the trace of published
images (`Model/EnginePersist.lean`), and restart / reload on the full engine model.

A *batch* is the difference between two consecutive published images, per stored map ("column"):
the timestamp, the node table (LastVerified / ForwardEdgeOrder / ForwardEdgeObservation / QueryKind /
NodeInfo / PendingBackwardProjection / QueryInput / QueryResult of every query), the backward-edge
sets, the dirty-edge set — each either untouched or replaced by its new content.  Which Rust
function writes which cell is tied to the code by the correspondence, not here; what is proved here
is the algebra the crash argument needs: batches are applied entirely or not at all, in order, and
the store after the first `i` of them is the `i`-th published image.
-/
import QbiceVerif.Model.EnginePersist
namespace Qbice.Persist
open Qbice.Engine

/-- one logical write batch, as the set of columns it rewrites -/
structure Batch where
  epoch : Option Nat := none
  nodes : Option (List (Key × Node)) := none
  back : Option (List (Key × Key)) := none
  dirty : Option (List (Key × Key)) := none
  deriving DecidableEq

/-- atomic application of a batch to a store image -/
def applyBatch (st : PSt) (b : Batch) : PSt :=
  { epoch := b.epoch.getD st.epoch, nodes := b.nodes.getD st.nodes,
    back := b.back.getD st.back, dirty := b.dirty.getD st.dirty }

/-- the batch of a publication that takes image `a` to image `b`: only what changed is written -/
def batchOf (a b : PSt) : Batch :=
  { epoch := if a.epoch = b.epoch then none else some b.epoch,
    nodes := if a.nodes = b.nodes then none else some b.nodes,
    back := if a.back = b.back then none else some b.back,
    dirty := if a.dirty = b.dirty then none else some b.dirty }

theorem applyBatch_batchOf (a b : PSt) : applyBatch a (batchOf a b) = b := by
  cases a; cases b
  simp only [applyBatch, batchOf]
  congr 1 <;> (split <;> simp_all)

/-- the logical batches of a run, in creation (= epoch) order, from the trace of published images -/
def batches : PSt → List PSt → List Batch
  | _, [] => []
  | prev, img :: rest => batchOf prev img :: batches img rest

/-- the store: the batches applied one after another to the empty store -/
def storeFrom (init : PSt) (bs : List Batch) : PSt := bs.foldl applyBatch init

theorem batches_length (prev : PSt) (tr : List PSt) : (batches prev tr).length = tr.length := by
  induction tr generalizing prev with
  | nil => rfl
  | cons a r ih => simp [batches, ih]

theorem storeFrom_batches (prev : PSt) (tr : List PSt) :
    storeFrom prev (batches prev tr) = (tr.getLast?).getD prev := by
  induction tr generalizing prev with
  | nil => rfl
  | cons a r ih =>
    simp only [batches, storeFrom, List.foldl_cons, applyBatch_batchOf]
    have := ih a
    simp only [storeFrom] at this
    rw [this]
    cases r with
    | nil => rfl
    | cons b r' =>
      rw [List.getLast?_cons_cons]
      cases h : (b :: r').getLast? with
      | none => simp at h
      | some x => rfl

theorem batches_take (prev : PSt) (tr : List PSt) (i : Nat) :
    (batches prev tr).take i = batches prev (tr.take i) := by
  induction tr generalizing prev i with
  | nil => simp [batches]
  | cons a r ih =>
    cases i with
    | zero => simp [batches]
    | succ i => simp [batches, ih]

/-- the store after the first `i` batches is the `i`-th published image -/
theorem storeFrom_prefix (tr : List PSt) (i : Nat) (hi : i ≤ tr.length) :
    some (storeFrom {} ((batches {} tr).take i)) = imageAt tr i := by
  rw [batches_take, storeFrom_batches]
  cases i with
  | zero => simp [imageAt]
  | succ i =>
    simp only [imageAt]
    have hlt : i < tr.length := hi
    rw [List.getLast?_take]
    simp [hlt]

-- ------------------------------------------------------------------ restart / load

theorem persistent_load (w : List (Key × Val)) (ps : PSt) : persistent (load w ps) = ps := by
  cases ps; rfl

theorem persistent_restart (s : St) : persistent (restart s) = persistent s := rfl

/-- a restart is: reload the persistent image into a fresh engine (every field of the engine state
    is either stored or reset; the model's observation counters are carried over).  This statement
    stops compiling when a field is added to the engine state without deciding which it is. -/
theorem restart_is_reload (s : St) :
    restart s = { load s.world (persistent s) with log := s.log, choicePoints := s.choicePoints, tapePos := s.tapePos } := by
  cases s; rfl

/-- nothing is in flight: no query is computing and no backward-projection lock is held -/
def Quiescent (s : St) : Prop := s.computing = [] ∧ s.bpLock = [] ∧ s.tfcStack = []

instance (s : St) : Decidable (Quiescent s) := by unfold Quiescent; exact inferInstance

/-- on a quiescent state a restart forgets exactly the per-epoch `dirtied` set and the statistic -/
theorem restart_quiescent {s : St} (h : Quiescent s) :
    restart s = { s with dirtied := [], dirtiedEdges := 0 } := by
  obtain ⟨h1, h2, h3⟩ := h
  cases s
  simp only [restart] at *
  subst h1; subst h2; subst h3; rfl

theorem restart_idem (s : St) : restart (restart s) = restart s := rfl

theorem restart_quiescent' (s : St) : Quiescent (restart s) := ⟨rfl, rfl, rfl⟩

-- ------------------------------------------------------------------ histories of the full model

/-- histories of the full model with restarts: values returned by the rounds -/
inductive HOp | sess (ws : List Write) | round (ks : List Key) | restart

def runH (t : Toggles) (p : Program) : List HOp → PS → Option (List (List Val))
  | [], _ => some []
  | .restart :: r, ps => runH t p r (restartP ps)
  | .sess ws :: r, ps => match runP (sessionP p ws) ps with
    | .ok (_, ps') => runH t p r ps'
    | .error _ => none
  | .round ks :: r, ps => match runP (roundP t p ks) ps with
    | .ok (vs, ps') => (runH t p r ps').map (vs :: ·)
    | .error _ => none

/-- inputs `i`=0, `j`=1, `sel`=2;  `y`=3 reads `i` (always 0);  firewall `F`=4 reads `j`;
    `x`=5 = `y` + (`F` if `sel`=1);  `Q`=6 reads `x`  (corpus/C07-F20-dirtied-after-F1.txt) -/
def witnessProgram : Program := [
  { kind := .input, dflt := 0, prog := .ret 0 },
  { kind := .input, dflt := 0, prog := .ret 0 },
  { kind := .input, dflt := 0, prog := .ret 0 },
  { kind := .normal, dflt := -1, prog := .ask 0 fun _ => .ret 0 },
  { kind := .firewall, dflt := -2, prog := .ask 1 fun v => .ret v },
  { kind := .normal, dflt := -1, prog := .ask 3 fun a => .ask 2 fun s => if s = 1 then .ask 4 fun f => .ret (a + f) else .ret a },
  { kind := .normal, dflt := -1, prog := .ask 5 fun v => .ret v } ]

def witnessBefore : List HOp :=
  [.sess [.set 0 0, .set 1 10, .set 2 0], .round [6], .sess [.set 2 1], .round [5],
   .sess [.set 1 20, .set 0 1], .round [6]]

def witnessAfter : List HOp := [.round [4], .sess [], .round [6]]

end Qbice.Persist
