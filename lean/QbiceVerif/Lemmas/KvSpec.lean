/-
The obvious specification of the `KvDatabase` API, and the glue that runs the byte-level model
(`Model/KvStore.lean`) on logical commands.

  committed state   wide : column → value type (discriminant) → key → value
                    sets : column → key → element → member?
                    (two independent maps: the wide column and the key-of-set column of ONE type id are
                    different columns of the specification)
  open batches / serialization buffers hold LOGICAL operations; `commit` applies a batch as a whole;
  reads look at the committed state only; `reopen` forgets everything that is not committed.
-/
import QbiceVerif.Model.KvStore
import QbiceVerif.Lemmas.KvKey

namespace QbiceVerif.Kv

/-- How logical keys / discriminants / elements of each column become bytes (the serializer), and the
`discriminant_encoding()` of each wide column.  A stable type id may be used BOTH as a wide column and
as a key-of-set column (a type implementing both traits): `encK` is the encoder of its
`WideColumn::Key`, `encSK` the encoder of its `KeyOfSetColumn::Key` (two independent associated types). -/
structure Enc (κ δ ε : Type) where
  plc : Nat → Placement
  encK : Nat → κ → Bytes
  encSK : Nat → κ → Bytes
  encD : Nat → δ → Bytes
  encE : Nat → ε → Bytes

/-- A logical write operation. -/
inductive LOp (κ δ ε : Type) where
  | put (col : Nat) (d : δ) (k : κ) (v : Bytes)
  | del (col : Nat) (d : δ) (k : κ)
  | ins (col : Nat) (k : κ) (e : ε)
  | rem (col : Nat) (k : κ) (e : ε)

/-- A step of a client of the API. -/
inductive Cmd (κ δ ε : Type) where
  | bnew (h : Nat)
  | snew (s : Nat)
  | bop (h : Nat) (op : LOp κ δ ε)
  | sop (s : Nat) (op : LOp κ δ ε)
  | consume (h s : Nat)
  | commit (h : Nat)
  | drop (h : Nat)
  | get (col : Nat) (d : δ) (k : κ)
  | scan (col : Nat) (k : κ)
  | reopen

/-! ### specification -/

structure Spec (κ δ ε : Type) where
  wide : Nat → δ → κ → Option Bytes
  sets : Nat → κ → ε → Bool
  batches : List (Nat × List (LOp κ δ ε))
  sbufs : List (Nat × List (LOp κ δ ε))

def Spec.init {κ δ ε : Type} : Spec κ δ ε :=
  { wide := fun _ _ _ => none, sets := fun _ _ _ => false, batches := [], sbufs := [] }

/-- what a client observes of a specification step -/
inductive SObs (ε : Type) where
  | done
  | bad
  | val (v : Option Bytes)
  | members (m : ε → Bool)

section
variable {κ δ ε : Type} [DecidableEq κ] [DecidableEq δ] [DecidableEq ε]

/-- the effect of one committed operation -/
def specApply (st : (Nat → δ → κ → Option Bytes) × (Nat → κ → ε → Bool)) (op : LOp κ δ ε) :
    (Nat → δ → κ → Option Bytes) × (Nat → κ → ε → Bool) :=
  match op with
  | .put c d k v => (fun c' d' k' => if c' = c ∧ d' = d ∧ k' = k then some v else st.1 c' d' k', st.2)
  | .del c d k => (fun c' d' k' => if c' = c ∧ d' = d ∧ k' = k then none else st.1 c' d' k', st.2)
  | .ins c k e => (st.1, fun c' k' e' => if c' = c ∧ k' = k ∧ e' = e then true else st.2 c' k' e')
  | .rem c k e => (st.1, fun c' k' e' => if c' = c ∧ k' = k ∧ e' = e then false else st.2 c' k' e')

def sstep (sp : Spec κ δ ε) : Cmd κ δ ε → SObs ε × Spec κ δ ε
  | .bnew h => (.done, { sp with batches := aset sp.batches h [] })
  | .snew s => (.done, { sp with sbufs := aset sp.sbufs s [] })
  | .bop h op =>
    match aget sp.batches h with
    | none => (.bad, sp)
    | some ops => (.done, { sp with batches := aset sp.batches h (ops ++ [op]) })
  | .sop s op =>
    match aget sp.sbufs s with
    | none => (.bad, sp)
    | some ops => (.done, { sp with sbufs := aset sp.sbufs s (ops ++ [op]) })
  | .consume h s =>
    match aget sp.batches h, aget sp.sbufs s with
    | some ops, some sops =>
      (.done, { sp with batches := aset sp.batches h (ops ++ sops), sbufs := adel sp.sbufs s })
    | _, _ => (.bad, sp)
  | .commit h =>
    match aget sp.batches h with
    | none => (.bad, sp)
    | some ops =>
      let st := ops.foldl specApply (sp.wide, sp.sets)
      (.done, { sp with wide := st.1, sets := st.2, batches := adel sp.batches h })
  | .drop h =>
    match aget sp.batches h with
    | none => (.bad, sp)
    | some _ => (.done, { sp with batches := adel sp.batches h })
  | .get c d k => (.val (sp.wide c d k), sp)
  | .scan c k => (.members (sp.sets c k), sp)
  | .reopen => (.done, { sp with batches := [], sbufs := [] })

end

/-! ### the model run on logical commands -/

/-- what a client observes of a model step -/
inductive MObs where
  | res (r : Res)
  | val (v : Option (Option Bytes))
  | members (m : Option (List (Option Bytes)))

section
variable {κ δ ε : Type}

/-- column id, kind, composite key and value of the raw store operation of a logical operation -/
def opParts (be : Backend) (E : Enc κ δ ε) : LOp κ δ ε → Nat × Kind × Bytes × Option Bytes
  | .put c d k v => (c, .wide, wideKey be.padKey (E.plc c) (E.encD c d) (E.encK c k), some v)
  | .del c d k => (c, .wide, wideKey be.padKey (E.plc c) (E.encD c d) (E.encK c k), none)
  | .ins c k e => (c, .set, setKey (E.encSK c k) (E.encE c e), some [])
  | .rem c k e => (c, .set, setKey (E.encSK c k) (E.encE c e), none)

def mstep (be : Backend) (E : Enc κ δ ε) (db : Db) : Cmd κ δ ε → MObs × Db
  | .bnew h => (.res .ok, batchNew db h)
  | .snew s => (.res .ok, sbufNew db s)
  | .bop h op =>
    let p := opParts be E op
    let r := batchWrite be db h p.1 p.2.1 p.2.2.1 p.2.2.2
    (.res r.1, r.2)
  | .sop s op =>
    let p := opParts be E op
    let r := sbufWrite be db s p.1 p.2.1 p.2.2.1 p.2.2.2
    (.res r.1, r.2)
  | .consume h s => let r := consume be db h s; (.res r.1, r.2)
  | .commit h => let r := commit db h; (.res r.1, r.2)
  | .drop h => let r := dropBatch db h; (.res r.1, r.2)
  | .get c d k => let r := get be db c (E.plc c) (E.encD c d) (E.encK c k); (.val r.1, r.2)
  | .scan c k => let r := scan be db c (E.encSK c k); (.members r.1, r.2)
  | .reopen => (.res .ok, reopen db)

/-- a model observation says the same as a specification observation -/
def ObsMatch (E : Enc κ δ ε) (col : Nat) : MObs → SObs ε → Prop
  | .res .ok, .done => True
  | .res .badHandle, .bad => True
  | .val (some v), .val v' => v = v'
  | .members (some l), .members m =>
    -- exactly the committed members of exactly that key, each in its encoded form, each once
    (∀ y, y ∈ l ↔ ∃ e, y = some (E.encE col e) ∧ m e = true) ∧ l.Nodup
  | _, _ => False

/-- column the observation of a command is about (only used for `scan`) -/
def Cmd.col : Cmd κ δ ε → Nat
  | .scan c _ => c
  | _ => 0

end

end QbiceVerif.Kv
