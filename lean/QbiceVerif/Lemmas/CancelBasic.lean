import QbiceVerif.Model.CancelLts

/-!
# C05 — basic lemmas about the drop glue of `Model/CancelLts.lean`

`owner c k` is the owner of the computing entry of `k`; every event of the model changes it only by
inserting or removing whole entries (registrations never change it).  `dropFrames` removes exactly
the entries of the locked frames it drops and nothing else.
-/

namespace QbiceVerif.CancelLts

def owner (c : Key → Option Entry) (k : Key) : Option Tid := (c k).map Entry.owner

def lockKeys (fs : List Frame) : List Key := (fs.filter (fun f => f.lock)).map (fun f => f.key)
def bpKeys (fs : List Frame) : List Key := (fs.filter (fun f => f.bp)).map (fun f => f.key)

theorem mem_lockKeys {fs : List Frame} {k : Key} : k ∈ lockKeys fs ↔ ∃ f ∈ fs, f.lock = true ∧ f.key = k := by
  simp [lockKeys, List.mem_map, List.mem_filter, and_assoc]

theorem mem_bpKeys {fs : List Frame} {k : Key} : k ∈ bpKeys fs ↔ ∃ f ∈ fs, f.bp = true ∧ f.key = k := by
  simp [bpKeys, List.mem_map, List.mem_filter, and_assoc]

@[simp] theorem owner_upd_none (c : Key → Option Entry) (a k : Key) :
    owner (upd c a none) k = if k = a then none else owner c k := by
  simp only [owner, upd]; split <;> simp

@[simp] theorem owner_upd_some (c : Key → Option Entry) (a k : Key) (e : Entry) :
    owner (upd c a (some e)) k = if k = a then some e.owner else owner c k := by
  simp only [owner, upd]; split <;> simp

theorem owner_unregAt (c : Key → Option Entry) (a x k : Key) : owner (unregAt c a x) k = owner c k := by
  unfold unregAt
  cases h : c a with
  | none => simp
  | some e =>
    simp only [owner_upd_some]
    split
    · next hk => subst hk; simp [owner, h]
    · rfl

theorem owner_dropFrame (f : Frame) (c : Key → Option Entry) (b : Key → Option Tid) (k : Key) :
    owner (dropFrame f c b).1 k = if f.lock = true ∧ k = f.key then none else owner c k := by
  unfold dropFrame
  cases hu : f.undo with
  | none =>
    cases hl : f.lock <;> simp
  | some a =>
    simp only [owner_unregAt]
    cases hl : f.lock <;> simp

theorem bpl_dropFrame (f : Frame) (c : Key → Option Entry) (b : Key → Option Tid) (k : Key) :
    (dropFrame f c b).2 k = if f.bp = true ∧ k = f.key then none else b k := by
  unfold dropFrame
  cases hb : f.bp <;> simp [upd]

theorem owner_dropFrames (fs : List Frame) (c : Key → Option Entry) (b : Key → Option Tid) (k : Key) :
    owner (dropFrames fs c b).1 k = if k ∈ lockKeys fs then none else owner c k := by
  induction fs generalizing c b with
  | nil => simp [dropFrames, lockKeys]
  | cons f fs ih =>
    simp only [dropFrames]
    rw [ih, owner_dropFrame]
    by_cases hk : k ∈ lockKeys fs
    · have : k ∈ lockKeys (f :: fs) := by
        rw [mem_lockKeys] at hk ⊢
        obtain ⟨g, hg, h1, h2⟩ := hk
        exact ⟨g, List.mem_cons_of_mem _ hg, h1, h2⟩
      simp [hk, this]
    · simp only [hk, if_false]
      by_cases hf : f.lock = true ∧ k = f.key
      · have : k ∈ lockKeys (f :: fs) := by
          rw [mem_lockKeys]; exact ⟨f, List.mem_cons_self, hf.1, hf.2.symm⟩
        rw [if_pos hf, if_pos this]
      · have : k ∉ lockKeys (f :: fs) := by
          rw [mem_lockKeys]
          rintro ⟨g, hg, h1, h2⟩
          rcases List.mem_cons.mp hg with rfl | hg'
          · exact hf ⟨h1, h2.symm⟩
          · exact hk (mem_lockKeys.mpr ⟨g, hg', h1, h2⟩)
        rw [if_neg hf, if_neg this]

theorem bpl_dropFrames (fs : List Frame) (c : Key → Option Entry) (b : Key → Option Tid) (k : Key) :
    (dropFrames fs c b).2 k = if k ∈ bpKeys fs then none else b k := by
  induction fs generalizing c b with
  | nil => simp [dropFrames, bpKeys]
  | cons f fs ih =>
    simp only [dropFrames]
    rw [ih, bpl_dropFrame]
    by_cases hk : k ∈ bpKeys fs
    · have : k ∈ bpKeys (f :: fs) := by
        rw [mem_bpKeys] at hk ⊢
        obtain ⟨g, hg, h1, h2⟩ := hk
        exact ⟨g, List.mem_cons_of_mem _ hg, h1, h2⟩
      simp [hk, this]
    · simp only [hk, if_false]
      by_cases hf : f.bp = true ∧ k = f.key
      · have : k ∈ bpKeys (f :: fs) := by
          rw [mem_bpKeys]; exact ⟨f, List.mem_cons_self, hf.1, hf.2.symm⟩
        rw [if_pos hf, if_pos this]
      · have : k ∉ bpKeys (f :: fs) := by
          rw [mem_bpKeys]
          rintro ⟨g, hg, h1, h2⟩
          rcases List.mem_cons.mp hg with rfl | hg'
          · exact hf ⟨h1, h2.symm⟩
          · exact hk (mem_bpKeys.mpr ⟨g, hg', h1, h2⟩)
        rw [if_neg hf, if_neg this]

end QbiceVerif.CancelLts
