/-
Every id the model produces is a pair of `u64`s (`IdWf`): `from_unique_type_name`, `combine`, and
therefore `typeId?` over any constructor table.
-/
import QbiceVerif.Lemmas.TypeIdMix
import QbiceVerif.Lemmas.TypeIdQuery

namespace QbiceVerif.TypeId

theorem sipround_wf {s : St} (h : s.Wf) : (sipround s).Wf := by
  rw [sipround_eq_steps]; exact runSteps_wf _ sipSteps_ok h

theorem combineMix_wf {s : St} (h : s.Wf) : (combineMix s).Wf := by
  rw [combineMix_eq_steps]; exact runSteps_wf _ combineSteps_ok h

theorem fold_wf {s : St} (h : s.Wf) : IdWf (fold s) :=
  fold_wf_of_lt h.1 h.2.1 h.2.2.1 h.2.2.2

theorem readU64le_lt (b0 b1 b2 b3 b4 b5 b6 b7 : Nat) : readU64le b0 b1 b2 b3 b4 b5 b6 b7 < M := by
  unfold readU64le M; omega

theorem tailWord_lt (l : List Nat) : tailWord l < M := by
  cases l with
  | nil => decide
  | cons b bs => unfold tailWord M; omega

theorem absorb_wf {s : St} (h : s.Wf) {w : Nat} (hw : w < M) : (absorb s w).Wf := by
  unfold absorb
  have h1 : St.Wf { s with v0 := s.v0 ^^^ w } := ⟨xor_lt h.1 hw, h.2.1, h.2.2.1, h.2.2.2⟩
  have h2 := sipround_wf (sipround_wf h1)
  exact ⟨h2.1, h2.2.1, h2.2.2.1, xor_lt h2.2.2.2 hw⟩

theorem chunks_wf (s : St) (l : List Nat) (h : s.Wf) : (chunks s l).Wf := by
  fun_induction chunks s l with
  | case1 s b0 b1 b2 b3 b4 b5 b6 b7 rest ih => exact ih (absorb_wf h (readU64le_lt ..))
  | case2 s tail _ => exact absorb_wf h (tailWord_lt _)

theorem fromName_wf (bytes : List Nat) : IdWf (fromName bytes) := by
  unfold fromName
  have hm : bytes.length % M < M := Nat.mod_lt _ (by decide)
  have h0 : St.Wf ⟨K0 ^^^ (bytes.length % M), K1 ^^^ wmul (bytes.length % M) G0, K2, K3⟩ :=
    ⟨xor_lt (by decide) hm, xor_lt (by decide) (wmul_lt _ _), (by decide : K2 < M), (by decide : K3 < M)⟩
  have h1 := chunks_wf _ bytes h0
  have h2 := sipround_wf (sipround_wf (sipround_wf (sipround_wf h1)))
  have h3 : St.Wf ⟨_ ^^^ _, _ ^^^ _, _, _⟩ :=
    ⟨xor_lt h2.1 h2.2.2.1, xor_lt h2.2.1 h2.2.2.2, h2.2.2.1, h2.2.2.2⟩
  exact fold_wf (sipround_wf (sipround_wf h3))

theorem combineInit_wf {a b : Id} (ha : IdWf a) (hb : IdWf b) : (combineInit a b).Wf :=
  ⟨xor_lt ha.1 (by decide), xor_lt ha.2 (by decide), xor_lt hb.1 (by decide), xor_lt hb.2 (by decide)⟩

theorem combine_wf {a b : Id} (ha : IdWf a) (hb : IdWf b) : IdWf (combine a b) :=
  fold_wf (combineMix_wf (combineInit_wf ha hb))

theorem evalExpr_wf (params : List Id) (hp : ∀ p ∈ params, IdWf p) :
    ∀ (e : IdExpr) (i : Id), evalExpr params e = some i → IdWf i
  | .name b, i, h => by
    simp only [evalExpr, Option.some.injEq] at h; subst h; exact fromName_wf b
  | .param k, i, h => by
    simp only [evalExpr] at h
    exact hp i (List.mem_of_getElem? h)
  | .combine a b, i, h => by
    simp only [evalExpr] at h
    cases ha : evalExpr params a with
    | none => simp [ha] at h
    | some x =>
      cases hb : evalExpr params b with
      | none => simp [ha, hb] at h
      | some y =>
        simp only [ha, hb, Option.some.injEq] at h
        subst h
        exact combine_wf (evalExpr_wf params hp a x ha) (evalExpr_wf params hp b y hb)

mutual
theorem typeId?_wf (tbl : List Ctor) : ∀ (t : Ty) (i : Id), typeId? tbl t = some i → IdWf i
  | .lit n, i, h => by
    simp only [typeId?, Option.some.injEq] at h
    subst h
    exact ⟨Nat.mod_lt _ (by decide), (by decide : 0 < M)⟩
  | .con c args, i, h => by
    simp only [typeId?] at h
    cases hc : tbl[c]? with
    | none => simp [hc] at h
    | some ct =>
      cases ha : argIds? tbl args with
      | none => simp [hc, ha] at h
      | some ids =>
        simp only [hc, ha] at h
        split at h
        · exact evalExpr_wf ids (argIds?_wf tbl args ids ha) ct.expr i h
        · exact absurd h (by simp)
theorem argIds?_wf (tbl : List Ctor) : ∀ (ts : TyList) (ids : List Id), argIds? tbl ts = some ids →
    ∀ p ∈ ids, IdWf p
  | .nil, ids, h, p, hp => by
    simp only [argIds?, Option.some.injEq] at h; subst h; exact absurd hp List.not_mem_nil
  | .cons t ts, ids, h, p, hp => by
    simp only [argIds?] at h
    cases h1 : typeId? tbl t with
    | none => simp [h1] at h
    | some i =>
      cases h2 : argIds? tbl ts with
      | none => simp [h1, h2] at h
      | some is =>
        simp only [h1, h2, Option.some.injEq] at h
        subst h
        rcases List.mem_cons.mp hp with rfl | hp'
        · exact typeId?_wf tbl t p h1
        · exact argIds?_wf tbl ts is h2 p hp'
end

end QbiceVerif.TypeId
