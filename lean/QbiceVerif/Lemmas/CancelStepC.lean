import QbiceVerif.Lemmas.CancelStep

/-!
# C05 — preservation of the core invariant, event by event (part C: lock tables change)
-/

namespace QbiceVerif.CancelLts

theorem core_lock {s s' : State} {t : Tid} (h : InvCore s) (hs : step s (.lock t) = some s') : InvCore s' := by
  simp only [step] at hs
  cases hT : s.tasks t with
  | none => simp [hT] at hs
  | some T =>
    cases hF : T.frames with
    | nil => simp [hT, hF] at hs
    | cons top rest =>
      simp only [hT, hF] at hs
      split at hs
      · next hc =>
        obtain ⟨hpc, hl, hb, hfree⟩ := hc
        cases hs
        have hown : owner s.comp top.key = none := by simp [owner, hfree]
        have hrest : lockKeys (top :: rest) = lockKeys rest := by simp [lockKeys_cons, hl]
        have hnot : top.key ∉ lockKeys rest := by
          intro hm
          have := h.lockEntry t T hT top.key (by rw [hF, hrest]; exact hm)
          rw [hown] at this; cases this
        have ho : ∀ t', t' ≠ t → upd s.tasks t (some { T with frames := { top with lock := true } :: rest, pc := Pc.locked }) t' = s.tasks t' := by
          intro t' ht'; simp [upd, ht']
        refine core_frame (t := t) h ho ?_ ?_ (Or.inl ⟨{ T with frames := { top with lock := true } :: rest, pc := Pc.locked }, ⟨?_, ?_, ?_, ?_, ?_, ?_, ?_, ?_⟩⟩) ?_
        · intro k hk
          dsimp only at hk ⊢
          rw [owner_upd_some] at hk ⊢
          by_cases hkt : k = top.key
          · subst hkt; simp [hown]
          · simp [hkt] at hk
        · intro k hk; exact absurd rfl hk
        · simp
        · intro k
          dsimp only
          rw [owner_upd_some, lockKeys_cons]
          simp only [if_true, List.mem_cons]
          by_cases hkt : k = top.key
          · simp [hkt]
          · simp only [hkt, if_false, false_or]
            rw [h.locks_iff hT k, hF, hrest]
        · intro k
          dsimp only
          rw [h.bps_iff hT k, hF]
          simp [bpKeys_cons]
        · dsimp only; rw [lockKeys_cons]; simp only [if_true]
          exact List.nodup_cons.mpr ⟨hnot, by have := (h.nodup t T hT).1; rwa [hF, hrest] at this⟩
        · dsimp only
          have := (h.nodup t T hT).2; rw [hF] at this
          simpa [bpKeys_cons] using this
        · simp [Pc.isSession]
        · intro hd; have := h.detachedOne t T hT hd; rw [hF] at this; simpa using this
        · intro hd; have := h.detachedPc t T hT hd; simp [hpc, Pc.detachable] at this
        · refine partial_keep h ho rfl ?_
          intro T0 top0 rest0 h0 _ hpc0
          rw [hT] at h0; cases h0; simp [hpc] at hpc0
      · cases hs

theorem core_bpLock {s s' : State} {t : Tid} (h : InvCore s) (hs : step s (.bpLock t) = some s') : InvCore s' := by
  simp only [step] at hs
  cases hT : s.tasks t with
  | none => simp [hT] at hs
  | some T =>
    cases hF : T.frames with
    | nil => simp [hT, hF] at hs
    | cons top rest =>
      simp only [hT, hF] at hs
      split at hs
      · next hc =>
        obtain ⟨hpc, hl, hb, hfree⟩ := hc
        cases hs
        have hrest : bpKeys (top :: rest) = bpKeys rest := by simp [bpKeys_cons, hb]
        have hnot : top.key ∉ bpKeys rest := by
          intro hm
          have := h.bpEntry t T hT top.key (by rw [hF, hrest]; exact hm)
          rw [hfree] at this; cases this
        have ho : ∀ t', t' ≠ t → upd s.tasks t (some { T with frames := { top with bp := true } :: rest, pc := Pc.bpRun }) t' = s.tasks t' := by
          intro t' ht'; simp [upd, ht']
        refine core_frame (t := t) h ho ?_ ?_ (Or.inl ⟨{ T with frames := { top with bp := true } :: rest, pc := Pc.bpRun }, ⟨?_, ?_, ?_, ?_, ?_, ?_, ?_, ?_⟩⟩) ?_
        · intro k hk; exact absurd rfl hk
        · intro k hk
          dsimp only at hk ⊢
          by_cases hkt : k = top.key
          · subst hkt; simp [hfree, upd]
          · simp [upd, hkt] at hk
        · simp
        · intro k
          dsimp only
          rw [h.locks_iff hT k, hF]
          simp [lockKeys_cons]
        · intro k
          dsimp only
          rw [bpKeys_cons]
          simp only [if_true, List.mem_cons]
          by_cases hkt : k = top.key
          · simp [hkt, upd]
          · simp only [upd, hkt, if_false, false_or]
            rw [h.bps_iff hT k, hF, hrest]
        · dsimp only
          have := (h.nodup t T hT).1; rw [hF] at this
          simpa [lockKeys_cons] using this
        · dsimp only; rw [bpKeys_cons]; simp only [if_true]
          exact List.nodup_cons.mpr ⟨hnot, by have := (h.nodup t T hT).2; rwa [hF, hrest] at this⟩
        · simp [Pc.isSession]
        · intro hd; have := h.detachedOne t T hT hd; rw [hF] at this; simpa using this
        · intro hd; have := h.detachedPc t T hT hd; simp [hpc, Pc.detachable] at this
        · refine partial_keep h ho rfl ?_
          intro T0 top0 rest0 h0 _ hpc0
          rw [hT] at h0; cases h0; simp [hpc] at hpc0
      · cases hs

end QbiceVerif.CancelLts
