import QbiceVerif.Model.WriteBehind

/-! Basic facts used by the C10 proofs: the store algebra, the hold-back heap, serializer slots. -/

namespace QbiceVerif.WB

/-! ### Store algebra -/

theorem applyOp_comm (s : Store) (a b : WOp) (h : a.key ≠ b.key) :
    applyOp (applyOp s a) b = applyOp (applyOp s b) a := by
  funext k
  simp only [applyOp]
  by_cases h1 : k = b.key <;> by_cases h2 : k = a.key <;> simp_all

theorem applyOps_cons (s : Store) (a : WOp) (l : List WOp) :
    applyOps s (a :: l) = applyOps (applyOp s a) l := rfl

theorem applyOps_append (s : Store) (l₁ l₂ : List WOp) :
    applyOps s (l₁ ++ l₂) = applyOps (applyOps s l₁) l₂ := by
  simp [applyOps, List.foldl_append]

/-- Writes to pairwise distinct store keys commute: the order in which a batch's hash maps are
iterated does not matter. -/
theorem applyOps_perm {l₁ l₂ : List WOp} (hp : l₁.Perm l₂) :
    (l₁.map WOp.key).Nodup → ∀ s : Store, applyOps s l₁ = applyOps s l₂ := by
  induction hp with
  | nil => intros; rfl
  | cons x _ ih =>
    intro hn s
    simp only [List.map_cons, List.nodup_cons] at hn
    simp only [applyOps_cons]
    exact ih hn.2 _
  | swap x y l =>
    intro hn s
    simp only [List.map_cons, List.nodup_cons, List.mem_cons, not_or] at hn
    simp only [applyOps_cons]
    rw [applyOp_comm s y x (fun h => hn.1.1 h)]
  | trans h₁ _ ih₁ ih₂ =>
    intro hn s
    rw [ih₁ hn s]
    exact ih₂ ((h₁.map WOp.key).nodup_iff.mp hn) s

theorem commitStore_eq (st : Store) (cur : List Task) :
    commitStore st cur = applyOps st (cur.flatMap Task.buf) := by
  induction cur generalizing st with
  | nil => rfl
  | cons t r ih =>
    simp only [commitStore, List.foldl_cons, List.flatMap_cons] at *
    rw [applyOps_append]
    exact ih _

theorem commitStore_append (st : Store) (a b : List Task) :
    commitStore st (a ++ b) = commitStore (commitStore st a) b := by
  simp [commitStore, List.foldl_append]

/-! ### The hold-back heap -/

theorem heapMin_none {h : List Task} : heapMin h = none ↔ h = [] := by
  cases h with
  | nil => simp [heapMin]
  | cons x xs =>
    simp only [heapMin]
    split <;> simp
    split <;> simp

theorem heapMin_mem {h : List Task} {t : Task} (hm : heapMin h = some t) : t ∈ h := by
  induction h generalizing t with
  | nil => simp [heapMin] at hm
  | cons x xs ih =>
    simp only [heapMin] at hm
    split at hm
    · simp at hm; simp [hm]
    · rename_i y hy
      split at hm
      · simp at hm; simp [hm]
      · simp at hm; subst hm; exact List.mem_cons_of_mem _ (ih hy)

theorem heapMin_le {h : List Task} {t : Task} (hm : heapMin h = some t) :
    ∀ y ∈ h, t.epoch ≤ y.epoch := by
  induction h generalizing t with
  | nil => simp [heapMin] at hm
  | cons x xs ih =>
    simp only [heapMin] at hm
    split at hm
    · rename_i hn
      have := heapMin_none.mp hn
      subst this
      simp at hm; subst hm; simp
    · rename_i y hy
      have ihy := ih hy
      split at hm
      · rename_i hle
        simp at hm; subst hm
        intro z hz
        rcases List.mem_cons.mp hz with rfl | hz
        · exact Nat.le_refl _
        · exact Nat.le_trans hle (ihy z hz)
      · rename_i hle
        simp at hm; subst hm
        intro z hz
        rcases List.mem_cons.mp hz with rfl | hz
        · omega
        · exact ihy z hz

/-! ### Serializer slots -/

theorem heldAll_set {l : List SerSt} {w : Nat} {a : SerSt} (h : l[w]? = some a) (b : SerSt) :
    ∃ l₁ l₂, l = l₁ ++ a :: l₂ ∧ l.set w b = l₁ ++ b :: l₂ := by
  induction l generalizing w with
  | nil => simp at h
  | cons x xs ih =>
    cases w with
    | zero =>
      simp at h; subst h
      exact ⟨[], xs, rfl, rfl⟩
    | succ w =>
      simp at h
      obtain ⟨l₁, l₂, h₁, h₂⟩ := ih h
      exact ⟨x :: l₁, l₂, by simp [h₁], by simp [List.set_cons_succ, h₂]⟩

theorem heldAll_append (a b : List SerSt) : heldAll (a ++ b) = heldAll a ++ heldAll b := by
  simp [heldAll]

theorem heldAll_cons (a : SerSt) (b : List SerSt) : heldAll (a :: b) = a.held ++ heldAll b := by
  simp [heldAll]

theorem allExited_iff {l : List SerSt} : allExited l = true ↔ ∀ x ∈ l, x = .exited := by
  simp [allExited]

theorem heldAll_of_allExited {l : List SerSt} (h : allExited l = true) : heldAll l = [] := by
  rw [allExited_iff] at h
  induction l with
  | nil => rfl
  | cons x xs ih =>
    rw [heldAll_cons, ih (fun y hy => h y (List.mem_cons_of_mem _ hy))]
    have := h x (List.mem_cons_self)
    subst this
    rfl

/-! ### Reachability -/

theorem reachable_induction {nSer : Nat} {P : State → Prop} (h0 : P (init nSer))
    (hs : ∀ s ev s', Reachable nSer s → P s → step s ev = some s' → P s') :
    ∀ s, Reachable nSer s → P s := by
  intro s hr
  induction hr with
  | init => exact h0
  | step ev hr hst ih => exact hs _ ev _ hr ih hst

theorem run_reachable {nSer : Nat} {s s' : State} (hr : Reachable nSer s) (evs : List Event)
    (h : run s evs = some s') : Reachable nSer s' := by
  induction evs generalizing s with
  | nil => simp [run] at h; subst h; exact hr
  | cons ev rest ih =>
    simp only [run] at h
    split at h
    · rename_i s₁ hs₁
      exact ih (Reachable.step ev hr hs₁) h
    · cases h

end QbiceVerif.WB
