/-
Lemmas for C08, part 4: the store images of a whole history of the core model (one per logical
write batch: the session batches and every batch published by the queries of the rounds), and what a
new engine opened on any of them answers.
-/
import QbiceVerif.Lemmas.EnginePersistCrash
import QbiceVerif.Lemmas.EnginePersistCore
namespace Qbice.Core

/-- images published during a round (keys in order through the local cache, as `roundAux`) -/
def imagesRound (p : Program) (fuel : Nat) : List Key → List (Key × Val) → St → List St
  | [], _, _ => []
  | k :: rest, cache, s =>
    match cache.find? (fun e => e.1 == k) with
    | some _ => imagesRound p fuel rest cache s
    | none =>
      imagesQ p fuel k s ++
        (match query p fuel k s with
         | .error _ => []
         | .ok (v, s1) => imagesRound p fuel rest (cache ++ [(k, v)]) s1)

/-- the store images of a history, one per logical write batch, in commit order -/
def imagesOps (p : Program) : List Op → St → List St
  | [], _ => []
  | .sess sets :: rest, s =>
    match session p sets { s with log := [] } with
    | .error _ => []
    | .ok (_, s1) => s1 :: imagesOps p rest s1
  | .round ks :: rest, s =>
    imagesRound p (fuelFor p) ks [] { s with log := [] } ++
      (match round p (fuelFor p) ks { s with log := [] } with
       | .error _ => []
       | .ok (_, s1) => imagesOps p rest s1)

/-- the committed inputs after the sessions of a history -/
def inputsAfter : List Op → (Key → Option Val) → (Key → Option Val)
  | [], i => i
  | .sess sets :: rest, i => inputsAfter rest (applyWrites sets i)
  | .round _ :: rest, i => inputsAfter rest i

theorem imagesQ_badKey {p : Program} {s : St} (inv : Inv p s) {k : Key} (hk : p.length ≤ k) (fuel : Nat) :
    imagesQ p fuel k s = [] := by
  cases fuel with
  | zero => rfl
  | succ f =>
    have hp : p[k]? = none := List.getElem?_eq_none hk
    have hn : s.nodes k = none := by
      cases h : s.nodes k with
      | none => rfl
      | some n => obtain ⟨d, hd, _⟩ := inv.kind k n h; rw [hp] at hd; cases hd
    simp [imagesQ, hn, hp]

theorem imagesRound_ok {p : Program} (wf : WF p) {fuel : Nat} (hf : p.length < fuel) :
    ∀ (ks : List Key) (cache : List (Key × Val)) (s : St), Inv p s →
      ∀ t, t ∈ imagesRound p fuel ks cache s →
        Inv p t ∧ inputsOf t = inputsOf s ∧ t.epoch = s.epoch ∧ extOf p t = extOf p s ∧ t.world = s.world := by
  intro ks
  induction ks with
  | nil => intro cache s _ t ht; simp [imagesRound] at ht
  | cons k rest ih =>
    intro cache s inv t ht
    simp only [imagesRound] at ht
    split at ht
    · exact ih cache s inv t ht
    · rw [List.mem_append] at ht
      by_cases hk : k < p.length
      · cases ht with
        | inl ht =>
          have h := images_ok wf fuel k (by komega) s inv t ht
          exact ⟨h.inv, h.inputs, h.epoch, h.ext, h.world⟩
        | inr ht =>
          have hq := query_spec wf fuel k (by komega) s inv
          cases hr : query p fuel k s with
          | error e => rw [hr] at ht; simp at ht
          | ok r =>
            obtain ⟨v, s1⟩ := r
            rw [hr] at ht hq
            obtain ⟨i1, f1, _⟩ := hq
            simp only at i1 f1 ht
            obtain ⟨a, b, c, d, e⟩ := ih (cache ++ [(k, v)]) s1 i1 t ht
            exact ⟨a, by rw [b, f1.inputs], by rw [c, f1.epoch], by rw [d, f1.ext], by rw [e, f1.world]⟩
      · obtain ⟨f, rfl⟩ : ∃ f, fuel = f + 1 := ⟨fuel - 1, by omega⟩
        rw [imagesQ_badKey inv (by komega), query_badKey inv (by komega) f] at ht
        simp at ht

/-- every store image of a history satisfies the invariant and shows the inputs, the external
    values, the world and the timestamp of the state reached by a prefix of it -/
theorem imagesOps_ok {p : Program} (wf : WF p) :
    ∀ (ops : List Op) (s : St), Inv p s → ∀ t, t ∈ imagesOps p ops s →
      Inv p t ∧ ∃ pre outs sp, pre <+: ops ∧ runOps p pre s = .ok (outs, sp) ∧
        inputsOf t = inputsAfter pre (inputsOf s) ∧ inputsOf t = inputsOf sp ∧
        extOf p t = extOf p sp ∧ t.world = sp.world ∧ t.epoch = sp.epoch := by
  intro ops
  induction ops with
  | nil => intro s _ t ht; simp [imagesOps] at ht
  | cons op rest ih =>
    intro s inv t ht
    cases op with
    | sess ws =>
      simp only [imagesOps] at ht
      cases hs : session p ws { s with log := [] } with
      | error e => rw [hs] at ht; simp at ht
      | ok r =>
        obtain ⟨rs, s1⟩ := r
        rw [hs] at ht
        obtain ⟨i1, _, h2, _, _⟩ := session_spec (inv.setLog []) hs
        have h2 : inputsOf s1 = applyWrites ws (inputsOf s) := h2
        simp only [List.mem_cons] at ht
        cases ht with
        | inl e =>
          subst e
          exact ⟨i1, [.sess ws], [.sess rs], t, by simp, by simp [runOps, hs],
            by simp [inputsAfter, h2], rfl, rfl, rfl, rfl⟩
        | inr ht =>
          obtain ⟨a, pre, outs, sp, hp, hr, hi, r1, r2, r3, r4⟩ := ih s1 i1 t ht
          exact ⟨a, .sess ws :: pre, .sess rs :: outs, sp, by simpa using hp, by simp [runOps, hs, hr],
            by simp [inputsAfter, hi, h2], r1, r2, r3, r4⟩
    | round ks =>
      simp only [imagesOps, List.mem_append] at ht
      cases ht with
      | inl ht =>
        obtain ⟨a, b, c, d, e⟩ :=
          imagesRound_ok wf (fuel := fuelFor p) (by simp [fuelFor]) ks [] _ (inv.setLog []) t ht
        exact ⟨a, [], [], s, by simp, rfl, by rw [b]; rfl, b, d, e, c⟩
      | inr ht =>
        have hrd := round_spec wf (inv.setLog []) ks
        cases hr : round p (fuelFor p) ks { s with log := [] } with
        | error e => rw [hr] at ht; simp at ht
        | ok r =>
          obtain ⟨vs, s1⟩ := r
          rw [hr] at ht hrd
          obtain ⟨_, i1, f1⟩ := hrd
          simp only at i1 f1 ht
          obtain ⟨a, pre, outs, sp, hp, hr2, hi, r1, r2, r3, r4⟩ := ih s1 i1 t ht
          have : inputsOf s1 = inputsOf s := f1.inputs
          exact ⟨a, .round ks :: pre, .round vs s1.log :: outs, sp, by simpa using hp,
            by simp [runOps, hr, hr2], by simp [inputsAfter, hi, this], r1, r2, r3, r4⟩

end Qbice.Core
