import QbiceVerif.Lemmas.WriteBehindDrain

/-! Progress: a variant that every non-user step decreases, and absence of deadlock during shutdown. -/

namespace QbiceVerif.WB

def slotW : SerSt → Nat
  | .idle => 1
  | .raw _ => 19
  | .done _ => 17
  | .exited => 0

def slotSum (l : List SerSt) : Nat := (l.map slotW).sum

theorem slotSum_append (a b : List SerSt) : slotSum (a ++ b) = slotSum a + slotSum b := by
  simp [slotSum]

theorem slotSum_cons (a : SerSt) (b : List SerSt) : slotSum (a :: b) = slotW a + slotSum b := by
  simp [slotSum]

def cpcW : CPc → Nat
  | .wait => 10
  | .loop => 11
  | .notify r => 12 + 2 * r.length
  | .commit => 13
  | .decide => 14
  | .lastCommit => 9
  | .lastNotify r => 8 + 2 * r.length
  | .assert => 7
  | .done => 6

def dpcW : DPc → Nat
  | .running => 5
  | .flagged => 4
  | .joinSers => 3
  | .joinCommit => 2
  | .joinAfter => 1
  | .returned => 0

/-- The variant. -/
def mu (s : State) : Nat :=
  if s.crashed then 0 else
    1 + 20 * s.serQ.length + slotSum s.sers + 14 * s.commitQ.length + 10 * s.heap.length + 4 * s.cur.length
      + cpcW s.cpc + (if s.final then 0 else 20) + s.afterQ.length + (if s.aExited then 0 else 1) + dpcW s.dpc

def Event.user : Event → Bool
  | .create | .submit _ _ => true
  | _ => false

macro "fin_tac" : tactic => `(tactic| first | (simp; done) | (simp; omega) | omega)

theorem mu_decreases {s s' : State} {ev : Event} (hd : PcD s) (hst : Step s ev s') (hu : ev.user = false) :
    mu s' < mu s := by
  cases hst
  case create => cases hu
  case submitCrash => cases hu
  case submit => cases hu
  case serTake w t q hc hw hq =>
    obtain ⟨l₁, l₂, e₁, e₂⟩ := heldAll_set hw (.raw t)
    simp only [mu, hc, e₂, hq]
    rw [e₁]
    simp only [slotSum_append, slotSum_cons, slotW, List.length_cons]
    fin_tac
  case serSerialise w buf t hc hw hp =>
    obtain ⟨l₁, l₂, e₁, e₂⟩ := heldAll_set hw (.done { t with buf := buf })
    simp only [mu, hc, e₂]
    rw [e₁]
    simp only [slotSum_append, slotSum_cons, slotW]
    fin_tac
  case serSend w t hc hw =>
    obtain ⟨l₁, l₂, e₁, e₂⟩ := heldAll_set hw .idle
    simp only [mu, hc, e₂]
    rw [e₁]
    simp only [slotSum_append, slotSum_cons, slotW, List.length_append, List.length_cons, List.length_nil]
    fin_tac
  case serExit w hc hw hq hcl =>
    obtain ⟨l₁, l₂, e₁, e₂⟩ := heldAll_set hw .exited
    simp only [mu, hc, e₂]
    rw [e₁]
    simp only [slotSum_append, slotSum_cons, slotW]
    fin_tac
  case cRecv t q hc hp hq =>
    simp only [mu, hc, hp, hq, cpcW, List.length_cons]
    fin_tac
  case cRecvClosed hc hp hq hx =>
    have hf : s.final = false := hd.wait_nf hp
    simp only [mu, hc, hp, cpcW, hf]
    fin_tac
  case cPop t hc hp hm he =>
    have hmem := heapMin_mem hm
    have hl := List.length_erase_of_mem hmem
    have hpos : 0 < s.heap.length := List.length_pos_of_mem hmem
    simp only [mu, hc, hp, cpcW, List.length_append, List.length_cons, List.length_nil, hl]
    fin_tac
  case cBreak hc hp hm =>
    cases hf : s.final <;> simp only [mu, hc, hp, cpcW, hf] <;> fin_tac
  case cDecide more hc hp =>
    cases more <;> simp only [mu, hc, hp, cpcW] <;> fin_tac
  case cCommit hc hp =>
    simp only [mu, hc, hp, cpcW, List.length_nil]
    fin_tac
  case cLastCommit hc hp =>
    simp only [mu, hc, hp, cpcW, List.length_nil]
    fin_tac
  case cNotifyEnd hc hp => simp only [mu, hc, hp, cpcW, List.length_nil]; fin_tac
  case cNotifySkip t r hc hp hs => simp only [mu, hc, hp, cpcW, List.length_cons]; fin_tac
  case cNotifySend t r hc hp hs =>
    simp only [mu, hc, hp, cpcW, List.length_cons, List.length_append, List.length_nil]; fin_tac
  case cLastNotifyEnd hc hp => simp only [mu, hc, hp, cpcW, List.length_nil]; fin_tac
  case cLastNotifySkip t r hc hp hs => simp only [mu, hc, hp, cpcW, List.length_cons]; fin_tac
  case cLastNotifySend t r hc hp hs =>
    simp only [mu, hc, hp, cpcW, List.length_cons, List.length_append, List.length_nil]; fin_tac
  case cAssertOk hc hp hh => simp only [mu, hc, hp, cpcW]; fin_tac
  case cAssertCrash hc hp hh => simp only [mu, hc]; fin_tac
  case aRecvSkip t q hc hx hq hs => simp only [mu, hc, hq, List.length_cons]; fin_tac
  case aRecvNotify t q hc hx hq hs => simp only [mu, hc, hq, List.length_cons]; fin_tac
  case aExit hc hx hq hp => simp only [mu, hc, hx]; fin_tac
  case dSetFlag hc hd' => simp only [mu, hc, hd', dpcW]; fin_tac
  case dClose hc hd' => simp only [mu, hc, hd', dpcW]; fin_tac
  case dJoinSers hc hd' hx => simp only [mu, hc, hd', dpcW]; fin_tac
  case dJoinCommit hc hd' hp => simp only [mu, hc, hd', dpcW]; fin_tac
  case dJoinAfter hc hd' hx => simp only [mu, hc, hd', dpcW]; fin_tac


/-- The commit worker can always move unless it is blocked in `recv` on an open, empty channel, or done. -/
theorem commit_worker_enabled {s : State} (hc : s.crashed = false)
    (hx : allExited s.sers = true) (hnd : s.cpc ≠ .done) :
    ∃ ev, ev.user = false ∧ (step s ev).isSome = true := by
  cases hp : s.cpc with
  | wait =>
    cases hq : s.commitQ with
    | nil => exact ⟨.cRecvClosed, rfl, by simp [step, hc, hp, hq, hx]⟩
    | cons t q => exact ⟨.cRecv, rfl, by simp [step, hc, hp, hq]⟩
  | loop =>
    cases hm : heapMin s.heap with
    | none => exact ⟨.cBreak, rfl, by simp [step, hc, hp, hm]⟩
    | some t =>
      by_cases he : t.epoch = s.expected
      · exact ⟨.cPop, rfl, by simp [step, hc, hp, hm, he]⟩
      · exact ⟨.cBreak, rfl, by simp [step, hc, hp, hm, he]⟩
  | decide => exact ⟨.cDecide true, rfl, by simp [step, hc, hp]⟩
  | commit => exact ⟨.cCommit, rfl, by simp [step, hc, hp]⟩
  | notify r =>
    refine ⟨.cNotify, rfl, ?_⟩
    cases r <;> simp [step, hc, hp]
    split <;> simp
  | lastCommit => exact ⟨.cCommit, rfl, by simp [step, hc, hp]⟩
  | lastNotify r =>
    refine ⟨.cNotify, rfl, ?_⟩
    cases r <;> simp [step, hc, hp]
    split <;> simp
  | assert =>
    refine ⟨.cAssert, rfl, ?_⟩
    simp [step, hc, hp]
    split <;> simp
  | done => exact absurd hp hnd

/-- Shutdown never deadlocks: while `Drop for WriteBehind` is in progress (and the process has not
aborted) some thread can take a step. -/
theorem shutdown_no_deadlock {nSer : Nat} {s : State} (h : AllInv nSer s) (hc : s.crashed = false)
    (hrun : s.dpc ≠ .running) (hret : s.dpc ≠ .returned) :
    ∃ ev, ev.user = false ∧ (step s ev).isSome = true := by
  cases hd : s.dpc with
  | running => exact absurd hd hrun
  | returned => exact absurd hd hret
  | flagged => exact ⟨.dClose, rfl, by simp [step, hc, hd]⟩
  | joinSers =>
    have hcl : s.serClosed = true := by rw [h.a.closed_iff, hd]; rfl
    by_cases hx : allExited s.sers = true
    · exact ⟨.dJoinSers, rfl, by simp [step, hc, hd, hx]⟩
    · -- some serializer has not exited: it can move
      have : ∃ x ∈ s.sers, x ≠ .exited := by
        rw [allExited_iff] at hx
        simpa using hx
      obtain ⟨x, hxm, hxe⟩ := this
      obtain ⟨w, hw, hwx⟩ := List.getElem_of_mem hxm
      have hw' : s.sers[w]? = some x := by rw [List.getElem?_eq_getElem hw, hwx]
      cases x with
      | exited => exact absurd rfl hxe
      | raw t =>
        have hperm : t.ops.isPerm t.ops = true := List.isPerm_iff.mpr (List.Perm.refl _)
        exact ⟨.serSerialise w t.ops, rfl, by simp [step, hc, hw', hperm]⟩
      | done t => exact ⟨.serSend w, rfl, by simp [step, hc, hw']⟩
      | idle =>
        cases hq : s.serQ with
        | nil => exact ⟨.serExit w, rfl, by simp [step, hc, hw', hq, hcl]⟩
        | cons t q => exact ⟨.serTake w, rfl, by simp [step, hc, hw', hq]⟩
  | joinCommit =>
    have hx := h.g.joinS (by simp [hd, DPc.sersJoined])
    by_cases hp : s.cpc = .done
    · exact ⟨.dJoinCommit, rfl, by simp [step, hc, hd, hp]⟩
    · exact commit_worker_enabled hc hx hp
  | joinAfter =>
    have hp := h.g.joinC (by simp [hd, DPc.commitJoined])
    cases hx : s.aExited with
    | true => exact ⟨.dJoinAfter, rfl, by simp [step, hc, hd, hx]⟩
    | false =>
      cases hq : s.afterQ with
      | nil => exact ⟨.aExit, rfl, by simp [step, hc, hx, hq, hp]⟩
      | cons t q =>
        refine ⟨.aRecv, rfl, ?_⟩
        simp [step, hc, hx, hq]
        split <;> simp

end QbiceVerif.WB
