/-
Consequences of the main lemma for whole evaluations (`evalRoots` from the empty store): what the
final memo looks like, cycles of performed reads, and the comparison with plain from-scratch
evaluation.
-/
import QbiceVerif.Lemmas.CycleMain2
namespace Qbice.Cycle

/-- performed reads of completed runs -/
def Reads (m : List Done) (a b : Key) : Prop := ∃ d ∈ m, d.key = a ∧ b ∈ d.reads

/-- the static read graph: `b` is asked on some path through the executor of `a` -/
def SEdge (p : Program) (a b : Key) : Prop := MayAsk (progOf p a) b

/-- what holds between two user requests -/
structure Quiet (p : Program) (st : St) : Prop where
  inv : Inv p st
  empty : st.stack = []
  inv2 : Inv2 p st

theorem quiet_empty (p : Program) : Quiet p {} := ⟨inv_empty p, rfl, inv2_empty p⟩

theorem evalRoots_spec (p : Program) (wf : WFProgram p) (fuel : Nat) (hfuel : fuelFor p ≤ fuel) :
    ∀ (roots : List Key) (st : St), Quiet p st → (∀ r ∈ roots, r < p.length) →
      ∃ vs st', evalRoots p fuel roots st = .ok (vs, st') ∧ Quiet p st' ∧
        (∃ new, st'.memo = new ++ st.memo) ∧
        vs.length = roots.length ∧
        (∀ i (h : i < roots.length) (h' : i < vs.length), valOf st'.memo roots[i] = some vs[i]) := by
  intro roots
  induction roots with
  | nil =>
    intro st q _
    exact ⟨[], st, rfl, q, ⟨[], rfl⟩, rfl, by intro i h; simp at h⟩
  | cons r rs ih =>
    intro st q hr
    have nm : NoMarks st.stack := by rw [q.empty]; intro f hf; simp at hf
    have hco : CallerOK none st.stack := by rw [q.empty]; trivial
    obtain ⟨res, st1, hq, post⟩ := queryFor_spec p wf fuel r none st q.inv q.inv2 nm hco (hr r (by simp))
      (by intro t r' h; rw [q.empty] at h; cases h) (by intro t r' h; rw [q.empty] at h; cases h)
      (by unfold fuelFor at hfuel; omega)
    have hstack1 : st1.stack = [] := by
      have := post.shapeEq
      rw [q.empty] at this
      cases h : st1.stack with
      | nil => rfl
      | cons _ _ => rw [h] at this; simp [shape, regTop] at this
    cases res with
    | cyclic =>
      obtain ⟨t, rr, h, _⟩ := post.cyc rfl
      rw [hstack1] at h; cases h
    | value v =>
      obtain ⟨_, hval⟩ := post.val v rfl
      have q1 : Quiet p st1 := ⟨post.inv, hstack1, post.inv2⟩
      obtain ⟨vs, st2, hrs, q2, ⟨new2, hnew2⟩, hlen, hvals⟩ := ih st1 q1 (fun x hx => hr x (List.mem_cons_of_mem _ hx))
      obtain ⟨new1, hnew1⟩ := post.memoExt
      refine ⟨v :: vs, st2, ?_, q2, ⟨new2 ++ new1, by rw [hnew2, hnew1, List.append_assoc]⟩, by simp [hlen], ?_⟩
      · simp only [evalRoots, hq, hrs]
      · intro i h h'
        cases i with
        | zero =>
          simp only [List.getElem_cons_zero]
          rw [hnew2, valOf_append_of_mem (by rw [← hnew2]; exact q2.inv.nodup_mkeys) (valOf_mem hval)]
          exact hval
        | succ i =>
          simp only [List.getElem_cons_succ]
          exact hvals i (by simpa using h) (by simpa using h')

-- ------------------------------------------------------------------ the memo, entry by entry

theorem memoOK_split {p : Program} : ∀ (pre : List Done) (d : Done) (tail : List Done),
    MemoOK p (pre ++ d :: tail) →
      (∀ r ∈ d.reads, MayAsk (progOf p d.key) r) ∧
      (d.marked = true → d.val = dfltOf p d.key) ∧
      (d.marked = false → (∀ r ∈ d.reads, r ∈ mkeys tail) ∧ Closed tail ∧
          evalWith (valOf tail) (progOf p d.key) = some d.val ∧
          (∀ r ∈ asksWith (valOf tail) (progOf p d.key), r ∈ d.reads)) ∧
      MemoOK p tail := by
  intro pre
  induction pre with
  | nil =>
    intro d tail h
    simp only [List.nil_append, MemoOK] at h
    exact ⟨h.2.1, h.2.2.1, h.2.2.2, h.1⟩
  | cons e pre ih =>
    intro d tail h
    simp only [List.cons_append, MemoOK] at h
    exact ih d tail h.1

theorem evalWith_mono {tbl tbl' : Key → Option Val} (h : ∀ k v, tbl k = some v → tbl' k = some v) :
    ∀ (prog : Prog) (v : Val), evalWith tbl prog = some v → evalWith tbl' prog = some v := by
  intro prog
  induction prog with
  | ret v => intro v' hv; exact hv
  | ask k cont ih =>
    intro v hv
    simp only [evalWith] at hv ⊢
    cases hk : tbl k with
    | none => rw [hk] at hv; cases hv
    | some a =>
      rw [hk] at hv
      rw [h k a hk]
      exact ih a v hv

/-- evaluation depends only on the table entries it asks for -/
theorem evalWith_congr {tbl tbl' : Key → Option Val} :
    ∀ (prog : Prog), (∀ x ∈ asksWith tbl prog, tbl' x = tbl x) → evalWith tbl' prog = evalWith tbl prog := by
  intro prog
  induction prog with
  | ret v => intro _; rfl
  | ask k cont ih =>
    intro h
    have hk : tbl' k = tbl k := h k (by
      simp only [asksWith]
      cases tbl k <;> simp)
    simp only [evalWith, hk]
    cases hkv : tbl k with
    | none => rfl
    | some a =>
      apply ih a
      intro x hx
      apply h
      simp only [asksWith, hkv, List.mem_cons]
      exact Or.inr hx

theorem valOf_suffix {pre tail : List Done} (nd : (mkeys (pre ++ tail)).Nodup) :
    ∀ k v, valOf tail k = some v → valOf (pre ++ tail) k = some v := by
  intro k v h
  rw [valOf_append_of_mem nd (valOf_mem h)]
  exact h

theorem mem_split_done {m : List Done} {d : Done} (h : d ∈ m) : ∃ pre tail, m = pre ++ d :: tail :=
  List.append_of_mem h

/-- with distinct keys the entry of a key is unique -/
theorem done_unique {m : List Done} (nd : (mkeys m).Nodup) {d e : Done} (hd : d ∈ m) (he : e ∈ m)
    (hk : d.key = e.key) : d = e := by
  have h1 := findDone_of_mem nd hd
  have h2 := findDone_of_mem nd he
  rw [hk] at h1
  exact Option.some.inj (h1.symm.trans h2)

theorem mem_tail_of_key {pre tail : List Done} {d e : Done} (nd : (mkeys (pre ++ d :: tail)).Nodup)
    (he : e ∈ pre ++ d :: tail) (hk : e.key ∈ mkeys tail) : e ∈ tail := by
  obtain ⟨e', he', hk'⟩ := List.mem_map.1 hk
  have : e' ∈ pre ++ d :: tail := List.mem_append_right _ (List.mem_cons_of_mem _ he')
  rw [done_unique nd he this hk'.symm]
  exact he'

/-- an unmarked entry lies on no cycle of performed reads -/
theorem unmarked_not_onCycle {p : Program} {m : List Done} (nd : (mkeys m).Nodup) (ok : MemoOK p m)
    {d : Done} (hd : d ∈ m) (hm : d.marked = false) : ¬ OnCycle (Reads m) d.key := by
  obtain ⟨pre, tail, rfl⟩ := mem_split_done hd
  obtain ⟨_, _, hun, _⟩ := memoOK_split pre d tail ok
  obtain ⟨hreads, hclosed, _, _⟩ := hun hm
  rintro ⟨b, ⟨e, he, hek, hb⟩, pth⟩
  have hed : e = d := done_unique nd he hd hek
  subst hed
  have hbt : b ∈ mkeys tail := hreads b hb
  have hstay : ∀ x y, x ∈ mkeys tail → Reads (pre ++ e :: tail) x y → y ∈ mkeys tail := by
    rintro x y hx ⟨f, hf, hfk, hy⟩
    have hft : f ∈ tail := mem_tail_of_key nd hf (by rw [hfk]; exact hx)
    exact hclosed f hft y hy
  have hin : e.key ∈ mkeys tail := pth.closed (S := fun x => x ∈ mkeys tail) hstay hbt
  simp only [mkeys, List.map_append, List.map_cons] at nd
  have nd2 := (List.nodup_append.1 nd).2.1
  simp only [List.nodup_cons] at nd2
  exact nd2.1 hin

theorem edge_eq_reads {st : St} (h : st.stack = []) : ∀ a b, Edge st a b → Reads st.memo a b := by
  rintro a b (hm | ⟨f, hf, _, _⟩)
  · exact hm
  · rw [h] at hf; simp at hf

-- ------------------------------------------------------------------ plain evaluation

theorem evalSpec_mono (p : Program) : ∀ (f f' : Nat) (k : Key) (v : Val), f ≤ f' →
    evalSpec p f k = some v → evalSpec p f' k = some v := by
  intro f
  induction f with
  | zero => intro f' k v _ h; simp [evalSpec] at h
  | succ f ih =>
    intro f' k v hle h
    cases f' with
    | zero => omega
    | succ f' =>
      simp only [evalSpec] at h ⊢
      cases hp : p[k]? with
      | none => rw [hp] at h; cases h
      | some nd =>
        rw [hp] at h
        simp only at h ⊢
        exact evalWith_mono (fun k' v' hv' => ih f' k' v' (by omega) hv') nd.prog v h

/-- every key reachable through performed reads is an unmarked entry -/
def Good (m : List Done) (k : Key) : Prop :=
  ∀ x, Path (Reads m) k x → ∃ d ∈ m, d.key = x ∧ d.marked = false

theorem Good.step {m : List Done} {k r : Key} (h : Good m k) (e : Reads m k r) : Good m r :=
  fun x px => h x (.head e px)

/-- below a key whose performed reads reach only unmarked entries, values are those of plain
    from-scratch evaluation, with fuel = position in the memo -/
theorem evalSpec_of_good {p : Program} {m : List Done} (nd : (mkeys m).Nodup) (ok : MemoOK p m)
    (hb : ∀ x ∈ mkeys m, x < p.length) :
    ∀ (n : Nat) (pre : List Done) (d : Done) (tail : List Done), tail.length = n → m = pre ++ d :: tail →
      Good m d.key → evalSpec p (n + 1) d.key = some d.val := by
  intro n
  induction n using Nat.strongRecOn with
  | ind n ih =>
    intro pre d tail hlen hm good
    subst hm
    obtain ⟨d', hd', hk', hun'⟩ := good d.key (.refl _)
    have hdmem : d ∈ pre ++ d :: tail := List.mem_append_right _ (by simp)
    have : d' = d := done_unique nd hd' hdmem hk'
    subst this
    obtain ⟨_, _, hun, _⟩ := memoOK_split pre d' tail ok
    obtain ⟨hreads, _, hev, hasks⟩ := hun hun'
    obtain ⟨ndef, hnd⟩ := getElem?_of_lt (hb d'.key (mem_mkeys_of_mem hdmem))
    simp only [evalSpec, hnd]
    rw [progOf_eq hnd] at hev hasks
    rw [← hev]
    apply evalWith_congr
    intro x hx
    have hxr : x ∈ d'.reads := hasks x hx
    have hxt : x ∈ mkeys tail := hreads x hxr
    obtain ⟨e, he, hek⟩ := List.mem_map.1 hxt
    obtain ⟨pre2, tail2, htail⟩ := mem_split_done he
    have goodx : Good (pre ++ d' :: tail) e.key := by
      rw [hek]; exact good.step ⟨d', hdmem, rfl, hxr⟩
    have hlen2 : tail2.length < n := by rw [← hlen, htail]; simp; omega
    have hsplit : pre ++ d' :: tail = (pre ++ d' :: pre2) ++ e :: tail2 := by
      rw [htail]; simp
    have := ih tail2.length hlen2 (pre ++ d' :: pre2) e tail2 rfl hsplit goodx
    have h2 := evalSpec_mono p (tail2.length + 1) n e.key e.val (by omega) this
    rw [← hek, h2]
    have ndt : (mkeys tail).Nodup := by
      simp only [mkeys, List.map_append, List.map_cons] at nd
      have := (List.nodup_append.1 nd).2.1
      simp only [List.nodup_cons] at this
      exact this.2
    simp [valOf, findDone_of_mem ndt he]

end Qbice.Cycle
