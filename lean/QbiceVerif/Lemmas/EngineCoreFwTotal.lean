/-
Totality of the extended core engine model: with every input key set, every request for a key of
the program ends in `.ok` — no error of ANY kind (`outOfFuel`, `badKey`, `inputNotSet`, `badOp`).
The soundness specifications (`Sat …`) carry the invariant from one sub-request to the next; the
lemmas here add that each sub-request succeeds.
-/
import QbiceVerif.Lemmas.EngineCoreFw13
namespace Qbice.CoreFw
open Qbice.Core (Prog Err Write SetRes allVals evalProg applyWorld Sat TraceOK Op OpOut Ref
  applyWrites writeResults)

/-- the error of a result, if any -/
def errOf {α : Type} : Except Err α → Option Err
  | .error e => some e
  | .ok _ => none

/-- every input key of the program has a value -/
def InputsSet (p : Program) (s : St) : Prop :=
  ∀ k d, p[k]? = some d → d.kind = .input → s.nodes k ≠ none

theorem Frame.node_mono {p : Program} {s s' : St} (f : Frame p s s') {x : Key} (h : s.nodes x ≠ none) :
    s'.nodes x ≠ none := by
  cases f.same_or_verified x with
  | inl e => rw [e]; exact h
  | inr v => obtain ⟨n, hn, _⟩ := v; rw [hn]; simp

theorem InputsSet.frame {p : Program} {s s' : St} (h : InputsSet p s) (f : Frame p s s') : InputsSet p s' :=
  fun k d hp hk => f.node_mono (h k d hp hk)

/-- an `ok` result of a `Sat` statement -/
theorem Sat.of_ok {α : Type} {r : Except Err α} {P : α → Prop} (h : Sat r P) {a : α} (e : r = .ok a) : P a :=
  h.ok e

/-- the recursive-call parameter succeeds on all keys below `b` -/
def QTotal (p : Program) (q : Q) (b : Nat) : Prop :=
  ∀ d, d < b → ∀ s, Inv p s → InputsSet p s → ∃ r, q d s = .ok r

theorem repairDeps_total {p : Program} {q : Q} {k : Key} (hq : QSpec p q k) (ht : QTotal p q k) {n : Node}
    (skipOk : Bool) :
    ∀ (deps : List (Key × Val)) (nt : Bool) (cl : List Key) (s : St), Inv p s → InputsSet p s →
      s.nodes k = some n → (∀ e, e ∈ deps → e ∈ n.deps) →
      ∃ r, repairDeps q k skipOk n.seen deps nt cl s = .ok r := by
  intro deps
  induction deps with
  | nil => intro nt cl s _ _ _ _; exact ⟨_, rfl⟩
  | cons e rest ih =>
    intro nt cl s inv hin hk hsub
    obtain ⟨d, o⟩ := e
    have hm : (d, o) ∈ n.deps := hsub _ (List.mem_cons_self ..)
    have hsub' : ∀ e, e ∈ rest → e ∈ n.deps := fun e he => hsub e (List.mem_cons_of_mem _ he)
    simp only [repairDeps]
    split
    · exact ih nt cl s inv hin hk hsub'
    · have hdk : d < k := (inv.down k n hk d o hm).1
      obtain ⟨⟨v, s1⟩, hr⟩ := ht d hdk s inv hin
      have hqd := hq d hdk s inv
      rw [hr] at hqd
      obtain ⟨i1, f1, t1, _⟩ := hqd
      simp only [hr]
      split
      · exact ⟨_, rfl⟩
      · exact ih _ _ s1 i1 (hin.frame f1) (by rw [t1.1 k (by komega)]; exact hk) hsub'

theorem askMany_total {p : Program} {q : Q} {k : Key} (hq : QSpec p q k) (ht : QTotal p q k) :
    ∀ (ks : List Key) (a : Acc) (s : St), (∀ d, d ∈ ks → d < k) → Inv p s → InputsSet p s → AccOK p k s a →
      ∃ r, askMany q ks a s = .ok r := by
  intro ks
  induction ks with
  | nil => intro a s _ _ _ _; exact ⟨_, rfl⟩
  | cons d rest ih =>
    intro a s hb inv hin hacc
    have hd : d < k := hb d (List.mem_cons_self ..)
    obtain ⟨⟨v, s1⟩, hr⟩ := ht d hd s inv hin
    have hqd := hq d hd s inv
    rw [hr] at hqd
    obtain ⟨i1, f1, t1, c1, nd, hnd, hvd, hver⟩ := hqd
    simp only at i1 f1 c1 hnd hvd hver
    obtain ⟨hacc2, _, _⟩ := observe_spec i1 (hacc.frame inv f1) hd (by rw [f1.cur]; exact c1) hnd hvd hver
    obtain ⟨r2, hr2⟩ := ih (observe s1 a d v) s1 (fun d' hm => hb d' (List.mem_cons_of_mem _ hm)) i1
      (hin.frame f1) hacc2
    obtain ⟨vs, a2, s2⟩ := r2
    simp only [askMany, hr, hr2]
    exact ⟨_, rfl⟩

theorem runProg_total {p : Program} {q : Q} {k : Key} (hq : QSpec p q k) (ht : QTotal p q k) :
    ∀ (prog : Prog) (a : Acc) (s : St), prog.Below k → Inv p s → InputsSet p s → AccOK p k s a →
      ∃ r, runProg q prog a s = .ok r := by
  intro prog
  induction prog with
  | ret v => intro a s _ _ _ _; exact ⟨_, rfl⟩
  | ask d cont ih =>
    intro a s hb inv hin hacc
    obtain ⟨hd, hc⟩ := hb
    obtain ⟨⟨v, s1⟩, hr⟩ := ht d hd s inv hin
    have hqd := hq d hd s inv
    rw [hr] at hqd
    obtain ⟨i1, f1, t1, c1, nd, hnd, hvd, hver⟩ := hqd
    simp only at i1 f1 c1 hnd hvd hver
    obtain ⟨hacc2, _, _⟩ := observe_spec i1 (hacc.frame inv f1) hd (by rw [f1.cur]; exact c1) hnd hvd hver
    obtain ⟨r2, hr2⟩ := ih v (observe s1 a d v) s1 (hc v) i1 (hin.frame f1) hacc2
    simp only [runProg, hr, hr2]
    exact ⟨_, rfl⟩
  | askAll ks cont ih =>
    intro a s hb inv hin hacc
    obtain ⟨hd, hc⟩ := hb
    obtain ⟨⟨vs, a1, s1⟩, hr⟩ := askMany_total hq ht ks a s hd inv hin hacc
    have hall := askMany_spec hq ks a s hd inv hacc
    rw [hr] at hall
    obtain ⟨i1, f1, _, a1ok, _⟩ := hall
    simp only at i1 f1 a1ok
    obtain ⟨r2, hr2⟩ := ih vs a1 s1 (hc vs) i1 (hin.frame f1) a1ok
    simp only [runProg, hr, hr2]
    exact ⟨_, rfl⟩

theorem execute_total {p : Program} (wf : WF p) {q : Q} {k : Key} (hq : QSpec p q k) (ht : QTotal p q k)
    {d : NodeDef} (hp : p[k]? = some d) (hki : d.kind ≠ .input) (hke : d.kind ≠ .external) {s : St}
    (inv : Inv p s) (hin : InputsSet p s) : ∃ r, execute q k d s = .ok r := by
  obtain ⟨⟨v, a, s1⟩, hr⟩ := runProg_total hq ht d.prog {} s (wf k d hp hki hke).1 inv hin (AccOK.nil p k s)
  simp only [execute, hr]
  exact ⟨_, rfl⟩

/-- a request by a query caller for a key of the program succeeds -/
theorem queryQ_total {p : Program} (wf : WF p) (sh : Shape p) :
    ∀ fuel ped k, k < fuel → k < p.length → ∀ s, Inv p s → InputsSet p s →
      ∃ r, queryQ p fuel ped k s = .ok r := by
  intro fuel
  induction fuel with
  | zero => intro ped k hk; cases hk
  | succ fuel ih =>
    intro ped k hk hlen s inv hin
    have hq : QSpec p (queryQ p fuel ped) k := fun d hd s' inv' =>
      queryQ_spec wf sh fuel ped d (by komega) s' inv'
    have ht : QTotal p (queryQ p fuel ped) k := fun d hd s' inv' hin' =>
      ih ped d (by komega) (by komega) s' inv' hin'
    obtain ⟨d, hp⟩ : ∃ d, p[k]? = some d := ⟨p[k], List.getElem?_eq_getElem hlen⟩
    simp only [queryQ]
    cases hn : s.nodes k with
    | none =>
      simp only [hp]
      cases hi : d.kind with
      | input => exact absurd hn (hin k d hp hi)
      | external => exact ⟨_, rfl⟩
      | normal => exact execute_total wf hq ht hp (by rw [hi]; decide) (by rw [hi]; decide) inv hin
      | firewall => exact execute_total wf hq ht hp (by rw [hi]; decide) (by rw [hi]; decide) inv hin
      | projection => exact execute_total wf hq ht hp (by rw [hi]; decide) (by rw [hi]; decide) inv hin
    | some n =>
      simp only
      split
      · exact ⟨_, rfl⟩
      · simp only [hp]
        obtain ⟨⟨b, moved, cl, s1⟩, hr⟩ := repairDeps_total hq ht (!ped && decide (n.kind ≠ .projection))
          n.deps false [] s inv hin hn (fun _ h => h)
        have hrep := repairDeps_spec hq (!ped && decide (n.kind ≠ .projection)) n.deps false [] s inv hn (fun _ h => h)
        rw [hr] at hrep
        obtain ⟨i1, f1, t1, k1, hf, htr⟩ := hrep
        simp only at i1 f1 k1 hf htr
        simp only [hr]
        cases b with
        | true =>
          simp only
          obtain ⟨dd, oo, hm, _⟩ := htr rfl
          obtain ⟨d0, hp0, hki0, hleaf⟩ := inv.kind k n hn
          rw [hp] at hp0; cases hp0
          have hdeps : n.deps ≠ [] := fun h => by rw [h] at hm; cases hm
          exact execute_total wf hq ht hp
            (fun h => hdeps (hleaf (Or.inl (by rw [← hki0]; exact h))).1)
            (fun h => hdeps (hleaf (Or.inr (by rw [← hki0]; exact h))).1) i1 (hin.frame f1)
        | false =>
          simp only
          split <;> exact ⟨_, rfl⟩

theorem queryQ_fuelFor_total {p : Program} (wf : WF p) (sh : Shape p) (ped : Bool) {k : Key}
    (hlen : k < p.length) {s : St} (inv : Inv p s) (hin : InputsSet p s) :
    ∃ r, queryQ p (fuelFor p) ped k s = .ok r :=
  queryQ_total wf sh (fuelFor p) ped k (by simp [fuelFor]; komega) hlen s inv hin

/-- requests for a list of keys, each of which succeeds -/
theorem queryEach_total {p : Program} {q : Q} {P : Key → St → Prop}
    (hq : ∀ d s, Inv p s → P d s → Sat (q d s) (fun r => Inv p r.2 ∧ Frame p s r.2))
    (ht : ∀ d s, Inv p s → InputsSet p s → P d s → ∃ r, q d s = .ok r)
    (hP : ∀ d s s', P d s → Inv p s → Inv p s' → Frame p s s' → P d s') :
    ∀ (ks : List Key) (s : St), (∀ f, f ∈ ks → P f s) → Inv p s → InputsSet p s →
      ∃ s', queryEach q ks s = .ok s' := by
  intro ks
  induction ks with
  | nil => intro s _ _ _; exact ⟨_, rfl⟩
  | cons c rest ih =>
    intro s hb inv hin
    have hpc := hb c (List.mem_cons_self ..)
    obtain ⟨⟨v, s1⟩, hr⟩ := ht c s inv hin hpc
    have hqc := hq c s inv hpc
    rw [hr] at hqc
    obtain ⟨i1, f1⟩ := hqc
    simp only at i1 f1
    obtain ⟨s2, hr2⟩ := ih s1 (fun f hf => hP f s s1 (hb f (List.mem_cons_of_mem _ hf)) inv i1 f1) i1
      (hin.frame f1)
    simp only [queryEach, hr, hr2]
    exact ⟨_, rfl⟩

theorem preB_frame {p : Program} {s s' : St} {c : Key} (h : PreB s c) (i : Inv p s) (i' : Inv p s')
    (f : Frame p s s') : PreB s' c := by
  obtain ⟨n, hn, hkp⟩ := h
  cases f.same_or_verified c with
  | inr v =>
    obtain ⟨n2, h2, _⟩ := v
    obtain ⟨d1, hp1, hk1, _⟩ := i.kind c n hn
    obtain ⟨d2, hp2, hk2, _⟩ := i'.kind c n2 h2
    rw [hp1] at hp2; cases hp2
    exact ⟨n2, h2, by rw [← hk2, hk1]; exact hkp⟩
  | inl e => exact ⟨n, by rw [e]; exact hn, hkp⟩

theorem backProject_total {p : Program} {qb : Q} {k : Key} {s : St} (inv : Inv p s) (hin : InputsSet p s)
    (hq : ∀ c s', k < c → Inv p s' → PreB s' c → Sat (qb c s') (BPost p c s'))
    (ht : ∀ c s', k < c → Inv p s' → InputsSet p s' → PreB s' c → ∃ r, qb c s' = .ok r) :
    ∃ s', backProject qb p k s = .ok s' := by
  obtain ⟨s1, hr⟩ := queryEach_total (P := fun c s' => k < c ∧ PreB s' c)
    (fun c s' i hP => (hq c s' hP.1 i hP.2).mono (fun r hr => ⟨hr.1.1, hr.1.2.1⟩))
    (fun c s' i hin' hP => ht c s' hP.1 i hin' hP.2)
    (fun c s1 s2 hP i1 i2 f12 => ⟨hP.1, preB_frame hP.2 i1 i2 f12⟩)
    (projsAbove p s k) s
    (fun c hc => by
      obtain ⟨_, n, o, hn, hkp, hm⟩ := mem_projsAbove.1 hc
      exact ⟨(inv.down c n hn k o hm).1, n, hn, hkp⟩) inv hin
  simp only [backProject, hr]
  exact ⟨_, rfl⟩

theorem queryB_total {p : Program} (wf : WF p) (sh : Shape p) :
    ∀ fuel c s, p.length ≤ c + fuel → Inv p s → InputsSet p s → PreB s c → ∃ r, queryB p fuel c s = .ok r := by
  intro fuel
  induction fuel with
  | zero =>
    intro c s hf inv _ ⟨n, hn, _⟩
    obtain ⟨d, hp, _⟩ := inv.kind c n hn
    have hlt : c < p.length := by
      rw [List.getElem?_eq_some_iff] at hp
      obtain ⟨h, _⟩ := hp; exact h
    omega
  | succ fuel ih =>
    intro c s hf inv hin ⟨n, hn, _⟩
    obtain ⟨d, hp, _⟩ := inv.kind c n hn
    have hlt : c < p.length := by
      rw [List.getElem?_eq_some_iff] at hp
      obtain ⟨h, _⟩ := hp; exact h
    obtain ⟨⟨v, s1⟩, hr⟩ := queryQ_fuelFor_total wf sh true hlt inv hin
    have hfirst := queryQ_fuelFor wf sh true c inv
    rw [hr] at hfirst
    obtain ⟨i1, f1, _⟩ := hfirst
    simp only at i1 f1
    simp only [queryB, hr]
    split
    · obtain ⟨s2, hr2⟩ := backProject_total (qb := queryB p fuel) (k := c) i1 (hin.frame f1)
        (fun c' s' hlt' i' pre => queryB_spec wf sh fuel c' s' (by komega) i' pre)
        (fun c' s' hlt' i' hin' pre => ih c' s' (by komega) i' hin' pre)
      simp only [hr2]
      exact ⟨_, rfl⟩
    · exact ⟨_, rfl⟩

theorem repairTfc_total {p : Program} {qf : Q} {k : Key}
    (hq : ∀ d, d < k → ∀ s, Inv p s → Sat (qf d s) (UPost p d s))
    (ht : ∀ d, d < k → ∀ s, Inv p s → InputsSet p s → ∃ r, qf d s = .ok r) {s : St} (inv : Inv p s)
    (hin : InputsSet p s) : ∃ s', repairTfc qf k s = .ok s' := by
  simp only [repairTfc]
  cases hn : s.nodes k with
  | none => exact ⟨_, rfl⟩
  | some n =>
    simp only
    split
    · exact ⟨_, rfl⟩
    · exact queryEach_total (P := fun d _ => d < k)
        (fun d s' i h => (hq d h s' i).mono (fun r hr => ⟨hr.1, hr.2.1⟩))
        (fun d s' i hin' h => ht d h s' i hin') (fun d _ _ h _ _ _ => h) n.tfc s
        (fun f hf => inv.tfcDown k n hn f hf) inv hin

theorem queryF_total {p : Program} (wf : WF p) (sh : Shape p) :
    ∀ fuel k, k < fuel → k < p.length → ∀ s, Inv p s → InputsSet p s → ∃ r, queryF p fuel k s = .ok r := by
  intro fuel
  induction fuel with
  | zero => intro k hk; cases hk
  | succ fuel ih =>
    intro k hk hlen s inv hin
    have hqf : ∀ d, d < k → ∀ s', Inv p s' → Sat (queryF p fuel d s') (UPost p d s') :=
      fun d hd s' inv' => queryF_spec wf sh fuel d (by komega) s' inv'
    obtain ⟨s1, hr⟩ := repairTfc_total (qf := queryF p fuel) (k := k) hqf
      (fun d hd s' i' hin' => ih d (by komega) (by komega) s' i' hin') inv hin
    have hrt := repairTfc_spec (qf := queryF p fuel) (k := k) hqf inv
    rw [hr] at hrt
    obtain ⟨i1, f1⟩ := hrt
    obtain ⟨⟨v, s2⟩, hr2⟩ := queryQ_fuelFor_total wf sh false hlen i1 (hin.frame f1)
    have hqq := queryQ_fuelFor wf sh false k i1
    rw [hr2] at hqq
    obtain ⟨i2, f2, _⟩ := hqq
    simp only at i2 f2
    simp only [queryF, hr, hr2]
    split
    · obtain ⟨s3, hr3⟩ := backProject_total (qb := queryB p (fuelFor p)) (k := k) i2 ((hin.frame f1).frame f2)
        (fun c s' _ i' hpre => queryB_spec wf sh (fuelFor p) c s' (by simp [fuelFor]; komega) i' hpre)
        (fun c s' _ i' hin' hpre => queryB_total wf sh (fuelFor p) c s' (by simp [fuelFor]; komega) i' hin' hpre)
      simp only [hr3]
      exact ⟨_, rfl⟩
    · exact ⟨_, rfl⟩

/-- a request by the user for a key of the program succeeds -/
theorem query_total {p : Program} (wf : WF p) (sh : Shape p) {fuel k : Nat} (hk : k < fuel)
    (hlen : k < p.length) {s : St} (inv : Inv p s) (hin : InputsSet p s) :
    ∃ r, query p fuel .user k s = .ok r := by
  have hqf : ∀ d, d < k → ∀ s', Inv p s' → Sat (queryF p fuel d s') (UPost p d s') :=
    fun d hd s' inv' => queryF_spec wf sh fuel d (by komega) s' inv'
  obtain ⟨s1, hr⟩ := repairTfc_total (qf := queryF p fuel) (k := k) hqf
    (fun d hd s' i' hin' => queryF_total wf sh fuel d (by komega) (by komega) s' i' hin') inv hin
  have hrt := repairTfc_spec (qf := queryF p fuel) (k := k) hqf inv
  rw [hr] at hrt
  obtain ⟨i1, f1⟩ := hrt
  obtain ⟨r, hr2⟩ := queryQ_total wf sh fuel false k hk hlen s1 i1 (hin.frame f1)
  simp only [query, queryU, hr, hr2]
  exact ⟨_, rfl⟩


-- ------------------------------------------------------------------ sessions, rounds, histories

/-- every `set` of the session writes an input key of the program -/
def WritesOK (p : Program) (ws : List Write) : Prop :=
  ∀ k v, Write.set k v ∈ ws → ∃ d, p[k]? = some d ∧ d.kind = .input

/-- the session sets every input key of the program -/
def SetsAll (p : Program) (ws : List Write) : Prop :=
  ∀ k d, p[k]? = some d → d.kind = .input → ∃ v, Write.set k v ∈ ws

/-- a well-formed history: sessions write input keys only, rounds ask keys of the program only -/
def OpsOK (p : Program) : List Op → Prop
  | [] => True
  | .sess ws :: rest => WritesOK p ws ∧ OpsOK p rest
  | .round ks :: rest => (∀ k, k ∈ ks → k < p.length) ∧ OpsOK p rest

/-- … whose first operation is a session that sets every input key -/
def HistOK (p : Program) (ops : List Op) : Prop :=
  OpsOK p ops ∧ ∃ ws rest, ops = .sess ws :: rest ∧ SetsAll p ws

theorem refreshAll_nodes (p : Program) (s : St) (ch : List Key) (x : Key) (h : s.nodes x ≠ none) :
    (refreshAll p s ch).1.nodes x ≠ none := by
  simp only [refreshAll, refreshNode]
  cases hx : s.nodes x with
  | none => exact absurd hx h
  | some n =>
    cases p[x]? with
    | none => simp
    | some d => simp only; split <;> simp

theorem applySets_total {p : Program} :
    ∀ (ws : List Write) (s : St) (rs : List SetRes) (ch : List Key), WritesOK p ws →
      ∃ s1 rs1 ch1, applySets p ws s rs ch = .ok (s1, rs1, ch1) ∧
        (∀ x, s.nodes x ≠ none → s1.nodes x ≠ none) ∧ ∀ k v, Write.set k v ∈ ws → s1.nodes k ≠ none := by
  intro ws
  induction ws with
  | nil => intro s rs ch _; exact ⟨s, rs, ch, rfl, fun _ h => h, fun _ _ h => by cases h⟩
  | cons w rest ih =>
    intro s rs ch hw
    have hw' : WritesOK p rest := fun k v h => hw k v (List.mem_cons_of_mem _ h)
    cases w with
    | world c v =>
      obtain ⟨s1, rs1, ch1, h1, h2, h3⟩ := ih s (rs ++ [.world]) ch hw'
      refine ⟨s1, rs1, ch1, by simp only [applySets, h1], h2, ?_⟩
      intro k v' hm
      rcases List.mem_cons.1 hm with e | hm
      · cases e
      · exact h3 k v' hm
    | refresh =>
      obtain ⟨s1, rs1, ch1, h1, h2, h3⟩ := ih (refreshAll p s ch).1 (rs ++ [.refreshed]) (refreshAll p s ch).2 hw'
      refine ⟨s1, rs1, ch1, by simp only [applySets, h1], fun x hx => h2 x (refreshAll_nodes p s ch x hx), ?_⟩
      intro k v' hm
      rcases List.mem_cons.1 hm with e | hm
      · cases e
      · exact h3 k v' hm
    | set k v =>
      obtain ⟨d, hp, hi⟩ := hw k v (List.mem_cons_self ..)
      obtain ⟨s1, rs1, ch1, h1, h2, h3⟩ := ih (setNode s k (inputNode s v))
        (rs ++ [match s.nodes k with
          | none => SetRes.fresh
          | some n => if n.value ≠ v then .updated else .unchanged])
        (if (match s.nodes k with
          | none => SetRes.fresh
          | some n => if n.value ≠ v then .updated else .unchanged) = .updated then ch ++ [k] else ch) hw'
      refine ⟨s1, rs1, ch1, ?_, ?_, ?_⟩
      · simp only [applySets, hp, hi, ne_eq, not_true_eq_false, if_false]
        exact h1
      · intro x hx
        apply h2
        simp only [setNode]
        split
        · simp
        · exact hx
      · intro k' v' hm
        rcases List.mem_cons.1 hm with e | hm
        · cases e
          apply h2
          simp [setNode]
        · exact h3 k' v' hm

theorem session_total {p : Program} {ws : List Write} (hw : WritesOK p ws) (s : St) :
    ∃ rs s', session p ws s = .ok (rs, s') ∧ (∀ x, s.nodes x ≠ none → s'.nodes x ≠ none) ∧
      ∀ k v, Write.set k v ∈ ws → s'.nodes k ≠ none := by
  obtain ⟨s1, rs1, ch1, h1, h2, h3⟩ := applySets_total ws
    { s with epoch := s.epoch + 1, world := applyWorld ws s.world } [] [] hw
  exact ⟨rs1, markDirty s1 ch1, by simp only [session, h1], h2, h3⟩

theorem roundAux_total {p : Program} (wf : WF p) (sh : Shape p) {fuel : Nat} (hf : p.length < fuel) :
    ∀ (ks : List Key) (cache : List (Key × Val)) (out : List Val) (s : St), (∀ k, k ∈ ks → k < p.length) →
      Inv p s → InputsSet p s → ∃ r, roundAux p fuel ks cache out s = .ok r := by
  intro ks
  induction ks with
  | nil => intro cache out s _ _ _; exact ⟨_, rfl⟩
  | cons k rest ih =>
    intro cache out s hks inv hin
    have hks' : ∀ k', k' ∈ rest → k' < p.length := fun k' h => hks k' (List.mem_cons_of_mem _ h)
    simp only [roundAux]
    cases hfind : cache.find? (fun e => e.1 == k) with
    | some e => exact ih cache (out ++ [e.2]) s hks' inv hin
    | none =>
      have hlen := hks k (List.mem_cons_self ..)
      obtain ⟨⟨v, s1⟩, hr⟩ := query_total wf sh (fuel := fuel) (by komega) hlen inv hin
      have hq := query_spec wf sh (fuel := fuel) (k := k) (by komega) inv
      rw [hr] at hq
      obtain ⟨i1, f1, _⟩ := hq
      simp only [hr]
      exact ih (cache ++ [(k, v)]) (out ++ [v]) s1 hks' i1 (hin.frame f1)

/-- a history that is well formed, run from a state in which every input key is set — or whose first
    operation sets them all — ends in `.ok`: no error of any kind -/
theorem runOps_total {p : Program} (wf : WF p) (sh : Shape p) :
    ∀ (ops : List Op) (s : St), Inv p s → OpsOK p ops →
      (InputsSet p s ∨ ∃ ws rest, ops = .sess ws :: rest ∧ SetsAll p ws) →
      ∃ r, runOps p ops s = .ok r := by
  intro ops
  induction ops with
  | nil => intro s _ _ _; exact ⟨_, rfl⟩
  | cons op rest ih =>
    intro s inv hok hin
    cases op with
    | sess ws =>
      obtain ⟨hw, hok'⟩ := hok
      obtain ⟨rs, s1, hs, hmono, hset⟩ := session_total hw { s with log := [] }
      obtain ⟨i1, _⟩ := session_spec (inv.setLog []) hs
      have hin1 : InputsSet p s1 := by
        intro k d hp hk
        rcases hin with h | ⟨ws', rest', e, hall⟩
        · exact hmono k (h k d hp hk)
        · cases e
          obtain ⟨v, hm⟩ := hall k d hp hk
          exact hset k v hm
      obtain ⟨⟨outs, s2⟩, hr⟩ := ih s1 i1 hok' (Or.inl hin1)
      simp only [runOps, hs, hr]
      exact ⟨_, rfl⟩
    | round ks =>
      obtain ⟨hks, hok'⟩ := hok
      have hin0 : InputsSet p s := by
        rcases hin with h | ⟨ws', rest', e, _⟩
        · exact h
        · cases e
      obtain ⟨⟨vs, s1⟩, hr0⟩ := roundAux_total wf sh (fuel := fuelFor p) (by simp [fuelFor]) ks [] []
        { s with log := [] } hks (inv.setLog []) hin0
      have hrd := round_spec wf sh (inv.setLog []) ks
      have hr0' : round p (fuelFor p) ks { s with log := [] } = .ok (vs, s1) := hr0
      rw [hr0'] at hrd
      obtain ⟨_, i1, f1⟩ := hrd
      simp only at i1 f1
      have hin1 : InputsSet p s1 := InputsSet.frame (s := { s with log := [] }) hin0 f1
      obtain ⟨⟨outs, s2⟩, hr⟩ := ih s1 i1 hok' (Or.inl hin1)
      simp only [runOps, hr0', hr]
      exact ⟨_, rfl⟩

end Qbice.CoreFw
