/-
C13, discrimination for the whole universe: hash-ordered collections nested anywhere.
Equal streams (from one hasher state) ⇒ the values agree up to NaN payloads and up to the order of the entries
of hash-ordered collections at every depth — unless some collection inside is a 128-bit sum collision.
-/
import QbiceVerif.Lemmas.HashCanon

namespace QbiceVerif.Hash

theorem ValList.toList_ofList : ∀ (l : List Val), (ValList.ofList l).toList = l
  | [] => rfl
  | _ :: l => by simp [ValList.ofList, ValList.toList, ValList.toList_ofList l]

mutual
/-- equality up to NaN payloads and up to the order of entries of hash-ordered collections at any depth
    (type-directed: a `list` is ordered under `seq`/`array`, unordered under `uset`/`umap`) -/
def Val.SameUpTo : Val → Ty → Val → Prop
  | .some v, .option t, .some w => Val.SameUpTo v t w
  | .ok v, .result t _, .ok w => Val.SameUpTo v t w
  | .err v, .result _ e, .err w => Val.SameUpTo v e w
  | .wrap v, .wrapper t, .wrap w => Val.SameUpTo v t w
  | .list vs, .seq t, .list ws => ValList.SameAll vs t ws
  | .list vs, .array _ t, .list ws => ValList.SameAll vs t ws
  | .list vs, .uset t, .list ws => ∃ ws' : ValList, ws'.toList.Perm ws.toList ∧ ValList.SameAll vs t ws'
  | .list vs, .umap k v, .list ws =>
      ∃ ws' : ValList, ws'.toList.Perm ws.toList ∧ ValList.SameAll vs (Ty.pair k v) ws'
  | .tuple vs, .tuple ts, .tuple ws => ValList.SameFields vs ts ws
  | .variant i fs, .enum _ vars, .variant j gs =>
      i = j ∧ match vars.get? i with
              | some (_, fts) => ValList.SameFields fs fts gs
              | none => False
  | v, _, w => v.canon = w.canon
def ValList.SameAll : ValList → Ty → ValList → Prop
  | .nil, _, .nil => True
  | .cons v vs, t, .cons w ws => Val.SameUpTo v t w ∧ ValList.SameAll vs t ws
  | _, _, _ => False
def ValList.SameFields : ValList → TyList → ValList → Prop
  | .nil, .nil, .nil => True
  | .cons v vs, .cons t ts, .cons w ws => Val.SameUpTo v t w ∧ ValList.SameFields vs ts ws
  | _, _, _ => False
end

section
variable {σ : Type} (absorb : σ → Bytes → σ) (finish : σ → Nat)

/-- the stated 128-bit collision event for one collection: two different multisets of entry streams of the
    same size whose sub-hash sums agree modulo 2^128 -/
def SumCollision (st : σ) (xs ys : List Bytes) : Prop :=
  ¬ xs.Perm ys ∧ xs.length = ys.length ∧
    (xs.map (subHash absorb finish st)).sum % M128 = (ys.map (subHash absorb finish st)).sum % M128

/-- some hash-ordered collection somewhere is a sum collision -/
def SomeCollision : Prop := ∃ (st : σ) (xs ys : List Bytes), SumCollision absorb finish st xs ys

/-- one unordered node: equal 24-byte streams ⇒ same size, same rest, and entry streams are a permutation
    of each other or a sum collision -/
theorem uset_node {t : Ty} {vs ws : ValList} {st : σ} {r1 r2 : Bytes}
    (hv : vs.length < M64) (hw : ws.length < M64)
    (h : stream absorb finish (.uset t) (.list vs) st ++ r1 =
         stream absorb finish (.uset t) (.list ws) st ++ r2) :
    vs.length = ws.length ∧ r1 = r2 ∧
    ((entryStreams absorb finish t vs (absorb st (le 8 vs.length))).Perm
        (entryStreams absorb finish t ws (absorb st (le 8 vs.length))) ∨
      SomeCollision absorb finish) := by
  rw [stream_uset, stream_uset] at h
  simp only [List.append_assoc] at h
  rw [M64_eq] at hv hw
  obtain ⟨hl, h2⟩ := le_inj_of_lt hv hw h
  rw [← hl] at h2
  obtain ⟨hsum, hr⟩ := le_append_inj h2
  rw [← M128_eq] at hsum
  refine ⟨hl, hr, ?_⟩
  by_cases hp : (entryStreams absorb finish t vs (absorb st (le 8 vs.length))).Perm
      (entryStreams absorb finish t ws (absorb st (le 8 vs.length)))
  · exact Or.inl hp
  · exact Or.inr ⟨_, _, _, hp, by simp [entryStreams, ValList.length_toList, hl], hsum⟩

mutual
theorem full_dec : ∀ (v : Val) (t : Ty) (w : Val) (st : σ) (r1 r2 : Bytes),
    t.wf = true → hasType t v = true → hasType t w = true →
    stream absorb finish t v st ++ r1 = stream absorb finish t w st ++ r2 →
    (Val.SameUpTo v t w ∨ SomeCollision absorb finish) ∧ r1 = r2
  | .int i, t, w, st, r1, r2, hwf, hv, hw, h => by
    have hv' := hv
    cases t <;> simp [hasType] at hv
    have := stream_dec absorb finish _ _ w st st r1 r2 rfl hwf hv' hw h
    cases w <;> simp [hasType] at hw
    exact ⟨Or.inl (by simpa [Val.SameUpTo] using this.1), this.2⟩
  | .bool b, t, w, st, r1, r2, hwf, hv, hw, h => by
    have hv' := hv
    cases t <;> simp [hasType] at hv
    have := stream_dec absorb finish _ _ w st st r1 r2 rfl hwf hv' hw h
    cases w <;> simp [hasType] at hw
    exact ⟨Or.inl (by simpa [Val.SameUpTo] using this.1), this.2⟩
  | .char c, t, w, st, r1, r2, hwf, hv, hw, h => by
    have hv' := hv
    cases t <;> simp [hasType] at hv
    have := stream_dec absorb finish _ _ w st st r1 r2 rfl hwf hv' hw h
    cases w <;> simp [hasType] at hw
    exact ⟨Or.inl (by simpa [Val.SameUpTo] using this.1), this.2⟩
  | .f32 b, t, w, st, r1, r2, hwf, hv, hw, h => by
    have hv' := hv
    cases t <;> simp [hasType] at hv
    have := stream_dec absorb finish _ _ w st st r1 r2 rfl hwf hv' hw h
    cases w <;> simp [hasType] at hw
    exact ⟨Or.inl (by simpa [Val.SameUpTo] using this.1), this.2⟩
  | .f64 b, t, w, st, r1, r2, hwf, hv, hw, h => by
    have hv' := hv
    cases t <;> simp [hasType] at hv
    have := stream_dec absorb finish _ _ w st st r1 r2 rfl hwf hv' hw h
    cases w <;> simp [hasType] at hw
    exact ⟨Or.inl (by simpa [Val.SameUpTo] using this.1), this.2⟩
  | .unit, t, w, st, r1, r2, hwf, hv, hw, h => by
    have hv' := hv
    cases t <;> simp [hasType] at hv
    have := stream_dec absorb finish _ _ w st st r1 r2 rfl hwf hv' hw h
    cases w <;> simp [hasType] at hw
    exact ⟨Or.inl (by simp [Val.SameUpTo]), this.2⟩
  | .str bs, t, w, st, r1, r2, hwf, hv, hw, h => by
    have hv' := hv
    cases t <;> simp [hasType] at hv
    have := stream_dec absorb finish _ _ w st st r1 r2 rfl hwf hv' hw h
    cases w <;> simp [hasType] at hw
    exact ⟨Or.inl (by simpa [Val.SameUpTo] using this.1), this.2⟩
  | .none, t, w, st, r1, r2, hwf, hv, hw, h => by
    cases t <;> simp [hasType] at hv
    cases w <;> simp [hasType] at hw
    · simp only [stream] at h
      exact ⟨Or.inl (by simp [Val.SameUpTo]), (le_append_inj h).2⟩
    · simp only [stream, List.append_assoc] at h
      have := (le_append_inj h).1
      simp at this
  | .some v, t, w, st, r1, r2, hwf, hv, hw, h => by
    cases t <;> simp [hasType] at hv
    cases w <;> simp [hasType] at hw
    · simp only [stream, List.append_assoc] at h
      have := (le_append_inj h).1
      simp at this
    · simp only [stream, List.append_assoc] at h
      simp only [Ty.wf] at hwf
      have := full_dec v _ _ _ _ _ hwf hv hw (le_append_inj h).2
      exact ⟨by simpa [Val.SameUpTo] using this.1, this.2⟩
  | .ok v, t, w, st, r1, r2, hwf, hv, hw, h => by
    cases t <;> simp [hasType] at hv
    simp only [Ty.wf, Bool.and_eq_true] at hwf
    cases w <;> simp [hasType] at hw
    · simp only [stream, List.append_assoc] at h
      have := full_dec v _ _ _ _ _ hwf.1 hv hw (le_append_inj h).2
      exact ⟨by simpa [Val.SameUpTo] using this.1, this.2⟩
    · simp only [stream, List.append_assoc] at h
      have := (le_append_inj h).1
      simp at this
  | .err v, t, w, st, r1, r2, hwf, hv, hw, h => by
    cases t <;> simp [hasType] at hv
    simp only [Ty.wf, Bool.and_eq_true] at hwf
    cases w <;> simp [hasType] at hw
    · simp only [stream, List.append_assoc] at h
      have := (le_append_inj h).1
      simp at this
    · simp only [stream, List.append_assoc] at h
      have := full_dec v _ _ _ _ _ hwf.2 hv hw (le_append_inj h).2
      exact ⟨by simpa [Val.SameUpTo] using this.1, this.2⟩
  | .wrap v, t, w, st, r1, r2, hwf, hv, hw, h => by
    cases t <;> simp [hasType] at hv
    cases w <;> simp [hasType] at hw
    simp only [stream] at h
    simp only [Ty.wf] at hwf
    have := full_dec v _ _ _ _ _ hwf hv hw h
    exact ⟨by simpa [Val.SameUpTo] using this.1, this.2⟩
  | .tuple vs, t, w, st, r1, r2, hwf, hv, hw, h => by
    cases t <;> simp [hasType] at hv
    cases w <;> simp [hasType] at hw
    simp only [stream] at h
    simp only [Ty.wf] at hwf
    have := fullFields_dec vs _ _ _ _ _ hwf hv hw h
    exact ⟨by simpa [Val.SameUpTo] using this.1, this.2⟩
  | .list vs, t, w, st, r1, r2, hwf, hv, hw, h => by
    cases t <;> simp [hasType] at hv
    · -- seq
      cases w <;> simp [hasType] at hw
      simp only [stream, List.append_assoc] at h
      simp only [Ty.wf] at hwf
      rw [M64_eq] at hv hw
      obtain ⟨h1, h2⟩ := le_inj_of_lt hv.1 hw.1 h
      rw [← h1] at h2
      have := fullAll_dec vs _ _ _ _ _ hwf hv.2 hw.2 h1 h2
      exact ⟨by simpa [Val.SameUpTo] using this.1, this.2⟩
    · -- array
      cases w <;> simp [hasType] at hw
      simp only [stream, List.append_assoc] at h
      simp only [Ty.wf] at hwf
      rw [M64_eq] at hv hw
      obtain ⟨h1, h2⟩ := le_inj_of_lt hv.1.2 hw.1.2 h
      rw [← h1] at h2
      have := fullAll_dec vs _ _ _ _ _ hwf hv.2 hw.2 h1 h2
      exact ⟨by simpa [Val.SameUpTo] using this.1, this.2⟩
    · -- uset
      cases w <;> simp [hasType] at hw
      rename_i t' ws
      simp only [Ty.wf] at hwf
      obtain ⟨hl, hr, hp⟩ := uset_node absorb finish hv.1 hw.1 h
      refine ⟨?_, hr⟩
      rcases hp with hp | hc
      · rcases fullMatch vs t' ws _ hwf hv.2 (fun w hm => allHaveType_mem ws hw.2 hm) hp with hm | hc
        · exact Or.inl (by simpa [Val.SameUpTo] using hm)
        · exact Or.inr hc
      · exact Or.inr hc
    · -- umap
      cases w <;> simp [hasType] at hw
      rename_i k' v' ws
      simp only [Ty.wf, Bool.and_eq_true] at hwf
      rw [stream_umap, stream_umap] at h
      obtain ⟨hl, hr, hp⟩ := uset_node absorb finish hv.1 hw.1 h
      refine ⟨?_, hr⟩
      have hwf' : (Ty.pair k' v').wf = true := by simp [Ty.pair, Ty.wf, TyList.wf, hwf.1, hwf.2]
      rcases hp with hp | hc
      · rcases fullMatch vs (Ty.pair k' v') ws _ hwf' hv.2 (fun w hm => allHaveType_mem ws hw.2 hm) hp with hm | hc
        · exact Or.inl (by simpa [Val.SameUpTo] using hm)
        · exact Or.inr hc
      · exact Or.inr hc
  | .variant idx fs, t, w, st, r1, r2, hwf, hv, hw, h => by
    cases t <;> simp only [hasType] at hv <;> try (simp at hv; done)
    rename_i dw vars
    cases w <;> simp only [hasType] at hw <;> try (simp at hw; done)
    rename_i idx' fs'
    simp only [Ty.wf, Bool.and_eq_true] at hwf
    simp only [stream] at h
    cases hg : vars.get? idx with
    | none => simp [hg] at hv
    | some p =>
      obtain ⟨d, fts⟩ := p
      cases hg' : vars.get? idx' with
      | none => simp [hg'] at hw
      | some p' =>
        obtain ⟨d', fts'⟩ := p'
        simp only [hg, hg'] at h hv hw
        simp only [List.append_assoc] at h
        have hd : d < 256 ^ dw.bytes := by
          rw [← pow256]; exact allBelow_mem hwf.1.2 (VarList.get?_mem _ hg)
        have hd' : d' < 256 ^ dw.bytes := by
          rw [← pow256]; exact allBelow_mem hwf.1.2 (VarList.get?_mem _ hg')
        obtain ⟨h1, h2⟩ := le_inj_of_lt hd hd' h
        subst h1
        have hidx := VarList.get?_inj _ hwf.1.1 hg hg'
        subst hidx
        rw [hg] at hg'
        simp only [Option.some.injEq, Prod.mk.injEq, true_and] at hg'
        subst hg'
        have := fullFields_dec fs _ _ _ _ _ (VarList.get?_wf _ hwf.2 hg) hv hw h2
        refine ⟨?_, this.2⟩
        rcases this.1 with hs | hc
        · exact Or.inl (by simp [Val.SameUpTo, hg, hs])
        · exact Or.inr hc

theorem fullAll_dec : ∀ (vs : ValList) (t : Ty) (ws : ValList) (st : σ) (r1 r2 : Bytes),
    t.wf = true → allHaveType t vs = true → allHaveType t ws = true → vs.length = ws.length →
    streamAll absorb finish t vs st ++ r1 = streamAll absorb finish t ws st ++ r2 →
    (ValList.SameAll vs t ws ∨ SomeCollision absorb finish) ∧ r1 = r2
  | .nil, t, ws, st, r1, r2, hwf, hv, hw, hl, h => by
    cases ws with
    | nil => exact ⟨Or.inl (by simp [ValList.SameAll]), by simpa [streamAll] using h⟩
    | cons w ws => simp [ValList.length] at hl
  | .cons v vs, t, ws, st, r1, r2, hwf, hv, hw, hl, h => by
    cases ws with
    | nil => simp [ValList.length] at hl
    | cons w ws =>
      simp only [allHaveType, Bool.and_eq_true] at hv hw
      simp only [ValList.length, Nat.add_right_cancel_iff] at hl
      simp only [streamAll, List.append_assoc] at h
      obtain ⟨h1, h2⟩ := full_dec v _ _ _ _ _ hwf hv.1 hw.1 h
      have hs : stream absorb finish t v st = stream absorb finish t w st := by
        rw [h2] at h; exact List.append_cancel_right h
      rw [← hs] at h2
      obtain ⟨h3, h4⟩ := fullAll_dec vs _ _ _ _ _ hwf hv.2 hw.2 hl h2
      refine ⟨?_, h4⟩
      rcases h1 with h1 | hc
      · rcases h3 with h3 | hc
        · exact Or.inl (by simp [ValList.SameAll, h1, h3])
        · exact Or.inr hc
      · exact Or.inr hc

theorem fullFields_dec : ∀ (vs : ValList) (ts : TyList) (ws : ValList) (st : σ) (r1 r2 : Bytes),
    ts.wf = true → fieldsHaveType ts vs = true → fieldsHaveType ts ws = true →
    streamFields absorb finish ts vs st ++ r1 = streamFields absorb finish ts ws st ++ r2 →
    (ValList.SameFields vs ts ws ∨ SomeCollision absorb finish) ∧ r1 = r2
  | .nil, ts, ws, st, r1, r2, hwf, hv, hw, h => by
    cases ts <;> simp [fieldsHaveType] at hv
    cases ws <;> simp [fieldsHaveType] at hw
    exact ⟨Or.inl (by simp [ValList.SameFields]), by simpa [streamFields] using h⟩
  | .cons v vs, ts, ws, st, r1, r2, hwf, hv, hw, h => by
    cases ts <;> simp [fieldsHaveType] at hv
    cases ws <;> simp [fieldsHaveType] at hw
    rename_i t ts w ws
    simp only [TyList.wf, Bool.and_eq_true] at hwf
    simp only [streamFields, List.append_assoc] at h
    obtain ⟨h1, h2⟩ := full_dec v _ _ _ _ _ hwf.1 hv.1 hw.1 h
    have hs : stream absorb finish t v st = stream absorb finish t w st := by
      rw [h2] at h; exact List.append_cancel_right h
    rw [← hs] at h2
    obtain ⟨h3, h4⟩ := fullFields_dec vs _ _ _ _ _ hwf.2 hv.2 hw.2 h2
    refine ⟨?_, h4⟩
    rcases h1 with h1 | hc
    · rcases h3 with h3 | hc
      · exact Or.inl (by simp [ValList.SameFields, h1, h3])
      · exact Or.inr hc
    · exact Or.inr hc

/-- entry streams are a permutation of each other ⇒ the entries can be matched up pairwise -/
theorem fullMatch : ∀ (vs : ValList) (t : Ty) (ws : ValList) (st : σ),
    t.wf = true → allHaveType t vs = true → (∀ w ∈ ws.toList, hasType t w = true) →
    (entryStreams absorb finish t vs st).Perm (entryStreams absorb finish t ws st) →
    (∃ ws' : ValList, ws'.toList.Perm ws.toList ∧ ValList.SameAll vs t ws') ∨ SomeCollision absorb finish
  | .nil, t, ws, st, hwf, hv, hw, hp => by
    have := hp.length_eq
    simp [entryStreams, ValList.toList] at this
    have hnil : ws.toList = [] := List.eq_nil_of_length_eq_zero this.symm
    exact Or.inl ⟨.nil, by simp [ValList.toList, hnil], by simp [ValList.SameAll]⟩
  | .cons v vs, t, ws, st, hwf, hv, hw, hp => by
    simp only [allHaveType, Bool.and_eq_true] at hv
    simp only [entryStreams, ValList.toList, List.map_cons] at hp
    have hmem : stream absorb finish t v st ∈ ws.toList.map (fun v => stream absorb finish t v st) :=
      hp.subset (by simp)
    obtain ⟨w, hwm, hfw⟩ := List.mem_map.mp hmem
    obtain ⟨s, u, hsu⟩ := List.append_of_mem hwm
    have hp' : (vs.toList.map (fun v => stream absorb finish t v st)).Perm
        ((s ++ u).map (fun v => stream absorb finish t v st)) := by
      rw [hsu] at hp
      have h2 : ((s ++ w :: u).map (fun v => stream absorb finish t v st)).Perm
          (stream absorb finish t w st :: (s ++ u).map (fun v => stream absorb finish t v st)) := by
        simp
      rw [hfw] at h2
      exact (hp.trans h2).cons_inv
    have hrec := fullMatch vs t (ValList.ofList (s ++ u)) st hwf hv.2
      (by
        intro x hx
        rw [ValList.toList_ofList] at hx
        apply hw x
        rw [hsu]
        rcases List.mem_append.mp hx with h | h
        · exact List.mem_append.mpr (Or.inl h)
        · exact List.mem_append.mpr (Or.inr (List.mem_cons_of_mem _ h)))
      (by simpa [entryStreams, ValList.toList_ofList] using hp')
    have hone := full_dec v t w st [] [] hwf hv.1 (hw w hwm) (by simpa using hfw.symm)
    rcases hone.1 with hsame | hc
    · rcases hrec with ⟨ws'', hperm, hall⟩ | hc
      · refine Or.inl ⟨.cons w ws'', ?_, by simp [ValList.SameAll, hsame, hall]⟩
        rw [ValList.toList_ofList] at hperm
        rw [hsu]
        simp only [ValList.toList]
        exact (List.Perm.cons w hperm).trans List.perm_middle.symm
      · exact Or.inr hc
    · exact Or.inr hc
end

end

end QbiceVerif.Hash
