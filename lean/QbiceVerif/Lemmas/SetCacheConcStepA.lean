/-
`SetCacheConc`: the foreground steps that do not touch the store side (everything except `begin`, `submit`,
`stage`) and the background steps `evict`, `otherBump`.
-/
import QbiceVerif.Lemmas.SetCacheConcLocal

namespace QbiceVerif.SetCacheConc
open QbiceVerif.SetCache

attribute [local simp] setTask

theorem R1_ov {s : State} {u : Task} {sn : Snapshot} {x : Nat} (h : R1 s u sn x) : allowed u x (ov s.db sn x) := by
  obtain ⟨a, b, c⟩ := h
  by_cases ha : x ∈ sn.added
  · exact ⟨fun _ => Or.inl ha, fun _ => a ha⟩
  · by_cases hr : x ∈ sn.removed
    · exact ⟨fun hm => absurd hm (b hr), fun ho => by simp [ov, ha, hr] at ho⟩
    · have : ov s.db sn x ↔ x ∈ s.db := by simp [ov, ha, hr]
      exact (allowed_congr this).mpr (c ha hr).1

theorem RInv_notReading {s : State} {u : Task} (hs : u.seen ≤ s.gen) (hr : ¬ u.pc.reading) : RInv s u := by
  refine ⟨hs, fun h => absurd h hr, ?_⟩
  cases hpc : u.pc <;> simp_all [Pc.reading]

theorem step_bump {s s' : State} {t : Nat} {out} (I : Inv s) (h : fire s (.bump t) = some (s', out)) : Inv s' := by
  simp only [fire] at h
  split at h
  · rename_i x ins ob sn mu ma h0
    cases h
    have hr := I.rd t _ h0
    have hw := I.wT t _ h0
    refine inv_local I h0 rfl rfl rfl rfl rfl rfl rfl rfl (by simp) (Nat.le_refl _) (he_same rfl) I.curOk rfl
      (Or.inr rfl) (by intro hg; simp at hg) (by simpa using hw.1) trivial
      (curT_same I h0 rfl rfl rfl (by intro x i _ hp; simpa [Pc.pend] using hp))
      (RInv_notReading (by have := hr.1; simp at this ⊢; omega) (by simp [Pc.reading]))
  · cases h

theorem step_wLookup {s s' : State} {t : Nat} {out} (I : Inv s) (h : fire s (.wLookup t) = some (s', out)) : Inv s' := by
  simp only [fire] at h
  split at h
  · rename_i x ins ob sn mu ma h0
    have hr := I.rd t _ h0
    have hw := I.wT t _ h0
    split at h
    · rename_i i hc
      cases h
      refine inv_local I h0 rfl rfl rfl rfl rfl rfl rfl rfl (Nat.le_refl _) (Nat.le_refl _) (he_same rfl) I.curOk rfl
        (Or.inr rfl) (by intro _ x hs; simp [Pc.stagedOn] at hs) (by simpa using hw) (by simpa using I.curOk i hc)
        (curT_same I h0 rfl rfl rfl (by intro x j hj hp; rw [hc] at hj; cases hj; simpa [Pc.pend] using hp))
        (RInv_notReading (by simpa using hr.1) (by simp [Pc.reading]))
    · rename_i hc
      cases h
      refine inv_local I h0 rfl rfl rfl rfl rfl rfl rfl rfl (Nat.le_refl _) (Nat.le_refl _) (he_same rfl) I.curOk rfl
        (Or.inl rfl) (by intro _ x hs; simp [Pc.stagedOn] at hs) trivial trivial
        (by intro i S x hci; simp [hc] at hci)
        (RInv_notReading (by simpa using hr.1) (by simp [Pc.reading]))
  · cases h

theorem step_gLoad {s s' : State} {t : Nat} {out} (I : Inv s) (h : fire s (.gLoad t) = some (s', out)) : Inv s' := by
  simp only [fire] at h
  split at h
  · rename_i ob sn mu ma h0
    cases h
    have hr := I.rd t _ h0
    refine inv_local I h0 rfl rfl rfl rfl rfl rfl rfl rfl (Nat.le_refl _) (Nat.le_refl _) (he_same rfl) I.curOk rfl
      (Or.inl rfl) (by intro _ x hs; simp [Pc.stagedOn] at hs) trivial trivial
      (curT_same I h0 rfl rfl rfl (by intro x i _ hp; simp [Pc.pend] at hp)) ?_
    refine ⟨Nat.le_refl _, fun _ x => ?_, trivial⟩
    have := hr.2.1 (by simp [Pc.reading]) x
    refine ⟨this.1, fun hx => this.2 ?_⟩
    obtain ⟨t', u', h1, h2⟩ := mem_inflight.mp hx
    simp only [setTask] at h1
    rw [set_get _ h0] at h1
    split at h1
    · cases h1; simp [Pc.writing] at h2
    · exact mem_inflight.mpr ⟨t', u', h1, h2⟩
  · cases h

theorem inflight_sub {s : State} {t : Nat} {u0 u1 : Task} (h0 : s.tasks[t]? = some u0)
    (hw : u1.pc.writing = none ∨ u1.pc.writing = u0.pc.writing) (x : Nat)
    (hx : x ∈ inflight (setTask s t u1)) : x ∈ inflight s := by
  obtain ⟨t', u', h1, h2⟩ := mem_inflight.mp hx
  simp only [setTask] at h1
  rw [set_get _ h0] at h1
  split at h1
  · cases h1
    rcases hw with hw | hw
    · rw [hw] at h2; cases h2
    · exact mem_inflight.mpr ⟨t, u0, h0, by rw [← hw]; exact h2⟩
  · exact mem_inflight.mpr ⟨t', u', h1, h2⟩

/-- a witness among the tasks survives the replacement of a task that is not a witness -/
theorem lift_task {s : State} {t : Nat} {u0 : Task} (u1 : Task) (h0 : s.tasks[t]? = some u0) {P : Task → Prop}
    (h : ∃ (t' : Nat) (u' : Task), s.tasks[t']? = some u' ∧ P u') (hn : ¬ P u0) :
    ∃ (t' : Nat) (u' : Task), (s.tasks.set t u1)[t']? = some u' ∧ P u' := by
  obtain ⟨t', u', h1, h2⟩ := h
  by_cases ht : t' = t
  · subst ht; rw [h0] at h1; cases h1; exact absurd h2 hn
  · exact ⟨t', u', by rw [set_get u1 h0]; simp [ht, h1], h2⟩

theorem step_gRetry {s s' : State} {t : Nat} {out} (I : Inv s) (h : fire s (.gRetry t) = some (s', out)) : Inv s' := by
  simp only [fire] at h
  split at h
  · rename_i snp ob sn mu ma h0
    cases h
    have hr := I.rd t _ h0
    refine inv_local I h0 rfl rfl rfl rfl rfl rfl rfl rfl (Nat.le_refl _) (Nat.le_refl _) (he_same rfl) I.curOk rfl
      (Or.inl rfl) (by intro _ x hs; simp [Pc.stagedOn] at hs) trivial trivial
      (curT_same I h0 rfl rfl rfl (by intro x i _ hp; simp [Pc.pend] at hp)) ?_
    refine ⟨hr.1, fun _ x => ?_, trivial⟩
    have := hr.2.1 (by simp [Pc.reading]) x
    exact ⟨this.1, fun hx => this.2 (inflight_sub h0 (Or.inl rfl) x hx)⟩
  · cases h

theorem step_gScan {s s' : State} {t : Nat} {out} (I : Inv s) (h : fire s (.gScan t) = some (s', out)) : Inv s' := by
  simp only [fire] at h
  split at h
  · rename_i snp ob sn mu ma h0
    cases h
    have hr := I.rd t _ h0
    refine inv_local I h0 rfl rfl rfl rfl rfl rfl rfl rfl (Nat.le_refl _) (Nat.le_refl _) (he_same rfl) I.curOk rfl
      (Or.inl rfl) (by intro _ x hs; simp [Pc.stagedOn] at hs) trivial trivial
      (curT_same I h0 rfl rfl rfl (by intro x i _ hp; simp [Pc.pend] at hp)) ?_
    refine ⟨hr.1, fun _ x => ?_, ?_⟩
    · have := hr.2.1 (by simp [Pc.reading]) x
      exact ⟨this.1, fun hx => this.2 (inflight_sub h0 (Or.inl rfl) x hx)⟩
    · have h2 := hr.2.2
      simp only at h2 ⊢
      refine ⟨h2.1, fun x => ⟨(h2.2 x).1, R1_ov (h2.2 x).1, ?_⟩⟩
      intro hg hne
      exact lift_task _ h0 ((h2.2 x).2.1 hg hne) (by simp [Pc.stagedOn])
  · cases h

theorem step_gLookup {s s' : State} {t : Nat} {out} (I : Inv s) (h : fire s (.gLookup t) = some (s', out)) : Inv s' := by
  simp only [fire] at h
  split at h
  · rename_i snp ob sn mu ma h0
    have hr := I.rd t _ h0
    have hrd0 : ∀ x, allowed ⟨.snapped snp, ob, sn, mu, ma⟩ x (x ∈ s.truth) ∧ (x ∈ inflight s → x ∉ mu ∧ x ∈ ma) :=
      hr.2.1 (by simp [Pc.reading])
    have h2 := hr.2.2
    simp only at h2
    split at h
    · rename_i i hc
      cases h
      refine inv_local I h0 rfl rfl rfl rfl rfl rfl rfl rfl (Nat.le_refl _) (Nat.le_refl _) (he_same rfl) I.curOk rfl
        (Or.inl rfl) (by intro _ x hs; simp [Pc.stagedOn] at hs) trivial (by simpa using I.curOk i hc)
        (curT_same I h0 rfl rfl rfl (by intro x i _ hp; simp [Pc.pend] at hp)) ?_
      refine ⟨hr.1, fun _ x => ⟨(hrd0 x).1, fun hx => (hrd0 x).2 (inflight_sub h0 (Or.inl rfl) x hx)⟩, ?_⟩
      simp only
      refine ⟨h2.1, fun x => ⟨(h2.2 x).1, fun S hS => ?_⟩⟩
      simp only [setTask] at hS
      by_cases hx : x ∈ S ↔ x ∈ s.truth
      · exact (allowed_congr hx).mpr (hrd0 x).1
      · obtain ⟨t2, u2, h3, h4⟩ := I.curT i S x hc hS hx
        have := (hrd0 x).2 (mem_inflight.mpr ⟨t2, u2, h3, pend_writing h4⟩)
        exact allowed_any this.1 this.2 _
    · cases h
      refine inv_local I h0 rfl rfl rfl rfl rfl rfl rfl rfl (Nat.le_refl _) (Nat.le_refl _) (he_same rfl) I.curOk rfl
        (Or.inl rfl) (by intro _ x hs; simp [Pc.stagedOn] at hs) trivial trivial
        (curT_same I h0 rfl rfl rfl (by intro x i _ hp; simp [Pc.pend] at hp)) ?_
      refine ⟨hr.1, fun _ x => ⟨(hrd0 x).1, fun hx => (hrd0 x).2 (inflight_sub h0 (Or.inl rfl) x hx)⟩, ?_⟩
      simp only
      refine ⟨h2.1, fun x => ⟨(h2.2 x).1, ?_, ?_⟩⟩
      · intro hg hne
        exact lift_task _ h0 ((h2.2 x).2.1 hg hne) (by simp [Pc.stagedOn])
      · intro hg ha hrm B hB hne
        exact lift_task _ h0 ((h2.2 x).2.2 hg ha hrm B hB hne) (by simp [Pc.stagedOn])
  · cases h

theorem step_gStart {s s' : State} {t : Nat} {out} (I : Inv s) (h : fire s (.gStart t) = some (s', out)) : Inv s' := by
  simp only [fire] at h
  split at h
  · rename_i ob sn mu ma h0
    cases h
    have hr := I.rd t _ h0
    refine inv_local I h0 rfl rfl rfl rfl rfl rfl rfl rfl (Nat.le_refl _) (Nat.le_refl _) (he_same rfl) I.curOk rfl
      (Or.inl rfl) (by intro _ x hs; simp [Pc.stagedOn] at hs) trivial trivial
      (curT_same I h0 rfl rfl rfl (by intro x i _ hp; simp [Pc.pend] at hp)) ?_
    refine ⟨hr.1, fun _ x => ⟨⟨?_, ?_⟩, fun hx => ?_⟩, trivial⟩
    · intro hm; simp at hm; exact hm.1
    · intro ht; simp; exact Or.inl ht
    · have := inflight_sub h0 (Or.inl rfl) x hx
      simp [this]
  · cases h

theorem step_gRead {s s' : State} {t : Nat} {out} (I : Inv s) (h : fire s (.gRead t) = some (s', out)) : Inv s' := by
  simp only [fire] at h
  split at h
  · rename_i i snp sp ob sn mu ma h0
    have hr := I.rd t _ h0
    have key : Inv (setTask s t ⟨.idle, ob, sn, mu, ma⟩) := by
      refine inv_local I h0 rfl rfl rfl rfl rfl rfl rfl rfl (Nat.le_refl _) (Nat.le_refl _) (he_same rfl) I.curOk rfl
        (Or.inl rfl) (by intro _ x hs; simp [Pc.stagedOn] at hs) trivial trivial
        (curT_same I h0 rfl rfl rfl (by intro x i _ hp; simp [Pc.pend] at hp))
        (RInv_notReading (by simpa using hr.1) (by simp [Pc.reading]))
    split at h
    · cases h; exact key
    · split at h
      · cases h; exact key
      · cases h; exact key
      · cases h
  · cases h

/-- what a completed `get` returns lies between the ghost bounds of its interval -/
theorem read_ok {s s' : State} {t : Nat} {o : Out} (I : Inv s) (h : fire s (.gRead t) = some (s', some o)) :
    ∀ x, (x ∈ o.must → x ∈ o.out) ∧ (x ∈ o.out → x ∈ o.may) := by
  simp only [fire] at h
  split at h
  · rename_i i snp sp ob sn mu ma h0
    have hr := (I.rd t _ h0).2.2
    simp only at hr
    split at h
    · rename_i half rest
      cases h
      intro x
      exact (hr.2 x).2
    · split at h
      · rename_i S hS
        cases h
        intro x
        exact (hr.2 x).2 S hS
      · cases h
        intro x
        have := R1_ov (hr.2 x).1
        exact (allowed_congr (mem_streamIter s.db snp x)).mpr this
      · cases h
  · cases h

theorem step_wDowngrade {s s' : State} {t : Nat} {out} (I : Inv s) (h : fire s (.wDowngrade t) = some (s', out)) : Inv s' := by
  simp only [fire] at h
  split at h
  · rename_i i ob sn mu ma h0
    cases h
    have hr := I.rd t _ h0
    refine inv_local I h0 rfl rfl rfl rfl rfl rfl rfl rfl (Nat.le_refl _) (by simp) ?_ (by simpa using I.curOk) rfl
      (Or.inl rfl) (by intro _ x hs; simp [Pc.stagedOn] at hs) trivial trivial ?_
      (RInv_notReading (by simpa using hr.1) (by simp [Pc.reading]))
    · intro j S' hj hS'
      simp only [setTask] at hS'
      rw [List.getElem?_set] at hS'
      split at hS'
      · split at hS' <;> cases hS'
      · exact ⟨S', hS', fun x => Or.inl Iff.rfl⟩
    · intro c S x hc hS hne
      simp only [setTask] at hc hS ⊢
      rw [List.getElem?_set] at hS
      split at hS
      · split at hS <;> cases hS
      · exact lift_task _ h0 (I.curT c S x hc hS hne) (by simp [Pc.pend])
  · cases h

theorem step_evict {s s' : State} {out} (I : Inv s) (h : fire s .evict = some (s', out)) : Inv s' := by
  simp only [fire] at h
  split at h
  · cases h
    refine ⟨I.store, I.openOk, I.oUniq, I.wUniq, I.wT, by simp, I.refOk, by simp, fun t u h1 => ?_⟩
    refine RInv_mono (I.rd t u h1) rfl rfl (fun B hB x v hv => ⟨B, hB, rfl, hv⟩) (Nat.le_refl _) (fun x hx => hx)
      (fun _ x t1 u1 h2 h3 => ⟨t1, u1, h2, h3, rfl⟩) (he_same rfl) ?_
    have := I.refOk t u h1
    split <;> simp_all
  · cases h

theorem step_otherBump {s s' : State} {out} (I : Inv s) (h : fire s .otherBump = some (s', out)) : Inv s' := by
  simp only [fire] at h
  cases h
  refine ⟨I.store, I.openOk, I.oUniq, I.wUniq, I.wT, I.curOk, I.refOk, I.curT, fun t u h1 => ?_⟩
  refine RInv_mono (I.rd t u h1) rfl rfl (fun B hB x v hv => ⟨B, hB, rfl, hv⟩) (Nat.le_succ _) (fun x hx => hx)
    (fun hg => by simp at hg) (he_same rfl) ?_
  have := I.refOk t u h1
  split <;> simp_all

end QbiceVerif.SetCacheConc
