/-
`SetCacheConc`: preservation of the invariant by the steps that change one task (and possibly the
generation, the cache slot or the entry arena) but nothing of the store side.
-/
import QbiceVerif.Lemmas.SetCacheConcInv

namespace QbiceVerif.SetCacheConc
open QbiceVerif.SetCache

/-- a step that replaces task `t` (`u0` ↦ `u1`), leaves the store side alone, may raise the generation,
grow / modify the entry arena and move the cache slot -/
theorem inv_local {s s' : State} {t : Nat} {u0 u1 : Task} (I : Inv s) (h0 : s.tasks[t]? = some u0)
    (etasks : s'.tasks = s.tasks.set t u1)
    (ebat : s'.bat = s.bat) (elog : s'.log = s.log) (edb : s'.db = s.db) (etruth : s'.truth = s.truth)
    (enot : s'.notifs = s.notifs) (eexp : s'.expected = s.expected) (enext : s'.nextEpoch = s.nextEpoch)
    (hg : s.gen ≤ s'.gen)
    (hlen : s.entries.length ≤ s'.entries.length)
    (he : ∀ i S', i < s.entries.length → s'.entries[i]? = some (.inMem S') →
            ∃ S, s.entries[i]? = some (.inMem S) ∧ ∀ x, (x ∈ S' ↔ x ∈ S) ∨ (x ∈ S' ↔ x ∈ s.truth))
    (hcur : ∀ i, s'.cur = some i → i < s'.entries.length)
    (hop : u1.openB = u0.openB)
    (hw : u1.pc.writing = none ∨ u1.pc.writing = u0.pc.writing)
    (hstg : s'.gen = s.gen → ∀ x, u0.pc.stagedOn x → u1.pc.stagedOn x)
    (hwT : match u1.pc with
        | .staged x ins => (x ∈ s.truth ↔ ins = true) ∧ u1.openB ≠ none
        | .bumped x ins => (x ∈ s.truth ↔ ins = true)
        | .applying _ x ins => (x ∈ s.truth ↔ ins = true)
        | _ => True)
    (href : match u1.pc with
        | .got i _ _ => i < s'.entries.length
        | .applying i _ _ => i < s'.entries.length
        | .downgrade i => i < s'.entries.length
        | _ => True)
    (hcurT : ∀ i S x, s'.cur = some i → s'.entries[i]? = some (.inMem S) → ¬ (x ∈ S ↔ x ∈ s.truth) →
          ∃ (t : Nat) (u : Task), s'.tasks[t]? = some u ∧ u.pc.pend x i)
    (hrd : RInv s' u1) : Inv s' := by
  have hget : ∀ t', s'.tasks[t']? = if t' = t then some u1 else s.tasks[t']? := by
    intro t'; rw [etasks]; exact set_get u1 h0 t'
  have hin : ∀ x, x ∈ inflight s' → x ∈ inflight s := by
    intro x hx
    obtain ⟨t', u', h1, h2⟩ := mem_inflight.mp hx
    rw [hget] at h1
    split at h1
    · cases h1
      rcases hw with hw | hw
      · rw [hw] at h2; cases h2
      · exact mem_inflight.mpr ⟨t, u0, h0, by rw [← hw]; exact h2⟩
    · exact mem_inflight.mpr ⟨t', u', h1, h2⟩
  constructor
  · rw [ebat, elog, edb, etruth, enot, eexp, enext]; exact I.store
  · intro t' u' e h1 h2
    rw [hget] at h1; rw [ebat]
    split at h1
    · cases h1; exact I.openOk t u0 e h0 (by rw [← hop]; exact h2)
    · exact I.openOk t' u' e h1 h2
  · intro t1 t2 u1' u2' e h1 h2 w1 w2
    rw [hget] at h1 h2
    split at h1 <;> split at h2
    · omega
    · cases h1
      rename_i ht1 _; subst ht1
      exact I.oUniq _ t2 u0 u2' e h0 h2 (by rw [← hop]; exact w1) w2
    · cases h2
      rename_i _ ht2; subst ht2
      exact I.oUniq t1 _ u1' u0 e h1 h0 w1 (by rw [← hop]; exact w2)
    · exact I.oUniq t1 t2 u1' u2' e h1 h2 w1 w2
  · intro t1 t2 u1' u2' x h1 h2 w1 w2
    rw [hget] at h1 h2
    split at h1 <;> split at h2
    · omega
    · cases h1
      rcases hw with hw | hw
      · rw [hw] at w1; cases w1
      · rename_i ht1 _; subst ht1
        exact I.wUniq _ t2 u0 u2' x h0 h2 (by rw [← hw]; exact w1) w2
    · cases h2
      rcases hw with hw | hw
      · rw [hw] at w2; cases w2
      · rename_i _ ht2; subst ht2
        exact I.wUniq t1 _ u1' u0 x h1 h0 w1 (by rw [← hw]; exact w2)
    · exact I.wUniq t1 t2 u1' u2' x h1 h2 w1 w2
  · intro t' u' h1
    rw [hget] at h1; rw [etruth]
    split at h1
    · cases h1; exact hwT
    · exact I.wT t' u' h1
  · exact hcur
  · intro t' u' h1
    rw [hget] at h1
    split at h1
    · cases h1; exact href
    · have := I.refOk t' u' h1
      split <;> simp_all <;> omega
  · rw [etruth]; exact hcurT
  · intro t' u' h1
    rw [hget] at h1
    split at h1
    · cases h1; exact hrd
    · rename_i hne
      refine RInv_mono (I.rd t' u' h1) etruth edb (by rw [ebat]; exact fun B hB x v hv => ⟨B, hB, rfl, hv⟩) hg hin ?_ he ?_
      · intro hge x t1 u1' ht1 hs1
        by_cases h : t1 = t
        · subst h; rw [h0] at ht1; cases ht1
          exact ⟨t1, u1, by rw [hget]; simp, hstg hge x hs1, hop⟩
        · exact ⟨t1, u1', by rw [hget]; simp [h, ht1], hs1, rfl⟩
      · have := I.refOk t' u' h1
        split <;> simp_all

/-- the cache slot and the arena did not change, and the changed task keeps what it has to apply -/
theorem curT_same {s s' : State} {t : Nat} {u0 u1 : Task} (I : Inv s) (h0 : s.tasks[t]? = some u0)
    (etasks : s'.tasks = s.tasks.set t u1) (ecur : s'.cur = s.cur) (eent : s'.entries = s.entries)
    (hp : ∀ x i, s.cur = some i → u0.pc.pend x i → u1.pc.pend x i) :
    ∀ i S x, s'.cur = some i → s'.entries[i]? = some (.inMem S) → ¬ (x ∈ S ↔ x ∈ s.truth) →
          ∃ (t : Nat) (u : Task), s'.tasks[t]? = some u ∧ u.pc.pend x i := by
  intro i S x hc hS hne
  rw [ecur] at hc; rw [eent] at hS
  obtain ⟨t2, u2, h2, hp2⟩ := I.curT i S x hc hS hne
  by_cases h : t2 = t
  · subst h; rw [h0] at h2; cases h2
    exact ⟨t2, u1, by rw [etasks, set_get u1 h0]; simp, hp x i hc hp2⟩
  · exact ⟨t2, u2, by rw [etasks, set_get u1 h0]; simp [h, h2], hp2⟩

theorem he_same {s s' : State} (eent : s'.entries = s.entries) :
    ∀ i S', i < s.entries.length → s'.entries[i]? = some (.inMem S') →
            ∃ S, s.entries[i]? = some (.inMem S) ∧ ∀ x, (x ∈ S' ↔ x ∈ S) ∨ (x ∈ S' ↔ x ∈ s.truth) := by
  intro i S' _ h; rw [eent] at h; exact ⟨S', h, fun x => Or.inl Iff.rfl⟩

end QbiceVerif.SetCacheConc
