/-
What maintenance may do to the storage: entries only disappear, only unpinned ones, and every
disappearance is logged (property C16: `pinned_never_evicted`, `readable_until_gone`).
-/
import QbiceVerif.Lemmas.TinyLfuBasic

namespace QbiceVerif.TinyLfu

variable {σ : Type}

/-- The storage/log part of a maintenance step. -/
structure Evolves (cfg : Cfg σ) (pins : List Nat) (c c' : Core σ) : Prop where
  /-- nothing appears and no value changes -/
  sub : ∀ k v, sGet c'.st k = some v → sGet c.st k = some v
  /-- pinned entries stay -/
  keep : ∀ k v, sGet c.st k = some v → cfg.tok k v ∈ pins → sGet c'.st k = some v
  /-- whatever disappears is logged as an eviction -/
  logged : ∀ k, sGet c.st k ≠ none → sGet c'.st k = none → (k, false) ∈ c'.log
  logmono : ∀ e, e ∈ c.log → e ∈ c'.log
  nodup : (keys c.st).Nodup → (keys c'.st).Nodup
  /-- only resident, unpinned entries are logged as evicted -/
  honest : ∀ k, (k, false) ∈ c'.log → (k, false) ∈ c.log ∨ ∃ v, sGet c.st k = some v ∧ cfg.tok k v ∉ pins

theorem Evolves.refl (cfg : Cfg σ) (pins : List Nat) (c : Core σ) : Evolves cfg pins c c :=
  ⟨fun _ _ h => h, fun _ _ h _ => h, fun _ h1 h2 => absurd h2 h1, fun _ h => h, fun h => h, fun _ h => Or.inl h⟩

theorem Evolves.of_eq {cfg : Cfg σ} {pins : List Nat} {c c' : Core σ} (h1 : c'.st = c.st) (h2 : c'.log = c.log) :
    Evolves cfg pins c c' := by
  refine ⟨?_, ?_, ?_, ?_, ?_, ?_⟩
  · intro k v h; rw [h1] at h; exact h
  · intro k v h _; rw [h1]; exact h
  · intro k hk hc; rw [h1] at hc; exact absurd hc hk
  · intro e he; rw [h2]; exact he
  · intro h; rw [h1]; exact h
  · intro k hk; rw [h2] at hk; exact Or.inl hk

theorem Evolves.trans {cfg : Cfg σ} {pins : List Nat} {a b c : Core σ}
    (h1 : Evolves cfg pins a b) (h2 : Evolves cfg pins b c) : Evolves cfg pins a c := by
  refine ⟨?_, ?_, ?_, ?_, ?_, ?_⟩
  · intro k v h; exact h1.sub k v (h2.sub k v h)
  · intro k v h hp; exact h2.keep k v (h1.keep k v h hp) hp
  · intro k hk hc
    cases hb : sGet b.st k with
    | none => exact h2.logmono _ (h1.logged k hk hb)
    | some v => exact h2.logged k (by simp [hb]) hc
  · intro e h; exact h2.logmono e (h1.logmono e h)
  · intro h; exact h2.nodup (h1.nodup h)
  · intro k hk
    rcases h2.honest k hk with h | ⟨v, hv, hp⟩
    · exact h1.honest k h
    · exact Or.inr ⟨v, h1.sub k v hv, hp⟩

/-- same storage and log, other fields arbitrary -/
theorem Evolves.congr_right {cfg : Cfg σ} {pins : List Nat} {a b b' : Core σ}
    (h : Evolves cfg pins a b) (h1 : b'.st = b.st) (h2 : b'.log = b.log) : Evolves cfg pins a b' :=
  h.trans (Evolves.of_eq h1 h2)

/-! ### the removal closure -/

theorem removeClosure_none {cfg : Cfg σ} {pins : List Nat} {c : Core σ} {k : Nat} (h : sGet c.st k = none) :
    removeClosure cfg pins c k = (c, true) := by
  simp [removeClosure, h]

theorem removeClosure_pinned {cfg : Cfg σ} {pins : List Nat} {c : Core σ} {k v : Nat} (h : sGet c.st k = some v)
    (hp : cfg.tok k v ∈ pins) :
    removeClosure cfg pins c k = ({ c with log := c.log ++ [(k, true)] }, false) := by
  simp [removeClosure, h, hp]

theorem removeClosure_unpinned {cfg : Cfg σ} {pins : List Nat} {c : Core σ} {k v : Nat} (h : sGet c.st k = some v)
    (hp : cfg.tok k v ∉ pins) :
    removeClosure cfg pins c k = ({ c with st := sDel c.st k, log := c.log ++ [(k, false)] }, true) := by
  simp [removeClosure, h, hp]

/-- the three behaviours of the removal closure -/
theorem removeClosure_cases (cfg : Cfg σ) (pins : List Nat) (c : Core σ) (k : Nat) :
    (sGet c.st k = none ∧ removeClosure cfg pins c k = (c, true)) ∨
    (∃ v, sGet c.st k = some v ∧ cfg.tok k v ∈ pins ∧
      removeClosure cfg pins c k = ({ c with log := c.log ++ [(k, true)] }, false)) ∨
    (∃ v, sGet c.st k = some v ∧ cfg.tok k v ∉ pins ∧
      removeClosure cfg pins c k = ({ c with st := sDel c.st k, log := c.log ++ [(k, false)] }, true)) := by
  cases hv : sGet c.st k with
  | none => exact Or.inl ⟨rfl, removeClosure_none hv⟩
  | some v =>
    by_cases hp : cfg.tok k v ∈ pins
    · exact Or.inr (Or.inl ⟨v, rfl, hp, removeClosure_pinned hv hp⟩)
    · exact Or.inr (Or.inr ⟨v, rfl, hp, removeClosure_unpinned hv hp⟩)

theorem removeClosure_lru (cfg : Cfg σ) (pins : List Nat) (c : Core σ) (k : Nat) :
    (removeClosure cfg pins c k).1.lru = c.lru ∧ (removeClosure cfg pins c k).1.sk = c.sk := by
  rcases removeClosure_cases cfg pins c k with ⟨_, h⟩ | ⟨v, _, _, h⟩ | ⟨v, _, _, h⟩ <;> simp [h]

theorem removeClosure_true {cfg : Cfg σ} {pins : List Nat} {c : Core σ} {k : Nat}
    (h : (removeClosure cfg pins c k).2 = true) : sGet (removeClosure cfg pins c k).1.st k = none := by
  rcases removeClosure_cases cfg pins c k with ⟨h0, e⟩ | ⟨v, _, _, e⟩ | ⟨v, _, _, e⟩
  · simp [e, h0]
  · simp [e] at h
  · simp [e]

theorem removeClosure_false {cfg : Cfg σ} {pins : List Nat} {c : Core σ} {k : Nat}
    (h : (removeClosure cfg pins c k).2 = false) :
    (removeClosure cfg pins c k).1.st = c.st ∧ ∃ v, sGet c.st k = some v ∧ cfg.tok k v ∈ pins := by
  rcases removeClosure_cases cfg pins c k with ⟨h0, e⟩ | ⟨v, hv, hp, e⟩ | ⟨v, _, _, e⟩
  · simp [e] at h
  · rw [e]; exact ⟨rfl, v, hv, hp⟩
  · simp [e] at h

/-- other keys are untouched by the removal closure -/
theorem removeClosure_other (cfg : Cfg σ) (pins : List Nat) (c : Core σ) {k j : Nat} (h : j ≠ k) :
    sGet (removeClosure cfg pins c k).1.st j = sGet c.st j := by
  rcases removeClosure_cases cfg pins c k with ⟨_, e⟩ | ⟨v, _, _, e⟩ | ⟨v, _, _, e⟩ <;> simp [e, sGet_sDel_ne h]

theorem removeClosure_evolves (cfg : Cfg σ) (pins : List Nat) (c : Core σ) (k : Nat) :
    Evolves cfg pins c (removeClosure cfg pins c k).1 := by
  rcases removeClosure_cases cfg pins c k with ⟨_, e⟩ | ⟨v, _, _, e⟩ | ⟨v, hv, hp, e⟩
  · rw [e]; exact Evolves.refl _ _ _
  · rw [e]
    refine ⟨fun _ _ h => h, fun _ _ h _ => h, fun _ h1 h2 => absurd h2 h1, ?_, fun h => h, ?_⟩
    · intro e he; simp [he]
    · intro j hj; simp at hj; exact Or.inl hj
  · rw [e]
    refine ⟨?_, ?_, ?_, ?_, ?_, ?_⟩
    · intro j w h; simp only [sGet_sDel] at h; split at h
      · simp at h
      · exact h
    · intro j w h hpj; simp only [sGet_sDel]; split
      · rename_i e; subst e; rw [hv] at h; cases h; exact absurd hpj hp
      · exact h
    · intro j hj hc; simp only [sGet_sDel] at hc; split at hc
      · rename_i e; subst e; simp
      · exact absurd hc hj
    · intro e he; simp [he]
    · intro h; exact nodup_keys_sDel k h
    · intro j hj
      simp only [List.mem_append, List.mem_singleton, Prod.mk.injEq, and_true] at hj
      rcases hj with hj | hj
      · exact Or.inl hj
      · subst hj; exact Or.inr ⟨v, hv, hp⟩

theorem evictOrPin_evolves (cfg : Cfg σ) (pins : List Nat) (c : Core σ) (x : Nat) (rest : Lru) :
    Evolves cfg pins c (evictOrPin cfg pins c x rest) := by
  unfold evictOrPin
  have h := removeClosure_evolves cfg pins c x
  simp only []
  split <;> exact h.congr_right rfl rfl

/-- the two outcomes of `evictOrPin` -/
theorem evictOrPin_cases (cfg : Cfg σ) (pins : List Nat) (c : Core σ) (x : Nat) (rest : Lru) :
    ((evictOrPin cfg pins c x rest).lru = rest ∧ sGet (evictOrPin cfg pins c x rest).st x = none) ∨
    ((evictOrPin cfg pins c x rest).lru = { rest with pinned := rest.pinned ++ [x] } ∧
      (evictOrPin cfg pins c x rest).st = c.st ∧ ∃ v, sGet c.st x = some v ∧ cfg.tok x v ∈ pins) := by
  unfold evictOrPin
  cases hr : (removeClosure cfg pins c x).2
  · right; have := removeClosure_false hr; simp [hr, this]
  · left; have := removeClosure_true hr; simp [hr, this]

theorem evictOrPin_sk (cfg : Cfg σ) (pins : List Nat) (c : Core σ) (x : Nat) (rest : Lru) :
    (evictOrPin cfg pins c x rest).sk = c.sk := by
  unfold evictOrPin; simp only []; split <;> simp [(removeClosure_lru cfg pins c x).2]

/-! ### the policy entry points -/

theorem onReadHit_st (cfg : Cfg σ) (c : Core σ) (k : Nat) :
    (onReadHit cfg c k).1.st = c.st ∧ (onReadHit cfg c k).1.log = c.log := by
  simp [onReadHit]

theorem duel_evolves (cfg : Cfg σ) (pins : List Nat) (c : Core σ) (cand : Nat) (w : List Nat) (vict : Nat) (p : List Nat) :
    Evolves cfg pins c (duel cfg pins c cand w vict p) := by
  unfold duel
  split
  · exact (evictOrPin_evolves cfg pins c vict _).congr_right rfl rfl
  · exact evictOrPin_evolves cfg pins c cand _

theorem afterNewEntry_evolves {cfg : Cfg σ} {pins : List Nat} {c c' : Core σ}
    (h : afterNewEntry cfg pins c = .ok c') : Evolves cfg pins c c' := by
  unfold afterNewEntry at h
  split at h
  · cases h; exact Evolves.refl _ _ _
  · split at h
    · split at h <;> (cases h; exact Evolves.of_eq rfl rfl)
    · split at h
      · cases h
      · split at h
        · cases h
        · cases h; exact duel_evolves _ _ _ _ _ _ _

theorem onWrite_evolves {cfg : Cfg σ} {pins : List Nat} {c c' : Core σ} {k : Nat}
    (h : onWrite cfg pins c k = .ok c') : Evolves cfg pins c c' := by
  have h0 := onReadHit_st cfg c k
  have e0 : Evolves cfg pins c (onReadHit cfg c k).1 := Evolves.of_eq h0.1 h0.2
  unfold onWrite at h
  split at h
  · cases h; exact e0
  · split at h
    · cases h
    · have e1 := afterNewEntry_evolves h
      refine e0.trans (Evolves.trans ?_ e1)
      exact Evolves.of_eq rfl rfl

theorem unpin_evolves {cfg : Cfg σ} {pins : List Nat} {c c' : Core σ} {k : Nat}
    (h : unpin cfg pins c k = .ok c') : Evolves cfg pins c c' := by
  unfold unpin at h
  split at h
  · cases h; exact Evolves.refl _ _ _
  · split at h
    · split at h
      · split at h
        · cases h; exact Evolves.of_eq rfl rfl
        · cases h
      · cases h
    · split at h
      · simp only [] at h
        split at h
        · cases h; exact (evictOrPin_evolves cfg pins _ _ _).congr_right rfl rfl
        · cases h
      · simp only [] at h
        split at h
        · cases h; exact (removeClosure_evolves cfg pins c k).congr_right rfl rfl
        · cases h; exact removeClosure_evolves cfg pins c k

theorem trimLoop_evolves (cfg : Cfg σ) (pins : List Nat) (l : List Nat) (c : Core σ) :
    Evolves cfg pins c (trimLoop cfg pins l c).2 := by
  induction l generalizing c with
  | nil => exact Evolves.refl _ _ _
  | cons k rest ih =>
    unfold trimLoop
    simp only []
    split
    · exact (removeClosure_evolves cfg pins c k).trans (ih _)
    · exact removeClosure_evolves cfg pins c k

theorem trimScan_evolves (cfg : Cfg σ) (pins : List Nat) (l : List Nat) (c : Core σ) :
    Evolves cfg pins c (trimScan cfg pins l c).2 := by
  induction l generalizing c with
  | nil => exact Evolves.refl _ _ _
  | cons k rest ih =>
    unfold trimScan
    simp only []
    split
    · exact (removeClosure_evolves cfg pins c k).trans (ih _)
    · exact (removeClosure_evolves cfg pins c k).trans (ih _)

theorem trim_evolves (cfg : Cfg σ) (pins : List Nat) (c : Core σ) : Evolves cfg pins c (trim cfg pins c) := by
  unfold trim
  simp only []
  split
  · exact (trimScan_evolves cfg pins c.lru.pinned c).congr_right rfl rfl
  · exact (trimLoop_evolves cfg pins c.lru.pinned c).congr_right rfl rfl

theorem processWrite_evolves {cfg : Cfg σ} {pins : List Nat} {c c' : Core σ} {m : WMsg}
    (h : processWrite cfg pins c m = .ok c') : Evolves cfg pins c c' := by
  cases m with
  | insert k => exact onWrite_evolves h
  | unpinned k => exact unpin_evolves h
  | removed k => simp [processWrite] at h; cases h; exact Evolves.of_eq rfl rfl

theorem processWrites_evolves {cfg : Cfg σ} {pins : List Nat} {ms : List WMsg} {c c' : Core σ}
    (h : processWrites cfg pins ms c = .ok c') : Evolves cfg pins c c' := by
  induction ms generalizing c with
  | nil => simp [processWrites] at h; cases h; exact Evolves.refl _ _ _
  | cons m ms ih =>
    unfold processWrites at h
    split at h
    · rename_i c1 h1; exact (processWrite_evolves h1).trans (ih h)
    · cases h

theorem processReads_evolves (cfg : Cfg σ) (pins : List Nat) (ks : List Nat) (c : Core σ) :
    Evolves cfg pins c (processReads cfg ks c) := by
  induction ks generalizing c with
  | nil => exact Evolves.refl _ _ _
  | cons k ks ih =>
    unfold processReads
    have h0 := onReadHit_st cfg c k
    exact (Evolves.of_eq h0.1 h0.2).trans (ih _)

theorem processPolicyMessages_evolves {cfg : Cfg σ} {c c' : Cache σ}
    (h : processPolicyMessages cfg c = .ok c') :
    Evolves cfg c.pins c.core c'.core ∧ c'.pins = c.pins ∧ c'.wbuf = [] ∧ c'.rbuf = [] := by
  unfold processPolicyMessages at h
  split at h
  · cases h
  · rename_i core hw
    cases h
    refine ⟨?_, rfl, rfl, rfl⟩
    refine (processWrites_evolves hw).trans ?_
    refine (processReads_evolves cfg c.pins c.rbuf core).trans ?_
    split
    · exact trim_evolves cfg c.pins _
    · exact Evolves.refl _ _ _

theorem tryMaintenance_evolves {cfg : Cfg σ} {c c' : Cache σ} (h : tryMaintenance cfg c = .ok c') :
    Evolves cfg c.pins c.core c'.core ∧ c'.pins = c.pins := by
  unfold tryMaintenance at h
  split at h
  · cases h; exact ⟨Evolves.refl _ _ _, rfl⟩
  · have := processPolicyMessages_evolves h; exact ⟨this.1, this.2.1⟩

end QbiceVerif.TinyLfu
