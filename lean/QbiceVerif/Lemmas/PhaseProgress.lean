import QbiceVerif.Lemmas.PhaseProgressMeasure
import QbiceVerif.Lemmas.PhaseProgressInv

/-!
# C04 progress — deadlock freedom and the statement `PhaseProgressStmt mu`
-/

namespace QbiceVerif.Phase.Prog

/-! ## enabled events -/

theorem en_rReq {c : Cfg} {s : State} {t : Nat} {ks : List (Bool × Key)} {rest : List Op}
    (h1 : (s.tasks t).pc = .idle) (h2 : (s.tasks t).script = .round ks :: rest) :
    enabled c s (.rReq t) = true := by
  simp [enabled, step, h1, h2]

theorem en_grant {c : Cfg} {s : State} {t : Nat} (h : s.lock.grantable c.fair t = true) :
    enabled c s (.grant t) = true := by
  simp [enabled, step, h]

theorem en_rAcq {c : Cfg} {s : State} {t : Nat} {ks : List (Bool × Key)}
    (h1 : (s.tasks t).pc = .rWait ks) (h2 : t ∈ s.lock.readers) (h3 : s.lock.want t = none) :
    enabled c s (.rAcq t) = true := by
  simp [enabled, step, h1, h2, h3]

theorem en_rSample {c : Cfg} {s : State} {t : Nat} {ks : List (Bool × Key)}
    (h1 : (s.tasks t).pc = .rLocked ks) : enabled c s (.rSample t s.epoch) = true := by
  simp [enabled, step, h1]

theorem en_rActive {c : Cfg} {s : State} {t : Nat} {e : Nat} {ks : List (Bool × Key)}
    (h1 : (s.tasks t).pc = .rActive e ks) : ∃ ev, enabled c s ev = true := by
  cases ks with
  | nil => exact ⟨.rRel t, by simp [enabled, step, h1]⟩
  | cons p ks =>
    obtain ⟨isIn, k⟩ := p
    cases isIn with
    | true => exact ⟨.rQuery t k (s.inputs k), by simp [enabled, step, h1]⟩
    | false => exact ⟨.rQuery t k (query c s.inputs s.nodes e k).1, by simp [enabled, step, h1]⟩

theorem en_wStep {c : Cfg} {s : State} {t i e0 : Nat} {sets : List (Key × Val)} {kind : CommitKind}
    {rest : List Op} {st : OpenStep}
    (h1 : openPos (s.tasks t) = some (i, e0, sets, kind, rest))
    (h2 : (openOrder c.lockFirst)[i]? = some st)
    (h3 : st = .acq → s.lock.writer = some t ∧ s.lock.want t = none) :
    ∃ ev, enabled c s ev = true := by
  cases st with
  | batch => exact ⟨.wStep t .batch 0, by simp [enabled, step, h1, h2]⟩
  | bump => exact ⟨.wStep t .bump (s.epoch + 1), by simp [enabled, step, h1, h2]⟩
  | stage => exact ⟨.wStep t .stage e0, by simp [enabled, step, h1, h2]⟩
  | req => exact ⟨.wStep t .req 0, by simp [enabled, step, h1, h2]⟩
  | acq => exact ⟨.wStep t .acq 0, by simp [enabled, step, h1, h2, h3 rfl]⟩

theorem en_wDone {c : Cfg} {s : State} {t : Nat} (h1 : (s.tasks t).pc = .wCommitting)
    (hs : s.sess = none) : enabled c s (.wDone t) = true := by
  simp [enabled, step, h1, hs]

/-- while a session is open, one of its events is enabled -/
theorem en_sess {c : Cfg} {s : State} {σ : Sess} (hI : Inv c s) (hσ : s.sess = some σ) :
    ∃ ev, enabled c s ev = true := by
  cases hp : σ.pc with
  | active =>
    obtain ⟨sets, kind, hpc⟩ := hI.sessA σ hσ hp
    cases sets with
    | nil =>
      cases kind with
      | commit => exact ⟨.wCommit σ.owner, by simp [enabled, step, hpc, hσ, hp]⟩
      | drop => exact ⟨.wDrop σ.owner, by simp [enabled, step, hpc, hσ, hp]⟩
    | cons kv sets =>
      obtain ⟨k, v⟩ := kv
      exact ⟨.wSet σ.owner k v, by simp [enabled, step, hpc, hσ, hp]⟩
  | begun => exact ⟨.cPropagate σ.owner, by simp [enabled, step, hσ, hp]⟩
  | propagated => exact ⟨.cSubmit σ.owner, by simp [enabled, step, hσ, hp]⟩
  | submitted => exact ⟨.cRel σ.owner, by simp [enabled, step, hσ, hp]⟩

/-- a shared holder always has an enabled event -/
theorem en_reader {c : Cfg} {s : State} {r : Nat} (hI : Inv c s) (hr : r ∈ s.lock.readers) :
    ∃ ev, enabled c s ev = true := by
  have ht := hI.task r
  cases hpc : (s.tasks r).pc with
  | idle => rw [hpc] at ht; simp only [taskOk] at ht; exact absurd hr ht.2
  | rWait ks =>
    rw [hpc] at ht; simp only [taskOk] at ht
    rcases ht with ⟨-, h⟩ | ⟨h, -⟩
    · exact absurd hr h
    · exact ⟨_, en_rAcq hpc hr h⟩
  | rLocked ks => exact ⟨_, en_rSample hpc⟩
  | rActive e ks => exact en_rActive hpc
  | wOpen i e sets kind => rw [hpc] at ht; simp only [taskOk] at ht; exact absurd hr ht.2.1
  | wActive sets kind => rw [hpc] at ht; simp only [taskOk] at ht; exact absurd hr ht.2.1
  | wCommitting => rw [hpc] at ht; simp only [taskOk] at ht; exact absurd hr ht.2

/-- no session open and somebody queued: the exclusive holder (mid-opening), a shared holder, or the
lock itself (grant to the head of the queue) can move -/
theorem en_queue {c : Cfg} {s : State} {t : Nat} {x : Bool} (hI : Inv c s) (hs : s.sess = none)
    (hw : s.lock.want t = some x) : ∃ ev, enabled c s ev = true := by
  cases hwr : s.lock.writer with
  | some w =>
    obtain ⟨hwn, i, e, sets, kind, hpc, hi⟩ := hI.writer w hwr hs
    have ht := hI.task w
    rw [hpc] at ht; simp only [taskOk] at ht
    obtain ⟨st, hst⟩ := openOrder_lt c ht.1
    have hop : openPos (s.tasks w) = some (i, e, sets, kind, (s.tasks w).script) := by
      simp [openPos, hpc]
    exact en_wStep hop hst (fun _ => ⟨hwr, hwn⟩)
  | none =>
    cases hq : s.lock.queue with
    | nil => exact absurd hq (queue_ne_nil_of_want hw)
    | cons p rest =>
      obtain ⟨h, y⟩ := p
      cases y with
      | false =>
        exact ⟨_, en_grant (grantable_of_head hq (by simp [Lock.compat, hwr]))⟩
      | true =>
        cases hr : s.lock.readers with
        | nil => exact ⟨_, en_grant (grantable_of_head hq (by simp [Lock.compat, hwr, hr]))⟩
        | cons r rs => exact en_reader hI (r := r) (by simp [hr])

theorem deadlock_free {c : Cfg} {s : State} {n : Nat} (hI : Inv c s) (hnf : ¬ s.final n) :
    ∃ ev, enabled c s ev = true := by
  cases hs : s.sess with
  | some σ => exact en_sess hI hs
  | none =>
    have hex : ∃ t, (s.tasks t).finished ≠ true := by
      apply Classical.byContradiction; intro hc
      apply hnf
      refine ⟨fun t _ => ?_, by simp [hs]⟩
      apply Classical.byContradiction; intro hf
      exact hc ⟨t, hf⟩
    obtain ⟨t, hf⟩ := hex
    have ht := hI.task t
    cases hpc : (s.tasks t).pc with
    | idle =>
      cases hsc : (s.tasks t).script with
      | nil => exact absurd (by simp [Task.finished, hpc, hsc]) hf
      | cons op rest =>
        cases op with
        | round ks => exact ⟨_, en_rReq hpc hsc⟩
        | session sets kind =>
          have hop : openPos (s.tasks t) = some (0, 0, sets, kind, rest) := by
            simp [openPos, hpc, hsc]
          obtain ⟨st, hst⟩ := openOrder_lt c (i := 0) (by omega)
          refine en_wStep hop hst (fun ha => ?_)
          have := (openOrder_get c hst).2.1.mp ha
          have := (acqIdx_pos c).1
          omega
    | rWait ks =>
      rw [hpc] at ht; simp only [taskOk] at ht
      rcases ht with ⟨h, -⟩ | ⟨h, hr⟩
      · exact en_queue hI hs h
      · exact ⟨_, en_rAcq hpc hr h⟩
    | rLocked ks => exact ⟨_, en_rSample hpc⟩
    | rActive e ks => exact en_rActive hpc
    | wOpen i e sets kind =>
      rw [hpc] at ht; simp only [taskOk] at ht
      obtain ⟨hi5, -, -, heq, -⟩ := ht
      obtain ⟨st, hst⟩ := openOrder_lt c hi5
      have hop : openPos (s.tasks t) = some (i, e, sets, kind, (s.tasks t).script) := by
        simp [openPos, hpc]
      by_cases ha : st = .acq
      · rcases heq ((openOrder_get c hst).2.1.mp ha) with h | ⟨h1, h2, -⟩
        · exact en_queue hI hs h
        · exact en_wStep hop hst (fun _ => ⟨h2, h1⟩)
      · exact en_wStep hop hst (fun h => absurd h ha)
    | wActive sets kind =>
      rw [hpc] at ht; simp only [taskOk] at ht
      obtain ⟨-, -, σ, hσ, -⟩ := ht
      rw [hs] at hσ; cases hσ
    | wCommitting => exact ⟨_, en_wDone hpc hs⟩

end QbiceVerif.Phase.Prog

/-! ## the statement -/

namespace QbiceVerif.Phase

theorem phaseProgress_holds : PhaseProgressStmt mu := by
  refine ⟨?_, ?_, ?_⟩
  · intro c e0 inp scripts s s' ev hr hs
    exact Prog.reachable_step_mu_lt hr hs
  · intro c e0 inp scripts s hr hnf
    exact Prog.deadlock_free (Prog.reachable_inv hr) hnf
  · intro c e0 inp scripts evs s hrun
    have := Prog.run_mu_bound (c := c) evs (init e0 inp scripts) s (Prog.inert_init e0 inp scripts) hrun
    omega

end QbiceVerif.Phase
