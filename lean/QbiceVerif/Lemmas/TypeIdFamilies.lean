/-
The pair families of the generated table (Gen/TypeIdTable.lean): argument swap, nesting swap, array
length, tuple association.  Finite tables, proved whole by kernel evaluation.
-/
import QbiceVerif.Gen.TypeIdTable

namespace QbiceVerif.TypeId
open Gen

theorem swapPairs_ok : pairsDistinctCheck ctorTable swapPairs = true := by decide +kernel
theorem nestingPairs_ok : pairsDistinctCheck ctorTable nestingPairs = true := by decide +kernel
theorem array_lenPairs_ok : pairsDistinctCheck ctorTable array_lenPairs = true := by decide +kernel
theorem tuple_assocPairs_ok : pairsDistinctCheck ctorTable tuple_assocPairs = true := by decide +kernel

end QbiceVerif.TypeId
