import QbiceVerif.Lemmas.WriteBehindInv

/-! Program-counter invariants of the write-behind model and the store invariant. -/

namespace QbiceVerif.WB


/-- Store content = the physical commits applied in order. -/
def StoreInv (s : State) : Prop := s.store = commitStore Store.empty s.log.flatten

theorem storeInv_step (s : State) (ev : Event) (s' : State) (hi : StoreInv s) (hst : Step s ev s') :
    StoreInv s' := by
  unfold StoreInv at hi ⊢
  cases hst
  case cCommit => simp only [List.flatten_append, List.flatten_cons, List.flatten_nil, List.append_nil, commitStore_append, ← hi]
  case cLastCommit => simp only [List.flatten_append, List.flatten_cons, List.flatten_nil, List.append_nil, commitStore_append, ← hi]
  all_goals exact hi

/-- From `Inv`: every pending batch has an epoch not yet consumed. -/
theorem Inv.places_nodup {s : State} (hi : Inv s) : (s.places.map Task.epoch).Nodup := by
  have h := hi.conserve.map Prod.fst
  simp only [List.map_map] at h
  have e : (Prod.fst ∘ Task.core) = Task.epoch := rfl
  rw [e] at h
  exact h.nodup_iff.mpr hi.sub_nodup

theorem Inv.pending_ge {s : State} (hi : Inv s) : ∀ t ∈ s.pending, s.expected ≤ t.epoch := by
  intro t ht
  have hn := hi.places_nodup
  unfold State.places at hn
  rw [List.map_append, List.nodup_append] at hn
  rcases Nat.lt_or_ge t.epoch s.expected with hlt | hge
  case inr => exact hge
  have h1 : t.epoch ∈ s.consumed.map Task.epoch := by
    rw [hi.order]; exact List.mem_range.mpr hlt
  exact absurd rfl (hn.2.2 t.epoch (List.mem_map.mpr ⟨t, ht, rfl⟩) t.epoch h1)

theorem Inv.heap_ge {s : State} (hi : Inv s) : ∀ t ∈ s.heap, s.expected ≤ t.epoch := by
  intro t ht
  apply hi.pending_ge
  simp [State.pending, ht]

/-- Group C: once the commit channel was seen closed, all serializers are gone and the channel stays empty. -/
def PcC (s : State) : Prop := s.final = true → allExited s.sers = true ∧ s.commitQ = []

theorem pcC_step (s : State) (ev : Event) (s' : State) (hi : PcC s) (hst : Step s ev s') : PcC s' := by
  unfold PcC at hi ⊢
  cases hst
  case serTake w t q hc hw hq =>
    intro hf; have h := hi hf; have := allExited_get h.1 hw; cases this
  case serSerialise w buf t hc hw hp =>
    intro hf; have h := hi hf; have := allExited_get h.1 hw; cases this
  case serSend w t hc hw =>
    intro hf; have h := hi hf; have := allExited_get h.1 hw; cases this
  case serExit w hc hw hq hcl =>
    intro hf; have h := hi hf; have := allExited_get h.1 hw; cases this
  case cRecv t q hc hp hq =>
    intro hf; have h := hi hf; simp_all
  case cRecvClosed hc hp hq hx => intro _; exact ⟨hx, hq⟩
  all_goals exact hi

/-- Group D: program-counter facts of the commit worker. -/
structure PcD (s : State) : Prop where
  late_final : s.cpc.late = true → s.final = true
  wait_nf : s.cpc = .wait → s.final = false
  cur_empty : s.cpc.curEmpty = true → s.cur = []

theorem pcD_step (s : State) (ev : Event) (s' : State) (hi : PcD s) (hst : Step s ev s') : PcD s' := by
  obtain ⟨a1, a2, a3⟩ := hi
  cases hst
  case cBreak hc hp hm =>
    by_cases hf : s.final = true <;> constructor <;> simp_all [CPc.late, CPc.curEmpty]
  case cDecide more hc hp =>
    cases more <;> constructor <;> simp_all [CPc.late, CPc.curEmpty]
  all_goals (constructor <;> simp_all [CPc.late, CPc.curEmpty])


/-- Group E: after the commit worker left its loop, no held-back batch carries the expected epoch. -/
def PcE (s : State) : Prop := s.cpc.broke = true → ∀ t ∈ s.heap, t.epoch ≠ s.expected

theorem pcE_step (s : State) (ev : Event) (s' : State) (hinv : Inv s) (hi : PcE s) (hst : Step s ev s') :
    PcE s' := by
  unfold PcE at hi ⊢
  cases hst
  case cBreak hc hp hm =>
    intro _ t ht
    simp only at ht ⊢
    cases hmin : heapMin s.heap with
    | none => rw [heapMin_none.mp hmin] at ht; cases ht
    | some m =>
      have h1 := hm m hmin
      have h2 := heapMin_le hmin t ht
      have h3 := hinv.heap_ge m (heapMin_mem hmin)
      omega
  case cRecv => intro h; simp [CPc.broke] at h
  case cRecvClosed => intro h; simp [CPc.broke] at h
  case cPop => intro h; simp [CPc.broke] at h
  case cDecide more hc hp => intro h; cases more <;> simp [CPc.broke] at h
  case cCommit hc hp => intro h; simp [CPc.broke] at h
  case cLastCommit hc hp => simp_all [CPc.broke]
  case cNotifyEnd => intro h; simp [CPc.broke] at h
  case cNotifySkip => intro h; simp [CPc.broke] at h
  case cNotifySend => intro h; simp [CPc.broke] at h
  case cLastNotifyEnd => simp_all [CPc.broke]
  case cLastNotifySkip => simp_all [CPc.broke]
  case cLastNotifySend => simp_all [CPc.broke]
  case cAssertOk => intro h; simp [CPc.broke] at h
  all_goals exact hi

/-- Group F: the commit worker finishes only with an empty hold-back heap. -/
def PcF (s : State) : Prop := s.cpc = .done → s.heap = []

theorem pcF_step (s : State) (ev : Event) (s' : State) (hi : PcF s) (hst : Step s ev s') : PcF s' := by
  unfold PcF at hi ⊢
  cases hst <;> simp_all
  all_goals (split <;> simp_all)

/-- Group G: what the dropping thread has joined stays finished. -/
structure PcG (s : State) : Prop where
  joinS : s.dpc.sersJoined = true → allExited s.sers = true
  joinC : s.dpc.commitJoined = true → s.cpc = .done
  joinA : s.dpc = .returned → s.aExited = true

theorem pcG_step (s : State) (ev : Event) (s' : State) (hi : PcG s) (hst : Step s ev s') : PcG s' := by
  obtain ⟨a1, a2, a3⟩ := hi
  cases hst
  case serTake w t q hc hw hq =>
    refine ⟨?_, a2, a3⟩
    intro hd; have := allExited_get (a1 hd) hw; cases this
  case serSerialise w buf t hc hw hp =>
    refine ⟨?_, a2, a3⟩
    intro hd; have := allExited_get (a1 hd) hw; cases this
  case serSend w t hc hw =>
    refine ⟨?_, a2, a3⟩
    intro hd; have := allExited_get (a1 hd) hw; cases this
  case serExit w hc hw hq hcl =>
    refine ⟨?_, a2, a3⟩
    intro hd; have := allExited_get (a1 hd) hw; cases this
  case cBreak hc hp hm =>
    constructor <;> simp_all [DPc.sersJoined, DPc.commitJoined]
  case cDecide more hc hp =>
    constructor <;> simp_all [DPc.sersJoined, DPc.commitJoined]
  all_goals (constructor <;> simp_all [DPc.sersJoined, DPc.commitJoined])

end QbiceVerif.WB
