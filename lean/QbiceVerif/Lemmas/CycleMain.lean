/-
The main induction for the fresh-evaluation cycle model: from every state that satisfies the
invariant, `queryFor` with fuel `≥ #keys + 1 − depth` returns (no out-of-fuel, no deadlock, no panic),
re-establishes the invariant, and reports `cyclic` exactly when the caller has been marked.
-/
import QbiceVerif.Lemmas.CycleSteps3
namespace Qbice.Cycle

/-- executors ask only for keys of the program -/
inductive WFProg (n : Nat) : Prog → Prop
  | ret (v : Val) : WFProg n (.ret v)
  | ask (k : Key) (cont : Val → Prog) : k < n → (∀ v, WFProg n (cont v)) → WFProg n (.ask k cont)

def WFProgram (p : Program) : Prop := ∀ (k : Key) (nd : NodeDef), p[k]? = some nd → WFProg p.length nd.prog

/-- in a sequential run the caller is the query on top of the computing stack -/
def CallerOK : Option Key → List Frame → Prop
  | none, [] => True
  | some c, top :: _ => top.key = c
  | _, _ => False

structure Post (p : Program) (st : St) (k : Key) (r : QRes) (st' : St) : Prop where
  inv : Inv p st'
  memoExt : ∃ new, st'.memo = new ++ st.memo
  shapeEq : shape st'.stack = shape (regTop k st.stack)
  val : ∀ v, r = .value v → NoMarks st'.stack ∧ valOf st'.memo k = some v
  cyc : r = .cyclic → ∃ t rest, st'.stack = t :: rest ∧ t.inScc = true
  inv2 : Inv2 p st'

/-- the part of `queryFor` after `exit_scc` found that `k` is not computing -/
def afterExit (p : Program) (fuel : Nat) (k : Key) (caller : Option Key) (st : St) : R QRes :=
  match findDone k st.memo with
  | some d => .ok (finish caller d.val st, st)
  | none =>
    match p[k]? with
    | none => .error .badKey
    | some nd =>
      let st1 : St := { st with stack := { key := k, callees := [], inScc := false } :: st.stack }
      match runProg (fun k' s => queryFor p fuel k' (some k) s) nd.prog st1 with
      | .error e => .error e
      | .ok (ran, st2) =>
        match findFrame k st2.stack with
        | none => .error .panic
        | some f =>
          let v? : Option Val :=
            if f.inScc then some nd.dflt
            else match ran with
              | .done v => some v
              | .aborted => none
          match v? with
          | none => .error .panic
          | some v =>
            let st3 : St :=
              { stack := st2.stack.filter (fun g => g.key != k),
                memo := { key := k, val := v, marked := f.inScc, reads := f.callees } :: st2.memo }
            .ok (finish caller v st3, st3)

theorem queryFor_succ (p : Program) (fuel : Nat) (k : Key) (caller : Option Key) (st0 : St) :
    queryFor p (fuel + 1) k caller st0 =
      (let st : St := match caller with
        | some c => { st0 with stack := register c k st0.stack }
        | none => st0
       match findFrame k st.stack with
       | some _ =>
         match caller with
         | none => .error .deadlock
         | some c =>
           match checkCyclic (st.stack.length + 1) c st.stack k with
           | .error e => .error e
           | .ok (true, s') => .ok (.cyclic, { st with stack := markFrame c s' })
           | .ok (false, _) => .error .deadlock
       | none => afterExit p fuel k caller st) := by
  rfl

theorem noMarks_inSccOf {s : List Frame} (h : NoMarks s) (caller : Option Key) : inSccOf caller s = false := by
  cases caller with
  | none => rfl
  | some c =>
    simp only [inSccOf]
    cases hf : findFrame c s with
    | none => rfl
    | some f => exact h f (findFrame_some hf).1

theorem valOf_mem {m : List Done} {k : Key} {v : Val} (h : valOf m k = some v) : k ∈ mkeys m := by
  unfold valOf at h
  cases hf : findDone k m with
  | none => rw [hf] at h; simp at h
  | some d =>
    have := findDone_some hf
    rw [← this.2]; exact mem_mkeys_of_mem this.1

theorem shape_length {s s' : List Frame} (h : shape s = shape s') : s.length = s'.length := by
  have := congrArg List.length h
  simpa [shape] using this

theorem shape_cons_inv {s : List Frame} {f : Frame} {r : List Frame} (h : shape s = shape (f :: r)) :
    ∃ t r', s = t :: r' ∧ t.key = f.key ∧ t.callees = f.callees ∧ shape r' = shape r := by
  cases s with
  | nil => simp [shape] at h
  | cons t r' =>
    simp only [shape, List.map_cons, List.cons.injEq, Prod.mk.injEq] at h
    exact ⟨t, r', rfl, h.1.1, h.1.2, h.2⟩

theorem filter_head_key {t : Frame} {r : List Frame} (nd : (keys (t :: r)).Nodup) :
    (t :: r).filter (fun g => g.key != t.key) = r := by
  simp only [keys, List.map_cons, List.nodup_cons] at nd
  have : ∀ g ∈ r, (g.key != t.key) = true := by
    intro g hg
    simp only [bne_iff_ne, ne_eq]
    intro e
    exact nd.1 (by rw [← e]; exact List.mem_map_of_mem hg)
  simp only [List.filter_cons, bne_self_eq_false, Bool.false_eq_true, if_false]
  exact List.filter_eq_self.2 this

/-- the executor of `owner` (top of the stack), given the specification of the queries it makes -/
theorem runProg_spec (p : Program) (fuel : Nat) (owner : Key)
    (IH : ∀ k st, Inv p st → Inv2 p st → NoMarks st.stack → CallerOK (some owner) st.stack → k < p.length →
      (∀ top r, st.stack = top :: r → MayAsk (progOf p top.key) k) →
      (∀ top r, st.stack = top :: r → Reaches (valOf st.memo) (progOf p top.key) k) →
      p.length + 1 ≤ fuel + st.stack.length →
      ∃ r st', queryFor p fuel k (some owner) st = .ok (r, st') ∧ Post p st k r st') :
    ∀ prog, WFProg p.length prog → (∀ x, MayAsk prog x → MayAsk (progOf p owner) x) →
    ∀ st top rest, Inv p st → Inv2 p st → NoMarks st.stack → st.stack = top :: rest → top.key = owner →
      (∀ tbl : Key → Option Val, (∀ x v, valOf st.memo x = some v → tbl x = some v) →
        ∀ t, Reaches tbl prog t → Reaches tbl (progOf p owner) t) →
      p.length + 1 ≤ fuel + st.stack.length →
      ∃ ran st' top' rest' new,
        runProg (fun k' s => queryFor p fuel k' (some owner) s) prog st = .ok (ran, st') ∧
        Inv p st' ∧ Inv2 p st' ∧ st'.memo = new ++ st.memo ∧ st'.stack = top' :: rest' ∧ top'.key = owner ∧
        shape rest' = shape rest ∧ (∀ x ∈ top.callees, x ∈ top'.callees) ∧
        (∀ v, ran = .done v → NoMarks st'.stack ∧ evalWith (valOf st'.memo) prog = some v ∧
            ∀ x ∈ asksWith (valOf st'.memo) prog, x ∈ top'.callees) ∧
        (ran = .aborted → top'.inScc = true) := by
  intro prog wf
  induction wf with
  | ret v =>
    intro _ st top rest hinv hinv2 nm hs hk _ _
    refine ⟨.done v, st, top, rest, [], rfl, hinv, hinv2, rfl, hs, hk, rfl, fun x hx => hx, ?_, ?_⟩
    · intro v' hv
      injection hv with hv; subst hv
      exact ⟨nm, rfl, by simp [asksWith]⟩
    · intro h; cases h
  | ask k cont hk _ ih =>
    intro hsub st top rest hinv hinv2 nm hs htk hres hfuel
    have hco : CallerOK (some owner) st.stack := by rw [hs]; exact htk
    have hask : ∀ t r, st.stack = t :: r → MayAsk (progOf p t.key) k := by
      intro t r hs'
      rw [hs] at hs'
      injection hs' with h1 _
      rw [← h1, htk]
      exact hsub k (.here k cont)
    have hreach : ∀ t r, st.stack = t :: r → Reaches (valOf st.memo) (progOf p t.key) k := by
      intro t r hs'
      rw [hs] at hs'
      injection hs' with h1 _
      rw [← h1, htk]
      exact hres (valOf st.memo) (fun _ _ h => h) k (.here k cont)
    obtain ⟨r, st1, hq, post⟩ := IH k st hinv hinv2 nm hco hk hask hreach hfuel
    have hsh := post.shapeEq
    rw [hs] at hsh
    obtain ⟨t1, r1, hs1, ht1k, ht1c, hr1⟩ := shape_cons_inv hsh
    simp only at ht1k ht1c
    obtain ⟨new1, hnew1⟩ := post.memoExt
    cases r with
    | cyclic =>
      obtain ⟨t, rr, hst, htm⟩ := post.cyc rfl
      rw [hs1] at hst
      injection hst with h1 h2
      refine ⟨.aborted, st1, t1, r1, new1, ?_, post.inv, post.inv2, hnew1, hs1, ht1k.trans htk, hr1, ?_, ?_, ?_⟩
      · simp only [runProg, hq]
      · intro x hx; rw [ht1c]; exact mem_addCallee.2 (Or.inl hx)
      · intro v hv; cases hv
      · intro _; rw [h1]; exact htm
    | value v =>
      obtain ⟨nm1, hval⟩ := post.val v rfl
      have hlen : st1.stack.length = st.stack.length := by
        rw [hs1, hs]
        simp only [List.length_cons]
        rw [shape_length hr1]
      have hsub' : ∀ x, MayAsk (cont v) x → MayAsk (progOf p owner) x :=
        fun x hx => hsub x (.there k cont v x hx)
      have hres' : ∀ tbl : Key → Option Val, (∀ x w, valOf st1.memo x = some w → tbl x = some w) →
          ∀ t, Reaches tbl (cont v) t → Reaches tbl (progOf p owner) t := by
        intro tbl hext t rr
        refine hres tbl ?_ t (.step k cont v t (hext k v hval) rr)
        intro x w hx
        apply hext
        rw [hnew1, valOf_append_of_mem (by rw [← hnew1]; exact post.inv.nodup_mkeys) (valOf_mem hx)]
        exact hx
      obtain ⟨ran, st2, top2, rest2, new2, hrun, hinv2, hinv22, hnew2, hs2, ht2k, hr2, hcal2, hdone, habort⟩ :=
        ih v hsub' st1 t1 r1 post.inv post.inv2 nm1 hs1 (ht1k.trans htk) hres' (by rw [hlen]; exact hfuel)
      refine ⟨ran, st2, top2, rest2, new2 ++ new1, ?_, hinv2, hinv22, ?_, hs2, ht2k, hr2.trans hr1, ?_, ?_, habort⟩
      · simp only [runProg, hq, hrun]
      · rw [hnew2, hnew1, List.append_assoc]
      · intro x hx
        apply hcal2
        rw [ht1c]; exact mem_addCallee.2 (Or.inl hx)
      · intro v' hv'
        obtain ⟨nm2, hev, hasks⟩ := hdone v' hv'
        have hk2 : valOf st2.memo k = some v := by
          rw [hnew2, valOf_append_of_mem (by rw [← hnew2]; exact hinv2.nodup_mkeys) (valOf_mem hval)]
          exact hval
        refine ⟨nm2, ?_, ?_⟩
        · simp only [evalWith, hk2]; exact hev
        · intro x hx
          simp only [asksWith, hk2, List.mem_cons] at hx
          rcases hx with rfl | hx
          · apply hcal2
            rw [ht1c]; exact mem_addCallee.2 (Or.inr rfl)
          · exact hasks x hx

end Qbice.Cycle
