/-
Lemmas about the extended core engine model, part 13: several rounds in one epoch (C03).
-/
import QbiceVerif.Lemmas.EngineCoreFwEx
namespace Qbice.CoreFw
open Qbice.Core (Prog Err Write SetRes Op OpOut Ref Sat)

/-- several tracked engines one after the other, without a session in between -/
def runRounds (p : Program) : List (List Key) → St → Except Err (List (List Val) × St)
  | [], s => .ok ([], s)
  | ks :: rest, s =>
    match round p (fuelFor p) ks s with
    | .error e => .error e
    | .ok (vs, s1) =>
      match runRounds p rest s1 with
      | .error e => .error e
      | .ok (outs, s2) => .ok (vs :: outs, s2)

theorem runRounds_spec {p : Program} (wf : WF p) (sh : Shape p) :
    ∀ (kss : List (List Key)) (s : St), Inv p s →
      Sat (runRounds p kss s) (fun r =>
        r.1.map (fun vs => vs.map some) = kss.map (fun ks => ks.map (cur p s)) ∧
          Inv p r.2 ∧ Frame p s r.2) := by
  intro kss
  induction kss with
  | nil => intro s inv; exact ⟨rfl, inv, Frame.refl p s⟩
  | cons ks rest ih =>
    intro s inv
    simp only [runRounds]
    have hrd := round_spec wf sh inv ks
    cases hs : round p (fuelFor p) ks s with
    | error e => rw [hs] at hrd; simpa [Sat] using hrd
    | ok r =>
      obtain ⟨vs, s1⟩ := r
      rw [hs] at hrd
      obtain ⟨h1, i1, f1⟩ := hrd
      simp only at h1 i1 f1 ⊢
      have hrest := ih s1 i1
      cases hr : runRounds p rest s1 with
      | error e => rw [hr] at hrest; simpa [Sat] using hrest
      | ok r2 =>
        obtain ⟨outs, s2⟩ := r2
        rw [hr] at hrest
        obtain ⟨o2, i2, f2⟩ := hrest
        simp only at o2 i2 f2
        refine ⟨?_, i2, f1.trans f2⟩
        simp only [List.map_cons, h1, o2, f1.cur]

/-- a verified key is answered from its node; the state does not change -/
theorem query_verified {p : Program} {s : St} {k : Key} {n : Node} (hn : s.nodes k = some n)
    (hv : n.lastVerified = s.epoch) (fuel : Nat) :
    query p (fuel + 1) .user k s = .ok (n.value, s) := by
  simp [query, queryU, repairTfc, queryQ, hn, hv]

end Qbice.CoreFw
