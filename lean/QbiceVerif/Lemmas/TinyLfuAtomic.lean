/-
The atomicity the lock-table part of C16 relies on: "the pin question and the removal of an
eviction attempt are ONE atomic step with respect to `get`" (`remove_closure` of tiny_lfu.rs asks
`is_pinned` and removes under one write lock of the bucket).  The sequential model has this
implicitly (`removeClosure` is one function); here it is made explicit by a small transition system
for ONE key of the lock table, in which the eviction attempt is either one event (`evict`) or two
(`check`, then `remove`), interleaved with `acquire` / `release` of other tasks:
* with the atomic event only, any interleaving keeps "all live references are the stored instance";
* with the split events there is a 6-event interleaving after which two live references point at
  two different lock instances (kernel-checked witness).
-/
import QbiceVerif.Model.TinyLfu

namespace QbiceVerif.TinyLfu.Atomic

/-- one key of the lock table -/
structure S where
  /-- the lock instance the table stores for the key -/
  stored : Option Nat := none
  /-- live references held by tasks (`Arc` clones outside the table) -/
  refs : List Nat := []
  /-- the next fresh instance -/
  next : Nat := 0
  /-- split mode only: maintenance has asked `is_pinned` about this instance, got "not pinned", and has
  not removed yet -/
  polled : Option Nat := none
  deriving DecidableEq, Repr

inductive Ev
  /-- `get_lock_instance`: `get` hit → clone the stored instance; miss → insert a fresh one -/
  | acquire
  /-- a task drops one reference to instance `id` -/
  | release (id : Nat)
  /-- `remove_closure`: ask and remove under one bucket write lock -/
  | evict
  /-- first half of a split eviction attempt: `read_sync(is_pinned)` -/
  | check
  /-- second half: `remove_sync(key)`, without asking again -/
  | remove
  deriving DecidableEq, Repr

def fire (s : S) : Ev → S
  | .acquire =>
    match s.stored with
    | some id => { s with refs := id :: s.refs }
    | none => { s with stored := some s.next, refs := s.next :: s.refs, next := s.next + 1 }
  | .release id => { s with refs := s.refs.erase id }
  | .evict =>
    match s.stored with
    | some id => if s.refs.contains id then s else { s with stored := none }
    | none => s
  | .check =>
    match s.stored with
    | some id => if s.refs.contains id then s else { s with polled := some id }
    | none => s
  | .remove =>
    match s.polled with
    | some _ => { s with stored := none, polled := none }
    | none => s

def run (s : S) : List Ev → S
  | [] => s
  | e :: es => run (fire s e) es

/-- two tasks asking for the lock of the key contend on the same lock: all live references agree -/
def SameLock (s : S) : Prop := ∀ a, a ∈ s.refs → ∀ b, b ∈ s.refs → a = b

/-- every live reference is the stored instance -/
def Inv (s : S) : Prop := ∀ id, id ∈ s.refs → s.stored = some id

theorem Inv.sameLock {s : S} (h : Inv s) : SameLock s := by
  intro a ha b hb
  have h1 := h a ha; have h2 := h b hb
  rw [h1] at h2; cases h2; rfl

theorem fire_inv {s : S} {e : Ev} (he : e ≠ .check ∧ e ≠ .remove) (h : Inv s) : Inv (fire s e) := by
  cases e with
  | acquire =>
    simp only [fire]
    split
    · rename_i id hs
      intro i hi
      simp only [List.mem_cons] at hi
      rcases hi with rfl | hi
      · exact hs
      · exact h i hi
    · rename_i hs
      intro i hi
      simp only [List.mem_cons] at hi
      rcases hi with rfl | hi
      · rfl
      · have := h i hi; rw [hs] at this; cases this
  | release id => intro i hi; exact h i (List.mem_of_mem_erase hi)
  | evict =>
    simp only [fire]
    split
    · rename_i id hs
      split
      · exact h
      · rename_i hc
        intro i hi
        have := h i hi; rw [hs] at this; cases this
        simp at hc; exact absurd hi hc
    · exact h
  | check => exact absurd rfl he.1
  | remove => exact absurd rfl he.2

/-- ATOMIC eviction attempts: for every interleaving of acquisitions, releases and eviction attempts,
all live references are the one stored instance. -/
theorem same_lock_atomic (evs : List Ev) (hev : ∀ e, e ∈ evs → e ≠ .check ∧ e ≠ .remove) :
    Inv (run {} evs) ∧ SameLock (run {} evs) := by
  have key : ∀ (evs : List Ev) (s : S), (∀ e, e ∈ evs → e ≠ .check ∧ e ≠ .remove) → Inv s → Inv (run s evs) := by
    intro evs
    induction evs with
    | nil => intro s _ h; exact h
    | cons e es ih =>
      intro s hev h
      exact ih (fire s e) (fun e' he' => hev e' (List.mem_cons_of_mem _ he')) (fire_inv (hev e (by simp)) h)
  have := key evs {} hev (by intro id hid; simp at hid)
  exact ⟨this, this.sameLock⟩

/-- the interleaving of the seeded defect: task A takes and drops the lock; maintenance asks ("not
pinned"); task B looks the lock up (pinning it); maintenance removes; task A asks again -/
def splitWitness : List Ev := [.acquire, .release 0, .check, .acquire, .remove, .acquire]

/-- SPLIT eviction attempt (`read_sync(is_pinned)` then `remove_sync`): after `splitWitness` two live
references point at two different lock instances. -/
theorem same_lock_fails_when_split : (run {} splitWitness).refs = [1, 0] ∧ ¬ SameLock (run {} splitWitness) := by
  refine ⟨by decide, ?_⟩
  intro h
  have : (run {} splitWitness).refs = [1, 0] := by decide
  have := h 1 (by rw [this]; simp) 0 (by rw [this]; simp)
  cases this

end QbiceVerif.TinyLfu.Atomic
