/-
Lemmas about the composite key scheme (`Model/KvKey.lean`): prefix-free codes, the length-prefixed
set key, the exclusive upper bound of a prefix scan.
-/
import QbiceVerif.Model.KvKey

namespace QbiceVerif.Kv

/-- A code is prefix-free when no codeword is a prefix of the codeword of a different value
(what a self-delimiting serializer gives; C12 proves it for the codec). -/
def PrefixFree {α : Type} (enc : α → Bytes) : Prop := ∀ a b, enc a <+: enc b → a = b

theorem PrefixFree.injective {α : Type} {enc : α → Bytes} (h : PrefixFree enc) :
    ∀ a b, enc a = enc b → a = b :=
  fun a b e => h a b (e ▸ List.prefix_refl _)

/-! ### concatenation of codes -/

theorem concat_inj_aux {α : Type} {f : α → Bytes} (hf : PrefixFree f)
    {a a' : α} {x y : Bytes} (h : f a ++ x = f a' ++ y) : a = a' := by
  rcases List.append_eq_append_iff.mp h with ⟨c, hc, _⟩ | ⟨c, hc, _⟩
  · exact hf a a' ⟨c, hc.symm⟩
  · exact (hf a' a ⟨c, hc.symm⟩).symm

theorem prefixFree_concat_inj {α β : Type} {f : α → Bytes} {g : β → Bytes} (hf : PrefixFree f)
    (hg : ∀ b b', g b = g b' → b = b') {a a' : α} {b b' : β}
    (h : f a ++ g b = f a' ++ g b') : a = a' ∧ b = b' := by
  have ha : a = a' := concat_inj_aux hf h
  subst ha
  exact ⟨rfl, hg _ _ (List.append_cancel_left h)⟩

theorem prefixFree_concat {α β : Type} {f : α → Bytes} {g : β → Bytes} (hf : PrefixFree f)
    (hg : PrefixFree g) : PrefixFree (fun p : α × β => f p.1 ++ g p.2) := by
  rintro ⟨a, b⟩ ⟨a', b'⟩ ⟨t, ht⟩
  simp only [List.append_assoc] at ht
  have ha : a = a' := concat_inj_aux hf ht
  subst ha
  have hb : b = b' := hg b b' ⟨t, List.append_cancel_left ht⟩
  subst hb
  rfl

/-! ### Fjall's padding of an empty key encoding -/

theorem pad_ne_nil (bs : Bytes) : pad bs ≠ [] := by
  unfold pad
  cases bs <;> simp

theorem prefixFree_pad {α : Type} {enc : α → Bytes} (h : PrefixFree enc) :
    PrefixFree (fun a => pad (enc a)) := by
  intro a b hp
  simp only [pad] at hp
  by_cases ha : enc a = []
  · exact h a b (ha ▸ List.nil_prefix)
  · by_cases hb : enc b = []
    · exact (h b a (hb ▸ List.nil_prefix)).symm
    · have ea : (enc a).isEmpty = false := by cases h' : enc a <;> simp_all
      have eb : (enc b).isEmpty = false := by cases h' : enc b <;> simp_all
      simp only [ea, eb] at hp
      exact h a b hp

/-- the key part of a wide-column key (`padKey` = Fjall) is still a prefix-free code -/
theorem prefixFree_keyPart {α : Type} {enc : α → Bytes} (h : PrefixFree enc) (padKey : Bool) :
    PrefixFree (fun a => if padKey then pad (enc a) else enc a) := by
  cases padKey
  · simpa using h
  · simpa using prefixFree_pad h

/-! ### little-endian length field -/

theorem leBytes_length (w n : Nat) : (leBytes w n).length = w := by
  induction w generalizing n with
  | zero => rfl
  | succ w ih => simp [leBytes, ih]

theorem fromLe_leBytes (w n : Nat) : fromLe (leBytes w n) = n % 256 ^ w := by
  induction w generalizing n with
  | zero => simp [leBytes, fromLe, Nat.mod_one]
  | succ w ih =>
    simp only [leBytes, fromLe, ih]
    have h1 : (UInt8.ofNat (n % 256)).toNat = n % 256 := by
      simp [UInt8.toNat_ofNat']
    rw [h1, Nat.pow_succ', Nat.mod_mul]

theorem le64_length (n : Nat) : (le64 n).length = 8 := leBytes_length 8 _

theorem fromLe_le64 (n : Nat) : fromLe (le64 n) = n % 2 ^ 64 := by
  unfold le64
  rw [fromLe_leBytes]
  have : (256 : Nat) ^ 8 = 2 ^ 64 := by decide
  rw [this, Nat.mod_mod]

theorem le64_inj {n m : Nat} (hn : n < 2 ^ 64) (hm : m < 2 ^ 64) (h : le64 n = le64 m) : n = m := by
  have := congrArg fromLe h
  rwa [fromLe_le64, fromLe_le64, Nat.mod_eq_of_lt hn, Nat.mod_eq_of_lt hm] at this

/-! ### list helpers -/

theorem prefix_append_of_length_eq {a b c d : Bytes} (hl : a.length = c.length)
    (h : a ++ b <+: c ++ d) : a = c ∧ b <+: d := by
  obtain ⟨t, ht⟩ := h
  rw [List.append_assoc] at ht
  have := List.append_inj ht hl
  exact ⟨this.1, ⟨t, this.2⟩⟩

theorem eq_of_prefix_append_of_length_eq {a b c : Bytes} (hl : a.length = b.length)
    (h : a <+: b ++ c) : a = b := by
  obtain ⟨t, ht⟩ := h
  exact (List.append_inj ht hl).1

/-! ### set prefix / member key -/

theorem setPrefix_length (k : Bytes) : (setPrefix k).length = 8 + k.length := by
  simp [setPrefix, le64_length]

theorem take8_setKey (k e : Bytes) : (setKey k e).take 8 = le64 k.length := by
  unfold setKey setPrefix
  rw [List.append_assoc, List.take_append_of_le_length (by simp [le64_length])]
  rw [List.take_of_length_le (by simp [le64_length])]

/-- `ScanMembersIterator::next` recovers exactly the element bytes of a stored member key. -/
theorem splitMember_setKey (k e : Bytes) (hk : k.length < 2 ^ 64) :
    splitMember (setKey k e) = some e := by
  have hlen : (setKey k e).length = 8 + k.length + e.length := by
    simp [setKey, setPrefix_length]
  unfold splitMember
  rw [take8_setKey, fromLe_le64, Nat.mod_eq_of_lt hk]
  have h1 : ¬ (setKey k e).length < 8 := by omega
  have h2 : ¬ (setKey k e).length < 8 + k.length := by omega
  simp only [h1, h2, if_false]
  congr 1
  unfold setKey
  rw [List.drop_append_of_le_length (by simp [setPrefix_length])]
  rw [List.drop_of_length_le (by simp [setPrefix_length])]
  rfl

/-- RocksDB's prefix extractor maps every member key to the prefix of its set. -/
theorem transformKey_setKey (k e : Bytes) (hk : k.length < 2 ^ 64) :
    transformKey (setKey k e) = setPrefix k := by
  have hlen : (setKey k e).length = 8 + k.length + e.length := by
    simp [setKey, setPrefix_length]
  unfold transformKey
  rw [take8_setKey, fromLe_le64, Nat.mod_eq_of_lt hk]
  have h1 : ¬ (setKey k e).length < 8 := by omega
  have h2 : ¬ (setKey k e).length < 8 + k.length := by omega
  simp only [h1, h2, if_false]
  unfold setKey
  rw [List.take_append_of_le_length (by simp [setPrefix_length])]
  rw [List.take_of_length_le (by simp [setPrefix_length])]

/-- the prefix extractor is idempotent on set prefixes (the seek key of a scan) -/
theorem transformKey_setPrefix (k : Bytes) (hk : k.length < 2 ^ 64) :
    transformKey (setPrefix k) = setPrefix k := by
  have := transformKey_setKey k [] hk
  simpa [setKey] using this

/-- A member key of `k` starts with the set prefix of `k'` iff the two encoded keys are EQUAL —
no matter whether one is a prefix or an extension of the other, or empty. -/
theorem setPrefix_prefix_setKey_iff (k k' e : Bytes) (hk : k.length < 2 ^ 64)
    (hk' : k'.length < 2 ^ 64) : setPrefix k' <+: setKey k e ↔ k' = k := by
  constructor
  · intro h
    unfold setKey setPrefix at h
    rw [List.append_assoc] at h
    obtain ⟨h1, h2⟩ := prefix_append_of_length_eq (by simp [le64_length]) h
    have hl : k'.length = k.length := le64_inj hk' hk h1
    exact eq_of_prefix_append_of_length_eq hl h2
  · rintro rfl
    exact List.prefix_append _ _

theorem setKey_inj_bytes {k k' e e' : Bytes} (hk : k.length < 2 ^ 64) (hk' : k'.length < 2 ^ 64)
    (h : setKey k e = setKey k' e') : k = k' ∧ e = e' := by
  have hp : setPrefix k <+: setKey k' e' := h ▸ List.prefix_append _ _
  have hkk : k = k' := (setPrefix_prefix_setKey_iff k' k e' hk' hk).mp hp
  subst hkk
  exact ⟨rfl, List.append_cancel_left h⟩

/-! ### the exclusive upper bound of a prefix -/

theorem u8_not_lt_ff {b : UInt8} : ¬ b < 0xFF ↔ b = 0xFF := by
  constructor
  · intro h
    have h1 : b.toNat < 256 := b.toNat_lt
    have h2 : ¬ b.toNat < 255 := fun hh => h (UInt8.lt_iff_toNat_lt.mpr (by simpa using hh))
    apply UInt8.toNat_inj.mp
    have : (0xFF : UInt8).toNat = 255 := by decide
    omega
  · rintro rfl
    decide

theorem u8_lt_succ_iff {b h : UInt8} (hb : b < 0xFF) : h < b + 1 ↔ (h < b ∨ h = b) := by
  have hb' : b.toNat < 255 := by
    have := UInt8.lt_iff_toNat_lt.mp hb
    simpa using this
  have h1 : (b + 1).toNat = b.toNat + 1 := by
    rw [UInt8.toNat_add]
    have : (1 : UInt8).toNat = 1 := by decide
    rw [this]
    omega
  rw [UInt8.lt_iff_toNat_lt, UInt8.lt_iff_toNat_lt, h1, ← UInt8.toNat_inj]
  omega

theorem u8_lt_irrefl' {a b : UInt8} (h : a < b) : a ≠ b := by
  intro e
  subst e
  exact absurd h (UInt8.lt_irrefl _)

theorem u8_lt_asymm' {a b : UInt8} (h : a < b) : ¬ b < a := by
  rw [UInt8.lt_iff_toNat_lt] at *
  omega

theorem u8_ff_max (h : UInt8) : ¬ (0xFF : UInt8) < h := by
  rw [UInt8.lt_iff_toNat_lt]
  have : (0xFF : UInt8).toNat = 255 := by decide
  have := h.toNat_lt
  omega

theorem allFF_cons (b : UInt8) (p : Bytes) : allFF (b :: p) = (b == 0xFF && allFF p) := by
  simp [allFF]

theorem ubRev_append (xs ys : Bytes) :
    ubRev (xs ++ ys) = if allFF xs then ubRev ys else ubRev xs ++ ys := by
  induction xs with
  | nil => simp [allFF]
  | cons x xs ih =>
    by_cases hx : x < 0xFF
    · have hne : x ≠ 0xFF := fun e => (u8_not_lt_ff.mpr e) hx
      simp [ubRev, hx, allFF_cons, hne]
    · have he : x = 0xFF := u8_not_lt_ff.mp hx
      subst he
      simp only [List.cons_append, ubRev, allFF_cons, ih]
      simp

/-- head-first characterisation of `prefix_upper_bound` -/
theorem prefixUpperBound_cons (b : UInt8) (rest : Bytes) :
    prefixUpperBound (b :: rest) =
      if allFF rest then (if b < 0xFF then [b + 1] else []) else b :: prefixUpperBound rest := by
  unfold prefixUpperBound
  rw [List.reverse_cons, ubRev_append]
  have hr : allFF rest.reverse = allFF rest := by simp [allFF]
  rw [hr]
  by_cases h : allFF rest = true
  · simp only [h, if_true]
    by_cases hb : b < 0xFF <;> simp [ubRev, hb]
  · simp [h]

/-- for an all-0xFF string, being ≥ it means extending it -/
theorem leB_allFF_iff (p t : Bytes) (hp : allFF p = true) : leB p t = true ↔ p <+: t := by
  induction p generalizing t with
  | nil => simp [leB]
  | cons b p ih =>
    rw [allFF_cons] at hp
    simp only [Bool.and_eq_true, beq_iff_eq] at hp
    obtain ⟨rfl, hp⟩ := hp
    cases t with
    | nil => simp [leB]
    | cons h t =>
      simp only [leB, Bool.or_eq_true, decide_eq_true_eq, Bool.and_eq_true, beq_iff_eq,
        List.cons_prefix_cons, ih t hp]
      constructor
      · rintro (hlt | ⟨e, hp⟩)
        · exact absurd hlt (u8_ff_max h)
        · exact ⟨e, hp⟩
      · rintro ⟨e, hp⟩
        exact Or.inr ⟨e, hp⟩

/-- `upper_bound_exact`: the half-open range `[p, prefixUpperBound p)` of the bytewise order is
exactly the set of byte strings that start with `p` — for every `p` that is not all 0xFF. -/
theorem upper_bound_exact_aux (p s : Bytes) (hp : allFF p = false) :
    (leB p s = true ∧ ltB s (prefixUpperBound p) = true) ↔ p <+: s := by
  induction p generalizing s with
  | nil => simp [allFF] at hp
  | cons b rest ih =>
    rw [prefixUpperBound_cons]
    by_cases hr : allFF rest = true
    · -- the rest is all 0xFF, so `b` is the byte that gets incremented
      have hb : b < 0xFF := by
        apply Classical.byContradiction
        intro hnb
        have := u8_not_lt_ff.mp hnb
        subst this
        simp [allFF_cons, hr] at hp
      simp only [hr, hb, if_true]
      cases s with
      | nil => simp [leB, ltB]
      | cons h t =>
        simp only [leB, ltB, Bool.or_eq_true, decide_eq_true_eq, Bool.and_eq_true, beq_iff_eq,
          List.cons_prefix_cons, leB_allFF_iff rest t hr, u8_lt_succ_iff hb]
        constructor
        · rintro ⟨hle, hlt⟩
          rcases hle with hbh | ⟨rfl, hpre⟩
          · rcases hlt with (hhb | rfl) | ⟨_, hf⟩
            · exact absurd hhb (u8_lt_asymm' hbh)
            · exact absurd hbh (UInt8.lt_irrefl _)
            · simp at hf
          · exact ⟨rfl, hpre⟩
        · rintro ⟨rfl, hpre⟩
          exact ⟨Or.inr ⟨rfl, hpre⟩, Or.inl (Or.inr rfl)⟩
    · have hr' : allFF rest = false := by simpa using hr
      simp only [hr', Bool.false_eq_true, if_false]
      cases s with
      | nil => simp [leB, ltB]
      | cons h t =>
        simp only [leB, ltB, Bool.or_eq_true, decide_eq_true_eq, Bool.and_eq_true, beq_iff_eq,
          List.cons_prefix_cons, ← ih t hr']
        constructor
        · rintro ⟨hle, hlt⟩
          rcases hle with hbh | ⟨rfl, hle⟩
          · rcases hlt with hhb | ⟨rfl, _⟩
            · exact absurd hhb (u8_lt_asymm' hbh)
            · exact absurd hbh (UInt8.lt_irrefl _)
          · rcases hlt with hhb | ⟨_, hlt⟩
            · exact absurd hhb (UInt8.lt_irrefl _)
            · exact ⟨rfl, hle, hlt⟩
        · rintro ⟨rfl, hle, hlt⟩
          exact ⟨Or.inr ⟨rfl, hle⟩, Or.inr ⟨rfl, hlt⟩⟩

/-- the all-0xFF case: the code returns the empty vector, which as an exclusive upper bound
excludes every key -/
theorem prefixUpperBound_allFF (p : Bytes) (hp : allFF p = true) : prefixUpperBound p = [] := by
  induction p with
  | nil => rfl
  | cons b rest ih =>
    rw [allFF_cons] at hp
    simp only [Bool.and_eq_true, beq_iff_eq] at hp
    obtain ⟨rfl, hr⟩ := hp
    rw [prefixUpperBound_cons]
    simp [hr]

theorem ltB_nil (s : Bytes) : ltB s [] = false := by cases s <;> rfl

/-- the 8-byte length field of a real set prefix always contains a byte that is not 0xFF -/
theorem le64_not_allFF (n : Nat) (hn : n < 2 ^ 64 - 1) : allFF (le64 n) = false := by
  apply Classical.byContradiction
  intro h
  have h' : allFF (le64 n) = true := by simpa using h
  -- all eight bytes 0xFF means the value is 2^64 - 1
  have hv : fromLe (le64 n) = n := by rw [fromLe_le64]; exact Nat.mod_eq_of_lt (by omega)
  have hall : ∀ (l : Bytes), allFF l = true → fromLe l = 256 ^ l.length - 1 := by
    intro l
    induction l with
    | nil => intro _; rfl
    | cons b l ih =>
      intro hl
      rw [allFF_cons] at hl
      simp only [Bool.and_eq_true, beq_iff_eq] at hl
      obtain ⟨rfl, hl⟩ := hl
      have hb : (0xFF : UInt8).toNat = 255 := by decide
      simp only [fromLe, ih hl, hb, List.length_cons, Nat.pow_succ]
      have : 0 < 256 ^ l.length := Nat.pow_pos (by decide)
      omega
  have := hall _ h'
  rw [hv, le64_length] at this
  have e : (256 : Nat) ^ 8 = 2 ^ 64 := by decide
  omega

theorem allFF_append (a b : Bytes) : allFF (a ++ b) = (allFF a && allFF b) := by
  simp [allFF]

theorem setPrefix_not_allFF (k : Bytes) (hk : k.length < 2 ^ 64 - 1) :
    allFF (setPrefix k) = false := by
  unfold setPrefix
  rw [allFF_append, le64_not_allFF _ hk]
  rfl

/-! ### `ltB` / `leB` are the standard lexicographic order of `List` -/

theorem ltB_iff_lt (a b : Bytes) : ltB a b = true ↔ a < b := by
  induction a generalizing b with
  | nil =>
    cases b with
    | nil => simp [ltB]
    | cons y ys => simp [ltB]
  | cons x xs ih =>
    cases b with
    | nil => simp [ltB]
    | cons y ys =>
      simp only [ltB, Bool.or_eq_true, decide_eq_true_eq, Bool.and_eq_true, beq_iff_eq, ih ys,
        List.cons_lt_cons_iff]

theorem leB_iff_le (a b : Bytes) : leB a b = true ↔ a ≤ b := by
  induction a generalizing b with
  | nil =>
    cases b with
    | nil => simp [leB]
    | cons y ys => simp [leB]
  | cons x xs ih =>
    cases b with
    | nil => simp [leB]
    | cons y ys =>
      simp only [leB, Bool.or_eq_true, decide_eq_true_eq, Bool.and_eq_true, beq_iff_eq, ih ys,
        List.cons_le_cons_iff]

end QbiceVerif.Kv
