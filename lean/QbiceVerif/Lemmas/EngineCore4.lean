/-
Lemmas about the core engine model, part 4: input sessions (writes, refresh, dirty propagation).
-/
import QbiceVerif.Lemmas.EngineCore3
namespace Qbice.Core

/-- reference semantics of the writes of a session on the committed inputs -/
def applyWrites : List Write → (Key → Option Val) → (Key → Option Val)
  | [], i => i
  | .set k v :: rest, i => applyWrites rest (fun x => if x = k then some v else i x)
  | .refresh :: rest, i => applyWrites rest i
  | .world _ _ :: rest, i => applyWrites rest i

/-- reference results of the writes: by presence / equality of the previous value -/
def writeResults : List Write → (Key → Option Val) → List SetRes
  | [], _ => []
  | .set k v :: rest, i =>
    (match i k with
      | none => SetRes.fresh
      | some w => if w ≠ v then SetRes.updated else SetRes.unchanged) ::
      writeResults rest (fun x => if x = k then some v else i x)
  | .refresh :: rest, i => .refreshed :: writeResults rest i
  | .world _ _ :: rest, i => .world :: writeResults rest i

/-- reference semantics of one `refresh` on the pinned external values: every external key computed
    so far takes the value of its executor on the world `w` -/
def refreshed (p : Program) (w : Key → Val) (e : Key → Option Val) (k : Key) : Option Val :=
  match e k, p[k]? with
  | some _, some d => some (d.ext w)
  | o, _ => o

/-- reference semantics of the writes of a session on the pinned external values (`w` = the world
    after the world writes of the session) -/
def applyRefresh (p : Program) (w : Key → Val) : List Write → (Key → Option Val) → (Key → Option Val)
  | [], e => e
  | .refresh :: rest, e => applyRefresh p w rest (refreshed p w e)
  | .set _ _ :: rest, e => applyRefresh p w rest e
  | .world _ _ :: rest, e => applyRefresh p w rest e

/-- the commit step of a session: dirty propagation from the changed inputs -/
def markDirty (p : Program) (s1 : St) (changed : List Key) : St :=
  { s1 with dirty := fun c x => s1.dirty c x ||
      ((match s1.nodes c with
        | some n => n.deps.any (fun e => e.1 == x)
        | none => false) && affected s1 changed (p.length + 1) x) }

/-- the state in which the writes of a session start -/
def sessionStart (ws : List Write) (s : St) : St :=
  { s with epoch := s.epoch + 1, world := applyWorld ws s.world }

theorem session_eq (p : Program) (ws : List Write) (s : St) :
    session p ws s =
      match applySets p ws (sessionStart ws s) [] [] with
      | .error e => .error e
      | .ok (s1, rs, changed) => .ok (rs, markDirty p s1 changed) := rfl

/-- relation between the state at the start of the writes and during/after them -/
def SetRel (p : Program) (s0 s : St) (ch : List Key) : Prop :=
  s.epoch = s0.epoch ∧ s.dirty = s0.dirty ∧ s.world = s0.world ∧
  (∃ l, s.log = s0.log ++ l ∧ ∀ x, x ∈ l → ∃ n, s0.nodes x = some n ∧ n.kind = .external) ∧
  ∀ x, s.nodes x = s0.nodes x ∨
    ∃ n', s.nodes x = some n' ∧ n'.kind ≠ .normal ∧ n'.deps = [] ∧ n'.lastVerified = s0.epoch ∧
      (∃ d, p[x]? = some d ∧ d.kind = n'.kind) ∧
      (n'.kind = .external → ∃ n, s0.nodes x = some n ∧ n.kind = .external) ∧
      (s0.nodes x = none ∨ x ∈ ch ∨ ∃ n, s0.nodes x = some n ∧ n.value = n'.value)

theorem SetRel.refl (p : Program) (s : St) : SetRel p s s [] :=
  ⟨rfl, rfl, rfl, ⟨[], by simp, fun _ h => (by cases h)⟩, fun _ => Or.inl rfl⟩

theorem mem_ite_append {x k : Key} {ch : List Key} (c : Prop) [Decidable c] (h : x ∈ ch) :
    x ∈ if c then ch ++ [k] else ch := by
  split
  · exact List.mem_append_left _ h
  · exact h

/-- the program's kind of every key that has a node is the node's kind -/
def KindsOK (p : Program) (s : St) : Prop :=
  ∀ k n, s.nodes k = some n → ∃ d, p[k]? = some d ∧ d.kind = n.kind

theorem Inv.kindsOK {p : Program} {s : St} (inv : Inv p s) : KindsOK p s := by
  intro k n hn
  obtain ⟨d, hp, hk, _⟩ := inv.kind k n hn
  exact ⟨d, hp, hk⟩

theorem isExtNode_iff {s : St} {k : Key} :
    isExtNode s k = true ↔ ∃ n, s.nodes k = some n ∧ n.kind = .external := by
  simp only [isExtNode]
  cases s.nodes k with
  | none => simp
  | some n => simp

/-- one `refresh` step preserves the relation -/
theorem refreshAll_rel {p : Program} {s0 s : St} {ch : List Key} (hk0 : KindsOK p s0)
    (h : SetRel p s0 s ch) : SetRel p s0 (refreshAll p s ch).1 (refreshAll p s ch).2 := by
  obtain ⟨he, hd, hw, ⟨l, hl, hlm⟩, hnodes⟩ := h
  -- an external node of `s` is an external node of `s0`
  have ext0 : ∀ x n, s.nodes x = some n → n.kind = .external →
      ∃ n0, s0.nodes x = some n0 ∧ n0.kind = .external := by
    intro x n hx hk
    cases hnodes x with
    | inl h => exact ⟨n, by rw [← h]; exact hx, hk⟩
    | inr h =>
      obtain ⟨n', hn', _, _, _, _, h5, _⟩ := h
      rw [hx] at hn'; cases hn'
      exact h5 hk
  refine ⟨he, hd, hw, ⟨l ++ (List.range p.length).filter (isExtNode s), ?_, ?_⟩, ?_⟩
  · simp only [refreshAll, hl, List.append_assoc]
  · intro x hx
    rw [List.mem_append] at hx
    cases hx with
    | inl hx => exact hlm x hx
    | inr hx =>
      rw [List.mem_filter] at hx
      obtain ⟨n, hn, hk⟩ := isExtNode_iff.1 hx.2
      exact ext0 x n hn hk
  · intro x
    have hsub : ∀ y, y ∈ ch → y ∈ (refreshAll p s ch).2 := fun y hy => by
      simp only [refreshAll]; exact List.mem_append_left _ hy
    simp only [refreshAll, refreshNode]
    cases hx : s.nodes x with
    | none =>
      simp only
      cases hnodes x with
      | inl h => left; rw [← h]; exact hx.symm
      | inr h => obtain ⟨n', hn', _⟩ := h; rw [hx] at hn'; cases hn'
    | some n =>
      -- the kind of the program at `x`
      have hkx : ∃ d, p[x]? = some d ∧ d.kind = n.kind := by
        cases hnodes x with
        | inl h => exact hk0 x n (by rw [← h]; exact hx)
        | inr h =>
          obtain ⟨n', hn', _, _, _, h4, _⟩ := h
          rw [hx] at hn'; cases hn'; exact h4
      obtain ⟨d, hp, hdk⟩ := hkx
      rw [hp]
      simp only
      by_cases hk : n.kind = .external
      · rw [if_pos hk]
        right
        refine ⟨_, rfl, by simp [hk], rfl, he, ⟨d, rfl, hdk⟩, fun _ => ext0 x n hx hk, ?_⟩
        by_cases hv : n.value = d.ext s.world
        · -- unchanged by this refresh: whatever was known before still holds
          cases hnodes x with
          | inl h => right; right; exact ⟨n, by rw [← h]; exact hx, hv⟩
          | inr h =>
            obtain ⟨n', hn', _, _, _, _, _, h6⟩ := h
            rw [hx] at hn'; cases hn'
            rcases h6 with h6 | h6 | ⟨n0, h0, hv0⟩
            · exact Or.inl h6
            · exact Or.inr (Or.inl (hsub x h6))
            · exact Or.inr (Or.inr ⟨n0, h0, by rw [hv0]; exact hv⟩)
        · right; left
          apply List.mem_append_right
          rw [List.mem_filter]
          have hlt : x < p.length := by
            rw [List.getElem?_eq_some_iff] at hp
            obtain ⟨h, _⟩ := hp; exact h
          refine ⟨?_, ?_⟩
          · rw [List.mem_filter]
            exact ⟨List.mem_range.2 hlt, isExtNode_iff.2 ⟨n, hx, hk⟩⟩
          · simp [extChanged, hx, hp, hk, hv]
      · rw [if_neg hk]
        cases hnodes x with
        | inl h => left; rw [← h]; exact hx.symm
        | inr h =>
          right
          obtain ⟨n', hn', a1, a2, a3, _, a5, h6⟩ := h
          rw [hx] at hn'; cases hn'
          refine ⟨n, rfl, a1, a2, a3, ⟨d, rfl, hdk⟩, a5, ?_⟩
          rcases h6 with h6 | h6 | h6
          · exact Or.inl h6
          · exact Or.inr (Or.inl (hsub x h6))
          · exact Or.inr (Or.inr h6)

theorem applySets_rel {p : Program} {s0 : St} (hk0 : KindsOK p s0) :
    ∀ (ws : List Write) (s : St) (rs : List SetRes) (ch : List Key)
      (s1 : St) (rs1 : List SetRes) (ch1 : List Key),
      SetRel p s0 s ch → applySets p ws s rs ch = .ok (s1, rs1, ch1) → SetRel p s0 s1 ch1 := by
  intro ws
  induction ws with
  | nil =>
    intro s rs ch s1 rs1 ch1 h e
    simp only [applySets] at e
    cases e; exact h
  | cons w rest ih =>
    intro s rs ch s1 rs1 ch1 h e
    cases w with
    | world c v =>
      simp only [applySets] at e
      exact ih _ _ _ _ _ _ h e
    | refresh =>
      simp only [applySets] at e
      exact ih _ _ _ _ _ _ (refreshAll_rel hk0 h) e
    | set k v =>
      simp only [applySets] at e
      cases hp : p[k]? with
      | none => rw [hp] at e; cases e
      | some d =>
        rw [hp] at e
        simp only at e
        by_cases hi : d.kind = .input
        · simp only [hi, ne_eq, not_true_eq_false, if_false] at e
          refine ih _ _ _ _ _ _ ?_ e
          obtain ⟨he, hd, hw, hl, hnodes⟩ := h
          refine ⟨he, hd, hw, hl, ?_⟩
          intro x
          by_cases hx : x = k
          · subst hx
            right
            refine ⟨{ kind := .input, lastVerified := s.epoch, value := v, deps := [] },
              by simp [setNode], by simp, rfl, he, ⟨d, hp, hi⟩, fun h => (by cases h), ?_⟩
            cases hsx : s.nodes x with
            | none =>
              left
              cases hnodes x with
              | inl h => rw [← h]; exact hsx
              | inr h => obtain ⟨n', hn', _⟩ := h; rw [hsx] at hn'; cases hn'
            | some n =>
              simp only
              by_cases hv : n.value = v
              · simp only [hv, not_true_eq_false, if_false]
                cases hnodes x with
                | inl h => right; right; exact ⟨n, by rw [← h]; exact hsx, hv⟩
                | inr h =>
                  obtain ⟨n', hn', _, _, _, _, _, h3⟩ := h
                  rw [hsx] at hn'; cases hn'
                  rcases h3 with h3 | h3 | ⟨n0, h0, hv0⟩
                  · exact Or.inl h3
                  · exact Or.inr (Or.inl (by simp [h3]))
                  · exact Or.inr (Or.inr ⟨n0, h0, by rw [hv0, hv]⟩)
              · right; left
                simp [hv]
          · cases hnodes x with
            | inl h => left; simp only [setNode, if_neg hx]; exact h
            | inr h =>
              right
              obtain ⟨n', hn', a1, a2, a3, a4, a5, h3⟩ := h
              refine ⟨n', by simp only [setNode, if_neg hx]; exact hn', a1, a2, a3, a4, a5, ?_⟩
              rcases h3 with h3 | h3 | h3
              · exact Or.inl h3
              · exact Or.inr (Or.inl (mem_ite_append _ h3))
              · exact Or.inr (Or.inr h3)
        · simp only [ne_eq, hi, not_false_eq_true, if_true] at e
          cases e

theorem KindsOK.refreshAll {p : Program} {s : St} (hk : KindsOK p s) (ch : List Key) :
    KindsOK p (refreshAll p s ch).1 := by
  intro x n hn
  simp only [Qbice.Core.refreshAll, refreshNode] at hn
  cases hx : s.nodes x with
  | none => rw [hx] at hn; cases hn
  | some n0 =>
    obtain ⟨d, hp, hdk⟩ := hk x n0 hx
    rw [hx, hp] at hn
    simp only at hn
    split at hn
    · cases hn; exact ⟨d, hp, hdk⟩
    · cases hn; exact ⟨d, hp, hdk⟩

theorem refreshAll_io {p : Program} {s : St} (hk : KindsOK p s) (ch : List Key) :
    inputsOf (refreshAll p s ch).1 = inputsOf s ∧
      pinsOf (refreshAll p s ch).1 = refreshed p s.world (pinsOf s) := by
  refine ⟨?_, ?_⟩
  · funext x
    simp only [inputsOf, refreshAll, refreshNode]
    cases hx : s.nodes x with
    | none => rfl
    | some n =>
      obtain ⟨d, hp, _⟩ := hk x n hx
      rw [hp]
      simp only
      by_cases he : n.kind = .external
      · simp [he]
      · simp [he]
  · funext x
    simp only [pinsOf, refreshed, refreshAll, refreshNode]
    cases hx : s.nodes x with
    | none => rfl
    | some n =>
      obtain ⟨d, hp, _⟩ := hk x n hx
      rw [hp]
      simp only
      by_cases he : n.kind = .external
      · simp [he]
      · simp [he]

theorem applySets_io {p : Program} :
    ∀ (ws : List Write) (s : St) (rs : List SetRes) (ch : List Key)
      (s1 : St) (rs1 : List SetRes) (ch1 : List Key),
      KindsOK p s → applySets p ws s rs ch = .ok (s1, rs1, ch1) →
      inputsOf s1 = applyWrites ws (inputsOf s) ∧ rs1 = rs ++ writeResults ws (inputsOf s) ∧
        pinsOf s1 = applyRefresh p s.world ws (pinsOf s) := by
  intro ws
  induction ws with
  | nil =>
    intro s rs ch s1 rs1 ch1 _ e
    simp only [applySets] at e
    cases e; simp [applyWrites, writeResults, applyRefresh]
  | cons w rest ih =>
    intro s rs ch s1 rs1 ch1 hk e
    cases w with
    | world c v =>
      simp only [applySets] at e
      obtain ⟨h1, h2, h3⟩ := ih _ _ _ _ _ _ hk e
      refine ⟨h1, ?_, h3⟩
      rw [h2]; simp [writeResults]
    | refresh =>
      simp only [applySets] at e
      obtain ⟨h1, h2, h3⟩ := ih _ _ _ _ _ _ (hk.refreshAll ch) e
      obtain ⟨g1, g2⟩ := refreshAll_io hk ch
      rw [g1] at h1 h2
      rw [g2] at h3
      refine ⟨h1, ?_, h3⟩
      rw [h2]; simp [writeResults]
    | set k v =>
      simp only [applySets] at e
      cases hp : p[k]? with
      | none => rw [hp] at e; cases e
      | some d =>
        rw [hp] at e
        simp only at e
        by_cases hi : d.kind = .input
        · simp only [hi, ne_eq, not_true_eq_false, if_false] at e
          have hk' : KindsOK p (setNode s k { kind := .input, lastVerified := s.epoch, value := v, deps := [] }) := by
            intro x n hn
            simp only [setNode] at hn
            by_cases hx : x = k
            · rw [if_pos hx] at hn; cases hn; subst hx; exact ⟨d, hp, hi⟩
            · rw [if_neg hx] at hn; exact hk x n hn
          obtain ⟨h1, h2, h3⟩ := ih _ _ _ _ _ _ hk' e
          have hin : inputsOf (setNode s k { kind := .input, lastVerified := s.epoch, value := v, deps := [] })
              = fun x => if x = k then some v else inputsOf s x := by
            funext x
            simp only [inputsOf, setNode]
            by_cases hx : x = k
            · simp [hx]
            · simp [hx]
          have hpin : pinsOf (setNode s k { kind := .input, lastVerified := s.epoch, value := v, deps := [] })
              = pinsOf s := by
            funext x
            simp only [pinsOf, setNode]
            by_cases hx : x = k
            · subst hx
              simp only [if_true]
              cases hsx : s.nodes x with
              | none => simp
              | some n =>
                obtain ⟨d', hp', hk'⟩ := hk x n hsx
                rw [hp] at hp'; cases hp'
                have : ¬ n.kind = .external := by rw [← hk', hi]; decide
                simp [this]
            · simp [hx]
          rw [hin] at h1 h2
          rw [hpin] at h3
          refine ⟨h1, ?_, h3⟩
          rw [h2]
          simp only [writeResults, List.append_assoc, List.singleton_append]
          congr 2
          cases hsk : s.nodes k with
          | none => simp [inputsOf, hsk]
          | some n =>
            obtain ⟨d', hp', hk'⟩ := hk k n hsk
            rw [hp] at hp'; cases hp'
            simp [inputsOf, hsk, ← hk', hi]
        · simp only [ne_eq, hi, not_false_eq_true, if_true] at e
          cases e

theorem any_congr_mem {α : Type} {l : List α} {f g : α → Bool} (h : ∀ a, a ∈ l → f a = g a) :
    l.any f = l.any g := by
  induction l with
  | nil => rfl
  | cons a rest ih =>
    simp only [List.any_cons]
    rw [h a (List.mem_cons_self ..), ih (fun b hb => h b (List.mem_cons_of_mem _ hb))]

theorem affected_stable {s : St} (ch : List Key)
    (down : ∀ x n, s.nodes x = some n → ∀ d o, (d, o) ∈ n.deps → d < x) :
    ∀ x f, x < f → affected s ch f x = affected s ch (x + 1) x := by
  intro x
  induction x using Nat.strongRecOn with
  | _ x ih =>
    intro f hf
    obtain ⟨f', rfl⟩ : ∃ f', f = f' + 1 := ⟨f - 1, by omega⟩
    simp only [affected]
    cases hn : s.nodes x with
    | none => rfl
    | some n =>
      simp only
      congr 1
      apply any_congr_mem
      rintro ⟨d, o⟩ hm
      have hlt : d < x := down x n hn d o hm
      simp only
      rw [ih d hlt f' (by komega), ih d hlt x hlt]

theorem affected_nil (s : St) : ∀ f x, affected s [] f x = false := by
  intro f
  induction f with
  | zero => intro x; rfl
  | succ f ih =>
    intro x
    simp only [affected, List.contains_nil, Bool.false_or]
    cases s.nodes x with
    | none => rfl
    | some n => simp [ih]

/-- a settled key not reachable from a changed input stays settled, with the same value -/
theorem settled_unaffected {p : Program} {s s0 s1 : St} {ch : List Key} (inv : Inv p s)
    (h0 : s0.nodes = s.nodes) (h0d : s0.dirty = s.dirty) (rel : SetRel p s0 s1 ch)
    (down1 : ∀ x n, s1.nodes x = some n → ∀ d o, (d, o) ∈ n.deps → d < x) {x : Key}
    (hs : Settled s x) (ha : affected s1 ch (x + 1) x = false) :
    Settled (markDirty p s1 ch) x ∧
      ∃ n n', s.nodes x = some n ∧ s1.nodes x = some n' ∧ n'.value = n.value := by
  induction hs with
  | mk x n hx hclean hval hsub ih =>
    simp only [affected, Bool.or_eq_false_iff] at ha
    obtain ⟨hch, hany⟩ := ha
    have hxch : x ∉ ch := fun h => by
      have := List.contains_iff_mem.2 h
      rw [this] at hch; cases hch
    obtain ⟨_, hd1, _, _, hnodes⟩ := rel
    cases hnodes x with
    | inl hsame =>
      have hx1 : s1.nodes x = some n := by rw [hsame, h0]; exact hx
      rw [hx1] at hany
      simp only [List.any_eq_false] at hany
      have hdep : ∀ d o, (d, o) ∈ n.deps → affected s1 ch (d + 1) d = false := by
        intro d o hm
        have := hany (d, o) hm
        simp only [Bool.not_eq_true] at this
        rw [← affected_stable ch down1 d x (inv.down x n hx d o hm)]; exact this
      refine ⟨Settled.mk x n hx1 ?_ ?_ ?_, n, n, hx, hx1, rfl⟩
      · intro d o hm
        simp only [markDirty, Bool.or_eq_false_iff, Bool.and_eq_false_iff]
        refine ⟨by rw [hd1, h0d]; exact hclean d o hm, Or.inr ?_⟩
        obtain ⟨nd, hnd, _⟩ := hval d o hm
        obtain ⟨dd, hpd, _⟩ := inv.kind d nd hnd
        have hlt : d < p.length := by
          rw [List.getElem?_eq_some_iff] at hpd
          obtain ⟨h, _⟩ := hpd; exact h
        rw [affected_stable ch down1 d (p.length + 1) (by komega)]
        exact hdep d o hm
      · intro d o hm
        obtain ⟨_, nd, nd', hnd, hnd', hv⟩ := ih d o hm (hdep d o hm)
        obtain ⟨nd0, hnd0, hv0⟩ := hval d o hm
        rw [hnd] at hnd0; cases hnd0
        exact ⟨nd', hnd', by rw [hv, hv0]⟩
      · intro d o hm
        exact (ih d o hm (hdep d o hm)).1
    | inr hnew =>
      obtain ⟨n', hn', _, hdeps, _, _, _, h3⟩ := hnew
      refine ⟨Settled.mk x n' hn' ?_ ?_ ?_, n, n', hx, hn', ?_⟩
      · intro d o hm; rw [hdeps] at hm; cases hm
      · intro d o hm; rw [hdeps] at hm; cases hm
      · intro d o hm; rw [hdeps] at hm; cases hm
      · rcases h3 with h3 | h3 | ⟨n0, hn0, hv0⟩
        · rw [h0, hx] at h3; cases h3
        · exact absurd h3 hxch
        · rw [h0, hx] at hn0; cases hn0; exact hv0.symm

theorem applyWorld_const_sets (p : Program) :
    ∀ (ws : List Write) (s : St) (rs : List SetRes) (ch : List Key) (s1 : St) (rs1 : List SetRes)
      (ch1 : List Key), applySets p ws s rs ch = .ok (s1, rs1, ch1) → s1.world = s.world := by
  intro ws
  induction ws with
  | nil => intro s rs ch s1 rs1 ch1 e; simp only [applySets] at e; cases e; rfl
  | cons w rest ih =>
    intro s rs ch s1 rs1 ch1 e
    cases w with
    | world c v => simp only [applySets] at e; exact ih _ _ _ _ _ _ e
    | refresh => simp only [applySets] at e; have := ih _ _ _ _ _ _ e; exact this
    | set k v =>
      simp only [applySets] at e
      cases hp : p[k]? with
      | none => rw [hp] at e; cases e
      | some d =>
        rw [hp] at e
        simp only at e
        split at e
        · cases e
        · have := ih _ _ _ _ _ _ e; exact this

/-- without a `refresh` write no executor runs during the writes -/
theorem applySets_log (p : Program) :
    ∀ (ws : List Write) (s : St) (rs : List SetRes) (ch : List Key) (s1 : St) (rs1 : List SetRes)
      (ch1 : List Key), Write.refresh ∉ ws → applySets p ws s rs ch = .ok (s1, rs1, ch1) →
      s1.log = s.log := by
  intro ws
  induction ws with
  | nil => intro s rs ch s1 rs1 ch1 _ e; simp only [applySets] at e; cases e; rfl
  | cons w rest ih =>
    intro s rs ch s1 rs1 ch1 hnr e
    have hnr' : Write.refresh ∉ rest := fun h => hnr (List.mem_cons_of_mem _ h)
    cases w with
    | world c v => simp only [applySets] at e; exact ih _ _ _ _ _ _ hnr' e
    | refresh => exact absurd (List.mem_cons_self ..) hnr
    | set k v =>
      simp only [applySets] at e
      cases hp : p[k]? with
      | none => rw [hp] at e; cases e
      | some d =>
        rw [hp] at e
        simp only at e
        split at e
        · cases e
        · have := ih _ _ _ _ _ _ hnr' e; exact this

theorem session_spec {p : Program} {s : St} (inv : Inv p s) {ws : List Write}
    {rs : List SetRes} {s' : St} (h : session p ws s = .ok (rs, s')) :
    Inv p s' ∧ rs = writeResults ws (inputsOf s) ∧ inputsOf s' = applyWrites ws (inputsOf s) ∧
      s'.epoch = s.epoch + 1 ∧ s'.world = applyWorld ws s.world ∧
      pinsOf s' = applyRefresh p (applyWorld ws s.world) ws (pinsOf s) ∧
      ∃ l, s'.log = s.log ++ l ∧
        ∀ x, x ∈ l → Write.refresh ∈ ws ∧ ∃ n, s.nodes x = some n ∧ n.kind = .external := by
  rw [session_eq] at h
  cases ha : applySets p ws (sessionStart ws s) [] [] with
  | error e => rw [ha] at h; cases h
  | ok r =>
    obtain ⟨s1, rs1, ch⟩ := r
    rw [ha] at h
    simp only at h
    cases h
    have hk0 : KindsOK p (sessionStart ws s) := inv.kindsOK
    have rel : SetRel p (sessionStart ws s) s1 ch :=
      applySets_rel hk0 ws _ [] [] s1 rs ch (SetRel.refl p _) ha
    have hio := applySets_io ws _ [] [] s1 rs ch hk0 ha
    obtain ⟨hep, hdirty, hworld, ⟨l, hlog, hlm⟩, hnodes⟩ := rel
    have hio : inputsOf s1 = applyWrites ws (inputsOf s) ∧ rs = [] ++ writeResults ws (inputsOf s) ∧
        pinsOf s1 = applyRefresh p (applyWorld ws s.world) ws (pinsOf s) := hio
    have hep : s1.epoch = s.epoch + 1 := hep
    have hdirty : s1.dirty = s.dirty := hdirty
    have hworld : s1.world = applyWorld ws s.world := hworld
    have hlog : s1.log = s.log ++ l := hlog
    have hlm : ∀ x, x ∈ l → ∃ n, s.nodes x = some n ∧ n.kind = .external := hlm
    have hnodes : ∀ x, s1.nodes x = s.nodes x ∨
        ∃ n', s1.nodes x = some n' ∧ n'.kind ≠ .normal ∧ n'.deps = [] ∧ n'.lastVerified = s.epoch + 1 ∧
          (∃ d, p[x]? = some d ∧ d.kind = n'.kind) ∧
          (n'.kind = .external → ∃ n, s.nodes x = some n ∧ n.kind = .external) ∧
          (s.nodes x = none ∨ x ∈ ch ∨ ∃ n, s.nodes x = some n ∧ n.value = n'.value) := hnodes
    -- classification of the nodes of `s1`
    have cls : ∀ x nx, s1.nodes x = some nx →
        s.nodes x = some nx ∨ (nx.kind ≠ .normal ∧ nx.deps = [] ∧ nx.lastVerified = s.epoch + 1 ∧
          ∃ d, p[x]? = some d ∧ d.kind = nx.kind) := by
      intro x nx hx
      cases hnodes x with
      | inl h => left; rw [← hx, h]
      | inr h =>
        obtain ⟨n', hn', a1, a2, a3, a4, _⟩ := h
        rw [hx] at hn'; cases hn'
        exact Or.inr ⟨a1, a2, a3, a4⟩
    have down1 : ∀ x n, s1.nodes x = some n → ∀ d o, (d, o) ∈ n.deps → d < x := by
      intro x nx hx d o hm
      rcases cls x nx hx with h | ⟨_, h, _⟩
      · exact inv.down x nx h d o hm
      · rw [h] at hm; cases hm
    refine ⟨?_, by simpa using hio.2.1, hio.1, hep, hworld, hio.2.2, l, hlog, ?_⟩
    · constructor
      · intro x nx hx
        rcases cls x nx hx with h | ⟨h1, h2, _, d, hp, hi⟩
        · exact inv.kind x nx h
        · exact ⟨d, hp, hi, fun _ => h2⟩
      · exact down1
      · intro x nx hx
        rcases cls x nx hx with h | ⟨_, h, _⟩
        · exact inv.nodup x nx h
        · rw [h]; simp
      · intro x nx d hx hp hi
        rcases cls x nx hx with h | ⟨h, _⟩
        · exact inv.trace x nx d h hp hi
        · exact absurd hi h
      · intro x nx hx
        show nx.lastVerified ≤ s1.epoch
        rw [hep]
        rcases cls x nx hx with h | ⟨_, _, h, _⟩
        · have := inv.stamp x nx h; omega
        · omega
      · intro x nx hx hv d o hm
        have hv : nx.lastVerified = s.epoch + 1 := by rw [← hep]; exact hv
        rcases cls x nx hx with h | ⟨_, h, _⟩
        · have := inv.stamp x nx h; omega
        · rw [h] at hm; cases hm
      · intro x nx hx d o hm hcl
        have hx1 : s1.nodes x = some nx := hx
        rcases cls x nx hx1 with h | ⟨_, h, _⟩
        · simp only [markDirty, Bool.or_eq_false_iff] at hcl
          obtain ⟨hc1, hc2⟩ := hcl
          have hedge : nx.deps.any (fun e => e.1 == d) = true := (any_key_iff nx.deps d).2 ⟨o, hm⟩
          simp only [hx1, hedge, Bool.true_and] at hc2
          have hcs : s.dirty x d = false := by rw [hdirty] at hc1; exact hc1
          obtain ⟨⟨nd, hnd, hvd⟩, hsd⟩ := inv.clean_settled x nx h d o hm hcs
          obtain ⟨dd, hpd, _⟩ := inv.kind d nd hnd
          have hlt : d < p.length := by
            rw [List.getElem?_eq_some_iff] at hpd
            obtain ⟨h, _⟩ := hpd; exact h
          rw [affected_stable ch down1 d (p.length + 1) (by komega)] at hc2
          obtain ⟨hs', n0, n0', hn0, hn0', hv0⟩ :=
            settled_unaffected inv (s0 := sessionStart ws s) rfl rfl
              ⟨hep, hdirty, hworld, ⟨l, hlog, hlm⟩, hnodes⟩ down1 hsd hc2
          rw [hnd] at hn0; cases hn0
          exact ⟨⟨n0', hn0', by rw [hv0, hvd]⟩, hs'⟩
        · rw [h] at hm; cases hm
    · intro x hx
      refine ⟨?_, hlm x hx⟩
      false_or_by_contra
      rename_i hnr
      have := applySets_log p ws _ [] [] s1 rs ch hnr ha
      have hl0 : s1.log = s.log := this
      rw [hlog] at hl0
      have : l = [] := by simpa using hl0
      rw [this] at hx; cases hx

end Qbice.Core
