/-
Lemmas about the core engine model, part 4: input sessions (writes + dirty propagation).
-/
import QbiceVerif.Lemmas.EngineCore3
namespace Qbice.Core

/-- reference semantics of the writes of a session on the committed inputs -/
def applyWrites : List (Key × Val) → (Key → Option Val) → (Key → Option Val)
  | [], i => i
  | (k, v) :: rest, i => applyWrites rest (fun x => if x = k then some v else i x)

/-- reference results of the writes: by presence / equality of the previous value -/
def writeResults : List (Key × Val) → (Key → Option Val) → List SetRes
  | [], _ => []
  | (k, v) :: rest, i =>
    (match i k with
      | none => SetRes.fresh
      | some w => if w ≠ v then SetRes.updated else SetRes.unchanged) ::
      writeResults rest (fun x => if x = k then some v else i x)

/-- the commit step of a session: dirty propagation from the changed inputs -/
def markDirty (p : Program) (s1 : St) (changed : List Key) : St :=
  { s1 with dirty := fun c x => s1.dirty c x ||
      ((match s1.nodes c with
        | some n => n.deps.any (fun e => e.1 == x)
        | none => false) && affected s1 changed (p.length + 1) x) }

theorem session_eq (p : Program) (sets : List (Key × Val)) (s : St) :
    session p sets s =
      match applySets p sets { s with epoch := s.epoch + 1 } [] [] with
      | .error e => .error e
      | .ok (s1, rs, changed) => .ok (rs, markDirty p s1 changed) := rfl

/-- relation between the state at the start of the writes and during/after them -/
def SetRel (p : Program) (s0 s : St) (ch : List Key) : Prop :=
  s.epoch = s0.epoch ∧ s.dirty = s0.dirty ∧ s.log = s0.log ∧
  ∀ x, s.nodes x = s0.nodes x ∨
    ∃ n', s.nodes x = some n' ∧ n'.isInput = true ∧ n'.deps = [] ∧ n'.lastVerified = s0.epoch ∧
      (∃ d, p[x]? = some d ∧ d.isInput = true) ∧
      (s0.nodes x = none ∨ x ∈ ch ∨ ∃ n, s0.nodes x = some n ∧ n.value = n'.value)

theorem mem_ite_append {x k : Key} {ch : List Key} (c : Prop) [Decidable c] (h : x ∈ ch) :
    x ∈ if c then ch ++ [k] else ch := by
  split
  · exact List.mem_append_left _ h
  · exact h

theorem applySets_rel {p : Program} {s0 : St} :
    ∀ (sets : List (Key × Val)) (s : St) (rs : List SetRes) (ch : List Key)
      (s1 : St) (rs1 : List SetRes) (ch1 : List Key),
      SetRel p s0 s ch → applySets p sets s rs ch = .ok (s1, rs1, ch1) → SetRel p s0 s1 ch1 := by
  intro sets
  induction sets with
  | nil =>
    intro s rs ch s1 rs1 ch1 h e
    simp only [applySets] at e
    cases e; exact h
  | cons w rest ih =>
    intro s rs ch s1 rs1 ch1 h e
    obtain ⟨k, v⟩ := w
    simp only [applySets] at e
    cases hp : p[k]? with
    | none => rw [hp] at e; cases e
    | some d =>
      rw [hp] at e
      simp only at e
      cases hi : d.isInput with
      | false => rw [hi] at e; cases e
      | true =>
        rw [hi] at e
        simp only [Bool.not_true, Bool.false_eq_true, if_false] at e
        refine ih _ _ _ _ _ _ ?_ e
        obtain ⟨he, hd, hl, hnodes⟩ := h
        refine ⟨he, hd, hl, ?_⟩
        intro x
        by_cases hx : x = k
        · subst hx
          right
          refine ⟨{ isInput := true, lastVerified := s.epoch, value := v, deps := [] },
            by simp [setNode], rfl, rfl, he, ⟨d, hp, hi⟩, ?_⟩
          cases hsx : s.nodes x with
          | none =>
            left
            cases hnodes x with
            | inl h => rw [← h]; exact hsx
            | inr h => obtain ⟨n', hn', _⟩ := h; rw [hsx] at hn'; cases hn'
          | some n =>
            simp only
            by_cases hv : n.value = v
            · simp only [hv, ne_eq, not_true_eq_false, if_false]
              cases hnodes x with
              | inl h => right; right; exact ⟨n, by rw [← h]; exact hsx, hv⟩
              | inr h =>
                obtain ⟨n', hn', _, _, _, _, h3⟩ := h
                rw [hsx] at hn'; cases hn'
                rcases h3 with h3 | h3 | ⟨n0, h0, hv0⟩
                · exact Or.inl h3
                · exact Or.inr (Or.inl (by simp [h3]))
                · exact Or.inr (Or.inr ⟨n0, h0, by rw [hv0, hv]⟩)
            · right; left
              simp [hv]
        · cases hnodes x with
          | inl h => left; simp only [setNode, if_neg hx]; exact h
          | inr h =>
            right
            obtain ⟨n', hn', a1, a2, a3, a4, h3⟩ := h
            refine ⟨n', by simp only [setNode, if_neg hx]; exact hn', a1, a2, a3, a4, ?_⟩
            rcases h3 with h3 | h3 | h3
            · exact Or.inl h3
            · exact Or.inr (Or.inl (mem_ite_append _ h3))
            · exact Or.inr (Or.inr h3)

/-- nodes of input keys are input nodes -/
def InputKinds (p : Program) (s : St) : Prop :=
  ∀ k n d, s.nodes k = some n → p[k]? = some d → d.isInput = true → n.isInput = true

theorem applySets_io {p : Program} :
    ∀ (sets : List (Key × Val)) (s : St) (rs : List SetRes) (ch : List Key)
      (s1 : St) (rs1 : List SetRes) (ch1 : List Key),
      InputKinds p s → applySets p sets s rs ch = .ok (s1, rs1, ch1) →
      inputsOf s1 = applyWrites sets (inputsOf s) ∧ rs1 = rs ++ writeResults sets (inputsOf s) := by
  intro sets
  induction sets with
  | nil =>
    intro s rs ch s1 rs1 ch1 _ e
    simp only [applySets] at e
    cases e; simp [applyWrites, writeResults]
  | cons w rest ih =>
    intro s rs ch s1 rs1 ch1 hk e
    obtain ⟨k, v⟩ := w
    simp only [applySets] at e
    cases hp : p[k]? with
    | none => rw [hp] at e; cases e
    | some d =>
      rw [hp] at e
      simp only at e
      cases hi : d.isInput with
      | false => rw [hi] at e; cases e
      | true =>
        rw [hi] at e
        simp only [Bool.not_true, Bool.false_eq_true, if_false] at e
        have hk' : InputKinds p (setNode s k { isInput := true, lastVerified := s.epoch, value := v, deps := [] }) := by
          intro x n dx hn hpx hix
          simp only [setNode] at hn
          by_cases hx : x = k
          · rw [if_pos hx] at hn; cases hn; rfl
          · rw [if_neg hx] at hn; exact hk x n dx hn hpx hix
        obtain ⟨h1, h2⟩ := ih _ _ _ _ _ _ hk' e
        have hin : inputsOf (setNode s k { isInput := true, lastVerified := s.epoch, value := v, deps := [] })
            = fun x => if x = k then some v else inputsOf s x := by
          funext x
          simp only [inputsOf, setNode]
          by_cases hx : x = k
          · simp [hx]
          · simp [hx]
        rw [hin] at h1 h2
        refine ⟨h1, ?_⟩
        rw [h2]
        simp only [writeResults, List.append_assoc, List.singleton_append]
        congr 2
        cases hsk : s.nodes k with
        | none => simp [inputsOf, hsk]
        | some n => simp [inputsOf, hsk, hk k n d hsk hp hi]

theorem any_congr_mem {α : Type} {l : List α} {f g : α → Bool} (h : ∀ a, a ∈ l → f a = g a) :
    l.any f = l.any g := by
  induction l with
  | nil => rfl
  | cons a rest ih =>
    simp only [List.any_cons]
    rw [h a (List.mem_cons_self ..), ih (fun b hb => h b (List.mem_cons_of_mem _ hb))]

theorem affected_stable {s : St} (ch : List Key)
    (down : ∀ x n, s.nodes x = some n → ∀ d o, (d, o) ∈ n.deps → d < x) :
    ∀ x f, x < f → affected s ch f x = affected s ch (x + 1) x := by
  intro x
  induction x using Nat.strongRecOn with
  | _ x ih =>
    intro f hf
    obtain ⟨f', rfl⟩ : ∃ f', f = f' + 1 := ⟨f - 1, by omega⟩
    simp only [affected]
    cases hn : s.nodes x with
    | none => rfl
    | some n =>
      simp only
      congr 1
      apply any_congr_mem
      rintro ⟨d, o⟩ hm
      have hlt : d < x := down x n hn d o hm
      simp only
      rw [ih d hlt f' (by komega), ih d hlt x hlt]

theorem affected_nil (s : St) : ∀ f x, affected s [] f x = false := by
  intro f
  induction f with
  | zero => intro x; rfl
  | succ f ih =>
    intro x
    simp only [affected, List.contains_nil, Bool.false_or]
    cases s.nodes x with
    | none => rfl
    | some n => simp [ih]

/-- a settled key not reachable from a changed input stays settled, with the same value -/
theorem settled_unaffected {p : Program} {s s0 s1 : St} {ch : List Key} (inv : Inv p s)
    (h0 : s0.nodes = s.nodes) (h0d : s0.dirty = s.dirty) (rel : SetRel p s0 s1 ch)
    (down1 : ∀ x n, s1.nodes x = some n → ∀ d o, (d, o) ∈ n.deps → d < x) {x : Key}
    (hs : Settled s x) (ha : affected s1 ch (x + 1) x = false) :
    Settled (markDirty p s1 ch) x ∧
      ∃ n n', s.nodes x = some n ∧ s1.nodes x = some n' ∧ n'.value = n.value := by
  induction hs with
  | mk x n hx hclean hval hsub ih =>
    simp only [affected, Bool.or_eq_false_iff] at ha
    obtain ⟨hch, hany⟩ := ha
    have hxch : x ∉ ch := fun h => by
      have := List.contains_iff_mem.2 h
      rw [this] at hch; cases hch
    obtain ⟨_, hd1, _, hnodes⟩ := rel
    cases hnodes x with
    | inl hsame =>
      have hx1 : s1.nodes x = some n := by rw [hsame, h0]; exact hx
      rw [hx1] at hany
      simp only [List.any_eq_false] at hany
      have hdep : ∀ d o, (d, o) ∈ n.deps → affected s1 ch (d + 1) d = false := by
        intro d o hm
        have := hany (d, o) hm
        simp only [Bool.not_eq_true] at this
        rw [← affected_stable ch down1 d x (inv.down x n hx d o hm)]; exact this
      refine ⟨Settled.mk x n hx1 ?_ ?_ ?_, n, n, hx, hx1, rfl⟩
      · intro d o hm
        simp only [markDirty, Bool.or_eq_false_iff, Bool.and_eq_false_iff]
        refine ⟨by rw [hd1, h0d]; exact hclean d o hm, Or.inr ?_⟩
        obtain ⟨nd, hnd, _⟩ := hval d o hm
        obtain ⟨dd, hpd, _⟩ := inv.kind d nd hnd
        have hlt : d < p.length := by
          rw [List.getElem?_eq_some_iff] at hpd
          obtain ⟨h, _⟩ := hpd; exact h
        rw [affected_stable ch down1 d (p.length + 1) (by komega)]
        exact hdep d o hm
      · intro d o hm
        obtain ⟨_, nd, nd', hnd, hnd', hv⟩ := ih d o hm (hdep d o hm)
        obtain ⟨nd0, hnd0, hv0⟩ := hval d o hm
        rw [hnd] at hnd0; cases hnd0
        exact ⟨nd', hnd', by rw [hv, hv0]⟩
      · intro d o hm
        exact (ih d o hm (hdep d o hm)).1
    | inr hnew =>
      obtain ⟨n', hn', _, hdeps, _, _, h3⟩ := hnew
      refine ⟨Settled.mk x n' hn' ?_ ?_ ?_, n, n', hx, hn', ?_⟩
      · intro d o hm; rw [hdeps] at hm; cases hm
      · intro d o hm; rw [hdeps] at hm; cases hm
      · intro d o hm; rw [hdeps] at hm; cases hm
      · rcases h3 with h3 | h3 | ⟨n0, hn0, hv0⟩
        · rw [h0, hx] at h3; cases h3
        · exact absurd h3 hxch
        · rw [h0, hx] at hn0; cases hn0; exact hv0.symm

theorem session_spec {p : Program} {s : St} (inv : Inv p s) {sets : List (Key × Val)}
    {rs : List SetRes} {s' : St} (h : session p sets s = .ok (rs, s')) :
    Inv p s' ∧ rs = writeResults sets (inputsOf s) ∧ inputsOf s' = applyWrites sets (inputsOf s) ∧
      s'.epoch = s.epoch + 1 ∧ s'.log = s.log := by
  rw [session_eq] at h
  cases ha : applySets p sets { s with epoch := s.epoch + 1 } [] [] with
  | error e => rw [ha] at h; cases h
  | ok r =>
    obtain ⟨s1, rs1, ch⟩ := r
    rw [ha] at h
    simp only at h
    cases h
    have rel : SetRel p { s with epoch := s.epoch + 1 } s1 ch :=
      applySets_rel sets _ [] [] s1 rs ch ⟨rfl, rfl, rfl, fun _ => Or.inl rfl⟩ ha
    have hio := applySets_io sets _ [] [] s1 rs ch (by
      intro k n d hn hp hi
      obtain ⟨d', hp', hk', _⟩ := inv.kind k n hn
      rw [hp] at hp'; cases hp'; rw [← hk']; exact hi) ha
    obtain ⟨hep, hdirty, hlog, hnodes⟩ := rel
    have hio : inputsOf s1 = applyWrites sets (inputsOf s) ∧ rs = [] ++ writeResults sets (inputsOf s) := hio
    simp only at hep hdirty hlog hnodes
    -- classification of the nodes of `s1`
    have cls : ∀ x nx, s1.nodes x = some nx →
        s.nodes x = some nx ∨ (nx.isInput = true ∧ nx.deps = [] ∧ nx.lastVerified = s.epoch + 1 ∧
          ∃ d, p[x]? = some d ∧ d.isInput = true) := by
      intro x nx hx
      cases hnodes x with
      | inl h => left; rw [← hx, h]
      | inr h =>
        obtain ⟨n', hn', a1, a2, a3, a4, _⟩ := h
        rw [hx] at hn'; cases hn'
        exact Or.inr ⟨a1, a2, a3, a4⟩
    have down1 : ∀ x n, s1.nodes x = some n → ∀ d o, (d, o) ∈ n.deps → d < x := by
      intro x nx hx d o hm
      rcases cls x nx hx with h | ⟨_, h, _⟩
      · exact inv.down x nx h d o hm
      · rw [h] at hm; cases hm
    refine ⟨?_, by simpa using hio.2, hio.1, hep, hlog⟩
    constructor
    · intro x nx hx
      rcases cls x nx hx with h | ⟨h1, h2, _, d, hp, hi⟩
      · exact inv.kind x nx h
      · exact ⟨d, hp, by rw [hi, h1], fun _ => h2⟩
    · exact down1
    · intro x nx hx
      rcases cls x nx hx with h | ⟨_, h, _⟩
      · exact inv.nodup x nx h
      · rw [h]; simp
    · intro x nx d hx hp hi
      rcases cls x nx hx with h | ⟨h, _⟩
      · exact inv.trace x nx d h hp hi
      · rw [h] at hi; cases hi
    · intro x nx hx
      show nx.lastVerified ≤ s1.epoch
      rw [hep]
      rcases cls x nx hx with h | ⟨_, _, h, _⟩
      · have := inv.stamp x nx h; show nx.lastVerified ≤ s.epoch + 1; omega
      · show nx.lastVerified ≤ s.epoch + 1; omega
    · intro x nx hx hv d o hm
      have hv : nx.lastVerified = s.epoch + 1 := by rw [← hep]; exact hv
      rcases cls x nx hx with h | ⟨_, h, _⟩
      · have := inv.stamp x nx h; omega
      · rw [h] at hm; cases hm
    · intro x nx hx d o hm hcl
      have hx1 : s1.nodes x = some nx := hx
      rcases cls x nx hx1 with h | ⟨_, h, _⟩
      · simp only [markDirty, Bool.or_eq_false_iff] at hcl
        obtain ⟨hc1, hc2⟩ := hcl
        have hedge : nx.deps.any (fun e => e.1 == d) = true := (any_key_iff nx.deps d).2 ⟨o, hm⟩
        simp only [hx1, hedge, Bool.true_and] at hc2
        have hcs : s.dirty x d = false := by rw [hdirty] at hc1; exact hc1
        obtain ⟨⟨nd, hnd, hvd⟩, hsd⟩ := inv.clean_settled x nx h d o hm hcs
        obtain ⟨dd, hpd, _⟩ := inv.kind d nd hnd
        have hlt : d < p.length := by
          rw [List.getElem?_eq_some_iff] at hpd
          obtain ⟨h, _⟩ := hpd; exact h
        rw [affected_stable ch down1 d (p.length + 1) (by komega)] at hc2
        obtain ⟨hs', n0, n0', hn0, hn0', hv0⟩ :=
          settled_unaffected inv (s0 := { s with epoch := s.epoch + 1 }) rfl rfl
            ⟨hep, hdirty, hlog, hnodes⟩ down1 hsd hc2
        rw [hnd] at hn0; cases hn0
        exact ⟨⟨n0', hn0', by rw [hv0, hvd]⟩, hs'⟩
      · rw [h] at hm; cases hm

end Qbice.Core
