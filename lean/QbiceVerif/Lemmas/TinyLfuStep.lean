/-
One call of the public API, as seen from outside (property C16): what it may do to the storage.
-/
import QbiceVerif.Lemmas.TinyLfuFrame

namespace QbiceVerif.TinyLfu

variable {σ : Type}

/-- the call itself writes or removes the entry of key `k` -/
def Op.writes : Op → Nat → Prop
  | .put j _, k => j = k
  | .ins j _, k => j = k
  | .upd j _, k => j = k
  | .rem j, k => j = k
  | _, _ => False

theorem access_log (cfg : Cfg σ) (c : Cache σ) (op : Op) : (access cfg c op).1.core.log = c.core.log := by
  cases op <;> simp only [access] <;> (try split) <;> rfl

theorem access_frame (cfg : Cfg σ) (c : Cache σ) {op : Op} {k : Nat} (hw : ¬ op.writes k) :
    sGet (access cfg c op).1.core.st k = sGet c.core.st k := by
  cases op with
  | get j => simp only [access]; split <;> rfl
  | peek j => simp only [access]; split <;> rfl
  | pin t => rfl
  | unpin t => rfl
  | notify j => rfl
  | unpinNotify j => rfl
  | put j v =>
    have hne : ¬ k = j := fun e => hw e.symm
    have hne' : ¬ j = k := hw
    simp only [access]; split
    · simp [sGet_sSet, hne]
    · simp [sGet, hne']
  | ins j v =>
    have hne' : ¬ j = k := hw
    simp only [access]; split
    · rfl
    · simp [sGet, hne']
  | upd j v =>
    have hne : ¬ k = j := fun e => hw e.symm
    simp only [access]; split
    · simp [sGet_sSet, hne]
    · rfl
  | rem j =>
    have hne : k ≠ j := fun e => hw e.symm
    simp only [access]; split
    · simp [sGet_sDel_ne hne]
    · rfl

/-- a call = its storage access followed by a maintenance step that only evicts -/
theorem step_spec {cfg : Cfg σ} {c c' : Cache σ} {op : Op} {r : Ret} {log : List (Nat × Bool)}
    (h : step cfg c op = .ok (c', r, log)) :
    Evolves cfg c'.pins (access cfg c.clearLog op).1.core c'.core ∧
    c'.pins = (access cfg c.clearLog op).1.pins ∧ r = (access cfg c.clearLog op).2.1 ∧ log = c'.core.log := by
  have hl : (access cfg c.clearLog op).1.core.log = [] := by rw [access_log]; rfl
  unfold step at h
  split at h
  · split at h
    · rename_i c2 hm; cases h
      obtain ⟨h1, h2⟩ := tryMaintenance_evolves hm
      exact ⟨h2 ▸ h1, h2, rfl, rfl⟩
    · cases h
  · cases h
    exact ⟨Evolves.refl _ _ _, rfl, rfl, hl.symm⟩

theorem step_log_nil {cfg : Cfg σ} {c : Cache σ} (op : Op) : (access cfg c.clearLog op).1.core.log = [] := by
  rw [access_log]; rfl

end QbiceVerif.TinyLfu
