import QbiceVerif.Lemmas.CancelStep

/-!
# C05 — preservation of the core invariant, event by event (part D: `finish`, `resume`)
-/

namespace QbiceVerif.CancelLts

/-- one frame is dropped: the effect on the two tables, in terms of `owner` / `bpl` -/
theorem owner_top_removed (top : Frame) (c : Key → Option Entry) (k : Key) :
    owner (if top.lock = true then upd c top.key none else c) k
      = if top.lock = true ∧ k = top.key then none else owner c k := by
  cases hl : top.lock <;> simp

theorem bpl_top_removed (top : Frame) (b : Key → Option Tid) (k : Key) :
    (if top.bp = true then upd b top.key none else b) k
      = if top.bp = true ∧ k = top.key then none else b k := by
  cases hb : top.bp <;> simp [upd]

/-- Popping (or emptying) the innermost frame after its guards were released. -/
theorem core_pop_top {s s' : State} {t : Tid} {T : Task} {top : Frame} {rest : List Frame}
    (h : InvCore s) (hT : s.tasks t = some T) (hF : T.frames = top :: rest) (hpc : T.pc ≠ .g1)
    (hcomp : ∀ k, owner s'.comp k = if top.lock = true ∧ k = top.key then none else owner s.comp k)
    (hbpl : ∀ k, s'.bpl k = if top.bp = true ∧ k = top.key then none else s.bpl k)
    (hpw : s'.partialW = s.partialW)
    (hres : (∃ T', s'.tasks = upd s.tasks t (some T') ∧ lockKeys T'.frames = lockKeys rest ∧ bpKeys T'.frames = bpKeys rest ∧
              (T'.pc.isSession = true ↔ T'.frames = []) ∧ (T'.detached = true → T'.frames.length ≤ 1) ∧
              (T'.detached = true → T'.pc.detachable = true))
            ∨ (s'.tasks = upd s.tasks t none ∧ lockKeys rest = [] ∧ bpKeys rest = [])) :
    InvCore s' := by
  have hnl : top.lock = true → top.key ∉ lockKeys rest := by
    intro hl hm
    have := (h.nodup t T hT).1; rw [hF, lockKeys_cons] at this; simp only [hl, if_true] at this
    exact (List.nodup_cons.mp this).1 hm
  have hnb : top.bp = true → top.key ∉ bpKeys rest := by
    intro hb hm
    have := (h.nodup t T hT).2; rw [hF, bpKeys_cons] at this; simp only [hb, if_true] at this
    exact (List.nodup_cons.mp this).1 hm
  have hlocks : ∀ k, owner s'.comp k = some t ↔ k ∈ lockKeys rest := by
    intro k
    rw [hcomp]
    by_cases hc : top.lock = true ∧ k = top.key
    · rw [if_pos hc]
      constructor
      · intro h'; cases h'
      · intro hm; rw [hc.2] at hm; exact absurd hm (hnl hc.1)
    · rw [if_neg hc]
      rw [h.locks_iff hT k, hF, lockKeys_cons]
      by_cases hl : top.lock = true
      · simp only [hl, if_true, List.mem_cons]
        constructor
        · rintro (e | e)
          · exact absurd ⟨hl, e⟩ hc
          · exact e
        · intro e; exact Or.inr e
      · simp [hl]
  have hbps : ∀ k, s'.bpl k = some t ↔ k ∈ bpKeys rest := by
    intro k
    rw [hbpl]
    by_cases hc : top.bp = true ∧ k = top.key
    · rw [if_pos hc]
      constructor
      · intro h'; cases h'
      · intro hm; rw [hc.2] at hm; exact absurd hm (hnb hc.1)
    · rw [if_neg hc]
      rw [h.bps_iff hT k, hF, bpKeys_cons]
      by_cases hl : top.bp = true
      · simp only [hl, if_true, List.mem_cons]
        constructor
        · rintro (e | e)
          · exact absurd ⟨hl, e⟩ hc
          · exact e
        · intro e; exact Or.inr e
      · simp [hl]
  have hC : ∀ k, owner s'.comp k ≠ owner s.comp k →
      (owner s.comp k = some t ∨ owner s.comp k = none) ∧ (owner s'.comp k = some t ∨ owner s'.comp k = none) := by
    intro k hk
    rw [hcomp] at hk ⊢
    by_cases hc : top.lock = true ∧ k = top.key
    · rw [if_pos hc] at hk ⊢
      refine ⟨Or.inl ?_, Or.inr rfl⟩
      have := h.lockEntry t T hT top.key (by rw [hF, lockKeys_cons]; simp [hc.1])
      rw [hc.2]; exact this
    · rw [if_neg hc] at hk; exact absurd rfl hk
  have hB : ∀ k, s'.bpl k ≠ s.bpl k →
      (s.bpl k = some t ∨ s.bpl k = none) ∧ (s'.bpl k = some t ∨ s'.bpl k = none) := by
    intro k hk
    rw [hbpl] at hk ⊢
    by_cases hc : top.bp = true ∧ k = top.key
    · rw [if_pos hc] at hk ⊢
      refine ⟨Or.inl ?_, Or.inr rfl⟩
      have := h.bpEntry t T hT top.key (by rw [hF, bpKeys_cons]; simp [hc.1])
      rw [hc.2]; exact this
    · rw [if_neg hc] at hk; exact absurd rfl hk
  rcases hres with ⟨T', ht, hlk, hbk, hsh, hone, hdp⟩ | ⟨ht, hlk, hbk⟩
  · have ho : ∀ t', t' ≠ t → s'.tasks t' = s.tasks t' := by intro t' ht'; rw [ht]; simp [upd, ht']
    refine core_frame (t := t) h ho hC hB (Or.inl ⟨T', ⟨by rw [ht]; simp, ?_, ?_, ?_, ?_, hsh, hone, hdp⟩⟩) ?_
    · intro k; rw [hlk]; exact hlocks k
    · intro k; rw [hbk]; exact hbps k
    · rw [hlk]
      have := (h.nodup t T hT).1; rw [hF, lockKeys_cons] at this
      by_cases hl : top.lock = true
      · simp only [hl, if_true] at this; exact (List.nodup_cons.mp this).2
      · simpa [hl] using this
    · rw [hbk]
      have := (h.nodup t T hT).2; rw [hF, bpKeys_cons] at this
      by_cases hl : top.bp = true
      · simp only [hl, if_true] at this; exact (List.nodup_cons.mp this).2
      · simpa [hl] using this
    · refine partial_keep h ho hpw ?_
      intro T0 top0 rest0 h0 _ hpc0
      rw [hT] at h0; cases h0; exact absurd hpc0 hpc
  · have ho : ∀ t', t' ≠ t → s'.tasks t' = s.tasks t' := by intro t' ht'; rw [ht]; simp [upd, ht']
    refine core_frame (t := t) h ho hC hB (Or.inr ⟨by rw [ht]; simp, ?_, ?_⟩) ?_
    · intro k hk; have := (hlocks k).mp hk; rw [hlk] at this; simp at this
    · intro k hk; have := (hbps k).mp hk; rw [hbk] at this; simp at this
    · refine partial_keep h ho hpw ?_
      intro T0 top0 rest0 h0 _ hpc0
      rw [hT] at h0; cases h0; exact absurd hpc0 hpc

theorem core_finish {s s' : State} {t : Tid} (h : InvCore s) (hs : step s (.finish t) = some s') : InvCore s' := by
  simp only [step] at hs
  cases hT : s.tasks t with
  | none => simp [hT] at hs
  | some T =>
    cases hF : T.frames with
    | nil => simp [hT, hF] at hs
    | cons top rest =>
      simp only [hT, hF] at hs
      split at hs
      · next hpc =>
        split at hs
        · next hd =>
          cases hs
          have hone := h.detachedOne t T hT hd
          rw [hF] at hone
          have hrest : rest = [] := by
            cases rest with
            | nil => rfl
            | cons a b => simp at hone
          subst hrest
          refine core_pop_top h hT hF (by simp [hpc]) ?_ ?_ rfl (Or.inr ⟨rfl, rfl, rfl⟩)
          · intro k; exact owner_top_removed top s.comp k
          · intro k; exact bpl_top_removed top s.bpl k
        · next hd =>
          cases hs
          refine core_pop_top h hT hF (by simp [hpc]) ?_ ?_ rfl (Or.inl ⟨_, rfl, ?_, ?_, ?_, ?_, ?_⟩)
          · intro k; exact owner_top_removed top s.comp k
          · intro k; exact bpl_top_removed top s.bpl k
          · simp [lockKeys_cons]
          · simp [bpKeys_cons]
          · simp [Pc.isSession]
          · intro hd'; exact absurd hd' hd
          · intro hd'; exact absurd hd' hd
      · cases hs

theorem core_resume {s s' : State} {t : Tid} (h : InvCore s) (hs : step s (.resume t) = some s') : InvCore s' := by
  simp only [step] at hs
  cases hT : s.tasks t with
  | none => simp [hT] at hs
  | some T =>
    cases hF : T.frames with
    | nil => simp [hT, hF] at hs
    | cons top rest =>
      simp only [hT, hF] at hs
      split at hs
      · next hpc =>
        have hnd : T.detached ≠ true := by
          intro hd; have := h.detachedPc t T hT hd; simp [hpc, Pc.detachable] at this
        cases rest with
        | nil =>
          simp only at hs
          cases hs
          refine core_pop_top h hT hF (by simp [hpc]) ?_ ?_ rfl (Or.inr ⟨rfl, rfl, rfl⟩)
          · intro k; exact owner_dropFrame top s.comp s.bpl k
          · intro k; exact bpl_dropFrame top s.comp s.bpl k
        | cons r rs =>
          simp only at hs
          cases hs
          refine core_pop_top h hT hF (by simp [hpc]) ?_ ?_ rfl (Or.inl ⟨_, rfl, rfl, rfl, ?_, ?_, ?_⟩)
          · intro k; exact owner_dropFrame top s.comp s.bpl k
          · intro k; exact bpl_dropFrame top s.comp s.bpl k
          · simp [Pc.isSession]
          · intro hd'; exact absurd hd' hnd
          · intro hd'; exact absurd hd' hnd
      · cases hs

end QbiceVerif.CancelLts
