import QbiceVerif.Lemmas.PhaseLockBasic

/-!
# C04 progress — what each event does to `tasks`, `lock`, `sess` (the only fields the progress
argument looks at)
-/

namespace QbiceVerif.Phase.Prog

theorem openPos_eq {x : Task} {i e : Nat} {sets : List (Key × Val)} {kind : CommitKind} {rest : List Op}
    (h : openPos x = some (i, e, sets, kind, rest)) :
    (x.pc = .idle ∧ x.script = .session sets kind :: rest ∧ i = 0 ∧ e = 0) ∨
    (x.pc = .wOpen i e sets kind ∧ x.script = rest) := by
  unfold openPos at h
  split at h
  · simp at h; rename_i h1 h2; left; simp [h1, h2, h]; omega
  · simp at h; rename_i h1; right; simp [h1, h]
  · simp at h

theorem step_rReq {c : Cfg} {s s' : State} {t : Tid} (h : step c s (.rReq t) = some s') :
    ∃ ks rest, (s.tasks t).pc = .idle ∧ (s.tasks t).script = .round ks :: rest ∧
      s'.tasks = upd s.tasks t ⟨.rWait ks, rest⟩ ∧ s'.lock = s.lock.enqueue t false ∧ s'.sess = s.sess := by
  simp only [step] at h
  split at h
  · rename_i ks rest h1 h2
    simp only [Option.some.injEq] at h; subst h
    exact ⟨ks, rest, h1, h2, rfl, rfl, rfl⟩
  · simp at h

theorem step_grant {c : Cfg} {s s' : State} {t : Tid} (h : step c s (.grant t) = some s') :
    s.lock.grantable c.fair t = true ∧ s'.tasks = s.tasks ∧ s'.lock = s.lock.grant t ∧ s'.sess = s.sess := by
  simp only [step] at h
  split at h
  · rename_i hg
    simp only [Option.some.injEq] at h; subst h
    exact ⟨hg, rfl, rfl, rfl⟩
  · simp at h

theorem step_rAcq {c : Cfg} {s s' : State} {t : Tid} (h : step c s (.rAcq t) = some s') :
    ∃ ks, (s.tasks t).pc = .rWait ks ∧ t ∈ s.lock.readers ∧ s.lock.want t = none ∧
      s'.tasks = upd s.tasks t ⟨.rLocked ks, (s.tasks t).script⟩ ∧ s'.lock = s.lock ∧ s'.sess = s.sess := by
  simp only [step] at h
  split at h
  · rename_i ks h1
    split at h
    · rename_i hg
      simp only [Option.some.injEq] at h; subst h
      exact ⟨ks, h1, by simpa using hg.1, hg.2, rfl, rfl, rfl⟩
    · simp at h
  · simp at h

theorem step_rSample {c : Cfg} {s s' : State} {t : Tid} {e : Nat} (h : step c s (.rSample t e) = some s') :
    ∃ ks, (s.tasks t).pc = .rLocked ks ∧
      s'.tasks = upd s.tasks t ⟨.rActive e ks, (s.tasks t).script⟩ ∧ s'.lock = s.lock ∧ s'.sess = s.sess := by
  simp only [step] at h
  split at h
  · rename_i ks h1
    split at h
    · simp only [Option.some.injEq] at h; subst h
      exact ⟨ks, h1, rfl, rfl, rfl⟩
    · simp at h
  · simp at h

theorem step_rQuery {c : Cfg} {s s' : State} {t : Tid} {k : Key} {v : Val}
    (h : step c s (.rQuery t k v) = some s') :
    ∃ e isIn ks, (s.tasks t).pc = .rActive e ((isIn, k) :: ks) ∧
      s'.tasks = upd s.tasks t ⟨.rActive e ks, (s.tasks t).script⟩ ∧ s'.lock = s.lock ∧ s'.sess = s.sess := by
  simp only [step] at h
  split at h
  · rename_i e isIn k' ks h1
    split at h
    · rename_i hk; subst hk
      split at h
      · split at h
        · simp only [Option.some.injEq] at h; subst h
          exact ⟨e, isIn, ks, h1, rfl, rfl, rfl⟩
        · simp at h
      · split at h
        · simp only [Option.some.injEq] at h; subst h
          exact ⟨e, isIn, ks, h1, rfl, rfl, rfl⟩
        · simp at h
    · simp at h
  · simp at h

theorem step_rRel {c : Cfg} {s s' : State} {t : Tid} (h : step c s (.rRel t) = some s') :
    ∃ e, (s.tasks t).pc = .rActive e [] ∧
      s'.tasks = upd s.tasks t ⟨.idle, (s.tasks t).script⟩ ∧
      s'.lock.readers = s.lock.readers.erase t ∧ s'.lock.writer = s.lock.writer ∧
      s'.lock.queue = s.lock.queue ∧ s'.sess = s.sess := by
  simp only [step] at h
  split at h
  · rename_i e h1
    simp only [Option.some.injEq] at h; subst h
    exact ⟨e, h1, rfl, rfl, rfl, rfl, rfl⟩
  · simp at h

/-- the session record created by the fifth opening step -/
def newSess (t : Tid) (e : Nat) (inp : Inputs) : Sess :=
  { owner := t, epoch := e, pc := .active, batch := [], writes := [], base := inp }

theorem step_wStep {c : Cfg} {s s' : State} {t : Tid} {st : OpenStep} {e : Nat}
    (h : step c s (.wStep t st e) = some s') :
    ∃ i e0 sets kind rest e', openPos (s.tasks t) = some (i, e0, sets, kind, rest) ∧
      (openOrder c.lockFirst)[i]? = some st ∧
      s'.tasks = upd s.tasks t (openTask (i + 1) e' sets kind rest) ∧
      s'.lock = (if st = .req then s.lock.enqueue t true else s.lock) ∧
      s'.sess = (if i + 1 < 5 then s.sess else some (newSess t e' s.inputs)) ∧
      (st = .acq → s.lock.writer = some t ∧ s.lock.want t = none) := by
  simp only [step] at h
  split at h
  · simp at h
  · rename_i i e0 sets kind rest hp
    split at h
    · rename_i ho
      cases st <;> simp only at h <;> split at h <;> try (simp at h; done)
      all_goals (simp only [Option.some.injEq] at h; subst h)
      · exact ⟨i, e0, sets, kind, rest, e0, hp, ho, by simp, by simp, by simp [afterOpen_sess, newSess], by simp⟩
      · exact ⟨i, e0, sets, kind, rest, e, hp, ho, by simp, by simp, by simp [afterOpen_sess, newSess], by simp⟩
      · exact ⟨i, e0, sets, kind, rest, e0, hp, ho, by simp, by simp, by simp [afterOpen_sess, newSess], by simp⟩
      · exact ⟨i, e0, sets, kind, rest, e0, hp, ho, by simp, by simp, by simp [afterOpen_sess, newSess], by simp⟩
      · rename_i hg
        exact ⟨i, e0, sets, kind, rest, e0, hp, ho, by simp, by simp, by simp [afterOpen_sess, newSess],
          fun _ => ⟨hg.2.1, hg.2.2⟩⟩
    · simp at h

theorem step_wSet {c : Cfg} {s s' : State} {t : Tid} {k : Key} {v : Val}
    (h : step c s (.wSet t k v) = some s') :
    ∃ sets kind σ σ', (s.tasks t).pc = .wActive ((k, v) :: sets) kind ∧ s.sess = some σ ∧
      σ.owner = t ∧ σ.pc = .active ∧
      s'.tasks = upd s.tasks t ⟨.wActive sets kind, (s.tasks t).script⟩ ∧ s'.lock = s.lock ∧
      s'.sess = some σ' ∧ σ'.owner = t ∧ σ'.pc = .active := by
  simp only [step] at h
  split at h
  · rename_i k' v' sets kind σ h1 h2
    split at h
    · rename_i hg
      simp only [Option.some.injEq] at h; subst h
      obtain ⟨rfl, rfl, h3, h4⟩ := hg
      exact ⟨sets, kind, σ, _, h1, h2, h3, h4, rfl, rfl, rfl, h3, h4⟩
    · simp at h
  · simp at h

theorem step_wCommit {c : Cfg} {s s' : State} {t : Tid} (h : step c s (.wCommit t) = some s') :
    ∃ σ, (s.tasks t).pc = .wActive [] .commit ∧ s.sess = some σ ∧ σ.owner = t ∧ σ.pc = .active ∧
      s'.tasks = upd s.tasks t ⟨.wCommitting, (s.tasks t).script⟩ ∧ s'.lock = s.lock ∧
      s'.sess = some { σ with pc := .begun } := by
  simp only [step] at h
  split at h
  · rename_i σ h1 h2
    split at h
    · rename_i hg
      simp only [Option.some.injEq] at h; subst h
      exact ⟨σ, h1, h2, hg.1, hg.2, rfl, rfl, rfl⟩
    · simp at h
  · simp at h

theorem step_wDrop {c : Cfg} {s s' : State} {t : Tid} (h : step c s (.wDrop t) = some s') :
    ∃ σ, (s.tasks t).pc = .wActive [] .drop ∧ s.sess = some σ ∧ σ.owner = t ∧ σ.pc = .active ∧
      s'.tasks = upd s.tasks t ⟨.idle, (s.tasks t).script⟩ ∧ s'.lock = s.lock ∧
      s'.sess = some { σ with pc := .begun } := by
  simp only [step] at h
  split at h
  · rename_i σ h1 h2
    split at h
    · rename_i hg
      simp only [Option.some.injEq] at h; subst h
      exact ⟨σ, h1, h2, hg.1, hg.2, rfl, rfl, rfl⟩
    · simp at h
  · simp at h

theorem step_cPropagate {c : Cfg} {s s' : State} {t : Tid} (h : step c s (.cPropagate t) = some s') :
    ∃ σ, s.sess = some σ ∧ σ.owner = t ∧ σ.pc = .begun ∧
      s'.tasks = s.tasks ∧ s'.lock = s.lock ∧ s'.sess = some { σ with pc := .propagated } := by
  simp only [step] at h
  split at h
  · rename_i σ h1
    split at h
    · rename_i hg
      simp only [Option.some.injEq] at h; subst h
      exact ⟨σ, h1, hg.1, hg.2, rfl, rfl, rfl⟩
    · simp at h
  · simp at h

theorem step_cSubmit {c : Cfg} {s s' : State} {t : Tid} (h : step c s (.cSubmit t) = some s') :
    ∃ σ, s.sess = some σ ∧ σ.owner = t ∧ σ.pc = .propagated ∧
      s'.tasks = s.tasks ∧ s'.lock = s.lock ∧ s'.sess = some { σ with pc := .submitted } := by
  simp only [step] at h
  split at h
  · rename_i σ h1
    split at h
    · rename_i hg
      simp only [Option.some.injEq] at h; subst h
      exact ⟨σ, h1, hg.1, hg.2, rfl, rfl, rfl⟩
    · simp at h
  · simp at h

theorem step_cRel {c : Cfg} {s s' : State} {t : Tid} (h : step c s (.cRel t) = some s') :
    ∃ σ, s.sess = some σ ∧ σ.owner = t ∧ σ.pc = .submitted ∧
      s'.tasks = s.tasks ∧ s'.lock.readers = s.lock.readers ∧ s'.lock.writer = none ∧
      s'.lock.queue = s.lock.queue ∧ s'.sess = none := by
  simp only [step] at h
  split at h
  · rename_i σ h1
    split at h
    · rename_i hg
      simp only [Option.some.injEq] at h; subst h
      exact ⟨σ, h1, hg.1, hg.2, rfl, rfl, rfl, rfl, rfl⟩
    · simp at h
  · simp at h

theorem step_wDone {c : Cfg} {s s' : State} {t : Tid} (h : step c s (.wDone t) = some s') :
    (s.tasks t).pc = .wCommitting ∧
      s'.tasks = upd s.tasks t ⟨.idle, (s.tasks t).script⟩ ∧ s'.lock = s.lock ∧ s'.sess = s.sess := by
  simp only [step] at h
  split at h
  · rename_i h1
    simp only [Option.ite_none_right_eq_some, Option.some.injEq] at h
    obtain ⟨_, h⟩ := h; subst h
    exact ⟨h1, rfl, rfl, rfl⟩
  · simp at h

end QbiceVerif.Phase.Prog
