/-
The global invariant of the TinyLFU model (property C16) and its preservation by every call of
the public API: region lists well-formed and within capacity, storage keys distinct, every
resident key tracked by the policy or by a buffered insert, write buffer at most one batch.
-/
import QbiceVerif.Lemmas.TinyLfuPolicy

namespace QbiceVerif.TinyLfu

variable {σ : Type}

/-- `Pend ws k b`: whether the policy will track `k` once the buffered messages `ws` have been
applied, if it tracks it now iff `b` — ignoring evictions (which take the key out of the storage). -/
def Pend : List WMsg → Nat → Prop → Prop
  | [], _, b => b
  | .insert j :: w, k, b => Pend w k (j = k ∨ b)
  | .removed j :: w, k, b => Pend w k (j ≠ k ∧ b)
  | .unpinned _ :: w, k, b => Pend w k b

theorem Pend.mono {ws : List WMsg} {k : Nat} {b b' : Prop} (h : b → b') : Pend ws k b → Pend ws k b' := by
  induction ws generalizing b b' with
  | nil => exact h
  | cons m w ih =>
    cases m with
    | insert j => exact ih (fun x => x.elim Or.inl (fun y => Or.inr (h y)))
    | removed j => exact ih (fun x => ⟨x.1, h x.2⟩)
    | unpinned j => exact ih h

/-- the effect of one message on "tracked" -/
def msgStep (m : WMsg) (k : Nat) (b : Prop) : Prop :=
  match m with
  | .insert j => j = k ∨ b
  | .removed j => j ≠ k ∧ b
  | .unpinned _ => b

theorem Pend_cons (m : WMsg) (w : List WMsg) (k : Nat) (b : Prop) : Pend (m :: w) k b = Pend w k (msgStep m k b) := by
  cases m <;> rfl

theorem Pend_append (w : List WMsg) (m : WMsg) (k : Nat) (b : Prop) :
    Pend (w ++ [m]) k b ↔ msgStep m k (Pend w k b) := by
  induction w generalizing b with
  | nil => cases m <;> simp [Pend, msgStep]
  | cons m0 w ih => rw [List.cons_append, Pend_cons, Pend_cons]; exact ih _

/-- a pending key is tracked now or has a buffered insert -/
theorem Pend.cases {ws : List WMsg} {k : Nat} {b : Prop} (h : Pend ws k b) : b ∨ WMsg.insert k ∈ ws := by
  induction ws generalizing b with
  | nil => exact Or.inl h
  | cons m w ih =>
    cases m with
    | insert j =>
      rcases ih h with h | h
      · rcases h with h | h
        · subst h; right; simp
        · exact Or.inl h
      · right; exact List.mem_cons_of_mem _ h
    | removed j =>
      rcases ih h with h | h
      · exact Or.inl h.2
      · right; exact List.mem_cons_of_mem _ h
    | unpinned j =>
      rcases ih h with h | h
      · exact Or.inl h
      · right; exact List.mem_cons_of_mem _ h

/-- the invariant of what maintenance reads and writes, relative to the messages still buffered -/
structure CInv (cfg : Cfg σ) (ws : List WMsg) (c : Core σ) : Prop where
  wf : c.lru.WF
  caps : Caps cfg c.lru
  nodup : (keys c.st).Nodup
  /-- every resident key is tracked, or will be once the buffer is drained -/
  track : ∀ k, sGet c.st k ≠ none → Pend ws k (c.lru.has k)

/-- a maintenance step that consumes no message keeps the invariant -/
theorem CInv.step {cfg : Cfg σ} {pins : List Nat} {ws : List WMsg} {c c' : Core σ}
    (hi : CInv cfg ws c) (he : Evolves cfg pins c c') (hp : PolStep cfg pins c c') : CInv cfg ws c' := by
  refine ⟨hp.wf hi.wf, hp.caps hi.caps, he.nodup hi.nodup, ?_⟩
  intro k hk
  have hk0 : sGet c.st k ≠ none := by
    cases hg : sGet c'.st k with
    | none => exact absurd hg hk
    | some v => rw [he.sub k v hg]; simp
  refine Pend.mono ?_ (hi.track k hk0)
  intro hh
  exact Classical.byContradiction fun hn => hk (hp.leaves k hh hn)

theorem processWrite_inv {cfg : Cfg σ} {pins : List Nat} {ws : List WMsg} {c c' : Core σ} {m : WMsg}
    (hpm : cfg.protectedCap < cfg.mainLimit)
    (h : processWrite cfg pins c m = .ok c') (hi : CInv cfg (m :: ws) c) : CInv cfg ws c' := by
  have he := processWrite_evolves h
  cases m with
  | insert j =>
    obtain ⟨hp, hent⟩ := onWrite_polstep (show onWrite cfg pins c j = .ok c' from h)
    refine ⟨hp.wf hi.wf, hp.caps hi.caps, he.nodup hi.nodup, ?_⟩
    intro k hk
    have hk0 : sGet c.st k ≠ none := by
      cases hg : sGet c'.st k with
      | none => exact absurd hg hk
      | some v => rw [he.sub k v hg]; simp
    refine Pend.mono ?_ (hi.track k hk0)
    rintro (e | hh)
    · subst e; rcases hent with h1 | h1
      · exact h1
      · exact absurd h1 hk
    · exact Classical.byContradiction fun hn => hk (hp.leaves k hh hn)
  | unpinned j =>
    obtain ⟨hp, _⟩ := unpin_polstep (show unpin cfg pins c j = .ok c' from h) hpm
    exact CInv.step ⟨hi.wf, hi.caps, hi.nodup, hi.track⟩ he hp
  | removed j =>
    simp only [processWrite] at h; cases h
    refine ⟨remove_wf j hi.wf, remove_caps j hi.caps, hi.nodup, ?_⟩
    intro k hk
    refine Pend.mono ?_ (hi.track k hk)
    rintro ⟨hne, hh⟩
    exact (remove_has_of_ne _ hne).mpr hh

theorem processWrites_inv {cfg : Cfg σ} {pins : List Nat} {ms : List WMsg} {c c' : Core σ}
    (hpm : cfg.protectedCap < cfg.mainLimit)
    (h : processWrites cfg pins ms c = .ok c') (hi : CInv cfg ms c) : CInv cfg [] c' := by
  induction ms generalizing c with
  | nil => simp [processWrites] at h; cases h; exact hi
  | cons m ms ih =>
    unfold processWrites at h
    split at h
    · rename_i c1 h1; exact ih h (processWrite_inv hpm h1 hi)
    · cases h

theorem onReadHit_polstep (cfg : Cfg σ) (pins : List Nat) (c : Core σ) (k : Nat) :
    PolStep cfg pins c (onReadHit cfg c k).1 := by
  refine ⟨?_, ?_, ?_, ?_⟩
  · intro hw; exact hit_wf _ _ hw
  · intro a h1 h2; exact absurd ((hit_has _ _ _ _).mpr h1) h2
  · intro hc; exact hit_caps k hc
  · intro a ha; left; simpa [onReadHit, hit_pinned] using ha

theorem processReads_inv (cfg : Cfg σ) (pins : List Nat) (ws : List WMsg) (ks : List Nat) (c : Core σ)
    (hi : CInv cfg ws c) : CInv cfg ws (processReads cfg ks c) := by
  induction ks generalizing c with
  | nil => exact hi
  | cons k ks ih =>
    unfold processReads
    have h0 := onReadHit_st cfg c k
    exact ih _ (hi.step (pins := pins) (Evolves.of_eq h0.1 h0.2) (onReadHit_polstep cfg pins c k))

/-- the cache-level invariant -/
structure Inv (cfg : Cfg σ) (c : Cache σ) : Prop where
  core : CInv cfg c.wbuf c.core
  wlen : c.wbuf.length ≤ cfg.batch

theorem tryMaintenance_inv {cfg : Cfg σ} {c c' : Cache σ} (hpm : cfg.protectedCap < cfg.mainLimit)
    (h : tryMaintenance cfg c = .ok c') (hi : CInv cfg c.wbuf c.core) : Inv cfg c' := by
  unfold tryMaintenance at h
  split at h
  · rename_i hle; cases h
    simp only [Bool.and_eq_true, decide_eq_true_eq] at hle
    exact ⟨hi, hle.1⟩
  · unfold processPolicyMessages at h
    split at h
    · cases h
    · rename_i core hw; cases h
      refine ⟨?_, by simp⟩
      have h1 := processWrites_inv hpm hw hi
      have h2 := processReads_inv cfg c.pins [] c.rbuf core h1
      simp only []
      split
      · exact h2.step (trim_evolves cfg c.pins _) (trim_polstep cfg c.pins _)
      · exact h2

/-- the storage access of a call keeps the core invariant (for the grown buffer) -/
theorem access_inv {cfg : Cfg σ} {c : Cache σ} (op : Op) (hi : CInv cfg c.wbuf c.core) :
    CInv cfg (access cfg c op).1.wbuf (access cfg c op).1.core := by
  have hcl : CInv cfg c.wbuf c.core := hi
  cases op with
  | get k => simp only [access]; split <;> exact hi
  | peek k => simp only [access]; split <;> exact hi
  | pin t => exact hi
  | unpin t => exact hi
  | notify k =>
    simp only [access]
    exact ⟨hi.wf, hi.caps, hi.nodup, fun a ha => (Pend_append _ _ _ _).mpr (hi.track a ha)⟩
  | unpinNotify k =>
    simp only [access]
    exact ⟨hi.wf, hi.caps, hi.nodup, fun a ha => (Pend_append _ _ _ _).mpr (hi.track a ha)⟩
  | upd k v =>
    simp only [access]; split
    · refine ⟨hi.wf, hi.caps, by simpa [keys_sSet] using hi.nodup, ?_⟩
      intro a ha; apply hi.track a
      simp only [sGet_sSet] at ha
      split at ha
      · rename_i e; subst e; intro hn; simp [hn] at ha
      · exact ha
    · exact hi
  | rem k =>
    simp only [access]; split
    · refine ⟨hi.wf, hi.caps, nodup_keys_sDel k hi.nodup, ?_⟩
      intro a ha
      simp only [sGet_sDel] at ha
      split at ha
      · exact absurd rfl ha
      · rename_i hne
        exact (Pend_append _ _ _ _).mpr ⟨fun e => hne e.symm, hi.track a ha⟩
    · exact hi
  | put k v =>
    simp only [access]; split
    · refine ⟨hi.wf, hi.caps, by simpa [keys_sSet] using hi.nodup, ?_⟩
      intro a ha; apply hi.track a
      simp only [sGet_sSet] at ha
      split at ha
      · rename_i e; subst e; intro hn; simp [hn] at ha
      · exact ha
    · rename_i hnone
      refine ⟨hi.wf, hi.caps, nodup_keys_cons v hi.nodup hnone, ?_⟩
      intro a ha
      apply (Pend_append _ _ _ _).mpr
      by_cases e : k = a
      · exact Or.inl e
      · right; apply hi.track a; simpa [sGet, e] using ha
  | ins k v =>
    simp only [access]; split
    · exact hi
    · rename_i hnone
      refine ⟨hi.wf, hi.caps, nodup_keys_cons v hi.nodup hnone, ?_⟩
      intro a ha
      apply (Pend_append _ _ _ _).mpr
      by_cases e : k = a
      · exact Or.inl e
      · right; apply hi.track a; simpa [sGet, e] using ha

theorem clearLog_inv {cfg : Cfg σ} {c : Cache σ} (hi : Inv cfg c) : Inv cfg c.clearLog :=
  ⟨⟨hi.core.wf, hi.core.caps, hi.core.nodup, hi.core.track⟩, hi.wlen⟩

theorem access_wlen (cfg : Cfg σ) (c : Cache σ) (op : Op) :
    (access cfg c op).2.2 = false → (access cfg c op).1.wbuf = c.wbuf := by
  cases op <;> simp [access] <;> (try split) <;> simp

theorem step_inv {cfg : Cfg σ} {c c' : Cache σ} {op : Op} {r : Ret} {log : List (Nat × Bool)}
    (hpm : cfg.protectedCap < cfg.mainLimit) (h : step cfg c op = .ok (c', r, log)) (hi : Inv cfg c) : Inv cfg c' := by
  have hc := clearLog_inv hi
  have ha := access_inv op hc.core
  unfold step at h
  split at h
  · split at h
    · rename_i c2 hm; cases h; exact tryMaintenance_inv hpm hm ha
    · cases h
  · rename_i hm
    cases h
    refine ⟨ha, ?_⟩
    rw [access_wlen cfg _ op (by simpa using hm)]; exact hc.wlen

theorem init_inv (cfg : Cfg σ) (sk : σ) : Inv cfg (Cache.init sk) := by
  refine ⟨⟨?_, ⟨?_, ?_, ?_⟩, ?_, ?_⟩, ?_⟩ <;> simp [Cache.init, Lru.WF, Lru.cnt, keys, sGet]

theorem run_inv {cfg : Cfg σ} {ops : List Op} {c c' : Cache σ}
    (hpm : cfg.protectedCap < cfg.mainLimit) (h : run cfg c ops = .ok c') (hi : Inv cfg c) : Inv cfg c' := by
  induction ops generalizing c with
  | nil => simp [run] at h; cases h; exact hi
  | cons op ops ih =>
    unfold run at h
    split at h
    · rename_i c1 r log hs; exact ih h (step_inv hpm hs hi)
    · cases h

end QbiceVerif.TinyLfu
