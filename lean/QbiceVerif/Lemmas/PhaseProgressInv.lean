import QbiceVerif.Lemmas.PhaseLockStep

/-!
# C04 progress — the structural invariant behind deadlock freedom (both opening orders)
-/

namespace QbiceVerif.Phase.Prog

/-- per-task invariant. `a` = index of `acq` in the opening order, `w` = `s.lock.want t`,
`rd` = `t ∈ s.lock.readers`, `wr` = `s.lock.writer`, `ss` = `s.sess`. -/
def taskOk (a : Nat) (t : Nat) (pc : Pc) (w : Option Bool) (rd : Prop) (wr : Option Nat)
    (ss : Option Sess) : Prop :=
  match pc with
  | .idle => w = none ∧ ¬ rd
  | .rWait _ => (w = some false ∧ ¬ rd) ∨ (w = none ∧ rd)
  | .rLocked _ => w = none
  | .rActive _ _ => w = none
  | .wOpen i _ _ _ =>
    i < 5 ∧ ¬ rd ∧ (i < a → w = none) ∧
    (i = a → w = some true ∨ (w = none ∧ wr = some t ∧ ss = none)) ∧
    (a < i → w = none ∧ wr = some t ∧ ss = none)
  | .wActive _ _ => w = none ∧ ¬ rd ∧ ∃ σ, ss = some σ ∧ σ.owner = t ∧ σ.pc = .active
  | .wCommitting => w = none ∧ ¬ rd

structure Inv (c : Cfg) (s : State) : Prop where
  task : ∀ t : Nat, taskOk (acqIdx c) t (s.tasks t).pc (s.lock.want t) (t ∈ s.lock.readers) s.lock.writer s.sess
  nodup : s.lock.readers.Nodup
  sessW : ∀ σ, s.sess = some σ → s.lock.writer = some σ.owner
  sessA : ∀ σ, s.sess = some σ → σ.pc = .active → ∃ sets kind, (s.tasks σ.owner).pc = .wActive sets kind
  writer : ∀ w : Nat, s.lock.writer = some w → s.sess = none →
    s.lock.want w = none ∧ ∃ i e sets kind, (s.tasks w).pc = .wOpen i e sets kind ∧ acqIdx c ≤ i

theorem taskOk_frame {a t : Nat} {pc : Pc} {w : Option Bool} {rd rd' : Prop} {wr wr' : Option Nat}
    {ss ss' : Option Sess} (h : taskOk a t pc w rd wr ss) (hrd : rd' ↔ rd)
    (hws : wr = some t → ss = none → wr' = some t ∧ ss' = none)
    (hact : ∀ σ, ss = some σ → σ.owner = t → σ.pc = .active →
      ∃ σ', ss' = some σ' ∧ σ'.owner = t ∧ σ'.pc = .active) :
    taskOk a t pc w rd' wr' ss' := by
  unfold taskOk at *
  cases pc <;> simp only [hrd] at * <;> try exact h
  · grind
  · grind

theorem inv_init (c : Cfg) (e0 : Nat) (inp : Inputs) (scripts : List (List Op)) :
    Inv c (init e0 inp scripts) := by
  constructor <;> simp [init, taskOk, Lock.want]

theorem inv_rReq {c : Cfg} {s s' : State} {t : Tid} (hI : Inv c s) (h : step c s (.rReq t) = some s') :
    Inv c s' := by
  obtain ⟨ks, rest, h1, h2, h3, h4, h5⟩ := step_rReq h
  have ht := hI.task t
  rw [h1] at ht; simp only [taskOk] at ht
  constructor
  · intro t'
    by_cases htt : t' = t
    · subst htt
      rw [h3, h4, h5, upd_same, want_enqueue_self _ ht.1]
      simp [taskOk, ht.2]
    · rw [h3, h4, h5, upd_other _ _ htt, want_enqueue_other _ htt]
      exact hI.task t'
  · rw [h4]; exact hI.nodup
  · rw [h4, h5]; exact hI.sessW
  · rw [h3, h5]; intro σ hσ ha
    obtain ⟨sets, kind, hp⟩ := hI.sessA σ hσ ha
    have : σ.owner ≠ t := by intro h'; rw [h', h1] at hp; cases hp
    rw [upd_other _ _ this]; exact ⟨sets, kind, hp⟩
  · rw [h3, h4, h5]; intro w hw hs
    obtain ⟨h6, i, e, sets, kind, hp, hi⟩ := hI.writer w hw hs
    have : w ≠ t := by intro h'; rw [h', h1] at hp; cases hp
    rw [upd_other _ _ this, want_enqueue_other _ this]; exact ⟨h6, i, e, sets, kind, hp, hi⟩

/-- an event that changes only the acting task (lock and session untouched) -/
theorem inv_local {c : Cfg} {s s' : State} {t : Nat} {x : Task} (hI : Inv c s)
    (h3 : s'.tasks = upd s.tasks t x) (h4 : s'.lock = s.lock) (h5 : s'.sess = s.sess)
    (hx : taskOk (acqIdx c) t x.pc (s.lock.want t) (t ∈ s.lock.readers) s.lock.writer s.sess)
    (hA : ∀ σ, s.sess = some σ → σ.owner = t → σ.pc = .active → ∃ sets kind, x.pc = .wActive sets kind)
    (hW : s.lock.writer = some t → s.sess = none →
      ∃ i e sets kind, x.pc = .wOpen i e sets kind ∧ acqIdx c ≤ i) : Inv c s' := by
  constructor
  · intro t'
    by_cases htt : t' = t
    · subst htt; rw [h3, h4, h5, upd_same]; exact hx
    · rw [h3, h4, h5, upd_other _ _ htt]; exact hI.task t'
  · rw [h4]; exact hI.nodup
  · rw [h4, h5]; exact hI.sessW
  · rw [h3, h5]; intro σ hσ ha
    by_cases ho : σ.owner = t
    · rw [ho, upd_same]; exact hA σ hσ ho ha
    · rw [upd_other _ _ ho]; exact hI.sessA σ hσ ha
  · rw [h3, h4, h5]; intro w hw hs
    by_cases ho : w = t
    · subst ho; rw [upd_same]; exact ⟨(hI.writer w hw hs).1, hW hw hs⟩
    · rw [upd_other _ _ ho]; exact hI.writer w hw hs

/-- `inv_local` for an acting task that is neither a session owner nor inside `input_session()` -/
theorem inv_local' {c : Cfg} {s s' : State} {t : Nat} {x : Task} (hI : Inv c s)
    (h3 : s'.tasks = upd s.tasks t x) (h4 : s'.lock = s.lock) (h5 : s'.sess = s.sess)
    (hx : taskOk (acqIdx c) t x.pc (s.lock.want t) (t ∈ s.lock.readers) s.lock.writer s.sess)
    (hnA : ∀ sets kind, (s.tasks t).pc ≠ .wActive sets kind)
    (hnW : ∀ i e sets kind, (s.tasks t).pc ≠ .wOpen i e sets kind) : Inv c s' := by
  refine inv_local hI h3 h4 h5 hx ?_ ?_
  · intro σ hσ ho ha
    obtain ⟨sets, kind, hp⟩ := hI.sessA σ hσ ha
    rw [ho] at hp; exact absurd hp (hnA sets kind)
  · intro hw hs
    obtain ⟨-, i, e, sets, kind, hp, -⟩ := hI.writer t hw hs
    exact absurd hp (hnW i e sets kind)

theorem inv_rAcq {c : Cfg} {s s' : State} {t : Tid} (hI : Inv c s) (h : step c s (.rAcq t) = some s') :
    Inv c s' := by
  obtain ⟨ks, h1, h2, h2', h3, h4, h5⟩ := step_rAcq h
  exact inv_local' hI h3 h4 h5 (by simp [taskOk, h2']) (by simp [h1]) (by simp [h1])

theorem inv_rSample {c : Cfg} {s s' : State} {t : Tid} {e : Nat} (hI : Inv c s)
    (h : step c s (.rSample t e) = some s') : Inv c s' := by
  obtain ⟨ks, h1, h3, h4, h5⟩ := step_rSample h
  have ht := hI.task t
  rw [h1] at ht; simp only [taskOk] at ht
  exact inv_local' hI h3 h4 h5 (by simp [taskOk, ht]) (by simp [h1]) (by simp [h1])

theorem inv_rQuery {c : Cfg} {s s' : State} {t : Tid} {k : Key} {v : Val} (hI : Inv c s)
    (h : step c s (.rQuery t k v) = some s') : Inv c s' := by
  obtain ⟨e, isIn, ks, h1, h3, h4, h5⟩ := step_rQuery h
  have ht := hI.task t
  rw [h1] at ht; simp only [taskOk] at ht
  exact inv_local' hI h3 h4 h5 (by simp [taskOk, ht]) (by simp [h1]) (by simp [h1])

theorem inv_wDone {c : Cfg} {s s' : State} {t : Tid} (hI : Inv c s)
    (h : step c s (.wDone t) = some s') : Inv c s' := by
  obtain ⟨h1, h3, h4, h5⟩ := step_wDone h
  have ht := hI.task t
  rw [h1] at ht; simp only [taskOk] at ht
  exact inv_local' hI h3 h4 h5 (by simp [taskOk, ht]) (by simp [h1]) (by simp [h1])

/-- a queued task is not a shared holder, and its pc says what it waits for -/
theorem taskOk_want_some {a t : Nat} {pc : Pc} {w : Option Bool} {rd : Prop} {wr : Option Nat}
    {ss : Option Sess} {x : Bool} (h : taskOk a t pc w rd wr ss) (hw : w = some x) :
    ¬ rd ∧ (x = false → ∃ ks, pc = .rWait ks) ∧ (x = true → ∃ e sets kind, pc = .wOpen a e sets kind) := by
  subst hw
  unfold taskOk at h
  cases pc <;> simp at h
  · rename_i ks
    rcases h with ⟨rfl, h⟩
    simp [h]
  · rename_i i e sets kind
    obtain ⟨h1, h2, h3, h4, h5⟩ := h
    have hia : i = a := by omega
    subst hia
    have := h4 rfl
    subst this
    simp [h2]

theorem inv_grant {c : Cfg} {s s' : State} {t : Tid} (hI : Inv c s) (h : step c s (.grant t) = some s') :
    Inv c s' := by
  obtain ⟨hg, h3, h4, h5⟩ := step_grant h
  obtain ⟨x, hx, hc⟩ := grantable_want hg
  have hwr := compat_writer hc
  have hss : s.sess = none := by
    cases hs : s.sess with
    | none => rfl
    | some σ => have := hI.sessW σ hs; rw [hwr] at this; cases this
  have ht := hI.task t
  obtain ⟨hnr, hf, htr⟩ := taskOk_want_some ht hx
  have hwt : (s.lock.grant t).want t = none := want_grant_self _ _ (by simp [hx])
  have hrd' : (s.lock.grant t).readers = if x = false then t :: s.lock.readers else s.lock.readers := by
    rw [grant_readers, hx]; simp
  have hwr' : (s.lock.grant t).writer = if x = true then some t else none := by
    rw [grant_writer, hx, hwr]; simp
  constructor
  · intro t'
    by_cases htt : t' = t
    · subst htt
      rw [h3, h4, h5, hwt, hrd', hwr', hss]
      cases x
      · obtain ⟨ks, hp⟩ := hf rfl
        rw [hp]; simp [taskOk]
      · obtain ⟨e, sets, kind, hp⟩ := htr rfl
        have := hI.task t'
        rw [hp] at this ⊢
        simp only [taskOk] at this ⊢
        simp [this.1, hnr]
    · rw [h3, h4, h5, want_grant_other _ htt]
      refine taskOk_frame (hI.task t') ?_ ?_ ?_
      · rw [hrd']; split <;> simp [htt]
      · intro hw; rw [hwr] at hw; cases hw
      · intro σ hσ; rw [hss] at hσ; cases hσ
  · rw [h4, hrd']
    split
    · exact List.nodup_cons.mpr ⟨hnr, hI.nodup⟩
    · exact hI.nodup
  · rw [h5, hss]; intro σ hσ; cases hσ
  · rw [h5, hss]; intro σ hσ; cases hσ
  · rw [h3, h4, h5, hwr']; intro w hw _
    cases x
    · simp at hw
    · simp at hw; subst hw
      obtain ⟨e, sets, kind, hp⟩ := htr rfl
      exact ⟨hwt, _, e, sets, kind, hp, Nat.le_refl _⟩

theorem inv_rRel {c : Cfg} {s s' : State} {t : Tid} (hI : Inv c s) (h : step c s (.rRel t) = some s') :
    Inv c s' := by
  obtain ⟨e, h1, h3, h4, h4', h4'', h5⟩ := step_rRel h
  have ht := hI.task t
  rw [h1] at ht; simp only [taskOk] at ht
  have hw : ∀ t', s'.lock.want t' = s.lock.want t' := want_congr h4''
  constructor
  · intro t'
    by_cases htt : t' = t
    · subst htt
      rw [h3, h4, h4', h5, hw, upd_same]
      simp only [taskOk]
      exact ⟨ht, hI.nodup.not_mem_erase⟩
    · rw [h3, h4, h4', h5, hw, upd_other _ _ htt]
      exact taskOk_frame (hI.task t') (List.mem_erase_of_ne htt) (fun a b => ⟨a, b⟩)
        (fun σ a b c => ⟨σ, a, b, c⟩)
  · rw [h4]; exact hI.nodup.erase t
  · rw [h4', h5]; exact hI.sessW
  · rw [h3, h5]; intro σ hσ ha
    obtain ⟨sets, kind, hp⟩ := hI.sessA σ hσ ha
    have : σ.owner ≠ t := by intro h'; rw [h', h1] at hp; cases hp
    rw [upd_other _ _ this]; exact ⟨sets, kind, hp⟩
  · rw [h3, h4', h5]; intro w hw' hs
    obtain ⟨h6, i, e, sets, kind, hp, hi⟩ := hI.writer w hw' hs
    have : w ≠ t := by intro h'; rw [h', h1] at hp; cases hp
    rw [upd_other _ _ this, hw]; exact ⟨h6, i, e, sets, kind, hp, hi⟩

/-- events of the detached commit that only move the session's pc between non-`active` values -/
theorem inv_sess_pc {c : Cfg} {s s' : State} {σ : Sess} {p : SPc} (hI : Inv c s)
    (h3 : s'.tasks = s.tasks) (h4 : s'.lock = s.lock) (hσ : s.sess = some σ) (hp : σ.pc ≠ .active)
    (h5 : s'.sess = some { σ with pc := p }) (hp' : p ≠ .active) : Inv c s' := by
  constructor
  · intro t'
    rw [h3, h4, h5]
    refine taskOk_frame (hI.task t') Iff.rfl ?_ ?_
    · intro _ hs; rw [hσ] at hs; cases hs
    · intro σ1 hs _ ha; rw [hσ] at hs; cases hs; exact absurd ha hp
  · rw [h4]; exact hI.nodup
  · rw [h4, h5]; intro σ1 hs; cases hs; exact hI.sessW σ hσ
  · rw [h5]; intro σ1 hs ha; cases hs; exact absurd ha hp'
  · rw [h5]; intro w _ hs; cases hs

theorem inv_cPropagate {c : Cfg} {s s' : State} {t : Tid} (hI : Inv c s)
    (h : step c s (.cPropagate t) = some s') : Inv c s' := by
  obtain ⟨σ, h1, -, h2, h3, h4, h5⟩ := step_cPropagate h
  exact inv_sess_pc hI h3 h4 h1 (by simp [h2]) h5 (by simp)

theorem inv_cSubmit {c : Cfg} {s s' : State} {t : Tid} (hI : Inv c s)
    (h : step c s (.cSubmit t) = some s') : Inv c s' := by
  obtain ⟨σ, h1, -, h2, h3, h4, h5⟩ := step_cSubmit h
  exact inv_sess_pc hI h3 h4 h1 (by simp [h2]) h5 (by simp)

theorem inv_cRel {c : Cfg} {s s' : State} {t : Tid} (hI : Inv c s)
    (h : step c s (.cRel t) = some s') : Inv c s' := by
  obtain ⟨σ, h1, -, h2, h3, h4, h4', h4'', h5⟩ := step_cRel h
  have hw : ∀ t', s'.lock.want t' = s.lock.want t' := want_congr h4''
  constructor
  · intro t'
    rw [h3, h4, h4', h5, hw]
    refine taskOk_frame (hI.task t') Iff.rfl ?_ ?_
    · intro _ hs; rw [h1] at hs; cases hs
    · intro σ1 hs _ ha; rw [h1] at hs; cases hs; rw [h2] at ha; cases ha
  · rw [h4]; exact hI.nodup
  · rw [h5]; intro σ1 hs; cases hs
  · rw [h5]; intro σ1 hs; cases hs
  · rw [h4']; intro w hw'; cases hw'

/-- `wSet`, `wCommit`, `wDrop`: the owner of the active session acts; the session keeps its owner -/
theorem inv_owner {c : Cfg} {s s' : State} {t : Nat} {x : Task} {σ σ' : Sess} {sets : List (Key × Val)}
    {kind : CommitKind} (hI : Inv c s)
    (h1 : (s.tasks t).pc = .wActive sets kind) (hσ : s.sess = some σ) (ho : σ.owner = t)
    (h3 : s'.tasks = upd s.tasks t x) (h4 : s'.lock = s.lock) (h5 : s'.sess = some σ') (ho' : σ'.owner = t)
    (hx : (∃ sets' kind', x.pc = .wActive sets' kind' ∧ σ'.pc = .active) ∨
          ((x.pc = .idle ∨ x.pc = .wCommitting) ∧ σ'.pc ≠ .active)) : Inv c s' := by
  have ht := hI.task t
  rw [h1] at ht; simp only [taskOk] at ht
  obtain ⟨hw, hnr, -⟩ := ht
  constructor
  · intro t'
    by_cases htt : t' = t
    · subst htt
      rw [h3, h4, h5, upd_same]
      rcases hx with ⟨sets', kind', hp, ha⟩ | ⟨hp | hp, -⟩
      · rw [hp]; simp only [taskOk]; exact ⟨hw, hnr, σ', rfl, ho', ha⟩
      · rw [hp]; simp only [taskOk]; exact ⟨hw, hnr⟩
      · rw [hp]; simp only [taskOk]; exact ⟨hw, hnr⟩
    · rw [h3, h4, h5, upd_other _ _ htt]
      refine taskOk_frame (hI.task t') Iff.rfl ?_ ?_
      · intro _ hs; rw [hσ] at hs; cases hs
      · intro σ1 hs ho1 _; rw [hσ] at hs; cases hs; exact absurd (ho1.symm.trans ho) htt
  · rw [h4]; exact hI.nodup
  · rw [h4, h5]; intro σ1 hs; cases hs; rw [ho', ← ho]; exact hI.sessW σ hσ
  · rw [h3, h5]; intro σ1 hs ha; cases hs
    rw [ho', upd_same]
    rcases hx with ⟨sets', kind', hp, _⟩ | ⟨_, hna⟩
    · exact ⟨sets', kind', hp⟩
    · exact absurd ha hna
  · rw [h5]; intro w _ hs; cases hs

theorem inv_wSet {c : Cfg} {s s' : State} {t : Tid} {k : Key} {v : Val} (hI : Inv c s)
    (h : step c s (.wSet t k v) = some s') : Inv c s' := by
  obtain ⟨sets, kind, σ, σ', h1, h2, h3, h4, h5, h6, h7, h8, h9⟩ := step_wSet h
  exact inv_owner hI h1 h2 h3 h5 h6 h7 h8 (Or.inl ⟨sets, kind, rfl, h9⟩)

theorem inv_wCommit {c : Cfg} {s s' : State} {t : Tid} (hI : Inv c s)
    (h : step c s (.wCommit t) = some s') : Inv c s' := by
  obtain ⟨σ, h1, h2, h3, h4, h5, h6, h7⟩ := step_wCommit h
  exact inv_owner hI h1 h2 h3 h5 h6 h7 h3 (Or.inr ⟨Or.inr rfl, by simp⟩)

theorem inv_wDrop {c : Cfg} {s s' : State} {t : Tid} (hI : Inv c s)
    (h : step c s (.wDrop t) = some s') : Inv c s' := by
  obtain ⟨σ, h1, h2, h3, h4, h5, h6, h7⟩ := step_wDrop h
  exact inv_owner hI h1 h2 h3 h5 h6 h7 h3 (Or.inr ⟨Or.inl rfl, by simp⟩)

/-- what `taskOk` says about a task inside `input_session()` with `i` opening steps done -/
def openOk (a t i : Nat) (w : Option Bool) (rd : Prop) (wr : Option Nat) (ss : Option Sess) : Prop :=
  i < 5 ∧ ¬ rd ∧ (i < a → w = none) ∧
  (i = a → w = some true ∨ (w = none ∧ wr = some t ∧ ss = none)) ∧
  (a < i → w = none ∧ wr = some t ∧ ss = none)

theorem openPos_taskOk {x : Task} {i e : Nat} {sets : List (Key × Val)} {kind : CommitKind} {rest : List Op}
    {a t : Nat} {w : Option Bool} {rd : Prop} {wr : Option Nat} {ss : Option Sess}
    (h : openPos x = some (i, e, sets, kind, rest)) (ha : 0 < a) (hi : i < 5)
    (ht : taskOk a t x.pc w rd wr ss) : openOk a t i w rd wr ss := by
  rcases openPos_eq h with ⟨h1, -, h3, -⟩ | ⟨h1, -⟩
  · rw [h1] at ht; simp only [taskOk] at ht
    subst h3
    exact ⟨hi, ht.2, fun _ => ht.1, fun h' => absurd h' (by omega), fun h' => absurd h' (by omega)⟩
  · rw [h1] at ht; exact ht

theorem inv_wStep {c : Cfg} {s s' : State} {t : Tid} {st : OpenStep} {e : Nat} (hI : Inv c s)
    (h : step c s (.wStep t st e) = some s') : Inv c s' := by
  obtain ⟨i, e0, sets, kind, rest, e', h1, h2, h3, h4, h5, hg⟩ := step_wStep h
  obtain ⟨hi5, hacq, hreq⟩ := openOrder_get c h2
  obtain ⟨ha0, ha5⟩ := acqIdx_pos c
  have hO := openPos_taskOk h1 ha0 hi5 (hI.task t)
  obtain ⟨-, hnr, hlt, heq, hgt⟩ := hO
  have hnA : ∀ sets kind, (s.tasks t).pc ≠ .wActive sets kind := by
    intro sets' kind' hp
    rcases openPos_eq h1 with ⟨h1', -⟩ | ⟨h1', -⟩ <;> rw [h1'] at hp <;> cases hp
  have hWi : ∀ j e sets kind, (s.tasks t).pc = .wOpen j e sets kind → j = i := by
    intro j e1 sets' kind' hp
    rcases openPos_eq h1 with ⟨h1', -⟩ | ⟨h1', -⟩ <;> rw [h1'] at hp <;> cases hp
    rfl
  have hsA : ∀ σ, s.sess = some σ → σ.pc = .active → σ.owner ≠ t := by
    intro σ hσ ha ho
    obtain ⟨sets', kind', hp⟩ := hI.sessA σ hσ ha
    rw [ho] at hp; exact hnA _ _ hp
  by_cases hr : st = .req
  · -- the request: the task joins the queue
    have hia : i + 1 = acqIdx c := hreq.mp hr
    have hwn : s.lock.want t = none := hlt (by omega)
    have h6 : i + 1 < 5 := by omega
    simp only [hr, if_true] at h4
    simp only [h6, if_true] at h5
    have hx : openTask (i + 1) e' sets kind rest = ⟨.wOpen (i + 1) e' sets kind, rest⟩ := by
      simp [openTask, h6]
    rw [hx] at h3
    constructor
    · intro t'
      by_cases htt : t' = t
      · subst htt
        rw [h3, h4, h5, upd_same, want_enqueue_self _ hwn]
        simp only [taskOk]
        exact ⟨h6, hnr, fun h' => absurd h' (by omega), fun _ => Or.inl trivial, fun h' => absurd h' (by omega)⟩
      · rw [h3, h4, h5, upd_other _ _ htt, want_enqueue_other _ htt]
        exact hI.task t'
    · rw [h4]; exact hI.nodup
    · rw [h4, h5]; exact hI.sessW
    · rw [h3, h5]; intro σ hσ ha
      rw [upd_other _ _ (hsA σ hσ ha)]; exact hI.sessA σ hσ ha
    · rw [h3, h4, h5]; intro w hw hs
      obtain ⟨h6', j, e1, sets', kind', hp, hj⟩ := hI.writer w hw hs
      have : w ≠ t := by
        intro h'; subst h'
        have := hWi _ _ _ _ hp
        omega
      rw [upd_other _ _ this, want_enqueue_other _ this]; exact ⟨h6', j, e1, sets', kind', hp, hj⟩
  · simp only [hr, if_false] at h4
    have hwn : s.lock.want t = none := by
      by_cases ha : st = .acq
      · exact (hg ha).2
      · have hne : i ≠ acqIdx c := fun h' => ha (hacq.mpr h')
        rcases Nat.lt_or_gt_of_ne hne with h' | h'
        · exact hlt h'
        · exact (hgt h').1
    have hge : acqIdx c ≤ i → s.lock.writer = some t ∧ s.sess = none := by
      intro hle
      rcases Nat.lt_or_eq_of_le hle with h' | h'
      · exact (hgt h').2
      · rcases heq h'.symm with h'' | h''
        · rw [hwn] at h''; cases h''
        · exact h''.2
    have hnreq : i + 1 ≠ acqIdx c := fun h' => hr (hreq.mpr h')
    by_cases h6 : i + 1 < 5
    · simp only [h6, if_true] at h5
      have hx : openTask (i + 1) e' sets kind rest = ⟨.wOpen (i + 1) e' sets kind, rest⟩ := by
        simp [openTask, h6]
      rw [hx] at h3
      refine inv_local hI h3 h4 h5 ?_ ?_ ?_
      · simp only [taskOk]
        exact ⟨h6, hnr, fun _ => hwn, fun h' => absurd h' hnreq, fun h' => ⟨hwn, hge (by omega)⟩⟩
      · intro σ hσ ho ha; exact absurd ho (hsA σ hσ ha)
      · intro hw hs
        obtain ⟨-, j, e1, sets', kind', hp, hj⟩ := hI.writer t hw hs
        have := hWi _ _ _ _ hp
        exact ⟨i + 1, e', sets, kind, rfl, by omega⟩
    · -- the fifth step: the session becomes active
      simp only [h6, if_false] at h5
      have hx : openTask (i + 1) e' sets kind rest = ⟨.wActive sets kind, rest⟩ := by
        simp [openTask, h6]
      rw [hx] at h3
      obtain ⟨hwr, hss⟩ := hge (by omega)
      constructor
      · intro t'
        by_cases htt : t' = t
        · subst htt
          rw [h3, h4, h5, upd_same]
          simp only [taskOk]
          exact ⟨hwn, hnr, _, rfl, rfl, rfl⟩
        · rw [h3, h4, h5, upd_other _ _ htt]
          refine taskOk_frame (hI.task t') Iff.rfl ?_ ?_
          · intro hw; rw [hwr] at hw; cases hw; exact absurd rfl htt
          · intro σ hσ; rw [hss] at hσ; cases hσ
      · rw [h4]; exact hI.nodup
      · rw [h4, h5]; intro σ hσ; cases hσ; exact hwr
      · rw [h3, h5]; intro σ hσ _; cases hσ
        simp only [newSess, upd_same]; exact ⟨sets, kind, rfl⟩
      · rw [h5]; intro w _ hs; cases hs

theorem inv_step {c : Cfg} {s s' : State} {ev : Ev} (hI : Inv c s) (h : step c s ev = some s') :
    Inv c s' := by
  cases ev with
  | rReq t => exact inv_rReq hI h
  | grant t => exact inv_grant hI h
  | rAcq t => exact inv_rAcq hI h
  | rSample t e => exact inv_rSample hI h
  | rQuery t k v => exact inv_rQuery hI h
  | rRel t => exact inv_rRel hI h
  | wStep t st e => exact inv_wStep hI h
  | wSet t k v => exact inv_wSet hI h
  | wCommit t => exact inv_wCommit hI h
  | wDrop t => exact inv_wDrop hI h
  | cPropagate t => exact inv_cPropagate hI h
  | cSubmit t => exact inv_cSubmit hI h
  | cRel t => exact inv_cRel hI h
  | wDone t => exact inv_wDone hI h

theorem reachable_inv {c : Cfg} {e0 : Nat} {inp : Inputs} {scripts : List (List Op)} {s : State}
    (h : Reachable c (init e0 inp scripts) s) : Inv c s := by
  induction h with
  | init => exact inv_init c e0 inp scripts
  | step e _ hs ih => exact inv_step ih hs

end QbiceVerif.Phase.Prog
