import QbiceVerif.Model.RelockIter

/-! The `RI` LTS: a guarded iteration returns exactly the content at `iter()` time. -/

namespace QbiceVerif.Lts.RI

structure Inv (s : State) : Prop where
  guarded : s.guarded = true
  fresh : s.idx = none → s.out = [] ∧ s.finished = false
  alive : ∀ i, s.idx = some i → s.out = s.snap.take i ∧ i ≤ s.snap.length ∧
    (s.finished = false → s.vec = s.snap) ∧ (s.finished = true → i = s.snap.length)

theorem inv_init (c0 : List Nat) : Inv (init true c0) :=
  ⟨rfl, fun _ => ⟨rfl, rfl⟩, fun i h => by simp [init] at h⟩

theorem inv_step {s s' : State} {ev : Ev} (hi : Inv s) (h : step s ev = some s') : Inv s' := by
  cases ev with
  | iter =>
    simp only [step] at h
    split at h
    · rename_i hn
      cases h
      refine ⟨hi.guarded, fun h => by simp at h, ?_⟩
      intro i hidx
      simp only [Option.some.injEq] at hidx
      subst hidx
      exact ⟨by simpa using (hi.fresh hn).1, Nat.zero_le _, fun _ => rfl, fun hf => by
        have := (hi.fresh hn).2
        simp only at hf
        rw [this] at hf; cases hf⟩
    · cases h
  | next =>
    simp only [step] at h
    split at h
    · cases h
    · rename_i i hidx
      split at h
      · cases h
      · rename_i hnf
        have hnf' : s.finished = false := by simpa using hnf
        obtain ⟨hout, hle, hvec, _⟩ := hi.alive i hidx
        have hv := hvec hnf'
        split at h
        · rename_i x hx
          cases h
          refine ⟨hi.guarded, fun h => by simp at h, ?_⟩
          intro j hj
          simp only [Option.some.injEq] at hj
          subst hj
          rw [hv] at hx
          have hlt : i < s.snap.length := (List.getElem?_eq_some_iff.mp hx).1
          refine ⟨?_, hlt, fun _ => hv, fun hf => by simp only at hf; rw [hnf'] at hf; cases hf⟩
          simp only
          rw [List.take_add_one, hx, hout]
          rfl
        · rename_i hx
          cases h
          refine ⟨hi.guarded, fun h => (by simp only at h; rw [hidx] at h; cases h), ?_⟩
          intro j hj
          simp only at hj
          rw [hidx] at hj
          cases hj
          have hge : s.snap.length ≤ i := by
            rw [hv] at hx
            exact List.getElem?_eq_none_iff.mp hx
          exact ⟨hout, hle, fun hf => by simp at hf, fun _ => Nat.le_antisymm hle hge⟩
  | rem x =>
    simp only [step] at h
    split at h
    · rename_i hw
      cases h
      refine ⟨hi.guarded, hi.fresh, ?_⟩
      intro i hidx
      obtain ⟨hout, hle, _, hfin⟩ := hi.alive i hidx
      refine ⟨hout, hle, ?_, hfin⟩
      intro hnf
      simp only at hnf hidx
      simp [State.writable, hi.guarded, hidx, hnf] at hw
    · cases h
  | ins x =>
    simp only [step] at h
    split at h
    · rename_i hw
      cases h
      refine ⟨hi.guarded, hi.fresh, ?_⟩
      intro i hidx
      obtain ⟨hout, hle, _, hfin⟩ := hi.alive i hidx
      refine ⟨hout, hle, ?_, hfin⟩
      intro hnf
      simp only at hnf hidx
      simp [State.writable, hi.guarded, hidx, hnf] at hw
    · cases h

theorem reachable_inv {c0 : List Nat} {s : State} (hr : Reachable true c0 s) : Inv s := by
  induction hr with
  | init => exact inv_init _
  | step ev _ hs ih => exact inv_step ih hs

theorem run_reachable {g : Bool} {c0 : List Nat} {s s' : State} {evs : List Ev}
    (hr : Reachable g c0 s) (h : run s evs = some s') : Reachable g c0 s' := by
  induction evs generalizing s with
  | nil => simp only [run, Option.some.injEq] at h; exact h ▸ hr
  | cons ev rest ih =>
    simp only [run] at h
    cases hs : step s ev with
    | none => simp [hs] at h
    | some s1 => rw [hs] at h; exact ih (Reachable.step ev hr hs) h

theorem exists_of_run {g : Bool} {c0 : List Nat} {evs : List Ev} {P : State → Bool}
    (h : (match run (init g c0) evs with | some s => P s | none => false) = true) :
    ∃ s, Reachable g c0 s ∧ P s = true := by
  split at h
  · rename_i s hs
    exact ⟨s, run_reachable .init hs, h⟩
  · cases h

end QbiceVerif.Lts.RI
