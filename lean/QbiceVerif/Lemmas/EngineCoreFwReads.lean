/-
Every value the extended core engine model hands out DURING a request: `reads…` lists, for a request
started in `s`, the pairs `(d, v)` such that some executor that ran during the request asked for `d`
and was handed `v` (at any depth: inside repairs of recorded callees, inside re-executions, inside the
repair of the transitive firewall callees, inside backward projection).  The lists are pure functions
defined by the recursion of the model (which is not instrumented); `readsU_ok` shows that every such
value is the from-scratch value of `d` for the committed inputs of the epoch.
-/
import QbiceVerif.Lemmas.EngineCoreFwTotal
namespace Qbice.CoreFw
open Qbice.Core (Prog Err Write SetRes allVals evalProg applyWorld Sat TraceOK Op OpOut Ref)

abbrev RL := List (Key × Val)

/-- reads during an unordered group -/
def readsMany (q : Q) (R : Key → St → RL) : List Key → Acc → St → RL
  | [], _, _ => []
  | d :: rest, a, s => R d s ++ (match q d s with
      | .error _ => []
      | .ok (v, s1) => (d, v) :: readsMany q R rest (observe s1 a d v) s1)

/-- reads during the run of an executor: the values handed to it, and the reads inside its requests -/
def readsRun (q : Q) (R : Key → St → RL) : Prog → Acc → St → RL
  | .ret _, _, _ => []
  | .ask d cont, a, s => R d s ++ (match q d s with
      | .error _ => []
      | .ok (v, s1) => (d, v) :: readsRun q R (cont v) (observe s1 a d v) s1)
  | .askAll ks cont, a, s => readsMany q R ks a s ++ (match askMany q ks a s with
      | .error _ => []
      | .ok (vs, a1, s1) => readsRun q R (cont vs) a1 s1)

/-- reads inside the repairs of the recorded callees (`check_callee`) -/
def readsRep (q : Q) (R : Key → St → RL) (k : Key) (skipOk : Bool) : List (Key × Val) → St → RL
  | [], _ => []
  | (d, o) :: rest, s =>
    if s.dirty k d = false ∧ skipOk = true ∧ trusted s d = true then readsRep q R k skipOk rest s
    else R d s ++ (match q d s with
      | .error _ => []
      | .ok (v, s1) => if v ≠ o then [] else readsRep q R k skipOk rest s1)

/-- reads during a request by a query caller -/
def readsQ (p : Program) : Nat → Bool → Key → St → RL
  | 0, _, _, _ => []
  | fuel + 1, ped, k, s =>
    match s.nodes k with
    | none =>
      match p[k]? with
      | none => []
      | some d =>
        match d.kind with
        | .input => []
        | .external => []
        | _ => readsRun (queryQ p fuel ped) (readsQ p fuel ped) d.prog {} s
    | some n =>
      if n.lastVerified = s.epoch then []
      else
        match p[k]? with
        | none => []
        | some d =>
          readsRep (queryQ p fuel ped) (readsQ p fuel ped) k (!ped && decide (n.kind ≠ .projection)) n.deps s ++
          (match repairDeps (queryQ p fuel ped) k (!ped && decide (n.kind ≠ .projection)) n.seen n.deps false [] s with
           | .ok (true, _, _, s1) => readsRun (queryQ p fuel ped) (readsQ p fuel ped) d.prog {} s1
           | _ => [])

/-- reads during requests for a list of keys -/
def readsEach (q : Q) (R : Key → St → RL) : List Key → St → RL
  | [], _ => []
  | c :: rest, s => R c s ++ (match q c s with
      | .error _ => []
      | .ok (_, s1) => readsEach q R rest s1)

def readsB (p : Program) : Nat → Key → St → RL
  | 0, _, _ => []
  | fuel + 1, k, s =>
    readsQ p (fuelFor p) true k s ++
    (match queryQ p (fuelFor p) true k s with
     | .ok (_, s1) =>
       if hasPending s1 k then readsEach (queryB p fuel) (readsB p fuel) (projsAbove p s1 k) s1 else []
     | .error _ => [])

def readsTfc (qf : Q) (RF : Key → St → RL) (k : Key) (s : St) : RL :=
  match s.nodes k with
  | none => []
  | some n => if n.lastVerified = s.epoch then [] else readsEach qf RF n.tfc s

def readsF (p : Program) : Nat → Key → St → RL
  | 0, _, _ => []
  | fuel + 1, k, s =>
    readsTfc (queryF p fuel) (readsF p fuel) k s ++
    (match repairTfc (queryF p fuel) k s with
     | .error _ => []
     | .ok s1 =>
       readsQ p (fuelFor p) false k s1 ++
       (match queryQ p (fuelFor p) false k s1 with
        | .error _ => []
        | .ok (_, s2) =>
          if hasPending s2 k then
            readsEach (queryB p (fuelFor p)) (readsB p (fuelFor p)) (projsAbove p s2 k) s2
          else []))

/-- every `(d, v)` handed to an executor during a request by the user for `k` started in `s` -/
def readsU (p : Program) (fuel : Nat) (k : Key) (s : St) : RL :=
  readsTfc (queryF p fuel) (readsF p fuel) k s ++
  (match repairTfc (queryF p fuel) k s with
   | .error _ => []
   | .ok s1 => readsQ p fuel false k s1)

/-- … during a round -/
def readsRound (p : Program) (fuel : Nat) : List Key → List (Key × Val) → St → RL
  | [], _, _ => []
  | k :: rest, cache, s =>
    match cache.find? (fun e => e.1 == k) with
    | some _ => readsRound p fuel rest cache s
    | none =>
      readsU p fuel k s ++
        (match query p fuel .user k s with
         | .error _ => []
         | .ok (v, s1) => readsRound p fuel rest (cache ++ [(k, v)]) s1)

/-- the value is the from-scratch value for the committed inputs (and external values) of `s` -/
def ReadOK (p : Program) (s : St) (e : Key × Val) : Prop := cur p s e.1 = some e.2

theorem ReadOK.frame {p : Program} {s s' : St} {e : Key × Val} (h : ReadOK p s' e) (f : Frame p s s') :
    ReadOK p s e := by
  unfold ReadOK at h ⊢; rw [← f.cur]; exact h

theorem readsMany_ok {p : Program} {q : Q} {R : Key → St → RL} {k : Key} (hq : QSpec p q k)
    (hR : ∀ d, d < k → ∀ s, Inv p s → ∀ e, e ∈ R d s → ReadOK p s e) :
    ∀ (ks : List Key) (a : Acc) (s : St), (∀ d, d ∈ ks → d < k) → Inv p s → AccOK p k s a →
      ∀ e, e ∈ readsMany q R ks a s → ReadOK p s e := by
  intro ks
  induction ks with
  | nil => intro a s _ _ _ e he; simp [readsMany] at he
  | cons d rest ih =>
    intro a s hb inv hacc e he
    have hd : d < k := hb d (List.mem_cons_self ..)
    simp only [readsMany, List.mem_append] at he
    rcases he with he | he
    · exact hR d hd s inv e he
    · have hqd := hq d hd s inv
      cases hr : q d s with
      | error e' => rw [hr] at he; simp at he
      | ok r =>
        obtain ⟨v, s1⟩ := r
        rw [hr] at he hqd
        obtain ⟨i1, f1, t1, c1, nd, hnd, hvd, hver⟩ := hqd
        simp only at i1 f1 c1 hnd hvd hver he
        rcases List.mem_cons.1 he with rfl | he
        · exact c1
        · obtain ⟨hacc2, _, _⟩ := observe_spec i1 (hacc.frame inv f1) hd (by rw [f1.cur]; exact c1) hnd hvd hver
          exact (ih (observe s1 a d v) s1 (fun d' hm => hb d' (List.mem_cons_of_mem _ hm)) i1 hacc2 e he).frame f1

theorem readsRun_ok {p : Program} {q : Q} {R : Key → St → RL} {k : Key} (hq : QSpec p q k)
    (hR : ∀ d, d < k → ∀ s, Inv p s → ∀ e, e ∈ R d s → ReadOK p s e) :
    ∀ (prog : Prog) (a : Acc) (s : St), prog.Below k → Inv p s → AccOK p k s a →
      ∀ e, e ∈ readsRun q R prog a s → ReadOK p s e := by
  intro prog
  induction prog with
  | ret v => intro a s _ _ _ e he; simp [readsRun] at he
  | ask d cont ih =>
    intro a s hb inv hacc e he
    obtain ⟨hd, hc⟩ := hb
    simp only [readsRun, List.mem_append] at he
    rcases he with he | he
    · exact hR d hd s inv e he
    · have hqd := hq d hd s inv
      cases hr : q d s with
      | error e' => rw [hr] at he; simp at he
      | ok r =>
        obtain ⟨v, s1⟩ := r
        rw [hr] at he hqd
        obtain ⟨i1, f1, t1, c1, nd, hnd, hvd, hver⟩ := hqd
        simp only at i1 f1 c1 hnd hvd hver he
        rcases List.mem_cons.1 he with rfl | he
        · exact c1
        · obtain ⟨hacc2, _, _⟩ := observe_spec i1 (hacc.frame inv f1) hd (by rw [f1.cur]; exact c1) hnd hvd hver
          exact (ih v (observe s1 a d v) s1 (hc v) i1 hacc2 e he).frame f1
  | askAll ks cont ih =>
    intro a s hb inv hacc e he
    obtain ⟨hd, hc⟩ := hb
    simp only [readsRun, List.mem_append] at he
    rcases he with he | he
    · exact readsMany_ok hq hR ks a s hd inv hacc e he
    · have hall := askMany_spec hq ks a s hd inv hacc
      cases hr : askMany q ks a s with
      | error e' => rw [hr] at he; simp at he
      | ok r =>
        obtain ⟨vs, a1, s1⟩ := r
        rw [hr] at he hall
        obtain ⟨i1, f1, _, a1ok, _⟩ := hall
        simp only at i1 f1 a1ok he
        exact (ih vs a1 s1 (hc vs) i1 a1ok e he).frame f1

theorem readsRep_ok {p : Program} {q : Q} {R : Key → St → RL} {k : Key} (hq : QSpec p q k)
    (hR : ∀ d, d < k → ∀ s, Inv p s → ∀ e, e ∈ R d s → ReadOK p s e) {n : Node} (skipOk : Bool) :
    ∀ (deps : List (Key × Val)) (s : St), Inv p s → s.nodes k = some n → (∀ e, e ∈ deps → e ∈ n.deps) →
      ∀ e, e ∈ readsRep q R k skipOk deps s → ReadOK p s e := by
  intro deps
  induction deps with
  | nil => intro s _ _ _ e he; simp [readsRep] at he
  | cons x rest ih =>
    intro s inv hk hsub e he
    obtain ⟨d, o⟩ := x
    have hm : (d, o) ∈ n.deps := hsub _ (List.mem_cons_self ..)
    have hsub' : ∀ e, e ∈ rest → e ∈ n.deps := fun e he => hsub e (List.mem_cons_of_mem _ he)
    simp only [readsRep] at he
    split at he
    · exact ih s inv hk hsub' e he
    · have hdk : d < k := (inv.down k n hk d o hm).1
      simp only [List.mem_append] at he
      rcases he with he | he
      · exact hR d hdk s inv e he
      · have hqd := hq d hdk s inv
        cases hr : q d s with
        | error e' => rw [hr] at he; simp at he
        | ok r =>
          obtain ⟨v, s1⟩ := r
          rw [hr] at he hqd
          obtain ⟨i1, f1, t1, _⟩ := hqd
          simp only at i1 f1 he
          split at he
          · simp at he
          · exact (ih s1 i1 (by rw [t1.1 k (by komega)]; exact hk) hsub' e he).frame f1

/-- every value handed out during a request by a query caller is the from-scratch one -/
theorem readsQ_ok {p : Program} (wf : WF p) (sh : Shape p) :
    ∀ fuel ped k, k < fuel → ∀ s, Inv p s → ∀ e, e ∈ readsQ p fuel ped k s → ReadOK p s e := by
  intro fuel
  induction fuel with
  | zero => intro ped k hk; cases hk
  | succ fuel ih =>
    intro ped k hk s inv e he
    have hq : QSpec p (queryQ p fuel ped) k := fun d hd s' inv' => queryQ_spec wf sh fuel ped d (by komega) s' inv'
    have hR : ∀ d, d < k → ∀ s', Inv p s' → ∀ e, e ∈ readsQ p fuel ped d s' → ReadOK p s' e :=
      fun d hd s' inv' e he => ih ped d (by komega) s' inv' e he
    simp only [readsQ] at he
    cases hn : s.nodes k with
    | none =>
      rw [hn] at he
      simp only at he
      cases hp : p[k]? with
      | none => rw [hp] at he; simp at he
      | some d =>
        rw [hp] at he
        simp only at he
        have run : d.kind ≠ .input → d.kind ≠ .external →
            ∀ e, e ∈ readsRun (queryQ p fuel ped) (readsQ p fuel ped) d.prog {} s → ReadOK p s e :=
          fun h1 h2 e he => readsRun_ok hq hR d.prog {} s (wf k d hp h1 h2).1 inv (AccOK.nil p k s) e he
        cases hi : d.kind with
        | input => rw [hi] at he; simp at he
        | external => rw [hi] at he; simp at he
        | normal => rw [hi] at he; exact run (by rw [hi]; decide) (by rw [hi]; decide) e he
        | firewall => rw [hi] at he; exact run (by rw [hi]; decide) (by rw [hi]; decide) e he
        | projection => rw [hi] at he; exact run (by rw [hi]; decide) (by rw [hi]; decide) e he
    | some n =>
      rw [hn] at he
      simp only at he
      split at he
      · simp at he
      · obtain ⟨d, hp, hki, hleaf⟩ := inv.kind k n hn
        rw [hp] at he
        simp only [List.mem_append] at he
        rcases he with he | he
        · exact readsRep_ok hq hR _ n.deps s inv hn (fun _ h => h) e he
        · have hrep := repairDeps_spec hq (!ped && decide (n.kind ≠ .projection)) n.deps false [] s inv hn (fun _ h => h)
          cases hr : repairDeps (queryQ p fuel ped) k (!ped && decide (n.kind ≠ .projection)) n.seen n.deps false [] s with
          | error e' => rw [hr] at he; simp at he
          | ok r =>
            obtain ⟨b, moved, cl, s1⟩ := r
            rw [hr] at he hrep
            obtain ⟨i1, f1, _, _, _, htr⟩ := hrep
            simp only at i1 f1 htr
            cases b with
            | false => simp at he
            | true =>
              simp only at he
              obtain ⟨dd, oo, hm, _⟩ := htr rfl
              have hdeps : n.deps ≠ [] := fun h => by rw [h] at hm; cases hm
              have hkin : d.kind ≠ .input := fun h => hdeps (hleaf (Or.inl (by rw [← hki]; exact h))).1
              have hkex : d.kind ≠ .external := fun h => hdeps (hleaf (Or.inr (by rw [← hki]; exact h))).1
              exact (readsRun_ok hq hR d.prog {} s1 (wf k d hp hkin hkex).1 i1 (AccOK.nil p k s1) e he).frame f1

theorem readsQ_badKey {p : Program} {s : St} (inv : Inv p s) {k : Key} (hk : p.length ≤ k) (fuel : Nat)
    (ped : Bool) : readsQ p fuel ped k s = [] := by
  cases fuel with
  | zero => rfl
  | succ f =>
    have hp : p[k]? = none := List.getElem?_eq_none hk
    have hn : s.nodes k = none := by
      cases h : s.nodes k with
      | none => rfl
      | some n => obtain ⟨d, hd, _⟩ := inv.kind k n h; rw [hp] at hd; cases hd
    simp [readsQ, hn, hp]

theorem readsQ_fuelFor_ok {p : Program} (wf : WF p) (sh : Shape p) (ped : Bool) (k : Key) {s : St}
    (inv : Inv p s) : ∀ e, e ∈ readsQ p (fuelFor p) ped k s → ReadOK p s e := by
  intro e he
  by_cases hk : k < p.length
  · exact readsQ_ok wf sh (fuelFor p) ped k (by simp [fuelFor]; komega) s inv e he
  · rw [readsQ_badKey inv (by komega)] at he; simp at he

theorem readsEach_ok {p : Program} {q : Q} {R : Key → St → RL} {P : Key → St → Prop}
    (hq : ∀ d s, Inv p s → P d s → Sat (q d s) (fun r => Inv p r.2 ∧ Frame p s r.2))
    (hR : ∀ d s, Inv p s → P d s → ∀ e, e ∈ R d s → ReadOK p s e)
    (hP : ∀ d s s', P d s → Inv p s → Inv p s' → Frame p s s' → P d s') :
    ∀ (ks : List Key) (s : St), (∀ f, f ∈ ks → P f s) → Inv p s →
      ∀ e, e ∈ readsEach q R ks s → ReadOK p s e := by
  intro ks
  induction ks with
  | nil => intro s _ _ e he; simp [readsEach] at he
  | cons c rest ih =>
    intro s hb inv e he
    simp only [readsEach, List.mem_append] at he
    rcases he with he | he
    · exact hR c s inv (hb c (List.mem_cons_self ..)) e he
    · have hqc := hq c s inv (hb c (List.mem_cons_self ..))
      cases hr : q c s with
      | error e' => rw [hr] at he; simp at he
      | ok r =>
        obtain ⟨v, s1⟩ := r
        rw [hr] at he hqc
        obtain ⟨i1, f1⟩ := hqc
        simp only at i1 f1 he
        exact (ih s1 (fun f hf => hP f s s1 (hb f (List.mem_cons_of_mem _ hf)) inv i1 f1) i1 e he).frame f1

theorem readsB_ok {p : Program} (wf : WF p) (sh : Shape p) :
    ∀ fuel c s, p.length ≤ c + fuel → Inv p s → PreB s c → ∀ e, e ∈ readsB p fuel c s → ReadOK p s e := by
  intro fuel
  induction fuel with
  | zero => intro c s _ _ _ e he; simp [readsB] at he
  | succ fuel ih =>
    intro c s hf inv _ e he
    simp only [readsB, List.mem_append] at he
    rcases he with he | he
    · exact readsQ_fuelFor_ok wf sh true c inv e he
    · have hfirst := queryQ_fuelFor wf sh true c inv
      cases hr : queryQ p (fuelFor p) true c s with
      | error e' => rw [hr] at he; simp at he
      | ok r =>
        obtain ⟨v, s1⟩ := r
        rw [hr] at he hfirst
        obtain ⟨i1, f1, _⟩ := hfirst
        simp only at i1 f1 he
        split at he
        · refine (readsEach_ok (P := fun c' s' => c < c' ∧ PreB s' c')
            (fun c' s' i hP => (queryB_spec wf sh fuel c' s' (by have := hP.1; komega) i hP.2).mono
              (fun r hr => ⟨hr.1.1, hr.1.2.1⟩))
            (fun c' s' i hP e he => ih c' s' (by have := hP.1; komega) i hP.2 e he)
            (fun c' s1 s2 hP i1 i2 f12 => ⟨hP.1, preB_frame hP.2 i1 i2 f12⟩)
            (projsAbove p s1 c) s1 (fun c' hc => by
              obtain ⟨_, n, o, hn, hkp, hm⟩ := mem_projsAbove.1 hc
              exact ⟨(i1.down c' n hn c o hm).1, n, hn, hkp⟩) i1 e he).frame f1
        · simp at he

theorem readsBack_ok {p : Program} (wf : WF p) (sh : Shape p) {k : Key} {s : St} (inv : Inv p s) :
    ∀ e, e ∈ readsEach (queryB p (fuelFor p)) (readsB p (fuelFor p)) (projsAbove p s k) s → ReadOK p s e :=
  readsEach_ok (P := fun c' s' => k < c' ∧ PreB s' c')
    (fun c' s' i hP => (queryB_spec wf sh (fuelFor p) c' s' (by simp [fuelFor]; komega) i hP.2).mono
      (fun r hr => ⟨hr.1.1, hr.1.2.1⟩))
    (fun c' s' i hP e he => readsB_ok wf sh (fuelFor p) c' s' (by simp [fuelFor]; komega) i hP.2 e he)
    (fun c' s1 s2 hP i1 i2 f12 => ⟨hP.1, preB_frame hP.2 i1 i2 f12⟩)
    (projsAbove p s k) s (fun c' hc => by
      obtain ⟨_, n, o, hn, hkp, hm⟩ := mem_projsAbove.1 hc
      exact ⟨(inv.down c' n hn k o hm).1, n, hn, hkp⟩) inv

theorem readsTfc_ok {p : Program} {qf : Q} {RF : Key → St → RL} {k : Key}
    (hq : ∀ d, d < k → ∀ s, Inv p s → Sat (qf d s) (UPost p d s))
    (hR : ∀ d, d < k → ∀ s, Inv p s → ∀ e, e ∈ RF d s → ReadOK p s e) {s : St} (inv : Inv p s) :
    ∀ e, e ∈ readsTfc qf RF k s → ReadOK p s e := by
  intro e he
  simp only [readsTfc] at he
  cases hn : s.nodes k with
  | none => rw [hn] at he; simp at he
  | some n =>
    rw [hn] at he
    simp only at he
    split at he
    · simp at he
    · exact readsEach_ok (P := fun d _ => d < k)
        (fun d s' i h => (hq d h s' i).mono (fun r hr => ⟨hr.1, hr.2.1⟩))
        (fun d s' i h => hR d h s' i) (fun d _ _ h _ _ _ => h) n.tfc s
        (fun f hf => inv.tfcDown k n hn f hf) inv e he

theorem readsF_ok {p : Program} (wf : WF p) (sh : Shape p) :
    ∀ fuel k, k < fuel → ∀ s, Inv p s → ∀ e, e ∈ readsF p fuel k s → ReadOK p s e := by
  intro fuel
  induction fuel with
  | zero => intro k hk; cases hk
  | succ fuel ih =>
    intro k hk s inv e he
    have hqf : ∀ d, d < k → ∀ s', Inv p s' → Sat (queryF p fuel d s') (UPost p d s') :=
      fun d hd s' inv' => queryF_spec wf sh fuel d (by komega) s' inv'
    simp only [readsF, List.mem_append] at he
    rcases he with he | he
    · exact readsTfc_ok hqf (fun d hd s' inv' => ih d (by komega) s' inv') inv e he
    · have hrt := repairTfc_spec (qf := queryF p fuel) (k := k) hqf inv
      cases hr : repairTfc (queryF p fuel) k s with
      | error e' => rw [hr] at he; simp at he
      | ok s1 =>
        rw [hr] at he hrt
        obtain ⟨i1, f1⟩ := hrt
        simp only [List.mem_append] at he
        rcases he with he | he
        · exact (readsQ_fuelFor_ok wf sh false k i1 e he).frame f1
        · have hqq := queryQ_fuelFor wf sh false k i1
          cases hr2 : queryQ p (fuelFor p) false k s1 with
          | error e' => rw [hr2] at he; simp at he
          | ok r =>
            obtain ⟨v, s2⟩ := r
            rw [hr2] at he hqq
            obtain ⟨i2, f2, _⟩ := hqq
            simp only at i2 f2 he
            split at he
            · exact ((readsBack_ok wf sh i2 e he).frame f2).frame f1
            · simp at he

/-- every value handed to an executor during a request by the user is the from-scratch one -/
theorem readsU_ok {p : Program} (wf : WF p) (sh : Shape p) {fuel k : Nat} (hk : k < fuel)
    {s : St} (inv : Inv p s) : ∀ e, e ∈ readsU p fuel k s → ReadOK p s e := by
  intro e he
  have hqf : ∀ d, d < k → ∀ s', Inv p s' → Sat (queryF p fuel d s') (UPost p d s') :=
    fun d hd s' inv' => queryF_spec wf sh fuel d (by komega) s' inv'
  simp only [readsU, List.mem_append] at he
  rcases he with he | he
  · exact readsTfc_ok hqf (fun d hd s' inv' => readsF_ok wf sh fuel d (by komega) s' inv') inv e he
  · have hrt := repairTfc_spec (qf := queryF p fuel) (k := k) hqf inv
    cases hr : repairTfc (queryF p fuel) k s with
    | error e' => rw [hr] at he; simp at he
    | ok s1 =>
      rw [hr] at he hrt
      exact (readsQ_ok wf sh fuel false k hk s1 hrt.1 e he).frame hrt.2

theorem readsU_badKey {p : Program} {s : St} (inv : Inv p s) {k : Key} (hk : p.length ≤ k) (fuel : Nat) :
    readsU p fuel k s = [] := by
  have hp : p[k]? = none := List.getElem?_eq_none hk
  have hn : s.nodes k = none := by
    cases h : s.nodes k with
    | none => rfl
    | some n => obtain ⟨d, hd, _⟩ := inv.kind k n h; rw [hp] at hd; cases hd
  simp [readsU, readsTfc, repairTfc, hn, readsQ_badKey inv hk fuel false]

theorem readsRound_ok {p : Program} (wf : WF p) (sh : Shape p) {fuel : Nat} (hf : p.length < fuel) :
    ∀ (ks : List Key) (cache : List (Key × Val)) (s : St), Inv p s →
      ∀ e, e ∈ readsRound p fuel ks cache s → ReadOK p s e := by
  intro ks
  induction ks with
  | nil => intro cache s _ e he; simp [readsRound] at he
  | cons k rest ih =>
    intro cache s inv e he
    simp only [readsRound] at he
    split at he
    · exact ih cache s inv e he
    · simp only [List.mem_append] at he
      rcases he with he | he
      · by_cases hk : k < p.length
        · exact readsU_ok wf sh (by komega) inv e he
        · rw [readsU_badKey inv (by komega)] at he; simp at he
      · by_cases hk : k < p.length
        · have hq := query_spec wf sh (fuel := fuel) (k := k) (by komega) inv
          cases hr : query p fuel .user k s with
          | error e' => rw [hr] at he; simp at he
          | ok r =>
            obtain ⟨v, s1⟩ := r
            rw [hr] at he hq
            obtain ⟨i1, f1, _⟩ := hq
            simp only at i1 f1 he
            exact (ih _ s1 i1 e he).frame f1
        · obtain ⟨f, rfl⟩ : ∃ f, fuel = f + 1 := ⟨fuel - 1, by omega⟩
          rw [query_badKey inv (by komega) f] at he
          simp at he

/-- every round of a history: every value handed to an executor during the round is the from-scratch
    value for the inputs committed when the round began -/
def AllReadsOK (p : Program) : List Op → St → Prop
  | [], _ => True
  | .sess ws :: rest, s =>
    (match session p ws { s with log := [] } with
     | .error _ => True
     | .ok (_, s1) => AllReadsOK p rest s1)
  | .round ks :: rest, s =>
    (∀ e, e ∈ readsRound p (fuelFor p) ks [] { s with log := [] } → ReadOK p s e) ∧
    (match round p (fuelFor p) ks { s with log := [] } with
     | .error _ => True
     | .ok (_, s1) => AllReadsOK p rest s1)

theorem allReads_ok {p : Program} (wf : WF p) (sh : Shape p) :
    ∀ (ops : List Op) (s : St), Inv p s → AllReadsOK p ops s := by
  intro ops
  induction ops with
  | nil => intro s _; trivial
  | cons op rest ih =>
    intro s inv
    cases op with
    | sess ws =>
      simp only [AllReadsOK]
      cases hs : session p ws { s with log := [] } with
      | error e => trivial
      | ok r =>
        obtain ⟨rs, s1⟩ := r
        exact ih s1 (session_spec (inv.setLog []) hs).1
    | round ks =>
      simp only [AllReadsOK]
      refine ⟨fun e he => readsRound_ok wf sh (fuel := fuelFor p) (by simp [fuelFor]) ks []
        { s with log := [] } (inv.setLog []) e he, ?_⟩
      have hrd := round_spec wf sh (inv.setLog []) ks
      cases hs : round p (fuelFor p) ks { s with log := [] } with
      | error e => trivial
      | ok r =>
        obtain ⟨vs, s1⟩ := r
        rw [hs] at hrd
        exact ih s1 hrd.2.1

end Qbice.CoreFw
