/-
Preservation of the invariant (continued): publishing a result (pop) and detecting a cycle (marking).
-/
import QbiceVerif.Lemmas.CycleSteps
namespace Qbice.Cycle

-- ------------------------------------------------------------------ case C, second half: publish

theorem inv_pop {p : Program} {st : St} (h : Inv p st) {top : Frame} {rest : List Frame}
    (hs : st.stack = top :: rest) (d : Done) (hdk : d.key = top.key) (hdr : d.reads = top.callees)
    (hdm : d.marked = top.inScc)
    (hmarked : d.marked = true → d.val = dfltOf p d.key)
    (hunmarked : d.marked = false →
        evalWith (valOf st.memo) (progOf p d.key) = some d.val ∧
        (∀ r ∈ asksWith (valOf st.memo) (progOf p d.key), r ∈ d.reads)) :
    Inv p { stack := rest, memo := d :: st.memo } := by
  have hso := h.stackOK
  rw [hs] at hso
  have hmono : ∀ a b, Edge st a b → Edge { stack := rest, memo := d :: st.memo } a b := by
    apply edge_mono
    · intro e he; exact List.mem_cons_of_mem _ he
    · intro f hf
      rw [hs] at hf
      rcases List.mem_cons.1 hf with rfl | hf
      · exact Or.inr ⟨d, by simp, hdk, fun x hx => by rw [hdr]; exact hx⟩
      · exact Or.inl ⟨f, hf, rfl, fun x hx => hx⟩
  have hmk : ∀ r, MarkedKey (top :: rest) r → r ∈ mkeys (d :: st.memo) ∨ MarkedKey rest r := by
    rintro r ⟨f, hf, hfk, hfm⟩
    rcases List.mem_cons.1 hf with rfl | hf
    · left; simp [mkeys, hdk, hfk]
    · right; exact ⟨f, hf, hfk, hfm⟩
  refine ⟨?_, ?_, ?_, ?_, ?_, ?_, ?_, ?_, ?_⟩
  · have := h.nodup
    rw [hs] at this
    simp only [keys, List.map_cons, List.cons_append] at this
    simp only [mkeys, List.map_cons, hdk]
    exact (List.perm_middle.nodup_iff).2 this
  · intro x hx
    apply h.bound
    rw [hs]
    simp only [keys, mkeys, List.map_cons, List.mem_append, List.mem_cons, hdk] at hx ⊢
    rcases hx with hx | rfl | hx
    · exact Or.inl (Or.inr hx)
    · exact Or.inl (Or.inl rfl)
    · exact Or.inr hx
  · cases rest with
    | nil => trivial
    | cons c r' =>
      simp only [StackOK, ChainBelow] at hso
      obtain ⟨_, hk1, hk2, hk3⟩ := hso
      refine ⟨?_, chainBelow_mono (fun x hx => by simp only [mkeys, List.map_cons]; exact List.mem_cons_of_mem _ hx) r' c.key hk3⟩
      intro x hx
      left
      rcases hk2 x hx with rfl | hm
      · simp [mkeys, hdk]
      · simp only [mkeys, List.map_cons, List.mem_cons]; exact Or.inr hm
  · have := h.marks
    rw [hs] at this
    exact this.tail
  · intro e he r hr
    rcases List.mem_cons.1 he with rfl | he
    · rw [hdr] at hr
      rcases hso.1 r hr with hm | ⟨_, hmk'⟩
      · left; simp only [mkeys, List.map_cons, List.mem_cons]; exact Or.inr hm
      · exact hmk r hmk'
    · rcases h.memoEdges e he r hr with hm | hmk'
      · left; simp only [mkeys, List.map_cons, List.mem_cons]; exact Or.inr hm
      · rw [hs] at hmk'; exact hmk r hmk'
  · simp only [MemoOK]
    refine ⟨h.memoOK, ?_, hmarked, ?_⟩
    · intro r hr
      rw [hdr] at hr
      rw [hdk]
      exact h.frameAsk top (by rw [hs]; simp) r hr
    · intro hun
      have htop : top.inScc = false := by rw [← hdm]; exact hun
      have nm : NoMarks st.stack := by
        have := h.marks
        rw [hs] at this ⊢
        exact this.noMarks_of_head htop
      refine ⟨?_, h.closed_of_noMarks nm, hunmarked hun⟩
      intro r hr
      rw [hdr] at hr
      exact h.top_callees_memo nm hs r hr
  · intro f hf x hx
    exact h.frameAsk f (by rw [hs]; exact List.mem_cons_of_mem _ hf) x hx
  · intro f hf hm
    exact (h.cycF f (by rw [hs]; exact List.mem_cons_of_mem _ hf) hm).mono hmono
  · intro e he hm
    rcases List.mem_cons.1 he with rfl | he
    · have := h.cycF top (by rw [hs]; simp) (by rw [← hdm]; exact hm)
      rw [hdk]
      exact this.mono hmono
    · exact (h.cycM e he hm).mono hmono

-- ------------------------------------------------------------------ case A: cycle detected

theorem markSet_eq_self {P : Key → Bool} {l : List Frame} (h : ∀ f ∈ l, P f.key = false) :
    markSet P l = l := by
  induction l with
  | nil => rfl
  | cons f r ih =>
    simp only [markSet, List.map_cons, h f (by simp), Bool.false_eq_true, if_false, List.cons.injEq, true_and]
    exact ih (fun g hg => h g (List.mem_cons_of_mem _ hg))

theorem mem_mid_cons {α : Type} {mid low : List α} {g f : α} (h : f ∈ mid ++ [g]) : f ∈ mid ++ g :: low := by
  rcases List.mem_append.1 h with h | h
  · exact List.mem_append_left _ h
  · rw [List.mem_singleton.1 h]
    exact List.mem_append_right _ (by simp)

theorem markSet_append (P : Key → Bool) (a b : List Frame) : markSet P (a ++ b) = markSet P a ++ markSet P b := by
  simp [markSet]

/-- what the search of `exit_scc` returns when the reader (top frame) asks for the computing query
    `k`: the frames `mids` between the reader and `k` (`k` included: the last of them, unless `k` is
    the reader itself) are the ones marked. -/
theorem mark_key {p : Program} {st : St} (h : Inv p st) (nm : NoMarks st.stack)
    {top : Frame} {rest : List Frame} (hs : st.stack = top :: rest) {k : Key}
    (hk : k ∈ keys st.stack) :
    ∃ (mids : List Frame), (∀ f ∈ mids, f ∈ rest) ∧ (top.key ∉ keys mids) ∧
      (∃ low, rest = mids ++ low ∧ (mids = [] → k = top.key)) ∧
      (k = top.key ∨ k ∈ keys mids) ∧
      (∀ f ∈ mids, ∃ ch, (ch ∈ f.callees) ∧ True) ∧
      checkCyclic ((({ top with callees := addCallee k top.callees } : Frame) :: rest).length + 1) top.key (({ top with callees := addCallee k top.callees } : Frame) :: rest) k
        = .ok (true, markSet (fun x => (keys mids).contains x || (x == top.key && k == top.key)) (({ top with callees := addCallee k top.callees } : Frame) :: rest)) ∧
      (∀ E : Key → Key → Prop, (∀ f ∈ ({ top with callees := addCallee k top.callees } : Frame) :: rest, ∀ x ∈ f.callees, E f.key x) →
        ∀ x, (x = top.key ∨ x ∈ keys mids) → OnCycle E x) ∧
      (mids = [] ∨ ∃ mid g, mids = mid ++ [g] ∧ g.key = k) := by
  have ndk : (keys (top :: rest)).Nodup := by rw [← hs]; exact h.nodup_keys
  have ndk' := ndk
  simp only [keys, List.map_cons, List.nodup_cons] at ndk'
  have hdisj := h.disjoint
  have hso := h.stackOK
  rw [hs] at hso
  let top1 : Frame := { top with callees := addCallee k top.callees }
  have ndk1 : (keys (top1 :: rest)).Nodup := ndk
  have hkin : k ∈ top1.callees := mem_addCallee.2 (Or.inr rfl)
  show ∃ (mids : List Frame), (∀ f ∈ mids, f ∈ rest) ∧ (top.key ∉ keys mids) ∧
      (∃ low, rest = mids ++ low ∧ (mids = [] → k = top.key)) ∧
      (k = top.key ∨ k ∈ keys mids) ∧
      (∀ f ∈ mids, ∃ ch, (ch ∈ f.callees) ∧ True) ∧
      checkCyclic ((top1 :: rest).length + 1) top.key (top1 :: rest) k
        = .ok (true, markSet (fun x => (keys mids).contains x || (x == top.key && k == top.key)) (top1 :: rest)) ∧
      (∀ E : Key → Key → Prop, (∀ f ∈ top1 :: rest, ∀ x ∈ f.callees, E f.key x) →
        ∀ x, (x = top.key ∨ x ∈ keys mids) → OnCycle E x) ∧
      (mids = [] ∨ ∃ mid g, mids = mid ++ [g] ∧ g.key = k)
  by_cases hself : k = top.key
  · refine ⟨[], by simp, by simp [keys], ⟨rest, rfl, fun _ => hself⟩, Or.inl hself, by simp, ?_, ?_, Or.inl rfl⟩
    · have hf : findFrame k (top1 :: rest) = some top1 := by simp [findFrame, hself, top1]
      have : top.key ∈ top1.callees := by rw [← hself]; exact hkin
      simp only [checkCyclic, hf, this, if_true, markFrame_eq_markSet]
      congr 3
      funext x
      simp [keys, hself]
    · intro E hE x hx
      have hx' : x = top.key := by
        rcases hx with rfl | hx
        · rfl
        · simp [keys] at hx
      subst hx'
      exact ⟨top.key, by have := hE top1 (by simp) k hkin; rw [hself] at this; exact this, .refl _⟩
  · have hkr : k ∈ keys rest := by
      rw [hs] at hk
      simp only [keys, List.map_cons, List.mem_cons] at hk
      rcases hk with hk | hk
      · exact absurd hk hself
      · exact hk
    obtain ⟨g, hg, hgk⟩ := List.mem_map.1 hkr
    obtain ⟨mid, low, hrest⟩ := List.append_of_mem hg
    have hchain : ChainBelow (mkeys st.memo) top.key (mid ++ [g]) :=
      (chainBelow_split mid g low top.key (by rw [← hrest]; exact hso.2)).1
    have hmem : ∀ f ∈ mid ++ [g], f ∈ top1 :: rest := by
      intro f hf
      apply List.mem_cons_of_mem
      rw [hrest]
      exact mem_mid_cons hf
    have htn : top.key ∉ keys (mid ++ [g]) := by
      intro hin
      apply ndk'.1
      obtain ⟨f, hf, hfk⟩ := List.mem_map.1 hin
      rcases List.mem_cons.1 (hmem f hf) with rfl | hfr
      · exact absurd hfk (by
          intro _
          have : top1 ∈ rest := by
            rw [hrest]
            exact mem_mid_cons hf
          exact ndk'.1 (List.mem_map.2 ⟨top1, this, rfl⟩))
      · exact List.mem_map.2 ⟨f, hfr, hfk⟩
    have hcc := checkCyclic_chain (M := mkeys st.memo) (s0 := top1 :: rest) ndk1
      (fun x hx => by have := hdisj x hx; rw [hs] at this; exact this)
      top.key (by simp [keys, top1]) mid.length mid g rfl hmem htn hchain (top1 :: rest) rfl
      ((top1 :: rest).length + 1) (by
        have : mid.length ≤ rest.length := by rw [hrest]; simp
        simp only [List.length_cons]; omega)
    refine ⟨mid ++ [g], ?_, htn, ⟨low, by rw [hrest]; simp, fun e => by simp at e⟩, Or.inr ?_, ?_, ?_, ?_, Or.inr ⟨mid, g, rfl, hgk⟩⟩
    · intro f hf
      rw [hrest]
      exact mem_mid_cons hf
    · rw [← hgk]; simp [keys]
    · intro f hf
      obtain ⟨ch, e, _, _⟩ := chain_paths (E := fun a b => ∃ f ∈ mid ++ [g], f.key = a ∧ b ∈ f.callees)
        mid g top.key hchain (fun f hf x hx => ⟨f, hf, rfl, hx⟩) f hf
      obtain ⟨f', hf', hk', hx'⟩ := e
      exact ⟨ch, by
        -- the frame with this key is `f` itself (distinct keys)
        have h1 : findFrame f.key (top1 :: rest) = some f := findFrame_of_mem ndk1 (hmem f hf)
        have h2 : findFrame f'.key (top1 :: rest) = some f' := findFrame_of_mem ndk1 (hmem f' hf')
        rw [hk'] at h2
        have : f = f' := Option.some.inj (h1.symm.trans h2)
        rw [this]; exact hx', trivial⟩
    · rw [← hgk, hcc]
      congr 3
      funext x
      simp [hself, hgk]
    · intro E hE x hx
      have paths := chain_paths (E := E) mid g top.key hchain (fun f hf => hE f (hmem f hf))
      have etop : E top.key g.key := by
        have := hE top1 (by simp) k hkin
        rw [hgk]; exact this
      rcases hx with rfl | hx
      · obtain ⟨ch, e, pth, _⟩ := paths g (by simp)
        exact ⟨g.key, etop, .head e pth⟩
      · obtain ⟨f, hf, rfl⟩ := List.mem_map.1 hx
        obtain ⟨ch, e, pth, pg⟩ := paths f hf
        exact ⟨ch, e, (pth.trans (.head etop (.refl _))).trans pg⟩

/-- The reader (top frame, key `c`) asks for a computing query `k`: `check_cyclic` succeeds within
    the fuel the code's recursion would need, and marks the frames from `k` up to the reader. -/
theorem inv_mark {p : Program} {st : St} (h : Inv p st) (nm : NoMarks st.stack)
    {top : Frame} {rest : List Frame} (hs : st.stack = top :: rest) {k : Key}
    (hk : k ∈ keys st.stack) (hask : MayAsk (progOf p top.key) k) :
    ∃ s', checkCyclic ((regTop k st.stack).length + 1) top.key (regTop k st.stack) k = .ok (true, s') ∧
      Inv p { st with stack := markFrame top.key s' } ∧
      shape (markFrame top.key s') = shape (regTop k st.stack) ∧
      (∃ t r, markFrame top.key s' = t :: r ∧ t.inScc = true) := by
  have ndk : (keys (top :: rest)).Nodup := by rw [← hs]; exact h.nodup_keys
  have ndk' := ndk
  simp only [keys, List.map_cons, List.nodup_cons] at ndk'
  have hdisj := h.disjoint
  have hso := h.stackOK
  rw [hs] at hso
  have htm := h.top_callees_memo nm hs
  let top1 : Frame := { top with callees := addCallee k top.callees }
  have hreg : regTop k st.stack = top1 :: rest := by rw [hs]; rfl
  have ndk1 : (keys (top1 :: rest)).Nodup := ndk
  have hkin : k ∈ top1.callees := mem_addCallee.2 (Or.inr rfl)
  -- the set of marked keys and what the search returns
  obtain ⟨mids, hmids, htn, ⟨low, hlow, _⟩, hkmark, _, hcc', hcyc', _⟩ := mark_key h nm hs hk
  have hcc : checkCyclic ((top1 :: rest).length + 1) top.key (top1 :: rest) k
      = .ok (true, markSet (fun x => (keys mids).contains x || (x == top.key && k == top.key)) (top1 :: rest)) := hcc'
  have hcyc : ∀ E : Key → Key → Prop, (∀ f ∈ top1 :: rest, ∀ x ∈ f.callees, E f.key x) →
      ∀ x, (x = top.key ∨ x ∈ keys mids) → OnCycle E x := hcyc'
  let Q : Key → Bool := fun x => (x == top.key) || ((keys mids).contains x || (x == top.key && k == top.key))
  have hQ : ∀ x, Q x = true ↔ (x = top.key ∨ x ∈ keys mids) := by
    intro x
    simp only [Q, Bool.or_eq_true, beq_iff_eq, List.contains_eq_mem, decide_eq_true_eq, Bool.and_eq_true]
    constructor
    · rintro (h | h | ⟨h, _⟩)
      · exact Or.inl h
      · exact Or.inr h
      · exact Or.inl h
    · rintro (h | h)
      · exact Or.inl h
      · exact Or.inr (Or.inl h)
  have hfinal : markFrame top.key
      (markSet (fun x => (keys mids).contains x || (x == top.key && k == top.key)) (top1 :: rest))
      = markSet Q (top1 :: rest) := by
    rw [markFrame_eq_markSet, markSet_markSet]
  rw [hreg]
  refine ⟨_, hcc, ?_, ?_, ?_⟩
  all_goals rw [hfinal]
  · -- the invariant
    have hkeysQ : keys (markSet Q (top1 :: rest)) = keys st.stack := by
      rw [keys_markSet, hs]; rfl
    have hQtop : Q top.key = true := (hQ _).2 (Or.inl rfl)
    have hunf : markSet Q (top1 :: rest) = { top1 with inScc := true } :: markSet Q rest := by
      simp only [markSet, List.map_cons]
      have : Q top1.key = true := hQtop
      simp [this]
    have hedges : ∀ f ∈ top1 :: rest, ∀ x ∈ f.callees,
        Edge { st with stack := markSet Q (top1 :: rest) } f.key x := by
      intro f hf x hx
      right
      refine ⟨_, mem_markSet_of_mem (P := Q) hf, ?_, ?_⟩
      · by_cases hq : Q f.key <;> simp [hq]
      · by_cases hq : Q f.key <;> simp [hq, hx]
    have hmono : ∀ a b, Edge st a b → Edge { st with stack := markSet Q (top1 :: rest) } a b := by
      refine edge_mono (st := st) (st' := { st with stack := markSet Q (top1 :: rest) }) (fun d hd => hd) ?_
      intro f hf
      left
      rw [hs] at hf
      rcases List.mem_cons.1 hf with rfl | hf
      · refine ⟨_, mem_markSet_of_mem (P := Q) (f := top1) (by simp), ?_, ?_⟩
        · by_cases hq : Q top1.key <;> simp [hq, top1]
        · intro x hx
          by_cases hq : Q top1.key <;> simp [hq, top1, mem_addCallee, hx]
      · refine ⟨_, mem_markSet_of_mem (P := Q) (List.mem_cons_of_mem _ hf), ?_, ?_⟩
        · by_cases hq : Q f.key <;> simp [hq]
        · intro x hx
          by_cases hq : Q f.key <;> simp [hq, hx]
    have hmarkedk : MarkedKey (markSet Q (top1 :: rest)) k := by
      rcases hkmark with hkt | hkm
      · refine ⟨{ top1 with inScc := true }, by rw [hunf]; simp, ?_, rfl⟩
        simp [top1, hkt]
      · obtain ⟨g, hg, hgk⟩ := List.mem_map.1 hkm
        have hqg : Q g.key = true := (hQ _).2 (Or.inr (List.mem_map_of_mem hg))
        refine ⟨_, mem_markSet_of_mem (P := Q) (List.mem_cons_of_mem _ (hmids g hg)), ?_, ?_⟩
        · simp only [hqg, if_true]; exact hgk
        · simp only [hqg, if_true]
    refine ⟨?_, ?_, ?_, ?_, ?_, h.memoOK, ?_, ?_, ?_⟩
    · show (keys (markSet Q (top1 :: rest)) ++ mkeys st.memo).Nodup
      rw [hkeysQ]; exact h.nodup
    · show ∀ x ∈ keys (markSet Q (top1 :: rest)) ++ mkeys st.memo, x < p.length
      rw [hkeysQ]; exact h.bound
    · show StackOK (mkeys st.memo) (markSet Q (top1 :: rest))
      rw [hunf]
      refine ⟨?_, chainBelow_shape rest (markSet Q rest) top.key (shape_markSet Q rest).symm hso.2⟩
      intro x hx
      rcases mem_addCallee.1 hx with hx | rfl
      · exact Or.inl (htm x hx)
      · right
        refine ⟨rfl, ?_⟩
        rw [← hunf]; exact hmarkedk
    · show MarkPrefix (markSet Q (top1 :: rest))
      refine ⟨markSet Q (top1 :: mids), markSet Q low, ?_, ?_, ?_⟩
      · rw [← markSet_append, hlow]; rfl
      · intro f hf
        obtain ⟨f0, hf0, hk0, _, hm0⟩ := mem_markSet hf
        have : Q f0.key = true := by
          rcases List.mem_cons.1 hf0 with rfl | hf0
          · exact hQtop
          · exact (hQ _).2 (Or.inr (List.mem_map_of_mem hf0))
        rw [hm0, this]; simp
      · intro f hf
        obtain ⟨f0, hf0, hk0, _, hm0⟩ := mem_markSet hf
        have hf0r : f0 ∈ rest := by rw [hlow]; exact List.mem_append_right _ hf0
        have h1 : f0.inScc = false := nm f0 (by rw [hs]; exact List.mem_cons_of_mem _ hf0r)
        have h2 : Q f0.key = false := by
          rw [Bool.eq_false_iff]
          intro hq
          rcases (hQ _).1 hq with e | hm
          · exact ndk'.1 (by rw [← e]; exact List.mem_map_of_mem hf0r)
          · -- a key of `mids` cannot also be a key of `low`
            have ndr : (keys rest).Nodup := ndk'.2
            rw [hlow] at ndr
            simp only [keys, List.map_append] at ndr
            exact (List.nodup_append.1 ndr).2.2 f0.key hm f0.key (List.mem_map_of_mem hf0) rfl
        rw [hm0, h1, h2]; rfl
    · intro d hd x hx
      exact Or.inl (h.closed_of_noMarks nm d hd x hx)
    · intro f hf x hx
      obtain ⟨f0, hf0, hk0, hc0, _⟩ := mem_markSet hf
      rw [hk0]
      rw [hc0] at hx
      rcases List.mem_cons.1 hf0 with rfl | hf0
      · rcases mem_addCallee.1 hx with hx | rfl
        · exact h.frameAsk top (by rw [hs]; simp) x hx
        · exact hask
      · exact h.frameAsk f0 (by rw [hs]; exact List.mem_cons_of_mem _ hf0) x hx
    · intro f hf hm
      obtain ⟨f0, hf0, hk0, _, hm0⟩ := mem_markSet hf
      have h1 : f0.inScc = false := by
        rcases List.mem_cons.1 hf0 with rfl | hf0
        · exact nm top (by rw [hs]; simp)
        · exact nm f0 (by rw [hs]; exact List.mem_cons_of_mem _ hf0)
      rw [hm0, h1, Bool.false_or] at hm
      rw [hk0]
      exact hcyc _ hedges f0.key ((hQ _).1 hm)
    · intro d hd hm
      exact (h.cycM d hd hm).mono hmono
  · rw [shape_markSet]
  · have hQtop : Q top1.key = true := (hQ _).2 (Or.inl rfl)
    refine ⟨{ top1 with inScc := true }, markSet Q rest, ?_, rfl⟩
    simp only [markSet, List.map_cons]
    simp [hQtop]

end Qbice.Cycle
