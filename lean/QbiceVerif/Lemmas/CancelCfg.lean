import QbiceVerif.Model.CancelLts

/-! # C05 — the configuration never changes -/

namespace QbiceVerif.CancelLts

@[simp] theorem setTask_cfg (s : State) (t : Tid) (T : Task) : (setTask s t T).cfg = s.cfg := rfl
@[simp] theorem endTask_cfg (s : State) (t : Tid) (T : Task) (o : Outcome) : (endTask s t T o).cfg = s.cfg := rfl
@[simp] theorem dropBatch_cfg (s : State) (b : Option Bid) : (dropBatch s b).cfg = s.cfg := by cases b <;> rfl

theorem cancelTask_cfg (s : State) (t : Tid) (T : Task) : (cancelTask s t T).cfg = s.cfg := by
  unfold cancelTask
  split
  · split <;> simp
  · split
    · simp
    · split <;> simp

theorem step_cfg {s s' : State} {e : Ev} (h : step s e = some s') : s'.cfg = s.cfg := by
  cases e <;> simp only [step] at h <;> (repeat' split at h) <;>
    first
    | (cases h; done)
    | (injection h with h; subst h; first | rfl | simp [cancelTask_cfg])

theorem reachable_cfg {cfg : Cfg} {s : State} (hr : Reachable cfg s) : s.cfg = cfg := by
  induction hr with
  | init => rfl
  | step e _ hs ih => rw [step_cfg hs, ih]

end QbiceVerif.CancelLts
