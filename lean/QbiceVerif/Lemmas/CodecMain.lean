/-
The round-trip theorem of `Model/Codec` (property C12): `decode ∘ encode` on the whole type universe,
by structural recursion over the value (unbounded nesting).
-/
import QbiceVerif.Lemmas.CodecVarint

namespace QbiceVerif.Codec

theorem decodeVariant_eq (fix : Bool) : ∀ (vts : TyList) (i : Nat) (bs : Bytes),
    decodeVariant fix vts i bs = (match vts.get? i with | some t => decode fix t bs | none => .error .invalid)
  | .nil, i, bs => by simp [decodeVariant, TyList.get?]
  | .cons t ts, 0, bs => by simp [decodeVariant, TyList.get?]
  | .cons t ts, i + 1, bs => by simp [decodeVariant, TyList.get?, decodeVariant_eq fix ts i bs]

theorem get?_noWide : ∀ (vts : TyList) (i : Nat) (t : Ty), vts.noWideBitvec = true → vts.get? i = some t → t.noWideBitvec = true
  | .nil, i, t, _, h => by simp [TyList.get?] at h
  | .cons t' ts, 0, t, hn, h => by
    simp [TyList.noWideBitvec] at hn
    simp [TyList.get?] at h; subst h; exact hn.1
  | .cons t' ts, i + 1, t, hn, h => by
    simp [TyList.noWideBitvec] at hn
    simp [TyList.get?] at h; exact get?_noWide ts i t hn.2 h

theorem readWords_encWords (w : IntW) (ws : List Nat) (h : ws.all (uintOk w) = true) (rest : Bytes) :
    readWords w ws.length (encWords w ws ++ rest) = .ok (ws, rest) := by
  induction ws with
  | nil => simp [readWords, encWords]
  | cons x xs ih =>
    simp only [List.all_cons, Bool.and_eq_true] at h
    simp only [List.length_cons, readWords, encWords, List.append_assoc]
    rw [decUInt_encUInt w x h.1]
    simp only [bind, Except.bind]
    rw [ih h.2]
    simp [pure, Except.pure]

theorem encWords_w8_length (ws : List Nat) : (encWords .w8 ws).length = ws.length := by
  induction ws with
  | nil => rfl
  | cons x xs ih => simp [encWords, encUInt, ih]

theorem assembleWords_w8 (msb : Bool) (ws : List Nat) (h : ws.all (uintOk .w8) = true) :
    assembleWords .w8 msb ws.length (encWords .w8 ws) = ws := by
  induction ws with
  | nil => simp [assembleWords]
  | cons x xs ih =>
    simp only [List.all_cons, Bool.and_eq_true] at h
    have hx : x < 256 := by have := h.1; simp [uintOk, IntW.bits] at this; exact of_decide_eq_true this
    have : (UInt8.ofNat x).toNat = x := by simp [UInt8.toNat_ofNat']; omega
    simp only [List.length_cons, assembleWords, encWords, encUInt, IntW.bits]
    simp [fromBE, fromLE, this, ih h.2]


theorem bind_ok {α β : Type} (x : α) (f : α → Except Err β) : (Except.ok x >>= f) = f x := rfl

mutual
theorem dec_enc (fix : Bool) (t : Ty) (v : Val) (rest : Bytes) (hw : wt t v = true)
    (hb : fix = true ∨ t.noWideBitvec = true) :
    decode fix t (encode t v ++ rest) = .ok (normalize t v, rest) := by
  cases t with
  | uint w =>
    cases v <;> simp [wt] at hw
    simp [decode, encode, normalize, decUInt_encUInt w _ hw, bind_ok, pure, Except.pure]
  | sint w =>
    cases v <;> simp [wt] at hw
    simp [decode, encode, normalize, decSInt_encSInt w _ hw, bind_ok, pure, Except.pure]
  | nzu w =>
    cases v <;> simp [wt] at hw
    simp [decode, encode, normalize, decUInt_encUInt w _ hw.1, bind_ok, pure, Except.pure, hw.2]
  | nzs w =>
    cases v <;> simp [wt] at hw
    simp [decode, encode, normalize, decSInt_encSInt w _ hw.1, bind_ok, pure, Except.pure, hw.2]
  | bool =>
    cases v <;> simp [wt] at hw
    rename_i b
    cases b <;> simp [decode, encode, normalize, readByte, bind_ok, pure, Except.pure]
  | char =>
    cases v <;> simp [wt] at hw
    rename_i n
    have hn : n < 2^32 := by
      simp [isScalar] at hw; omega
    simp [decode, encode, normalize, varint_roundtrip 32 n (by decide) hn, bind_ok, pure, Except.pure, hw]
  | f32 =>
    cases v <;> simp [wt] at hw
    rename_i n
    have h1 := readRaw_append (leBytes 4 n) rest
    rw [leBytes_length] at h1
    simp [decode, encode, normalize, h1, bind_ok, pure, Except.pure, fromLE_leBytes]
    omega
  | f64 =>
    cases v <;> simp [wt] at hw
    rename_i n
    have h1 := readRaw_append (leBytes 8 n) rest
    rw [leBytes_length] at h1
    simp [decode, encode, normalize, h1, bind_ok, pure, Except.pure, fromLE_leBytes]
    omega
  | unit =>
    cases v <;> simp [wt] at hw
    simp [decode, encode, normalize, pure, Except.pure]
  | str =>
    cases v <;> simp [wt] at hw
    rename_i bs
    simp [decode, encode, normalize, varint_roundtrip 64 _ (by decide) hw.1, bind_ok, pure, Except.pure,
      readRaw_append, hw.2]
  | option t =>
    cases v
    case tagged tag p =>
      cases tag with
      | zero =>
        cases p <;> simp [wt] at hw
        simp [decode, encode, normalize, readByte, bind_ok, pure, Except.pure]
      | succ n =>
        cases n with
        | zero =>
          simp [wt] at hw
          have ih := dec_enc fix t p rest hw (by simpa [Ty.noWideBitvec] using hb)
          simp [decode, encode, normalize, readByte, bind_ok, pure, Except.pure, ih]
        | succ m => simp [wt] at hw
    all_goals simp [wt] at hw
  | result t e =>
    cases v
    case tagged tag p =>
      have hb' : (fix = true ∨ t.noWideBitvec = true) ∧ (fix = true ∨ e.noWideBitvec = true) := by
        simp [Ty.noWideBitvec] at hb; rcases hb with h | h
        · exact ⟨Or.inl h, Or.inl h⟩
        · exact ⟨Or.inr h.1, Or.inr h.2⟩
      cases tag with
      | zero =>
        simp [wt] at hw
        have ih := dec_enc fix e p rest hw hb'.2
        simp [decode, encode, normalize, readByte, bind_ok, pure, Except.pure, ih]
      | succ n =>
        cases n with
        | zero =>
          simp [wt] at hw
          have ih := dec_enc fix t p rest hw hb'.1
          simp [decode, encode, normalize, readByte, bind_ok, pure, Except.pure, ih]
        | succ m => simp [wt] at hw
    all_goals simp [wt] at hw
  | seq t =>
    cases v <;> simp [wt] at hw
    rename_i vs
    have ih := dec_enc_seq fix t vs rest hw.2 (by simpa [Ty.noWideBitvec] using hb)
    simp [decode, encode, normalize, varint_roundtrip 64 _ (by decide) hw.1, bind_ok, pure, Except.pure, ih]
  | array n t =>
    cases v <;> simp [wt] at hw
    rename_i vs
    have ih := dec_enc_seq fix t vs rest hw.2 (by simpa [Ty.noWideBitvec] using hb)
    rw [hw.1] at ih
    simp [decode, encode, normalize, bind_ok, pure, Except.pure, ih]
  | tuple ts =>
    cases v <;> simp [wt] at hw
    rename_i vs
    have ih := dec_enc_tuple fix ts vs rest hw (by simpa [Ty.noWideBitvec] using hb)
    simp [decode, encode, normalize, bind_ok, pure, Except.pure, ih]
  | «enum» vts =>
    cases v <;> simp [wt] at hw
    rename_i i p
    cases hg : vts.get? i with
    | none => simp [hg] at hw
    | some t =>
      simp [hg] at hw
      have hb' : fix = true ∨ t.noWideBitvec = true := by
        rcases hb with h | h
        · exact Or.inl h
        · exact Or.inr (get?_noWide vts i t (by simpa [Ty.noWideBitvec] using h) hg)
      have ih := dec_enc fix t p rest hw.2 hb'
      simp [decode, encode, normalize, hg, varint_roundtrip 64 _ (by decide) hw.1, bind_ok, pure, Except.pure,
        decodeVariant_eq, ih]
  | bound t =>
    cases v
    case tagged tag p =>
      cases tag with
      | zero =>
        cases p <;> simp [wt] at hw
        simp [decode, encode, normalize, readByte, bind_ok, pure, Except.pure]
      | succ n =>
        cases n with
        | zero =>
          simp [wt] at hw
          have ih := dec_enc fix t p rest hw (by simpa [Ty.noWideBitvec] using hb)
          simp [decode, encode, normalize, readByte, bind_ok, pure, Except.pure, ih]
        | succ m =>
          cases m with
          | zero =>
            simp [wt] at hw
            have ih := dec_enc fix t p rest hw (by simpa [Ty.noWideBitvec] using hb)
            simp [decode, encode, normalize, readByte, bind_ok, pure, Except.pure, ih]
          | succ k => simp [wt] at hw
    all_goals simp [wt] at hw
  | duration =>
    cases v
    case list vs =>
      cases vs with
      | nil => simp [wt] at hw
      | cons a vs =>
        cases vs with
        | nil => cases a <;> simp [wt] at hw
        | cons b vs =>
          cases vs with
          | cons c vs => cases a <;> cases b <;> simp [wt] at hw
          | nil =>
            cases a <;> cases b <;> simp [wt] at hw
            rename_i sec ns
            have hns : ns < 2^32 := by omega
            simp [decode, encode, normalize, varint_roundtrip 64 sec (by decide) hw.1,
              varint_roundtrip 32 ns (by decide) hns, bind_ok, pure, Except.pure, hw.2]
    all_goals simp [wt] at hw
  | skip d =>
    simp [decode, encode, normalize, pure, Except.pure]
  | bitvec w msb =>
    cases v
    case bits len words =>
      simp [wt] at hw
      obtain ⟨⟨hlen, hwl⟩, hall⟩ := hw
      have hall' : words.all (uintOk w) = true := by simpa using hall
      cases fix with
      | true =>
        have h1 := readWords_encWords w words hall' rest
        rw [hwl] at h1
        simp [decode, encode, normalize, varint_roundtrip 64 len (by decide) hlen, bind_ok, pure, Except.pure, h1]
      | false =>
        have hw8 : w = .w8 := by
          rcases hb with h | h
          · cases h
          · simpa [Ty.noWideBitvec] using h
        subst hw8
        have h1 := readRaw_append (encWords .w8 words) rest
        rw [encWords_w8_length, hwl] at h1
        have h2 := assembleWords_w8 msb words hall'
        rw [hwl] at h2
        simp [IntW.bits] at h1 h2
        simp [decode, encode, normalize, varint_roundtrip 64 len (by decide) hlen, bind_ok, pure, Except.pure,
          IntW.bits, h1, h2]
    all_goals simp [wt] at hw
theorem dec_enc_seq (fix : Bool) (t : Ty) (vs : ValList) (rest : Bytes) (hw : wtSeq t vs = true)
    (hb : fix = true ∨ t.noWideBitvec = true) :
    decodeMany (decode fix t) vs.length (encodeSeq t vs ++ rest) = .ok (normalizeSeq t vs, rest) := by
  cases vs with
  | nil => simp [decodeMany, encodeSeq, normalizeSeq, ValList.length]
  | cons v vs =>
    simp [wtSeq] at hw
    have ih1 := dec_enc fix t v (encodeSeq t vs ++ rest) hw.1 hb
    have ih2 := dec_enc_seq fix t vs rest hw.2 hb
    simp [decodeMany, encodeSeq, normalizeSeq, ValList.length, ih1, ih2, bind_ok, pure, Except.pure]
theorem dec_enc_tuple (fix : Bool) (ts : TyList) (vs : ValList) (rest : Bytes) (hw : wtTuple ts vs = true)
    (hb : fix = true ∨ ts.noWideBitvec = true) :
    decodeTuple fix ts (encodeTuple ts vs ++ rest) = .ok (normalizeTuple ts vs, rest) := by
  cases ts with
  | nil =>
    cases vs with
    | nil => simp [decodeTuple, encodeTuple, normalizeTuple, pure, Except.pure]
    | cons v vs => simp [wtTuple] at hw
  | cons t ts =>
    cases vs with
    | nil => simp [wtTuple] at hw
    | cons v vs =>
      simp [wtTuple] at hw
      have hb' : (fix = true ∨ t.noWideBitvec = true) ∧ (fix = true ∨ ts.noWideBitvec = true) := by
        simp [TyList.noWideBitvec] at hb; rcases hb with h | h
        · exact ⟨Or.inl h, Or.inl h⟩
        · exact ⟨Or.inr h.1, Or.inr h.2⟩
      have ih1 := dec_enc fix t v (encodeTuple ts vs ++ rest) hw.1 hb'.1
      have ih2 := dec_enc_tuple fix ts vs rest hw.2 hb'.2
      simp [decodeTuple, encodeTuple, normalizeTuple, ih1, ih2, bind_ok, pure, Except.pure]
end

theorem get?_noSkip : ∀ (vts : TyList) (i : Nat) (t : Ty), vts.noSkip = true → vts.get? i = some t → t.noSkip = true
  | .nil, i, t, _, h => by simp [TyList.get?] at h
  | .cons t' ts, 0, t, hn, h => by
    simp [TyList.noSkip] at hn
    simp [TyList.get?] at h; subst h; exact hn.1
  | .cons t' ts, i + 1, t, hn, h => by
    simp [TyList.noSkip] at hn
    simp [TyList.get?] at h; exact get?_noSkip ts i t hn.2 h

mutual
theorem normalize_id (t : Ty) (v : Val) (hs : t.noSkip = true) : normalize t v = v := by
  cases t with
  | option t =>
    cases v
    case tagged tag p =>
      cases tag with
      | zero => simp [normalize]
      | succ n => simp [normalize, normalize_id t p (by simpa [Ty.noSkip] using hs)]
    all_goals simp [normalize]
  | result t e =>
    simp [Ty.noSkip] at hs
    cases v
    case tagged tag p =>
      cases tag with
      | zero => simp [normalize, normalize_id e p hs.2]
      | succ n => simp [normalize, normalize_id t p hs.1]
    all_goals simp [normalize]
  | seq t =>
    cases v
    case list vs => simp [normalize, normalize_id_seq t vs (by simpa [Ty.noSkip] using hs)]
    all_goals simp [normalize]
  | array n t =>
    cases v
    case list vs => simp [normalize, normalize_id_seq t vs (by simpa [Ty.noSkip] using hs)]
    all_goals simp [normalize]
  | tuple ts =>
    cases v
    case list vs => simp [normalize, normalize_id_tuple ts vs (by simpa [Ty.noSkip] using hs)]
    all_goals simp [normalize]
  | «enum» vts =>
    cases v
    case tagged i p =>
      cases hg : vts.get? i with
      | none => simp [normalize, hg]
      | some t =>
        simp [normalize, hg, normalize_id t p (get?_noSkip vts i t (by simpa [Ty.noSkip] using hs) hg)]
    all_goals simp [normalize]
  | bound t =>
    cases v
    case tagged tag p =>
      cases tag with
      | zero => simp [normalize]
      | succ n => simp [normalize, normalize_id t p (by simpa [Ty.noSkip] using hs)]
    all_goals simp [normalize]
  | skip d => simp [Ty.noSkip] at hs
  | _ => simp [normalize]
theorem normalize_id_seq (t : Ty) (vs : ValList) (hs : t.noSkip = true) : normalizeSeq t vs = vs := by
  cases vs with
  | nil => simp [normalizeSeq]
  | cons v vs => simp [normalizeSeq, normalize_id t v hs, normalize_id_seq t vs hs]
theorem normalize_id_tuple (ts : TyList) (vs : ValList) (hs : ts.noSkip = true) : normalizeTuple ts vs = vs := by
  cases ts with
  | nil => simp [normalizeTuple]
  | cons t ts =>
    simp [TyList.noSkip] at hs
    cases vs with
    | nil => simp [normalizeTuple]
    | cons v vs => simp [normalizeTuple, normalize_id t v hs.1, normalize_id_tuple ts vs hs.2]
end

/-- encodings of well-typed values are prefix-free (up to skipped fields) -/
theorem enc_prefix_free (t : Ty) (v₁ v₂ : Val) (h₁ : wt t v₁ = true) (h₂ : wt t v₂ = true)
    (hp : encode t v₁ <+: encode t v₂) : normalize t v₁ = normalize t v₂ ∧ encode t v₁ = encode t v₂ := by
  obtain ⟨r, hr⟩ := hp
  have e1 := dec_enc true t v₁ r h₁ (Or.inl rfl)
  have e2 := dec_enc true t v₂ [] h₂ (Or.inl rfl)
  rw [List.append_nil, ← hr, e1] at e2
  injection e2 with e2
  injection e2 with e3 e4
  subst e4
  exact ⟨e3, by simpa using hr⟩

theorem dec_enc_all (fix : Bool) : ∀ (tvs : List (Ty × Val)) (rest : Bytes),
    (∀ tv ∈ tvs, wt tv.1 tv.2 = true ∧ (fix = true ∨ tv.1.noWideBitvec = true)) →
    decodeAll fix (tvs.map (·.1)) (encodeAll tvs ++ rest)
      = .ok (tvs.map (fun tv => normalize tv.1 tv.2), rest)
  | [], rest, _ => by simp [decodeAll, encodeAll]
  | (t, v) :: tvs, rest, h => by
    have h0 := h (t, v) (by simp)
    have ih := dec_enc_all fix tvs rest (fun tv htv => h tv (by simp [htv]))
    have e := dec_enc fix t v (encodeAll tvs ++ rest) h0.1 h0.2
    simp [decodeAll, encodeAll, e, ih, bind_ok, pure, Except.pure]

end QbiceVerif.Codec
