/-
Lemmas for C08, part 3: the images of the store between two logical write batches of a core-model
query, and the engine invariant on every one of them.

In the code a key publishes exactly one batch, at the very end of its processing (`set_computed`
after the executor returned, `clean_query` after all recorded dependencies were checked): the dirty
edges `(k, d)` that a repair of `k` has found clean are removed from the store only by that batch.
The core model (`Model/EngineCore.lean`) clears them in memory as it goes (`repairDeps`), so the
*store image* at a moment in the middle of `k`'s processing is the memory state of the model with the
dirty row of every key still in progress put back to what it was when its processing began
(`restoreRow`).  `imagesQ` lists these images; `images_ok` shows that each satisfies the C01
invariant, has the epoch and the inputs of the state the query started from.
-/
import QbiceVerif.Lemmas.EngineCore6
namespace Qbice.Core

/-- the dirty row of `k` as it was in `s0` (the store still has it), everything else as in `t` -/
def restoreRow (k : Key) (s0 t : St) : St :=
  { t with dirty := fun a b => if a = k then s0.dirty k b else t.dirty a b }

/-- in a state satisfying the invariant every recorded edge into a key that is not settled is dirty -/
theorem edges_into_unsettled_dirty {p : Program} {s : St} (inv : Inv p s) {k : Key}
    (hns : ¬ Settled s k) {y : Key} {n : Node} (hy : s.nodes y = some n) {o : Val}
    (hm : (k, o) ∈ n.deps) : s.dirty y k = true := by
  cases h : s.dirty y k with
  | true => rfl
  | false => exact absurd (inv.clean_settled y n hy k o hm h).2 hns

/-- a settled cone never contains a key all of whose incoming edges are dirty (except as its root) -/
theorem Settled.restoreRow {s0 t : St} {k x : Key} (h : Settled t x) (hx : x ≠ k)
    (hin : ∀ y n o, t.nodes y = some n → (k, o) ∈ n.deps → t.dirty y k = true) :
    Settled (restoreRow k s0 t) x := by
  induction h with
  | mk x n hn hclean hval hsub ih =>
    refine Settled.mk x n hn ?_ hval ?_
    · intro d o hm
      simp only [Qbice.Core.restoreRow, if_neg hx]
      exact hclean d o hm
    · intro d o hm
      apply ih d o hm
      intro e
      subst e
      have := hin x n o hn hm
      rw [hclean d o hm] at this
      cases this

/-- putting dirty marks back on the row of a key that is not verified and has only dirty incoming
    edges preserves the invariant -/
theorem Inv.restoreRow {p : Program} {s0 t : St} (inv : Inv p t) {k : Key}
    (hnv : ¬ Verified t k)
    (hin : ∀ y n o, t.nodes y = some n → (k, o) ∈ n.deps → t.dirty y k = true)
    (hsup : ∀ b, t.dirty k b = true → s0.dirty k b = true) : Inv p (restoreRow k s0 t) := by
  refine ⟨inv.kind, inv.down, inv.nodup, inv.trace, inv.stamp, ?_, ?_⟩
  · intro x nx hx hvx d o hm
    have hxk : x ≠ k := by
      intro e; subst e; exact hnv ⟨nx, hx, hvx⟩
    simp only [Qbice.Core.restoreRow, if_neg hxk]
    exact inv.verified_clean x nx hx hvx d o hm
  · intro x nx hx d o hm hcl
    have hcl' : t.dirty x d = false := by
      simp only [Qbice.Core.restoreRow] at hcl
      by_cases e : x = k
      · subst e
        rw [if_pos rfl] at hcl
        cases h : t.dirty x d with
        | false => rfl
        | true => rw [hsup d h] at hcl; cases hcl
      · rw [if_neg e] at hcl; exact hcl
    obtain ⟨h1, h2⟩ := inv.clean_settled x nx hx d o hm hcl'
    have hdk : d ≠ k := by
      intro e; subst e
      have := hin x nx o hx hm
      rw [hcl'] at this; cases this
    exact ⟨h1, h2.restoreRow hdk hin⟩

theorem restoreRow_nodes (k : Key) (s0 t : St) : (restoreRow k s0 t).nodes = t.nodes := rfl
theorem restoreRow_epoch (k : Key) (s0 t : St) : (restoreRow k s0 t).epoch = t.epoch := rfl
theorem restoreRow_inputs (k : Key) (s0 t : St) : inputsOf (restoreRow k s0 t) = inputsOf t := rfl
theorem restoreRow_ext (p : Program) (k : Key) (s0 t : St) : extOf p (restoreRow k s0 t) = extOf p t := rfl
theorem restoreRow_world (k : Key) (s0 t : St) : (restoreRow k s0 t).world = t.world := rfl


-- ------------------------------------------------------------------ the images

/-- images published while the recorded dependencies of `k` are repaired (memory side: the rows of
    keys in progress are put back by the caller); `I d s` = the images of a query for `d` from `s` -/
def imagesRep (q : Q) (I : Key → St → List St) (k : Key) : List (Key × Val) → St → List St
  | [], _ => []
  | (d, o) :: rest, s =>
    if s.dirty k d = false then imagesRep q I k rest s
    else I d s ++ (match q d s with
      | .error _ => []
      | .ok (v, s1) => if v ≠ o then [] else imagesRep q I k rest (clearDirty s1 k d))

/-- images published while the members of an unordered group are queried (one after the other) -/
def imagesMany (q : Q) (I : Key → St → List St) : List Key → St → List St
  | [], _ => []
  | d :: rest, s => I d s ++ (match q d s with
      | .error _ => []
      | .ok (_, s1) => imagesMany q I rest s1)

/-- images published while an executor runs -/
def imagesRun (q : Q) (I : Key → St → List St) : Prog → St → List St
  | .ret _, _ => []
  | .ask d cont, s => I d s ++ (match q d s with
      | .error _ => []
      | .ok (v, s1) => imagesRun q I (cont v) s1)
  | .askAll ks cont, s => imagesMany q I ks s ++ (match askMany q ks s with
      | .error _ => []
      | .ok (kvs, s1) => imagesRun q I (cont (kvs.map (·.2))) s1)

/-- the store images between the logical write batches of `query p fuel k s` (the last one is the
    state after `k`'s own batch) -/
def imagesQ (p : Program) : Nat → Key → St → List St
  | 0, _, _ => []
  | fuel + 1, k, s =>
    let fin : List St := match query p (fuel + 1) k s with
      | .ok (_, s') => [s']
      | .error _ => []
    match s.nodes k with
    | none =>
      match p[k]? with
      | none => []
      | some d =>
        match d.kind with
        | .input => []
        | .external => fin
        | .normal => imagesRun (query p fuel) (imagesQ p fuel) d.prog s ++ fin
    | some n =>
      if n.lastVerified = s.epoch then []
      else if n.kind ≠ .normal then fin
      else
        match p[k]? with
        | none => []
        | some d =>
          (imagesRep (query p fuel) (imagesQ p fuel) k n.deps s).map (restoreRow k s) ++
          (match repairDeps (query p fuel) k n.deps s with
           | .ok (true, s1) => (imagesRun (query p fuel) (imagesQ p fuel) d.prog s1).map (restoreRow k s)
           | _ => []) ++ fin

/-- what is shown of every image `t` of a query started in `s` that touches only keys below `b` -/
structure ImgOK (p : Program) (b : Nat) (s t : St) : Prop where
  inv : Inv p t
  touches : Touches b s t
  epoch : t.epoch = s.epoch
  inputs : inputsOf t = inputsOf s
  ext : extOf p t = extOf p s
  world : t.world = s.world

theorem imagesRep_mem {p : Program} {q : Q} {I : Key → St → List St} {k : Key} (hq : QSpec p q k)
    {n : Node} {s : St} :
    ∀ (deps : List (Key × Val)) (sc : St), Inv p sc → Frame p s sc → Touches (k + 1) s sc →
      sc.nodes k = some n → (∀ e, e ∈ deps → e ∈ n.deps) →
      ∀ t, t ∈ imagesRep q I k deps sc →
        ∃ sc' d, d < k ∧ Inv p sc' ∧ Frame p s sc' ∧ Touches (k + 1) s sc' ∧ sc'.nodes k = some n ∧
          sc'.dirty k d = true ∧ (∃ o, (d, o) ∈ n.deps) ∧ t ∈ I d sc' := by
  intro deps
  induction deps with
  | nil => intro sc _ _ _ _ _ t ht; simp [imagesRep] at ht
  | cons e rest ih =>
    intro sc inv fr tc hk hsub t ht
    obtain ⟨d, o⟩ := e
    have hm : (d, o) ∈ n.deps := hsub _ (List.mem_cons_self ..)
    have hsub' : ∀ e, e ∈ rest → e ∈ n.deps := fun e he => hsub e (List.mem_cons_of_mem _ he)
    simp only [imagesRep] at ht
    split at ht
    · exact ih sc inv fr tc hk hsub' t ht
    · rename_i hdirty
      have hdirty : sc.dirty k d = true := by
        cases h : sc.dirty k d with
        | true => rfl
        | false => exact absurd h hdirty
      have hdk : d < k := inv.down k n hk d o hm
      rw [List.mem_append] at ht
      cases ht with
      | inl ht => exact ⟨sc, d, hdk, inv, fr, tc, hk, hdirty, ⟨o, hm⟩, ht⟩
      | inr ht =>
        have hqd := hq d hdk sc inv
        cases hr : q d sc with
        | error e => rw [hr] at ht; simp at ht
        | ok r =>
          obtain ⟨v, s1⟩ := r
          rw [hr] at ht hqd
          obtain ⟨i1, f1, t1, c1, nd, hnd, hvd, hver⟩ := hqd
          simp only at i1 f1 t1 c1 hnd hvd hver ht
          split at ht
          · simp at ht
          · rename_i heq
            have heq : v = o := by simpa using heq
            subst heq
            have k1 : s1.nodes k = some n := by rw [(t1 k (by komega)).1]; exact hk
            have i2 : Inv p (clearDirty s1 k d) :=
              i1.clearDirty k1 hm hnd hvd (verified_settled i1 hnd hver)
            have f2 : Frame p s (clearDirty s1 k d) := (fr.trans f1).trans (Frame.clearDirty p s1 k d)
            have t2 : Touches (k + 1) s (clearDirty s1 k d) := by
              intro x hx
              obtain ⟨a0, b0⟩ := tc x hx
              obtain ⟨a, b⟩ := t1 x (by komega)
              refine ⟨by rw [← a0]; exact a, fun y => ?_⟩
              simp only [clearDirty]
              rw [if_neg (by komega)]; rw [b y]; exact b0 y
            exact ih (clearDirty s1 k d) i2 f2 t2 k1 hsub' t ht

theorem imagesMany_mem {p : Program} {q : Q} {I : Key → St → List St} {k : Key} (hq : QSpec p q k)
    {s0 : St} :
    ∀ (ks : List Key) (sc : St), (∀ d, d ∈ ks → d < k) → Inv p sc → Frame p s0 sc → Touches k s0 sc →
      ∀ t, t ∈ imagesMany q I ks sc →
        ∃ sc' d, d < k ∧ Inv p sc' ∧ Frame p s0 sc' ∧ Touches k s0 sc' ∧ t ∈ I d sc' := by
  intro ks
  induction ks with
  | nil => intro sc _ _ _ _ t ht; simp [imagesMany] at ht
  | cons d rest ih =>
    intro sc hb inv fr tc t ht
    have hd : d < k := hb d (List.mem_cons_self ..)
    simp only [imagesMany, List.mem_append] at ht
    cases ht with
    | inl ht => exact ⟨sc, d, hd, inv, fr, tc, ht⟩
    | inr ht =>
      have hqd := hq d hd sc inv
      cases hr : q d sc with
      | error e => rw [hr] at ht; simp at ht
      | ok r =>
        obtain ⟨v, s1⟩ := r
        rw [hr] at ht hqd
        obtain ⟨i1, f1, t1, _⟩ := hqd
        simp only at i1 f1 t1 ht
        exact ih s1 (fun d' hm => hb d' (List.mem_cons_of_mem _ hm)) i1 (fr.trans f1)
          (tc.trans (t1.mono (by komega))) t ht

theorem imagesRun_mem {p : Program} {q : Q} {I : Key → St → List St} {k : Key} (hq : QSpec p q k)
    {s0 : St} :
    ∀ (prog : Prog) (sc : St), prog.Below k → Inv p sc → Frame p s0 sc → Touches k s0 sc →
      ∀ t, t ∈ imagesRun q I prog sc →
        ∃ sc' d, d < k ∧ Inv p sc' ∧ Frame p s0 sc' ∧ Touches k s0 sc' ∧ t ∈ I d sc' := by
  intro prog
  induction prog with
  | ret v => intro sc _ _ _ _ t ht; simp [imagesRun] at ht
  | ask d cont ih =>
    intro sc hb inv fr tc t ht
    obtain ⟨hd, hc⟩ := hb
    simp only [imagesRun, List.mem_append] at ht
    cases ht with
    | inl ht => exact ⟨sc, d, hd, inv, fr, tc, ht⟩
    | inr ht =>
      have hqd := hq d hd sc inv
      cases hr : q d sc with
      | error e => rw [hr] at ht; simp at ht
      | ok r =>
        obtain ⟨v, s1⟩ := r
        rw [hr] at ht hqd
        obtain ⟨i1, f1, t1, _⟩ := hqd
        simp only at i1 f1 t1 ht
        exact ih v s1 (hc v) i1 (fr.trans f1) (tc.trans (t1.mono (by komega))) t ht
  | askAll ks cont ih =>
    intro sc hb inv fr tc t ht
    obtain ⟨hd, hc⟩ := hb
    simp only [imagesRun, List.mem_append] at ht
    cases ht with
    | inl ht => exact imagesMany_mem hq ks sc hd inv fr tc t ht
    | inr ht =>
      have hall := askMany_spec hq ks sc hd inv
      cases hr : askMany q ks sc with
      | error e => rw [hr] at ht; simp at ht
      | ok r =>
        obtain ⟨kvs, s1⟩ := r
        rw [hr] at ht hall
        obtain ⟨i1, f1, t1, _⟩ := hall
        simp only at i1 f1 t1 ht
        exact ih _ s1 (hc _) i1 (fr.trans f1) (tc.trans t1) t ht

/-- an image of a sub-query, seen from a key `k` above it whose processing is in progress: with `k`'s
    dirty row put back it satisfies the invariant -/
theorem ImgOK.restore {p : Program} {s sc t : St} {k d : Key} {n : Node} (invs : Inv p s)
    (hnv : n.lastVerified ≠ s.epoch) (hns : ¬ Settled s k)
    (fr : Frame p s sc) (tc : Touches (k + 1) s sc) (hkc : sc.nodes k = some n) (hd : d < k)
    (h : ImgOK p (d + 1) sc t) : ImgOK p (k + 1) s (restoreRow k s t) := by
  have htk : t.nodes k = some n := by rw [(h.touches k (by komega)).1]; exact hkc
  have hep : t.epoch = s.epoch := by rw [h.epoch, fr.epoch]
  refine ⟨?_, ?_, hep, by rw [restoreRow_inputs, h.inputs, fr.inputs],
    by rw [restoreRow_ext, h.ext, fr.ext], by rw [restoreRow_world, h.world, fr.world]⟩
  · apply h.inv.restoreRow
    · rintro ⟨n', hn', hv'⟩
      rw [htk] at hn'; cases hn'
      exact hnv (by rw [hv', hep])
    · intro y ny o hy hm
      have hlt : k < y := h.inv.down y ny hy k o hm
      obtain ⟨a1, b1⟩ := h.touches y (by komega)
      obtain ⟨a0, b0⟩ := tc y (by komega)
      rw [b1 k, b0 k]
      have hy0 : s.nodes y = some ny := by rw [← a0, ← a1]; exact hy
      exact edges_into_unsettled_dirty invs hns hy0 hm
    · intro b hb
      rw [(h.touches k (by komega)).2 b] at hb
      exact fr.dirty k b hb
  · intro x hx
    obtain ⟨a1, b1⟩ := h.touches x (by komega)
    obtain ⟨a0, b0⟩ := tc x hx
    refine ⟨by rw [restoreRow_nodes, a1, a0], fun y => ?_⟩
    simp only [Qbice.Core.restoreRow]
    rw [if_neg (by komega), b1 y, b0 y]


theorem mem_fin {p : Program} (wf : WF p) {fuel k : Nat} (hk : k < fuel) {s : St} (inv : Inv p s)
    {t : St} (ht : t ∈ (match query p fuel k s with
      | .ok (_, s') => [s']
      | .error _ => [])) : ImgOK p (k + 1) s t := by
  have hs := query_spec wf fuel k hk s inv
  cases hr : query p fuel k s with
  | error e => rw [hr] at ht; simp at ht
  | ok r =>
    obtain ⟨v, s'⟩ := r
    rw [hr] at ht hs
    simp only [List.mem_singleton] at ht
    subst ht
    obtain ⟨i, f, tc, _⟩ := hs
    exact ⟨i, tc, f.epoch, f.inputs, f.ext, f.world⟩

/-- every store image between two logical write batches of a query satisfies the engine invariant,
    and has the timestamp and the committed inputs of the state the query started from -/
theorem images_ok {p : Program} (wf : WF p) :
    ∀ fuel k, k < fuel → ∀ s, Inv p s → ∀ t, t ∈ imagesQ p fuel k s → ImgOK p (k + 1) s t := by
  intro fuel
  induction fuel with
  | zero => intro k hk; cases hk
  | succ fuel ih =>
    intro k hk s inv t ht
    have hq : QSpec p (query p fuel) k := fun d hd s' inv' => query_spec wf fuel d (by komega) s' inv'
    have hI : ∀ d, d < k → ∀ s', Inv p s' → ∀ t, t ∈ imagesQ p fuel d s' → ImgOK p (d + 1) s' t :=
      fun d hd s' inv' t ht => ih d (by komega) s' inv' t ht
    simp only [imagesQ] at ht
    cases hn : s.nodes k with
    | none =>
      rw [hn] at ht
      simp only at ht
      cases hp : p[k]? with
      | none => rw [hp] at ht; simp at ht
      | some d =>
        rw [hp] at ht
        simp only at ht
        cases hi : d.kind with
        | input => rw [hi] at ht; simp at ht
        | external => rw [hi] at ht; exact mem_fin wf hk inv ht
        | normal =>
          rw [hi] at ht
          simp only [List.mem_append] at ht
          cases ht with
          | inr ht => exact mem_fin wf hk inv ht
          | inl ht =>
            obtain ⟨sc, d', hd', isc, fsc, tsc, hmem⟩ :=
              imagesRun_mem hq d.prog s (wf k d hp hi) inv (Frame.refl p s) (Touches.refl _ s) t ht
            have h := hI d' hd' sc isc t hmem
            exact ⟨h.inv, (tsc.mono (by komega)).trans (h.touches.mono (by komega)),
              by rw [h.epoch, fsc.epoch], by rw [h.inputs, fsc.inputs], by rw [h.ext, fsc.ext],
              by rw [h.world, fsc.world]⟩
    | some n =>
      rw [hn] at ht
      simp only at ht
      split at ht
      · simp at ht
      · rename_i hv
        split at ht
        · exact mem_fin wf hk inv ht
        · rename_i hin
          cases hp : p[k]? with
          | none => rw [hp] at ht; simp at ht
          | some d =>
            rw [hp] at ht
            simp only [List.mem_append, List.mem_map] at ht
            rcases ht with (⟨t0, ht0, rfl⟩ | ht) | ht
            · -- an image published while the recorded dependencies are repaired
              obtain ⟨sc, d', hd', isc, fsc, tsc, hkc, hdirty, ⟨o, ho⟩, hmem⟩ :=
                imagesRep_mem hq n.deps s inv (Frame.refl p s) (Touches.refl _ s) hn (fun _ h => h) t0 ht0
              have hns : ¬ Settled s k := by
                intro hs
                cases hs with
                | mk _ n' hn' hclean _ _ =>
                  rw [hn] at hn'; cases hn'
                  have hds : s.dirty k d' = true := fsc.dirty k d' hdirty
                  rw [hclean d' o ho] at hds; cases hds
              exact (hI d' hd' sc isc t0 hmem).restore inv hv hns fsc tsc hkc hd'
            · -- an image published while the executor re-runs after a changed dependency
              cases hr : repairDeps (query p fuel) k n.deps s with
              | error e => rw [hr] at ht; simp at ht
              | ok r =>
                obtain ⟨b, s1⟩ := r
                rw [hr] at ht
                cases b with
                | false => simp at ht
                | true =>
                  simp only [List.mem_map] at ht
                  obtain ⟨t0, ht0, rfl⟩ := ht
                  have hrep := repairDeps_spec hq n.deps s inv hn (fun _ h => h)
                  rw [hr] at hrep
                  obtain ⟨i1, f1, t1, k1, _, htrue⟩ := hrep
                  simp only at i1 f1 t1 k1 htrue
                  obtain ⟨dd, oo, hm, hne⟩ := htrue trivial
                  have hin : n.kind = .normal := by
                    false_or_by_contra
                    rename_i h
                    exact hin h
                  obtain ⟨d0, hp0, hki, _⟩ := inv.kind k n hn
                  rw [hp] at hp0; cases hp0
                  have hj : Just p s k := ⟨fun ⟨n', hn', hv'⟩ => by rw [hn] at hn'; cases hn'; exact hv hv',
                    Or.inr ⟨n, dd, oo, hn, hm, hne⟩⟩
                  have hns : ¬ Settled s k := just_not_settled wf inv hj
                  obtain ⟨sc, d', hd', isc, fsc, tsc, hmem⟩ :=
                    imagesRun_mem hq d.prog s1 (wf k d hp (by rw [hki, hin])) i1 (Frame.refl p s1) (Touches.refl _ s1) t0 ht0
                  have hkc : sc.nodes k = some n := by rw [(tsc k (Nat.le_refl _)).1]; exact k1
                  exact (hI d' hd' sc isc t0 hmem).restore inv hv hns (f1.trans fsc)
                    (t1.trans (tsc.mono (by komega))) hkc hd'
            · exact mem_fin wf hk inv ht

end Qbice.Core
