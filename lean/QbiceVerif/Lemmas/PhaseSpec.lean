import QbiceVerif.Model.PhaseLts

/-!
# C04 — statements (shared by the lemma files and `Props/C04.lean`)

Each `…Stmt` is the exact proposition a lemma file has to establish; `Props/C04.lean` unfolds them
into the published theorems.  Everything is quantified over the configuration (`fair` arbitrary, any
executor), the initial epoch and inputs, the number of tasks and their scripts (any mix of reader
rounds and sessions per task), and every reachable state, i.e. every interleaving.
-/

namespace QbiceVerif.Phase

/-- The executor of a key is a function of the inputs it reads: running it on inputs that agree on the
keys it read gives the same value and the same reads. (True of any deterministic executor whose only
access to the inputs is through recorded reads; proved for the driver's expression language.) -/
def ExecLocal (exec : Key → Inputs → Val × List Key) : Prop :=
  ∀ k i1 i2, (∀ r, r ∈ (exec k i1).2 → i1 r = i2 r) → exec k i2 = exec k i1

/-- what a query of key `k` has to return for a tracked engine of epoch `e` -/
def specValue (c : Cfg) (s : State) (e : Nat) (isIn : Bool) (k : Key) : Val :=
  if isIn then snapshot s.base s.done e k else (c.exec k (snapshot s.base s.done e)).1

/-- Repaired order. In every reachable state, for every live tracked engine (task `t`, sampled epoch `e`):
its epoch is the current one, no session is open, the stored inputs are exactly the writes of the
released sessions with epoch `≤ e` (all of them, whole), and any query it performs next returns the
from-scratch value over those inputs.  For every node: its stamp is at most the current epoch and its
stored value and reads are those of the executor run on the inputs *of the epoch it is stamped with*
(never "new epoch, old inputs"). -/
def SnapshotConsistentStmt : Prop :=
  ∀ (c : Cfg) (e0 : Nat) (inp : Inputs) (scripts : List (List Op)) (s : State),
    c.lockFirst = true → ExecLocal c.exec → Reachable c (init e0 inp scripts) s →
    (∀ t e ks, (s.tasks t).pc = .rActive e ks →
        e = s.epoch ∧ s.sess.isNone = true ∧ s.inputs = snapshot s.base s.done e ∧
        (∀ σ, σ ∈ s.done → σ.1 ≤ e) ∧
        (∀ k v s', step c s (.rQuery t k v) = some s' →
          ∃ isIn ks', ks = (isIn, k) :: ks' ∧ v = specValue c s e isIn k)) ∧
    (∀ k n, s.nodes k = some n →
        n.ver ≤ s.epoch ∧ (n.val, n.reads) = c.exec k (snapshot s.base s.done n.ver))

/-- Repaired order: "for its whole life" — while a tracked engine of epoch `e` stays alive across a step,
the set of released sessions, hence the snapshot it reads, does not change. -/
def SnapshotStableStmt : Prop :=
  ∀ (c : Cfg) (e0 : Nat) (inp : Inputs) (scripts : List (List Op)) (s s' : State) (ev : Ev),
    c.lockFirst = true → Reachable c (init e0 inp scripts) s → step c s ev = some s' →
    ∀ t e ks ks', (s.tasks t).pc = .rActive e ks → (s'.tasks t).pc = .rActive e ks' →
      s'.done = s.done ∧ s'.base = s.base ∧ s'.inputs = s.inputs ∧ s'.epoch = s.epoch

/-- Repaired order: a session takes effect all at once — whenever a tracked engine is alive (or a
reader holds the shared lock at all), no session is open, no writer is inside `input_session()` past
the lock, and the stored inputs are the initial inputs with a whole number of sessions applied: the
released sessions, each with all of its writes, in release order. -/
def SessionAtomicStmt : Prop :=
  ∀ (c : Cfg) (e0 : Nat) (inp : Inputs) (scripts : List (List Op)) (s : State),
    c.lockFirst = true → Reachable c (init e0 inp scripts) s →
    ∀ t, ((∃ e ks, (s.tasks t).pc = .rActive e ks) ∨ (∃ ks, (s.tasks t).pc = .rLocked ks)) →
      s.sess.isNone = true ∧ s.lock.writer = none ∧
      s.inputs = s.done.foldl (fun i σ => applyWrites i σ.2) s.base

/-- Both orders: the phase lock is exclusive — an open session's owner holds the exclusive lock, and
while the exclusive lock is held no task holds the shared lock (so no tracked engine exists and
none is being created past the lock). -/
def PhaseExclusiveStmt : Prop :=
  ∀ (c : Cfg) (e0 : Nat) (inp : Inputs) (scripts : List (List Op)) (s : State),
    Reachable c (init e0 inp scripts) s →
    (∀ σ, s.sess = some σ → s.lock.writer = some σ.owner) ∧
    (s.lock.writer.isSome = true → s.lock.readers = []) ∧
    (∀ t, ((∃ e ks, (s.tasks t).pc = .rActive e ks) ∨ (∃ ks, (s.tasks t).pc = .rLocked ks)) →
        t ∈ s.lock.readers)

/-- Both orders, fair or unfair lock: progress. There is a measure `mu` that every step strictly
decreases (so every run from the initial state has at most `mu (init …)` events: every maximal run is
finite), and in every reachable state that is not final some event is enabled (no deadlock): every
maximal run ends with all tasks returned and no session open. -/
def PhaseProgressStmt (mu : State → Nat → Nat) : Prop :=
  (∀ (c : Cfg) (e0 : Nat) (inp : Inputs) (scripts : List (List Op)) (s s' : State) (ev : Ev),
      Reachable c (init e0 inp scripts) s → step c s ev = some s' →
      mu s' scripts.length < mu s scripts.length) ∧
  (∀ (c : Cfg) (e0 : Nat) (inp : Inputs) (scripts : List (List Op)) (s : State),
      Reachable c (init e0 inp scripts) s → ¬ s.final scripts.length → ∃ ev, enabled c s ev = true) ∧
  (∀ (c : Cfg) (e0 : Nat) (inp : Inputs) (scripts : List (List Op)) (evs : List Ev) (s : State),
      run c (init e0 inp scripts) evs = some s → evs.length ≤ mu (init e0 inp scripts) scripts.length)

theorem reachable_of_run {c : Cfg} {s0 s : State} {evs : List Ev} (h : run c s0 evs = some s) :
    Reachable c s0 s := by
  suffices H : ∀ (evs : List Ev) (s1 : State), Reachable c s0 s1 → run c s1 evs = some s → Reachable c s0 s from
    H evs s0 .init h
  intro evs
  induction evs with
  | nil => intro s1 h1 h2; simp [run] at h2; exact h2 ▸ h1
  | cons e es ih =>
    intro s1 h1 h2
    simp only [run] at h2
    cases hs : step c s1 e with
    | none => simp [hs] at h2
    | some s2 => simp only [hs] at h2; exact ih s2 (.step e h1 hs) h2

end QbiceVerif.Phase
