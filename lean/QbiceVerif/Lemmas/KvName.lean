/-
Column family / keyspace names (`cf_name_from_id`, `keyspace_name_from_id`) identify the pair
(column kind, stable type id): the hexadecimal rendering is injective.
-/
import QbiceVerif.Model.KvKey

namespace QbiceVerif.Kv

def digitVal (c : Char) : Nat := if c.toNat < 58 then c.toNat - 48 else c.toNat - 55

def unhexL (l : List Char) : Nat := l.foldl (fun v c => 16 * v + digitVal c) 0

theorem digitVal_hexDigitU : ∀ d : Fin 16, digitVal (hexDigitU d.val) = d.val := by decide

theorem unhexL_append_single (ds : List Char) (c : Char) :
    unhexL (ds ++ [c]) = 16 * unhexL ds + digitVal c := by
  simp [unhexL, List.foldl_append]

theorem hexUpperAux_spec (fuel : Nat) : ∀ (n : Nat) (acc : List Char), n < fuel →
    ∃ ds, hexUpperAux fuel n acc = ds ++ acc ∧ unhexL ds = n := by
  induction fuel with
  | zero => intro n acc h; omega
  | succ fuel ih =>
    intro n acc h
    unfold hexUpperAux
    by_cases hn : n < 16
    · simp only [hn, if_true]
      refine ⟨[hexDigitU n], rfl, ?_⟩
      have := digitVal_hexDigitU ⟨n, hn⟩
      simp [unhexL, this]
    · simp only [hn, if_false]
      have hlt : n / 16 < fuel := by omega
      obtain ⟨ds, hds, hv⟩ := ih (n / 16) (hexDigitU (n % 16) :: acc) hlt
      refine ⟨ds ++ [hexDigitU (n % 16)], by simp [hds], ?_⟩
      rw [unhexL_append_single, hv]
      have := digitVal_hexDigitU ⟨n % 16, Nat.mod_lt _ (by decide)⟩
      simp only at this
      rw [this]
      omega

theorem unhexL_hexUpper (n : Nat) : unhexL (hexUpper n) = n := by
  obtain ⟨ds, hds, hv⟩ := hexUpperAux_spec (n + 1) n [] (by omega)
  unfold hexUpper
  rw [hds, List.append_nil, hv]

theorem hexUpper_inj {n m : Nat} (h : hexUpper n = hexUpper m) : n = m := by
  have := congrArg unhexL h
  rwa [unhexL_hexUpper, unhexL_hexUpper] at this

/-- `cf_<kind>_0x<ID>` / `ks_<kind>_0x<ID>` determines kind and id -/
theorem cfName_inj (pre : String) (k k' : Kind) (i i' : Nat)
    (h : cfName pre k i = cfName pre k' i') : k = k' ∧ i = i' := by
  have h1 := congrArg String.toList h
  simp only [cfName, String.toList_append, String.toList_ofList, List.append_assoc] at h1
  have h2 := List.append_cancel_left h1
  cases k <;> cases k'
  · refine ⟨rfl, ?_⟩
    have h3 := List.append_cancel_left h2
    exact hexUpper_inj (List.append_cancel_left h3)
  · exfalso
    have : (kindStr .wide).toList.head? = (kindStr .set).toList.head? := by
      have := congrArg List.head? h2
      simpa [kindStr] using this
    simp [kindStr] at this
  · exfalso
    have : (kindStr .set).toList.head? = (kindStr .wide).toList.head? := by
      have := congrArg List.head? h2
      simpa [kindStr] using this
    simp [kindStr] at this
  · refine ⟨rfl, ?_⟩
    have h3 := List.append_cancel_left h2
    exact hexUpper_inj (List.append_cancel_left h3)

end QbiceVerif.Kv
