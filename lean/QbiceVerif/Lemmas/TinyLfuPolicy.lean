/-
Invariants of the policy's region lists (property C16): the regions are duplicate-free and
disjoint, stay within their capacities, a key leaves the policy only after the storage gave it
up, and only entries the listener reported pinned enter the pinned region.
-/
import QbiceVerif.Lemmas.TinyLfuFrame

namespace QbiceVerif.TinyLfu

variable {σ : Type}

/-- how often key `a` occurs in the four regions -/
def Lru.cnt (l : Lru) (a : Nat) : Nat :=
  l.window.count a + l.probation.count a + l.prot.count a + l.pinned.count a

/-- the regions are duplicate-free and pairwise disjoint -/
def Lru.WF (l : Lru) : Prop := ∀ a, l.cnt a ≤ 1

/-- `a` is tracked by the policy -/
def Lru.has (l : Lru) (a : Nat) : Prop := 0 < l.cnt a

structure Caps (cfg : Cfg σ) (l : Lru) : Prop where
  win : l.window.length ≤ cfg.windowCap
  main : l.probation.length + l.prot.length ≤ cfg.mainLimit
  prot : l.prot.length ≤ cfg.protectedCap

theorem Lru.has_iff (l : Lru) (a : Nat) :
    l.has a ↔ a ∈ l.window ∨ a ∈ l.probation ∨ a ∈ l.prot ∨ a ∈ l.pinned := by
  unfold Lru.has Lru.cnt
  rw [← List.count_pos_iff (l := l.window), ← List.count_pos_iff (l := l.probation),
    ← List.count_pos_iff (l := l.prot), ← List.count_pos_iff (l := l.pinned)]
  omega

theorem regionOf_cases (l : Lru) (k : Nat) :
    (k ∈ l.window ∧ l.regionOf k = some .window) ∨
    (k ∉ l.window ∧ k ∈ l.probation ∧ l.regionOf k = some .probation) ∨
    (k ∉ l.window ∧ k ∉ l.probation ∧ k ∈ l.prot ∧ l.regionOf k = some .prot) ∨
    (k ∉ l.window ∧ k ∉ l.probation ∧ k ∉ l.prot ∧ k ∈ l.pinned ∧ l.regionOf k = some .pinned) ∨
    (k ∉ l.window ∧ k ∉ l.probation ∧ k ∉ l.prot ∧ k ∉ l.pinned ∧ l.regionOf k = none) := by
  unfold Lru.regionOf
  by_cases h1 : k ∈ l.window
  · simp [h1]
  · by_cases h2 : k ∈ l.probation
    · simp [h1, h2]
    · by_cases h3 : k ∈ l.prot
      · simp [h1, h2, h3]
      · by_cases h4 : k ∈ l.pinned <;> simp [h1, h2, h3, h4]

theorem regionOf_pinned_iff (l : Lru) (k : Nat) :
    l.regionOf k = some .pinned ↔ k ∉ l.window ∧ k ∉ l.probation ∧ k ∉ l.prot ∧ k ∈ l.pinned := by
  rcases regionOf_cases l k with ⟨h, e⟩ | ⟨h1, h, e⟩ | ⟨h1, h2, h, e⟩ | ⟨h1, h2, h3, h, e⟩ | ⟨h1, h2, h3, h4, e⟩ <;>
    simp [e, *]

theorem regionOf_none_iff (l : Lru) (k : Nat) : l.regionOf k = none ↔ ¬ l.has k := by
  rw [Lru.has_iff]
  rcases regionOf_cases l k with ⟨h, e⟩ | ⟨h1, h, e⟩ | ⟨h1, h2, h, e⟩ | ⟨h1, h2, h3, h, e⟩ | ⟨h1, h2, h3, h4, e⟩ <;>
    simp [e, *]

theorem count_erase_append (l : List Nat) (a k : Nat) (h : k ∈ l) :
    List.count a (l.erase k ++ [k]) = List.count a l := by
  by_cases e : a = k
  · subst e; have := List.count_pos_iff.mpr h; simp [List.count_append, List.count_erase_self]; omega
  · have e' : ¬ k = a := fun x => e x.symm
    simp [List.count_append, List.count_erase_of_ne e, e']

theorem count_erase_add (l : List Nat) (a k : Nat) (h : k ∈ l) :
    List.count a (l.erase k) + (if k = a then 1 else 0) = List.count a l := by
  by_cases e : a = k
  · subst e; have := List.count_pos_iff.mpr h; simp [List.count_erase_self]; omega
  · have e' : ¬ k = a := fun x => e x.symm
    simp [List.count_erase_of_ne e, e']

theorem length_erase_add (l : List Nat) (k : Nat) (h : k ∈ l) : (l.erase k).length + 1 = l.length := by
  have := List.length_erase_of_mem h
  have := List.length_pos_of_mem h
  omega

/-! ### `Lru::hit` -/

theorem hit_found (l : Lru) (k pc : Nat) : (l.hit k pc).2 = true ↔ l.has k := by
  rw [Lru.has_iff]; unfold Lru.hit
  rcases regionOf_cases l k with ⟨h, e⟩ | ⟨h1, h, e⟩ | ⟨h1, h2, h, e⟩ | ⟨h1, h2, h3, h, e⟩ | ⟨h1, h2, h3, h4, e⟩
  · simp [e, h]
  · simp only [e]; split
    · split <;> simp [h]
    · simp [h]
  · simp [e, h]
  · simp [e, h]
  · simp [e, *]

theorem hit_not_found {l : Lru} {k pc : Nat} (h : (l.hit k pc).2 = false) : (l.hit k pc).1 = l ∧ ¬ l.has k := by
  have hn : ¬ l.has k := fun hh => by rw [(hit_found l k pc).mpr hh] at h; cases h
  have e := (regionOf_none_iff l k).mpr hn
  refine ⟨?_, hn⟩
  unfold Lru.hit; simp [e]

theorem hit_cnt (l : Lru) (k pc a : Nat) : (l.hit k pc).1.cnt a = l.cnt a := by
  unfold Lru.hit
  rcases regionOf_cases l k with ⟨h, e⟩ | ⟨h1, h, e⟩ | ⟨h1, h2, h, e⟩ | ⟨h1, h2, h3, h, e⟩ | ⟨h1, h2, h3, h4, e⟩
  · simp [e, Lru.cnt, count_erase_append _ _ _ h]
  · simp only [e]
    have hc := count_erase_add l.probation a k h
    split
    · split
      · simp [Lru.cnt, count_erase_append _ _ _ h]
      · rename_i o rest hp
        simp only [Lru.cnt, hp, List.count_append, List.count_cons, List.count_singleton, List.count_nil, beq_iff_eq]
        omega
    · simp only [Lru.cnt, List.count_append, List.count_singleton, beq_iff_eq]; omega
  · simp [e, Lru.cnt, count_erase_append _ _ _ h]
  · simp [e]
  · simp [e]

theorem hit_pinned (l : Lru) (k pc : Nat) : (l.hit k pc).1.pinned = l.pinned := by
  unfold Lru.hit
  rcases regionOf_cases l k with ⟨h, e⟩ | ⟨h1, h, e⟩ | ⟨h1, h2, h, e⟩ | ⟨h1, h2, h3, h, e⟩ | ⟨h1, h2, h3, h4, e⟩
  · simp [e]
  · simp only [e]; split
    · split <;> rfl
    · rfl
  · simp [e]
  · simp [e]
  · simp [e]

theorem hit_caps {cfg : Cfg σ} {l : Lru} (k : Nat) (h : Caps cfg l) : Caps cfg (l.hit k cfg.protectedCap).1 := by
  unfold Lru.hit
  rcases regionOf_cases l k with ⟨hm, e⟩ | ⟨h1, hm, e⟩ | ⟨h1, h2, hm, e⟩ | ⟨h1, h2, h3, hm, e⟩ | ⟨h1, h2, h3, h4, e⟩
  · simp only [e]; refine ⟨?_, h.main, h.prot⟩
    have := length_erase_add _ _ hm; have := h.win; simp; omega
  · simp only [e]
    have hl := length_erase_add _ _ hm
    have := h.main; have := h.prot; have := h.win
    split
    · split
      · rename_i hp; refine ⟨by simpa, ?_, by simpa⟩; simp [hp] at *; omega
      · rename_i o rest hp; refine ⟨by simpa, ?_, ?_⟩ <;> simp [hp] at * <;> omega
    · refine ⟨by simpa, ?_, ?_⟩ <;> simp at * <;> omega
  · simp only [e]; refine ⟨h.win, ?_, ?_⟩ <;>
      (have := length_erase_add _ _ hm; have := h.main; have := h.prot; simp; omega)
  · simp only [e]; exact h
  · simp only [e]; exact h

theorem hit_wf {l : Lru} (k pc : Nat) (h : l.WF) : (l.hit k pc).1.WF := fun a => by
  rw [hit_cnt]; exact h a

theorem hit_has (l : Lru) (k pc a : Nat) : (l.hit k pc).1.has a ↔ l.has a := by
  unfold Lru.has; rw [hit_cnt]

/-! ### `Lru::remove` -/

theorem remove_cnt {l : Lru} {k : Nat} (hk : l.has k) (a : Nat) :
    (l.remove k).cnt a + (if k = a then 1 else 0) = l.cnt a := by
  unfold Lru.remove
  rcases regionOf_cases l k with ⟨h, e⟩ | ⟨h1, h, e⟩ | ⟨h1, h2, h, e⟩ | ⟨h1, h2, h3, h, e⟩ | ⟨h1, h2, h3, h4, e⟩
  all_goals simp only [e]
  · have := count_erase_add l.window a k h; simp only [Lru.cnt]; omega
  · have := count_erase_add l.probation a k h; simp only [Lru.cnt]; omega
  · have := count_erase_add l.prot a k h; simp only [Lru.cnt]; omega
  · have := count_erase_add l.pinned a k h; simp only [Lru.cnt]; omega
  · exact absurd hk ((regionOf_none_iff l k).mp e)

theorem remove_of_not_has {l : Lru} {k : Nat} (hk : ¬ l.has k) : l.remove k = l := by
  unfold Lru.remove; simp [(regionOf_none_iff l k).mpr hk]

theorem remove_wf {l : Lru} (k : Nat) (h : l.WF) : (l.remove k).WF := fun a => by
  by_cases hk : l.has k
  · have := remove_cnt hk a; have := h a; omega
  · rw [remove_of_not_has hk]; exact h a

theorem remove_has_of_ne (l : Lru) {k a : Nat} (hne : k ≠ a) : (l.remove k).has a ↔ l.has a := by
  by_cases hk : l.has k
  · unfold Lru.has; have := remove_cnt hk a; simp [hne] at this; omega
  · rw [remove_of_not_has hk]

theorem remove_not_has {l : Lru} (k : Nat) (h : l.WF) : ¬ (l.remove k).has k := by
  by_cases hk : l.has k
  · unfold Lru.has; have h1 := remove_cnt hk k; have h2 := h k; simp at h1; omega
  · rw [remove_of_not_has hk]; exact hk

theorem remove_pinned_sub (l : Lru) (k a : Nat) (h : a ∈ (l.remove k).pinned) : a ∈ l.pinned := by
  unfold Lru.remove at h
  rcases regionOf_cases l k with ⟨_, e⟩ | ⟨_, _, e⟩ | ⟨_, _, _, e⟩ | ⟨_, _, _, _, e⟩ | ⟨_, _, _, _, e⟩ <;>
    simp only [e] at h <;> first | exact h | exact List.mem_of_mem_erase h

theorem remove_caps {cfg : Cfg σ} {l : Lru} (k : Nat) (h : Caps cfg l) : Caps cfg (l.remove k) := by
  unfold Lru.remove
  have := h.win; have := h.main; have := h.prot
  rcases regionOf_cases l k with ⟨hm, e⟩ | ⟨_, hm, e⟩ | ⟨_, _, hm, e⟩ | ⟨_, _, _, hm, e⟩ | ⟨_, _, _, _, e⟩ <;>
    simp only [e] <;> first
      | exact h
      | (have := length_erase_add _ _ hm; refine ⟨?_, ?_, ?_⟩ <;> simp <;> omega)

end QbiceVerif.TinyLfu

namespace QbiceVerif.TinyLfu

variable {σ : Type}

/-! ### one policy call -/

/-- `l'` tracks the keys of `l`, except that one occurrence of a key may have been dropped — and then
the storage (after the call) no longer holds that key. -/
def DropRel (l l' : Lru) (st' : Storage) : Prop :=
  (∀ a, l'.cnt a = l.cnt a) ∨ ∃ x, sGet st' x = none ∧ ∀ a, l'.cnt a + (if x = a then 1 else 0) = l.cnt a

theorem DropRel.wf {l l' : Lru} {st' : Storage} (h : DropRel l l' st') (hw : l.WF) : l'.WF := fun a => by
  rcases h with h | ⟨x, _, h⟩
  · rw [h a]; exact hw a
  · have := h a; have := hw a; omega

theorem DropRel.leaves {l l' : Lru} {st' : Storage} (h : DropRel l l' st') (a : Nat) (h1 : l.has a) (h2 : ¬ l'.has a) :
    sGet st' a = none := by
  unfold Lru.has at h1 h2
  rcases h with h | ⟨x, hx, h⟩
  · rw [h a] at h2; exact absurd h1 h2
  · have := h a
    by_cases e : x = a
    · subst e; exact hx
    · simp [e] at this; omega

theorem DropRel.mono {l l' : Lru} {st' : Storage} (h : DropRel l l' st') (a : Nat) (h1 : l'.has a) : l.has a := by
  unfold Lru.has at h1 ⊢
  rcases h with h | ⟨x, _, h⟩
  · rw [← h a]; exact h1
  · have := h a; omega

/-- what the region lists may do during one policy call, relative to the storage after it -/
structure PolStep (cfg : Cfg σ) (pins : List Nat) (c c' : Core σ) : Prop where
  wf : c.lru.WF → c'.lru.WF
  /-- a key the policy stops tracking is no longer in the storage -/
  leaves : ∀ a, c.lru.has a → ¬ c'.lru.has a → sGet c'.st a = none
  caps : Caps cfg c.lru → Caps cfg c'.lru
  pinnedNew : ∀ a, a ∈ c'.lru.pinned → a ∈ c.lru.pinned ∨ ∃ v, sGet c'.st a = some v ∧ cfg.tok a v ∈ pins

theorem evictOrPin_polstep (cfg : Cfg σ) (pins : List Nat) (c : Core σ) (x : Nat) (rest : Lru)
    (hr : ∀ a, rest.cnt a + (if x = a then 1 else 0) = c.lru.cnt a) (hp : rest.pinned = c.lru.pinned) :
    DropRel c.lru (evictOrPin cfg pins c x rest).lru (evictOrPin cfg pins c x rest).st ∧
    (∀ a, a ∈ (evictOrPin cfg pins c x rest).lru.pinned → a ∈ c.lru.pinned ∨
        ∃ v, sGet (evictOrPin cfg pins c x rest).st a = some v ∧ cfg.tok a v ∈ pins) ∧
    (evictOrPin cfg pins c x rest).lru.window = rest.window ∧
    (evictOrPin cfg pins c x rest).lru.probation = rest.probation ∧
    (evictOrPin cfg pins c x rest).lru.prot = rest.prot := by
  rcases evictOrPin_cases cfg pins c x rest with ⟨h1, h2⟩ | ⟨h1, h2, v, h3, h4⟩
  · refine ⟨Or.inr ⟨x, h2, ?_⟩, ?_, ?_, ?_, ?_⟩
    · rw [h1]; exact hr
    · intro a ha; rw [h1, hp] at ha; exact Or.inl ha
    all_goals rw [h1]
  · refine ⟨Or.inl ?_, ?_, ?_, ?_, ?_⟩
    · intro a; rw [h1]; have := hr a
      simp only [Lru.cnt, List.count_append, List.count_singleton, beq_iff_eq] at this ⊢; omega
    · intro a ha; rw [h1] at ha; simp only [List.mem_append, List.mem_singleton] at ha
      rcases ha with ha | ha
      · rw [hp] at ha; exact Or.inl ha
      · subst ha; right; rw [h2]; exact ⟨v, h3, h4⟩
    all_goals rw [h1]

theorem duel_polstep (cfg : Cfg σ) (pins : List Nat) (c : Core σ) (cand : Nat) (w : List Nat) (vict : Nat) (p : List Nat)
    (hw : c.lru.window = cand :: w) (hp : c.lru.probation = vict :: p) :
    DropRel c.lru (duel cfg pins c cand w vict p).lru (duel cfg pins c cand w vict p).st ∧
    (∀ a, a ∈ (duel cfg pins c cand w vict p).lru.pinned → a ∈ c.lru.pinned ∨
        ∃ v, sGet (duel cfg pins c cand w vict p).st a = some v ∧ cfg.tok a v ∈ pins) ∧
    (duel cfg pins c cand w vict p).lru.window = w ∧
    (duel cfg pins c cand w vict p).lru.probation.length = c.lru.probation.length ∧
    (duel cfg pins c cand w vict p).lru.prot = c.lru.prot := by
  unfold duel
  split
  · have hr : ∀ a, ({ c.lru with probation := p } : Lru).cnt a + (if vict = a then 1 else 0) = c.lru.cnt a := by
      intro a; simp only [Lru.cnt, hp, List.count_cons, beq_iff_eq]; omega
    obtain ⟨h1, h2, h3, h4, h5⟩ := evictOrPin_polstep cfg pins c vict { c.lru with probation := p } hr rfl
    generalize evictOrPin cfg pins c vict { c.lru with probation := p } = e at h1 h2 h3 h4 h5 ⊢
    simp only [] at h3 h4 h5
    refine ⟨?_, h2, rfl, ?_, h5⟩
    · rcases h1 with h1 | ⟨x, hx, h1⟩
      · left; intro a; have := h1 a
        simp only [Lru.cnt, h4, h3, hw, List.count_cons, List.count_append, List.count_singleton, List.count_nil, beq_iff_eq] at this ⊢
        omega
      · right; refine ⟨x, hx, ?_⟩; intro a; have := h1 a
        simp only [Lru.cnt, h4, h3, hw, List.count_cons, List.count_append, List.count_singleton, List.count_nil, beq_iff_eq] at this ⊢
        omega
    · simp [h4, hp]
  · have hr : ∀ a, ({ c.lru with window := w } : Lru).cnt a + (if cand = a then 1 else 0) = c.lru.cnt a := by
      intro a; simp only [Lru.cnt, hw, List.count_cons, beq_iff_eq]; omega
    obtain ⟨h1, h2, h3, h4, h5⟩ := evictOrPin_polstep cfg pins c cand { c.lru with window := w } hr rfl
    exact ⟨h1, h2, h3, by rw [h4], h5⟩

theorem afterNewEntry_polstep {cfg : Cfg σ} {pins : List Nat} {c c' : Core σ}
    (h : afterNewEntry cfg pins c = .ok c') :
    DropRel c.lru c'.lru c'.st ∧
    (∀ a, a ∈ c'.lru.pinned → a ∈ c.lru.pinned ∨ ∃ v, sGet c'.st a = some v ∧ cfg.tok a v ∈ pins) ∧
    (c.lru.window.length ≤ cfg.windowCap + 1 → c.lru.probation.length + c.lru.prot.length ≤ cfg.mainLimit →
      c.lru.prot.length ≤ cfg.protectedCap → Caps cfg c'.lru) := by
  unfold afterNewEntry at h
  split at h
  · rename_i hle; cases h
    exact ⟨Or.inl fun _ => rfl, fun a ha => Or.inl ha, fun _ h2 h3 => ⟨hle, h2, h3⟩⟩
  · rename_i hgt
    split at h
    · rename_i hlt
      split at h
      · cases h; rename_i hw; simp [hw] at hgt
      · rename_i o w hw; cases h
        refine ⟨Or.inl ?_, fun a ha => Or.inl ha, ?_⟩
        · intro a; simp only [Lru.cnt, hw, List.count_cons, List.count_append, List.count_singleton, List.count_nil, beq_iff_eq]; omega
        · intro h1 h2 h3; refine ⟨?_, ?_, h3⟩
          · simp [hw] at h1 ⊢; omega
          · simp at hlt ⊢; omega
    · rename_i hge
      split at h
      · cases h
      · rename_i cand w hw
        split at h
        · cases h
        · rename_i vict p hp; cases h
          obtain ⟨h1, h2, h3, h4, h5⟩ := duel_polstep cfg pins c cand w vict p hw hp
          refine ⟨h1, h2, ?_⟩
          intro g1 g2 g3; refine ⟨?_, ?_, ?_⟩
          · rw [h3]; simp [hw] at g1; omega
          · rw [h4, h5]; exact g2
          · rw [h5]; exact g3

theorem onWrite_polstep {cfg : Cfg σ} {pins : List Nat} {c c' : Core σ} {k : Nat}
    (h : onWrite cfg pins c k = .ok c') :
    PolStep cfg pins c c' ∧ (c'.lru.has k ∨ sGet c'.st k = none) := by
  unfold onWrite at h
  split at h
  · rename_i hf; cases h
    have hf' : (c.lru.hit k cfg.protectedCap).2 = true := hf
    refine ⟨⟨?_, ?_, ?_, ?_⟩, Or.inl ?_⟩
    · intro hw; exact hit_wf _ _ hw
    · intro a h1 h2; exact absurd ((hit_has _ _ _ _).mpr h1) h2
    · intro hc; exact hit_caps k hc
    · intro a ha; left; simpa [onReadHit, hit_pinned] using ha
    · exact (hit_has _ _ _ _).mpr ((hit_found _ _ _).mp hf')
  · rename_i hf
    have hf' : (c.lru.hit k cfg.protectedCap).2 = false := by simpa [onReadHit] using hf
    obtain ⟨hl, hnk⟩ := hit_not_found hf'
    have hlru : (onReadHit cfg c k).1.lru = c.lru := by simp [onReadHit, hl]
    split at h
    · cases h
    · obtain ⟨h1, h2, h3⟩ := afterNewEntry_polstep h
      simp only [hlru] at h1 h2 h3
      have hnk0 : c.lru.cnt k = 0 := by unfold Lru.has at hnk; omega
      have hcnt : ∀ a, ({ c.lru with window := c.lru.window ++ [k] } : Lru).cnt a = c.lru.cnt a + (if k = a then 1 else 0) := by
        intro a; simp only [Lru.cnt, List.count_append, List.count_singleton, List.count_nil, List.count_cons, beq_iff_eq]; omega
      refine ⟨⟨?_, ?_, ?_, h2⟩, ?_⟩
      · intro hw; apply h1.wf; intro a; rw [hcnt a]
        by_cases e : k = a
        · subst e; simp [hnk0]
        · simp [e]; exact hw a
      · intro a ha hna; apply h1.leaves a _ hna
        unfold Lru.has at ha ⊢; rw [hcnt a]; omega
      · intro hc; apply h3
        · simp; have := hc.win; omega
        · exact hc.main
        · exact hc.prot
      · by_cases hk : c'.lru.has k
        · exact Or.inl hk
        · right; apply h1.leaves k _ hk
          unfold Lru.has; rw [hcnt k]; simp

/-! ### `Policy::unpin` -/

theorem moveKeyToProbation_pinned {l : Lru} {k : Nat} (h : l.regionOf k = some .pinned) :
    l.moveKeyToProbation k = .ok { l with pinned := l.pinned.erase k, probation := l.probation ++ [k] } := by
  unfold Lru.moveKeyToProbation; simp [h]

theorem regionOf_pinned_of_wf {l : Lru} {k : Nat} (hw : l.WF) (hk : k ∈ l.pinned) : l.regionOf k = some .pinned := by
  have h := hw k
  have hp := List.count_pos_iff.mpr hk
  unfold Lru.cnt at h
  rw [regionOf_pinned_iff]
  refine ⟨?_, ?_, ?_, hk⟩ <;> (intro hm; have := List.count_pos_iff.mpr hm; omega)

theorem unpin_polstep {cfg : Cfg σ} {pins : List Nat} {c c' : Core σ} {k : Nat}
    (h : unpin cfg pins c k = .ok c') (hpm : cfg.protectedCap < cfg.mainLimit) :
    PolStep cfg pins c c' ∧
    (c.lru.WF → k ∈ c'.lru.pinned → ∃ v, sGet c'.st k = some v ∧ cfg.tok k v ∈ pins) := by
  unfold unpin at h
  split at h
  · rename_i hreg; cases h
    refine ⟨⟨fun h => h, fun a h1 h2 => absurd h1 h2, fun h => h, fun a ha => Or.inl ha⟩, ?_⟩
    intro hw hk; exact absurd (regionOf_pinned_of_wf hw hk) hreg
  · rename_i hreg
    have hreg : c.lru.regionOf k = some .pinned := Classical.not_not.mp hreg
    obtain ⟨k1, k2, k3, k4⟩ := (regionOf_pinned_iff _ _).mp hreg
    split at h
    · -- empty probation (repaired code only)
      rename_i hp0
      split at h
      · rw [moveKeyToProbation_pinned hreg] at h
        simp only [] at h; cases h
        have hcnt : ∀ a, ({ c.lru with pinned := c.lru.pinned.erase k, probation := c.lru.probation ++ [k] } : Lru).cnt a = c.lru.cnt a := by
          intro a; have := count_erase_add c.lru.pinned a k k4
          simp only [Lru.cnt, List.count_append, List.count_singleton, List.count_nil, List.count_cons, beq_iff_eq]; omega
        refine ⟨⟨?_, ?_, ?_, ?_⟩, ?_⟩
        · intro hw a; rw [hcnt a]; exact hw a
        · intro a h1 h2; unfold Lru.has at h1 h2; rw [hcnt a] at h2; exact absurd h1 h2
        · intro hc; refine ⟨hc.win, ?_, hc.prot⟩
          have := hc.prot; simp [hp0]; omega
        · intro a ha; exact Or.inl (List.mem_of_mem_erase ha)
        · intro hw hk
          have h1 := hw k; have h2 := List.count_pos_iff.mpr k4
          have h3 : List.count k (c.lru.pinned.erase k) = 0 := by rw [List.count_erase_self]; unfold Lru.cnt at h1; omega
          exact absurd (List.count_pos_iff.mpr hk) (by simp only [] at h3 ⊢; omega)
      · cases h
    · rename_i vict p hp
      have kv : k ≠ vict := by intro e; apply k2; rw [hp, e]; simp
      have kp : k ∉ p := by intro e; apply k2; rw [hp]; exact List.mem_cons_of_mem _ e
      split at h
      · -- the unpinned key wins the duel against the probation tail
        simp only [] at h
        rcases evictOrPin_cases cfg pins c vict { c.lru with probation := p } with ⟨e1, e2⟩ | ⟨e1, e2, v, e3, e4⟩
        · have hreg' : (evictOrPin cfg pins c vict { c.lru with probation := p }).lru.regionOf k = some .pinned := by
            rw [e1, regionOf_pinned_iff]; exact ⟨k1, kp, k3, k4⟩
          rw [moveKeyToProbation_pinned hreg', e1] at h
          generalize evictOrPin cfg pins c vict { c.lru with probation := p } = e at h e2
          simp only [] at h; cases h
          have hcnt : ∀ a, ({ window := c.lru.window, probation := p ++ [k], prot := c.lru.prot, pinned := c.lru.pinned.erase k } : Lru).cnt a
              + (if vict = a then 1 else 0) = c.lru.cnt a := by
            intro a; have := count_erase_add c.lru.pinned a k k4
            simp only [Lru.cnt, hp, List.count_append, List.count_singleton, List.count_nil, List.count_cons, beq_iff_eq]; omega
          have hd : DropRel c.lru { window := c.lru.window, probation := p ++ [k], prot := c.lru.prot, pinned := c.lru.pinned.erase k } e.st :=
            Or.inr ⟨vict, e2, hcnt⟩
          refine ⟨⟨hd.wf, hd.leaves, ?_, ?_⟩, ?_⟩
          · intro hc; refine ⟨hc.win, ?_, hc.prot⟩
            have := hc.main; simp [hp] at this ⊢; omega
          · intro a ha; exact Or.inl (List.mem_of_mem_erase ha)
          · intro hw hk
            have h1 := hw k; have h2 := List.count_pos_iff.mpr k4
            have h3 : List.count k (c.lru.pinned.erase k) = 0 := by rw [List.count_erase_self]; unfold Lru.cnt at h1; omega
            exact absurd (List.count_pos_iff.mpr hk) (by simp only [] at h3 ⊢; omega)
        · have k4' : k ∈ c.lru.pinned ++ [vict] := List.mem_append_left _ k4
          have hreg' : (evictOrPin cfg pins c vict { c.lru with probation := p }).lru.regionOf k = some .pinned := by
            rw [e1, regionOf_pinned_iff]; exact ⟨k1, kp, k3, k4'⟩
          rw [moveKeyToProbation_pinned hreg', e1] at h
          generalize evictOrPin cfg pins c vict { c.lru with probation := p } = e at h e2
          simp only [] at h; cases h
          have hcnt : ∀ a, ({ window := c.lru.window, probation := p ++ [k], prot := c.lru.prot, pinned := (c.lru.pinned ++ [vict]).erase k } : Lru).cnt a
              = c.lru.cnt a := by
            intro a; have := count_erase_add (c.lru.pinned ++ [vict]) a k k4'
            simp only [Lru.cnt, hp, List.count_append, List.count_singleton, List.count_nil, List.count_cons, beq_iff_eq] at this ⊢; omega
          refine ⟨⟨?_, ?_, ?_, ?_⟩, ?_⟩
          · intro hw a; rw [hcnt a]; exact hw a
          · intro a h1 h2; unfold Lru.has at h1 h2; rw [hcnt a] at h2; exact absurd h1 h2
          · intro hc; refine ⟨hc.win, ?_, hc.prot⟩
            have := hc.main; simp [hp] at this ⊢; omega
          · intro a ha
            have := List.mem_of_mem_erase ha
            simp only [List.mem_append, List.mem_singleton] at this
            rcases this with h | h
            · exact Or.inl h
            · subst h; right; rw [e2]; exact ⟨v, e3, e4⟩
          · intro hw hk
            have h1 := hw k; have h2 := List.count_pos_iff.mpr k4
            have h3 : List.count k ((c.lru.pinned ++ [vict]).erase k) = 0 := by
              rw [List.count_erase_self, List.count_append, List.count_singleton]
              have : ¬ vict = k := fun e => kv e.symm
              simp [this]; unfold Lru.cnt at h1; omega
            exact absurd (List.count_pos_iff.mpr hk) (by simp only [] at h3 ⊢; omega)
      · -- the unpinned key loses: evict it if the storage lets it go
        simp only [] at h
        split at h
        · rename_i hr; cases h
          have hnone := removeClosure_true hr
          have hl := (removeClosure_lru cfg pins c k).1
          have hk : c.lru.has k := (c.lru.has_iff k).mpr (Or.inr (Or.inr (Or.inr k4)))
          have hd : DropRel c.lru (c.lru.remove k) (removeClosure cfg pins c k).1.st := Or.inr ⟨k, hnone, remove_cnt hk⟩
          simp only [hl]
          refine ⟨⟨hd.wf, hd.leaves, remove_caps k, ?_⟩, ?_⟩
          · intro a ha; exact Or.inl (remove_pinned_sub _ _ _ ha)
          · intro hw hkp
            exact absurd ((Lru.has_iff _ k).mpr (Or.inr (Or.inr (Or.inr hkp)))) (remove_not_has k hw)
        · rename_i hr; cases h
          have hr : (removeClosure cfg pins c k).2 = false := by simpa using hr
          obtain ⟨hst, v, hv, hpv⟩ := removeClosure_false hr
          have hl := (removeClosure_lru cfg pins c k).1
          refine ⟨⟨?_, ?_, ?_, ?_⟩, ?_⟩
          · rw [hl]; exact fun h => h
          · rw [hl]; exact fun a h1 h2 => absurd h1 h2
          · rw [hl]; exact fun h => h
          · rw [hl]; exact fun a ha => Or.inl ha
          · intro _ _; rw [hst]; exact ⟨v, hv, hpv⟩

/-! ### `Policy::attempt_to_trim_overflowing_pinned` -/

theorem trimLoop_spec (cfg : Cfg σ) (pins : List Nat) (l : List Nat) (c : Core σ) :
    (trimLoop cfg pins l c).2.lru = c.lru ∧
    ∀ a, List.count a (trimLoop cfg pins l c).1 ≤ List.count a l ∧
      (a ∈ l → a ∉ (trimLoop cfg pins l c).1 → sGet (trimLoop cfg pins l c).2.st a = none) := by
  induction l generalizing c with
  | nil => simp [trimLoop]
  | cons k rest ih =>
    unfold trimLoop
    simp only []
    split
    · rename_i hr
      have hnone := removeClosure_true hr
      obtain ⟨i1, i2⟩ := ih (removeClosure cfg pins c k).1
      refine ⟨by rw [i1, (removeClosure_lru cfg pins c k).1], ?_⟩
      intro a
      obtain ⟨j1, j2⟩ := i2 a
      refine ⟨by rw [List.count_cons]; omega, ?_⟩
      intro ha hna
      by_cases hmem : a ∈ rest
      · exact j2 hmem hna
      · have : a = k := by simpa [hmem] using ha
        subst this
        have ev := trimLoop_evolves cfg pins rest (removeClosure cfg pins c a).1
        cases hg : sGet (trimLoop cfg pins rest (removeClosure cfg pins c a).1).2.st a with
        | none => rfl
        | some v => have := ev.sub a v hg; rw [hnone] at this; cases this
    · refine ⟨(removeClosure_lru cfg pins c k).1, ?_⟩
      intro a
      refine ⟨by simp only [List.count_append, List.count_cons, List.count_singleton, List.count_nil]; omega, ?_⟩
      intro ha hna
      exfalso; apply hna
      simp only [List.mem_cons] at ha
      simp only [List.mem_append, List.mem_singleton]
      rcases ha with h | h
      · exact Or.inr h
      · exact Or.inl h

/-- the repaired trim: what stays was refused by the listener (resident and pinned), what goes is no
longer in the storage -/
theorem trimScan_spec (cfg : Cfg σ) (pins : List Nat) (l : List Nat) (c : Core σ) :
    (trimScan cfg pins l c).2.lru = c.lru ∧
    ∀ a, List.count a (trimScan cfg pins l c).1 ≤ List.count a l ∧
      (a ∈ l → a ∉ (trimScan cfg pins l c).1 → sGet (trimScan cfg pins l c).2.st a = none) ∧
      (a ∈ (trimScan cfg pins l c).1 → ∃ v, sGet (trimScan cfg pins l c).2.st a = some v ∧ cfg.tok a v ∈ pins) := by
  induction l generalizing c with
  | nil => simp [trimScan]
  | cons k rest ih =>
    unfold trimScan
    simp only []
    obtain ⟨i1, i2⟩ := ih (removeClosure cfg pins c k).1
    have ev := trimScan_evolves cfg pins rest (removeClosure cfg pins c k).1
    split
    · rename_i hr
      have hnone := removeClosure_true hr
      refine ⟨by rw [i1, (removeClosure_lru cfg pins c k).1], ?_⟩
      intro a
      obtain ⟨j1, j2, j3⟩ := i2 a
      refine ⟨by rw [List.count_cons]; omega, ?_, j3⟩
      intro ha hna
      by_cases hmem : a ∈ rest
      · exact j2 hmem hna
      · have : a = k := by simpa [hmem] using ha
        subst this
        cases hg : sGet (trimScan cfg pins rest (removeClosure cfg pins c a).1).2.st a with
        | none => rfl
        | some v => have := ev.sub a v hg; rw [hnone] at this; cases this
    · rename_i hr
      have hr : (removeClosure cfg pins c k).2 = false := by simpa using hr
      obtain ⟨hst, v, hv, hpv⟩ := removeClosure_false hr
      refine ⟨by rw [i1, (removeClosure_lru cfg pins c k).1], ?_⟩
      intro a
      obtain ⟨j1, j2, j3⟩ := i2 a
      refine ⟨by simp only [List.count_cons]; omega, ?_, ?_⟩
      · intro ha hna
        simp only [List.mem_cons, not_or] at ha hna
        rcases ha with h | h
        · exact absurd h hna.1
        · exact j2 h hna.2
      · intro ha
        simp only [List.mem_cons] at ha
        rcases ha with h | h
        · subst h; exact ⟨v, ev.keep a v (by rw [hst]; exact hv) hpv, hpv⟩
        · exact j3 h

theorem trim_polstep (cfg : Cfg σ) (pins : List Nat) (c : Core σ) : PolStep cfg pins c (trim cfg pins c) := by
  have key : ∀ (r : List Nat × Core σ), r.2.lru = c.lru →
      (∀ a, List.count a r.1 ≤ List.count a c.lru.pinned ∧ (a ∈ c.lru.pinned → a ∉ r.1 → sGet r.2.st a = none)) →
      PolStep cfg pins c { r.2 with lru := { r.2.lru with pinned := r.1 } } := by
    intro r h1 h2
    simp only [h1]
    refine ⟨?_, ?_, ?_, ?_⟩
    · intro hw a; have := hw a; have := (h2 a).1; simp only [Lru.cnt] at *; omega
    · intro a ha hna
      unfold Lru.has Lru.cnt at ha hna
      simp only [] at hna
      apply (h2 a).2
      · apply List.count_pos_iff.mp; omega
      · intro hm; have := List.count_pos_iff.mpr hm; omega
    · intro hc; exact ⟨hc.win, hc.main, hc.prot⟩
    · intro a ha; left
      apply List.count_pos_iff.mp
      have := List.count_pos_iff.mpr ha; have := (h2 a).1
      simp only [] at *; omega
  unfold trim
  simp only []
  split
  · obtain ⟨h1, h2⟩ := trimScan_spec cfg pins c.lru.pinned c
    exact key _ h1 (fun a => ⟨(h2 a).1, (h2 a).2.1⟩)
  · obtain ⟨h1, h2⟩ := trimLoop_spec cfg pins c.lru.pinned c
    exact key _ h1 h2

/-- after the repaired trim every entry of the pinned region is resident and pinned -/
theorem trim_fixed_pinned {cfg : Cfg σ} (pins : List Nat) (c : Core σ) (hf : cfg.fixTrim = true) :
    ∀ a, a ∈ (trim cfg pins c).lru.pinned → ∃ v, sGet (trim cfg pins c).st a = some v ∧ cfg.tok a v ∈ pins := by
  unfold trim
  simp only [hf, ↓reduceIte]
  intro a ha
  exact ((trimScan_spec cfg pins c.lru.pinned c).2 a).2.2 ha

end QbiceVerif.TinyLfu
