/-
Invariants of the policy's region lists (property C16): the regions are duplicate-free and
disjoint, stay within their capacities, a key leaves the policy only after the storage gave it
up, and only entries the listener reported pinned enter the pinned region.
-/
import QbiceVerif.Lemmas.TinyLfuFrame

namespace QbiceVerif.TinyLfu

variable {σ : Type}

/-- how often key `a` occurs in the four regions -/
def Lru.cnt (l : Lru) (a : Nat) : Nat :=
  l.window.count a + l.probation.count a + l.prot.count a + l.pinned.count a

/-- the regions are duplicate-free and pairwise disjoint -/
def Lru.WF (l : Lru) : Prop := ∀ a, l.cnt a ≤ 1

/-- `a` is tracked by the policy -/
def Lru.has (l : Lru) (a : Nat) : Prop := 0 < l.cnt a

structure Caps (cfg : Cfg σ) (l : Lru) : Prop where
  win : l.window.length ≤ cfg.windowCap
  main : l.probation.length + l.prot.length ≤ cfg.mainLimit
  prot : l.prot.length ≤ cfg.protectedCap

theorem Lru.has_iff (l : Lru) (a : Nat) :
    l.has a ↔ a ∈ l.window ∨ a ∈ l.probation ∨ a ∈ l.prot ∨ a ∈ l.pinned := by
  unfold Lru.has Lru.cnt
  rw [← List.count_pos_iff (l := l.window), ← List.count_pos_iff (l := l.probation),
    ← List.count_pos_iff (l := l.prot), ← List.count_pos_iff (l := l.pinned)]
  omega

theorem regionOf_cases (l : Lru) (k : Nat) :
    (k ∈ l.window ∧ l.regionOf k = some .window) ∨
    (k ∉ l.window ∧ k ∈ l.probation ∧ l.regionOf k = some .probation) ∨
    (k ∉ l.window ∧ k ∉ l.probation ∧ k ∈ l.prot ∧ l.regionOf k = some .prot) ∨
    (k ∉ l.window ∧ k ∉ l.probation ∧ k ∉ l.prot ∧ k ∈ l.pinned ∧ l.regionOf k = some .pinned) ∨
    (k ∉ l.window ∧ k ∉ l.probation ∧ k ∉ l.prot ∧ k ∉ l.pinned ∧ l.regionOf k = none) := by
  unfold Lru.regionOf
  by_cases h1 : k ∈ l.window
  · simp [h1]
  · by_cases h2 : k ∈ l.probation
    · simp [h1, h2]
    · by_cases h3 : k ∈ l.prot
      · simp [h1, h2, h3]
      · by_cases h4 : k ∈ l.pinned <;> simp [h1, h2, h3, h4]

theorem regionOf_pinned_iff (l : Lru) (k : Nat) :
    l.regionOf k = some .pinned ↔ k ∉ l.window ∧ k ∉ l.probation ∧ k ∉ l.prot ∧ k ∈ l.pinned := by
  rcases regionOf_cases l k with ⟨h, e⟩ | ⟨h1, h, e⟩ | ⟨h1, h2, h, e⟩ | ⟨h1, h2, h3, h, e⟩ | ⟨h1, h2, h3, h4, e⟩ <;>
    simp [e, *]

theorem regionOf_none_iff (l : Lru) (k : Nat) : l.regionOf k = none ↔ ¬ l.has k := by
  rw [Lru.has_iff]
  rcases regionOf_cases l k with ⟨h, e⟩ | ⟨h1, h, e⟩ | ⟨h1, h2, h, e⟩ | ⟨h1, h2, h3, h, e⟩ | ⟨h1, h2, h3, h4, e⟩ <;>
    simp [e, *]

theorem count_erase_append (l : List Nat) (a k : Nat) (h : k ∈ l) :
    List.count a (l.erase k ++ [k]) = List.count a l := by
  by_cases e : a = k
  · subst e; have := List.count_pos_iff.mpr h; simp [List.count_append, List.count_erase_self]; omega
  · have e' : ¬ k = a := fun x => e x.symm
    simp [List.count_append, List.count_erase_of_ne e, e']

theorem count_erase_add (l : List Nat) (a k : Nat) (h : k ∈ l) :
    List.count a (l.erase k) + (if k = a then 1 else 0) = List.count a l := by
  by_cases e : a = k
  · subst e; have := List.count_pos_iff.mpr h; simp [List.count_erase_self]; omega
  · have e' : ¬ k = a := fun x => e x.symm
    simp [List.count_erase_of_ne e, e']

theorem length_erase_add (l : List Nat) (k : Nat) (h : k ∈ l) : (l.erase k).length + 1 = l.length := by
  have := List.length_erase_of_mem h
  have := List.length_pos_of_mem h
  omega

/-! ### `Lru::hit` -/

theorem hit_found (l : Lru) (k pc : Nat) : (l.hit k pc).2 = true ↔ l.has k := by
  rw [Lru.has_iff]; unfold Lru.hit
  rcases regionOf_cases l k with ⟨h, e⟩ | ⟨h1, h, e⟩ | ⟨h1, h2, h, e⟩ | ⟨h1, h2, h3, h, e⟩ | ⟨h1, h2, h3, h4, e⟩
  · simp [e, h]
  · simp only [e]; split
    · split <;> simp [h]
    · simp [h]
  · simp [e, h]
  · simp [e, h]
  · simp [e, *]

theorem hit_not_found {l : Lru} {k pc : Nat} (h : (l.hit k pc).2 = false) : (l.hit k pc).1 = l ∧ ¬ l.has k := by
  have hn : ¬ l.has k := fun hh => by rw [(hit_found l k pc).mpr hh] at h; cases h
  have e := (regionOf_none_iff l k).mpr hn
  refine ⟨?_, hn⟩
  unfold Lru.hit; simp [e]

theorem hit_cnt (l : Lru) (k pc a : Nat) : (l.hit k pc).1.cnt a = l.cnt a := by
  unfold Lru.hit
  rcases regionOf_cases l k with ⟨h, e⟩ | ⟨h1, h, e⟩ | ⟨h1, h2, h, e⟩ | ⟨h1, h2, h3, h, e⟩ | ⟨h1, h2, h3, h4, e⟩
  · simp [e, Lru.cnt, count_erase_append _ _ _ h]
  · simp only [e]
    have hc := count_erase_add l.probation a k h
    split
    · split
      · simp [Lru.cnt, count_erase_append _ _ _ h]
      · rename_i o rest hp
        simp only [Lru.cnt, hp, List.count_append, List.count_cons, List.count_singleton, List.count_nil, beq_iff_eq]
        omega
    · simp only [Lru.cnt, List.count_append, List.count_singleton, beq_iff_eq]; omega
  · simp [e, Lru.cnt, count_erase_append _ _ _ h]
  · simp [e]
  · simp [e]

theorem hit_pinned (l : Lru) (k pc : Nat) : (l.hit k pc).1.pinned = l.pinned := by
  unfold Lru.hit
  rcases regionOf_cases l k with ⟨h, e⟩ | ⟨h1, h, e⟩ | ⟨h1, h2, h, e⟩ | ⟨h1, h2, h3, h, e⟩ | ⟨h1, h2, h3, h4, e⟩
  · simp [e]
  · simp only [e]; split
    · split <;> rfl
    · rfl
  · simp [e]
  · simp [e]
  · simp [e]

theorem hit_caps {cfg : Cfg σ} {l : Lru} (k : Nat) (h : Caps cfg l) : Caps cfg (l.hit k cfg.protectedCap).1 := by
  unfold Lru.hit
  rcases regionOf_cases l k with ⟨hm, e⟩ | ⟨h1, hm, e⟩ | ⟨h1, h2, hm, e⟩ | ⟨h1, h2, h3, hm, e⟩ | ⟨h1, h2, h3, h4, e⟩
  · simp only [e]; refine ⟨?_, h.main, h.prot⟩
    have := length_erase_add _ _ hm; have := h.win; simp; omega
  · simp only [e]
    have hl := length_erase_add _ _ hm
    have := h.main; have := h.prot; have := h.win
    split
    · split
      · rename_i hp; refine ⟨by simpa, ?_, by simpa⟩; simp [hp] at *; omega
      · rename_i o rest hp; refine ⟨by simpa, ?_, ?_⟩ <;> simp [hp] at * <;> omega
    · refine ⟨by simpa, ?_, ?_⟩ <;> simp at * <;> omega
  · simp only [e]; refine ⟨h.win, ?_, ?_⟩ <;>
      (have := length_erase_add _ _ hm; have := h.main; have := h.prot; simp; omega)
  · simp only [e]; exact h
  · simp only [e]; exact h

theorem hit_wf {l : Lru} (k pc : Nat) (h : l.WF) : (l.hit k pc).1.WF := fun a => by
  rw [hit_cnt]; exact h a

theorem hit_has (l : Lru) (k pc a : Nat) : (l.hit k pc).1.has a ↔ l.has a := by
  unfold Lru.has; rw [hit_cnt]

/-! ### `Lru::remove` -/

theorem remove_cnt {l : Lru} {k : Nat} (hk : l.has k) (a : Nat) :
    (l.remove k).cnt a + (if k = a then 1 else 0) = l.cnt a := by
  unfold Lru.remove
  rcases regionOf_cases l k with ⟨h, e⟩ | ⟨h1, h, e⟩ | ⟨h1, h2, h, e⟩ | ⟨h1, h2, h3, h, e⟩ | ⟨h1, h2, h3, h4, e⟩
  all_goals simp only [e]
  · have := count_erase_add l.window a k h; simp only [Lru.cnt]; omega
  · have := count_erase_add l.probation a k h; simp only [Lru.cnt]; omega
  · have := count_erase_add l.prot a k h; simp only [Lru.cnt]; omega
  · have := count_erase_add l.pinned a k h; simp only [Lru.cnt]; omega
  · exact absurd hk ((regionOf_none_iff l k).mp e)

theorem remove_of_not_has {l : Lru} {k : Nat} (hk : ¬ l.has k) : l.remove k = l := by
  unfold Lru.remove; simp [(regionOf_none_iff l k).mpr hk]

theorem remove_wf {l : Lru} (k : Nat) (h : l.WF) : (l.remove k).WF := fun a => by
  by_cases hk : l.has k
  · have := remove_cnt hk a; have := h a; omega
  · rw [remove_of_not_has hk]; exact h a

theorem remove_has_of_ne (l : Lru) {k a : Nat} (hne : k ≠ a) : (l.remove k).has a ↔ l.has a := by
  by_cases hk : l.has k
  · unfold Lru.has; have := remove_cnt hk a; simp [hne] at this; omega
  · rw [remove_of_not_has hk]

theorem remove_not_has {l : Lru} (k : Nat) (h : l.WF) : ¬ (l.remove k).has k := by
  by_cases hk : l.has k
  · unfold Lru.has; have h1 := remove_cnt hk k; have h2 := h k; simp at h1; omega
  · rw [remove_of_not_has hk]; exact hk

theorem remove_pinned_sub (l : Lru) (k a : Nat) (h : a ∈ (l.remove k).pinned) : a ∈ l.pinned := by
  unfold Lru.remove at h
  rcases regionOf_cases l k with ⟨_, e⟩ | ⟨_, _, e⟩ | ⟨_, _, _, e⟩ | ⟨_, _, _, _, e⟩ | ⟨_, _, _, _, e⟩ <;>
    simp only [e] at h <;> first | exact h | exact List.mem_of_mem_erase h

theorem remove_caps {cfg : Cfg σ} {l : Lru} (k : Nat) (h : Caps cfg l) : Caps cfg (l.remove k) := by
  unfold Lru.remove
  have := h.win; have := h.main; have := h.prot
  rcases regionOf_cases l k with ⟨hm, e⟩ | ⟨_, hm, e⟩ | ⟨_, _, hm, e⟩ | ⟨_, _, _, hm, e⟩ | ⟨_, _, _, _, e⟩ <;>
    simp only [e] <;> first
      | exact h
      | (have := length_erase_add _ _ hm; refine ⟨?_, ?_, ?_⟩ <;> simp <;> omega)

end QbiceVerif.TinyLfu
