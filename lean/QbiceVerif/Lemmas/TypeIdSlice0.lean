/-
Slice 0 of the generated universe (Gen/TypeIdTable.lean): every type has an id and the id keys
ascend strictly from `sliceBound0` to below `sliceBound1`.  A finite table, proved whole by kernel
evaluation; one module per slice so that lake checks the slices in parallel.
-/
import QbiceVerif.Gen.TypeIdTable

namespace QbiceVerif.TypeId
open Gen

theorem slice0_ok : sliceCheck ctorTable sliceBound0 slice0 = some sliceBound1 := by
  decide +kernel

end QbiceVerif.TypeId
