/-
Lemmas about the extended core engine model, part 8: `execute_spec`, `executeExt_spec`, and the main
induction for a query caller (`queryQ_spec`).
-/
import QbiceVerif.Lemmas.EngineCoreFw7
namespace Qbice.CoreFw
open Qbice.Core (Prog Err Write SetRes allVals evalProg applyWorld Sat TraceOK)

theorem Just.frame {p : Program} {s s' : St} {k : Key} (h : Just p s k) (f : Frame p s s')
    (t : Touches k s s') : Just p s' k := by
  have hk : s'.nodes k = s.nodes k := t.1 k (Nat.le_refl _)
  refine ⟨?_, ?_⟩
  · rintro ⟨n, hn, hv⟩
    exact h.1 ⟨n, by rw [← hk]; exact hn, by rw [hv, f.epoch]⟩
  · rw [hk, f.cur]; exact h.2

theorem execute_spec {p : Program} (wf : WF p) (sh : Shape p) {q : Q} {k : Key}
    (hq : QSpec p q k) {d : NodeDef} (hp : p[k]? = some d) (hki : d.kind ≠ .input)
    (hke : d.kind ≠ .external) {s : St} (inv : Inv p s) (hwhy : Just p s k) (hbad : Broken s k) :
    Sat (execute q k d s) (QPost p k s) := by
  have hrun := runProg_spec hq d.prog {} s (wf k d hp hki hke).1 inv (AccOK.nil p k s)
  unfold execute
  cases hr : runProg q d.prog {} s with
  | error e => rw [hr] at hrun; simpa [Sat] using hrun
  | ok r =>
    obtain ⟨v, a, s1⟩ := r
    rw [hr] at hrun
    obtain ⟨i1, f1, t1, a1, _, tr⟩ := hrun
    simp only at i1 f1 t1 a1 tr ⊢
    have hbad1 : Broken s1 k := hbad.frame inv f1 (t1.1 k (Nat.le_refl _))
    have hpk : d.kind = .projection → ∀ d' o nd, (d', o) ∈ a.deps → s1.nodes d' = some nd →
        nd.kind = .firewall ∨ (nd.kind = .projection ∧ IsStaticKey p d') := by
      intro hkp d' o nd hm hnd
      have := runProg_reads q
        (fun x => kindOf p x = some .firewall ∨ (kindOf p x = some .projection ∧ IsStaticKey p x))
        d.prog {} s (sh k d hp hkp) (fun e he => by cases he) _ hr (d', o) hm
      obtain ⟨dd, hpd, hkd, _⟩ := i1.kind d' nd hnd
      simp only [kindOf, hpd, Option.map_some, Option.some.injEq] at this
      rw [← hkd]; exact this
    have hst : d.kind = .projection → ∀ ks, ProgStatic d.prog ks →
        a.deps.map (·.1) = recordKeys ks [] ∧ a.tfc = foldTfc (front s1) ks [] := by
      intro _ ks hks
      have := runProg_static hq d.prog ks {} s (wf k d hp hki hke).1 hks inv (AccOK.nil p k s)
      rw [hr] at this
      exact this
    obtain ⟨i3, f13, t13, n3k, e3⟩ := publish_spec hp hki hke i1 (hwhy.frame f1 t1) hbad1.not_solid
      (fun n hn _ => hbad1.not_nGood hn) a1 tr hpk hst
    refine ⟨i3, f1.trans f13, (t1.mono (by komega)).trans t13, ?_, _, n3k, rfl, e3.symm⟩
    apply cur_exec wf hp hki hke tr
    intro d' o' hm
    obtain ⟨hlt, hc, _⟩ := a1.2.2 d' o' hm
    rw [f1.cur] at hc
    exact ⟨hlt, hc⟩

/-- first demand of an external key -/
theorem executeExt_spec {p : Program} (wf : WF p) {k : Key} {d : NodeDef}
    (hp : p[k]? = some d) (hi : d.kind = .external) {s : St} (inv : Inv p s) (hn : s.nodes k = none) :
    QPost p k s (executeExt k d s) := by
  have hj : Just p s k := ⟨fun ⟨n, h, _⟩ => (by rw [hn] at h; cases h), Or.inl hn⟩
  have hns : ¬ Solid s k := fun h => by obtain ⟨n, h'⟩ := h.node; rw [hn] at h'; cases h'
  have hext : extOf p s k = some (d.ext s.world) := by
    simp [extOf, extRef, pinsOf, hn, hp]
  simp only [executeExt]
  have nnk : (extNode s d).kind = .external := rfl
  have nnd : (extNode s d).deps = [] := rfl
  have nnt : (extNode s d).tfc = [] := rfl
  have nnv : (extNode s d).value = d.ext s.world := rfl
  have nnl : (extNode s d).lastVerified = s.epoch := rfl
  have nnp : (extNode s d).pendingBP = false := rfl
  generalize extNode s d = nn at nnk nnd nnt nnv nnl nnp ⊢
  have n3k : (install s k nn).nodes k = some nn := by simp [install, setNode]
  have n3o : ∀ x, x ≠ k → (install s k nn).nodes x = s.nodes x := by
    intro x hx; simp [install, setNode, clearDirtyFrom, hx]
  have d3o : ∀ x y, x ≠ k → (install s k nn).dirty x y = s.dirty x y := by
    intro x y hx; simp [install, setNode, clearDirtyFrom, hx]
  have e3 : (install s k nn).epoch = s.epoch := rfl
  have w3 : (install s k nn).world = s.world := rfl
  have l3 : (install s k nn).log = s.log ++ [k] := rfl
  generalize install s k nn = s3 at n3k n3o d3o e3 w3 l3 ⊢
  have sol : ∀ x, Solid s x → Solid s3 x := fun x hx => hx.avoid hns e3 n3o
  have notDep : ∀ x nx y o, s.nodes x = some nx → (y, o) ∈ nx.deps → y ≠ k := by
    intro x nx y o hx hm e
    obtain ⟨_, nd, hnd⟩ := inv.down x nx hx y o hm
    rw [e, hn] at hnd; cases hnd
  have i3 : Inv p s3 := by
    constructor
    · intro x nx hx
      by_cases e : x = k
      · subst e; rw [n3k] at hx; cases hx
        exact ⟨d, hp, by rw [hi, nnk], fun _ => ⟨nnd, nnt⟩⟩
      · rw [n3o x e] at hx; exact inv.kind x nx hx
    · intro x nx hx hkx d' o' nd' hm hnd'
      by_cases e : x = k
      · subst e; rw [n3k] at hx; cases hx; rw [nnk] at hkx; cases hkx
      · rw [n3o x e] at hx
        rw [n3o d' (notDep x nx d' o' hx hm)] at hnd'
        exact inv.pjKinds x nx hx hkx d' o' nd' hm hnd'
    · intro x nx dx ks hx hpx hkx hstx
      by_cases e : x = k
      · subst e; rw [n3k] at hx; cases hx; rw [nnk] at hkx; cases hkx
      · rw [n3o x e] at hx
        refine inv.pjStat_transfer ?_ hx hpx hkx hstx
        intro d' nd hnd _
        have : d' ≠ k := fun e' => by subst e'; rw [hn] at hnd; cases hnd
        simp only [front, n3o d' this]
    · intro x nx g o gn hx hm hg hkg hsg
      by_cases e : x = k
      · subst e; rw [n3k] at hx; cases hx; rw [nnd] at hm; cases hm
      · rw [n3o x e] at hx
        rw [n3o g (notDep x nx g o hx hm)] at hg
        exact inv.pjSeen x nx g o gn hx hm hg hkg hsg
    · intro g gn hg hkg hsg hpg
      by_cases e : g = k
      · subst e; rw [n3k] at hg; cases hg; rw [nnk] at hkg; cases hkg
      · rw [n3o g e] at hg
        obtain ⟨c, o, hm, hc⟩ := inv.pjCause g gn hg hkg hsg hpg
        refine ⟨c, o, hm, ?_⟩
        simpa [hasPending, n3o c (notDep g gn c o hg hm)] using hc
    · intro x nx hx hkx d' o' nd' hm hnd' hne
      by_cases e : x = k
      · subst e; rw [n3k] at hx; cases hx; rw [nnk] at hkx; cases hkx
      · rw [n3o x e] at hx
        rw [n3o d' (notDep x nx d' o' hx hm)] at hnd'
        exact inv.pjBroken x nx hx hkx d' o' nd' hm hnd' hne
    · intro x nx hx d' o' hm
      by_cases e : x = k
      · subst e; rw [n3k] at hx; cases hx; rw [nnd] at hm; cases hm
      · rw [n3o x e] at hx
        obtain ⟨h1, nd, hnd⟩ := inv.down x nx hx d' o' hm
        exact ⟨h1, nd, by rw [n3o d' (notDep x nx d' o' hx hm)]; exact hnd⟩
    · intro x nx hx f hf
      by_cases e : x = k
      · subst e; rw [n3k] at hx; cases hx; rw [nnt] at hf; cases hf
      · rw [n3o x e] at hx; exact inv.tfcDown x nx hx f hf
    · intro x nx hx
      by_cases e : x = k
      · subst e; rw [n3k] at hx; cases hx; rw [nnd]; simp
      · rw [n3o x e] at hx; exact inv.nodup x nx hx
    · intro x nx dx hx hpx h1 h2
      by_cases e : x = k
      · subst e; rw [n3k] at hx; cases hx; exact absurd nnk h2
      · rw [n3o x e] at hx; exact inv.trace x nx dx hx hpx h1 h2
    · intro x nx hx
      rw [e3]
      by_cases e : x = k
      · subst e; rw [n3k] at hx; cases hx; rw [nnl]; exact Nat.le_refl _
      · rw [n3o x e] at hx; exact inv.stamp x nx hx
    · intro x nx hx d' o' nd' hm hnd'
      by_cases e : x = k
      · subst e; rw [n3k] at hx; cases hx; rw [nnd] at hm; cases hm
      · rw [n3o x e] at hx
        rw [n3o d' (notDep x nx d' o' hx hm)] at hnd'
        exact inv.seenSub x nx hx d' o' nd' hm hnd'
    · intro x nx hx hvx
      by_cases e : x = k
      · subst e; rw [n3k] at hx; cases hx
        exact Solid.leaf n3k nnd (fun h => by rw [nnk] at h; cases h)
      · rw [n3o x e] at hx
        exact sol x (inv.solid x nx hx (by rw [hvx, e3]))
    · intro x nx hx y o hm hcl
      by_cases e : x = k
      · subst e; rw [n3k] at hx; cases hx; rw [nnd] at hm; cases hm
      · rw [n3o x e] at hx
        rw [d3o x y e] at hcl
        obtain ⟨ny, hny, hvy, hacc, hgood⟩ := inv.clean x nx hx y o hm hcl
        exact ⟨ny, by rw [n3o y (notDep x nx y o hx hm)]; exact hny, hvy, hacc,
          fun h => (hgood h).fresh hn n3o⟩
  have hpins : ∀ x, x ≠ k → pinsOf s3 x = pinsOf s x := by
    intro x e; simp only [pinsOf, n3o x e]
  have f13 : Frame p s s3 := by
    refine ⟨e3, ?_, ?_, w3, ?_, ?_, ?_, ?_, ?_⟩
    · funext x
      simp only [inputsOf]
      by_cases e : x = k
      · subst e; rw [n3k, hn]; simp [nnk]
      · rw [n3o x e]
    · funext x
      simp only [extOf, w3]
      by_cases e : x = k
      · subst e
        have := hext
        simp only [extOf] at this
        rw [this]
        simp [extRef, pinsOf, n3k, nnk, nnv]
      · simp only [extRef, hpins x e]
    · intro x nx hsx hx
      have : x ≠ k := fun e => hns (e ▸ hsx)
      exact ⟨nx, by rw [n3o x this]; exact hx, rfl, rfl, rfl, rfl, rfl, id⟩
    · intro x nx hx _
      have : x ≠ k := fun e => by subst e; rw [hn] at hx; cases hx
      exact ⟨nx, by rw [n3o x this]; exact hx, rfl, rfl⟩
    · intro x nx' hx' hpd
      by_cases e : x = k
      · subst e; rw [n3k] at hx'; cases hx'; rw [nnp] at hpd; cases hpd
      · exact ⟨nx', by rw [← n3o x e]; exact hx', Or.inl hpd⟩
    · intro x
      by_cases e : x = k
      · subst e; exact Or.inr ⟨nn, n3k, by rw [nnl, e3]⟩
      · exact Or.inl (n3o x e)
    · refine ⟨[k], l3, by simp, fun x hx => ?_, fun x hx hx' => ?_⟩
      · rw [List.mem_singleton] at hx; subst hx; exact ⟨hj, nn, n3k, by rw [nnl, e3]⟩
      · rw [List.mem_singleton]
        false_or_by_contra
        rename_i e
        exact hx' (by rw [n3o x e]; exact hx)
  refine ⟨i3, f13, ⟨fun x hx => n3o x (by komega), fun x n0 h0 hp0 => ?_⟩, ?_, nn, n3k, nnv, by rw [nnl, e3]⟩
  · have : x ≠ k := fun e => by subst e; rw [hn] at h0; cases h0
    exact ⟨n0, by rw [n3o x this]; exact h0, hp0⟩
  simp only [cur, evalSpec, hp, hi]
  exact hext

/-- main induction: with fuel above the key, a request by a query caller meets `QPost` and never
    runs out of fuel -/
theorem queryQ_spec {p : Program} (wf : WF p) (sh : Shape p) :
    ∀ fuel ped k, k < fuel → ∀ s, Inv p s → Sat (queryQ p fuel ped k s) (QPost p k s) := by
  intro fuel
  induction fuel with
  | zero => intro ped k hk; cases hk
  | succ fuel ih =>
    intro ped k hk s inv
    have hq : QSpec p (queryQ p fuel ped) k := fun d hd s' inv' => ih ped d (by komega) s' inv'
    simp only [queryQ]
    cases hn : s.nodes k with
    | none =>
      simp only
      cases hp : p[k]? with
      | none => simp [Sat]
      | some d =>
        simp only
        have hj : Just p s k := ⟨fun ⟨n, h, _⟩ => (by rw [hn] at h; cases h), Or.inl hn⟩
        cases hi : d.kind with
        | input => simp [Sat]
        | external => exact executeExt_spec wf hp hi inv hn
        | normal =>
          exact execute_spec wf sh hq hp (by rw [hi]; decide) (by rw [hi]; decide) inv hj (Or.inl hn)
        | firewall =>
          exact execute_spec wf sh hq hp (by rw [hi]; decide) (by rw [hi]; decide) inv hj (Or.inl hn)
        | projection =>
          exact execute_spec wf sh hq hp (by rw [hi]; decide) (by rw [hi]; decide) inv hj (Or.inl hn)
    | some n =>
      simp only
      split
      · rename_i hv
        refine ⟨inv, Frame.refl p s, Touches.refl _ s, ?_, n, hn, rfl, hv⟩
        obtain ⟨n', hn', hc⟩ := solid_correct wf inv (inv.solid k n hn hv)
        rw [hn] at hn'; cases hn'; exact hc
      · rename_i hv
        obtain ⟨d, hp, hki, hleaf⟩ := inv.kind k n hn
        rw [hp]
        simp only
        have hrep := repairDeps_spec hq (!ped && decide (n.kind ≠ .projection)) n.deps false [] s inv hn (fun _ h => h)
        cases hr : repairDeps (queryQ p fuel ped) k (!ped && decide (n.kind ≠ .projection)) n.seen n.deps false [] s with
        | error e => rw [hr] at hrep; simpa [Sat] using hrep
        | ok r =>
          obtain ⟨b, moved, cl, s1⟩ := r
          rw [hr] at hrep
          obtain ⟨i1, f1, t1, k1, hf, ht⟩ := hrep
          simp only at i1 f1 t1 k1 hf ht
          have hv1 : n.lastVerified ≠ s1.epoch := by rw [f1.epoch]; exact hv
          cases b with
          | true =>
            simp only
            obtain ⟨dd, oo, hm, hne, nd, hnd, hvne, hver⟩ := ht rfl
            have hdeps : n.deps ≠ [] := fun h => by rw [h] at hm; cases hm
            have hkin : d.kind ≠ .input := fun h => hdeps (hleaf (Or.inl (by rw [← hki]; exact h))).1
            have hkex : d.kind ≠ .external := fun h => hdeps (hleaf (Or.inr (by rw [← hki]; exact h))).1
            have hj1 : Just p s1 k := by
              refine ⟨?_, Or.inr ⟨n, dd, oo, k1, hm, by rw [f1.cur]; exact hne⟩⟩
              rintro ⟨n', hn', hv'⟩
              rw [k1] at hn'; cases hn'
              exact hv1 hv'
            have hbr1 : Broken s1 k := Or.inr ⟨n, dd, oo, nd, k1, hm, hnd, hvne, hver⟩
            refine (execute_spec wf sh hq hp hkin hkex i1 hj1 hbr1).mono ?_
            rintro ⟨v, s2⟩ ⟨i2, f2, t2, c2, hnode⟩
            exact ⟨i2, f1.trans f2, t1.trans t2, by rw [← f1.cur]; exact c2, hnode⟩
          | false =>
            simp only
            obtain ⟨hall, _, hw⟩ := hf rfl
            have hw' : moved = true → ∃ d o nd, (d, o) ∈ n.deps ∧ s1.nodes d = some nd ∧
                nd.kind ≠ .firewall ∧ nd.tfc ≠ n.seen d := fun h => by
              rcases hw h with h' | h'
              · cases h'
              · exact h'
            -- a projection has firewall callees only: its set is never recomputed by the clean path
            have hnot : ¬ (n.kind = .projection ∧ (cleanNode s1 n moved).tfc ≠ n.tfc) := by
              rintro ⟨hkp, hne⟩
              cases hmv : moved with
              | false => rw [hmv] at hne; simp [cleanNode] at hne
              | true =>
                obtain ⟨wd, wo, wnd, wm, wnode, wk, wne⟩ := hw' hmv
                rcases i1.pjKinds k n k1 hkp wd wo wnd wm wnode with h | ⟨h, hs⟩
                · exact wk h
                · exact wne (i1.pjSeen k n wd wo wnd k1 wm wnode h hs).symm
            rw [if_neg hnot]
            obtain ⟨i2, f2, t2, c2, hnode⟩ := clean_spec wf i1 k1 hv1 moved cl hall hw'
            exact ⟨i2, f1.trans f2, t1.trans t2, by rw [← f1.cur]; exact c2, hnode⟩

end Qbice.CoreFw
