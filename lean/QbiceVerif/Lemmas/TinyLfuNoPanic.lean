/-
No call of the repaired TinyLFU model panics (property C16, `no_panic`): every `unwrap()` /
`assert!` of `policy.rs` and of the `lru.rs` entry points is unreachable once `Policy::unpin`
guards the empty probation region (finding F4).
-/
import QbiceVerif.Lemmas.TinyLfuInv

namespace QbiceVerif.TinyLfu

variable {σ : Type}

theorem afterNewEntry_ok {cfg : Cfg σ} (pins : List Nat) {c : Core σ} (hpm : cfg.protectedCap < cfg.mainLimit)
    (hw : c.lru.window ≠ []) (hp : c.lru.prot.length ≤ cfg.protectedCap) :
    ∃ c', afterNewEntry cfg pins c = .ok c' := by
  unfold afterNewEntry
  split
  · exact ⟨_, rfl⟩
  · split
    · split <;> exact ⟨_, rfl⟩
    · rename_i hge
      split
      · rename_i h0; exact absurd h0 hw
      · split
        · rename_i h0; simp [h0] at hge; omega
        · exact ⟨_, rfl⟩

theorem onWrite_ok {cfg : Cfg σ} (pins : List Nat) {c : Core σ} (k : Nat) (hpm : cfg.protectedCap < cfg.mainLimit)
    (hc : Caps cfg c.lru) : ∃ c', onWrite cfg pins c k = .ok c' := by
  unfold onWrite
  split
  · exact ⟨_, rfl⟩
  · rename_i hf
    have hf' : (c.lru.hit k cfg.protectedCap).2 = false := by simpa [onReadHit] using hf
    obtain ⟨hl, hnk⟩ := hit_not_found hf'
    have hlru : (onReadHit cfg c k).1.lru = c.lru := by simp [onReadHit, hl]
    split
    · rename_i hs; rw [hlru, (regionOf_none_iff _ _).mpr hnk] at hs; simp at hs
    · apply afterNewEntry_ok pins hpm
      · simp
      · simp only [hlru]; exact hc.prot

theorem unpin_ok {cfg : Cfg σ} (pins : List Nat) (c : Core σ) (k : Nat) (hfix : cfg.fixF4 = true) :
    ∃ c', unpin cfg pins c k = .ok c' := by
  unfold unpin
  split
  · exact ⟨_, rfl⟩
  · rename_i hreg
    have hreg : c.lru.regionOf k = some .pinned := Classical.not_not.mp hreg
    obtain ⟨k1, k2, k3, k4⟩ := (regionOf_pinned_iff _ _).mp hreg
    split
    · simp only [hfix, ↓reduceIte, moveKeyToProbation_pinned hreg]; exact ⟨_, rfl⟩
    · rename_i vict p hp
      have kp : k ∉ p := by intro e; apply k2; rw [hp]; exact List.mem_cons_of_mem _ e
      split
      · simp only []
        have hreg' : (evictOrPin cfg pins c vict { c.lru with probation := p }).lru.regionOf k = some .pinned := by
          rcases evictOrPin_cases cfg pins c vict { c.lru with probation := p } with ⟨e1, _⟩ | ⟨e1, _⟩
          · rw [e1, regionOf_pinned_iff]; exact ⟨k1, kp, k3, k4⟩
          · rw [e1, regionOf_pinned_iff]; exact ⟨k1, kp, k3, List.mem_append_left _ k4⟩
        rw [moveKeyToProbation_pinned hreg']; exact ⟨_, rfl⟩
      · simp only []; split <;> exact ⟨_, rfl⟩

theorem processWrites_ok {cfg : Cfg σ} (pins : List Nat) {ms : List WMsg} {c : Core σ}
    (hfix : cfg.fixF4 = true) (hpm : cfg.protectedCap < cfg.mainLimit) (hi : CInv cfg ms c) :
    ∃ c', processWrites cfg pins ms c = .ok c' := by
  induction ms generalizing c with
  | nil => exact ⟨_, rfl⟩
  | cons m ms ih =>
    have h1 : ∃ c1, processWrite cfg pins c m = .ok c1 := by
      cases m with
      | insert k => exact onWrite_ok pins k hpm hi.caps
      | unpinned k => exact unpin_ok pins c k hfix
      | removed k => exact ⟨_, rfl⟩
    obtain ⟨c1, h1⟩ := h1
    obtain ⟨c2, h2⟩ := ih (processWrite_inv hpm h1 hi)
    exact ⟨c2, by unfold processWrites; rw [h1]; exact h2⟩

theorem tryMaintenance_ok {cfg : Cfg σ} {c : Cache σ} (hfix : cfg.fixF4 = true)
    (hpm : cfg.protectedCap < cfg.mainLimit) (hi : CInv cfg c.wbuf c.core) : ∃ c', tryMaintenance cfg c = .ok c' := by
  unfold tryMaintenance
  split
  · exact ⟨_, rfl⟩
  · unfold processPolicyMessages
    obtain ⟨c1, h1⟩ := processWrites_ok c.pins hfix hpm hi
    rw [h1]; exact ⟨_, rfl⟩

theorem step_ok {cfg : Cfg σ} {c : Cache σ} (op : Op) (hfix : cfg.fixF4 = true)
    (hpm : cfg.protectedCap < cfg.mainLimit) (hi : Inv cfg c) : ∃ x, step cfg c op = .ok x := by
  have ha := access_inv op (clearLog_inv hi).core
  unfold step
  split
  · obtain ⟨c1, h1⟩ := tryMaintenance_ok hfix hpm ha
    rw [h1]; exact ⟨_, rfl⟩
  · exact ⟨_, rfl⟩

theorem run_ok {cfg : Cfg σ} (ops : List Op) {c : Cache σ} (hfix : cfg.fixF4 = true)
    (hpm : cfg.protectedCap < cfg.mainLimit) (hi : Inv cfg c) : ∃ c', run cfg c ops = .ok c' := by
  induction ops generalizing c with
  | nil => exact ⟨_, rfl⟩
  | cons op ops ih =>
    obtain ⟨⟨c1, r, log⟩, h1⟩ := step_ok op hfix hpm hi
    obtain ⟨c2, h2⟩ := ih (step_inv hpm h1 hi)
    exact ⟨c2, by unfold run; rw [h1]; exact h2⟩

end QbiceVerif.TinyLfu
