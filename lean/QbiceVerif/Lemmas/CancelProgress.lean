import QbiceVerif.Lemmas.CancelAll
import QbiceVerif.Lemmas.CancelBatchStep
import QbiceVerif.Lemmas.CancelPhaseStep
import QbiceVerif.Lemmas.CancelPanic

/-!
# C05 — progress: the variant, deadlock-freedom, termination of the completing runs

The LTS does not bound the work a task may start (`call`, `lock`, `write`, `spawn`, `sStart`, `sWrite` are enabled
again and again: the model has no program), so "every maximal run is finite" is false for it.  What holds, and is
proved here, is the `no_stall` clause in the form that does not depend on the program:

* `completing_decreases` — an explicit variant (`variant n s` = sum over the live tasks of `taskCost`) strictly
  decreases on **every** *completing* event (`hit`, `wake`, `gEnter`, `batchNew`, `submit`, `finish`, `resume`,
  `bpUp`, `sAcquire`, `sBump`, `sCommit`, `sFinish`: the events by which started work is carried to its end);
  hence every run of completing events is finite (`completing_run_bounded`);
* `deadlock_free` — in every state reachable with rank-respecting calls (`ReachableR`: a callee's key is smaller
  than its caller's — the static-rank / acyclic-program assumption, C02) of the repaired configuration that is not
  quiescent, a completing event is enabled — whatever was cancelled or panicked before;
* `all_complete` — hence from every such state every maximal run of completing events ends, after at most
  `variant` steps, in a quiescent state (all remaining tasks returned / panicked / cancelled), and such a run exists.
-/

namespace QbiceVerif.CancelLts

set_option linter.unusedSimpArgs false
set_option linter.unusedVariables false

def pcCost : Pc → Nat
  | .start => 1 | .waitC => 2 | .waitB => 2 | .locked => 5 | .caught => 1 | .g0 => 4 | .g1 => 3 | .g2 => 2
  | .bpRun => 6 | .bpUp => 5 | .sInit => 4 | .sBumped => 3 | .sG0 => 3 | .sOpen => 2 | .sG1 => 1

/-- an upper bound of the number of completing events the task can still take -/
def taskCost (T : Task) : Nat := pcCost T.pc + 6 * (T.frames.length - 1)

def cost (s : State) (t : Tid) : Nat :=
  match s.tasks t with
  | some T => taskCost T
  | none => 0

def total (f : Nat → Nat) : Nat → Nat
  | 0 => 0
  | n + 1 => total f n + f n

/-- the variant: the sum of the costs of the tasks with an id below `n` -/
def variant (n : Nat) (s : State) : Nat := total (cost s) n

/-- the events by which work that was started is carried to its end -/
def Completing : Ev → Bool
  | .hit _ | .wake _ | .gEnter _ | .batchNew _ | .submit _ | .finish _ | .resume _ | .bpUp _
  | .sAcquire _ | .sBump _ | .sCommit _ | .sFinish _ => true
  | _ => false

theorem pcCost_pos (p : Pc) : 0 < pcCost p := by cases p <;> simp [pcCost]

theorem cost_pos {s : State} {t : Tid} {T : Task} (h : s.tasks t = some T) : 0 < cost s t := by
  simp only [cost, h, taskCost]; have := pcCost_pos T.pc; omega

theorem completing_live {s s' : State} {e : Ev} (hc : Completing e = true) (hs : step s e = some s') :
    s.tasks (taskOf e) ≠ none := by
  intro hn
  cases e <;> simp [Completing] at hc <;> simp only [taskOf] at hn <;> simp [step, hn] at hs

/-- every completing event strictly decreases the cost of its task -/
theorem completing_cost {s s' : State} {e : Ev} (hc : Completing e = true) (hs : step s e = some s') :
    cost s' (taskOf e) < cost s (taskOf e) := by
  cases e <;> simp [Completing] at hc <;> simp only [step] at hs <;> (repeat' split at hs) <;>
    first
    | (cases hs; done)
    | (injection hs with hs; subst hs
       simp_all [cost, taskOf, setTask, endTask, upd, taskCost, pcCost]
       try omega
       try (rename_i h; rcases h with ⟨h1, _⟩ | ⟨h1, _⟩ <;> simp [h1]))

theorem total_congr {f g : Nat → Nat} {n : Nat} (h : ∀ t, t < n → f t = g t) : total f n = total g n := by
  induction n with
  | zero => rfl
  | succ n ih =>
    simp only [total]
    rw [ih (fun t ht => h t (Nat.lt_succ_of_lt ht)), h n (Nat.lt_succ_self n)]

theorem total_lt {f g : Nat → Nat} {n t : Nat} (ht : t < n) (hlt : f t < g t) (ho : ∀ t', t' ≠ t → f t' = g t') :
    total f n < total g n := by
  induction n with
  | zero => cases ht
  | succ n ih =>
    simp only [total]
    by_cases e : t = n
    · subst e
      have : total f t = total g t := total_congr (fun t' ht' => ho t' (Nat.ne_of_lt ht'))
      omega
    · have h1 : t < n := by omega
      have := ih h1
      have h2 : f n = g n := ho n (fun x => e x.symm)
      omega

theorem total_zero {f : Nat → Nat} {n : Nat} (h : total f n = 0) : ∀ t, t < n → f t = 0 := by
  induction n with
  | zero => intro t ht; cases ht
  | succ n ih =>
    simp only [total] at h
    intro t ht
    by_cases e : t = n
    · subst e; omega
    · exact ih (by omega) t (by omega)

/-- all live tasks have an id below `n` -/
def Below (n : Nat) (s : State) : Prop := ∀ t, n ≤ t → s.tasks t = none

theorem completing_below {n : Nat} {s s' : State} {e : Ev} (hb : Below n s) (hc : Completing e = true)
    (hs : step s e = some s') : Below n s' := by
  intro t ht
  by_cases h : taskOf e = t
  · subst h; exact absurd (hb _ ht) (completing_live hc hs)
  · rw [(step_other hs h).1]; exact hb t ht

/-- **the variant strictly decreases on every completing event** -/
theorem completing_decreases {n : Nat} {s s' : State} {e : Ev} (hb : Below n s) (hc : Completing e = true)
    (hs : step s e = some s') : variant n s' < variant n s := by
  have hl : taskOf e < n := by
    apply Nat.lt_of_not_le
    intro h; exact completing_live hc hs (hb _ h)
  refine total_lt hl (completing_cost hc hs) ?_
  intro t' ht'
  simp only [cost, (step_other hs (fun x => ht' x.symm)).1]

theorem variant_zero_quiescent {n : Nat} {s : State} (hb : Below n s) (h : variant n s = 0) : ∀ t, s.tasks t = none := by
  intro t
  by_cases ht : t < n
  · cases hT : s.tasks t with
    | none => rfl
    | some T => have := total_zero h t ht; have := cost_pos hT; omega
  · exact hb t (Nat.le_of_not_lt ht)

/-- a run of completing events is no longer than the variant of its first state -/
theorem completing_run_bounded {n : Nat} {es : List Ev} {s s' : State} (hb : Below n s) (hall : ∀ e ∈ es, Completing e = true)
    (hr : run s es = some s') : es.length + variant n s' ≤ variant n s ∧ Below n s' := by
  induction es generalizing s with
  | nil => simp [run] at hr; subst hr; exact ⟨by simp, hb⟩
  | cons e es ih =>
    simp only [run] at hr
    cases h1 : step s e with
    | none => simp [h1] at hr
    | some s1 =>
      simp only [h1] at hr
      have hc := hall e List.mem_cons_self
      have hb1 := completing_below hb hc h1
      have hd := completing_decreases hb hc h1
      obtain ⟨a, b⟩ := ih hb1 (fun e' he' => hall e' (List.mem_cons_of_mem _ he')) hr
      exact ⟨by simp only [List.length_cons]; omega, b⟩

/-! ### local well-formedness of a task, and rank-respecting runs -/

structure TaskOk (f12 : Bool) (T : Task) : Prop where
  /-- at the loop head and while waiting the innermost frame holds no guard -/
  idle : ∀ top rest, T.frames = top :: rest → (T.pc = .start ∨ T.pc = .waitC ∨ T.pc = .waitB) → top.lock = false ∧ top.bp = false
  g1Batch : T.pc = .g1 → T.batch.isSome = true
  sBatch : (T.pc = .sBumped ∨ T.pc = .sOpen ∨ T.pc = .sG1) → T.batch.isSome = true
  sBumped : T.pc = .sBumped → f12 = false
  sessRd : T.pc.isSession = true → T.rd = false
  wr : T.wr = true ↔ (T.pc = .sG0 ∨ T.pc = .sOpen ∨ T.pc = .sG1)
  /-- the keys of the nested frames decrease inwards (innermost first: increasing) -/
  sorted : (T.frames.map (·.key)).Pairwise (· < ·)

/-- the static-rank assumption: a callee's key is smaller than its caller's -/
def RankedEv (s : State) : Ev → Prop
  | .call t c => ∀ T top rest, s.tasks t = some T → T.frames = top :: rest → c < top.key
  | _ => True

theorem step_taskOk {s s' : State} {e : Ev} (hrk : RankedEv s e)
    (h : ∀ t T, s.tasks t = some T → TaskOk s.cfg.f12 T) (hs : step s e = some s') :
    ∀ t T, s'.tasks t = some T → TaskOk s'.cfg.f12 T := by
  intro t T' hT'
  rw [step_cfg hs]
  by_cases hne : taskOf e = t
  · subst hne
    cases e with
    | cancel t0 =>
      simp only [step] at hs
      (repeat' split at hs) <;> first | (cases hs; done) | skip
      injection hs with hs; subst hs
      rename_i _ T hT hdet
      obtain ⟨h1, h2, h3, h4, h5, h6, h7⟩ := h _ _ hT
      simp only [taskOf] at hT'
      unfold cancelTask at hT'
      split at hT'
      · -- a session
        rename_i hses
        cases hpc : T.pc <;> simp [hpc, Pc.isSession] at hses <;>
          simp [hpc, endTask, setTask, upd, dropBatch] at hT' <;>
          (try (cases hb : T.batch <;> simp [hb, dropBatch, endTask, upd] at hT')) <;>
          (try subst hT') <;>
          (refine ⟨?_, ?_, ?_, ?_, ?_, ?_, ?_⟩ <;> simp_all [Pc.isSession])
      · cases hfr : T.frames with
        | nil => simp [hfr, endTask, upd] at hT'
        | cons top rest =>
          simp only [hfr] at hT'
          split at hT'
          · rename_i hg
            simp [upd] at hT'
            subst hT'
            refine ⟨?_, ?_, ?_, ?_, ?_, ?_, ?_⟩ <;> simp_all [Pc.isSession, Pc.guarded]
            all_goals (cases hpc : T.pc <;> simp_all [Pc.guarded])
          · cases hb : T.batch <;> simp [hb, dropBatch, endTask, upd] at hT'
    | call t0 c =>
      simp only [step] at hs
      (repeat' split at hs) <;> first | (cases hs; done) | skip
      injection hs with hs; subst hs
      simp [upd, taskOf] at hT'
      subst hT'
      rename_i _ T hT _ top rest hfr hpc _ e he
      obtain ⟨h1, h2, h3, h4, h5, h6, h7⟩ := h _ _ hT
      have hlt : c < top.key := hrk T top rest hT hfr
      refine ⟨?_, ?_, ?_, ?_, ?_, ?_, ?_⟩ <;> simp_all [Pc.isSession]
      intro a ha
      exact Nat.lt_trans hlt (h7.1 a ha)
    | spawn t0 k cl u =>
      simp only [step] at hs
      split at hs
      · injection hs with hs; subst hs
        simp [upd, taskOf] at hT'
        subst hT'
        refine ⟨?_, ?_, ?_, ?_, ?_, ?_, ?_⟩ <;> simp [Pc.isSession]
      · cases hs
    | sStart t0 =>
      simp only [step] at hs
      split at hs
      · injection hs with hs; subst hs
        simp [setTask, upd, taskOf] at hT'
        subst hT'
        refine ⟨?_, ?_, ?_, ?_, ?_, ?_, ?_⟩ <;> simp [Pc.isSession]
      · cases hs
    | wake t0 =>
      simp only [step] at hs
      (repeat' split at hs) <;> first | (cases hs; done) | skip
      injection hs with hs; subst hs
      simp [setTask, upd, taskOf] at hT'
      subst hT'
      obtain ⟨h1, h2, h3, h4, h5, h6, h7⟩ := h _ _ (by assumption)
      rename_i hw
      rcases hw with ⟨hw, _⟩ | ⟨hw, _⟩ <;> (refine ⟨?_, ?_, ?_, ?_, ?_, ?_, ?_⟩ <;> simp_all [Pc.isSession])
    | _ =>
      simp only [step] at hs <;> (repeat' split at hs) <;>
      first
      | (cases hs; done)
      | (injection hs with hs; subst hs
         simp [setTask, endTask, upd, taskOf] at hT'
         all_goals
           (try subst hT'
            obtain ⟨h1, h2, h3, h4, h5, h6, h7⟩ := h _ _ (by assumption)
            refine ⟨?_, ?_, ?_, ?_, ?_, ?_, ?_⟩ <;> simp_all [Pc.isSession]))
  · rw [(step_other hs hne).1] at hT'; exact h t T' hT'

/-- reachability with rank-respecting calls -/
inductive ReachableR (cfg : Cfg) : State → Prop
  | init : ReachableR cfg (init cfg)
  | step {s s'} (e : Ev) : ReachableR cfg s → RankedEv s e → step s e = some s' → ReachableR cfg s'

theorem ReachableR.reachable {cfg : Cfg} {s : State} (h : ReachableR cfg s) : Reachable cfg s := by
  induction h with
  | init => exact .init
  | step e _ _ hs ih => exact .step e ih hs

theorem reachableR_taskOk {cfg : Cfg} {s : State} (h : ReachableR cfg s) : ∀ t T, s.tasks t = some T → TaskOk cfg.f12 T := by
  induction h with
  | init => intro t T hT; simp [init] at hT
  | step e hr hrk hs ih =>
    have hc := reachable_cfg hr.reachable
    have := step_taskOk hrk (by rw [hc]; exact ih) hs
    rw [step_cfg hs, hc] at this
    exact this

theorem reachable_below {cfg : Cfg} {s : State} (h : Reachable cfg s) : ∃ n, Below n s := by
  induction h with
  | init => exact ⟨0, fun t _ => rfl⟩
  | step e hr hs ih =>
    obtain ⟨n, hn⟩ := ih
    refine ⟨max n (taskOf e + 1), ?_⟩
    intro t ht
    have hl := Nat.le_max_left n (taskOf e + 1)
    have hr' := Nat.le_max_right n (taskOf e + 1)
    generalize max n (taskOf e + 1) = m at ht hl hr'
    have h1 : taskOf e ≠ t := Nat.ne_of_lt (by omega)
    rw [(step_other hs h1).1]
    exact hn t (by omega)

/-- a query task that holds a guard and is not waiting can take a completing step -/
theorem busy_can_step {s : State} {t : Tid} {T : Task} {f : Bool} {top : Frame} {rest : List Frame}
    (IB : InvBatch s) (hT : s.tasks t = some T) (ok : TaskOk f T) (hfr : T.frames = top :: rest)
    (hpc : T.pc = .locked ∨ T.pc = .caught ∨ T.pc = .g0 ∨ T.pc = .g1 ∨ T.pc = .g2 ∨ T.pc = .bpRun ∨ T.pc = .bpUp) :
    ∃ e, Completing e = true ∧ (step s e).isSome = true := by
  have hw := IB.heldWhere t T hT
  rcases hpc with h | h | h | h | h | h | h
  · exact ⟨.gEnter t, rfl, by simp [step, hT, h]⟩
  · refine ⟨.resume t, rfl, ?_⟩
    cases rest <;> simp [step, hT, hfr, h]
  · have hb : T.batch = none := by
      cases hb : T.batch with
      | none => rfl
      | some b => simp [hb, h, Pc.batchOk] at hw
    exact ⟨.batchNew t, rfl, by simp [step, hT, h, hb]⟩
  · have hb := ok.g1Batch h
    cases hb' : T.batch with
    | none => simp [hb'] at hb
    | some b => exact ⟨.submit t, rfl, by simp [step, hT, hfr, h, hb']⟩
  · refine ⟨.finish t, rfl, ?_⟩
    cases hd : T.detached <;> simp [step, hT, hfr, h, hd]
  · have hb : T.batch = none := by
      cases hb : T.batch with
      | none => rfl
      | some b => simp [hb, h, Pc.batchOk] at hw
    refine ⟨.bpUp t, rfl, ?_⟩
    cases hf : s.cfg.f11 <;> simp [step, hT, h, hb, hf]
  · exact ⟨.gEnter t, rfl, by simp [step, hT, h]⟩

theorem exists_min (f : Tid → Nat) : ∀ (l : List Tid), l ≠ [] → ∃ t ∈ l, ∀ t' ∈ l, f t ≤ f t'
  | [], h => absurd rfl h
  | [a], _ => ⟨a, by simp, by simp⟩
  | a :: b :: l, _ => by
    obtain ⟨m, hm, hmin⟩ := exists_min f (b :: l) (by simp)
    by_cases h : f a ≤ f m
    · refine ⟨a, by simp, ?_⟩
      intro t' ht'
      rcases List.mem_cons.mp ht' with rfl | ht'
      · exact Nat.le_refl _
      · exact Nat.le_trans h (hmin t' ht')
    · refine ⟨m, List.mem_cons_of_mem _ hm, ?_⟩
      intro t' ht'
      rcases List.mem_cons.mp ht' with rfl | ht'
      · omega
      · exact hmin t' ht'

theorem reachable_phase0 {cfg : Cfg} {s : State} (hr : Reachable cfg s) : InvPhase s := by
  induction hr with
  | init => exact invPhase_init cfg
  | step e hr hs ih => exact step_phase e (reachable_core hr) ih hs

theorem reachable_batch0 {cfg : Cfg} (h11 : cfg.f11 = true) (h12 : cfg.f12 = true) {s : State} (hr : Reachable cfg s) :
    InvBatch s := by
  induction hr with
  | init => exact invBatch_init cfg
  | step e hr hs ih =>
    have hc := reachable_cfg hr
    exact step_batch e (reachable_core hr) ih (by rw [hc]; exact h11) (by rw [hc]; exact h12) hs

/-- the key of the innermost frame -/
def topKey (s : State) (t : Tid) : Nat :=
  match s.tasks t with
  | some T => (match T.frames with | top :: _ => top.key | [] => 0)
  | none => 0

theorem pc_cases (p : Pc) :
    (p = .start ∨ p = .waitC ∨ p = .waitB) ∨
    (p = .locked ∨ p = .caught ∨ p = .g0 ∨ p = .g1 ∨ p = .g2 ∨ p = .bpRun ∨ p = .bpUp) ∨ p.isSession = true := by
  cases p <;> simp [Pc.isSession]

/-- The waits-for relation is acyclic because it descends in rank: the owner of an entry that a task with the
    smallest innermost key waits for holds that entry in its own innermost frame, so it is not waiting itself. -/
theorem owner_of_min_can_step {s : State} {f12 : Bool} (IC : InvCore s) (IB : InvBatch s)
    (OK : ∀ t T, s.tasks t = some T → TaskOk f12 T)
    {o : Tid} {To : Task} (hTo : s.tasks o = some To) {f : Frame} (hf : f ∈ To.frames)
    (hheld : f.lock = true ∨ f.bp = true) (hmin : f.key ≤ topKey s o) :
    ∃ e, Completing e = true ∧ (step s e).isSome = true := by
  have ok := OK o To hTo
  cases hfo : To.frames with
  | nil => rw [hfo] at hf; cases hf
  | cons topo resto =>
    have hso : To.pc.isSession = false := by
      cases h : To.pc.isSession with
      | false => rfl
      | true => have := (IC.shape o To hTo).mp h; rw [hfo] at this; cases this
    have hsorted := ok.sorted
    rw [hfo] at hsorted hf
    simp only [List.map_cons, List.pairwise_cons] at hsorted
    have htk : topKey s o = topo.key := by simp [topKey, hTo, hfo]
    have hhead : f = topo := by
      rcases List.mem_cons.mp hf with h | h
      · exact h
      · have := hsorted.1 f.key (List.mem_map.mpr ⟨f, h, rfl⟩)
        rw [htk] at hmin
        exact absurd (Nat.lt_of_lt_of_le this hmin) (Nat.lt_irrefl _)
    subst hhead
    rcases pc_cases To.pc with hi | hb | hs
    · have := ok.idle f resto hfo hi
      rcases hheld with h | h <;> simp [h] at this
    · exact busy_can_step IB hTo ok hfo hb
    · rw [hso] at hs; cases hs

/-- **deadlock-freedom**: in every state of the repaired configuration that is reachable with rank-respecting calls
    — whatever was cancelled or panicked on the way — and in which a task is left, a completing event is enabled -/
theorem deadlock_free {s : State} (hr : ReachableR Cfg.fixed s) (hne : ∃ t, s.tasks t ≠ none) :
    ∃ e, Completing e = true ∧ (step s e).isSome = true := by
  have hR := hr.reachable
  have IC := reachable_core hR
  have IP := reachable_phase0 hR
  have IB := reachable_batch0 (cfg := Cfg.fixed) rfl rfl hR
  have hcfg := reachable_cfg hR
  have OK := reachableR_taskOk hr
  have h40 : s.cfg.f40 = true := by rw [hcfg]; rfl
  have h12 : s.cfg.f12 = true := by rw [hcfg]; rfl
  by_cases hq : ∃ t T, s.tasks t = some T ∧ T.pc.isSession = false
  · -- some query task is alive: take one with the smallest innermost key
    obtain ⟨t0, T0, hT0, hs0⟩ := hq
    have hin0 : t0 ∈ s.readers := IP.rdIn t0 T0 hT0 (IP.queryRd h40 t0 T0 hT0 hs0)
    obtain ⟨t, htm, hmin⟩ := exists_min (topKey s) s.readers (by intro h; rw [h] at hin0; cases hin0)
    obtain ⟨T, hT, hrd⟩ := IP.inRd t htm
    have ok := OK t T hT
    have hns : T.pc.isSession = false := by
      cases h : T.pc.isSession with
      | false => rfl
      | true => have := ok.sessRd h; rw [hrd] at this; cases this
    cases hfr : T.frames with
    | nil => have := (IC.shape t T hT).mpr hfr; rw [hns] at this; cases this
    | cons top rest =>
      have htk : topKey s t = top.key := by simp [topKey, hT, hfr]
      -- every live query task is a reader
      have inReaders : ∀ o To, s.tasks o = some To → To.frames ≠ [] → o ∈ s.readers := by
        intro o To hTo hne'
        have : To.pc.isSession = false := by
          cases h : To.pc.isSession with
          | false => rfl
          | true => exact absurd ((IC.shape o To hTo).mp h) hne'
        exact IP.rdIn o To hTo (IP.queryRd h40 o To hTo this)
      rcases pc_cases T.pc with hi | hb | hs
      · rcases hi with h | h | h
        · -- loop head: the fast path
          have := ok.idle top rest hfr (Or.inl h)
          refine ⟨.hit t, rfl, ?_⟩
          cases rest <;> simp [step, hT, hfr, h, this.1, this.2]
        · -- waiting for a computing entry
          cases he : s.comp top.key with
          | none => exact ⟨.wake t, rfl, by simp [step, hT, hfr, h, he]⟩
          | some e =>
            obtain ⟨To, hTo, hk⟩ := IC.compOwner top.key e.owner (by simp [owner, he])
            obtain ⟨f, hf, hfl, hfk⟩ := mem_lockKeys.mp hk
            have hin := inReaders e.owner To hTo (by intro h'; rw [h'] at hf; cases hf)
            have := hmin e.owner hin
            rw [htk] at this
            exact owner_of_min_can_step IC IB OK hTo hf (Or.inl hfl) (by rw [hfk]; exact this)
        · -- waiting for a backward-projection entry
          cases he : s.bpl top.key with
          | none => exact ⟨.wake t, rfl, by simp [step, hT, hfr, h, he]⟩
          | some o =>
            obtain ⟨To, hTo, hk⟩ := IC.bpOwner top.key o he
            obtain ⟨f, hf, hfl, hfk⟩ := mem_bpKeys.mp hk
            have hin := inReaders o To hTo (by intro h'; rw [h'] at hf; cases hf)
            have := hmin o hin
            rw [htk] at this
            exact owner_of_min_can_step IC IB OK hTo hf (Or.inr hfl) (by rw [hfk]; exact this)
      · exact busy_can_step IB hT ok hfr hb
      · rw [hns] at hs; cases hs
  · -- only sessions are left
    have allSess : ∀ t T, s.tasks t = some T → T.pc.isSession = true := by
      intro t T hT
      cases h : T.pc.isSession with
      | true => rfl
      | false => exact absurd ⟨t, T, hT, h⟩ hq
    cases hw : s.writer with
    | some w =>
      obtain ⟨Tw, hTw, hwr⟩ := IP.writerLive w hw
      have ok := OK w Tw hTw
      rcases ok.wr.mp hwr with h | h | h
      · exact ⟨.sBump w, rfl, by simp [step, hTw, h]⟩
      · exact ⟨.sCommit w, rfl, by simp [step, hTw, h]⟩
      · have hb := ok.sBatch (Or.inr (Or.inr h))
        cases hb' : Tw.batch with
        | none => simp [hb'] at hb
        | some b => exact ⟨.sFinish w, rfl, by simp [step, hTw, h, hb']⟩
    | none =>
      obtain ⟨t, hlive⟩ := hne
      cases hT : s.tasks t with
      | none => exact absurd hT hlive
      | some T =>
        have ok := OK t T hT
        have hses := allSess t T hT
        have hwr : T.wr = false := by
          cases h : T.wr with
          | false => rfl
          | true => have := IP.wrWriter t T hT h; rw [hw] at this; cases this
        have hrd : s.readers = [] := by
          cases hrs : s.readers with
          | nil => rfl
          | cons a l =>
            obtain ⟨Ta, hTa, hra⟩ := IP.inRd a (by rw [hrs]; exact List.mem_cons_self)
            have := (OK a Ta hTa).sessRd (allSess a Ta hTa)
            rw [hra] at this; cases this
        have hpc : T.pc = .sInit := by
          have hnw : ¬ (T.pc = .sG0 ∨ T.pc = .sOpen ∨ T.pc = .sG1) := by
            intro h; have := ok.wr.mpr h; rw [hwr] at this; cases this
          have hb := ok.sBumped
          cases hp : T.pc <;> simp [hp, Pc.isSession, Cfg.fixed] at hses hnw hb ⊢
        exact ⟨.sAcquire t, rfl, by simp [step, hT, hrd, hw, hpc, h12]⟩

theorem ranked_of_completing {s : State} {e : Ev} (hc : Completing e = true) : RankedEv s e := by
  cases e <;> simp [Completing] at hc <;> trivial

theorem completing_not_fault {e : Ev} (hc : Completing e = true) : ∀ t, e ≠ .cancel t ∧ e ≠ .panic t := by
  intro t; cases e <;> simp [Completing] at hc <;> simp

theorem completing_run_reachableR {cfg : Cfg} {es : List Ev} {s s' : State} (hr : ReachableR cfg s)
    (hall : ∀ e ∈ es, Completing e = true) (h : run s es = some s') : ReachableR cfg s' := by
  induction es generalizing s with
  | nil => simp [run] at h; subst h; exact hr
  | cons e es ih =>
    simp only [run] at h
    cases h1 : step s e with
    | none => simp [h1] at h
    | some s1 =>
      simp only [h1] at h
      exact ih (.step e hr (ranked_of_completing (hall e List.mem_cons_self)) h1)
        (fun e' he' => hall e' (List.mem_cons_of_mem _ he')) h

theorem all_complete_aux (n : Nat) : ∀ (m : Nat) (s : State), ReachableR Cfg.fixed s → Below n s → variant n s ≤ m →
    ∃ es s', (∀ e ∈ es, Completing e = true) ∧ run s es = some s' ∧ ∀ t, s'.tasks t = none := by
  intro m
  induction m with
  | zero =>
    intro s _ hb hv
    exact ⟨[], s, by simp, rfl, variant_zero_quiescent hb (by omega)⟩
  | succ m ih =>
    intro s hr hb hv
    by_cases hq : ∀ t, s.tasks t = none
    · exact ⟨[], s, by simp, rfl, hq⟩
    · have hne : ∃ t, s.tasks t ≠ none := by
        apply Classical.byContradiction
        intro h
        apply hq
        intro t
        cases hT : s.tasks t with
        | none => rfl
        | some T => exact absurd ⟨t, by simp [hT]⟩ h
      obtain ⟨e, hc, hen⟩ := deadlock_free hr hne
      cases h1 : step s e with
      | none => simp [h1] at hen
      | some s1 =>
        have hd := completing_decreases hb hc h1
        obtain ⟨es, s', hall, hrun, hqs⟩ := ih s1 (.step e hr (ranked_of_completing hc) h1) (completing_below hb hc h1) (by omega)
        refine ⟨e :: es, s', ?_, by simp [run, h1, hrun], hqs⟩
        intro e' he'
        rcases List.mem_cons.mp he' with rfl | he'
        · exact hc
        · exact hall e' he'

/-- **all_complete**: from every state of the repaired configuration reachable with rank-respecting calls — whatever
    was cancelled or panicked on the way — a run of completing events (no `cancel`, no `panic`, no new work) leads to a
    state without any task: every remaining task has returned, panicked or been cancelled -/
theorem all_complete {s : State} (hr : ReachableR Cfg.fixed s) :
    ∃ es s', (∀ e ∈ es, Completing e = true) ∧ run s es = some s' ∧ ∀ t, s'.tasks t = none := by
  obtain ⟨n, hb⟩ := reachable_below hr.reachable
  exact all_complete_aux n (variant n s) s hr hb (Nat.le_refl _)

/-- … and **every** maximal run of completing events ends there, after at most `variant n s` steps: such a run is
    finite (`completing_run_bounded`), and where no completing event is enabled no task is left -/
theorem maximal_completing_run_quiescent {s s' : State} {es : List Ev} (hr : ReachableR Cfg.fixed s)
    (hall : ∀ e ∈ es, Completing e = true) (hrun : run s es = some s')
    (hmax : ∀ e, Completing e = true → step s' e = none) : ∀ t, s'.tasks t = none := by
  have hr' := completing_run_reachableR hr hall hrun
  intro t
  cases hT : s'.tasks t with
  | none => rfl
  | some T =>
    obtain ⟨e, hc, hen⟩ := deadlock_free hr' ⟨t, by simp [hT]⟩
    rw [hmax e hc] at hen
    cases hen

end QbiceVerif.CancelLts
