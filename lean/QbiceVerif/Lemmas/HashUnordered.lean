/-
Hash-ordered collections (C13): the stream is `len ++ le128 (Σ sub-hashes mod 2^128)`; the sum is a function
of the multiset of entry streams.
-/
import QbiceVerif.Lemmas.HashOrdered

namespace QbiceVerif.Hash

theorem le_mod (k n : Nat) : le k (n % 256 ^ k) = le k n := by
  induction k generalizing n with
  | zero => rfl
  | succ k ih =>
    simp only [le]
    rw [Nat.pow_succ', Nat.mod_mod_of_dvd _ (Nat.dvd_mul_right 256 _), Nat.mod_mul_right_div_self, ih]

theorem le_congr_mod {k a b : Nat} (h : a % 256 ^ k = b % 256 ^ k) : le k a = le k b := by
  rw [← le_mod k a, ← le_mod k b, h]

theorem ValList.length_toList : ∀ (vs : ValList), vs.toList.length = vs.length
  | .nil => rfl
  | .cons _ vs => by simp [ValList.toList, ValList.length, ValList.length_toList vs]

theorem ValList.canon_toList : ∀ (vs : ValList), vs.canon.toList = vs.toList.map Val.canon
  | .nil => rfl
  | .cons _ vs => by simp [ValList.toList, ValList.canon, ValList.canon_toList vs]

theorem allHaveType_mem : ∀ (vs : ValList) {t : Ty} {v : Val}, allHaveType t vs = true →
    v ∈ vs.toList → hasType t v = true
  | .nil, _, _, _, hm => by simp [ValList.toList] at hm
  | .cons x xs, t, v, h, hm => by
    simp only [allHaveType, Bool.and_eq_true] at h
    simp only [ValList.toList, List.mem_cons] at hm
    rcases hm with rfl | hm
    · exact h.1
    · exact allHaveType_mem xs h.2 hm

section
variable {σ : Type} (absorb : σ → Bytes → σ) (finish : σ → Nat)

/-- what each entry writes into its sub-hasher (a copy of `st`) -/
def entryStreams (t : Ty) (vs : ValList) (st : σ) : List Bytes :=
  vs.toList.map (fun v => stream absorb finish t v st)

/-- the 128-bit sub-hash of one entry stream -/
def subHash (st : σ) (s : Bytes) : Nat := finish (absorb st s)

theorem sumSub_eq : ∀ (vs : ValList) (t : Ty) (st : σ) (acc : Nat),
    sumSub absorb finish t vs st acc % M128 =
      (acc + ((entryStreams absorb finish t vs st).map (subHash absorb finish st)).sum) % M128
  | .nil, t, st, acc => by simp [sumSub, entryStreams, ValList.toList]
  | .cons v vs, t, st, acc => by
    simp only [sumSub, entryStreams, ValList.toList, List.map_cons, List.sum_cons]
    have ih := sumSub_eq vs t st ((acc + finish (absorb st (stream absorb finish t v st))) % M128)
    simp only [entryStreams] at ih
    rw [ih, Nat.mod_add_mod, Nat.add_assoc]
    rfl

/-- closed form of the stream of a set / heap -/
theorem stream_uset (t : Ty) (vs : ValList) (st : σ) :
    stream absorb finish (.uset t) (.list vs) st =
      le 8 vs.length ++ le 16 (((entryStreams absorb finish t vs (absorb st (le 8 vs.length))).map
        (subHash absorb finish (absorb st (le 8 vs.length)))).sum) := by
  simp only [stream]
  congr 1
  apply le_congr_mod
  rw [← M128_eq, sumSub_eq, Nat.zero_add]

/-- closed form of the stream of a map: the entry is key then value in one sub-hasher -/
theorem stream_umap (k v : Ty) (vs : ValList) (st : σ) :
    stream absorb finish (.umap k v) (.list vs) st =
      stream absorb finish (.uset (Ty.pair k v)) (.list vs) st := by
  simp only [stream]

theorem perm_map_of_factor {α β γ : Type} (f : α → β) (g : α → γ) :
    ∀ (l1 l2 : List α), (l1.map f).Perm (l2.map f) →
      (∀ a ∈ l1, ∀ b ∈ l2, f a = f b → g a = g b) → (l1.map g).Perm (l2.map g)
  | [], l2, hp, _ => by
    have := hp.length_eq
    simp at this
    have : l2 = [] := List.eq_nil_of_length_eq_zero this.symm
    subst this
    exact List.Perm.refl _
  | a :: l1, l2, hp, hinj => by
    have hmem : f a ∈ l2.map f := hp.subset (by simp)
    obtain ⟨b, hb, hfb⟩ := List.mem_map.mp hmem
    obtain ⟨s, u, rfl⟩ := List.append_of_mem hb
    have h1 : (f a :: l1.map f).Perm (f a :: (s ++ u).map f) := by
      have : ((s ++ b :: u).map f).Perm (f b :: (s ++ u).map f) := by
        simp
      rw [hfb] at this
      exact (by simpa using hp : (f a :: l1.map f).Perm ((s ++ b :: u).map f)).trans this
    have ih := perm_map_of_factor f g l1 (s ++ u) h1.cons_inv (fun x hx y hy hxy =>
      hinj x (List.mem_cons_of_mem _ hx) y (by
        rcases List.mem_append.mp hy with h | h
        · exact List.mem_append.mpr (Or.inl h)
        · exact List.mem_append.mpr (Or.inr (List.mem_cons_of_mem _ h))) hxy)
    have hga : g a = g b := hinj a (by simp) b hb hfb.symm
    have h2 : ((s ++ b :: u).map g).Perm (g b :: (s ++ u).map g) := by
      simp
    simp only [List.map_cons]
    rw [hga]
    exact (List.Perm.cons _ ih).trans h2.symm

end

end QbiceVerif.Hash
