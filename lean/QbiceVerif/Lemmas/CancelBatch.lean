import QbiceVerif.Lemmas.CancelCfg

/-!
# C05 — write batches are linear: with repairs `f11` and `f12` no active batch is ever dropped

`InvBatch` holds in every reachable state of a configuration with `f11 = f12 = true`; for the code as it
is it is refuted by the witnesses in `Props/C05.lean`.
-/

namespace QbiceVerif.CancelLts

/-- where the suspended code may hold an active batch: inside a guarded block, or inside the session object
    (whose `Drop` commits) -/
def Pc.batchOk : Pc → Bool
  | .g1 | .sOpen | .sG1 => true
  | _ => false

structure InvBatch (s : State) : Prop where
  notAborted : s.aborted = false
  activeHeld : ∀ b, s.bst b = .active → ∃ t T, s.tasks t = some T ∧ T.batch = some b
  heldActive : ∀ t T b, s.tasks t = some T → T.batch = some b → s.bst b = .active
  heldOnce : ∀ t1 t2 T1 T2 b, s.tasks t1 = some T1 → s.tasks t2 = some T2 → T1.batch = some b → T2.batch = some b → t1 = t2
  freshAbove : ∀ b, s.nextBid ≤ b → s.bst b = .fresh
  usedBelow : ∀ b, b < s.nextBid → s.bst b ≠ .fresh
  neverDropped : ∀ b, s.bst b ≠ .dropped
  heldWhere : ∀ t T, s.tasks t = some T → T.batch.isSome = true → T.pc.batchOk = true

theorem invBatch_init (cfg : Cfg) : InvBatch (init cfg) := by
  refine ⟨rfl, ?_, ?_, ?_, ?_, ?_, ?_, ?_⟩ <;> simp [init]

/-- An event that leaves the batch table alone and changes (creates, ends) one task without changing the
    batch it holds. -/
theorem batch_keep {s s' : State} {t : Tid} (h : InvBatch s)
    (hb : s'.bst = s.bst) (hn : s'.nextBid = s.nextBid) (ha : s'.aborted = s.aborted)
    (ho : ∀ t', t' ≠ t → s'.tasks t' = s.tasks t')
    (ht : (∃ T', s'.tasks t = some T' ∧ ((T'.batch = none ∧ ∀ T, s.tasks t = some T → T.batch = none) ∨
              ∃ T, s.tasks t = some T ∧ T'.batch = T.batch ∧ (T'.batch.isSome = true → T'.pc.batchOk = true)))
          ∨ (s'.tasks t = none ∧ ∀ T, s.tasks t = some T → T.batch = none)) :
    InvBatch s' := by
  -- whoever holds a batch afterwards held the same batch before
  have back : ∀ t' T' b, s'.tasks t' = some T' → T'.batch = some b → ∃ T, s.tasks t' = some T ∧ T.batch = some b := by
    intro t' T' b h1 h2
    by_cases e : t' = t
    · subst e
      rcases ht with ⟨T'', a, c⟩ | ⟨a, _⟩
      · rw [a] at h1; cases h1
        rcases c with ⟨c, _⟩ | ⟨T, c1, c2, _⟩
        · rw [c] at h2; cases h2
        · exact ⟨T, c1, by rw [← c2]; exact h2⟩
      · rw [a] at h1; cases h1
    · rw [ho t' e] at h1; exact ⟨T', h1, h2⟩
  refine ⟨by rw [ha]; exact h.notAborted, ?_, ?_, ?_, ?_, ?_, ?_, ?_⟩
  · intro b hb'
    rw [hb] at hb'
    obtain ⟨t0, T0, a, c⟩ := h.activeHeld b hb'
    by_cases e : t0 = t
    · subst e
      rcases ht with ⟨T', a', c'⟩ | ⟨_, c'⟩
      · rcases c' with ⟨_, c'⟩ | ⟨T, c1, c2, _⟩
        · exact absurd (c' T0 a) (by rw [c]; simp)
        · rw [a] at c1; cases c1
          exact ⟨t0, T', a', by rw [c2]; exact c⟩
      · exact absurd (c' T0 a) (by rw [c]; simp)
    · exact ⟨t0, T0, by rw [ho t0 e]; exact a, c⟩
  · intro t' T' b h1 h2
    obtain ⟨T, a, c⟩ := back t' T' b h1 h2
    rw [hb]; exact h.heldActive t' T b a c
  · intro t1 t2 T1 T2 b h1 h2 h3 h4
    obtain ⟨U1, a1, c1⟩ := back t1 T1 b h1 h3
    obtain ⟨U2, a2, c2⟩ := back t2 T2 b h2 h4
    exact h.heldOnce t1 t2 U1 U2 b a1 a2 c1 c2
  · intro b hb'; rw [hn] at hb'; rw [hb]; exact h.freshAbove b hb'
  · intro b hb'; rw [hn] at hb'; rw [hb]; exact h.usedBelow b hb'
  · intro b; rw [hb]; exact h.neverDropped b
  · intro t' T' h1 h2
    by_cases e : t' = t
    · subst e
      rcases ht with ⟨T'', a, c⟩ | ⟨a, _⟩
      · rw [a] at h1; cases h1
        rcases c with ⟨c, _⟩ | ⟨T, _, _, c3⟩
        · rw [c] at h2; cases h2
        · exact c3 h2
      · rw [a] at h1; cases h1
    · rw [ho t' e] at h1; exact h.heldWhere t' T' h1 h2

end QbiceVerif.CancelLts

namespace QbiceVerif.CancelLts

theorem batch_task_same {s s' : State} {t : Tid} {T T' : Task} (h : InvBatch s) (hT : s.tasks t = some T)
    (htasks : s'.tasks = upd s.tasks t (some T')) (hb : s'.bst = s.bst) (hn : s'.nextBid = s.nextBid) (ha : s'.aborted = s.aborted)
    (hbatch : T'.batch = T.batch) (hpc : T.batch.isSome = true → T'.pc.batchOk = true) : InvBatch s' := by
  refine batch_keep (t := t) h hb hn ha (by intro t' ht'; rw [htasks]; simp [upd, ht']) (Or.inl ⟨T', by rw [htasks]; simp, Or.inr ⟨T, hT, hbatch, ?_⟩⟩)
  rw [hbatch]; exact hpc

theorem batch_task_end {s s' : State} {t : Tid} {T : Task} (h : InvBatch s) (hT : s.tasks t = some T)
    (htasks : s'.tasks = upd s.tasks t none) (hb : s'.bst = s.bst) (hn : s'.nextBid = s.nextBid) (ha : s'.aborted = s.aborted)
    (hnone : T.batch = none) : InvBatch s' := by
  refine batch_keep (t := t) h hb hn ha (by intro t' ht'; rw [htasks]; simp [upd, ht']) (Or.inr ⟨by rw [htasks]; simp, ?_⟩)
  intro T0 h0; rw [hT] at h0; cases h0; exact hnone

theorem batch_task_new {s s' : State} {t : Tid} {T' : Task} (h : InvBatch s) (hT : s.tasks t = none)
    (htasks : s'.tasks = upd s.tasks t (some T')) (hb : s'.bst = s.bst) (hn : s'.nextBid = s.nextBid) (ha : s'.aborted = s.aborted)
    (hnone : T'.batch = none) : InvBatch s' := by
  refine batch_keep (t := t) h hb hn ha (by intro t' ht'; rw [htasks]; simp [upd, ht']) (Or.inl ⟨T', by rw [htasks]; simp, Or.inl ⟨hnone, ?_⟩⟩)
  intro T0 h0; rw [hT] at h0; cases h0

/-- a task that is not at a place where a batch may be held holds none -/
theorem InvBatch.none_of_pc {s : State} (h : InvBatch s) {t : Tid} {T : Task} (hT : s.tasks t = some T)
    (hpc : T.pc.batchOk = false) : T.batch = none := by
  cases hb : T.batch with
  | none => rfl
  | some b =>
    have := h.heldWhere t T hT (by simp [hb])
    rw [hpc] at this; cases this

/-- A new batch for a task that holds none. -/
theorem batch_new {s : State} {t : Tid} {T T' : Task} (h : InvBatch s) (hT : s.tasks t = some T) (hnone : T.batch = none)
    (hb' : T'.batch = some s.nextBid) (hpc : T'.pc.batchOk = true)
    (tasks' : Tid → Option Task) (htasks : tasks' = upd s.tasks t (some T')) {s' : State}
    (h1 : s'.tasks = tasks') (h2 : s'.bst = upd s.bst s.nextBid .active) (h3 : s'.nextBid = s.nextBid + 1) (h4 : s'.aborted = s.aborted) :
    InvBatch s' := by
  subst htasks
  have ho : ∀ t', t' ≠ t → s'.tasks t' = s.tasks t' := by intro t' ht'; rw [h1]; simp [upd, ht']
  have hl : s'.tasks t = some T' := by rw [h1]; simp
  -- nobody holds the fresh id
  have hfreshId : ∀ t0 T0, s.tasks t0 = some T0 → T0.batch ≠ some s.nextBid := by
    intro t0 T0 a c
    have := h.heldActive t0 T0 _ a c
    rw [h.freshAbove _ (Nat.le_refl _)] at this; cases this
  refine ⟨by rw [h4]; exact h.notAborted, ?_, ?_, ?_, ?_, ?_, ?_, ?_⟩
  · intro b hb
    rw [h2] at hb
    by_cases e : b = s.nextBid
    · subst e; exact ⟨t, T', hl, hb'⟩
    · simp only [upd, e, if_false] at hb
      obtain ⟨t0, T0, a, c⟩ := h.activeHeld b hb
      have : t0 ≠ t := by intro e'; subst e'; rw [hT] at a; cases a; rw [hnone] at c; cases c
      exact ⟨t0, T0, by rw [ho t0 this]; exact a, c⟩
  · intro t0 T0 b a c
    rw [h2]
    by_cases e : t0 = t
    · subst e; rw [hl] at a; cases a; rw [hb'] at c; cases c; simp
    · rw [ho t0 e] at a
      have := h.heldActive t0 T0 b a c
      have hne : b ≠ s.nextBid := by intro e'; subst e'; exact hfreshId t0 T0 a c
      simp [upd, hne, this]
  · intro t1 t2 T1 T2 b a1 a2 c1 c2
    by_cases e1 : t1 = t
    · by_cases e2 : t2 = t
      · rw [e1, e2]
      · subst e1; rw [hl] at a1; cases a1; rw [hb'] at c1; cases c1
        rw [ho t2 e2] at a2; exact absurd c2 (hfreshId t2 T2 a2)
    · by_cases e2 : t2 = t
      · subst e2; rw [hl] at a2; cases a2; rw [hb'] at c2; cases c2
        rw [ho t1 e1] at a1; exact absurd c1 (hfreshId t1 T1 a1)
      · rw [ho t1 e1] at a1; rw [ho t2 e2] at a2
        exact h.heldOnce t1 t2 T1 T2 b a1 a2 c1 c2
  · intro b hb; rw [h3] at hb; rw [h2]
    have : b ≠ s.nextBid := by intro e; subst e; exact Nat.not_succ_le_self _ hb
    simp only [upd, this, if_false]; exact h.freshAbove b (Nat.le_of_succ_le hb)
  · intro b hb; rw [h3] at hb; rw [h2]
    by_cases e : b = s.nextBid
    · simp [upd, e]
    · simp only [upd, e, if_false]; exact h.usedBelow b (Nat.lt_of_le_of_ne (Nat.le_of_lt_succ hb) e)
  · intro b; rw [h2]
    by_cases e : b = s.nextBid
    · simp [upd, e]
    · simp only [upd, e, if_false]; exact h.neverDropped b
  · intro t0 T0 a c
    by_cases e : t0 = t
    · subst e; rw [hl] at a; cases a; exact hpc
    · rw [ho t0 e] at a; exact h.heldWhere t0 T0 a c

/-- The holder submits its batch (and goes on, or ends). -/
theorem batch_submit {s s' : State} {t : Tid} {T : Task} {b : Bid} (h : InvBatch s) (hT : s.tasks t = some T) (hb : T.batch = some b)
    (h2 : s'.bst = upd s.bst b .submitted) (h3 : s'.nextBid = s.nextBid) (h4 : s'.aborted = s.aborted)
    (ho : ∀ t', t' ≠ t → s'.tasks t' = s.tasks t')
    (ht : (∃ T', s'.tasks t = some T' ∧ T'.batch = none) ∨ s'.tasks t = none) : InvBatch s' := by
  have hact := h.heldActive t T b hT hb
  have hothers : ∀ t0 T0 b0, t0 ≠ t → s.tasks t0 = some T0 → T0.batch = some b0 → b0 ≠ b := by
    intro t0 T0 b0 hne a c e; subst e
    exact hne (h.heldOnce t0 t T0 T b0 a hT c hb)
  have hmine : ∀ T0 b0, s'.tasks t = some T0 → T0.batch ≠ some b0 := by
    intro T0 b0 a c
    rcases ht with ⟨T', a', c'⟩ | a'
    · rw [a'] at a; cases a; rw [c'] at c; cases c
    · rw [a'] at a; cases a
  refine ⟨by rw [h4]; exact h.notAborted, ?_, ?_, ?_, ?_, ?_, ?_, ?_⟩
  · intro b0 hb0
    rw [h2] at hb0
    by_cases e : b0 = b
    · subst e; simp [upd] at hb0
    · simp only [upd, e, if_false] at hb0
      obtain ⟨t0, T0, a, c⟩ := h.activeHeld b0 hb0
      have : t0 ≠ t := by intro e'; subst e'; rw [hT] at a; cases a; rw [hb] at c; cases c; exact e rfl
      exact ⟨t0, T0, by rw [ho t0 this]; exact a, c⟩
  · intro t0 T0 b0 a c
    by_cases e : t0 = t
    · subst e; exact absurd c (hmine T0 b0 a)
    · rw [ho t0 e] at a
      rw [h2]
      have := hothers t0 T0 b0 e a c
      simp only [upd, this, if_false]; exact h.heldActive t0 T0 b0 a c
  · intro t1 t2 T1 T2 b0 a1 a2 c1 c2
    by_cases e1 : t1 = t
    · subst e1; exact absurd c1 (hmine T1 b0 a1)
    · by_cases e2 : t2 = t
      · subst e2; exact absurd c2 (hmine T2 b0 a2)
      · rw [ho t1 e1] at a1; rw [ho t2 e2] at a2; exact h.heldOnce t1 t2 T1 T2 b0 a1 a2 c1 c2
  · intro b0 hb0; rw [h3] at hb0; rw [h2]
    have hlt : b < s.nextBid := by
      by_cases hlt : b < s.nextBid
      · exact hlt
      · have := h.freshAbove b (Nat.le_of_not_lt hlt); rw [this] at hact; cases hact
    have : b0 ≠ b := by intro e; subst e; exact Nat.lt_irrefl _ (Nat.lt_of_lt_of_le hlt hb0)
    simp only [upd, this, if_false]; exact h.freshAbove b0 hb0
  · intro b0 hb0; rw [h3] at hb0; rw [h2]
    by_cases e : b0 = b
    · simp [upd, e]
    · simp only [upd, e, if_false]; exact h.usedBelow b0 hb0
  · intro b0; rw [h2]
    by_cases e : b0 = b
    · simp [upd, e]
    · simp only [upd, e, if_false]; exact h.neverDropped b0
  · intro t0 T0 a c
    by_cases e : t0 = t
    · subst e
      cases hc : T0.batch with
      | none => rw [hc] at c; cases c
      | some b0 => exact absurd hc (hmine T0 b0 a)
    · rw [ho t0 e] at a; exact h.heldWhere t0 T0 a c

end QbiceVerif.CancelLts
