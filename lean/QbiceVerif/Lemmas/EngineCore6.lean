/-
Lemmas about the core engine model, part 6: facts about the execution log used by C03
(no execution for clean keys; sessions that change nothing; several rounds in one epoch).
-/
import QbiceVerif.Lemmas.EngineCore5
namespace Qbice.Core

theorem repairDeps_clean (q : Q) (k : Key) :
    ∀ (deps : List (Key × Val)) (s : St), (∀ d o, (d, o) ∈ deps → s.dirty k d = false) →
      repairDeps q k deps s = .ok (false, s) := by
  intro deps
  induction deps with
  | nil => intro s _; rfl
  | cons e rest ih =>
    intro s h
    obtain ⟨d, o⟩ := e
    simp only [repairDeps]
    rw [if_pos (h d o (List.mem_cons_self ..))]
    exact ih s (fun d' o' hm => h d' o' (List.mem_cons_of_mem _ hm))

/-- a key whose node has only clean recorded edges is answered without any execution -/
theorem query_clean_no_exec {p : Program} {s : St} (inv : Inv p s) {k : Key} {n : Node}
    (hn : s.nodes k = some n) (hcl : ∀ d o, (d, o) ∈ n.deps → s.dirty k d = false)
    {fuel : Nat} {v : Val} {s' : St} (h : query p fuel k s = .ok (v, s')) :
    s'.log = s.log ∧ v = n.value := by
  cases fuel with
  | zero => simp [query] at h
  | succ f =>
    simp only [query, hn] at h
    split at h
    · cases h; exact ⟨rfl, rfl⟩
    · split at h
      · cases h; exact ⟨rfl, rfl⟩
      · obtain ⟨d, hp, _⟩ := inv.kind k n hn
        rw [hp] at h
        simp only [repairDeps_clean _ k n.deps s hcl] at h
        cases h; exact ⟨rfl, rfl⟩

theorem applySets_ch {p : Program} :
    ∀ (ws : List Write) (s : St) (rs : List SetRes) (ch : List Key)
      (s1 : St) (rs1 : List SetRes) (ch1 : List Key),
      applySets p ws s rs ch = .ok (s1, rs1, ch1) →
      ∃ rs', rs1 = rs ++ rs' ∧
        ((∀ r, r ∈ rs' → r ≠ SetRes.updated ∧ r ≠ SetRes.refreshed) → ch1 = ch ∧ Write.refresh ∉ ws) := by
  intro ws
  induction ws with
  | nil =>
    intro s rs ch s1 rs1 ch1 e
    simp only [applySets] at e
    cases e; exact ⟨[], by simp, fun _ => ⟨rfl, by simp⟩⟩
  | cons w rest ih =>
    intro s rs ch s1 rs1 ch1 e
    cases w with
    | world c v =>
      simp only [applySets] at e
      obtain ⟨rs', h1, h2⟩ := ih _ _ _ _ _ _ e
      refine ⟨_ :: rs', h1.trans (List.append_assoc _ _ _), ?_⟩
      intro hall
      obtain ⟨a, b⟩ := h2 (fun r hr => hall r (List.mem_cons_of_mem _ hr))
      exact ⟨a, by simp [b]⟩
    | refresh =>
      simp only [applySets] at e
      obtain ⟨rs', h1, h2⟩ := ih _ _ _ _ _ _ e
      refine ⟨_ :: rs', h1.trans (List.append_assoc _ _ _), ?_⟩
      intro hall
      exact absurd rfl (hall _ (List.mem_cons_self ..)).2
    | set k v =>
      simp only [applySets] at e
      cases hp : p[k]? with
      | none => rw [hp] at e; cases e
      | some d =>
        rw [hp] at e
        simp only at e
        split at e
        · cases e
        · obtain ⟨rs', h1, h2⟩ := ih _ _ _ _ _ _ e
          refine ⟨_ :: rs', h1.trans (List.append_assoc _ _ _), ?_⟩
          intro hall
          obtain ⟨a, b⟩ := h2 (fun r hr => hall r (List.mem_cons_of_mem _ hr))
          rw [a, if_neg (hall _ (List.mem_cons_self ..)).1]
          exact ⟨rfl, by simp [b]⟩

/-- after a session all of whose writes were `Unchanged` (or world writes without a refresh), a key
    that was verified before the session is answered without executing anything -/
theorem noop_session_no_exec {p : Program} {s : St} (inv : Inv p s) {ws : List Write}
    {rs : List SetRes} {s1 : St} (hs : session p ws s = .ok (rs, s1))
    (hall : ∀ r, r ∈ rs → r = SetRes.unchanged ∨ r = SetRes.world) {k : Key} {n : Node}
    (hn : s.nodes k = some n)
    (hv : n.lastVerified = s.epoch) {fuel : Nat} {v : Val} {s2 : St}
    (hq : query p fuel k s1 = .ok (v, s2)) : s2.log = s.log ∧ v = n.value := by
  obtain ⟨i1, _, _, _, _, _, l, hlog, hlm⟩ := session_spec inv hs
  rw [session_eq] at hs
  cases ha : applySets p ws (sessionStart ws s) [] [] with
  | error e => rw [ha] at hs; cases hs
  | ok r =>
    obtain ⟨s1', rs1, ch⟩ := r
    rw [ha] at hs
    simp only at hs
    cases hs
    obtain ⟨rs', h1, h2⟩ := applySets_ch ws _ [] [] s1' rs ch ha
    simp only [List.nil_append] at h1
    subst h1
    obtain ⟨hch, hnr⟩ := h2 (fun r hr => by
      cases hall r hr with
      | inl h => rw [h]; exact ⟨by decide, by decide⟩
      | inr h => rw [h]; exact ⟨by decide, by decide⟩)
    subst hch
    have hl : l = [] := by
      cases l with
      | nil => rfl
      | cons x _ => exact absurd (hlm x (List.mem_cons_self ..)).1 hnr
    subst hl
    have hlog : (markDirty p s1' []).log = s.log := by simpa using hlog
    obtain ⟨hep, hdirty, _, _, hnodes⟩ :=
      applySets_rel (p := p) (s0 := sessionStart ws s) inv.kindsOK ws _ [] [] s1' rs [] (SetRel.refl p _) ha
    have hdirty : s1'.dirty = s.dirty := hdirty
    have hnodes : ∀ x, s1'.nodes x = s.nodes x ∨
        ∃ n', s1'.nodes x = some n' ∧ n'.kind ≠ .normal ∧ n'.deps = [] ∧ n'.lastVerified = s.epoch + 1 ∧
          (∃ d, p[x]? = some d ∧ d.kind = n'.kind) ∧
          (n'.kind = .external → ∃ n, s.nodes x = some n ∧ n.kind = .external) ∧
          (s.nodes x = none ∨ x ∈ ([] : List Key) ∨ ∃ n, s.nodes x = some n ∧ n.value = n'.value) := hnodes
    have hd : ∀ a b, (markDirty p s1' []).dirty a b = s.dirty a b := by
      intro a b
      simp [markDirty, affected_nil, hdirty]
    cases hnodes k with
    | inl hsame =>
      have hk1 : (markDirty p s1' []).nodes k = some n := by
        show s1'.nodes k = some n
        rw [hsame]; exact hn
      have hcl : ∀ d o, (d, o) ∈ n.deps → (markDirty p s1' []).dirty k d = false := by
        intro d o hm; rw [hd]; exact inv.verified_clean k n hn hv d o hm
      obtain ⟨e1, e2⟩ := query_clean_no_exec i1 hk1 hcl hq
      exact ⟨by rw [e1, hlog], e2⟩
    | inr hnew =>
      obtain ⟨n', hn', _, hdeps, _, _, _, h3⟩ := hnew
      have hk1 : (markDirty p s1' []).nodes k = some n' := hn'
      have hcl : ∀ d o, (d, o) ∈ n'.deps → (markDirty p s1' []).dirty k d = false := by
        intro d o hm; rw [hdeps] at hm; cases hm
      obtain ⟨e1, e2⟩ := query_clean_no_exec i1 hk1 hcl hq
      refine ⟨by rw [e1, hlog], ?_⟩
      rcases h3 with h3 | h3 | ⟨n0, hn0, hv0⟩
      · rw [hn] at h3; cases h3
      · cases h3
      · rw [hn] at hn0; cases hn0; rw [e2, hv0]

-- ------------------------------------------------------------------ several rounds in one epoch

/-- several tracked engines one after the other, without a session in between -/
def runRounds (p : Program) : List (List Key) → St → Except Err (List (List Val) × St)
  | [], s => .ok ([], s)
  | ks :: rest, s =>
    match round p (fuelFor p) ks s with
    | .error e => .error e
    | .ok (vs, s1) =>
      match runRounds p rest s1 with
      | .error e => .error e
      | .ok (outs, s2) => .ok (vs :: outs, s2)

theorem runRounds_spec {p : Program} (wf : WF p) :
    ∀ (kss : List (List Key)) (s : St), Inv p s →
      Sat (runRounds p kss s) (fun r =>
        r.1.map (fun vs => vs.map some) = kss.map (fun ks => ks.map (cur p s)) ∧
          Inv p r.2 ∧ Frame p s r.2) := by
  intro kss
  induction kss with
  | nil => intro s inv; exact ⟨rfl, inv, Frame.refl p s⟩
  | cons ks rest ih =>
    intro s inv
    simp only [runRounds]
    have hrd := round_spec wf inv ks
    cases hs : round p (fuelFor p) ks s with
    | error e => rw [hs] at hrd; simpa [Sat] using hrd
    | ok r =>
      obtain ⟨vs, s1⟩ := r
      rw [hs] at hrd
      obtain ⟨h1, i1, f1⟩ := hrd
      simp only at h1 i1 f1 ⊢
      have hrest := ih s1 i1
      cases hr : runRounds p rest s1 with
      | error e => rw [hr] at hrest; simpa [Sat] using hrest
      | ok r2 =>
        obtain ⟨outs, s2⟩ := r2
        rw [hr] at hrest
        obtain ⟨o2, i2, f2⟩ := hrest
        simp only at o2 i2 f2
        refine ⟨?_, i2, f1.trans f2⟩
        simp only [List.map_cons, h1, o2, f1.cur]

end Qbice.Core
