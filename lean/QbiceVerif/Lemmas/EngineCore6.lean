/-
Lemmas about the core engine model, part 6: facts about the execution log used by C03
(no execution for clean keys; sessions that change nothing; several rounds in one epoch).
-/
import QbiceVerif.Lemmas.EngineCore5
namespace Qbice.Core

theorem repairDeps_clean (q : Q) (k : Key) :
    ∀ (deps : List (Key × Val)) (s : St), (∀ d o, (d, o) ∈ deps → s.dirty k d = false) →
      repairDeps q k deps s = .ok (false, s) := by
  intro deps
  induction deps with
  | nil => intro s _; rfl
  | cons e rest ih =>
    intro s h
    obtain ⟨d, o⟩ := e
    simp only [repairDeps]
    rw [if_pos (h d o (List.mem_cons_self ..))]
    exact ih s (fun d' o' hm => h d' o' (List.mem_cons_of_mem _ hm))

/-- a key whose node has only clean recorded edges is answered without any execution -/
theorem query_clean_no_exec {p : Program} {s : St} (inv : Inv p s) {k : Key} {n : Node}
    (hn : s.nodes k = some n) (hcl : ∀ d o, (d, o) ∈ n.deps → s.dirty k d = false)
    {fuel : Nat} {v : Val} {s' : St} (h : query p fuel k s = .ok (v, s')) :
    s'.log = s.log ∧ v = n.value := by
  cases fuel with
  | zero => simp [query] at h
  | succ f =>
    simp only [query, hn] at h
    split at h
    · cases h; exact ⟨rfl, rfl⟩
    · split at h
      · cases h; exact ⟨rfl, rfl⟩
      · obtain ⟨d, hp, _⟩ := inv.kind k n hn
        rw [hp] at h
        simp only [repairDeps_clean _ k n.deps s hcl] at h
        cases h; exact ⟨rfl, rfl⟩

theorem applySets_ch {p : Program} :
    ∀ (sets : List (Key × Val)) (s : St) (rs : List SetRes) (ch : List Key)
      (s1 : St) (rs1 : List SetRes) (ch1 : List Key),
      applySets p sets s rs ch = .ok (s1, rs1, ch1) →
      ∃ rs', rs1 = rs ++ rs' ∧ ((∀ r, r ∈ rs' → r ≠ SetRes.updated) → ch1 = ch) := by
  intro sets
  induction sets with
  | nil =>
    intro s rs ch s1 rs1 ch1 e
    simp only [applySets] at e
    cases e; exact ⟨[], by simp, fun _ => rfl⟩
  | cons w rest ih =>
    intro s rs ch s1 rs1 ch1 e
    obtain ⟨k, v⟩ := w
    simp only [applySets] at e
    cases hp : p[k]? with
    | none => rw [hp] at e; cases e
    | some d =>
      rw [hp] at e
      simp only at e
      cases hi : d.isInput with
      | false => rw [hi] at e; cases e
      | true =>
        rw [hi] at e
        simp only [Bool.not_true, Bool.false_eq_true, if_false] at e
        obtain ⟨rs', h1, h2⟩ := ih _ _ _ _ _ _ e
        refine ⟨_ :: rs', h1.trans (List.append_assoc _ _ _), ?_⟩
        intro hall
        rw [h2 (fun r hr => hall r (List.mem_cons_of_mem _ hr))]
        rw [if_neg (hall _ (List.mem_cons_self ..))]

/-- after a session all of whose writes were `Unchanged`, a key that was verified before the
    session is answered without executing anything -/
theorem noop_session_no_exec {p : Program} {s : St} (inv : Inv p s) {sets : List (Key × Val)}
    {rs : List SetRes} {s1 : St} (hs : session p sets s = .ok (rs, s1))
    (hall : ∀ r, r ∈ rs → r = SetRes.unchanged) {k : Key} {n : Node} (hn : s.nodes k = some n)
    (hv : n.lastVerified = s.epoch) {fuel : Nat} {v : Val} {s2 : St}
    (hq : query p fuel k s1 = .ok (v, s2)) : s2.log = s.log ∧ v = n.value := by
  obtain ⟨i1, _, _, _, hlog⟩ := session_spec inv hs
  rw [session_eq] at hs
  cases ha : applySets p sets { s with epoch := s.epoch + 1 } [] [] with
  | error e => rw [ha] at hs; cases hs
  | ok r =>
    obtain ⟨s1', rs1, ch⟩ := r
    rw [ha] at hs
    simp only at hs
    cases hs
    obtain ⟨rs', h1, h2⟩ := applySets_ch sets _ [] [] s1' rs ch ha
    simp only [List.nil_append] at h1
    subst h1
    have hch : ch = [] := h2 (fun r hr => by rw [hall r hr]; decide)
    subst hch
    obtain ⟨hep, hdirty, _, hnodes⟩ :=
      applySets_rel (p := p) sets _ [] [] s1' rs [] ⟨rfl, rfl, rfl, fun _ => Or.inl rfl⟩ ha
    simp only at hep hdirty hnodes
    have hd : ∀ a b, (markDirty p s1' []).dirty a b = s.dirty a b := by
      intro a b
      simp [markDirty, affected_nil, hdirty]
    cases hnodes k with
    | inl hsame =>
      have hk1 : (markDirty p s1' []).nodes k = some n := by
        show s1'.nodes k = some n
        rw [hsame]; exact hn
      have hcl : ∀ d o, (d, o) ∈ n.deps → (markDirty p s1' []).dirty k d = false := by
        intro d o hm; rw [hd]; exact inv.verified_clean k n hn hv d o hm
      obtain ⟨e1, e2⟩ := query_clean_no_exec i1 hk1 hcl hq
      exact ⟨by rw [e1, hlog], e2⟩
    | inr hnew =>
      obtain ⟨n', hn', _, hdeps, _, _, h3⟩ := hnew
      have hk1 : (markDirty p s1' []).nodes k = some n' := hn'
      have hcl : ∀ d o, (d, o) ∈ n'.deps → (markDirty p s1' []).dirty k d = false := by
        intro d o hm; rw [hdeps] at hm; cases hm
      obtain ⟨e1, e2⟩ := query_clean_no_exec i1 hk1 hcl hq
      refine ⟨by rw [e1, hlog], ?_⟩
      rcases h3 with h3 | h3 | ⟨n0, hn0, hv0⟩
      · rw [hn] at h3; cases h3
      · cases h3
      · rw [hn] at hn0; cases hn0; rw [e2, hv0]

-- ------------------------------------------------------------------ several rounds in one epoch

/-- several tracked engines one after the other, without a session in between -/
def runRounds (p : Program) : List (List Key) → St → Except Err (List (List Val) × St)
  | [], s => .ok ([], s)
  | ks :: rest, s =>
    match round p (fuelFor p) ks s with
    | .error e => .error e
    | .ok (vs, s1) =>
      match runRounds p rest s1 with
      | .error e => .error e
      | .ok (outs, s2) => .ok (vs :: outs, s2)

theorem runRounds_spec {p : Program} (wf : WF p) :
    ∀ (kss : List (List Key)) (s : St), Inv p s →
      Sat (runRounds p kss s) (fun r =>
        r.1.map (fun vs => vs.map some) = kss.map (fun ks => ks.map (cur p s)) ∧
          Inv p r.2 ∧ Frame p s r.2) := by
  intro kss
  induction kss with
  | nil => intro s inv; exact ⟨rfl, inv, Frame.refl p s⟩
  | cons ks rest ih =>
    intro s inv
    simp only [runRounds]
    have hrd := round_spec wf inv ks
    cases hs : round p (fuelFor p) ks s with
    | error e => rw [hs] at hrd; simpa [Sat] using hrd
    | ok r =>
      obtain ⟨vs, s1⟩ := r
      rw [hs] at hrd
      obtain ⟨h1, i1, f1⟩ := hrd
      simp only at h1 i1 f1 ⊢
      have hrest := ih s1 i1
      cases hr : runRounds p rest s1 with
      | error e => rw [hr] at hrest; simpa [Sat] using hrest
      | ok r2 =>
        obtain ⟨outs, s2⟩ := r2
        rw [hr] at hrest
        obtain ⟨o2, i2, f2⟩ := hrest
        simp only at o2 i2 f2
        refine ⟨?_, i2, f1.trans f2⟩
        simp only [List.map_cons, h1, o2, cur_congr f1.inputs]

end Qbice.Core
