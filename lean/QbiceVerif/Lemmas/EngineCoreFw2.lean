/-
Lemmas about the extended core engine model, part 2: `Frame` / `Touches` theory, the derived
clean-edge-under-trust clause, elementary state updates.
-/
import QbiceVerif.Lemmas.EngineCoreFw1
namespace Qbice.CoreFw
open Qbice.Core (Prog Err Write SetRes allVals evalProg applyWorld Sat TraceOK)

-- ------------------------------------------------------------------ Verified / Just / Frame

theorem Solid.fwVerified {s : St} {k : Key} {n : Node} (h : Solid s k) (hn : s.nodes k = some n)
    (hf : n.kind = .firewall) : n.lastVerified = s.epoch := by
  cases h with
  | mk _ n' hn' hfw _ _ _ => rw [hn] at hn'; cases hn'; exact hfw hf

theorem Frame.log_nil {p : Program} {s s' : St} (hl : s'.log = s.log)
    (hn : ∀ x, s.nodes x = none → s'.nodes x = none) :
    ∃ new, s'.log = s.log ++ new ∧ new.Nodup ∧
      (∀ x, x ∈ new → Just p s x ∧ Verified s' x) ∧
      ∀ x, s.nodes x = none → s'.nodes x ≠ none → x ∈ new :=
  ⟨[], by simp [hl], by simp, fun _ h => (by cases h), fun x h h' => absurd (hn x h) h'⟩

theorem Frame.refl (p : Program) (s : St) : Frame p s s where
  epoch := rfl
  inputs := rfl
  ext := rfl
  world := rfl
  keep := fun _ n _ h => ⟨n, h, rfl, rfl, rfl, rfl, rfl, id⟩
  vkeep := fun _ n h _ => ⟨n, h, rfl, rfl⟩
  pend := fun _ n' h hp => ⟨n', h, Or.inl hp⟩
  same_or_verified := fun _ => Or.inl rfl
  log := ⟨[], by simp, by simp, fun _ h => (by cases h), fun _ h h' => absurd h h'⟩

theorem Frame.verified {p : Program} {s s' : St} (f : Frame p s s') {x : Key} (h : Verified s x) :
    Verified s' x := by
  cases f.same_or_verified x with
  | inl e =>
    obtain ⟨n, hn, hv⟩ := h
    exact ⟨n, by rw [e, hn], by rw [hv, f.epoch]⟩
  | inr v => exact v

theorem Frame.solid {p : Program} {s s' : St} (f : Frame p s s') {x : Key} (h : Solid s x) :
    Solid s' x := by
  apply h.transfer
  intro y n hy hn
  obtain ⟨n', hn', a, b, c, d, e, g⟩ := f.keep y n hy hn
  refine ⟨n', hn', a, b, c, d, e, ?_, g⟩
  intro hv
  obtain ⟨n'', hn'', hv'⟩ := f.verified ⟨n, hn, hv⟩
  rw [hn'] at hn''; cases hn''; exact hv'

theorem Frame.cur {p : Program} {s s' : St} (f : Frame p s s') : cur p s' = cur p s :=
  cur_congr f.inputs f.ext

theorem Frame.node_of_unverified {p : Program} {s s' : St} (f : Frame p s s') {x : Key}
    (h : ¬ Verified s' x) : s'.nodes x = s.nodes x := by
  cases f.same_or_verified x with
  | inl e => exact e
  | inr v => exact absurd v h

theorem Frame.just {p : Program} {s s' : St} (f : Frame p s s') {x : Key} (h : Just p s' x) :
    Just p s x := by
  obtain ⟨hnv, h⟩ := h
  have e : s'.nodes x = s.nodes x := f.node_of_unverified hnv
  refine ⟨fun hv => hnv (f.verified hv), ?_⟩
  rw [e, f.cur] at h
  exact h

theorem Frame.trans {p : Program} {s s' s'' : St} (f : Frame p s s') (g : Frame p s' s'') :
    Frame p s s'' where
  epoch := by rw [g.epoch, f.epoch]
  inputs := by rw [g.inputs, f.inputs]
  ext := by rw [g.ext, f.ext]
  world := by rw [g.world, f.world]
  keep := by
    intro x n hs hn
    obtain ⟨n', hn', a, b, c, d, e, h⟩ := f.keep x n hs hn
    obtain ⟨n'', hn'', a', b', c', d', e', h'⟩ := g.keep x n' (f.solid hs) hn'
    exact ⟨n'', hn'', by rw [a', a], by rw [b', b], by rw [c', c], by rw [d', d], by rw [e', e],
      fun hp => h (h' hp)⟩
  vkeep := by
    intro x n hn hv
    obtain ⟨n', hn', a, b⟩ := f.vkeep x n hn hv
    obtain ⟨n1, hn1, hv1⟩ := f.verified ⟨n, hn, hv⟩
    rw [hn'] at hn1; cases hn1
    obtain ⟨n'', hn'', a', b'⟩ := g.vkeep x n' hn' hv1
    exact ⟨n'', hn'', by rw [a', a], by rw [b', b]⟩
  pend := by
    intro x n'' hn'' hp
    obtain ⟨n', hn', hc⟩ := g.pend x n'' hn'' hp
    rcases hc with hc | hc
    · obtain ⟨n, hn, hc'⟩ := f.pend x n' hn' hc
      refine ⟨n, hn, ?_⟩
      rcases hc' with hc' | hc'
      · exact Or.inl hc'
      · -- changed between `s` and `s'`: verified in `s'`, data kept until `s''`
        cases f.same_or_verified x with
        | inl e =>
          rw [hn', hn] at e; cases e
          rcases hc' with h | h <;> exact absurd rfl h
        | inr v =>
          obtain ⟨nv, hnv, hvv⟩ := v
          rw [hn'] at hnv; cases hnv
          obtain ⟨n2, hn2, a, b⟩ := g.vkeep x n' hn' hvv
          rw [hn''] at hn2; cases hn2
          rw [a, b]; exact Or.inr hc'
    · cases f.same_or_verified x with
      | inl e => exact ⟨n', by rw [← e]; exact hn', Or.inr hc⟩
      | inr v =>
        obtain ⟨nv, hnv, hvv⟩ := v
        rw [hn'] at hnv; cases hnv
        obtain ⟨n2, hn2, a, b⟩ := g.vkeep x n' hn' hvv
        rw [hn''] at hn2; cases hn2
        rcases hc with h | h
        · exact absurd a h
        · exact absurd b h
  same_or_verified := by
    intro x
    cases g.same_or_verified x with
    | inr v => exact Or.inr v
    | inl e =>
      cases f.same_or_verified x with
      | inl e' => exact Or.inl (by rw [e, e'])
      | inr v => exact Or.inr (g.verified v)
  log := by
    obtain ⟨n1, h1, nd1, j1, b1⟩ := f.log
    obtain ⟨n2, h2, nd2, j2, b2⟩ := g.log
    refine ⟨n1 ++ n2, by rw [h2, h1, List.append_assoc], ?_, ?_, ?_⟩
    · rw [List.nodup_append]
      refine ⟨nd1, nd2, ?_⟩
      intro a ha b hb hab
      subst hab
      exact (j2 a hb).1.1 (j1 a ha).2
    · intro x hx
      rw [List.mem_append] at hx
      cases hx with
      | inl hx => exact ⟨(j1 x hx).1, g.verified (j1 x hx).2⟩
      | inr hx => exact ⟨f.just (j2 x hx).1, (j2 x hx).2⟩
    · intro x hx hx''
      rw [List.mem_append]
      cases hx' : s'.nodes x with
      | none => exact Or.inr (b2 x hx' hx'')
      | some n' => exact Or.inl (b1 x hx (by rw [hx']; simp))

theorem Touches.refl (b : Nat) (s : St) : Touches b s s := ⟨fun _ _ => rfl, fun _ n h hp => ⟨n, h, hp⟩⟩

theorem Touches.trans {b : Nat} {s s' s'' : St} (f : Touches b s s') (g : Touches b s' s'') :
    Touches b s s'' :=
  ⟨fun x hx => by rw [g.1 x hx, f.1 x hx], fun x n h hp => by
    obtain ⟨n', h', hp'⟩ := f.2 x n h hp
    exact g.2 x n' h' hp'⟩

theorem Touches.mono {b b' : Nat} {s s' : St} (f : Touches b s s') (h : b ≤ b') : Touches b' s s' :=
  ⟨fun x hx => f.1 x (Nat.le_trans h hx), f.2⟩

/-- a state change that keeps every node except the stamp of nodes it verifies and pending flags it
    clears -/
theorem Frame.of_nodes {p : Program} {s s' : St} (he : s'.epoch = s.epoch) (hw : s'.world = s.world)
    (hl : s'.log = s.log)
    (hn : ∀ x, s'.nodes x = s.nodes x ∨ ∃ n n', s.nodes x = some n ∧ s'.nodes x = some n' ∧
      n'.value = n.value ∧ n'.deps = n.deps ∧ n'.tfc = n.tfc ∧ n'.seen = n.seen ∧ n'.kind = n.kind ∧
      n'.lastVerified = s'.epoch ∧ (n'.pendingBP = true → n.pendingBP = true)) : Frame p s s' := by
  have hin : inputsOf s' = inputsOf s := by
    funext x
    simp only [inputsOf]
    rcases hn x with e | ⟨n, n', h, h', hv, _, _, _, hk, _⟩
    · rw [e]
    · rw [h, h']; simp only [hk, hv]
  have hpin : pinsOf s' = pinsOf s := by
    funext x
    simp only [pinsOf]
    rcases hn x with e | ⟨n, n', h, h', hv, _, _, _, hk, _⟩
    · rw [e]
    · rw [h, h']; simp only [hk, hv]
  refine ⟨he, hin, by simp only [extOf, hpin, hw], hw, ?_, ?_, ?_, ?_, ?_⟩
  · intro x n _ hx
    rcases hn x with e | ⟨n0, n', h, h', a, b, c, d, e, _, g⟩
    · exact ⟨n, by rw [e]; exact hx, rfl, rfl, rfl, rfl, rfl, id⟩
    · rw [hx] at h; cases h
      exact ⟨n', h', a, b, c, d, e, g⟩
  · intro x n hx _
    rcases hn x with e | ⟨n0, n', h, h', a, _, c, _⟩
    · exact ⟨n, by rw [e]; exact hx, rfl, rfl⟩
    · rw [hx] at h; cases h
      exact ⟨n', h', a, c⟩
  · intro x n' hx' hp
    rcases hn x with e | ⟨n0, n1, h, h', _, _, _, _, _, _, g⟩
    · exact ⟨n', by rw [← e]; exact hx', Or.inl hp⟩
    · rw [hx'] at h'; cases h'
      exact ⟨n0, h, Or.inl (g hp)⟩
  · intro x
    rcases hn x with e | ⟨n0, n', h, h', _, _, _, _, _, hv, _⟩
    · exact Or.inl e
    · exact Or.inr ⟨n', h', hv⟩
  · apply Frame.log_nil hl
    intro x hx
    rcases hn x with e | ⟨n0, n', h, _⟩
    · rw [e]; exact hx
    · rw [hx] at h; cases h

-- ------------------------------------------------------------------ the derived trust clause

theorem trusted_iff {s : St} {d : Key} :
    trusted s d = true ↔ ∀ f, f ∈ front s d → settledFw s f = true := by
  simp [trusted, List.all_eq_true]

/-- I2/I3 of the repaired design: a clean edge to a callee whose recorded firewall frontier is
    settled has a current observation, and the callee is `Solid` (hence its value is the
    from-scratch one) -/
theorem Inv.clean_trusted {p : Program} {s : St} (inv : Inv p s) {x : Key} {n : Node}
    (hx : s.nodes x = some n) {y : Key} {o : Val} (hm : (y, o) ∈ n.deps)
    (hcl : s.dirty x y = false) (ht : trusted s y = true) :
    ∃ ny, s.nodes y = some ny ∧ ny.value = o ∧ (ny.kind ≠ .firewall → ny.tfc = n.seen y) ∧ Solid s y := by
  obtain ⟨ny, hny, hv, hnorm⟩ := inv.clean x n hx y o hm hcl
  refine ⟨ny, hny, hv, hnorm.1, ?_⟩
  have hall := trusted_iff.1 ht
  simp only [front, hny] at hall
  obtain ⟨dd, hpd, hkd, hleaf⟩ := inv.kind y ny hny
  cases hk : ny.kind with
  | input => exact Solid.leaf hny (hleaf (Or.inl hk)).1 (fun h => by rw [hk] at h; cases h)
  | external => exact Solid.leaf hny (hleaf (Or.inr hk)).1 (fun h => by rw [hk] at h; cases h)
  | projection =>
    rw [hk] at hall
    exact inv.proj_solid y ny hny hk (fun f hf => hall f (by simpa [contrib] using hf))
  | firewall =>
    rw [hk] at hall
    obtain ⟨nf, hnf, hver, _⟩ := settledFw_iff.1 (hall y (by simp [contrib]))
    rw [hny] at hnf; cases hnf
    exact inv.solid y ny hny hver
  | normal =>
    rw [hk] at hall
    exact (hnorm.2 hk).solid_of_settled inv ny hny hk (fun f hf => hall f (by simpa [contrib] using hf))

-- ------------------------------------------------------------------ elementary updates

/-- replacing the node of `k` by one with the same recorded data (the stamp may move to the current
    epoch, the pending flag may be cleared) keeps `Solid` of every key -/
theorem Solid.setSame {s : St} {k : Key} {n n' : Node} (hk : s.nodes k = some n)
    (hv : n'.value = n.value) (hd : n'.deps = n.deps) (ht : n'.tfc = n.tfc) (hs : n'.seen = n.seen)
    (hki : n'.kind = n.kind) (hver : n.lastVerified = s.epoch → n'.lastVerified = s.epoch)
    (hpm : n'.pendingBP = true → n.pendingBP = true)
    {x : Key} (h : Solid s x) : Solid (setNode s k n') x := by
  apply h.transfer
  intro y ny hy hny
  simp only [setNode]
  by_cases e : y = k
  · subst e
    rw [hk] at hny; cases hny
    exact ⟨n', if_pos rfl, hv, hd, ht, hs, hki, hver, hpm⟩
  · exact ⟨ny, by rw [if_neg e]; exact hny, rfl, rfl, rfl, rfl, rfl, id, id⟩

theorem NGood.transfer {s s' : St} {x : Key} (h : NGood s x)
    (hn : ∀ y n, NGood s y → s.nodes y = some n →
      ∃ n', s'.nodes y = some n' ∧ n'.deps = n.deps ∧ n'.seen = n.seen)
    (hd : ∀ y n d o nd, NGood s y → s.nodes y = some n → (d, o) ∈ n.deps → s.nodes d = some nd →
      ∃ nd', s'.nodes d = some nd' ∧ nd'.value = nd.value ∧ nd'.kind = nd.kind ∧
        (nd.kind ≠ .firewall → nd'.tfc = nd.tfc)) : NGood s' x := by
  induction h with
  | mk k n hk hval hsub ih =>
    have hs : NGood s k := NGood.mk k n hk hval hsub
    obtain ⟨n', hn', hd', hse'⟩ := hn k n hs hk
    refine NGood.mk k n' hn' ?_ ?_
    · intro d o hm
      rw [hd'] at hm
      obtain ⟨nd, hnd, hvd, hacc⟩ := hval d o hm
      obtain ⟨nd', hnd', hvd', hkd', htd'⟩ := hd k n d o nd hs hk hm hnd
      refine ⟨nd', hnd', by rw [hvd', hvd], fun hkn => ?_⟩
      rw [hkd'] at hkn
      rw [htd' hkn, hse']; exact hacc hkn
    · intro d o nd' hm hnd' hkn
      rw [hd'] at hm
      obtain ⟨nd, hnd, _, _⟩ := hval d o hm
      obtain ⟨nd'', hnd'', _, hkd', _⟩ := hd k n d o nd hs hk hm hnd
      rw [hnd'] at hnd''; cases hnd''
      exact ih d o nd hm hnd (by rw [← hkd']; exact hkn)

theorem NGood.setSame {s : St} {k : Key} {n n' : Node} (hk : s.nodes k = some n)
    (hv : n'.value = n.value) (hd : n'.deps = n.deps) (ht : n'.tfc = n.tfc) (hs : n'.seen = n.seen)
    (hki : n'.kind = n.kind) {x : Key} (h : NGood s x) : NGood (setNode s k n') x := by
  apply h.transfer
  · intro y ny _ hny
    simp only [setNode]
    by_cases e : y = k
    · subst e; rw [hk] at hny; cases hny; exact ⟨n', if_pos rfl, hd, hs⟩
    · exact ⟨ny, by rw [if_neg e]; exact hny, rfl, rfl⟩
  · intro y ny d o nd _ _ _ hnd
    simp only [setNode]
    by_cases e : d = k
    · subst e; rw [hk] at hnd; cases hnd; exact ⟨n', if_pos rfl, hv, hki, fun _ => ht⟩
    · exact ⟨nd, by rw [if_neg e]; exact hnd, rfl, rfl, fun _ => rfl⟩

/-- replacing the node of `k` by one with the same recorded data: the stamp stays or moves to the
    current epoch (then the recorded callees are `Solid` with current observations); the pending flag
    stays, or is cleared when no projection above `k` has an outdated observation of `k` -/
theorem Inv.setSame {p : Program} {s : St} (inv : Inv p s) {k : Key} {n n' : Node}
    (hk : s.nodes k = some n) (hv : n'.value = n.value) (hd : n'.deps = n.deps) (ht : n'.tfc = n.tfc)
    (hs : n'.seen = n.seen) (hki : n'.kind = n.kind)
    (hst : n'.lastVerified = n.lastVerified ∨ (n'.lastVerified = s.epoch ∧
      (∀ d o, (d, o) ∈ n.deps →
        ∃ nd, s.nodes d = some nd ∧ nd.value = o ∧ (nd.kind ≠ .firewall → nd.tfc = n.seen d)) ∧
      (∀ d o, (d, o) ∈ n.deps → Solid s d)))
    (hpb : n'.pendingBP = n.pendingBP ∨ (n'.pendingBP = false ∧
      (∀ z nz o, s.nodes z = some nz → nz.kind = .projection → (k, o) ∈ nz.deps → n.value = o) ∧
      (∀ z nz o, s.nodes z = some nz → nz.kind = .projection → IsStaticKey p z → (k, o) ∈ nz.deps →
        nz.pendingBP = false))) :
    Inv p (setNode s k n') := by
  have hpm : n'.pendingBP = true → n.pendingBP = true := by
    intro h
    rcases hpb with e | ⟨e, _⟩
    · rw [← e]; exact h
    · rw [e] at h; cases h
  have nodeAt : ∀ x nx, (setNode s k n').nodes x = some nx →
      ∃ nx0, s.nodes x = some nx0 ∧ nx.value = nx0.value ∧ nx.deps = nx0.deps ∧ nx.tfc = nx0.tfc ∧
        nx.seen = nx0.seen ∧ nx.kind = nx0.kind ∧ (x ≠ k → nx = nx0) ∧ (x = k → nx = n' ∧ nx0 = n) := by
    intro x nx hx
    simp only [setNode] at hx
    by_cases e : x = k
    · subst e; rw [if_pos rfl] at hx; cases hx
      exact ⟨n, hk, hv, hd, ht, hs, hki, fun h => absurd rfl h, fun _ => ⟨rfl, rfl⟩⟩
    · rw [if_neg e] at hx
      exact ⟨nx, hx, rfl, rfl, rfl, rfl, rfl, fun _ => rfl, fun h => absurd h e⟩
  have nodeTo : ∀ x nx0, s.nodes x = some nx0 →
      ∃ nx, (setNode s k n').nodes x = some nx ∧ nx.value = nx0.value ∧ nx.kind = nx0.kind ∧
        nx.tfc = nx0.tfc := by
    intro x nx0 hx
    simp only [setNode]
    by_cases e : x = k
    · subst e; rw [hk] at hx; cases hx; exact ⟨n', if_pos rfl, hv, hki, ht⟩
    · exact ⟨nx0, by rw [if_neg e]; exact hx, rfl, rfl, rfl⟩
  have hverk : n.lastVerified = s.epoch → n'.lastVerified = s.epoch := by
    intro h
    rcases hst with h' | ⟨h', _⟩
    · rw [h', h]
    · exact h'
  have frontEq : front (setNode s k n') = front s := by
    funext x
    simp only [front, setNode]
    by_cases e : x = k
    · subst e; simp only [if_true, hk, hki, ht]
    · rw [if_neg e]
  constructor
  · intro x nx hx
    obtain ⟨nx0, h0, _, b, c, _, e, _⟩ := nodeAt x nx hx
    rw [e, b, c]; exact inv.kind x nx0 h0
  · intro x nx hx hkx d o nd hm hnd
    obtain ⟨nx0, h0, _, b, _, _, e, _⟩ := nodeAt x nx hx
    obtain ⟨nd0, hnd0, _, _, _, _, e', _⟩ := nodeAt d nd hnd
    rw [b] at hm; rw [e] at hkx; rw [e']
    exact inv.pjKinds x nx0 h0 hkx d o nd0 hm hnd0
  · intro x nx dx ks hx hpx hkx hst'
    obtain ⟨nx0, h0, _, b, c, _, e, _⟩ := nodeAt x nx hx
    rw [b, c, frontEq]; rw [e] at hkx
    exact inv.pjStat x nx0 dx ks h0 hpx hkx hst'
  · intro x nx g o ng hx hm hg hkg hsg
    obtain ⟨nx0, h0, _, b, _, dd, _⟩ := nodeAt x nx hx
    obtain ⟨ng0, hg0, _, _, c', _, e', _⟩ := nodeAt g ng hg
    rw [b] at hm; rw [e'] at hkg
    rw [dd, c']; exact inv.pjSeen x nx0 g o ng0 h0 hm hg0 hkg hsg
  · intro g ng hg hkg hsg hpg
    obtain ⟨ng0, hg0, _, b, _, _, e, hne, he⟩ := nodeAt g ng hg
    rw [e] at hkg
    have hpg0 : ng0.pendingBP = true := by
      by_cases eg : g = k
      · obtain ⟨e1, e2⟩ := he eg
        subst e1; subst e2; exact hpm hpg
      · rw [hne eg] at hpg; exact hpg
    obtain ⟨c, o, hm, hpc⟩ := inv.pjCause g ng0 hg0 hkg hsg hpg0
    refine ⟨c, o, by rw [b]; exact hm, ?_⟩
    by_cases ec : c = k
    · subst ec
      rcases hpb with e' | ⟨_, _, hall⟩
      · simp only [hasPending, setNode, if_true, e']
        simpa [hasPending, hk] using hpc
      · have := hall g ng0 o hg0 hkg hsg hm
        rw [hpg0] at this; cases this
    · simpa [hasPending, setNode, ec] using hpc
  · intro x nx hx hkx d o nd hm hnd hne
    obtain ⟨nx0, h0, _, b, _, _, e, _⟩ := nodeAt x nx hx
    obtain ⟨nd0, hnd0, a', _, _, _, _, hne', he'⟩ := nodeAt d nd hnd
    rw [b] at hm; rw [e] at hkx
    rw [a'] at hne
    have hp0 := inv.pjBroken x nx0 h0 hkx d o nd0 hm hnd0 hne
    by_cases ed : d = k
    · obtain ⟨e1, e2⟩ := he' ed
      subst e1; subst e2
      rcases hpb with e | ⟨_, hall, _⟩
      · rw [e]; exact hp0
      · exact absurd (hall x nx0 o h0 hkx (ed ▸ hm)) hne
    · rw [hne' ed]; exact hp0
  · intro x nx hx d o hm
    obtain ⟨nx0, h0, _, b, _⟩ := nodeAt x nx hx
    rw [b] at hm
    obtain ⟨h1, nd, hnd⟩ := inv.down x nx0 h0 d o hm
    obtain ⟨nd', hnd', _⟩ := nodeTo d nd hnd
    exact ⟨h1, nd', hnd'⟩
  · intro x nx hx
    obtain ⟨nx0, h0, _, _, c, _⟩ := nodeAt x nx hx
    rw [c]; exact inv.tfcDown x nx0 h0
  · intro x nx hx
    obtain ⟨nx0, h0, _, b, _⟩ := nodeAt x nx hx
    rw [b]; exact inv.nodup x nx0 h0
  · intro x nx d hx
    obtain ⟨nx0, h0, a, b, _, _, e, _⟩ := nodeAt x nx hx
    rw [a, b, e]; exact inv.trace x nx0 d h0
  · intro x nx hx
    obtain ⟨nx0, h0, _, _, _, _, _, hne, he⟩ := nodeAt x nx hx
    show nx.lastVerified ≤ s.epoch
    by_cases e : x = k
    · obtain ⟨e1, e2⟩ := he e
      subst e1; subst e2
      rcases hst with h | ⟨h, _⟩
      · rw [h]; exact inv.stamp x nx0 h0
      · rw [h]; exact Nat.le_refl _
    · rw [hne e]; exact inv.stamp x nx0 h0
  · intro x nx hx d o nd hm hnd
    obtain ⟨nx0, h0, _, b, c, dd, _⟩ := nodeAt x nx hx
    obtain ⟨nd0, hnd0, _, _, _, _, e, _⟩ := nodeAt d nd hnd
    rw [b] at hm
    rw [c, dd, e]
    exact inv.seenSub x nx0 h0 d o nd0 hm hnd0
  · intro x nx hx hvx
    obtain ⟨nx0, h0, _, _, _, _, _, hne, he⟩ := nodeAt x nx hx
    have hvx : nx.lastVerified = s.epoch := hvx
    by_cases e : x = k
    · obtain ⟨e1, e2⟩ := he e
      subst e1; subst e2
      rcases hst with h | ⟨h, hval, hsub⟩
      · rw [e]
        exact (inv.solid k nx0 hk (by rw [← h]; exact hvx)).setSame hk hv hd ht hs hki hverk hpm
      · rw [e]
        refine Solid.mk k nx (by simp [setNode]) (fun _ => hvx) (fun _ => Or.inl hvx) ?_ ?_
        · intro d o hm
          rw [hd] at hm
          obtain ⟨nd, hnd, hvd, hacc⟩ := hval d o hm
          have hdk : d ≠ k := by have := (inv.down k nx0 hk d o hm).1; komega
          exact ⟨nd, by simp only [setNode, if_neg hdk]; exact hnd, hvd, fun hk' => by rw [hs]; exact hacc hk'⟩
        · intro d o hm
          rw [hd] at hm
          exact (hsub d o hm).setSame hk hv hd ht hs hki hverk hpm
    · rw [hne e] at hvx
      exact (inv.solid x nx0 h0 hvx).setSame hk hv hd ht hs hki hverk hpm
  · intro x nx hx y o hm hcl
    obtain ⟨nx0, h0, _, b, _, dd, _⟩ := nodeAt x nx hx
    rw [b] at hm
    obtain ⟨ny, hny, hvy, hnorm⟩ := inv.clean x nx0 h0 y o hm hcl
    obtain ⟨ny', hny', a', k', t'⟩ := nodeTo y ny hny
    refine ⟨ny', hny', by rw [a', hvy], fun hkn => ?_, fun hkn => ?_⟩
    · rw [k'] at hkn
      rw [t', dd]; exact hnorm.1 hkn
    · rw [k'] at hkn
      exact (hnorm.2 hkn).setSame hk hv hd ht hs hki

theorem Frame.setSame {p : Program} {s : St} {k : Key} {n n' : Node} (hk : s.nodes k = some n)
    (hv : n'.value = n.value) (hd : n'.deps = n.deps) (ht : n'.tfc = n.tfc) (hs : n'.seen = n.seen)
    (hki : n'.kind = n.kind) (hver : n'.lastVerified = s.epoch)
    (hpm : n'.pendingBP = true → n.pendingBP = true) : Frame p s (setNode s k n') := by
  apply Frame.of_nodes (s := s) (s' := setNode s k n') rfl rfl rfl
  intro x
  by_cases e : x = k
  · subst e
    exact Or.inr ⟨n, n', hk, by simp [setNode], hv, hd, ht, hs, hki, hver, hpm⟩
  · exact Or.inl (by simp [setNode, e])

theorem Touches.setNode (s : St) (k : Key) (n : Node)
    (hp : ∀ n0, s.nodes k = some n0 → n0.pendingBP = true → n.pendingBP = true) :
    Touches (k + 1) s (setNode s k n) := by
  refine ⟨?_, ?_⟩
  · intro x hx
    simp only [Qbice.CoreFw.setNode]
    rw [if_neg (by komega)]
  · intro x n0 h0 hp0
    simp only [Qbice.CoreFw.setNode]
    by_cases e : x = k
    · subst e; exact ⟨n, if_pos rfl, hp n0 h0 hp0⟩
    · exact ⟨n0, by rw [if_neg e]; exact h0, hp0⟩

/-- changing the dirty set only: everything but `clean` is untouched -/
theorem Inv.setDirty {p : Program} {s : St} (inv : Inv p s) (dirty' : Key → Key → Bool)
    (h : ∀ x n y o, s.nodes x = some n → (y, o) ∈ n.deps → dirty' x y = false → s.dirty x y = true →
      ∃ ny, s.nodes y = some ny ∧ ny.value = o ∧ (ny.kind ≠ .firewall → ny.tfc = n.seen y) ∧ (ny.kind = .normal → NGood s y)) :
    Inv p { s with dirty := dirty' } := by
  have sol : ∀ x, Solid s x → Solid { s with dirty := dirty' } x := fun x hx =>
    hx.transfer (fun y n hy hn => ⟨n, hn, rfl, rfl, rfl, rfl, rfl, id, id⟩)
  have ng : ∀ x, NGood s x → NGood { s with dirty := dirty' } x := fun x hx =>
    hx.transfer (fun y n _ hn => ⟨n, hn, rfl, rfl⟩) (fun y n d o nd _ _ _ hnd => ⟨nd, hnd, rfl, rfl, fun _ => rfl⟩)
  refine ⟨inv.kind, inv.pjKinds, inv.pjStat, inv.pjSeen, inv.pjCause, inv.pjBroken, inv.down,
    inv.tfcDown, inv.nodup, inv.trace, inv.stamp, inv.seenSub,
    fun k n hn hv => sol k (inv.solid k n hn hv), ?_⟩
  intro x n hx y o hm hcl
  have hcl : dirty' x y = false := hcl
  have hx : s.nodes x = some n := hx
  have key : ∃ ny, s.nodes y = some ny ∧ ny.value = o ∧ (ny.kind ≠ .firewall → ny.tfc = n.seen y) ∧ (ny.kind = .normal → NGood s y) := by
    cases hd : s.dirty x y with
    | false => exact inv.clean x n hx y o hm hd
    | true => exact h x n y o hx hm hcl hd
  obtain ⟨ny, hny, hv, hnorm⟩ := key
  exact ⟨ny, hny, hv, hnorm.1, fun hk => ng y (hnorm.2 hk)⟩

end Qbice.CoreFw
