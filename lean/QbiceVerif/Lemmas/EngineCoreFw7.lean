/-
Lemmas about the extended core engine model, part 7: publishing a computed node (`publish_spec`:
`set_computed`, with the dirty propagation of a firewall whose value changed), `execute_spec`,
`executeExt_spec`.
-/
import QbiceVerif.Lemmas.EngineCoreFw6
namespace Qbice.CoreFw
open Qbice.Core (Prog Err Write SetRes allVals evalProg applyWorld Sat TraceOK)

/-- the recorded run of `k` is structurally broken: no node, or a recorded callee whose stored value
    is not the observed one -/
def Broken (s : St) (k : Key) : Prop :=
  s.nodes k = none ∨ ∃ n d o nd, s.nodes k = some n ∧ (d, o) ∈ n.deps ∧ s.nodes d = some nd ∧
    nd.value ≠ o ∧ nd.lastVerified = s.epoch

theorem Broken.frame {p : Program} {s s' : St} {k : Key} (h : Broken s k) (inv : Inv p s)
    (f : Frame p s s') (hk : s'.nodes k = s.nodes k) : Broken s' k := by
  rcases h with h | ⟨n, d, o, nd, hn, hm, hnd, hne, hver⟩
  · exact Or.inl (by rw [hk]; exact h)
  · obtain ⟨nd', hnd', a, _⟩ := f.keep d nd (inv.solid d nd hnd hver) hnd
    obtain ⟨nd'', hnd'', hver'⟩ := f.verified ⟨nd, hnd, hver⟩
    rw [hnd'] at hnd''; cases hnd''
    exact Or.inr ⟨n, d, o, nd', by rw [hk]; exact hn, hm, hnd', by rw [a]; exact hne, hver'⟩

theorem Broken.not_solid {s : St} {k : Key} (h : Broken s k) : ¬ Solid s k := by
  intro hs
  rcases h with h | ⟨n, d, o, nd, hn, hm, hnd, hne, _⟩
  · obtain ⟨n, hn⟩ := hs.node; rw [h] at hn; cases hn
  · cases hs with
    | mk _ n' hn' _ _ hval _ =>
      rw [hn] at hn'; cases hn'
      obtain ⟨nd', hnd', hv, _⟩ := hval d o hm
      rw [hnd] at hnd'; cases hnd'
      exact hne hv

theorem Broken.not_nGood {s : St} {k : Key} {n : Node} (h : Broken s k) (hn : s.nodes k = some n) :
    ¬ NGood s k := by
  rcases h with h | ⟨n', d, o, nd, hn', hm, hnd, hne, _⟩
  · rw [h] at hn; cases hn
  · exact not_nGood_of_broken hn' hm hnd hne

theorem valueChanged_false {s : St} {k : Key} {v : Val} {n : Node} (hn : s.nodes k = some n)
    (hk : n.kind = .firewall ∨ n.kind = .projection) (h : valueChanged s k v = false) : v = n.value := by
  simp only [valueChanged, hn, Bool.and_eq_false_iff, decide_eq_false_iff_not] at h
  rcases h with h | h
  · rcases hk with hk | hk <;> simp [isFwPj, hk] at h
  · exact (Decidable.of_not_not h).symm

theorem valueChanged_true_of_ne {s : St} {k : Key} {v : Val} {n : Node} (hn : s.nodes k = some n)
    (hk : n.kind = .firewall ∨ n.kind = .projection) (h : n.value ≠ v) : valueChanged s k v = true := by
  rcases hk with hk | hk <;> simp [valueChanged, hn, isFwPj, hk, h]

theorem projTfcChanged_false_eq {s : St} {k : Key} {t : List Key} {n : Node} (hn : s.nodes k = some n)
    (hk : n.kind = .projection) (h : projTfcChanged s k t = false) : t = n.tfc := by
  simp only [projTfcChanged, hn, hk, decide_true, Bool.true_and, decide_eq_false_iff_not] at h
  exact (Decidable.of_not_not h).symm

theorem projTfcChanged_of_not_proj {s : St} {k : Key} {t : List Key}
    (h : ∀ n, s.nodes k = some n → n.kind ≠ .projection) : projTfcChanged s k t = false := by
  simp only [projTfcChanged]
  cases hn : s.nodes k with
  | none => rfl
  | some n => simp [h n hn]

/-- `set_computed` of a freshly computed node for a key that is not `Solid` (its recorded run is
    broken, or it is a projection re-executed by backward projection) -/
theorem publish_spec {p : Program} {k : Key} {d : NodeDef} (hp : p[k]? = some d)
    (hki : d.kind ≠ .input) (hke : d.kind ≠ .external)
    {s1 : St} (i1 : Inv p s1) (hwhy : Just p s1 k) (hns : ¬ Solid s1 k)
    (hng : ∀ n, s1.nodes k = some n → n.kind = .normal → ¬ NGood s1 k) {a : Acc} {v : Val}
    (hacc : AccOK p k s1 a) (htr : TraceOK d.prog a.deps v)
    (hpk : d.kind = .projection → ∀ d' o nd, (d', o) ∈ a.deps → s1.nodes d' = some nd →
      nd.kind = .firewall ∨ (nd.kind = .projection ∧ IsStaticKey p d'))
    (hst : d.kind = .projection → ∀ ks, ProgStatic d.prog ks →
      a.deps.map (·.1) = recordKeys ks [] ∧ a.tfc = foldTfc (front s1) ks []) :
    let changed : Bool := valueChanged s1 k v || projTfcChanged s1 k a.tfc
    let nn : Node := { kind := d.kind, lastVerified := s1.epoch, value := v, deps := a.deps,
                       seen := a.seen, tfc := a.tfc, pendingBP := changed || hasPending s1 k }
    let s3 := install (if changed then markDirty s1 [k] else s1) k nn
    Inv p s3 ∧ Frame p s1 s3 ∧ Touches (k + 1) s1 s3 ∧ s3.nodes k = some nn ∧ s3.epoch = s1.epoch := by
  intro changed nn s3
  have n3k : s3.nodes k = some nn := by
    simp only [s3, install, setNode, if_true]
  have n3o : ∀ x, x ≠ k → s3.nodes x = s1.nodes x := by
    intro x hx
    simp only [s3, install, setNode, clearDirtyFrom, if_neg hx]
    split <;> rfl
  have d3k : ∀ y, s3.dirty k y = false := by
    intro y; simp [s3, install, setNode, clearDirtyFrom]
  have d3o : ∀ x y, x ≠ k → s3.dirty x y = (if changed then markDirty s1 [k] else s1).dirty x y := by
    intro x y hx; simp [s3, install, setNode, clearDirtyFrom, hx]
  have e3 : s3.epoch = s1.epoch := by
    simp only [s3, install, setNode, clearDirtyFrom]; split <;> rfl
  have w3 : s3.world = s1.world := by
    simp only [s3, install, setNode, clearDirtyFrom]; split <;> rfl
  have l3 : s3.log = s1.log ++ [k] := by
    simp only [s3, install, setNode, clearDirtyFrom]; split <;> rfl
  clear_value s3
  have down1 : ∀ x n, s1.nodes x = some n → ∀ d o, (d, o) ∈ n.deps → d < x :=
    fun x n hx d o hm => (i1.down x n hx d o hm).1
  -- the old node, if any, has the kind of the program
  have oldKind : ∀ n0, s1.nodes k = some n0 → n0.kind = d.kind := by
    intro n0 h0
    obtain ⟨d', hp', hk', _⟩ := i1.kind k n0 h0
    rw [hp] at hp'; cases hp'
    exact hk'.symm
  -- if nothing was marked, an old firewall / projection node keeps its value, a projection its set
  have ksOf : IsStaticKey p k → ∃ ks, ProgStatic d.prog ks := by
    rintro ⟨dd, ks, hpd, hks⟩
    rw [hp] at hpd; cases hpd
    exact ⟨ks, hks⟩
  have sameVal : ∀ n0, s1.nodes k = some n0 → n0.kind = .firewall ∨ n0.kind = .projection →
      changed = false → v = n0.value := by
    intro n0 h0 hk hch
    have : valueChanged s1 k v = false := by
      cases hx : valueChanged s1 k v with
      | false => rfl
      | true => simp [changed, hx] at hch
    exact valueChanged_false h0 hk this
  have sameTfc : ∀ n0, s1.nodes k = some n0 → n0.kind = .projection → changed = false → a.tfc = n0.tfc := by
    intro n0 h0 hk hch
    have : projTfcChanged s1 k a.tfc = false := by
      cases hx : projTfcChanged s1 k a.tfc with
      | false => rfl
      | true => simp [changed, hx] at hch
    exact projTfcChanged_false_eq h0 hk this
  have cleanBefore : ∀ x n y o, x ≠ k → s1.nodes x = some n → (y, o) ∈ n.deps → s3.dirty x y = false →
      s1.dirty x y = false ∧ (changed = true → affected s1 [k] (y + 1) y = false) := by
    intro x n y o hx hnx hm hcl
    rw [d3o x y hx] at hcl
    cases hch : changed with
    | false => rw [hch] at hcl; exact ⟨hcl, fun h => by cases h⟩
    | true =>
      rw [hch] at hcl
      obtain ⟨h1, h2⟩ := markDirty_clean hnx hm hcl
      exact ⟨h1, fun _ => h2⟩
  have notAffK : changed = true → affected s1 [k] (k + 1) k = false → False := by
    intro _ h
    rw [affected_step [k] down1] at h
    simp at h
  have sol : ∀ x, Solid s1 x → Solid s3 x := fun x hx => hx.avoid hns e3 n3o
  have ng : ∀ y ny, s1.nodes y = some ny → ny.kind = .normal → y ≠ k → NGood s1 y →
      (changed = true → affected s1 [k] (y + 1) y = false) → NGood s3 y := by
    intro y ny hny hkn hyk hg haff
    cases hch : changed with
    | true =>
      refine hg.unaffected down1 (fun z hz => n3o z (fun e => hz (by simp [e]))) ny hny hkn (haff hch)
    | false =>
      cases hk0 : s1.nodes k with
      | none => exact hg.fresh hk0 n3o
      | some n0 =>
        have hk0k := oldKind n0 hk0
        refine hg.avoid hk0 n3k n3o (by show d.kind = n0.kind; rw [hk0k]) ?_ hyk
        cases hkd : d.kind with
        | input => exact absurd hkd hki
        | external => exact absurd hkd hke
        | projection =>
          exact Or.inr (Or.inl ⟨by rw [hk0k, hkd], sameVal n0 hk0 (Or.inr (by rw [hk0k, hkd])) hch,
            sameTfc n0 hk0 (by rw [hk0k, hkd]) hch⟩)
        | normal => exact Or.inr (Or.inr ⟨by rw [hk0k, hkd], hng n0 hk0 (by rw [hk0k, hkd])⟩)
        | firewall => exact Or.inl ⟨by rw [hk0k, hkd], sameVal n0 hk0 (Or.inl (by rw [hk0k, hkd])) hch⟩
  have i3 : Inv p s3 := by
    constructor
    · intro x nx hx
      by_cases e : x = k
      · subst e; rw [n3k] at hx; obtain rfl := Option.some.inj hx
        exact ⟨d, hp, rfl, fun h => by rcases h with h | h; exact absurd h hki; exact absurd h hke⟩
      · rw [n3o x e] at hx; exact i1.kind x nx hx
    · intro x nx hx hkx d' o' nd' hm hnd'
      by_cases e : x = k
      · subst e; rw [n3k] at hx; obtain rfl := Option.some.inj hx
        obtain ⟨hlt, _, nd, hnd, _⟩ := hacc.2.2 d' o' hm
        rw [n3o d' (by komega)] at hnd'
        exact hpk hkx d' o' nd' hm hnd'
      · rw [n3o x e] at hx
        obtain ⟨_, nd, hnd⟩ := i1.down x nx hx d' o' hm
        have := i1.pjKinds x nx hx hkx d' o' nd hm hnd
        by_cases e' : d' = k
        · subst e'; rw [n3k] at hnd'; obtain rfl := Option.some.inj hnd'
          show d.kind = .firewall ∨ (d.kind = .projection ∧ IsStaticKey p d')
          rw [← oldKind nd hnd]; exact this
        · rw [n3o d' e', hnd] at hnd'; cases hnd'; exact this
    · intro x nx dx ks hx hpx hkx hstx
      by_cases e : x = k
      · subst e; rw [n3k] at hx; obtain rfl := Option.some.inj hx
        rw [hp] at hpx; cases hpx
        obtain ⟨h1, h2⟩ := hst hkx ks hstx
        refine ⟨h1, ?_⟩
        show a.tfc = _
        rw [h2]
        apply foldTfc_congr
        intro d' hd'
        have hmem : d' ∈ a.deps.map (·.1) := by rw [h1]; exact mem_recordKeys.2 (Or.inr hd')
        rw [List.mem_map] at hmem
        obtain ⟨⟨d'', o⟩, hm, rfl⟩ := hmem
        have hlt := (hacc.2.2 d'' o hm).1
        simp only [front, n3o d'' (by komega)]
      · rw [n3o x e] at hx
        refine i1.pjStat_transfer ?_ hx hpx hkx hstx
        intro d' nd hnd hkd
        by_cases ed : d' = k
        · subst ed
          have hk0 := oldKind nd hnd
          simp only [front, n3k, hnd]
          show contrib d.kind d' a.tfc = contrib nd.kind d' nd.tfc
          rw [hk0]
          rcases hkd with hkd | ⟨hkd, hsd⟩
          · rw [← hk0, hkd]; rfl
          · have hkdp : d.kind = .projection := by rw [← hk0]; exact hkd
            obtain ⟨ks', hks'⟩ := ksOf hsd
            rw [(hst hkdp ks' hks').2, (i1.pjStat d' nd d ks' hnd hp hkd hks').2]
        · simp only [front, n3o d' ed]
    · intro x nx g o gn hx hm hg hkg hsg
      have tfcK : ∀ n0, s1.nodes k = some n0 → n0.kind = .projection → IsStaticKey p k → a.tfc = n0.tfc := by
        intro n0 h0 hk0 hsk
        have hkdp : d.kind = .projection := by rw [← oldKind n0 h0]; exact hk0
        obtain ⟨ks', hks'⟩ := ksOf hsk
        rw [(hst hkdp ks' hks').2, (i1.pjStat k n0 d ks' h0 hp hk0 hks').2]
      by_cases e : x = k
      · subst e; rw [n3k] at hx; obtain rfl := Option.some.inj hx
        obtain ⟨hlt, _, nd, hnd, _, _, hse, _⟩ := hacc.2.2 g o hm
        rw [n3o g (by komega), hnd] at hg; cases hg
        exact hse
      · rw [n3o x e] at hx
        by_cases eg : g = k
        · subst eg
          rw [n3k] at hg; obtain rfl := Option.some.inj hg
          obtain ⟨_, n0, h0⟩ := i1.down x nx hx g o hm
          have hk0 : n0.kind = .projection := by rw [oldKind n0 h0]; exact hkg
          rw [i1.pjSeen x nx g o n0 hx hm h0 hk0 hsg]
          exact (tfcK n0 h0 hk0 hsg).symm
        · rw [n3o g eg] at hg
          exact i1.pjSeen x nx g o gn hx hm hg hkg hsg
    · intro g gn hg hkg hsg hpg
      have pendMono : ∀ c, hasPending s1 c = true → hasPending s3 c = true := by
        intro c hc
        by_cases ec : c = k
        · subst ec
          simp only [hasPending, n3k]
          show (changed || hasPending s1 c) = true
          simp [hc]
        · simpa [hasPending, n3o c ec] using hc
      by_cases eg : g = k
      · subst eg
        rw [n3k] at hg; obtain rfl := Option.some.inj hg
        have hkdp : d.kind = .projection := hkg
        obtain ⟨ks', hks'⟩ := ksOf hsg
        have hkeys := (hst hkdp ks' hks').1
        -- an old callee with a pending backward projection is still recorded
        have keep : ∀ n0, s1.nodes g = some n0 → ∀ c o, (c, o) ∈ n0.deps → hasPending s1 c = true →
            ∃ c o, (c, o) ∈ a.deps ∧ hasPending s3 c = true := by
          intro n0 h0 c o hm hc
          have hk0 : n0.kind = .projection := by rw [oldKind n0 h0]; exact hkdp
          have hmem : c ∈ a.deps.map (·.1) := by
            rw [hkeys, ← (i1.pjStat g n0 d ks' h0 hp hk0 hks').1]
            exact List.mem_map.2 ⟨(c, o), hm, rfl⟩
          rw [List.mem_map] at hmem
          obtain ⟨⟨c', o'⟩, hm', rfl⟩ := hmem
          exact ⟨c', o', hm', pendMono c' hc⟩
        have hpg' : (changed || hasPending s1 g) = true := hpg
        cases h0 : s1.nodes g with
        | none => simp [changed, valueChanged, projTfcChanged, hasPending, h0] at hpg'
        | some n0 =>
          have hk0 : n0.kind = .projection := by rw [oldKind n0 h0]; exact hkdp
          by_cases hp0 : n0.pendingBP = true
          · obtain ⟨c, o, hm, hc⟩ := i1.pjCause g n0 h0 hk0 hsg hp0
            exact keep n0 h0 c o hm hc
          · -- newly pending: the value changed (the set cannot), so a recorded callee is broken
            have hch : changed = true := by simpa [hasPending, h0, hp0] using hpg'
            have htf : projTfcChanged s1 g a.tfc = false := by
              have : a.tfc = n0.tfc := by
                rw [(hst hkdp ks' hks').2, (i1.pjStat g n0 d ks' h0 hp hk0 hks').2]
              simp [projTfcChanged, h0, this]
            have hvc : valueChanged s1 g v = true := by simpa [changed, htf] using hch
            have hbroken : ∃ c o nc, (c, o) ∈ n0.deps ∧ s1.nodes c = some nc ∧ nc.value ≠ o := by
              false_or_by_contra
              rename_i hno
              have hall : ∀ c o, (c, o) ∈ n0.deps → ∃ nc, s1.nodes c = some nc ∧ nc.value = o := by
                intro c o hm
                obtain ⟨_, nc, hnc⟩ := i1.down g n0 h0 c o hm
                refine ⟨nc, hnc, ?_⟩
                false_or_by_contra
                rename_i hne
                exact hno ⟨c, o, nc, hm, hnc, hne⟩
              -- the stored values are consistent with both recorded runs: same result
              let rec' : Key → Option Val := fun x => (s1.nodes x).map (·.value)
              have t0 := i1.trace g n0 d h0 hp (by rw [hk0]; decide) (by rw [hk0]; decide) rec' (by
                intro c o hm
                obtain ⟨nc, hnc, hv⟩ := hall c o hm
                simp [rec', hnc, hv])
              have t1 := htr rec' (by
                intro c o hm
                obtain ⟨_, _, nc, hnc, hv, _⟩ := hacc.2.2 c o hm
                simp [rec', hnc, hv])
              rw [t0] at t1
              have hvv : n0.value = v := Option.some.inj t1
              simp [valueChanged, h0, hvv] at hvc
            obtain ⟨c, o, nc, hm, hnc, hne⟩ := hbroken
            have hpc := i1.pjBroken g n0 h0 hk0 c o nc hm hnc hne
            exact keep n0 h0 c o hm (by simp [hasPending, hnc, hpc])
      · rw [n3o g eg] at hg
        obtain ⟨c, o, hm, hc⟩ := i1.pjCause g gn hg hkg hsg hpg
        exact ⟨c, o, hm, pendMono c hc⟩
    · intro x nx hx hkx d' o' nd' hm hnd' hne
      by_cases e : x = k
      · subst e; rw [n3k] at hx; obtain rfl := Option.some.inj hx
        obtain ⟨hlt, _, nd, hnd, hvd, _⟩ := hacc.2.2 d' o' hm
        rw [n3o d' (by komega), hnd] at hnd'; cases hnd'
        exact absurd hvd hne
      · rw [n3o x e] at hx
        by_cases e' : d' = k
        · subst e'
          rw [n3k] at hnd'; obtain rfl := Option.some.inj hnd'
          obtain ⟨_, n0, h0⟩ := i1.down x nx hx d' o' hm
          have hk0 := i1.pjKinds x nx hx hkx d' o' n0 hm h0
          show (changed || hasPending s1 d') = true
          by_cases hv0 : n0.value = o'
          · have : valueChanged s1 d' v = true :=
              valueChanged_true_of_ne h0 (hk0.imp id (·.1)) (by rw [hv0]; exact fun h => hne h.symm)
            simp [changed, this]
          · have := i1.pjBroken x nx hx hkx d' o' n0 hm h0 hv0
            simp [hasPending, h0, this]
        · rw [n3o d' e'] at hnd'
          exact i1.pjBroken x nx hx hkx d' o' nd' hm hnd' hne
    · intro x nx hx d' o' hm
      by_cases e : x = k
      · subst e; rw [n3k] at hx; obtain rfl := Option.some.inj hx
        obtain ⟨hlt, _, nd, hnd, _⟩ := hacc.2.2 d' o' hm
        exact ⟨hlt, nd, by rw [n3o d' (by komega)]; exact hnd⟩
      · rw [n3o x e] at hx
        obtain ⟨h1, nd, hnd⟩ := i1.down x nx hx d' o' hm
        by_cases e' : d' = k
        · subst e'; exact ⟨h1, nn, n3k⟩
        · exact ⟨h1, nd, by rw [n3o d' e']; exact hnd⟩
    · intro x nx hx f hf
      by_cases e : x = k
      · subst e; rw [n3k] at hx; obtain rfl := Option.some.inj hx; exact hacc.2.1 f hf
      · rw [n3o x e] at hx; exact i1.tfcDown x nx hx f hf
    · intro x nx hx
      by_cases e : x = k
      · subst e; rw [n3k] at hx; obtain rfl := Option.some.inj hx; exact hacc.1
      · rw [n3o x e] at hx; exact i1.nodup x nx hx
    · intro x nx dx hx hpx _ _
      by_cases e : x = k
      · subst e; rw [n3k] at hx; obtain rfl := Option.some.inj hx
        rw [hp] at hpx; cases hpx; exact htr
      · rw [n3o x e] at hx; exact i1.trace x nx dx hx hpx ‹_› ‹_›
    · intro x nx hx
      rw [e3]
      by_cases e : x = k
      · subst e; rw [n3k] at hx; obtain rfl := Option.some.inj hx; exact Nat.le_refl _
      · rw [n3o x e] at hx; exact i1.stamp x nx hx
    · intro x nx hx d' o' nd' hm hnd'
      by_cases e : x = k
      · subst e; rw [n3k] at hx; obtain rfl := Option.some.inj hx
        obtain ⟨hlt, _, nd, hnd, _, _, hse, hfw, hnm⟩ := hacc.2.2 d' o' hm
        rw [n3o d' (by komega), hnd] at hnd'; cases hnd'
        exact ⟨hfw, fun hk f hf => hnm hk f (by rw [← hse]; exact hf)⟩
      · rw [n3o x e] at hx
        obtain ⟨_, nd, hnd⟩ := i1.down x nx hx d' o' hm
        have hkk : nd'.kind = nd.kind := by
          by_cases e' : d' = k
          · subst e'; rw [n3k] at hnd'; obtain rfl := Option.some.inj hnd'; exact (oldKind nd hnd).symm
          · rw [n3o d' e', hnd] at hnd'; cases hnd'; rfl
        rw [hkk]
        exact i1.seenSub x nx hx d' o' nd hm hnd
    · intro x nx hx hvx
      by_cases e : x = k
      · subst e; rw [n3k] at hx; obtain rfl := Option.some.inj hx
        refine Solid.mk x nn n3k (fun _ => hvx) (fun _ => Or.inl hvx) ?_ ?_
        · intro d' o' hm
          obtain ⟨hlt, _, nd, hnd, hvd, _, hse, _, _⟩ := hacc.2.2 d' o' hm
          exact ⟨nd, by rw [n3o d' (by komega)]; exact hnd, hvd, fun _ => hse.symm⟩
        · intro d' o' hm
          obtain ⟨_, _, nd, hnd, _, hver, _⟩ := hacc.2.2 d' o' hm
          exact sol d' (i1.solid d' nd hnd hver)
      · rw [n3o x e] at hx
        exact sol x (i1.solid x nx hx (by rw [hvx, e3]))
    · intro x nx hx y o hm hcl
      by_cases e : x = k
      · subst e; rw [n3k] at hx; obtain rfl := Option.some.inj hx
        obtain ⟨hlt, _, nd, hnd, hvd, hver, hse, _, _⟩ := hacc.2.2 y o hm
        exact ⟨nd, by rw [n3o y (by komega)]; exact hnd, hvd, fun _ => hse.symm,
          fun _ => (sol y (i1.solid y nd hnd hver)).nGood⟩
      · rw [n3o x e] at hx
        obtain ⟨hc1, haff⟩ := cleanBefore x nx y o e hx hm hcl
        obtain ⟨ny, hny, hvy, hacc', hgood⟩ := i1.clean x nx hx y o hm hc1
        by_cases ey : y = k
        · subst ey
          have hk0k := oldKind ny hny
          have hch : changed = false := by
            cases hx' : changed with
            | false => rfl
            | true => exact (notAffK hx' (haff hx')).elim
          cases hkd : d.kind with
          | input => exact absurd hkd hki
          | external => exact absurd hkd hke
          | normal => exact absurd (hgood (by rw [hk0k, hkd])) (hng ny hny (by rw [hk0k, hkd]))
          | firewall =>
            refine ⟨nn, n3k, ?_, fun h => absurd hkd h, fun h => by rw [show nn.kind = d.kind from rfl, hkd] at h; cases h⟩
            show v = o
            rw [sameVal ny hny (Or.inl (by rw [hk0k, hkd])) hch, hvy]
          | projection =>
            refine ⟨nn, n3k, ?_, fun _ => ?_, fun h => by rw [show nn.kind = d.kind from rfl, hkd] at h; cases h⟩
            · show v = o
              rw [sameVal ny hny (Or.inr (by rw [hk0k, hkd])) hch, hvy]
            · show a.tfc = nx.seen y
              rw [sameTfc ny hny (by rw [hk0k, hkd]) hch]
              exact hacc' (by rw [hk0k, hkd]; decide)
        · exact ⟨ny, by rw [n3o y ey]; exact hny, hvy, hacc', fun h => ng y ny hny h ey (hgood h) haff⟩
  have nodeK : ∀ n0, s1.nodes k = some n0 → n0.kind ≠ .input ∧ n0.kind ≠ .external := by
    intro n0 h0
    rw [oldKind n0 h0]; exact ⟨hki, hke⟩
  have f13 : Frame p s1 s3 := by
    have hin : inputsOf s3 = inputsOf s1 := by
      funext x
      simp only [inputsOf]
      by_cases e : x = k
      · subst e; rw [n3k]
        have h1 : ¬ nn.kind = .input := hki
        cases h0 : s1.nodes x with
        | none => simp [h1]
        | some n0 => simp [h1, (nodeK n0 h0).1]
      · rw [n3o x e]
    have hpin : pinsOf s3 = pinsOf s1 := by
      funext x
      simp only [pinsOf]
      by_cases e : x = k
      · subst e; rw [n3k]
        have h1 : ¬ nn.kind = .external := hke
        cases h0 : s1.nodes x with
        | none => simp [h1]
        | some n0 => simp [h1, (nodeK n0 h0).2]
      · rw [n3o x e]
    refine ⟨e3, hin, by simp only [extOf, hpin, w3], w3, ?_, ?_, ?_, ?_, ?_⟩
    · intro x nx hsx hx
      have : x ≠ k := fun e => hns (e ▸ hsx)
      exact ⟨nx, by rw [n3o x this]; exact hx, rfl, rfl, rfl, rfl, rfl, id⟩
    · intro x nx hx hvx
      have : x ≠ k := fun e => by subst e; exact hwhy.1 ⟨nx, hx, hvx⟩
      exact ⟨nx, by rw [n3o x this]; exact hx, rfl, rfl⟩
    · intro x nx' hx' hpd
      by_cases e : x = k
      · subst e
        rw [n3k] at hx'; obtain rfl := Option.some.inj hx'
        have hpd : (changed || hasPending s1 x) = true := hpd
        cases h0 : s1.nodes x with
        | none => simp [changed, valueChanged, projTfcChanged, hasPending, h0] at hpd
        | some n0 =>
          refine ⟨n0, rfl, ?_⟩
          by_cases hp0 : n0.pendingBP = true
          · exact Or.inl hp0
          · have hch : changed = true := by simpa [hasPending, h0, hp0] using hpd
            by_cases hvv : v = n0.value
            · right; right
              show a.tfc ≠ n0.tfc
              intro ht
              have h1 : valueChanged s1 x v = false := by simp [valueChanged, h0, hvv]
              have h2 : projTfcChanged s1 x a.tfc = false := by simp [projTfcChanged, h0, ht]
              simp [changed, h1, h2] at hch
            · exact Or.inr (Or.inl hvv)
      · exact ⟨nx', by rw [← n3o x e]; exact hx', Or.inl hpd⟩
    · intro x
      by_cases e : x = k
      · subst e; exact Or.inr ⟨nn, n3k, e3.symm⟩
      · exact Or.inl (n3o x e)
    · refine ⟨[k], l3, by simp, fun x hx => ?_, fun x hx hx' => ?_⟩
      · rw [List.mem_singleton] at hx; subst hx
        exact ⟨hwhy, nn, n3k, e3.symm⟩
      · rw [List.mem_singleton]
        false_or_by_contra
        rename_i e
        exact hx' (by rw [n3o x e]; exact hx)
  refine ⟨i3, f13, ⟨fun x hx => n3o x (by komega), ?_⟩, n3k, e3⟩
  intro x n0 h0 hp0
  by_cases e : x = k
  · subst e
    refine ⟨nn, n3k, ?_⟩
    show (changed || hasPending s1 x) = true
    simp [hasPending, h0, hp0]
  · exact ⟨n0, by rw [n3o x e]; exact h0, hp0⟩

end Qbice.CoreFw
