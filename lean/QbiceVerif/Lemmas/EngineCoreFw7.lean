/-
Lemmas about the extended core engine model, part 7: publishing a computed node (`publish_spec`:
`set_computed`, with the dirty propagation of a firewall whose value changed), `execute_spec`,
`executeExt_spec`.
-/
import QbiceVerif.Lemmas.EngineCoreFw6
namespace Qbice.CoreFw
open Qbice.Core (Prog Err Write SetRes allVals evalProg applyWorld Sat TraceOK)

/-- the recorded run of `k` is structurally broken: no node, or a recorded callee whose stored value
    is not the observed one -/
def Broken (s : St) (k : Key) : Prop :=
  s.nodes k = none ∨ ∃ n d o nd, s.nodes k = some n ∧ (d, o) ∈ n.deps ∧ s.nodes d = some nd ∧
    nd.value ≠ o ∧ nd.lastVerified = s.epoch

theorem Broken.frame {p : Program} {s s' : St} {k : Key} (h : Broken s k) (inv : Inv p s)
    (f : Frame p s s') (hk : s'.nodes k = s.nodes k) : Broken s' k := by
  rcases h with h | ⟨n, d, o, nd, hn, hm, hnd, hne, hver⟩
  · exact Or.inl (by rw [hk]; exact h)
  · obtain ⟨nd', hnd', a, _⟩ := f.keep d nd (inv.solid d nd hnd hver) hnd
    obtain ⟨nd'', hnd'', hver'⟩ := f.verified ⟨nd, hnd, hver⟩
    rw [hnd'] at hnd''; cases hnd''
    exact Or.inr ⟨n, d, o, nd', by rw [hk]; exact hn, hm, hnd', by rw [a]; exact hne, hver'⟩

theorem Broken.not_solid {s : St} {k : Key} (h : Broken s k) : ¬ Solid s k := by
  intro hs
  rcases h with h | ⟨n, d, o, nd, hn, hm, hnd, hne, _⟩
  · obtain ⟨n, hn⟩ := hs.node; rw [h] at hn; cases hn
  · cases hs with
    | mk _ n' hn' _ hval _ =>
      rw [hn] at hn'; cases hn'
      obtain ⟨nd', hnd', hv, _⟩ := hval d o hm
      rw [hnd] at hnd'; cases hnd'
      exact hne hv

theorem Broken.not_nGood {s : St} {k : Key} {n : Node} (h : Broken s k) (hn : s.nodes k = some n) :
    ¬ NGood s k := by
  rcases h with h | ⟨n', d, o, nd, hn', hm, hnd, hne, _⟩
  · rw [h] at hn; cases hn
  · exact not_nGood_of_broken hn' hm hnd hne

/-- `set_computed` of a freshly computed node for a key whose recorded run is broken -/
theorem publish_spec {p : Program} (np : NoProj p) {k : Key} {d : NodeDef} (hp : p[k]? = some d)
    (hki : d.kind ≠ .input) (hke : d.kind ≠ .external)
    {s1 : St} (i1 : Inv p s1) (hj1 : Just p s1 k) (hbr : Broken s1 k) {a : Acc} {v : Val} (pb : Bool)
    (hacc : AccOK p k s1 a) (htr : TraceOK d.prog a.deps v) :
    let changed : Bool := valueChanged s1 k v
    let nn : Node := { kind := d.kind, lastVerified := s1.epoch, value := v, deps := a.deps,
                       seen := a.seen, tfc := a.tfc, pendingBP := pb }
    let s3 := install (if changed then markDirty s1 [k] else s1) k nn
    Inv p s3 ∧ Frame p s1 s3 ∧ Touches (k + 1) s1 s3 ∧ s3.nodes k = some nn ∧ s3.epoch = s1.epoch := by
  intro changed nn s3
  have hns : ¬ Solid s1 k := hbr.not_solid
  have hkp : d.kind ≠ .projection := np k d hp
  have n3k : s3.nodes k = some nn := by
    simp only [s3, install, setNode, if_true]
  have n3o : ∀ x, x ≠ k → s3.nodes x = s1.nodes x := by
    intro x hx
    simp only [s3, install, setNode, clearDirtyFrom, if_neg hx]
    split <;> rfl
  have d3k : ∀ y, s3.dirty k y = false := by
    intro y; simp [s3, install, setNode, clearDirtyFrom]
  have d3o : ∀ x y, x ≠ k → s3.dirty x y = (if changed then markDirty s1 [k] else s1).dirty x y := by
    intro x y hx; simp [s3, install, setNode, clearDirtyFrom, hx]
  have e3 : s3.epoch = s1.epoch := by
    simp only [s3, install, setNode, clearDirtyFrom]; split <;> rfl
  have w3 : s3.world = s1.world := by
    simp only [s3, install, setNode, clearDirtyFrom]; split <;> rfl
  have l3 : s3.log = s1.log ++ [k] := by
    simp only [s3, install, setNode, clearDirtyFrom]; split <;> rfl
  clear_value s3
  have down1 : ∀ x n, s1.nodes x = some n → ∀ d o, (d, o) ∈ n.deps → d < x :=
    fun x n hx d o hm => (i1.down x n hx d o hm).1
  -- the old node, if any, has the kind of the program
  have oldKind : ∀ n0, s1.nodes k = some n0 → n0.kind = d.kind := by
    intro n0 h0
    obtain ⟨d', hp', hk', _⟩ := i1.kind k n0 h0
    rw [hp] at hp'; cases hp'
    exact hk'.symm
  -- a clean edge of `s3` outside the row of `k` was clean before, and if the value of the firewall
  -- `k` changed its callee is not affected
  have cleanBefore : ∀ x n y o, x ≠ k → s1.nodes x = some n → (y, o) ∈ n.deps → s3.dirty x y = false →
      s1.dirty x y = false ∧ (changed = true → affected s1 [k] (y + 1) y = false) := by
    intro x n y o hx hnx hm hcl
    rw [d3o x y hx] at hcl
    cases hch : changed with
    | false => rw [hch] at hcl; exact ⟨hcl, fun h => by cases h⟩
    | true =>
      rw [hch] at hcl
      obtain ⟨h1, h2⟩ := markDirty_clean hnx hm hcl
      exact ⟨h1, fun _ => h2⟩
  have sol : ∀ x, Solid s1 x → Solid s3 x := fun x hx => hx.avoid hns e3 n3o
  -- `NGood` of a normal key other than `k` survives when the edge into it is still clean
  have ng : ∀ y ny, s1.nodes y = some ny → ny.kind = .normal → y ≠ k → NGood s1 y →
      (changed = true → affected s1 [k] (y + 1) y = false) → NGood s3 y := by
    intro y ny hny hkn hyk hg haff
    cases hch : changed with
    | true =>
      refine hg.unaffected down1 (fun z hz => n3o z (fun e => hz (by simp [e]))) ny hny hkn (haff hch)
    | false =>
      cases hk0 : s1.nodes k with
      | none => exact hg.fresh hk0 n3o
      | some n0 =>
        have hk0k := oldKind n0 hk0
        refine hg.avoid hk0 n3k n3o (by show d.kind = n0.kind; rw [hk0k]) ?_ hyk
        cases hkd : d.kind with
        | input => exact absurd hkd hki
        | external => exact absurd hkd hke
        | projection => exact absurd hkd hkp
        | normal => exact Or.inr ⟨by rw [hk0k, hkd], hbr.not_nGood hk0⟩
        | firewall =>
          refine Or.inl ⟨by rw [hk0k, hkd], ?_⟩
          show v = n0.value
          have : changed = (isFwPj n0.kind && decide (n0.value ≠ v)) := by
            simp only [changed, valueChanged, hk0]
          rw [hch, hk0k, hkd] at this
          simp [isFwPj] at this
          exact this.symm
  have i3 : Inv p s3 := by
    constructor
    · intro x nx hx
      by_cases e : x = k
      · subst e; rw [n3k] at hx; cases hx
        exact ⟨d, hp, rfl, fun h => by rcases h with h | h; exact absurd h hki; exact absurd h hke⟩
      · rw [n3o x e] at hx; exact i1.kind x nx hx
    · intro x nx hx
      by_cases e : x = k
      · subst e; rw [n3k] at hx; cases hx; exact hkp
      · rw [n3o x e] at hx; exact i1.noProj x nx hx
    · intro x nx hx d' o' hm
      by_cases e : x = k
      · subst e; rw [n3k] at hx; cases hx
        obtain ⟨hlt, _, nd, hnd, _⟩ := hacc.2.2 d' o' hm
        exact ⟨hlt, nd, by rw [n3o d' (by komega)]; exact hnd⟩
      · rw [n3o x e] at hx
        obtain ⟨h1, nd, hnd⟩ := i1.down x nx hx d' o' hm
        by_cases e' : d' = k
        · subst e'; exact ⟨h1, nn, n3k⟩
        · exact ⟨h1, nd, by rw [n3o d' e']; exact hnd⟩
    · intro x nx hx f hf
      by_cases e : x = k
      · subst e; rw [n3k] at hx; cases hx; exact hacc.2.1 f hf
      · rw [n3o x e] at hx; exact i1.tfcDown x nx hx f hf
    · intro x nx hx
      by_cases e : x = k
      · subst e; rw [n3k] at hx; cases hx; exact hacc.1
      · rw [n3o x e] at hx; exact i1.nodup x nx hx
    · intro x nx dx hx hpx _ _
      by_cases e : x = k
      · subst e; rw [n3k] at hx; cases hx
        rw [hp] at hpx; cases hpx; exact htr
      · rw [n3o x e] at hx; exact i1.trace x nx dx hx hpx ‹_› ‹_›
    · intro x nx hx
      rw [e3]
      by_cases e : x = k
      · subst e; rw [n3k] at hx; cases hx; exact Nat.le_refl _
      · rw [n3o x e] at hx; exact i1.stamp x nx hx
    · intro x nx hx d' o' nd' hm hnd'
      by_cases e : x = k
      · subst e; rw [n3k] at hx; cases hx
        obtain ⟨hlt, _, nd, hnd, _, _, hse, hfw, hnm⟩ := hacc.2.2 d' o' hm
        rw [n3o d' (by komega), hnd] at hnd'; cases hnd'
        exact ⟨hfw, fun hk f hf => hnm hk f (by rw [← hse]; exact hf)⟩
      · rw [n3o x e] at hx
        obtain ⟨_, nd, hnd⟩ := i1.down x nx hx d' o' hm
        have hkk : nd'.kind = nd.kind := by
          by_cases e' : d' = k
          · subst e'; rw [n3k] at hnd'; cases hnd'; exact (oldKind nd hnd).symm
          · rw [n3o d' e', hnd] at hnd'; cases hnd'; rfl
        rw [hkk]
        exact i1.seenSub x nx hx d' o' nd hm hnd
    · intro x nx hx hvx
      by_cases e : x = k
      · subst e; rw [n3k] at hx; cases hx
        refine Solid.mk x nn n3k (fun _ => hvx) ?_ ?_
        · intro d' o' hm
          obtain ⟨hlt, _, nd, hnd, hvd, _, hse, _, _⟩ := hacc.2.2 d' o' hm
          exact ⟨nd, by rw [n3o d' (by komega)]; exact hnd, hvd, fun _ => hse.symm⟩
        · intro d' o' hm
          obtain ⟨_, _, nd, hnd, _, hver, _⟩ := hacc.2.2 d' o' hm
          exact sol d' (i1.solid d' nd hnd hver)
      · rw [n3o x e] at hx
        exact sol x (i1.solid x nx hx (by rw [hvx, e3]))
    · intro x nx hx y o hm hcl
      by_cases e : x = k
      · subst e; rw [n3k] at hx; cases hx
        obtain ⟨hlt, _, nd, hnd, hvd, hver, hse, _, _⟩ := hacc.2.2 y o hm
        exact ⟨nd, by rw [n3o y (by komega)]; exact hnd, hvd, fun _ => hse.symm,
          fun _ => (sol y (i1.solid y nd hnd hver)).nGood⟩
      · rw [n3o x e] at hx
        obtain ⟨hc1, haff⟩ := cleanBefore x nx y o e hx hm hcl
        obtain ⟨ny, hny, hvy, hacc', hgood⟩ := i1.clean x nx hx y o hm hc1
        by_cases ey : y = k
        · subst ey
          have hk0k := oldKind ny hny
          cases hkd : d.kind with
          | input => exact absurd hkd hki
          | external => exact absurd hkd hke
          | projection => exact absurd hkd hkp
          | normal => exact absurd (hgood (by rw [hk0k, hkd])) (hbr.not_nGood hny)
          | firewall =>
            have hch : changed = decide (ny.value ≠ v) := by
              simp only [changed, valueChanged, hny, hk0k, hkd, isFwPj]; simp
            refine ⟨nn, n3k, ?_, fun h => absurd hkd h, fun h => by rw [show nn.kind = d.kind from rfl, hkd] at h; cases h⟩
            show v = o
            by_cases hvv : ny.value = v
            · rw [← hvv, hvy]
            · have : changed = true := by rw [hch]; simpa using hvv
              have := haff this
              rw [affected_step [y] down1] at this
              simp at this
        · exact ⟨ny, by rw [n3o y ey]; exact hny, hvy, hacc', fun h => ng y ny hny h ey (hgood h) haff⟩
  have nodeK : ∀ n0, s1.nodes k = some n0 → n0.kind ≠ .input ∧ n0.kind ≠ .external := by
    intro n0 h0
    rw [oldKind n0 h0]; exact ⟨hki, hke⟩
  have f13 : Frame p s1 s3 := by
    have hin : inputsOf s3 = inputsOf s1 := by
      funext x
      simp only [inputsOf]
      by_cases e : x = k
      · subst e; rw [n3k]
        have h1 : ¬ nn.kind = .input := hki
        cases h0 : s1.nodes x with
        | none => simp [h1]
        | some n0 => simp [h1, (nodeK n0 h0).1]
      · rw [n3o x e]
    have hpin : pinsOf s3 = pinsOf s1 := by
      funext x
      simp only [pinsOf]
      by_cases e : x = k
      · subst e; rw [n3k]
        have h1 : ¬ nn.kind = .external := hke
        cases h0 : s1.nodes x with
        | none => simp [h1]
        | some n0 => simp [h1, (nodeK n0 h0).2]
      · rw [n3o x e]
    refine ⟨e3, hin, by simp only [extOf, hpin, w3], w3, ?_, ?_, ?_⟩
    · intro x nx hsx hx
      have : x ≠ k := fun e => hns (e ▸ hsx)
      exact ⟨nx, by rw [n3o x this]; exact hx, rfl, rfl, rfl, rfl, rfl⟩
    · intro x
      by_cases e : x = k
      · subst e; exact Or.inr ⟨nn, n3k, e3.symm⟩
      · exact Or.inl (n3o x e)
    · refine ⟨[k], l3, by simp, fun x hx => ?_, fun x hx hx' => ?_⟩
      · rw [List.mem_singleton] at hx; subst hx; exact ⟨hj1, nn, n3k, e3.symm⟩
      · rw [List.mem_singleton]
        false_or_by_contra
        rename_i e
        exact hx' (by rw [n3o x e]; exact hx)
  refine ⟨i3, f13, ?_, n3k, e3⟩
  intro x hx
  exact n3o x (by komega)

end Qbice.CoreFw
